(* Journey2.v -- T2 for C03 (journey continuity) on the STAGE-2 engine model (Engine2.v): routers of all kinds, reneging and
   jockeying, blocking, server schedules, slotted services, class change, priority pre-emption.

   The HISTORY h is the concatenation of the logs of all events so far; `an i` is the node where customer i arrived from
   outside (a ghost read off the run: the customers created by an arrival event of state s arrive at a_next_node (arr s)).
   Record types: 0 service, 1 interruption, 2 renege, 3 baulk, 4 rejection.  A record CLOSES its visit when it is a service
   record, a renege record, or an interruption record that names a destination (rerouting); an interruption record without
   destination is a CONTINUATION record: written in the middle of a visit that goes on at the same node (closing / cont / link).

   Main result, for every configuration IN SCOPE (scope2, executable, below), every state satisfying the invariant Jrn2, every
   oracle of draws (no hypothesis on the draws) and any number of events (event_step_jrn2, run_hist_jrn2, run_many_jrn2,
   engine_journey2; partial correctness: nothing is said about runs that return Err / OutOfFuel), in the words of C03 (Jrn2_means):
     (0) the first record of a customer is at the node where it arrived;
     (1) of two consecutive records r1 r2 of a customer, r2 is not a baulk / rejection record and either r1 closes its visit,
         names the node of r2 as destination and ends at the instant the visit of r2 began (r_exit r1 = r_arr r2), or r1 is a
         continuation record and r2 belongs to the same visit: same node, same arrival date;
     (2) a baulk / rejection record is its customer's only record;
     (3) a customer in node k is recorded there (i_node), its own record counter is the number of its records, and its last
         record either closed the previous visit naming k and ending at the customer's arrival date i_arr, or is a
         continuation record of the present visit (node k, arrival date i_arr), or it has no record and arrived at k;
         moreover its last visit-closing record names k and ends at i_arr and all later records are of the present visit,
         and if it has no visit-closing record at all then k is where it arrived (one closing record per completed visit);
     (4) a customer is at the exit exactly when its last record names destination -1 or is a baulk / rejection record;
     (5) records only name customers that exist.

   Scope (scope2 cf = true), every clause executable on the configuration:
     - no node pre-empts by REROUTING (nc_preempt <> 4); no pre-emptive schedule (sc_pre = 0); no pre-emptive capacitated slot;
       a slotted node has neither reneging nor priority pre-emption;
     - if some node has priority pre-emption (resume / restart / resample), then no node has a capacity (nobody is ever
       blocked) and there are no class-change times (no class change while waiting).
   scopeA (no pre-emption at all: all routers, reneging + jockeying, blocking, non-pre-emptive schedules, slots, class change
   after service and while waiting) is the sub-scope the stage-1 theorem extends to; scopeA_scope2.
   Why the restriction: journey_refuted_preempt_blocked -- outside the scope the statement is FALSE of the model (region F-02a:
   priority pre-emption of a BLOCKED customer; the consequence for the records is new): a closed nine-event run from an empty
   three-node system that satisfies the invariant, after which customer 2 has a service record at node 1 naming node 3 directly
   followed by a record at node 2 (it sat in the blocked queues of node 2 and node 3 at once; the clock went back from 8 to 7
   on the way); nothing crashed.  NOT covered and not refuted (what is missing for the full statement): pre-emption by
   rerouting (also interrupt_service with option reroute); pre-emptive schedules / capacitated slots WITHOUT blocking (they need
   an invariant for the list of interrupted customers); priority pre-emption together with class change while waiting;
   reneging or priority pre-emption at a slotted node.  event_step_jrn2_partial / run_many_jrn2_partial name this.

   The invariant Jrn2 cf an s h (executable: jrn2_b, jrn2_b_sound) = Conserve2.WFx2 (conservation) + JH (the journey
   invariant proper) + Lq (every entry (from, y) of the blocked queue of node d is a customer flagged blocked whose recorded
   destination is d, no customer twice in one blocked queue: the stage-2 analogue of Blocking.Who) + NoInt (nobody is
   interrupted) + SrvInv (a server of a non-slotted node that holds a customer is that customer's server, the customer is of
   that node, and while the server has an end-of-service date the customer is not blocked; server identities are distinct; a
   blocked customer without server is at an infinite-server or slotted node; with priority pre-emption nobody is blocked)
   + PickOK (the customers a node names for its next end of service / renege are not blocked; a class change while waiting
   is only scheduled when there are class-change times).  SrvInv and PickOK are what makes the customer finish_service /
   renege picks free of stale blocked-queue entries, and the victim of a pre-emption a customer of the pre-empting node.

   Method: one frame logic generic in what is looked at (keepV fn fi fg K m), instantiated for the journey view (J), the
   server view (S) and both (B), one line per engine function; the functions that move customers, write records or touch
   servers are walked through by hand (St = journey state + server invariant), the recursion release / release_blocked_
   individual / accept / preempt by induction on the fuel (core_St).
   Examples: jx_* (reneging + jockeying + blocking, scopeA), jp_* (priority pre-emption: the network of Conserve2.v). *)
From Coq Require Import ZArith List Bool Lia Permutation.
From RecordUpdate Require Import RecordUpdate.
From CiwV Require Import Sx Prelude Routing Sched.
From CiwV.Engine Require Import State2 Engine2 Codec2.
From CiwV.Inv Require Conserve2.
Import ListNotations.
Open Scope Z_scope.

Local Arguments Z.mul : simpl never.
Local Arguments Z.add : simpl never.
Local Arguments Z.sub : simpl never.
Local Arguments Z.ltb : simpl never.
Local Arguments Z.leb : simpl never.
Local Arguments Z.eqb : simpl never.
Local Arguments Z.to_nat : simpl never.
Local Arguments Z.of_nat : simpl never.
Local Arguments nth_error : simpl never.

(* ====================================================================================================================
   0. The monad, access functions, small list facts
   ==================================================================================================================== *)
Lemma ret_spec {A} (a b : A) s s' : ret a s = Ok (b, s') -> b = a /\ s' = s.
Proof. unfold ret. intros H. injection H as <- <-. auto. Qed.
Lemma gets_spec {A} (f : sim -> A) b s s' : gets f s = Ok (b, s') -> b = f s /\ s' = s.
Proof. unfold gets. intros H. injection H as <- <-. auto. Qed.
Lemma modify_spec f u s s' : modify f s = Ok (u, s') -> s' = f s.
Proof. unfold modify. intros H. injection H as <- <-. auto. Qed.
Lemma lift_spec {A} e (o : option A) a s s' : lift e o s = Ok (a, s') -> s' = s /\ o = Some a.
Proof. destruct o as [x|]; cbn; unfold ret, fail; intros H; [injection H as <- <-; auto|discriminate]. Qed.
Definition nodeZ (s : sim) (k : Z) : option node := nthZ (nodes s) (k - 1).
Lemma get_node_spec j nd s s' : get_node j s = Ok (nd, s') -> s' = s /\ nodeZ s j = Some nd.
Proof. intros H. apply Conserve2.get_node_spec in H. unfold nodeZ. tauto. Qed.
Lemma get_ind_spec i x s s' : get_ind i s = Ok (x, s') -> s' = s /\ find_ind i (inds s) = Some x.
Proof. unfold get_ind. destruct (find_ind i (inds s)) as [y|]; [|discriminate]. intros H. injection H as <- <-. auto. Qed.
Lemma ncfg_of_spec cf j nc s s' : ncfg_of cf j s = Ok (nc, s') -> s' = s /\ nthZ (cf_nodes cf) (j - 1) = Some nc.
Proof. unfold ncfg_of. apply lift_spec. Qed.

(* one bind of a hypothesis H : bind m f s = Ok _; the reads are resolved on the spot *)
Ltac mstep_core H a :=
  match type of H with
  | bind ?m ?f ?s = Ok _ =>
    let s1 := fresh "s" in let E := fresh "E" in
    unfold bind in H at 1; destruct (m s) as [[a s1]| |] eqn:E; [|discriminate H|discriminate H];
    lazymatch m with
    | ret _ => apply ret_spec in E as [-> ->]
    | gets _ => apply gets_spec in E as [-> ->]
    | tnow => apply gets_spec in E as [-> ->]
    | lift _ _ => let Hl := fresh "Hl" in apply lift_spec in E as [-> Hl]
    | get_node _ => let Hn := fresh "Hn" in apply get_node_spec in E as [-> Hn]
    | get_ind _ => let Hf := fresh "Hf" in apply get_ind_spec in E as [-> Hf]
    | ncfg_of _ _ => let Hc := fresh "Hc" in apply ncfg_of_spec in E as [-> Hc]
    | _ => try (match type of a with unit => destruct a end)
    end
  end.
Tactic Notation "mstep" hyp(H) := let a := fresh "a" in mstep_core H a.
Tactic Notation "mstep" hyp(H) "as" ident(a) := mstep_core H a.

Lemma find_ind_id i l x : find_ind i l = Some x -> i_id x = i.
Proof. apply Conserve2.find_ind_id. Qed.
Lemma find_put_ind x l i : find_ind i (put_ind_l x l) = if i =? i_id x then Some x else find_ind i l.
Proof.
  induction l as [|y r IH]; cbn.
  - rewrite (Z.eqb_sym (i_id x) i). reflexivity.
  - destruct (i_id y =? i_id x) eqn:E; cbn.
    + apply Z.eqb_eq in E. rewrite (Z.eqb_sym (i_id x) i). destruct (i =? i_id x) eqn:E2; [reflexivity|].
      rewrite E. rewrite (Z.eqb_sym (i_id x) i), E2. reflexivity.
    + destruct (i_id y =? i) eqn:E2; [|exact IH].
      apply Z.eqb_eq in E2. apply Z.eqb_neq in E. destruct (i =? i_id x) eqn:E3; [apply Z.eqb_eq in E3; lia|reflexivity].
Qed.
Lemma find_put_same x l : find_ind (i_id x) (put_ind_l x l) = Some x.
Proof. rewrite find_put_ind, Z.eqb_refl. reflexivity. Qed.
Lemma find_put_other x l i : i <> i_id x -> find_ind i (put_ind_l x l) = find_ind i l.
Proof. intros H. rewrite find_put_ind. apply Z.eqb_neq in H. rewrite H. reflexivity. Qed.
Lemma find_del_other i l y : y <> i -> find_ind y (del_ind_l i l) = find_ind y l.
Proof.
  intros Hne. induction l as [|z r IH]; cbn; [reflexivity|]. destruct (i_id z =? i) eqn:E; cbn.
  - apply Z.eqb_eq in E. destruct (i_id z =? y) eqn:E2; [apply Z.eqb_eq in E2; congruence|reflexivity].
  - destruct (i_id z =? y); [reflexivity|exact IH].
Qed.
Lemma find_ind_In i l x : find_ind i l = Some x -> In x l.
Proof. induction l as [|y r IH]; cbn; [discriminate|]. destruct (i_id y =? i); [intros H; injection H as ->; left; reflexivity|intros H; right; auto]. Qed.

Lemma nthZ_In {A} (l : list A) k x : nthZ l k = Some x -> In x l.
Proof. unfold nthZ. destruct (k <? 0); [discriminate|apply nth_error_In]. Qed.

(* ====================================================================================================================
   1. A frame logic, generic in what is looked at: fn (of a node) and fi (of a customer record); the exit list and counter,
      the creation counter, the clock and the log of the event are always looked at.  keepV K m: m leaves the view alone,
      K remembering which nodes / records have been read so that writing them back is neutral.
   ==================================================================================================================== *)
Section Assoc.
  Context {V : Type}.
  Fixpoint afind (i : Z) (l : list (Z * V)) : option V :=
    match l with [] => None | (k, v) :: r => if k =? i then Some v else afind i r end.
  Fixpoint aput (p : Z * V) (l : list (Z * V)) : list (Z * V) :=
    match l with [] => [p] | q :: r => if fst q =? fst p then p :: r else q :: aput p r end.
  Lemma aput_same p l : afind (fst p) l = Some (snd p) -> aput p l = l.
  Proof.
    destruct p as [k o]. cbn. induction l as [|[k' o'] r IH]; cbn; [discriminate|]. destruct (k' =? k) eqn:E.
    - intros H. injection H as ->. apply Z.eqb_eq in E. rewrite E. reflexivity.
    - intros H. rewrite (IH H). reflexivity.
  Qed.
End Assoc.

Section View.
  Context {NV IV GV : Type}.
  Variable fn : node -> NV.
  Variable fi : ind -> IV.
  Variable fg : sim -> GV.
  Hypothesis fg_dr : forall s d, fg (s <| dr := d |>) = fg s.
  Hypothesis fg_nodes : forall s l, fg (s <| nodes := l |>) = fg s.
  Hypothesis fg_inds : forall s l, fg (s <| inds := l |>) = fg s.
  Record view := mkV { v_ns : list (Z * NV); v_is : list (Z * IV); v_g : GV }.
  Definition nv (nd : node) : Z * NV := (n_id nd, fn nd).
  Definition iv (x : ind) : Z * IV := (i_id x, fi x).
  Definition VW (s : sim) : view :=
    mkV (map nv (nodes s)) (map iv (inds s)) (fg s).
  Definition vidx (w : view) : Prop := forall k t, nth_error (v_ns w) k = Some t -> fst t = Z.of_nat k + 1.
  Definition okn (w : view) (nd : node) : Prop := nthZ (v_ns w) (n_id nd - 1) = Some (nv nd).
  Definition oki (w : view) (x : ind) : Prop := afind (i_id x) (v_is w) = Some (fi x).
  Definition keepV (K : view -> Prop) {X} (m : M X) : Prop :=
    forall s a s', vidx (VW s) -> K (VW s) -> m s = Ok (a, s') -> VW s' = VW s.
  Definition KT : view -> Prop := fun _ => True.

  Lemma afind_iv i l : afind i (map iv l) = option_map fi (find_ind i l).
  Proof. induction l as [|y r IH]; cbn; [reflexivity|]. destruct (i_id y =? i); [reflexivity|exact IH]. Qed.
  Lemma map_iv_put x l : map iv (put_ind_l x l) = aput (iv x) (map iv l).
  Proof. induction l as [|y r IH]; cbn; [reflexivity|]. destruct (i_id y =? i_id x); cbn; [reflexivity|]. rewrite IH. reflexivity. Qed.

  Lemma kv_weak (K K' : view -> Prop) {X} (m : M X) : keepV K m -> (forall w, K' w -> K w) -> keepV K' m.
  Proof. intros H HK s a s' HI Hk E. eapply H; eauto. Qed.
  Lemma kv_T (K : view -> Prop) {X} (m : M X) : keepV KT m -> keepV K m.
  Proof. intros H. eapply kv_weak; [exact H|]. intros; exact I. Qed.
  Lemma kv_false (K : view -> Prop) {X} (m : M X) : (forall w, K w -> False) -> keepV K m.
  Proof. intros HK s a s' _ Hk _. destruct (HK _ Hk). Qed.
  Lemma kv_ret K {X} (a : X) : keepV K (ret a).
  Proof. intros s a0 s' _ _ H. inversion H. reflexivity. Qed.
  Lemma kv_fail K {X} e : keepV K (@fail X e).
  Proof. intros s a s' _ _ H. discriminate. Qed.
  Lemma kv_oof K {X} : keepV K (@oof X).
  Proof. intros s a s' _ _ H. discriminate. Qed.
  Lemma kv_bind K {X Y} (m : M X) (f : X -> M Y) : keepV K m -> (forall a, keepV K (f a)) -> keepV K (bind m f).
  Proof.
    intros Hm Hf s b s' HI HK H. unfold bind in H. destruct (m s) as [[a s1]| |] eqn:E; try discriminate.
    pose proof (Hm _ _ _ HI HK E) as E1. rewrite <- E1 in HI, HK. rewrite (Hf a _ _ _ HI HK H). exact E1.
  Qed.
  Lemma kv_gets K {X} (f : sim -> X) : keepV K (gets f).
  Proof. intros s a s' _ _ H. inversion H. reflexivity. Qed.
  Lemma kv_lift K {X} e (o : option X) : keepV K (lift e o).
  Proof. destruct o; [apply kv_ret|apply kv_fail]. Qed.
  Lemma kv_lift_bind K {X Y} e (o : option X) (f : X -> M Y) : (forall a, o = Some a -> keepV K (f a)) -> keepV K (bind (lift e o) f).
  Proof.
    intros Hf s b s' HI HK H. unfold bind in H. destruct o as [a|]; cbn in H; [|discriminate]. eapply Hf; eauto.
  Qed.
  Lemma kv_modify K (f : sim -> sim) : (forall s, VW (f s) = VW s) -> keepV K (modify f).
  Proof. intros Hf s a s' _ _ H. inversion H. apply Hf. Qed.

  Lemma get_node_okn j s nd : vidx (VW s) -> nthZ (nodes s) (j - 1) = Some nd -> n_id nd = j /\ okn (VW s) nd.
  Proof.
    intros HI Hn. destruct (Conserve2.nthZ_nat _ _ _ Hn) as (k & Hk & Hnk).
    assert (Hid : n_id nd = j).
    { specialize (HI k (nv nd)). cbn in HI. rewrite nth_error_map, Hnk in HI. specialize (HI eq_refl). cbn in HI. lia. }
    split; [exact Hid|]. unfold okn. cbn. rewrite Hid, Conserve2.nthZ_map, Hn. reflexivity.
  Qed.
  Lemma get_ind_oki i s x : find_ind i (inds s) = Some x -> i_id x = i /\ oki (VW s) x.
  Proof.
    intros E. pose proof (find_ind_id _ _ _ E) as Hid. split; [exact Hid|]. unfold oki. cbn. rewrite afind_iv, Hid, E. reflexivity.
  Qed.
  Lemma kv_get_node_bind K {Y} j (f : node -> M Y) :
    (forall nd, n_id nd = j -> keepV (fun w => K w /\ okn w nd) (f nd)) -> keepV K (bind (get_node j) f).
  Proof.
    intros Hf s b s' HI HK H. unfold bind in H. destruct (get_node j s) as [[nd s1]| |] eqn:E; try discriminate.
    apply get_node_spec in E as (-> & Hn). destruct (get_node_okn j s nd HI Hn) as [Hid Ho].
    eapply Hf; [exact Hid|exact HI| |exact H]. split; assumption.
  Qed.
  Lemma kv_get_node K j : keepV K (get_node j).
  Proof. intros s a s' _ _ H. apply get_node_spec in H as (-> & _). reflexivity. Qed.
  Lemma kv_get_ind_bind K {Y} i (f : ind -> M Y) :
    (forall x, i_id x = i -> keepV (fun w => K w /\ oki w x) (f x)) -> keepV K (bind (get_ind i) f).
  Proof.
    intros Hf s b s' HI HK H. unfold bind in H. destruct (get_ind i s) as [[x s1]| |] eqn:E; try discriminate.
    apply get_ind_spec in E as (-> & Hx). destruct (get_ind_oki i s x Hx) as [Hid Ho].
    eapply Hf; [exact Hid|exact HI| |exact H]. split; assumption.
  Qed.
  Lemma kv_get_ind K i : keepV K (get_ind i).
  Proof. intros s a s' _ _ H. apply get_ind_spec in H as (-> & _). reflexivity. Qed.

  Lemma put_node_view nd nd0 s : okn (VW s) nd0 -> nv nd = nv nd0 -> VW (s <| nodes := updZ (nodes s) (n_id nd - 1) nd |>) = VW s.
  Proof.
    intros Hn He. unfold VW. rewrite fg_nodes. cbn. f_equal.
    assert (Hid : n_id nd = n_id nd0) by (unfold nv in He; congruence).
    unfold okn in Hn. cbn in Hn. rewrite Hid. destruct (Conserve2.nthZ_nat _ _ _ Hn) as (k & Hk & Hnk). rewrite Hk, Conserve2.updZ_nat.
    rewrite Conserve2.upd_map. apply Conserve2.upd_same. rewrite He. exact Hnk.
  Qed.
  Lemma kv_put_node (K : view -> Prop) nd : (forall w, K w -> exists nd0, okn w nd0 /\ nv nd = nv nd0) -> keepV K (put_node nd).
  Proof.
    intros HK s a s' _ Hk H. unfold put_node, modify in H. inversion H. destruct (HK _ Hk) as (nd0 & Hn & He).
    eapply put_node_view; eauto.
  Qed.
  Lemma put_ind_view x x0 s : oki (VW s) x0 -> iv x = iv x0 -> VW (s <| inds := put_ind_l x (inds s) |>) = VW s.
  Proof.
    intros Ho He. unfold VW. rewrite fg_inds. cbn. f_equal. rewrite map_iv_put. apply aput_same. rewrite He. exact Ho.
  Qed.
  Lemma kv_put_ind (K : view -> Prop) x : (forall w, K w -> exists x0, oki w x0 /\ iv x = iv x0) -> keepV K (put_ind x).
  Proof.
    intros HK s a s' _ Hk H. unfold put_ind, modify in H. inversion H. destruct (HK _ Hk) as (x0 & Ho & He).
    eapply put_ind_view; eauto.
  Qed.
  Lemma kv_upd_node K j (g : node -> node) : (forall nd, nv (g nd) = nv nd) -> keepV K (upd_node j g).
  Proof.
    intros Hg. unfold upd_node. apply kv_get_node_bind. intros nd _. apply kv_put_node. intros w [_ Hn]. exists nd. split; [exact Hn|apply Hg].
  Qed.
  Lemma kv_upd_ind K i (g : ind -> ind) : (forall x, iv (g x) = iv x) -> keepV K (upd_ind i g).
  Proof.
    intros Hg. unfold upd_ind. apply kv_get_ind_bind. intros x _. apply kv_put_ind. intros w [_ Hx]. exists x. split; [exact Hx|apply Hg].
  Qed.
  Lemma kv_draw_arr K : keepV K draw_arr.
  Proof. intros s a s' _ _ H. unfold draw_arr in H. destruct (d_arr (dr s)); inversion H. unfold VW. rewrite fg_dr. reflexivity. Qed.
  Lemma kv_draw_batch K : keepV K draw_batch.
  Proof. intros s a s' _ _ H. unfold draw_batch in H. destruct (d_batch (dr s)); inversion H. unfold VW. rewrite fg_dr. reflexivity. Qed.
  Lemma kv_draw_svc K : keepV K draw_svc.
  Proof. intros s a s' _ _ H. unfold draw_svc in H. destruct (d_svc (dr s)); inversion H. unfold VW. rewrite fg_dr. reflexivity. Qed.
  Lemma kv_draw_unif K : keepV K draw_unif.
  Proof. intros s a s' _ _ H. unfold draw_unif in H. destruct (d_unif (dr s)); inversion H. unfold VW. rewrite fg_dr. reflexivity. Qed.
  Lemma kv_draw_ren K : keepV K draw_ren.
  Proof. intros s a s' _ _ H. unfold draw_ren in H. destruct (d_ren (dr s)); inversion H. unfold VW. rewrite fg_dr. reflexivity. Qed.
  Lemma kv_draw_cct K : keepV K draw_cct.
  Proof. intros s a s' _ _ H. unfold draw_cct in H. destruct (d_cct (dr s)); inversion H. unfold VW. rewrite fg_dr. reflexivity. Qed.
  Lemma kv_mapM K {X Y} (f : X -> M Y) l : (forall a, keepV K (f a)) -> keepV K (mapM f l).
  Proof.
    intros Hf. induction l as [|a r IH]; cbn [mapM]; [apply kv_ret|].
    apply kv_bind; [apply Hf|]. intros b. apply kv_bind; [exact IH|]. intros bs. apply kv_ret.
  Qed.
  Lemma kv_forM K {X} (f : X -> M unit) l : (forall a, keepV K (f a)) -> keepV K (forM_ l f).
  Proof. intros Hf. induction l as [|a r IH]; cbn [forM_]; [apply kv_ret|]. apply kv_bind; [apply Hf|]. intros _. exact IH. Qed.

  (* what the view determines *)
  Lemma VW_node s s' k : VW s' = VW s -> option_map nv (nodeZ s' k) = option_map nv (nodeZ s k).
  Proof. intros E. unfold nodeZ. rewrite <- !Conserve2.nthZ_map. change (map nv (nodes s')) with (v_ns (VW s')). rewrite E. reflexivity. Qed.
  Lemma VW_ind s s' i : VW s' = VW s -> option_map fi (find_ind i (inds s')) = option_map fi (find_ind i (inds s)).
  Proof. intros E. rewrite <- !afind_iv. change (map iv (inds s')) with (v_is (VW s')). rewrite E. reflexivity. Qed.
End View.

Arguments KT {NV IV GV}.
Arguments v_ns {NV IV GV}. Arguments v_is {NV IV GV}. Arguments v_g {NV IV GV}.

(* side conditions: find the remembered node / record *)
Ltac kv_side :=
  let w := fresh "w" in let HK := fresh "HK" in
  intros w HK; repeat match goal with H : _ /\ _ |- _ => destruct H end;
  first [ match goal with H : okn _ w ?nd |- exists _, okn _ _ _ /\ _ => exists nd; split; [exact H|reflexivity] end
        | match goal with H : oki _ w ?x |- exists _, oki _ _ _ /\ _ => exists x; split; [exact H|reflexivity] end ].

Ltac kv_prim :=
  first [ apply kv_ret | apply kv_fail | apply kv_oof | apply kv_gets | apply kv_lift
        | (first [ apply kv_draw_arr | apply kv_draw_batch | apply kv_draw_svc | apply kv_draw_unif | apply kv_draw_ren | apply kv_draw_cct ];
           intros ? ?; reflexivity)
        | (apply kv_upd_node; [intros ? ?; reflexivity|intros ?; reflexivity])
        | (apply kv_upd_ind; [intros ? ?; reflexivity|intros ?; reflexivity])
        | (apply kv_put_node; [intros ? ?; reflexivity|kv_side])
        | (apply kv_put_ind; [intros ? ?; reflexivity|kv_side])
        | apply kv_get_node | apply kv_get_ind
        | (apply kv_modify; intros ?; reflexivity) ].
Ltac kv_struct :=
  match goal with
  | |- keepV _ _ _ _ (bind (get_node _) _) => apply kv_get_node_bind; intros ? ?
  | |- keepV _ _ _ _ (bind (get_ind _) _) => apply kv_get_ind_bind; intros ? ?
  | |- keepV _ _ _ _ (bind _ _) => apply kv_bind; [|intros ?]
  | |- keepV _ _ _ _ (mapM _ _) => apply kv_mapM; intros ?
  | |- keepV _ _ _ _ (forM_ _ _) => apply kv_forM; intros ?
  | |- keepV _ _ _ _ (if ?b then _ else _) => destruct b
  | |- keepV _ _ _ _ (match ?x with _ => _ end) => destruct x
  end.
Tactic Notation "kv" "using" tactic(t) := repeat first [ kv_struct | kv_prim | (apply kv_T; t) | t ].
Ltac kv0 := repeat first [ kv_struct | kv_prim ].

Section Proj.
  Context {NV IV GV NV' IV' GV' : Type}.
  Variables (fn : node -> NV) (fi : ind -> IV) (fg : sim -> GV) (gn : NV -> NV') (gi : IV -> IV') (gg : GV -> GV').
  Lemma VW_proj s s' : VW fn fi fg s' = VW fn fi fg s ->
    VW (fun nd => gn (fn nd)) (fun x => gi (fi x)) (fun s0 => gg (fg s0)) s' = VW (fun nd => gn (fn nd)) (fun x => gi (fi x)) (fun s0 => gg (fg s0)) s.
  Proof.
    intros E. unfold VW in *. injection E as E1 E2 E3. f_equal.
    - transitivity (map (fun t : Z * NV => (fst t, gn (snd t))) (map (nv fn) (nodes s'))); [rewrite map_map; reflexivity|].
      rewrite E1, map_map. reflexivity.
    - transitivity (map (fun t : Z * IV => (fst t, gi (snd t))) (map (iv fi) (inds s'))); [rewrite map_map; reflexivity|].
      rewrite E2, map_map. reflexivity.
    - rewrite E3. reflexivity.
  Qed.
  Lemma keepV_proj K {X} (m : M X) : keepV fn fi fg KT m -> keepV (fun nd => gn (fn nd)) (fun x => gi (fi x)) (fun s0 => gg (fg s0)) K m.
  Proof.
    intros H s a s' HI _ E. apply VW_proj. apply (H s a s'); [|exact I|exact E].
    intros k t Hk. unfold VW in Hk. cbn in Hk. rewrite nth_error_map in Hk.
    destruct (nth_error (nodes s) k) as [nd|] eqn:En; [|discriminate]. cbn in Hk. injection Hk as <-.
    apply (HI k (nv (fun nd0 => gn (fn nd0)) nd)). unfold VW. cbn. rewrite nth_error_map, En. reflexivity.
  Qed.
End Proj.

(* ---------- the three views ---------- *)
Definition srv3 (sv : server) : Z * option Z * option Z := (sv_id sv, sv_cust sv, sv_next_end sv).
(* J: what the journey / blocked-queue invariants look at *)
Definition fnJ (nd : node) := (n_pop nd, n_queues nd, n_bq nd, n_nint nd).
Definition fiJ (x : ind) := (i_node x, i_arr x, i_nrec x, i_dest x, i_blocked x).
Definition fgJ (s : sim) := (exit_ids s, exit_n s, a_created (arr s), now s, log s).
(* S: what the server invariants look at *)
Definition fnS (nd : node) := (map srv3 (n_servers nd), n_highest nd, nd_inf nd).
Definition fiS (x : ind) := (i_server x, i_node x, i_blocked x).
Definition fgS (s : sim) := tt.
(* B: both *)
Definition fnB (nd : node) := (fnJ nd, fnS nd).
Definition fiB (x : ind) := (fiJ x, fiS x).
Definition fgB (s : sim) := (fgJ s, fgS s).
Notation keepJ := (keepV fnJ fiJ fgJ).
Notation keepS := (keepV fnS fiS fgS).
Notation keepB := (keepV fnB fiB fgB).
Notation VJ := (VW fnJ fiJ fgJ).
Notation VS := (VW fnS fiS fgS).
Notation VB := (VW fnB fiB fgB).

Lemma kb_kj K {X} (m : M X) : keepB KT m -> keepJ K m.
Proof. intros H. exact (keepV_proj fnB fiB fgB fst fst fst K m H). Qed.
Lemma kb_ks K {X} (m : M X) : keepB KT m -> keepS K m.
Proof. intros H. exact (keepV_proj fnB fiB fgB snd snd snd K m H). Qed.

(* ---------- functions that change nothing either view looks at ---------- *)
Section FrameB.
  Variable cf : config.
  Notation PB m := (keepB KT m).

  Lemma kb_ncfg_of j : PB (ncfg_of cf j). Proof. apply kv_lift. Qed.
  Lemma kb_tnow : PB tnow. Proof. apply kv_gets. Qed.
  Lemma kb_choice_uniform {X} (l : list X) : PB (choice_uniform l). Proof. unfold choice_uniform. kv0. Qed.
  Lemma kb_choice_weighted den P : PB (choice_weighted den P). Proof. unfold choice_weighted. kv0. Qed.
  Lemma kb_choose_next_customer j : PB (choose_next_customer cf j).
  Proof. unfold choose_next_customer. kv using first [apply kb_ncfg_of | apply kb_choice_uniform]. Qed.
  Lemma kb_find_next_class_change j : PB (find_next_class_change j).
  Proof.
 unfold find_next_class_change. kv0.
 Qed.
  Lemma kb_cct_loop row : forall b best bc, PB (cct_loop row b best bc).
  Proof. induction row as [|h r IH]; intros b best bc; cbn [cct_loop]; [apply kv_ret|]. kv using (apply IH). Qed.
  Lemma kb_decide_class_change j i : PB (decide_class_change cf j i).
  Proof. unfold decide_class_change. kv using first [apply kb_cct_loop | apply kb_find_next_class_change]. Qed.
  Lemma kb_reset_class_change j i : PB (reset_class_change cf j i).
  Proof. unfold reset_class_change. kv using (apply kb_find_next_class_change). Qed.
  Lemma kb_stime_num x : PB (stime_num x). Proof. unfold stime_num. kv0. Qed.
  Lemma kb_give_service_time_after_preemption i : PB (give_service_time_after_preemption i).
  Proof. unfold give_service_time_after_preemption. kv0. Qed.
  Lemma kb_give_individual_a_service_time i : PB (give_individual_a_service_time i).
  Proof. unfold give_individual_a_service_time. kv using (apply kb_give_service_time_after_preemption). Qed.
  Lemma kb_valid_dest d : PB (valid_dest d). Proof. unfold valid_dest. kv0. Qed.
  Lemma kb_jsq_loop lb ds : forall best acc, PB (jsq_loop lb ds best acc).
  Proof. induction ds as [|d r IH]; intros best acc; cbn [jsq_loop]; [apply kv_ret|]. kv using (apply IH). Qed.
  Lemma kb_jsq_next lb ds order : PB (jsq_next lb ds order).
  Proof. unfold jsq_next. kv using first [apply kb_jsq_loop | apply kb_choice_uniform]. Qed.
  Lemma kb_get_cyc c j : PB (get_cyc c j). Proof. unfold get_cyc. kv0. Qed.
  Lemma kb_bump_cyc c j : PB (bump_cyc c j).
  Proof.
    unfold bump_cyc. apply kv_modify. intros s. destruct (nthZ (cyc s) c) as [row|]; [|reflexivity].
    destruct (nthZ row (j - 1)); reflexivity.
  Qed.
  Lemma kb_node_router_next r c j : PB (node_router_next r c j).
  Proof. unfold node_router_next. kv using first [apply kb_choice_weighted | apply kb_jsq_next | apply kb_get_cyc | apply kb_bump_cyc]. Qed.
  Lemma kb_next_node_for mode j i : PB (next_node_for cf mode j i).
  Proof.
    unfold next_node_for.
    kv using first [apply kb_node_router_next | apply kb_valid_dest | apply kb_choice_uniform | apply kb_jsq_next].
  Qed.
  Lemma kb_get_reneging_date j i : PB (get_reneging_date cf j i).
  Proof. unfold get_reneging_date. kv using (apply kb_ncfg_of). Qed.
  Lemma kb_preempt_victim j i : PB (preempt_victim cf j i).
  Proof. unfold preempt_victim. kv using (apply kb_ncfg_of). Qed.
  Lemma kb_decide_between l : PB (decide_between l).
  Proof. unfold decide_between. destruct l as [|a [|b r]]; [apply kv_fail|apply kv_ret|apply kb_choice_uniform]. Qed.
  Lemma kb_change_customer_class j i : PB (change_customer_class cf j i).
  Proof. unfold change_customer_class. kv using first [apply kb_ncfg_of | apply kb_choice_weighted]. Qed.
  Lemma kb_has_space d : PB (has_space cf d). Proof. unfold has_space. kv using (apply kb_ncfg_of). Qed.
  Lemma kb_keyed l : PB (keyed l). Proof. unfold keyed. kv0. Qed.
  Lemma kb_sort_interrupted_individuals j : PB (sort_interrupted_individuals j).
  Proof. unfold sort_interrupted_individuals. kv using (apply kb_keyed). Qed.
  Lemma kb_update_next_event_date j : PB (update_next_event_date cf j).
  Proof. unfold update_next_event_date. kv using (apply kb_ncfg_of). Qed.
  Lemma kb_update_all js : PB (update_all cf js).
  Proof. induction js as [|j r IH]; cbn [update_all]; [apply kv_ret|]. kv using first [apply IH | apply kb_update_next_event_date]. Qed.
  Lemma kb_find_next_event_date : PB find_next_event_date.
  Proof. apply kv_modify. intros s. destruct (find_min_dates 1 (a_dates (arr s)) (None, 0, 0)) as [[d j] c]. reflexivity. Qed.
  Lemma kb_sys_population : PB sys_population. Proof. unfold sys_population. kv0. Qed.
  Lemma kb_route_of i c : PB (route_of cf i c). Proof. unfold route_of. kv0. Qed.
End FrameB.

Ltac kb_lem :=
  first [ apply kb_ncfg_of | apply kb_tnow | apply kb_choice_uniform | apply kb_choice_weighted | apply kb_choose_next_customer
        | apply kb_find_next_class_change | apply kb_cct_loop | apply kb_decide_class_change
        | apply kb_reset_class_change | apply kb_stime_num | apply kb_give_service_time_after_preemption
        | apply kb_give_individual_a_service_time | apply kb_valid_dest
        | apply kb_jsq_loop | apply kb_jsq_next | apply kb_get_cyc | apply kb_bump_cyc | apply kb_node_router_next
        | apply kb_next_node_for | apply kb_get_reneging_date
        | apply kb_preempt_victim | apply kb_decide_between | apply kb_change_customer_class | apply kb_has_space | apply kb_keyed
        | apply kb_sort_interrupted_individuals | apply kb_update_next_event_date | apply kb_update_all | apply kb_find_next_event_date
        | apply kb_sys_population | apply kb_route_of ].

(* ---------- the scope ----------
   every node: no pre-emption by rerouting; no pre-emptive schedule; no pre-emptive capacitated slot; a slotted node has no
   reneging and no priority pre-emption.
   whole configuration: if some node has priority pre-emption (resume / restart / resample), then no node has a capacity
   (nobody is ever blocked) and there is no class change while waiting. *)
Definition scope_nc (nc : ncfg) : bool :=
  negb (nc_preempt nc =? 4) &&
  match nc_srv nc with
  | SFixed => true
  | SSched sc => sc_pre sc =? 0
  | SSlot sl => negb (sl_cap sl && negb (sl_pre sl =? 0)) && negb (nc_reneging nc) && (nc_preempt nc =? 0)
  end.
Definition preempts (cf : config) : bool := existsb (fun nc => negb (nc_preempt nc =? 0)) (cf_nodes cf).
Definition nocap (nc : ncfg) : bool := match nc_cap nc with None => true | Some _ => false end.
Definition scope2 (cf : config) : bool :=
  forallb scope_nc (cf_nodes cf) && (if preempts cf then forallb nocap (cf_nodes cf) && negb (cf_dyn cf) else true).
(* the narrower scope without any pre-emption *)
Definition scopeA (cf : config) : bool := forallb scope_nc (cf_nodes cf) && negb (preempts cf).
Lemma scopeA_scope2 cf : scopeA cf = true -> scope2 cf = true.
Proof. unfold scopeA, scope2. intros H. apply andb_true_iff in H as [H1 H2]. apply negb_true_iff in H2. rewrite H1, H2. reflexivity. Qed.
Lemma scope2_nc cf j nc : scope2 cf = true -> nthZ (cf_nodes cf) (j - 1) = Some nc -> scope_nc nc = true.
Proof. unfold scope2. intros H Hn. apply andb_true_iff in H as [H _]. rewrite forallb_forall in H. apply H. eapply nthZ_In; eauto. Qed.
Lemma nopre_nc cf j nc : preempts cf = false -> nthZ (cf_nodes cf) (j - 1) = Some nc -> nc_preempt nc = 0.
Proof.
  unfold preempts. intros H Hn. destruct (nc_preempt nc =? 0) eqn:E; [apply Z.eqb_eq; exact E|]. exfalso.
  assert (Hx : existsb (fun nc0 => negb (nc_preempt nc0 =? 0)) (cf_nodes cf) = true) by (apply existsb_exists; exists nc; split; [eapply nthZ_In; eauto|rewrite E; reflexivity]).
  congruence.
Qed.
Lemma scope2_pre cf : scope2 cf = true -> preempts cf = true ->
  (forall j nc, nthZ (cf_nodes cf) (j - 1) = Some nc -> nc_cap nc = None) /\ cf_dyn cf = false.
Proof.
  unfold scope2. intros H Hp. rewrite Hp in H. apply andb_true_iff in H as [_ H]. apply andb_true_iff in H as [H1 H2]. apply negb_true_iff in H2.
  split; [|exact H2]. intros j nc Hn. rewrite forallb_forall in H1. specialize (H1 nc (nthZ_In _ _ _ Hn)). unfold nocap in H1. destruct (nc_cap nc); [discriminate|reflexivity].
Qed.

(* ---------- functions that change nothing the journey view looks at (some only while nobody is interrupted) ---------- *)
Definition NoIntV (w : @view (Z * list (list Z) * list (Z * Z) * Z) (option Z * option Z * Z * option Z * bool) (list Z * Z * Z * Z * list rec)) : Prop :=
  forall t, In t (v_ns w) -> snd (snd t) <= 0.
Lemma NoIntV_okn w nd : NoIntV w -> okn fnJ w nd -> n_nint nd <= 0.
Proof. intros HN Ho. unfold okn in Ho. apply nthZ_In in Ho. apply (HN _ Ho). Qed.

Ltac kconj := let w := fresh "w" in let HK := fresh "HK" in
  intros w HK; repeat match goal with H : _ /\ _ |- _ => destruct H end; assumption.
Ltac kjb := apply kb_kj; kb_lem.

Section FrameJ.
  Variable cf : config.
  Notation PJ m := (keepJ KT m).
  Notation PN m := (keepJ NoIntV m).

  Lemma kj_upd_server j sid f : PJ (upd_server j sid f). Proof. unfold upd_server. kv0. Qed.
  Lemma kj_attach_server j sid i : PJ (attach_server j sid i).
  Proof. unfold attach_server. kv using (apply kj_upd_server). Qed.
  Lemma kj_set_next_end j sid d : PJ (set_next_end j sid d). Proof. unfold set_next_end. apply kj_upd_server. Qed.
  Lemma kj_kill_server j sid : PJ (kill_server j sid). Proof. unfold kill_server. kv using kjb. Qed.
  Lemma kj_detatch_server j sid i : PJ (detatch_server j sid i).
  Proof. unfold detatch_server. kv using first [apply kj_kill_server | kjb]. Qed.
  Lemma kj_start_fresh j i osid count : PJ (start_fresh cf j i osid count).
  Proof. unfold start_fresh. kv using first [apply kj_attach_server | apply kj_set_next_end | kjb]. Qed.
  Lemma kj_start_give j i sid : PJ (start_give cf j i sid).
  Proof. unfold start_give. kv using first [apply kj_attach_server | apply kj_set_next_end | kjb]. Qed.
  Lemma kj_start_preemptor j i sid : PJ (start_preemptor cf j i sid).
  Proof. unfold start_preemptor. kv using first [apply kj_attach_server | apply kj_set_next_end | kjb]. Qed.
  Lemma kj_serve_with j sid : PN (serve_with cf j sid).
  Proof.
    unfold serve_with. apply kv_get_node_bind; intros nd Hid. destruct (0 <? n_nint nd) eqn:E.
    - apply kv_false. intros w [HN Ho]. pose proof (NoIntV_okn _ _ HN Ho). apply Z.ltb_lt in E. lia.
    - kv using first [apply kj_start_give | kjb].
  Qed.
  Lemma kj_bsipr j freed : PN (begin_service_if_possible_release cf j freed).
  Proof. unfold begin_service_if_possible_release. kv using first [(eapply kv_weak; [apply kj_serve_with|kconj]) | kjb]. Qed.
  Lemma kj_add_new_servers k j : PJ (add_new_servers k j).
  Proof. induction k as [|k IH]; cbn [add_new_servers]; [apply kv_ret|]. kv using first [apply IH | kjb]. Qed.
  Lemma kj_bsip_change_shift j : PN (begin_service_if_possible_change_shift cf j).
  Proof. unfold begin_service_if_possible_change_shift. kv using first [(eapply kv_weak; [apply kj_serve_with|kconj]) | kjb]. Qed.
  Lemma kj_slot_loop k j : PN (slot_loop cf k j).
  Proof.
    induction k as [|k IH]; cbn [slot_loop]; [apply kv_ret|].
    apply kv_bind; [kjb|intros t]. apply kv_get_node_bind; intros nd Hid. destruct (0 <? n_nint nd) eqn:E.
    - apply kv_false. intros w [HN Ho]. pose proof (NoIntV_okn _ _ HN Ho). apply Z.ltb_lt in E. lia.
    - kv using first [(eapply kv_weak; [apply IH|kconj]) | kjb].
  Qed.
  Lemma kj_take_off_duty0 fuel j : PJ (take_servers_off_duty cf fuel j 0).
  Proof.
    unfold take_servers_off_duty. change (0 =? 0) with true. cbv iota.
    kv using first [apply kj_kill_server | kjb].
  Qed.
  Lemma kj_change_shift j : scope2 cf = true -> PN (change_shift cf j).
  Proof.
    intros Hsc. unfold change_shift. unfold ncfg_of. apply kv_lift_bind. intros nc Hnc.
    pose proof (scope2_nc _ _ _ Hsc Hnc) as Hs. unfold scope_nc in Hs. apply andb_true_iff in Hs as [_ Hs].
    destruct (nc_srv nc) as [|sc|sl]; try apply kv_fail. apply Z.eqb_eq in Hs. rewrite Hs.
    kv using first [(apply kv_T; apply kj_take_off_duty0) | (apply kv_T; apply kj_add_new_servers) | (eapply kv_weak; [apply kj_bsip_change_shift|kconj]) | kjb].
  Qed.
  Lemma kj_slotted_service j : scope2 cf = true -> PN (slotted_service cf j).
  Proof.
    intros Hsc. unfold slotted_service. unfold ncfg_of. apply kv_lift_bind. intros nc Hnc.
    pose proof (scope2_nc _ _ _ Hsc Hnc) as Hs. unfold scope_nc in Hs. apply andb_true_iff in Hs as [_ Hs].
    destruct (nc_srv nc) as [|sc|sl]; try apply kv_fail. apply andb_true_iff in Hs as [Hs _]. apply andb_true_iff in Hs as [Hs _]. apply negb_true_iff in Hs. rewrite Hs.
    kv using first [(eapply kv_weak; [apply kj_slot_loop|kconj]) | kjb].
  Qed.
End FrameJ.

(* ====================================================================================================================
   2. Histories and the chain relation for the stage-2 record types
   ==================================================================================================================== *)
Definition recs_of (i : Z) (h : list rec) : list rec := filter (fun r => r_id r =? i) h.
Fixpoint last_opt {A} (l : list A) : option A :=
  match l with [] => None | a :: t => match last_opt t with None => Some a | Some b => Some b end end.
Definition last_of (i : Z) (h : list rec) : option rec := last_opt (recs_of i h).

Lemma last_opt_snoc {A} (l : list A) a : last_opt (l ++ [a]) = Some a.
Proof. induction l as [|b t IH]; cbn; [reflexivity|]. rewrite IH. reflexivity. Qed.
Lemma last_opt_split {A} (l : list A) a : last_opt l = Some a -> exists l', l = l' ++ [a].
Proof.
  revert a; induction l as [|b t IH]; intros a H; cbn in H; [discriminate|].
  destruct (last_opt t) as [c|] eqn:E.
  - injection H as <-. destruct (IH c eq_refl) as [l' ->]. exists (b :: l'). reflexivity.
  - injection H as <-. destruct t as [|c t']; [exists []; reflexivity|]. cbn in E. destruct (last_opt t'); discriminate.
Qed.
Lemma last_opt_None {A} (l : list A) : last_opt l = None -> l = [].
Proof. destruct l as [|a t]; [reflexivity|]. cbn. destruct (last_opt t); discriminate. Qed.

Lemma recs_of_app i a b : recs_of i (a ++ b) = recs_of i a ++ recs_of i b.
Proof. apply filter_app. Qed.
Lemma recs_of_snoc_same i h r : r_id r = i -> recs_of i (h ++ [r]) = recs_of i h ++ [r].
Proof. intros E. rewrite recs_of_app. cbn. apply Z.eqb_eq in E. rewrite E. reflexivity. Qed.
Lemma recs_of_snoc_other i h r : r_id r <> i -> recs_of i (h ++ [r]) = recs_of i h.
Proof. intros E. rewrite recs_of_app. cbn. apply Z.eqb_neq in E. rewrite E. apply app_nil_r. Qed.
Lemma recs_of_In i h r : In r (recs_of i h) <-> In r h /\ r_id r = i.
Proof. unfold recs_of. rewrite filter_In, Z.eqb_eq. reflexivity. Qed.
Lemma recs_of_none i h : (forall r, In r h -> r_id r <> i) -> recs_of i h = [].
Proof.
  intros H. destruct (recs_of i h) as [|r t] eqn:E; [reflexivity|]. exfalso.
  assert (Hin : In r (recs_of i h)) by (rewrite E; left; reflexivity). apply recs_of_In in Hin as [A B]. exact (H r A B).
Qed.

(* record types: 0 service, 1 interrupted service, 2 renege, 3 baulk, 4 rejection.
   closing: the record ends a visit (service, renege, or an interruption that reroutes: it names a destination);
   cont: an interruption record written in the middle of a visit that goes on at the same node *)
Definition closing (r : rec) : Prop := r_type r = 0 \/ r_type r = 2 \/ (r_type r = 1 /\ r_dest r <> None).
Definition cont (r : rec) : Prop := r_type r = 1 /\ r_dest r = None.
Definition visit (r : rec) : Prop := r_type r = 0 \/ r_type r = 1 \/ r_type r = 2.
(* r1 is directly followed by r2 in the records of one customer *)
Definition link (r1 r2 : rec) : Prop :=
  visit r2 /\
  ((closing r1 /\ r_dest r1 = Some (r_node r2) /\ r_exit r1 = r_arr r2) \/
   (cont r1 /\ r_node r2 = r_node r1 /\ r_arr r2 = r_arr r1)).
Fixpoint chain (l : list rec) : Prop :=
  match l with [] => True | r1 :: t => match t with [] => True | r2 :: _ => link r1 r2 end /\ chain t end.

Lemma closing_visit r : closing r -> visit r.
Proof. unfold closing, visit. intros [H|[H|[H _]]]; auto. Qed.
Lemma cont_visit r : cont r -> visit r.
Proof. unfold cont, visit. intros [H _]. auto. Qed.
Lemma link_visit1 r1 r2 : link r1 r2 -> visit r1.
Proof. intros [_ [[H _]|[H _]]]; [apply closing_visit|apply cont_visit]; exact H. Qed.

Lemma chain_snoc l r : chain l -> (forall r1, last_opt l = Some r1 -> link r1 r) -> chain (l ++ [r]).
Proof.
  induction l as [|a t IH]; cbn [app chain]; [auto|]. intros [H1 H2] Hl. split.
  - destruct t as [|b t']; cbn [app]; [apply Hl; reflexivity|exact H1].
  - apply IH; [exact H2|]. intros r1 Hr1. apply Hl. cbn [last_opt]. rewrite Hr1. reflexivity.
Qed.
Lemma chain_mid l1 r1 r2 l2 : chain (l1 ++ r1 :: r2 :: l2) -> link r1 r2.
Proof. induction l1 as [|a t IH]; cbn [app chain]; [tauto|]. intros [_ H]. exact (IH H). Qed.
Lemma chain_only l r : chain l -> In r l -> ~ visit r -> l = [r].
Proof.
  induction l as [|a t IH]; intros Hc Hin Hty; [destruct Hin|]. cbn [chain] in Hc. destruct Hc as [H1 H2].
  destruct t as [|b t'].
  - destruct Hin as [->|[]]. reflexivity.
  - exfalso. destruct Hin as [->|Hin]; [exact (Hty (link_visit1 _ _ H1))|].
    specialize (IH H2 Hin Hty). injection IH as -> _. destruct H1 as [V _]. exact (Hty V).
Qed.

(* a terminal record: the customer left for the exit, or never entered *)
Definition term (r : rec) : Prop := (closing r /\ r_dest r = Some (-1)) \/ r_type r = 3 \/ r_type r = 4.
(* the last record of a customer that is now in node k with arrival date a: either it closed the previous visit, naming k
   and ending at a, or it was written during the present visit (at k, begun at a) *)
Definition lastok (k : Z) (a : option Z) (o : option rec) : Prop :=
  match o with
  | None => True
  | Some r => (closing r /\ r_dest r = Some k /\ r_exit r = a) \/ (cont r /\ r_node r = k /\ r_arr r = a)
  end.

(* ====================================================================================================================
   3. The journey invariant.  `an i` is the node where customer i arrived from outside (a ghost, read off the run)
   ==================================================================================================================== *)
Definition at_node (s : sim) (k i : Z) : Prop := exists nd, nodeZ s k = Some nd /\ In i (all_individuals nd).
Definition entry (s : sim) (d from y : Z) : Prop := exists nd, nodeZ s d = Some nd /\ In (from, y) (n_bq nd).
Definition NoEntry (s : sim) (i : Z) : Prop := forall d from, ~ entry s d from i.

Section Ghost.
Variable an : Z -> option Z.

Definition good (k i : Z) (x : ind) (H : list rec) : Prop :=
  i_node x = Some k /\ lastok k (i_arr x) (last_of i H) /\ i_nrec x = zlen (recs_of i H) /\
  (recs_of i H = [] -> an i = Some k).

Record JH (H : list rec) (s : sim) : Prop := mkJH {
  j_node : forall k i, at_node s k i -> exists x, find_ind i (inds s) = Some x /\ good k i x H;
  j_exit : forall i, In i (exit_ids s) -> exists r, last_of i H = Some r /\ term r;
  j_chain : forall i, chain (recs_of i H);
  j_first : forall i r l, recs_of i H = r :: l -> an i = Some (r_node r);
  j_ids : forall r, In r H -> r_id r <= a_created (arr s)
}.
Definition JI (h : list rec) (s : sim) : Prop := JH (h ++ log s) s.

(* blocked queues: every entry (from, y) of the blocked queue of node d is a customer flagged blocked whose recorded
   destination is d; no customer twice in one blocked queue *)
Record Lq (s : sim) : Prop := mkLq {
  l_ent : forall d from y, entry s d from y -> exists x, find_ind y (inds s) = Some x /\ i_dest x = Some d /\ i_blocked x = true;
  l_nd : forall d nd, nodeZ s d = Some nd -> NoDup (map snd (n_bq nd))
}.
Definition NoInt (s : sim) : Prop := forall k nd, nodeZ s k = Some nd -> n_nint nd <= 0.

(* the views of a customer record the journey invariant looks at *)
Definition jv3 (x : ind) := (i_node x, i_arr x, i_nrec x).
Lemma fiJ_jv3 a b : option_map fiJ a = option_map fiJ b -> option_map jv3 a = option_map jv3 b.
Proof. destruct a, b; cbn; intros H; try discriminate; [|reflexivity]. unfold fiJ in H. unfold jv3. injection H as -> -> -> _ _. reflexivity. Qed.
Lemma omap_jv3 (o : option ind) x : option_map jv3 o = Some (jv3 x) -> exists x', o = Some x' /\ jv3 x' = jv3 x.
Proof. destruct o as [x'|]; cbn; intros H; [|discriminate]. exists x'. split; [reflexivity|congruence]. Qed.
Lemma good_jv3 k i x x' H : jv3 x' = jv3 x -> good k i x H -> good k i x' H.
Proof. unfold jv3, good. intros E. injection E as -> -> ->. auto. Qed.

Definition Away (i : Z) (s : sim) : Prop := (forall k, ~ at_node s k i) /\ ~ In i (exit_ids s).

(* ---------- how JH changes ---------- *)
Lemma JH_mono H s s' : JH H s ->
  (forall k y, at_node s' k y -> at_node s k y) ->
  (forall k y, at_node s' k y -> option_map jv3 (find_ind y (inds s')) = option_map jv3 (find_ind y (inds s))) ->
  exit_ids s' = exit_ids s -> a_created (arr s) <= a_created (arr s') -> JH H s'.
Proof.
  intros [A B C F D] Hat Hv He Hc. constructor.
  - intros k i Hk. destruct (A k i (Hat _ _ Hk)) as (x & Hx & Hg). specialize (Hv _ _ Hk). rewrite Hx in Hv. cbn in Hv.
    apply omap_jv3 in Hv as (x' & Hx' & Hv). exists x'. split; [exact Hx'|]. eapply good_jv3; [|exact Hg]. exact Hv.
  - intros i Hi. rewrite He in Hi. exact (B i Hi).
  - exact C.
  - exact F.
  - intros r Hr. specialize (D r Hr). lia.
Qed.

(* a record of customer i is appended to the history; i is in flight, or it stays where it is and the record is a
   continuation record of its present visit *)
Lemma JH_log H s r : JH H s -> r_id r <= a_created (arr s) ->
  (forall r1, last_of (r_id r) H = Some r1 -> link r1 r) -> (recs_of (r_id r) H = [] -> an (r_id r) = Some (r_node r)) ->
  ~ In (r_id r) (exit_ids s) ->
  (forall k x, at_node s k (r_id r) -> find_ind (r_id r) (inds s) = Some x -> good k (r_id r) x (H ++ [r])) ->
  JH (H ++ [r]) s.
Proof.
  intros [A B C F D] Hle Hl Hfst Aw2 Hat. constructor.
  - intros k i Hk. destruct (A k i Hk) as (x & Hx & Hg). exists x. split; [exact Hx|].
    destruct (Z.eq_dec (r_id r) i) as [E|Hne].
    + rewrite <- E in *. apply (Hat k x Hk Hx).
    + unfold good, last_of in *. rewrite (recs_of_snoc_other _ _ _ Hne). exact Hg.
  - intros i Hi. assert (Hne : r_id r <> i) by (intros E; rewrite E in Aw2; exact (Aw2 Hi)).
    unfold last_of. rewrite (recs_of_snoc_other _ _ _ Hne). exact (B i Hi).
  - intros i. destruct (Z.eq_dec (r_id r) i) as [E|Hne].
    + rewrite (recs_of_snoc_same _ _ _ E). apply chain_snoc; [apply C|]. rewrite <- E. exact Hl.
    + rewrite (recs_of_snoc_other _ _ _ Hne). apply C.
  - intros i r0 l. destruct (Z.eq_dec (r_id r) i) as [E|Hne].
    + rewrite (recs_of_snoc_same _ _ _ E). destruct (recs_of i H) as [|r1 l1] eqn:E1.
      * cbn. intros E2. injection E2 as <- _. rewrite <- E. apply Hfst. rewrite E. exact E1.
      * cbn. intros E2. injection E2 as <- _. exact (F i r1 l1 E1).
    + rewrite (recs_of_snoc_other _ _ _ Hne). apply F.
  - intros r' Hr'. apply in_app_or in Hr' as [Hr'|[<-|[]]]; [exact (D r' Hr')|exact Hle].
Qed.

(* a record of a customer that stays where it is (an interruption record); its table entry changes with it *)
Lemma JH_log2 H s s' r : JH H s -> r_id r <= a_created (arr s) ->
  (forall r1, last_of (r_id r) H = Some r1 -> link r1 r) -> (recs_of (r_id r) H = [] -> an (r_id r) = Some (r_node r)) ->
  ~ In (r_id r) (exit_ids s) ->
  (forall k y, at_node s' k y -> at_node s k y) -> exit_ids s' = exit_ids s -> a_created (arr s) <= a_created (arr s') ->
  (forall y, y <> r_id r -> option_map jv3 (find_ind y (inds s')) = option_map jv3 (find_ind y (inds s))) ->
  (forall k, at_node s k (r_id r) -> exists x', find_ind (r_id r) (inds s') = Some x' /\ good k (r_id r) x' (H ++ [r])) ->
  JH (H ++ [r]) s'.
Proof.
  intros [A B C F D] Hle Hl Hfst Aw2 Hat He Hc Hv Hme. constructor.
  - intros k i Hk. specialize (Hat _ _ Hk). destruct (Z.eq_dec (r_id r) i) as [E|Hne].
    + rewrite <- E in *. exact (Hme k Hat).
    + destruct (A k i Hat) as (x & Hx & Hg). specialize (Hv i ltac:(congruence)). rewrite Hx in Hv. cbn in Hv.
      apply omap_jv3 in Hv as (x' & Hx' & Hv). exists x'. split; [exact Hx'|]. eapply good_jv3; [exact Hv|].
      unfold good, last_of in *. rewrite (recs_of_snoc_other _ _ _ Hne). exact Hg.
  - intros i Hi. rewrite He in Hi. assert (Hne : r_id r <> i) by (intros E; rewrite E in Aw2; exact (Aw2 Hi)).
    unfold last_of. rewrite (recs_of_snoc_other _ _ _ Hne). exact (B i Hi).
  - intros i. destruct (Z.eq_dec (r_id r) i) as [E|Hne].
    + rewrite (recs_of_snoc_same _ _ _ E). apply chain_snoc; [apply C|]. rewrite <- E. exact Hl.
    + rewrite (recs_of_snoc_other _ _ _ Hne). apply C.
  - intros i r0 l. destruct (Z.eq_dec (r_id r) i) as [E|Hne].
    + rewrite (recs_of_snoc_same _ _ _ E). destruct (recs_of i H) as [|r1 l1] eqn:E1.
      * cbn. intros E2. injection E2 as <- _. rewrite <- E. apply Hfst. rewrite E. exact E1.
      * cbn. intros E2. injection E2 as <- _. exact (F i r1 l1 E1).
    + rewrite (recs_of_snoc_other _ _ _ Hne). apply F.
  - intros r' Hr'. apply in_app_or in Hr' as [Hr'|[<-|[]]]; [specialize (D r' Hr'); lia|lia].
Qed.

(* the customer in flight lands in node d *)
Lemma JH_land H s s' i d x : JH H s -> Away i s ->
  (forall k y, at_node s' k y -> (k = d /\ y = i) \/ at_node s k y) ->
  (forall y, y <> i -> option_map jv3 (find_ind y (inds s')) = option_map jv3 (find_ind y (inds s))) ->
  find_ind i (inds s') = Some x -> good d i x H ->
  exit_ids s' = exit_ids s -> a_created (arr s) <= a_created (arr s') -> JH H s'.
Proof.
  intros [A B C F D] [Aw1 Aw2] Hat Hv Hx Hg He Hc. constructor.
  - intros k y Hk. destruct (Hat _ _ Hk) as [[-> ->]|Hk0]; [exists x; auto|].
    assert (Hne : y <> i) by (intros ->; exact (Aw1 k Hk0)).
    destruct (A k y Hk0) as (x0 & Hx0 & Hg0). specialize (Hv y Hne). rewrite Hx0 in Hv. cbn in Hv.
    apply omap_jv3 in Hv as (x' & Hx' & Hv). exists x'. split; [exact Hx'|]. eapply good_jv3; [|exact Hg0]. exact Hv.
  - intros y Hy. rewrite He in Hy. exact (B y Hy).
  - exact C.
  - exact F.
  - intros r Hr. specialize (D r Hr). lia.
Qed.

(* the customer in flight reaches the exit *)
Lemma JH_exit H s s' i : JH H s -> Away i s -> (exists r, last_of i H = Some r /\ term r) ->
  (forall k y, at_node s' k y -> at_node s k y) ->
  (forall y, y <> i -> option_map jv3 (find_ind y (inds s')) = option_map jv3 (find_ind y (inds s))) ->
  exit_ids s' = exit_ids s ++ [i] -> a_created (arr s) <= a_created (arr s') -> JH H s'.
Proof.
  intros [A B C F D] [Aw1 Aw2] Hr Hat Hv He Hc. constructor.
  - intros k y Hk. specialize (Hat _ _ Hk).
    assert (Hne : y <> i) by (intros ->; exact (Aw1 k Hat)).
    destruct (A k y Hat) as (x0 & Hx0 & Hg0). specialize (Hv y Hne). rewrite Hx0 in Hv. cbn in Hv.
    apply omap_jv3 in Hv as (x' & Hx' & Hv). exists x'. split; [exact Hx'|]. eapply good_jv3; [|exact Hg0]. exact Hv.
  - intros y Hy. rewrite He in Hy. apply in_app_or in Hy as [Hy|[<-|[]]]; [exact (B y Hy)|exact Hr].
  - exact C.
  - exact F.
  - intros r Hr'. specialize (D r Hr'). lia.
Qed.
End Ghost.

(* ====================================================================================================================
   4. What the two views determine; writing nodes and records
   ==================================================================================================================== *)
Definition Idx (s : sim) : Prop := forall k nd, nodeZ s k = Some nd -> n_id nd = k.
Definition NodeOK (s : sim) : Prop := forall k i, at_node s k i -> exists x, find_ind i (inds s) = Some x /\ i_node x = Some k.

Lemma WFx2_Idx fl s : Conserve2.WFx2 fl s -> Idx s.
Proof.
  intros HW k nd Hn. pose proof (Conserve2.WFx2_idx _ _ HW) as HI. unfold nodeZ in Hn.
  destruct (Conserve2.nthZ_nat _ _ _ Hn) as (n & Hk & Hnk). specialize (HI n (Conserve2.nshape nd)). cbn in HI.
  rewrite nth_error_map, Hnk in HI. specialize (HI eq_refl). cbn in HI. lia.
Qed.
Lemma WFx2_vidx {NV IV GV} (fn : node -> NV) (fi : ind -> IV) (fg : sim -> GV) fl s : Conserve2.WFx2 fl s -> vidx (VW fn fi fg s).
Proof.
  intros HW k t Hk. pose proof (Conserve2.WFx2_idx _ _ HW) as HI. unfold VW in Hk. cbn in Hk. rewrite nth_error_map in Hk.
  destruct (nth_error (nodes s) k) as [nd|] eqn:En; [|discriminate]. cbn in Hk. injection Hk as <-. cbn.
  specialize (HI k (Conserve2.nshape nd)). cbn in HI. rewrite nth_error_map, En in HI. apply (HI eq_refl).
Qed.
Lemma JH_NodeOK an H s : JH an H s -> NodeOK s.
Proof. intros HJ k i Hk. destruct (j_node _ _ _ HJ k i Hk) as (x & Hx & Hn & _). eauto. Qed.

Lemma nthZ_updZ_eq {A} (l : list A) k x y : nthZ l k = Some y -> nthZ (updZ l k x) k = Some x.
Proof.
  intros H. destruct (Conserve2.nthZ_nat _ _ _ H) as (n & -> & Hn). rewrite Conserve2.updZ_nat, Conserve2.nthZ_of_nat.
  eapply Conserve2.nth_error_upd_eq; eauto.
Qed.
Lemma nthZ_updZ_neq {A} (l : list A) k k' x : k <> k' -> nthZ (updZ l k x) k' = nthZ l k'.
Proof.
  intros Hne. unfold updZ. destruct (k <? 0) eqn:E; [reflexivity|]. apply Z.ltb_ge in E.
  unfold nthZ. destruct (k' <? 0) eqn:E'; [reflexivity|]. apply Z.ltb_ge in E'.
  apply Conserve2.nth_error_upd_neq. lia.
Qed.
(* a node is written back into its own slot *)
Lemma nodeZ_put s nd' nd0 k : nodeZ s (n_id nd') = Some nd0 ->
  nodeZ (s <| nodes := updZ (nodes s) (n_id nd' - 1) nd' |>) k = if k =? n_id nd' then Some nd' else nodeZ s k.
Proof.
  intros Hn. unfold nodeZ in *. cbn. destruct (Z.eqb_spec k (n_id nd')) as [->|Hne].
  - eapply nthZ_updZ_eq; eauto.
  - apply nthZ_updZ_neq. lia.
Qed.
Lemma put_node_facts nd' s u s' : put_node nd' s = Ok (u, s') ->
  s' = s <| nodes := updZ (nodes s) (n_id nd' - 1) nd' |> /\
  inds s' = inds s /\ arr s' = arr s /\ log s' = log s /\ now s' = now s /\ exit_ids s' = exit_ids s /\ exit_n s' = exit_n s.
Proof. unfold put_node. intros H. apply modify_spec in H. subst s'. repeat split; reflexivity. Qed.
Lemma put_ind_facts x s u s' : put_ind x s = Ok (u, s') ->
  inds s' = put_ind_l x (inds s) /\ nodes s' = nodes s /\ arr s' = arr s /\ log s' = log s /\ now s' = now s /\
  exit_ids s' = exit_ids s /\ exit_n s' = exit_n s.
Proof. unfold put_ind. intros H. apply modify_spec in H. subst s'. repeat split; reflexivity. Qed.

Lemma at_node_nodes s s' k i : nodes s' = nodes s -> at_node s' k i <-> at_node s k i.
Proof. intros E. unfold at_node, nodeZ. rewrite E. reflexivity. Qed.
Lemma entry_nodes s s' d f y : nodes s' = nodes s -> entry s' d f y <-> entry s d f y.
Proof. intros E. unfold entry, nodeZ. rewrite E. reflexivity. Qed.

(* ---- the journey view ---- *)
Lemma VJ_node s s' k nd' : VJ s' = VJ s -> nodeZ s' k = Some nd' ->
  exists nd, nodeZ s k = Some nd /\ n_id nd' = n_id nd /\ n_pop nd' = n_pop nd /\ n_queues nd' = n_queues nd /\ n_bq nd' = n_bq nd /\ n_nint nd' = n_nint nd.
Proof.
  intros E Hn. pose proof (VW_node fnJ fiJ fgJ s s' k E) as Hv. rewrite Hn in Hv. destruct (nodeZ s k) as [nd|]; [|discriminate].
  cbn in Hv. unfold nv, fnJ in Hv. injection Hv as E1 E2 E3 E4 E5. exists nd. auto 7.
Qed.
Lemma VJ_glob s s' : VJ s' = VJ s ->
  exit_ids s' = exit_ids s /\ exit_n s' = exit_n s /\ a_created (arr s') = a_created (arr s) /\ now s' = now s /\ log s' = log s.
Proof. intros E. apply (f_equal v_g) in E. cbn in E. unfold fgJ in E. injection E as E1 E2 E3 E4 E5. auto. Qed.
Lemma VJ_sym s s' : VJ s' = VJ s -> VJ s = VJ s'. Proof. auto. Qed.
Lemma VJ_at s s' k i : VJ s' = VJ s -> at_node s' k i -> at_node s k i.
Proof. intros E (nd' & Hn & Hin). destruct (VJ_node _ _ _ _ E Hn) as (nd & Hn0 & _ & _ & Eq & _). exists nd. split; [exact Hn0|]. unfold all_individuals in *. rewrite <- Eq. exact Hin. Qed.
Lemma VJ_entry s s' d f y : VJ s' = VJ s -> entry s' d f y -> entry s d f y.
Proof. intros E (nd' & Hn & Hin). destruct (VJ_node _ _ _ _ E Hn) as (nd & Hn0 & _ & _ & _ & Eq & _). exists nd. split; [exact Hn0|]. rewrite <- Eq. exact Hin. Qed.
Lemma VJ_shp s s' : VJ s' = VJ s -> Conserve2.shp s' = Conserve2.shp s.
Proof.
  intros E. destruct (VJ_glob _ _ E) as (E1 & E2 & E3 & _ & _). unfold Conserve2.shp. rewrite E1, E2, E3. f_equal.
  - pose proof (f_equal v_ns E) as En. cbn in En.
    transitivity (map (fun t : Z * (Z * list (list Z) * list (Z * Z) * Z) => (fst t, fst (fst (fst (snd t))), snd (fst (fst (snd t))))) (map (nv fnJ) (nodes s')));
      [rewrite map_map; reflexivity|]. rewrite En, map_map. reflexivity.
  - pose proof (f_equal v_is E) as Ei. cbn in Ei.
    transitivity (map (fun t : Z * (option Z * option Z * Z * option Z * bool) => fst t) (map (iv fiJ) (inds s'))); [rewrite map_map; reflexivity|].
    rewrite Ei, map_map. reflexivity.
Qed.
Lemma VJ_find s s' i : VJ s' = VJ s -> option_map fiJ (find_ind i (inds s')) = option_map fiJ (find_ind i (inds s)).
Proof. apply VW_ind. Qed.

Lemma Lq_VJ s s' : VJ s' = VJ s -> Lq s -> Lq s'.
Proof.
  intros E [A B]. constructor.
  - intros d f y He. destruct (A d f y (VJ_entry _ _ _ _ _ E He)) as (x & Hx & Hd & Hb).
    pose proof (VJ_find s s' y E) as Hv. rewrite Hx in Hv. destruct (find_ind y (inds s')) as [x'|]; [|discriminate].
    cbn in Hv. unfold fiJ in Hv. injection Hv as _ _ _ E4 E5. exists x'. split; [reflexivity|]. split; congruence.
  - intros d nd' Hn. destruct (VJ_node _ _ _ _ E Hn) as (nd & Hn0 & _ & _ & _ & Eq & _). rewrite Eq. exact (B d nd Hn0).
Qed.
Lemma NoInt_VJ s s' : VJ s' = VJ s -> NoInt s -> NoInt s'.
Proof. intros E HN k nd' Hn. destruct (VJ_node _ _ _ _ E Hn) as (nd & Hn0 & _ & _ & _ & _ & Eq). rewrite Eq. exact (HN k nd Hn0). Qed.
Lemma NoEntry_VJ s s' i : VJ s' = VJ s -> NoEntry s i -> NoEntry s' i.
Proof. intros E HN d f He. exact (HN d f (VJ_entry _ _ _ _ _ E He)). Qed.
Lemma JI_VJ an h s s' : VJ s' = VJ s -> JI an h s -> JI an h s'.
Proof.
  intros E HJ. destruct (VJ_glob _ _ E) as (E1 & _ & E3 & _ & E5). unfold JI in *. rewrite E5.
  apply (JH_mono an _ s s' HJ); [intros k y; apply VJ_at; exact E| |exact E1|lia].
  intros k y _. apply fiJ_jv3. apply VJ_find. exact E.
Qed.
Lemma NoIntV_VJ s : NoInt s -> NoIntV (VJ s).
Proof.
  intros HN t Ht. cbn in Ht. apply in_map_iff in Ht as (nd & <- & Hin). cbn.
  apply In_nth_error in Hin as (n & Hn). apply (HN (Z.of_nat n + 1) nd). unfold nodeZ.
  replace (Z.of_nat n + 1 - 1) with (Z.of_nat n) by lia. rewrite Conserve2.nthZ_of_nat. exact Hn.
Qed.

(* the journey part of the state *)
Definition Jst (an : Z -> option Z) (h : list rec) (fl : list Z) (s : sim) : Prop :=
  Conserve2.WFx2 fl s /\ JI an h s /\ Lq s /\ NoInt s.
Lemma Jst_VJ an h fl s s' : VJ s' = VJ s -> Jst an h fl s -> Jst an h fl s'.
Proof.
  intros E (A & B & C & D). split; [eapply Conserve2.WFx2_shape; [apply VJ_shp; exact E|exact A]|].
  split; [eapply JI_VJ; eauto|]. split; [eapply Lq_VJ; eauto|eapply NoInt_VJ; eauto].
Qed.
(* a step that the journey view does not see *)
Lemma Jst_keepJ an h fl {X} (m : M X) s a s' : keepJ NoIntV m -> Jst an h fl s -> m s = Ok (a, s') -> Jst an h fl s' /\ VJ s' = VJ s.
Proof.
  intros Hm HJ H. assert (E : VJ s' = VJ s).
  { apply (Hm s a s'); [eapply WFx2_vidx; exact (proj1 HJ)|apply NoIntV_VJ; exact (proj2 (proj2 (proj2 HJ)))|exact H]. }
  split; [eapply Jst_VJ; eauto|exact E].
Qed.

(* ====================================================================================================================
   5. The server invariant: what makes the customers that finish a service / renege next unblocked
   ==================================================================================================================== *)
Definition slot_of (cf : config) (j : Z) : bool :=
  match nthZ (cf_nodes cf) (j - 1) with Some nc => nc_slotted nc | None => false end.
Definition sched_of (cf : config) (j : Z) : bool :=
  match nthZ (cf_nodes cf) (j - 1) with Some nc => match nc_srv nc with SSched _ => true | _ => false end | None => false end.

Record SrvN (cf : config) (j : Z) (nd : node) : Prop := mkSrvN {
  sn_nd : NoDup (map sv_id (n_servers nd));
  sn_hi : forall sv, In sv (n_servers nd) -> sv_id sv <= n_highest nd;
  sn_inf : nd_inf nd = true -> n_servers nd = [];
  sn_sch : sched_of cf j = true -> nd_inf nd = false
}.
(* si_own: a server of a non-slotted node that holds a customer is that customer's server, the customer is of that node,
   and while the server has an end-of-service date the customer is not blocked;
   si_blk: a blocked customer without server is at an infinite-server or slotted node (fl: customers in flight, exempt) *)
Record SrvInv (cf : config) (fl : list Z) (s : sim) : Prop := mkSrv {
  si_n : forall j nd, nodeZ s j = Some nd -> SrvN cf j nd;
  si_own : forall j nd sv c, nodeZ s j = Some nd -> slot_of cf j = false -> In sv (n_servers nd) -> sv_cust sv = Some c ->
     exists x, find_ind c (inds s) = Some x /\ i_server x = Some (sv_id sv) /\ i_node x = Some j /\ (sv_next_end sv <> None -> i_blocked x = false);
  si_blk : forall i x, find_ind i (inds s) = Some x -> ~ In i fl -> i_blocked x = true -> i_server x = None ->
     exists k nd, i_node x = Some k /\ nodeZ s k = Some nd /\ (nd_inf nd = true \/ slot_of cf k = true);
  (* with priority pre-emption in the configuration (hence no capacities) nobody is blocked *)
  si_nb : preempts cf = true -> forall i x, find_ind i (inds s) = Some x -> i_blocked x = false
}.
Definition NoOwner (cf : config) (i : Z) (s : sim) : Prop :=
  forall j nd sv, nodeZ s j = Some nd -> slot_of cf j = false -> In sv (n_servers nd) -> sv_cust sv <> Some i.
(* the customer held by server sid of node j, if any, is not blocked *)
Definition Unb (s : sim) (j sid : Z) : Prop :=
  forall nd sv c, nodeZ s j = Some nd -> In sv (n_servers nd) -> sv_id sv = sid -> sv_cust sv = Some c ->
    exists x, find_ind c (inds s) = Some x /\ i_blocked x = false.

(* ---- server lists ---- *)
Lemma find_server_spec i l sv : find_server i l = Some sv -> In sv l /\ sv_id sv = i.
Proof.
  induction l as [|y r IH]; cbn; [discriminate|]. destruct (sv_id y =? i) eqn:E.
  - intros H. injection H as <-. split; [left; reflexivity|apply Z.eqb_eq; exact E].
  - intros H. destruct (IH H). split; [right; assumption|assumption].
Qed.
Lemma put_server_ids sv l : map sv_id (put_server_l sv l) = map sv_id l.
Proof.
  induction l as [|y r IH]; cbn; [reflexivity|]. destruct (sv_id y =? sv_id sv) eqn:E; cbn.
  - apply Z.eqb_eq in E. rewrite E. reflexivity.
  - rewrite IH. reflexivity.
Qed.
Lemma put_server_in sv l t : NoDup (map sv_id l) -> In t (put_server_l sv l) -> t = sv \/ (In t l /\ sv_id t <> sv_id sv).
Proof.
  induction l as [|y r IH]; cbn; [intros _ []|]. intros Hnd. inversion Hnd as [|? ? Hn Hd]. destruct (sv_id y =? sv_id sv) eqn:E.
  - apply Z.eqb_eq in E. intros [<-|Hin]; [left; reflexivity|]. right. split; [right; exact Hin|].
    intros E2. apply Hn. rewrite E, <- E2. apply in_map. exact Hin.
  - apply Z.eqb_neq in E. intros [<-|Hin]; [right; split; [left; reflexivity|exact E]|].
    destruct (IH Hd Hin) as [->|[H1 H2]]; [left; reflexivity|right; split; [right; exact H1|exact H2]].
Qed.
Lemma del_server_in i l t : In t (del_server_l i l) -> In t l.
Proof. induction l as [|y r IH]; cbn; [auto|]. destruct (sv_id y =? i); [auto|]. intros [<-|H]; auto. Qed.
Lemma del_server_nodup i l : NoDup (map sv_id l) -> NoDup (map sv_id (del_server_l i l)).
Proof.
  induction l as [|y r IH]; cbn; [auto|]. intros H. inversion H as [|? ? Hn Hd]. destruct (sv_id y =? i); [exact Hd|].
  cbn. constructor; [|apply IH; exact Hd]. intros Hin. apply Hn. apply in_map_iff in Hin as (t & Et & Ht). rewrite <- Et. apply in_map. eapply del_server_in; eauto.
Qed.
Lemma srv3_in l l' sv : map srv3 l' = map srv3 l -> In sv l' -> exists sv0, In sv0 l /\ srv3 sv0 = srv3 sv.
Proof. intros E Hin. apply (in_map srv3) in Hin. rewrite E in Hin. apply in_map_iff in Hin as (sv0 & E0 & H0). eauto. Qed.
Lemma srv3_ids l l' : map srv3 l' = map srv3 l -> map sv_id l' = map sv_id l.
Proof.
  intros E. transitivity (map (fun t : Z * option Z * option Z => fst (fst t)) (map srv3 l')); [rewrite map_map; reflexivity|].
  rewrite E, map_map. reflexivity.
Qed.

(* ---- the server view ---- *)
Lemma VS_node s s' k nd' : VS s' = VS s -> nodeZ s' k = Some nd' ->
  exists nd, nodeZ s k = Some nd /\ n_id nd' = n_id nd /\ map srv3 (n_servers nd') = map srv3 (n_servers nd) /\ n_highest nd' = n_highest nd /\ nd_inf nd' = nd_inf nd.
Proof.
  intros E Hn. pose proof (VW_node fnS fiS fgS s s' k E) as Hv. rewrite Hn in Hv. destruct (nodeZ s k) as [nd|]; [|discriminate].
  cbn in Hv. unfold nv, fnS in Hv. injection Hv as E1 E2 E3 E4. exists nd. auto 6.
Qed.
Lemma VS_find s s' i x' : VS s' = VS s -> find_ind i (inds s') = Some x' ->
  exists x, find_ind i (inds s) = Some x /\ i_server x' = i_server x /\ i_node x' = i_node x /\ i_blocked x' = i_blocked x.
Proof.
  intros E Hf. pose proof (VW_ind fnS fiS fgS s s' i E) as Hv. rewrite Hf in Hv. destruct (find_ind i (inds s)) as [x|]; [|discriminate].
  cbn in Hv. unfold fiS in Hv. injection Hv as E1 E2 E3. exists x. auto.
Qed.
Lemma SrvN_eq cf j nd nd' : map srv3 (n_servers nd') = map srv3 (n_servers nd) -> n_highest nd' = n_highest nd -> nd_inf nd' = nd_inf nd ->
  SrvN cf j nd -> SrvN cf j nd'.
Proof.
  intros E1 E2 E3 [A B C D]. constructor.
  - rewrite (srv3_ids _ _ E1). exact A.
  - intros sv Hin. destruct (srv3_in _ _ _ E1 Hin) as (sv0 & H0 & E0). unfold srv3 in E0. injection E0 as E0 _ _. rewrite <- E0, E2. apply B. exact H0.
  - rewrite E3. intros Hi. rewrite (C Hi) in E1. cbn in E1. apply map_eq_nil in E1. exact E1.
  - rewrite E3. exact D.
Qed.
Lemma SrvInv_VS cf fl s s' : VS s' = VS s -> SrvInv cf fl s -> SrvInv cf fl s'.
Proof.
  intros E [A B C Dnb]. assert (E' : VS s = VS s') by auto. constructor.
  - intros j nd' Hn. destruct (VS_node _ _ _ _ E Hn) as (nd & Hn0 & _ & E1 & E2 & E3). eapply SrvN_eq; eauto.
  - intros j nd' sv c Hn Hs Hin Hc. destruct (VS_node _ _ _ _ E Hn) as (nd & Hn0 & _ & E1 & _ & _).
    destruct (srv3_in _ _ _ E1 Hin) as (sv0 & H0 & E0). unfold srv3 in E0. injection E0 as E01 E02 E03.
    destruct (B j nd sv0 c Hn0 Hs H0 ltac:(congruence)) as (x & Hx & P1 & P2 & P3).
    destruct (VS_find _ _ c x E' Hx) as (x' & Hx' & Q1 & Q2 & Q3). exists x'. split; [exact Hx'|].
    split; [congruence|]. split; [congruence|]. intros Hne. rewrite <- Q3. apply P3. congruence.
  - intros i x' Hf Hfl Hb Hs. destruct (VS_find _ _ i x' E Hf) as (x & Hx & Q1 & Q2 & Q3).
    destruct (C i x Hx Hfl ltac:(congruence) ltac:(congruence)) as (k & nd & Hk & Hn & Hor).
    pose proof (VW_node fnS fiS fgS s s' k E) as Hv. rewrite Hn in Hv. destruct (nodeZ s' k) as [nd'|] eqn:En'; [|discriminate].
    cbn in Hv. unfold nv, fnS in Hv. injection Hv as _ _ _ E4. exists k, nd'. split; [congruence|]. split; [exact En'|]. rewrite E4. exact Hor.
  - intros Hp i x' Hf. destruct (VS_find _ _ i x' E Hf) as (x & Hx & _ & _ & Q3). rewrite Q3. exact (Dnb Hp i x Hx).
Qed.
Lemma NoOwner_VS cf i s s' : VS s' = VS s -> NoOwner cf i s -> NoOwner cf i s'.
Proof.
  intros E HN j nd' sv Hn Hs Hin Hc. destruct (VS_node _ _ _ _ E Hn) as (nd & Hn0 & _ & E1 & _ & _).
  destruct (srv3_in _ _ _ E1 Hin) as (sv0 & H0 & E0). unfold srv3 in E0. injection E0 as _ E02 _. apply (HN j nd sv0 Hn0 Hs H0). congruence.
Qed.
Lemma Unb_VS s s' j sid : VS s' = VS s -> Unb s j sid -> Unb s' j sid.
Proof.
  intros E HU nd' sv c Hn Hin Hid Hc. assert (E' : VS s = VS s') by auto. destruct (VS_node _ _ _ _ E Hn) as (nd & Hn0 & _ & E1 & _ & _).
  destruct (srv3_in _ _ _ E1 Hin) as (sv0 & H0 & E0). unfold srv3 in E0. injection E0 as E01 E02 _.
  destruct (HU nd sv0 c Hn0 H0 ltac:(congruence) ltac:(congruence)) as (x & Hx & Hb).
  destruct (VS_find _ _ c x E' Hx) as (x' & Hx' & _ & _ & Q3). exists x'. split; [exact Hx'|congruence].
Qed.
Lemma SrvInv_keepS cf fl {X} (m : M X) s a s' : keepS KT m -> Idx s -> SrvInv cf fl s -> m s = Ok (a, s') -> SrvInv cf fl s' /\ VS s' = VS s.
Proof.
  intros Hm HI HS H. assert (E : VS s' = VS s).
  { apply (Hm s a s'); [|exact I|exact H]. intros k t Hk. unfold VW in Hk. cbn in Hk. rewrite nth_error_map in Hk.
    destruct (nth_error (nodes s) k) as [nd|] eqn:En; [|discriminate]. cbn in Hk. injection Hk as <-. cbn. apply HI.
    unfold nodeZ. replace (Z.of_nat k + 1 - 1) with (Z.of_nat k) by lia. rewrite Conserve2.nthZ_of_nat. exact En. }
  split; [eapply SrvInv_VS; eauto|exact E].
Qed.

(* ---- the two ways the server invariant moves ---- *)
Lemma nodeZ_upd s s' nd' nd0 k : nodes s' = updZ (nodes s) (n_id nd' - 1) nd' -> nodeZ s (n_id nd') = Some nd0 ->
  nodeZ s' k = if k =? n_id nd' then Some nd' else nodeZ s k.
Proof.
  intros E Hn. unfold nodeZ in *. rewrite E. destruct (Z.eqb_spec k (n_id nd')) as [->|Hne].
  - eapply nthZ_updZ_eq; eauto.
  - apply nthZ_updZ_neq. lia.
Qed.
Lemma nodeZ_same s s' k : nodes s' = nodes s -> nodeZ s' k = nodeZ s k.
Proof. intros E. unfold nodeZ. rewrite E. reflexivity. Qed.

(* node j is replaced (records untouched) *)
Lemma SrvInv_put_node cf fl s s' j nd nd' : SrvInv cf fl s -> nodeZ s j = Some nd -> n_id nd' = j ->
  nodes s' = updZ (nodes s) (n_id nd' - 1) nd' -> inds s' = inds s -> SrvN cf j nd' ->
  (slot_of cf j = false -> forall sv c, In sv (n_servers nd') -> sv_cust sv = Some c ->
     exists x, find_ind c (inds s) = Some x /\ i_server x = Some (sv_id sv) /\ i_node x = Some j /\ (sv_next_end sv <> None -> i_blocked x = false)) ->
  (nd_inf nd = true -> nd_inf nd' = true) ->
  SrvInv cf fl s'.
Proof.
  intros [A B C Dnb] Hn Hid En Ei HN Hown Hinf. rewrite <- Hid in Hn. constructor.
  - intros k n Hk. rewrite (nodeZ_upd s s' nd' nd k En Hn) in Hk. destruct (Z.eqb_spec k (n_id nd')) as [->|Hne]; [injection Hk as <-; rewrite Hid; exact HN|exact (A k n Hk)].
  - intros k n sv c Hk Hs Hin Hc. rewrite Ei. rewrite (nodeZ_upd s s' nd' nd k En Hn) in Hk. destruct (Z.eqb_spec k (n_id nd')) as [->|Hne].
    + injection Hk as <-. rewrite Hid in *. exact (Hown Hs sv c Hin Hc).
    + exact (B k n sv c Hk Hs Hin Hc).
  - intros i x Hf Hfl Hb Hs. rewrite Ei in Hf. destruct (C i x Hf Hfl Hb Hs) as (k & n & Hk & Hnk & Hor).
    destruct (Z.eqb_spec k (n_id nd')) as [->|Hne].
    + exists (n_id nd'), nd'. split; [exact Hk|]. split; [rewrite (nodeZ_upd s s' nd' nd _ En Hn), Z.eqb_refl; reflexivity|].
      assert (n = nd) by congruence. subst n. destruct Hor as [Hor|Hor]; [left; apply Hinf; exact Hor|right; exact Hor].
    + exists k, n. split; [exact Hk|]. split; [|exact Hor]. rewrite (nodeZ_upd s s' nd' nd _ En Hn). apply Z.eqb_neq in Hne. rewrite Hne. exact Hnk.
  - intros Hp i x Hf. rewrite Ei in Hf. exact (Dnb Hp i x Hf).
Qed.
(* the record of customer i is replaced (nodes untouched); fl' may drop i from the customers in flight *)
Lemma SrvInv_put_ind cf fl fl' s s' i x x' : SrvInv cf fl s -> find_ind i (inds s) = Some x -> i_id x' = i ->
  nodes s' = nodes s -> inds s' = put_ind_l x' (inds s) ->
  (forall y, y <> i -> In y fl -> In y fl') ->
  (forall j nd sv, nodeZ s j = Some nd -> slot_of cf j = false -> In sv (n_servers nd) -> sv_cust sv = Some i ->
     i_server x' = Some (sv_id sv) /\ i_node x' = Some j /\ (sv_next_end sv <> None -> i_blocked x' = false)) ->
  (~ In i fl' -> i_blocked x' = true -> i_server x' = None ->
     exists k nd, i_node x' = Some k /\ nodeZ s k = Some nd /\ (nd_inf nd = true \/ slot_of cf k = true)) ->
  (preempts cf = true -> i_blocked x' = false) ->
  SrvInv cf fl' s'.
Proof.
  intros [A B C Dnb] Hf Hid En Ei Hfl Hown Hblk Hnb.
  assert (HZ : forall k, nodeZ s' k = nodeZ s k) by (intros k; apply nodeZ_same; exact En). constructor.
  - intros j nd Hn. rewrite HZ in Hn. exact (A j nd Hn).
  - intros j nd sv c Hn Hs Hin Hc. rewrite HZ in Hn. rewrite Ei. destruct (Z.eq_dec c i) as [->|Hne].
    + exists x'. rewrite <- Hid at 1. rewrite find_put_same. split; [reflexivity|]. apply (Hown j nd sv Hn Hs Hin Hc).
    + rewrite find_put_other by congruence. exact (B j nd sv c Hn Hs Hin Hc).
  - intros y z Hy Hny Hb Hs. rewrite Ei in Hy. destruct (Z.eq_dec y i) as [->|Hne].
    + rewrite <- Hid in Hy at 1. rewrite find_put_same in Hy. injection Hy as <-.
      destruct (Hblk Hny Hb Hs) as (k & nd & P1 & P2 & P3). exists k, nd. rewrite HZ. auto.
    + rewrite find_put_other in Hy by congruence. destruct (C y z Hy) as (k & nd & P1 & P2 & P3); [|exact Hb|exact Hs|].
      * intros Hin. apply Hny. apply Hfl; assumption.
      * exists k, nd. rewrite HZ. auto.
  - intros Hp y z Hy. rewrite Ei in Hy. destruct (Z.eq_dec y i) as [->|Hne].
    + rewrite <- Hid in Hy at 1. rewrite find_put_same in Hy. injection Hy as <-. exact (Hnb Hp).
    + rewrite find_put_other in Hy by congruence. exact (Dnb Hp y z Hy).
Qed.
Lemma NoOwner_of cf fl s i x : SrvInv cf fl s -> find_ind i (inds s) = Some x -> i_server x = None -> NoOwner cf i s.
Proof.
  intros HS Hf Hs j nd sv Hn Hsl Hin Hc. destruct (si_own _ _ _ HS j nd sv i Hn Hsl Hin Hc) as (x0 & Hx0 & P1 & _). congruence.
Qed.

Lemma find_server_some i l sv : In sv l -> sv_id sv = i -> find_server i l <> None.
Proof.
  induction l as [|y r IH]; cbn; [intros []|]. intros [->|Hin] Hid.
  - apply Z.eqb_eq in Hid. rewrite Hid. discriminate.
  - destruct (sv_id y =? i); [discriminate|auto].
Qed.
Lemma NoDup_snoc {A} (l : list A) a : NoDup l -> ~ In a l -> NoDup (l ++ [a]).
Proof.
  induction l as [|b t IH]; cbn; intros Hn Hi; [constructor; [intros []|constructor]|].
  inversion Hn as [|? ? H1 H2]. constructor.
  - intros Hin. apply in_app_or in Hin as [Hin|[->|[]]]; [exact (H1 Hin)|apply Hi; left; reflexivity].
  - apply IH; [exact H2|]. intros Hin. apply Hi. right. exact Hin.
Qed.

Lemma upd_server_spec j sid f s u s' : upd_server j sid f s = Ok (u, s') ->
  exists nd, nodeZ s j = Some nd /\ inds s' = inds s /\
    match find_server sid (n_servers nd) with
    | None => nodes s' = nodes s
    | Some sv => nodes s' = updZ (nodes s) (n_id nd - 1) (nd <| n_servers := put_server_l (f sv) (n_servers nd) |>)
    end.
Proof.
  unfold upd_server. intros H. mstep H as nd. exists nd. split; [exact Hn|]. destruct (find_server sid (n_servers nd)) as [sv|].
  - unfold put_node in H. apply modify_spec in H. subst s'. split; reflexivity.
  - apply ret_spec in H as [_ ->]. split; reflexivity.
Qed.
Lemma upd_ind_spec i g s u s' : upd_ind i g s = Ok (u, s') ->
  exists x, find_ind i (inds s) = Some x /\ inds s' = put_ind_l (g x) (inds s) /\ nodes s' = nodes s.
Proof.
  unfold upd_ind. intros H. mstep H as x. exists x. split; [exact Hf|]. unfold put_ind in H. apply modify_spec in H. subst s'. split; reflexivity.
Qed.

Section SrvOps.
  Variable cf : config.

  (* a server of node j is rewritten, identity kept *)
  Lemma SrvN_put j nd sv sv' : SrvN cf j nd -> find_server (sv_id sv') (n_servers nd) = Some sv ->
    SrvN cf j (nd <| n_servers := put_server_l sv' (n_servers nd) |>).
  Proof.
    intros [A B C D] Hf. destruct (find_server_spec _ _ _ Hf) as [Hin Hid]. constructor; cbn.
    - rewrite put_server_ids. exact A.
    - intros t Ht. apply (put_server_in _ _ _ A) in Ht as [->|[Ht _]]; [rewrite <- Hid; apply B; exact Hin|apply B; exact Ht].
    - intros Hi. change (nd_inf (nd <| n_servers := put_server_l sv' (n_servers nd) |>)) with (nd_inf nd) in Hi. rewrite (C Hi) in Hin. destruct Hin.
    - exact D.
  Qed.

  Lemma srv_attach fl j sid c s s' nd xc : Idx s -> SrvInv cf fl s -> nodeZ s j = Some nd ->
    find_ind c (inds s) = Some xc -> i_server xc = None -> i_node xc = Some j -> ~ In c fl ->
    attach_server j sid c s = Ok (tt, s') ->
    SrvInv cf fl s' /\ (slot_of cf j = false -> Unb s' j sid) /\ (forall i, i <> c -> NoOwner cf i s -> NoOwner cf i s').
  Proof.
    intros HI HS Hn Hf Hsv Hnode Hfl H. unfold attach_server in H. mstep H as u0.
    destruct (upd_server_spec _ _ _ _ _ _ E) as (nd0 & Hn0 & Ei0 & Hm). assert (nd0 = nd) by congruence. subst nd0. clear E Hn0.
    destruct (upd_ind_spec _ _ _ _ _ H) as (xr & Hxr & Ei1 & En1). rewrite Ei0 in Hxr, Ei1. assert (xr = xc) by congruence. subst xr. clear H Hxr.
    pose proof (HI _ _ Hn) as Hid. pose proof (find_ind_id _ _ _ Hf) as Hidc.
    set (xc' := xc <| i_server := Some sid |>) in *.
    assert (Hno : NoOwner cf c s) by (eapply NoOwner_of; eauto).
    (* first the record, then the server *)
    set (sa := s <| inds := put_ind_l xc' (inds s) |>).
    assert (HS1 : SrvInv cf fl sa).
    { apply (SrvInv_put_ind cf fl fl s sa c xc xc' HS Hf Hidc); [reflexivity|reflexivity|auto| | |].
      - intros j0 n0 sv0 A1 A2 A3 A4. exfalso. exact (Hno j0 n0 sv0 A1 A2 A3 A4).
      - intros _ _ Hx. discriminate Hx.
      - intros Hp. exact (si_nb _ _ _ HS Hp c xc Hf). }
    assert (Hfc : find_ind c (inds s') = Some xc') by (rewrite Ei1; rewrite <- Hidc at 1; change (i_id xc) with (i_id xc'); apply find_put_same).
    destruct (find_server sid (n_servers nd)) as [sv|] eqn:Efs.
    - destruct (find_server_spec _ _ _ Efs) as [Hsin Hsid].
      set (sv' := sv <| sv_cust := Some c |> <| sv_busy := true |>) in *.
      set (nd' := nd <| n_servers := put_server_l sv' (n_servers nd) |>) in *.
      assert (En : nodes s' = updZ (nodes sa) (n_id nd' - 1) nd') by (rewrite En1; exact Hm).
      assert (Hninf : nd_inf nd = false).
      { destruct (nd_inf nd) eqn:Ei; [|reflexivity]. rewrite (sn_inf _ _ _ (si_n _ _ _ HS j nd Hn) Ei) in Hsin. destruct Hsin. }
      assert (Hunb : slot_of cf j = false -> i_blocked xc = false).
      { intros Hsl. destruct (i_blocked xc) eqn:Eb; [|reflexivity]. exfalso.
        destruct (si_blk _ _ _ HS c xc Hf Hfl Eb Hsv) as (k & n & Hk & Hnk & [Hor|Hor]).
        - assert (k = j) by congruence. subst k. assert (n = nd) by congruence. subst n. congruence.
        - assert (k = j) by congruence. subst k. congruence. }
      assert (HZ : forall k, nodeZ s' k = if k =? j then Some nd' else nodeZ s k).
      { intros k. rewrite <- Hid. change (n_id nd) with (n_id nd'). apply (nodeZ_upd sa s' nd' nd k En). change (n_id nd') with (n_id nd). rewrite Hid. exact Hn. }
      assert (Hput : forall t, In t (n_servers nd') -> t = sv' \/ (In t (n_servers nd) /\ sv_id t <> sid)).
      { intros t Ht. cbn in Ht. apply (put_server_in _ _ _ (sn_nd _ _ _ (si_n _ _ _ HS j nd Hn))) in Ht as [->|[Ht Hne]]; [left; reflexivity|right].
        split; [exact Ht|]. change (sv_id sv') with (sv_id sv) in Hne. congruence. }
      assert (HS2 : SrvInv cf fl s').
      { apply (SrvInv_put_node cf fl sa s' j nd nd' HS1 Hn Hid En Ei1).
        - apply SrvN_put with (sv := sv); [exact (si_n _ _ _ HS j nd Hn)|change (sv_id sv') with (sv_id sv); rewrite Hsid; exact Efs].
        - intros Hsl t c0 Ht Hc0. destruct (Hput t Ht) as [->|[Ht' Hne]].
          + cbn in Hc0. injection Hc0 as <-. exists xc'. change (inds sa) with (put_ind_l xc' (inds s)). rewrite <- Hidc at 1. change (i_id xc) with (i_id xc'). rewrite find_put_same.
            split; [reflexivity|]. split; [cbn; rewrite Hsid; reflexivity|]. split; [exact Hnode|]. intros _. exact (Hunb Hsl).
          + destruct (si_own _ _ _ HS j nd t c0 Hn Hsl Ht' Hc0) as (x0 & Hx0 & P1 & P2 & P3).
            assert (Hne0 : c0 <> c) by (intros ->; congruence).
            exists x0. change (inds sa) with (put_ind_l xc' (inds s)). rewrite find_put_other by (change (i_id xc') with (i_id xc); rewrite Hidc; exact Hne0). auto.
        - auto. }
      split; [exact HS2|]. split.
      + intros Hsl n t c0 Hnn Ht Htid Hc0. rewrite HZ, Z.eqb_refl in Hnn. injection Hnn as <-.
        destruct (Hput t Ht) as [->|[_ Hne]]; [|exfalso; exact (Hne Htid)].
        cbn in Hc0. injection Hc0 as <-. exists xc'. split; [exact Hfc|exact (Hunb Hsl)].
      + intros i Hic HN j0 n0 t Hnn Hsl Ht Hc0. rewrite HZ in Hnn. destruct (Z.eqb_spec j0 j) as [->|Hne].
        * injection Hnn as <-. destruct (Hput t Ht) as [->|[Ht' _]]; [cbn in Hc0; congruence|exact (HN _ nd t Hn Hsl Ht' Hc0)].
        * exact (HN j0 n0 t Hnn Hsl Ht Hc0).
    - assert (En : nodes s' = nodes sa) by (rewrite En1; exact Hm).
      assert (HS2 : SrvInv cf fl s').
      { constructor.
        - intros k n Hk. rewrite (nodeZ_same sa s' k En) in Hk. exact (si_n _ _ _ HS1 k n Hk).
        - intros k n t c0 Hk. rewrite (nodeZ_same sa s' k En) in Hk. rewrite Ei1. exact (si_own _ _ _ HS1 k n t c0 Hk).
        - intros y z Hy. rewrite Ei1 in Hy. intros A1 A2 A3. destruct (si_blk _ _ _ HS1 y z Hy A1 A2 A3) as (k & n & P1 & P2 & P3).
          exists k, n. rewrite (nodeZ_same sa s' k En). auto.
        - intros Hp y z Hy. rewrite Ei1 in Hy. exact (si_nb _ _ _ HS1 Hp y z Hy). }
      split; [exact HS2|]. split.
      + intros _ n t c0 Hnn Ht Htid _. exfalso. rewrite (nodeZ_same sa s' j En) in Hnn. change (nodeZ sa j) with (nodeZ s j) in Hnn.
        assert (n = nd) by congruence. subst n. exact (find_server_some _ _ _ Ht Htid Efs).
      + intros i _ HN j0 n0 t Hnn. rewrite (nodeZ_same sa s' j0 En) in Hnn. exact (HN j0 n0 t Hnn).
  Qed.

  Lemma srv_set_next_end fl j sid d s s' : Idx s -> SrvInv cf fl s -> (d <> None -> slot_of cf j = false -> Unb s j sid) ->
    set_next_end j sid d s = Ok (tt, s') ->
    SrvInv cf fl s' /\ (forall i, NoOwner cf i s -> NoOwner cf i s').
  Proof.
    intros HI HS HU H. unfold set_next_end in H.
    destruct (upd_server_spec _ _ _ _ _ _ H) as (nd & Hn & Ei & Hm). clear H. pose proof (HI _ _ Hn) as Hid.
    destruct (find_server sid (n_servers nd)) as [sv|] eqn:Efs.
    - destruct (find_server_spec _ _ _ Efs) as [Hsin Hsid].
      set (sv' := sv <| sv_next_end := d |>) in *. set (nd' := nd <| n_servers := put_server_l sv' (n_servers nd) |>) in *.
      assert (HZ : forall k, nodeZ s' k = if k =? j then Some nd' else nodeZ s k).
      { intros k. rewrite <- Hid. change (n_id nd) with (n_id nd'). apply (nodeZ_upd s s' nd' nd k Hm). change (n_id nd') with (n_id nd). rewrite Hid. exact Hn. }
      assert (Hput : forall t, In t (n_servers nd') -> t = sv' \/ (In t (n_servers nd) /\ sv_id t <> sid)).
      { intros t Ht. cbn in Ht. apply (put_server_in _ _ _ (sn_nd _ _ _ (si_n _ _ _ HS j nd Hn))) in Ht as [->|[Ht Hne]]; [left; reflexivity|right].
        split; [exact Ht|]. change (sv_id sv') with (sv_id sv) in Hne. congruence. }
      split.
      + apply (SrvInv_put_node cf fl s s' j nd nd' HS Hn Hid Hm Ei).
        * apply SrvN_put with (sv := sv); [exact (si_n _ _ _ HS j nd Hn)|change (sv_id sv') with (sv_id sv); rewrite Hsid; exact Efs].
        * intros Hsl t c0 Ht Hc0. destruct (Hput t Ht) as [->|[Ht' Hne]].
          -- change (sv_cust sv') with (sv_cust sv) in Hc0. destruct (si_own _ _ _ HS j nd sv c0 Hn Hsl Hsin Hc0) as (x0 & Hx0 & P1 & P2 & P3).
             exists x0. split; [exact Hx0|]. split; [exact P1|]. split; [exact P2|]. change (sv_next_end sv') with d. intros Hd.
             destruct (HU Hd Hsl nd sv c0 Hn Hsin Hsid Hc0) as (x1 & Hx1 & Hb). congruence.
          -- exact (si_own _ _ _ HS j nd t c0 Hn Hsl Ht' Hc0).
        * auto.
      + intros i HN j0 n0 t Hnn Hsl Ht Hc0. rewrite HZ in Hnn. destruct (Z.eqb_spec j0 j) as [->|Hne].
        * injection Hnn as <-. destruct (Hput t Ht) as [->|[Ht' _]]; [exact (HN _ nd sv Hn Hsl Hsin Hc0)|exact (HN _ nd t Hn Hsl Ht' Hc0)].
        * exact (HN j0 n0 t Hnn Hsl Ht Hc0).
    - split.
      + constructor.
        * intros k n Hk. rewrite (nodeZ_same s s' k Hm) in Hk. exact (si_n _ _ _ HS k n Hk).
        * intros k n t c0 Hk. rewrite (nodeZ_same s s' k Hm) in Hk. rewrite Ei. exact (si_own _ _ _ HS k n t c0 Hk).
        * intros y z Hy. rewrite Ei in Hy. intros A1 A2 A3. destruct (si_blk _ _ _ HS y z Hy A1 A2 A3) as (k & n & P1 & P2 & P3).
          exists k, n. rewrite (nodeZ_same s s' k Hm). auto.
        * intros Hp y z Hy. rewrite Ei in Hy. exact (si_nb _ _ _ HS Hp y z Hy).
      + intros i HN j0 n0 t Hnn. rewrite (nodeZ_same s s' j0 Hm) in Hnn. exact (HN j0 n0 t Hnn).
  Qed.

  (* node j gets a sub-list of its servers (a server retires) *)
  Lemma srv_sub_servers fl j nd nd' s s' : SrvInv cf fl s -> nodeZ s j = Some nd -> n_id nd' = j ->
    nodes s' = updZ (nodes s) (n_id nd' - 1) nd' -> inds s' = inds s ->
    (forall t, In t (n_servers nd') -> In t (n_servers nd)) -> NoDup (map sv_id (n_servers nd')) ->
    n_highest nd' = n_highest nd -> nd_inf nd' = nd_inf nd ->
    SrvInv cf fl s' /\ (forall i, NoOwner cf i s -> NoOwner cf i s').
  Proof.
    intros HS Hn Hid En Ei Hsub Hnd Hhi Hinf. pose proof (si_n _ _ _ HS j nd Hn) as [A B C D]. split.
    - apply (SrvInv_put_node cf fl s s' j nd nd' HS Hn Hid En Ei).
      + constructor; [exact Hnd|intros t Ht; rewrite Hhi; apply B; apply Hsub; exact Ht| |rewrite Hinf; exact D].
        rewrite Hinf. intros Hi. specialize (C Hi). destruct (n_servers nd') as [|t r]; [reflexivity|]. specialize (Hsub t (or_introl eq_refl)). rewrite C in Hsub. destruct Hsub.
      + intros Hsl t c0 Ht Hc0. exact (si_own _ _ _ HS j nd t c0 Hn Hsl (Hsub t Ht) Hc0).
      + rewrite Hinf. auto.
    - intros i HN j0 n0 t Hnn Hsl Ht Hc0. rewrite <- Hid in Hn. rewrite (nodeZ_upd s s' nd' nd j0 En Hn) in Hnn. destruct (Z.eqb_spec j0 (n_id nd')) as [->|Hne].
      + injection Hnn as <-. exact (HN _ nd t Hn Hsl (Hsub t Ht) Hc0).
      + exact (HN j0 n0 t Hnn Hsl Ht Hc0).
  Qed.

  Lemma srv_kill_server fl j sid s s' : Idx s -> SrvInv cf fl s -> kill_server j sid s = Ok (tt, s') ->
    SrvInv cf fl s' /\ (forall i, NoOwner cf i s -> NoOwner cf i s').
  Proof.
    intros HI HS H. unfold kill_server in H. mstep H as t0. mstep H as nd. mstep H as sv.
    unfold put_node in H. apply modify_spec in H. pose proof (HI _ _ Hn) as Hid.
    match type of H with s' = s <| nodes := updZ _ _ ?n |> => set (nd' := n) in * end.
    apply (srv_sub_servers fl j nd nd' s s' HS Hn Hid); [rewrite H; reflexivity|rewrite H; reflexivity| | |reflexivity|reflexivity].
    - intros t Ht. cbn in Ht. eapply del_server_in; eauto.
    - cbn. apply del_server_nodup. exact (sn_nd _ _ _ (si_n _ _ _ HS j nd Hn)).
  Qed.

  (* detatch_server in release: the customer in flight leaves its server *)
  Lemma srv_detatch fl j sid i s s' xi : Idx s -> SrvInv cf fl s -> (In i fl \/ i_blocked xi = false) -> find_ind i (inds s) = Some xi ->
    i_node xi = Some j -> i_server xi = Some sid -> detatch_server j sid i s = Ok (tt, s') ->
    SrvInv cf fl s' /\ NoOwner cf i s' /\ (forall i', NoOwner cf i' s -> NoOwner cf i' s') /\
    (forall y, y <> i -> find_ind y (inds s') = find_ind y (inds s)).
  Proof.
    intros HI HS Hfl Hf Hnode Hsrv H. unfold detatch_server in H. mstep H as t0. mstep H as nd. mstep H as xr.
    assert (xr = xi) by congruence. subst xr. clear Hf0. pose proof (HI _ _ Hn) as Hid. pose proof (find_ind_id _ _ _ Hf) as Hidi.
    mstep H as u0. destruct (put_ind_facts _ _ _ _ E) as (Ei1 & En1 & _). clear E.
    set (xi' := xi <| i_server := None |>) in *.
    (* an owner of i is server sid of node j *)
    assert (Hown : forall j0 n0 t, nodeZ s j0 = Some n0 -> slot_of cf j0 = false -> In t (n_servers n0) -> sv_cust t = Some i -> j0 = j /\ n0 = nd /\ sv_id t = sid).
    { intros j0 n0 t A1 A2 A3 A4. destruct (si_own _ _ _ HS j0 n0 t i A1 A2 A3 A4) as (x0 & Hx0 & P1 & P2 & _).
      assert (x0 = xi) by congruence. subst x0. assert (j0 = j) by congruence. subst j0. split; [reflexivity|]. split; congruence. }
    destruct (find_server sid (n_servers nd)) as [sv|] eqn:Efs.
    - destruct (find_server_spec _ _ _ Efs) as [Hsin Hsid].
      mstep H as u1. unfold put_node in E. apply modify_spec in E.
      match type of E with _ = _ <| nodes := updZ _ _ (nd <| n_servers := put_server_l ?v _ |>) |> => set (sv' := v) in * end.
      match type of E with _ = _ <| nodes := updZ _ _ ?n |> => set (nd' := n) in * end.
      (* first the server (on s), then the record *)
      set (sa := s <| nodes := updZ (nodes s) (n_id nd' - 1) nd' |>).
      assert (Hput : forall t, In t (n_servers nd') -> t = sv' \/ (In t (n_servers nd) /\ sv_id t <> sid)).
      { intros t Ht. cbn in Ht. apply (put_server_in _ _ _ (sn_nd _ _ _ (si_n _ _ _ HS j nd Hn))) in Ht as [->|[Ht Hne]]; [left; reflexivity|right].
        split; [exact Ht|]. change (sv_id sv') with (sv_id sv) in Hne. congruence. }
      assert (HZa : forall k, nodeZ sa k = if k =? j then Some nd' else nodeZ s k).
      { intros k. rewrite <- Hid. change (n_id nd) with (n_id nd'). apply (nodeZ_upd s sa nd' nd k eq_refl). change (n_id nd') with (n_id nd). rewrite Hid. exact Hn. }
      assert (HSa : SrvInv cf fl sa).
      { apply (SrvInv_put_node cf fl s sa j nd nd' HS Hn Hid eq_refl eq_refl).
        - apply SrvN_put with (sv := sv); [exact (si_n _ _ _ HS j nd Hn)|change (sv_id sv') with (sv_id sv); rewrite Hsid; exact Efs].
        - intros Hsl t c0 Ht Hc0. destruct (Hput t Ht) as [->|[Ht' Hne]]; [cbn in Hc0; discriminate Hc0|exact (si_own _ _ _ HS j nd t c0 Hn Hsl Ht' Hc0)].
        - auto. }
      assert (HNa : NoOwner cf i sa).
      { intros j0 n0 t A1 A2 A3 A4. rewrite HZa in A1. destruct (Z.eqb_spec j0 j) as [->|Hne].
        - injection A1 as <-. destruct (Hput t A3) as [->|[Ht' Hne]]; [cbn in A4; discriminate A4|].
          destruct (Hown j nd t Hn A2 Ht' A4) as (_ & _ & Hx). exact (Hne Hx).
        - destruct (Hown j0 n0 t A1 A2 A3 A4) as (Hx & _). exact (Hne Hx). }
      assert (En0 : nodes s1 = nodes sa) by (rewrite E; cbn; rewrite En1; reflexivity).
      assert (Ei0 : inds s1 = put_ind_l xi' (inds sa)) by (rewrite E; cbn; exact Ei1).
      assert (HS2 : SrvInv cf fl s1 /\ NoOwner cf i s1 /\ (forall i', NoOwner cf i' s -> NoOwner cf i' s1)).
      { split; [|split].
        - apply (SrvInv_put_ind cf fl fl sa s1 i xi xi' HSa Hf Hidi En0 Ei0); [auto| | |].
          + intros j0 n0 t A1 A2 A3 A4. exfalso. exact (HNa j0 n0 t A1 A2 A3 A4).
          + intros Hx Hb. exfalso. destruct Hfl as [Hfl|Hfl]; [exact (Hx Hfl)|change (i_blocked xi') with (i_blocked xi) in Hb; congruence].
          + intros Hp. exact (si_nb _ _ _ HS Hp i xi Hf).
        - intros j0 n0 t A1. rewrite (nodeZ_same sa s1 j0 En0) in A1. exact (HNa j0 n0 t A1).
        - intros i' HN j0 n0 t A1 A2 A3 A4. rewrite (nodeZ_same sa s1 j0 En0), HZa in A1. destruct (Z.eqb_spec j0 j) as [->|Hne].
          + injection A1 as <-. destruct (Hput t A3) as [->|[Ht' _]]; [cbn in A4; discriminate A4|exact (HN j nd t Hn A2 Ht' A4)].
          + exact (HN j0 n0 t A1 A2 A3 A4). }
      destruct HS2 as (HS2 & HN2 & HO2).
      assert (Hfo1 : forall y, y <> i -> find_ind y (inds s1) = find_ind y (inds s)).
      { intros y Hy. rewrite Ei0. change (inds sa) with (inds s). rewrite find_put_other; [reflexivity|]. change (i_id xi') with (i_id xi). congruence. }
      destruct (sv_offduty sv).
      + assert (I0 : Idx s1).
        { intros k n Hk. rewrite (nodeZ_same sa s1 k En0), HZa in Hk.
          destruct (Z.eqb_spec k j) as [->|Hne]; [injection Hk as <-; exact Hid|exact (HI k n Hk)]. }
        destruct (srv_kill_server fl j sid s1 s' I0 HS2 H) as (HS3 & HO3). split; [exact HS3|]. split; [apply HO3; exact HN2|]. split; [intros i' HN; apply HO3, HO2, HN|].
        intros y Hy. rewrite <- (Hfo1 y Hy). f_equal. unfold kill_server in H. mstep H as t1. mstep H as nd2. mstep H as sv2.
        unfold put_node in H. apply modify_spec in H. rewrite H. reflexivity.
      + apply ret_spec in H as [_ ->]. auto.
    - apply ret_spec in H as [_ ->].
      assert (HN0 : NoOwner cf i s).
      { intros j0 n0 t A1 A2 A3 A4. destruct (Hown j0 n0 t A1 A2 A3 A4) as (-> & -> & Hx). exact (find_server_some _ _ _ A3 Hx Efs). }
      split; [|split].
      + apply (SrvInv_put_ind cf fl fl s s0 i xi xi' HS Hf Hidi En1 Ei1); [auto| | |].
        * intros j0 n0 t A1 A2 A3 A4. exfalso. exact (HN0 j0 n0 t A1 A2 A3 A4).
        * intros Hx Hb. exfalso. destruct Hfl as [Hfl|Hfl]; [exact (Hx Hfl)|change (i_blocked xi') with (i_blocked xi) in Hb; congruence].
        * intros Hp. exact (si_nb _ _ _ HS Hp i xi Hf).
      + intros j0 n0 t A1. rewrite (nodeZ_same s s0 j0 En1) in A1. exact (HN0 j0 n0 t A1).
      + split; [intros i' HN j0 n0 t A1; rewrite (nodeZ_same s s0 j0 En1) in A1; exact (HN j0 n0 t A1)|].
        intros y Hy. rewrite Ei1, find_put_other; [reflexivity|]. change (i_id xi') with (i_id xi). congruence.
  Qed.

  Lemma srv_add_new_servers fl : forall k j s s', Idx s -> SrvInv cf fl s -> (forall nd, nodeZ s j = Some nd -> nd_inf nd = false) ->
    add_new_servers k j s = Ok (tt, s') -> SrvInv cf fl s' /\ (forall i, NoOwner cf i s -> NoOwner cf i s') /\ Idx s'.
  Proof.
    induction k as [|k IH]; intros j s s' HI HS Hinf H; cbn [add_new_servers] in H; [apply ret_spec in H as [_ ->]; auto|].
    mstep H as t0. mstep H as u0. unfold upd_node in E. mstep E as nd. unfold put_node in E. apply modify_spec in E.
    pose proof (HI _ _ Hn) as Hid. pose proof (si_n _ _ _ HS j nd Hn) as [A B C D].
    match type of E with _ = _ <| nodes := updZ _ _ ?n |> => set (nd' := n) in * end.
    assert (En : nodes s0 = updZ (nodes s) (n_id nd' - 1) nd') by (rewrite E; reflexivity).
    assert (Ei : inds s0 = inds s) by (rewrite E; reflexivity).
    assert (HZ : forall k0, nodeZ s0 k0 = if k0 =? j then Some nd' else nodeZ s k0).
    { intros k0. rewrite <- Hid. change (n_id nd) with (n_id nd'). apply (nodeZ_upd s s0 nd' nd k0 En). change (n_id nd') with (n_id nd). rewrite Hid. exact Hn. }
    assert (HS1 : SrvInv cf fl s0).
    { apply (SrvInv_put_node cf fl s s0 j nd nd' HS Hn Hid En Ei).
      - constructor; cbn.
        + rewrite map_app. cbn. apply NoDup_snoc; [exact A|]. intros Hin. apply in_map_iff in Hin as (t & Et & Ht). specialize (B t Ht). lia.
        + intros t Ht. apply in_app_or in Ht as [Ht|[<-|[]]]; [specialize (B t Ht); lia|cbn; lia].
        + intros Hi. change (nd_inf nd') with (nd_inf nd) in Hi. rewrite (Hinf nd Hn) in Hi. discriminate Hi.
        + exact D.
      - intros Hsl t c0 Ht Hc0. cbn in Ht. apply in_app_or in Ht as [Ht|[<-|[]]]; [exact (si_own _ _ _ HS j nd t c0 Hn Hsl Ht Hc0)|cbn in Hc0; discriminate Hc0].
      - auto. }
    assert (HO1 : forall i, NoOwner cf i s -> NoOwner cf i s0).
    { intros i HN j0 n0 t A1 A2 A3 A4. rewrite HZ in A1. destruct (Z.eqb_spec j0 j) as [->|Hne].
      - injection A1 as <-. cbn in A3. apply in_app_or in A3 as [A3|[<-|[]]]; [exact (HN j nd t Hn A2 A3 A4)|cbn in A4; discriminate A4].
      - exact (HN j0 n0 t A1 A2 A3 A4). }
    assert (I1 : Idx s0).
    { intros k0 n Hk. rewrite HZ in Hk. destruct (Z.eqb_spec k0 j) as [->|Hne]; [injection Hk as <-; exact Hid|exact (HI k0 n Hk)]. }
    destruct (IH j s0 s' I1 HS1) as (HS2 & HO2 & I2); [|exact H|].
    - intros n Hnn. rewrite HZ, Z.eqb_refl in Hnn. injection Hnn as <-. exact (Hinf nd Hn).
    - split; [exact HS2|]. split; [intros i HN; apply HO2, HO1, HN|exact I2].
  Qed.
End SrvOps.

(* ---- consequences of conservation ---- *)
Lemma at_node_qids s k i : at_node s k i -> In i (Conserve2.qids (Conserve2.shp s)).
Proof.
  intros (nd & Hn & Hin). unfold Conserve2.qids, Conserve2.shp. cbn. rewrite map_map. apply in_concat.
  exists (concat (n_queues nd)). split; [|exact Hin]. apply in_map_iff. exists nd. split; [reflexivity|]. eapply nthZ_In; eauto.
Qed.
Lemma qids_at_node s i : In i (Conserve2.qids (Conserve2.shp s)) -> exists k, at_node s k i.
Proof.
  unfold Conserve2.qids, Conserve2.shp. cbn. rewrite map_map. intros Hin. apply in_concat in Hin as (q & Hq & Hi).
  apply in_map_iff in Hq as (nd & <- & Hnd). apply In_nth_error in Hnd as (n & Hn). exists (Z.of_nat n + 1), nd. split; [|exact Hi].
  unfold nodeZ. replace (Z.of_nat n + 1 - 1) with (Z.of_nat n) by lia. rewrite Conserve2.nthZ_of_nat. exact Hn.
Qed.
Lemma WFx2_nodup fl s : Conserve2.WFx2 fl s -> NoDup (Conserve2.qids (Conserve2.shp s) ++ exit_ids s ++ fl).
Proof. intros (_ & _ & _ & HP & _). eapply Permutation_NoDup; [symmetry; exact HP|apply zseq_NoDup]. Qed.
Lemma NoDup_app_disj {A} (a b : list A) x : NoDup (a ++ b) -> In x a -> In x b -> False.
Proof.
  induction a as [|y a IH]; cbn; [intros _ []|]. intros H. inversion H as [|? ? Hn Hd]. intros [->|Ha] Hb.
  - apply Hn. apply in_or_app. right. exact Hb.
  - exact (IH Hd Ha Hb).
Qed.
Lemma NoDup_app_r {A} (a b : list A) : NoDup (a ++ b) -> NoDup b.
Proof. induction a as [|y a IH]; cbn; [auto|]. intros H. inversion H. auto. Qed.
Lemma WFx2_at_notfl fl s k i : Conserve2.WFx2 fl s -> at_node s k i -> ~ In i fl.
Proof.
  intros HW Hat Hfl. apply (NoDup_app_disj _ _ i (WFx2_nodup _ _ HW)); [apply at_node_qids with (k := k); exact Hat|].
  apply in_or_app. right. exact Hfl.
Qed.
Lemma WFx2_away fl s i : Conserve2.WFx2 fl s -> In i fl -> (forall k, ~ at_node s k i) /\ ~ In i (exit_ids s).
Proof.
  intros HW Hfl. split.
  - intros k Hat. exact (WFx2_at_notfl _ _ _ _ HW Hat Hfl).
  - intros Hex. pose proof (WFx2_nodup _ _ HW) as Hnd. apply NoDup_app_r in Hnd. exact (NoDup_app_disj _ _ i Hnd Hex Hfl).
Qed.
Lemma WFx2_fl_le fl s i : Conserve2.WFx2 fl s -> In i fl -> 1 <= i <= a_created (arr s).
Proof.
  intros (_ & _ & H0 & HP & _) Hfl. assert (Hin : In i (zseq 1 (Z.to_nat (a_created (arr s))))).
  { eapply Permutation_in; [exact HP|]. apply in_or_app. right. apply in_or_app. right. exact Hfl. }
  apply zseq_In in Hin. cbn in *. lia.
Qed.
Lemma NoDup_app_drop {A} (a b c : list A) : NoDup (a ++ b ++ c) -> NoDup (a ++ c).
Proof.
  induction a as [|x a IH]; cbn; [apply NoDup_app_r|]. intros H. inversion H as [|? ? Hn Hd]. constructor; [|apply IH; exact Hd].
  intros Hin. apply Hn. apply in_app_or in Hin as [Hin|Hin]; apply in_or_app; [left; exact Hin|right; apply in_or_app; right; exact Hin].
Qed.
Lemma WFx2_ids_nodup fl s : Conserve2.WFx2 fl s -> NoDup (map i_id (inds s)).
Proof.
  intros HW. pose proof (WFx2_nodup _ _ HW) as Hnd. destruct HW as (_ & _ & _ & _ & HQ).
  eapply Permutation_NoDup; [symmetry; exact HQ|]. eapply NoDup_app_drop; exact Hnd.
Qed.
Lemma WFx2_rec_place fl s i x : Conserve2.WFx2 fl s -> find_ind i (inds s) = Some x -> (exists k, at_node s k i) \/ In i fl.
Proof.
  intros HW Hf. destruct HW as (_ & _ & _ & _ & HQ). cbn in HQ. apply Conserve2.find_ind_In in Hf.
  eapply Permutation_in in Hf; [|exact HQ]. apply in_app_or in Hf as [Hf|Hf]; [left; apply qids_at_node; exact Hf|right; exact Hf].
Qed.

Lemma Idx_VJ s s' : VJ s' = VJ s -> Idx s -> Idx s'.
Proof. intros E HI k nd' Hn. destruct (VJ_node _ _ _ _ E Hn) as (nd & Hn0 & Eid & _). rewrite Eid. exact (HI k nd Hn0). Qed.
Lemma Idx_vidx {NV IV GV} (fn : node -> NV) (fi : ind -> IV) (fg : sim -> GV) s : Idx s -> vidx (VW fn fi fg s).
Proof.
  intros HI k t Hk. unfold VW in Hk. cbn in Hk. rewrite nth_error_map in Hk.
  destruct (nth_error (nodes s) k) as [nd|] eqn:En; [|discriminate]. cbn in Hk. injection Hk as <-. cbn. apply HI.
  unfold nodeZ. replace (Z.of_nat k + 1 - 1) with (Z.of_nat k) by lia. rewrite Conserve2.nthZ_of_nat. exact En.
Qed.
Lemma NodeOK_VJ s s' : VJ s' = VJ s -> NodeOK s -> NodeOK s'.
Proof.
  intros E HN k i Hat. destruct (HN k i (VJ_at _ _ _ _ E Hat)) as (x & Hx & Hk).
  pose proof (VJ_find s s' i E) as Hv. rewrite Hx in Hv. destruct (find_ind i (inds s')) as [x'|]; [|discriminate].
  cbn in Hv. unfold fiJ in Hv. injection Hv as E1 _ _ _ _. exists x'. split; [reflexivity|congruence].
Qed.
(* the context the server lemmas need: conservation, every customer is recorded in its node, nobody interrupted *)
Definition Ctx (fl : list Z) (s : sim) : Prop := Conserve2.WFx2 fl s /\ NodeOK s /\ NoInt s.
Lemma Ctx_VJ fl s s' : VJ s' = VJ s -> Ctx fl s -> Ctx fl s'.
Proof.
  intros E (A & B & C). split; [eapply Conserve2.WFx2_shape; [apply VJ_shp; exact E|exact A]|]. split; [eapply NodeOK_VJ; eauto|eapply NoInt_VJ; eauto].
Qed.
Lemma Ctx_Idx fl s : Ctx fl s -> Idx s.
Proof. intros (A & _). eapply WFx2_Idx; eauto. Qed.
(* steps neither view sees *)
Lemma carryB cf fl {X} (m : M X) s a s' : keepB KT m -> Ctx fl s -> SrvInv cf fl s -> m s = Ok (a, s') ->
  Ctx fl s' /\ SrvInv cf fl s' /\ VS s' = VS s /\ VJ s' = VJ s.
Proof.
  intros Hm HC HS H. pose proof (Ctx_Idx _ _ HC) as HI.
  assert (EJ : VJ s' = VJ s) by (apply (kb_kj KT m Hm s a s'); [apply Idx_vidx; exact HI|exact I|exact H]).
  assert (ES : VS s' = VS s) by (apply (kb_ks KT m Hm s a s'); [apply Idx_vidx; exact HI|exact I|exact H]).
  split; [eapply Ctx_VJ; eauto|]. split; [eapply SrvInv_VS; eauto|auto].
Qed.
(* steps the journey view does not see *)
Lemma carryJ fl {X} (m : M X) s a s' : keepJ NoIntV m -> Ctx fl s -> m s = Ok (a, s') -> Ctx fl s' /\ VJ s' = VJ s.
Proof.
  intros Hm HC H. pose proof (Ctx_Idx _ _ HC) as HI.
  assert (EJ : VJ s' = VJ s) by (apply (Hm s a s'); [apply Idx_vidx; exact HI|apply NoIntV_VJ; exact (proj2 (proj2 HC))|exact H]).
  split; [eapply Ctx_VJ; eauto|exact EJ].
Qed.

(* ---- who is chosen to start service ---- *)
Lemma waiting_of_in c q il : In c (waiting_of q il) -> In c q /\ exists x, find_ind c il = Some x /\ i_server x = None.
Proof.
  induction q as [|i r IH]; cbn; [intros []|]. destruct (find_ind i il) as [x|] eqn:Ef.
  - destruct (i_server x) eqn:Es.
    + intros H. destruct (IH H) as [A B]. auto.
    + intros [<-|H]; [split; [left; reflexivity|eauto]|]. destruct (IH H) as [A B]. auto.
  - intros H. destruct (IH H) as [A B]. auto.
Qed.
Lemma first_waiting_in c qs il : In c (first_waiting qs il) -> In c (concat qs) /\ exists x, find_ind c il = Some x /\ i_server x = None.
Proof.
  induction qs as [|q r IH]; cbn; [intros []|]. destruct (waiting_of q il) as [|w ws] eqn:Ew.
  - intros H. destruct (IH H) as [A B]. split; [apply in_or_app; right; exact A|exact B].
  - intros H. rewrite <- Ew in H. destruct (waiting_of_in _ _ _ H) as [A B]. split; [apply in_or_app; left; exact A|exact B].
Qed.
Lemma last_in {A} (l : list A) d : In (last l d) (d :: l).
Proof. revert d; induction l as [|a t IH]; intros d; [left; reflexivity|]. rewrite last_cons. right. apply (IH a). Qed.
Lemma choice_uniform_spec {A} (l : list A) x s s' : choice_uniform l s = Ok (x, s') -> In x l /\ nodes s' = nodes s /\ inds s' = inds s.
Proof.
  unfold choice_uniform. intros H. mstep H as u. apply lift_spec in H as [-> Hl].
  unfold draw_unif in E. destruct (d_unif (dr s)); [discriminate|]. injection E as _ <-. split; [eapply nth_error_In; eauto|split; reflexivity].
Qed.
Lemma cnc_spec cf j c s s' : choose_next_customer cf j s = Ok (Some c, s') ->
  at_node s j c /\ (exists x, find_ind c (inds s) = Some x /\ i_server x = None) /\ nodes s' = nodes s /\ inds s' = inds s.
Proof.
  unfold choose_next_customer. intros H. mstep H as nd. mstep H as il.
  destruct (first_waiting (n_queues nd) (inds s)) as [|w0 wr] eqn:Ew; [apply ret_spec in H as [H _]; discriminate|].
  assert (Hall : forall y, In y (w0 :: wr) -> at_node s j y /\ (exists x, find_ind y (inds s) = Some x /\ i_server x = None)).
  { intros y Hy. rewrite <- Ew in Hy. destruct (first_waiting_in _ _ _ Hy) as [A B]. split; [exists nd; auto|exact B]. }
  mstep H as nc. destruct (nc_disc nc =? 0).
  - apply ret_spec in H as [H ->]. injection H as ->. destruct (Hall w0 (or_introl eq_refl)). auto.
  - destruct (nc_disc nc =? 1).
    + apply ret_spec in H as [H ->]. injection H as ->. destruct (Hall _ (last_in wr w0)). auto.
    + mstep H as y. apply ret_spec in H as [H ->]. injection H as ->. destruct (choice_uniform_spec _ _ _ _ E) as (Hin & E1 & E2). destruct (Hall _ Hin). auto.
Qed.

Lemma carryBK cf fl (K : _ -> Prop) {X} (m : M X) s a s' : keepB K m -> K (VB s) -> Ctx fl s -> SrvInv cf fl s -> m s = Ok (a, s') ->
  Ctx fl s' /\ SrvInv cf fl s' /\ VS s' = VS s /\ VJ s' = VJ s.
Proof.
  intros Hm HK HC HS H. pose proof (Ctx_Idx _ _ HC) as HI.
  assert (EB : VB s' = VB s) by (apply (Hm s a s'); [apply Idx_vidx; exact HI|exact HK|exact H]).
  assert (EJ : VJ s' = VJ s) by (exact (VW_proj fnB fiB fgB fst fst fst s s' EB)).
  assert (ES : VS s' = VS s) by (exact (VW_proj fnB fiB fgB snd snd snd s s' EB)).
  split; [eapply Ctx_VJ; eauto|]. split; [eapply SrvInv_VS; eauto|auto].
Qed.
(* a record is written back with the same views *)
Lemma carry_put_ind cf fl s s' u x x' : find_ind (i_id x') (inds s) = Some x -> fiB x' = fiB x -> Ctx fl s -> SrvInv cf fl s ->
  put_ind x' s = Ok (u, s') -> Ctx fl s' /\ SrvInv cf fl s' /\ VS s' = VS s /\ VJ s' = VJ s.
Proof.
  intros Hf He HC HS H. destruct (get_ind_oki fnB fiB fgB _ s x Hf) as [Hid Ho].
  apply (carryBK cf fl (fun w => oki fiB w x) (put_ind x') s u s'); [|exact Ho|exact HC|exact HS|exact H].
  apply kv_put_ind; [intros ? ?; reflexivity|]. intros w Hw. exists x. split; [exact Hw|]. unfold iv. rewrite He. congruence.
Qed.
(* a node is written back with the same views *)
Lemma carry_put_node cf fl s s' u nd nd' : nodeZ s (n_id nd') = Some nd -> fnJ nd' = fnJ nd -> fnS nd' = fnS nd -> Ctx fl s -> SrvInv cf fl s ->
  put_node nd' s = Ok (u, s') -> Ctx fl s' /\ SrvInv cf fl s' /\ VS s' = VS s /\ VJ s' = VJ s.
Proof.
  intros Hn EJ ES HC HS H. pose proof (Ctx_Idx _ _ HC) as HI. pose proof (HI _ _ Hn) as Hid.
  destruct (get_node_okn fnB fiB fgB _ s nd (Idx_vidx _ _ _ s HI) Hn) as [_ Ho].
  apply (carryBK cf fl (fun w => okn fnB w nd) (put_node nd') s u s'); [|exact Ho|exact HC|exact HS|exact H].
  apply kv_put_node; [intros ? ?; reflexivity|]. intros w Hw. exists nd. split; [exact Hw|]. unfold nv, fnB. rewrite EJ, ES, Hid. reflexivity.
Qed.

(* one step that neither view sees: H is consumed one bind further, HC / HS move to the new state, ES EJ name the view equations *)
Ltac bstep_core H HC HS ES EJ :=
  mstep H;
  lazymatch type of H with
  | _ ?sx = Ok _ =>
    lazymatch goal with
    | E : ?m ?sp = Ok (_, sx) |- _ =>
      let HC' := fresh "HC" in let HS' := fresh "HS" in
      destruct (carryB _ _ m sp _ sx ltac:(kv using kb_lem) HC HS E) as (HC' & HS' & ES & EJ);
      clear E; clear HS; clear HC; rename HC' into HC; rename HS' into HS
    end
  end.
Tactic Notation "bstep" hyp(H) hyp(HC) hyp(HS) "as" ident(ES) ident(EJ) := bstep_core H HC HS ES EJ.

Definition Waits (s : sim) (j c : Z) : Prop := at_node s j c /\ exists x, find_ind c (inds s) = Some x /\ i_server x = None.
Lemma Waits_same s s' j c : nodes s' = nodes s -> inds s' = inds s -> Waits s j c -> Waits s' j c.
Proof. intros En Ei [A B]. split; [apply (at_node_nodes s s'); assumption|rewrite Ei; exact B]. Qed.

Section SrvWalk.
  Variable cf : config.

  Lemma srv_start_fresh fl j c osid count s s' : Ctx fl s -> SrvInv cf fl s -> (osid <> None -> Waits s j c) ->
    start_fresh cf j c osid count s = Ok (tt, s') ->
    Ctx fl s' /\ SrvInv cf fl s' /\ VJ s' = VJ s /\ (forall i, i <> c -> NoOwner cf i s -> NoOwner cf i s').
  Proof.
    intros HC HS HW H. destruct osid as [sid|].
    - destruct (HW ltac:(discriminate)) as ((nd & Hn & Hin) & xc & Hxc & Hsv).
      assert (Hnode : i_node xc = Some j).
      { destruct (proj1 (proj2 HC) j c (ex_intro _ nd (conj Hn Hin))) as (x0 & Hx0 & Hk). congruence. }
      assert (Hfl : ~ In c fl) by (eapply WFx2_at_notfl; [exact (proj1 HC)|exists nd; eauto]).
      unfold start_fresh in H. mstep H as u0.
      destruct (srv_attach cf fl j sid c s s0 nd xc (Ctx_Idx _ _ HC) HS Hn Hxc Hsv Hnode Hfl E) as (HS0 & HU0 & HO0).
      destruct (carryJ fl _ s _ s0 (kv_T _ _ _ _ _ (kj_attach_server j sid c)) HC E) as (HC0 & EJ0). clear E HS HC.
      mstep H as t0. bstep H HC0 HS0 as ES1 EJ1. bstep H HC0 HS0 as ES2 EJ2. bstep H HC0 HS0 as ES3 EJ3. bstep H HC0 HS0 as ES4 EJ4.
      assert (ES : VS s4 = VS s0) by congruence. assert (EJ : VJ s4 = VJ s) by congruence.
      match type of H with set_next_end _ _ ?d _ = _ => destruct (srv_set_next_end cf fl j sid d s4 s' (Ctx_Idx _ _ HC0) HS0) as (HS5 & HO5); [|exact H|] end.
      + intros _ Hsl. apply (Unb_VS s0 s4 j sid ES). exact (HU0 Hsl).
      + destruct (carryJ fl _ s4 _ s' (kv_T _ _ _ _ _ (kj_set_next_end j sid _)) HC0 H) as (HC5 & EJ5).
        split; [exact HC5|]. split; [exact HS5|]. split; [congruence|]. intros i Hi HN. apply HO5. apply (NoOwner_VS cf i s0 s4 ES). apply HO0; assumption.
    - assert (Hk : keepB KT (start_fresh cf j c None count)) by (unfold start_fresh; kv using kb_lem).
      destruct (carryB cf fl _ s _ s' Hk HC HS H) as (HC1 & HS1 & ES & EJ).
      split; [exact HC1|]. split; [exact HS1|]. split; [exact EJ|]. intros i _ HN. exact (NoOwner_VS cf i s s' ES HN).
  Qed.

  Lemma stime_num_same x st s s' : stime_num x s = Ok (st, s') -> s' = s.
  Proof. unfold stime_num. destruct (i_smark x =? 0); [intros H; apply ret_spec in H as [_ ->]; reflexivity|discriminate]. Qed.

  Lemma srv_start_give fl j c sid s s' : Ctx fl s -> SrvInv cf fl s -> Waits s j c ->
    start_give cf j c sid s = Ok (tt, s') ->
    Ctx fl s' /\ SrvInv cf fl s' /\ VJ s' = VJ s /\ (forall i, i <> c -> NoOwner cf i s -> NoOwner cf i s').
  Proof.
    intros HC HS HW H. destruct HW as ((nd & Hn & Hin) & xc & Hxc & Hsv).
    assert (Hnode : i_node xc = Some j).
    { destruct (proj1 (proj2 HC) j c (ex_intro _ nd (conj Hn Hin))) as (x0 & Hx0 & Hk). congruence. }
    assert (Hfl : ~ In c fl) by (eapply WFx2_at_notfl; [exact (proj1 HC)|exists nd; eauto]).
    unfold start_give in H. mstep H as u0.
    destruct (srv_attach cf fl j sid c s s0 nd xc (Ctx_Idx _ _ HC) HS Hn Hxc Hsv Hnode Hfl E) as (HS0 & HU0 & HO0).
    destruct (carryJ fl _ s _ s0 (kv_T _ _ _ _ _ (kj_attach_server j sid c)) HC E) as (HC0 & EJ0). clear E HS HC.
    mstep H as t0. bstep H HC0 HS0 as ES1 EJ1. bstep H HC0 HS0 as ES2 EJ2.
    mstep H as x. mstep H as st. apply stime_num_same in E. subst s3.
    mstep H as u1. pose proof (find_ind_id _ _ _ Hf) as Hidx.
    match type of E with put_ind ?x' _ = _ =>
      destruct (carry_put_ind cf fl s2 s3 tt x x' ltac:(change (i_id x') with (i_id x); rewrite Hidx; exact Hf) eq_refl HC0 HS0 E) as (HC3 & HS3 & ES3 & EJ3) end.
    clear E HC0 HS0.
    bstep H HC3 HS3 as ES4 EJ4. bstep H HC3 HS3 as ES5 EJ5.
    assert (ES : VS s5 = VS s0) by congruence. assert (EJ : VJ s5 = VJ s) by congruence.
    match type of H with set_next_end _ _ ?d _ = _ => destruct (srv_set_next_end cf fl j sid d s5 s' (Ctx_Idx _ _ HC3) HS3) as (HS6 & HO6); [|exact H|] end.
    + intros _ Hsl. apply (Unb_VS s0 s5 j sid ES). exact (HU0 Hsl).
    + destruct (carryJ fl _ s5 _ s' (kv_T _ _ _ _ _ (kj_set_next_end j sid _)) HC3 H) as (HC6 & EJ6).
      split; [exact HC6|]. split; [exact HS6|]. split; [congruence|]. intros i Hi HN. apply HO6. apply (NoOwner_VS cf i s0 s5 ES). apply HO0; assumption.
  Qed.

  Lemma srv_start_preemptor fl j c sid s s' : Ctx fl s -> SrvInv cf fl s -> Waits s j c ->
    start_preemptor cf j c sid s = Ok (tt, s') ->
    Ctx fl s' /\ SrvInv cf fl s' /\ VJ s' = VJ s /\ (forall i, i <> c -> NoOwner cf i s -> NoOwner cf i s').
  Proof.
    intros HC HS HW H. destruct HW as ((nd & Hn & Hin) & xc & Hxc & Hsv).
    assert (Hnode : i_node xc = Some j).
    { destruct (proj1 (proj2 HC) j c (ex_intro _ nd (conj Hn Hin))) as (x0 & Hx0 & Hk). congruence. }
    assert (Hfl : ~ In c fl) by (eapply WFx2_at_notfl; [exact (proj1 HC)|exists nd; eauto]).
    unfold start_preemptor in H. mstep H as u0.
    destruct (srv_attach cf fl j sid c s s0 nd xc (Ctx_Idx _ _ HC) HS Hn Hxc Hsv Hnode Hfl E) as (HS0 & HU0 & HO0).
    destruct (carryJ fl _ s _ s0 (kv_T _ _ _ _ _ (kj_attach_server j sid c)) HC E) as (HC0 & EJ0). clear E HS HC.
    mstep H as t0. bstep H HC0 HS0 as ES1 EJ1. bstep H HC0 HS0 as ES2 EJ2.
    mstep H as x. mstep H as st. apply stime_num_same in E. subst s3.
    mstep H as u1. pose proof (find_ind_id _ _ _ Hf) as Hidx.
    match type of E with put_ind ?x' _ = _ =>
      destruct (carry_put_ind cf fl s2 s3 tt x x' ltac:(change (i_id x') with (i_id x); rewrite Hidx; exact Hf) eq_refl HC0 HS0 E) as (HC3 & HS3 & ES3 & EJ3) end.
    clear E HC0 HS0.
    bstep H HC3 HS3 as ES4 EJ4.
    assert (ES : VS s4 = VS s0) by congruence. assert (EJ : VJ s4 = VJ s) by congruence.
    match type of H with set_next_end _ _ ?d _ = _ => destruct (srv_set_next_end cf fl j sid d s4 s' (Ctx_Idx _ _ HC3) HS3) as (HS6 & HO6); [|exact H|] end.
    + intros _ Hsl. apply (Unb_VS s0 s4 j sid ES). exact (HU0 Hsl).
    + destruct (carryJ fl _ s4 _ s' (kv_T _ _ _ _ _ (kj_set_next_end j sid _)) HC3 H) as (HC6 & EJ6).
      split; [exact HC6|]. split; [exact HS6|]. split; [congruence|]. intros i Hi HN. apply HO6. apply (NoOwner_VS cf i s0 s4 ES). apply HO0; assumption.
  Qed.

  (* what the service-starting functions do for a customer i that is in no node *)
  Definition Outside (s : sim) (i : Z) : Prop := forall k, ~ at_node s k i.
  Lemma Outside_VJ s s' i : VJ s' = VJ s -> Outside s i -> Outside s' i.
  Proof. intros E HO k Hat. exact (HO k (VJ_at _ _ _ _ E Hat)). Qed.

  Lemma srv_serve_with fl j sid s s' : Ctx fl s -> SrvInv cf fl s -> serve_with cf j sid s = Ok (tt, s') ->
    Ctx fl s' /\ SrvInv cf fl s' /\ VJ s' = VJ s /\ (forall i, Outside s i -> NoOwner cf i s -> NoOwner cf i s').
  Proof.
    intros HC HS H. unfold serve_with in H. mstep H as nd.
    destruct (0 <? n_nint nd) eqn:En; [exfalso; apply Z.ltb_lt in En; pose proof (proj2 (proj2 HC) j nd Hn); lia|].
    mstep H as cand. destruct (carryB cf fl _ s _ s0 (kb_choose_next_customer cf j) HC HS E) as (HC0 & HS0 & ES0 & EJ0).
    destruct cand as [c|].
    - destruct (cnc_spec cf j c s s0 E) as (Hat & Hw & En0 & Ei0).
      assert (HW0 : Waits s0 j c) by (apply (Waits_same s s0 j c En0 Ei0); split; assumption).
      destruct (srv_start_give fl j c sid s0 s' HC0 HS0 HW0 H) as (HC1 & HS1 & EJ1 & HO1).
      split; [exact HC1|]. split; [exact HS1|]. split; [congruence|]. intros i Hout HN. apply HO1.
      + intros ->. exact (Hout j Hat).
      + exact (NoOwner_VS cf i s s0 ES0 HN).
    - apply ret_spec in H as [_ ->]. split; [exact HC0|]. split; [exact HS0|]. split; [exact EJ0|]. intros i _ HN. exact (NoOwner_VS cf i s s0 ES0 HN).
  Qed.

  Lemma srv_bsipr fl j freed s s' : Ctx fl s -> SrvInv cf fl s -> begin_service_if_possible_release cf j freed s = Ok (tt, s') ->
    Ctx fl s' /\ SrvInv cf fl s' /\ VJ s' = VJ s /\ (forall i, Outside s i -> NoOwner cf i s -> NoOwner cf i s').
  Proof.
    intros HC HS H. unfold begin_service_if_possible_release in H. destruct freed as [sid|].
    - mstep H as nd. destruct (find_server sid (n_servers nd)); [exact (srv_serve_with fl j sid s s' HC HS H)|].
      apply ret_spec in H as [_ ->]. auto.
    - apply ret_spec in H as [_ ->]. auto.
  Qed.

  Lemma srv_forM_serve fl j : forall l s s', Ctx fl s -> SrvInv cf fl s -> forM_ l (serve_with cf j) s = Ok (tt, s') ->
    Ctx fl s' /\ SrvInv cf fl s' /\ VJ s' = VJ s /\ (forall i, Outside s i -> NoOwner cf i s -> NoOwner cf i s').
  Proof.
    induction l as [|sid r IH]; intros s s' HC HS H; cbn [forM_] in H; [apply ret_spec in H as [_ ->]; auto|].
    mstep H as u0. destruct (srv_serve_with fl j sid s s0 HC HS E) as (HC0 & HS0 & EJ0 & HO0).
    destruct (IH s0 s' HC0 HS0 H) as (HC1 & HS1 & EJ1 & HO1).
    split; [exact HC1|]. split; [exact HS1|]. split; [congruence|]. intros i Hout HN. apply HO1; [eapply Outside_VJ; eauto|apply HO0; assumption].
  Qed.
  Lemma srv_forM_kill fl j : forall l s s', Ctx fl s -> SrvInv cf fl s -> forM_ l (kill_server j) s = Ok (tt, s') ->
    Ctx fl s' /\ SrvInv cf fl s' /\ VJ s' = VJ s /\ (forall i, NoOwner cf i s -> NoOwner cf i s').
  Proof.
    induction l as [|sid r IH]; intros s s' HC HS H; cbn [forM_] in H; [apply ret_spec in H as [_ ->]; auto|].
    mstep H as u0. destruct (srv_kill_server cf fl j sid s s0 (Ctx_Idx _ _ HC) HS E) as (HS0 & HO0).
    destruct (carryJ fl _ s _ s0 (kv_T _ _ _ _ _ (kj_kill_server j sid)) HC E) as (HC0 & EJ0).
    destruct (IH s0 s' HC0 HS0 H) as (HC1 & HS1 & EJ1 & HO1).
    split; [exact HC1|]. split; [exact HS1|]. split; [congruence|]. intros i HN. apply HO1, HO0, HN.
  Qed.

  Lemma srv_take_off_duty0 fl fuel j s s' : Ctx fl s -> SrvInv cf fl s -> take_servers_off_duty cf fuel j 0 s = Ok (tt, s') ->
    Ctx fl s' /\ SrvInv cf fl s' /\ VJ s' = VJ s /\ (forall i, NoOwner cf i s -> NoOwner cf i s').
  Proof.
    intros HC HS H. unfold take_servers_off_duty in H. change (0 =? 0) with true in H. cbv iota in H.
    mstep H as nd. mstep H as se.
    assert (s0 = s) by (destruct (n_next_date nd); [apply ret_spec in E as [_ ->]; reflexivity|discriminate E]). subst s0. clear E.
    mstep H as u0. rename s0 into s1.
    match type of E with put_node ?n _ = _ => set (nd' := n) in * end.
    assert (Hnn : nodeZ s (n_id nd') = Some nd) by (change (n_id nd') with (n_id nd); rewrite (Ctx_Idx _ _ HC _ _ Hn); exact Hn).
    destruct (carry_put_node cf fl s s1 tt nd nd' Hnn eq_refl) as (HC1 & HS1 & ES1 & EJ1); [|exact HC|exact HS|exact E|].
    { unfold fnS, nd'. cbn. f_equal. f_equal. rewrite map_map. apply map_ext. intros sv. reflexivity. }
    destruct (srv_forM_kill fl j _ s1 s' HC1 HS1 H) as (HC2 & HS2 & EJ2 & HO2).
    split; [exact HC2|]. split; [exact HS2|]. split; [congruence|]. intros i HN. apply HO2. exact (NoOwner_VS cf i s s1 ES1 HN).
  Qed.

  Lemma NoOwner_nodes i s s' : nodes s' = nodes s -> NoOwner cf i s -> NoOwner cf i s'.
  Proof. intros En HN j nd sv Hn. rewrite (nodeZ_same s s' j En) in Hn. exact (HN j nd sv Hn). Qed.
  Lemma carryJ_put_ind fl s s' u x x' : find_ind (i_id x') (inds s) = Some x -> fiJ x' = fiJ x -> Ctx fl s ->
    put_ind x' s = Ok (u, s') -> Ctx fl s' /\ VJ s' = VJ s.
  Proof.
    intros Hf He HC H. destruct (get_ind_oki fnJ fiJ fgJ _ s x Hf) as [Hid Ho].
    assert (EJ : VJ s' = VJ s).
    { unfold put_ind in H. apply modify_spec in H. subst s'. apply (put_ind_view fnJ fiJ fgJ ltac:(intros ? ?; reflexivity) x' x s Ho). unfold iv. rewrite He. congruence. }
    split; [eapply Ctx_VJ; eauto|exact EJ].
  Qed.

  Lemma srv_change_shift fl j s s' : scope2 cf = true -> Ctx fl s -> SrvInv cf fl s -> change_shift cf j s = Ok (tt, s') ->
    Ctx fl s' /\ SrvInv cf fl s' /\ VJ s' = VJ s /\ (forall i, Outside s i -> NoOwner cf i s -> NoOwner cf i s').
  Proof.
    intros Hsc HC HS H. unfold change_shift in H. mstep H as nc.
    pose proof (scope2_nc _ _ _ Hsc Hc) as Hs. unfold scope_nc in Hs. apply andb_true_iff in Hs as [_ Hs].
    destruct (nc_srv nc) as [|sc|sl] eqn:Esrv; try discriminate H. apply Z.eqb_eq in Hs.
    assert (Hsch : sched_of cf j = true) by (unfold sched_of; rewrite Hc, Esrv; reflexivity).
    mstep H as nd. mstep H as u0.
    assert (s0 = s) by (destruct (sc_b sc); [discriminate E|apply ret_spec in E as [_ ->]; reflexivity]). subst s0. clear E.
    mstep H as u1. rename s0 into s1.
    match type of E with put_node ?n _ = _ => set (nd' := n) in * end.
    assert (Hnn : nodeZ s (n_id nd') = Some nd) by (change (n_id nd') with (n_id nd); rewrite (Ctx_Idx _ _ HC _ _ Hn); exact Hn).
    pose proof (sn_sch _ _ _ (si_n _ _ _ HS j nd Hn) Hsch) as Hinf.
    destruct (carry_put_node cf fl s s1 tt nd nd' Hnn eq_refl) as (HC1 & HS1 & ES1 & EJ1); [|exact HC|exact HS|exact E|].
    { unfold fnS. change (n_servers nd') with (n_servers nd). change (n_highest nd') with (n_highest nd). rewrite Hinf. reflexivity. }
    clear E. mstep H as fl0. mstep H as u2. rewrite Hs in E.
    destruct (srv_take_off_duty0 fl _ j s1 s0 HC1 HS1 E) as (HC2 & HS2 & EJ2 & HO2). clear E.
    mstep H as u3.
    match type of E with add_new_servers ?k _ _ = _ =>
      destruct (srv_add_new_servers cf fl k j s0 s2 (Ctx_Idx _ _ HC2) HS2) as (HS3 & HO3 & _); [|exact E|] end.
    { intros n Hnn2. exact (sn_sch _ _ _ (si_n _ _ _ HS2 j n Hnn2) Hsch). }
    destruct (carryJ fl _ s0 _ s2 (kv_T _ _ _ _ _ (kj_add_new_servers _ j)) HC2 E) as (HC3 & EJ3). clear E.
    unfold begin_service_if_possible_change_shift in H. mstep H as nd2.
    destruct (srv_forM_serve fl j _ s2 s' HC3 HS3 H) as (HC4 & HS4 & EJ4 & HO4).
    assert (EJ : VJ s2 = VJ s) by congruence.
    split; [exact HC4|]. split; [exact HS4|]. split; [congruence|]. intros i Hout HN. apply HO4; [eapply Outside_VJ; eauto|].
    apply HO3, HO2. exact (NoOwner_VS cf i s s1 ES1 HN).
  Qed.

  Lemma srv_slot_loop fl j : slot_of cf j = true -> forall k s s', Ctx fl s -> SrvInv cf fl s -> slot_loop cf k j s = Ok (tt, s') ->
    Ctx fl s' /\ SrvInv cf fl s' /\ VJ s' = VJ s /\ (forall i, NoOwner cf i s -> NoOwner cf i s').
  Proof.
    intros Hsl. induction k as [|k IH]; intros s s' HC HS H; cbn [slot_loop] in H; [apply ret_spec in H as [_ ->]; auto|].
    mstep H as t0. mstep H as nd.
    destruct (0 <? n_nint nd) eqn:En; [exfalso; apply Z.ltb_lt in En; pose proof (proj2 (proj2 HC) j nd Hn); lia|].
    mstep H as cand. destruct (carryB cf fl _ s _ s0 (kb_choose_next_customer cf j) HC HS E) as (HC0 & HS0 & ES0 & EJ0).
    mstep H as u0.
    assert (Hmid : Ctx fl s1 /\ SrvInv cf fl s1 /\ VJ s1 = VJ s0 /\ (forall i, NoOwner cf i s0 -> NoOwner cf i s1)).
    { destruct cand as [c|]; [|apply ret_spec in E0 as [_ ->]; auto].
      destruct (cnc_spec cf j c s s0 E) as (Hat & (xc & Hxc & Hsv) & En0 & Ei0).
      assert (Hat0 : at_node s0 j c) by (apply (at_node_nodes s s0); assumption).
      destruct (proj1 (proj2 HC0) j c Hat0) as (xc0 & Hxc0 & Hnode0).
      rename E0 into G. bstep G HC0 HS0 as ES1 EJ1. bstep G HC0 HS0 as ES2 EJ2.
      mstep G as x. mstep G as st. apply stime_num_same in E0. subst s4.
      mstep G as u1. pose proof (find_ind_id _ _ _ Hf) as Hidx.
      assert (ES03 : VS s3 = VS s0) by congruence.
      destruct (VS_find _ _ c x ES03 Hf) as (x0 & Hx0 & _ & Q2 & _). assert (x0 = xc0) by congruence. subst x0.
      match type of E0 with put_ind ?x' _ = _ => set (xn := x') in * end.
      destruct (carryJ_put_ind fl s3 s4 tt x xn ltac:(change (i_id xn) with (i_id x); rewrite Hidx; exact Hf) eq_refl HC0 E0) as (HC4 & EJ4).
      destruct (put_ind_facts _ _ _ _ E0) as (Ei4 & En4 & _).
      assert (HS4 : SrvInv cf fl s4).
      { apply (SrvInv_put_ind cf fl fl s3 s4 c x xn HS0 Hf Hidx En4 Ei4); [auto| | |].
        - intros j0 n0 sv A1 A2 A3 A4. exfalso. destruct (si_own _ _ _ HS0 j0 n0 sv c A1 A2 A3 A4) as (y & Hy & _ & P2 & _).
          assert (y = x) by congruence. subst y. assert (j0 = j) by congruence. subst j0. congruence.
        - intros _ _ Hx. discriminate Hx.
        - intros Hp. exact (si_nb _ _ _ HS0 Hp c x Hf). }
      clear E0 HS0 HC0. bstep G HC4 HS4 as ES5 EJ5.
      destruct (carryB cf fl _ s5 _ s1 (kb_reset_class_change cf j c) HC4 HS4 G) as (HC6 & HS6 & ES6 & EJ6).
      split; [exact HC6|]. split; [exact HS6|]. split; [congruence|]. intros i HN.
      apply (NoOwner_VS cf i s5 s1 ES6). apply (NoOwner_VS cf i s4 s5 ES5). apply (NoOwner_nodes i s3 s4 En4).
      apply (NoOwner_VS cf i s0 s3 ES03). exact HN. }
    destruct Hmid as (HC1 & HS1 & EJ1 & HO1).
    destruct (IH s1 s' HC1 HS1 H) as (HC2 & HS2 & EJ2 & HO2).
    split; [exact HC2|]. split; [exact HS2|]. split; [congruence|]. intros i HN. apply HO2, HO1. exact (NoOwner_VS cf i s s0 ES0 HN).
  Qed.

  Lemma srv_slotted_service fl j s s' : scope2 cf = true -> Ctx fl s -> SrvInv cf fl s -> slotted_service cf j s = Ok (tt, s') ->
    Ctx fl s' /\ SrvInv cf fl s' /\ VJ s' = VJ s /\ (forall i, NoOwner cf i s -> NoOwner cf i s').
  Proof.
    intros Hsc HC HS H. unfold slotted_service in H. mstep H as nc.
    pose proof (scope2_nc _ _ _ Hsc Hc) as Hs. unfold scope_nc in Hs. apply andb_true_iff in Hs as [_ Hs].
    destruct (nc_srv nc) as [|sc|sl] eqn:Esrv; try discriminate H. apply andb_true_iff in Hs as [Hs _]. apply andb_true_iff in Hs as [Hs _]. apply negb_true_iff in Hs.
    assert (Hsl : slot_of cf j = true) by (unfold slot_of, nc_slotted; rewrite Hc, Esrv; reflexivity).
    mstep H as nd. mstep H as u0.
    assert (s0 = s) by (destruct (sl_b sl); [discriminate E|apply ret_spec in E as [_ ->]; reflexivity]). subst s0. clear E.
    rewrite Hs in H. mstep H as u1. mstep H as u2.
    destruct (srv_slot_loop fl j Hsl _ s s0 HC HS E) as (HC1 & HS1 & EJ1 & HO1).
    match type of H with ?m _ = _ => destruct (carryB cf fl m s0 _ s' ltac:(kv using kb_lem) HC1 HS1 H) as (HC2 & HS2 & ES2 & EJ2) end.
    split; [exact HC2|]. split; [exact HS2|]. split; [congruence|]. intros i HN. apply (NoOwner_VS cf i s0 s' ES2). apply HO1, HN.
  Qed.
End SrvWalk.

(* ====================================================================================================================
   6. Journey steps
   ==================================================================================================================== *)
Lemma shp_put_ind s x' x0 : find_ind (i_id x') (inds s) = Some x0 -> Conserve2.shp (s <| inds := put_ind_l x' (inds s) |>) = Conserve2.shp s.
Proof. intros Hf. unfold Conserve2.shp. cbn. f_equal. apply Conserve2.put_ind_l_ids_in. eapply Conserve2.find_ind_In; eauto. Qed.
Lemma SrvInv_fl_weaken cf fl fl' s : (forall y, In y fl -> In y fl') -> SrvInv cf fl s -> SrvInv cf fl' s.
Proof. intros Hsub [A B C Dnb]. constructor; [exact A|exact B| |exact Dnb]. intros i x Hf Hn. apply (C i x Hf). intros Hin. apply Hn, Hsub, Hin. Qed.
Lemma find_del_same i l : NoDup (map i_id l) -> find_ind i (del_ind_l i l) = None.
Proof.
  induction l as [|y r IH]; cbn; [reflexivity|]. intros H. inversion H as [|? ? Hn Hd]. destruct (i_id y =? i) eqn:E.
  - apply Z.eqb_eq in E. destruct (find_ind i r) as [z|] eqn:Ef; [|reflexivity]. exfalso. apply Hn. rewrite E. eapply Conserve2.find_ind_In; eauto.
  - cbn. rewrite E. apply IH. exact Hd.
Qed.

Lemma Lq_same s s' : nodes s' = nodes s -> inds s' = inds s -> Lq s -> Lq s'.
Proof.
  intros En Ei [A B]. constructor.
  - intros d f y He. apply (entry_nodes s s') in He; [|exact En]. rewrite Ei. exact (A d f y He).
  - intros d nd Hn. rewrite (nodeZ_same s s' d En) in Hn. exact (B d nd Hn).
Qed.
Lemma NoInt_same s s' : nodes s' = nodes s -> NoInt s -> NoInt s'.
Proof. intros En HN k nd Hn. rewrite (nodeZ_same s s' k En) in Hn. exact (HN k nd Hn). Qed.

Section JSteps.
  Variable an : Z -> option Z.
  Variable h : list rec.

  Lemma Jst_Ctx fl s : Jst an h fl s -> Ctx fl s.
  Proof. intros (A & B & C & D). split; [exact A|]. split; [eapply JH_NodeOK; exact B|exact D]. Qed.
  Lemma Jst_away fl s i : Jst an h fl s -> In i fl -> Away i s.
  Proof. intros (A & _) Hi. exact (WFx2_away _ _ _ A Hi). Qed.

  (* the record of a customer in flight is rewritten *)
  Lemma Jst_put_away fl s s' i x0 x' : Jst an h fl s -> In i fl -> NoEntry s i -> find_ind i (inds s) = Some x0 -> i_id x' = i ->
    inds s' = put_ind_l x' (inds s) -> nodes s' = nodes s -> exit_ids s' = exit_ids s -> exit_n s' = exit_n s -> arr s' = arr s -> log s' = log s ->
    Jst an h fl s'.
  Proof.
    intros (A & B & C & D) Hfl HN Hf Hid Ei En Ee Een Ea El. destruct (WFx2_away _ _ _ A Hfl) as [Aw1 Aw2].
    assert (Hat : forall k y, at_node s' k y <-> at_node s k y) by (intros k y; apply at_node_nodes; exact En).
    split; [|split; [|split]].
    - eapply Conserve2.WFx2_shape; [|exact A]. unfold Conserve2.shp. rewrite En, Ee, Een, Ea, Ei. f_equal.
      apply Conserve2.put_ind_l_ids_in. rewrite Hid. eapply Conserve2.find_ind_In; eauto.
    - unfold JI in *. rewrite El. apply (JH_mono an _ s s' B); [intros k y; apply Hat| |exact Ee|rewrite Ea; lia].
      intros k y Hk. assert (Hne : y <> i_id x') by (rewrite Hid; intros ->; exact (Aw1 k (proj1 (Hat _ _) Hk))).
      rewrite Ei, find_put_other by exact Hne. reflexivity.
    - destruct C as [C1 C2]. constructor.
      + intros d f y He. apply (entry_nodes s s') in He; [|exact En]. destruct (C1 d f y He) as (x & Hx & P).
        assert (Hne : y <> i_id x') by (rewrite Hid; intros ->; exact (HN d f He)). exists x. rewrite Ei, find_put_other by exact Hne. auto.
      + intros d nd Hn. rewrite (nodeZ_same s s' d En) in Hn. exact (C2 d nd Hn).
    - intros k nd Hn. rewrite (nodeZ_same s s' k En) in Hn. exact (D k nd Hn).
  Qed.

  (* a record of a customer in flight is appended to the log; its own counter goes up *)
  Lemma Jst_log_away fl s s' i x0 x' r : Jst an h fl s -> In i fl -> NoEntry s i -> find_ind i (inds s) = Some x0 -> i_id x' = i -> r_id r = i ->
    (forall r1, last_of i (h ++ log s) = Some r1 -> link r1 r) -> (recs_of i (h ++ log s) = [] -> an i = Some (r_node r)) ->
    inds s' = put_ind_l x' (inds s) -> nodes s' = nodes s -> exit_ids s' = exit_ids s -> exit_n s' = exit_n s -> arr s' = arr s -> log s' = log s ++ [r] ->
    Jst an h fl s'.
  Proof.
    intros HJ Hfl HN Hf Hid Hrid Hl Hfst Ei En Ee Een Ea El.
    (* first the record (state with the longer log), then the counter *)
    set (sa := s <| log := log s ++ [r] |>).
    assert (Ha : Jst an h fl sa).
    { destruct HJ as (A & B & C & D). destruct (WFx2_away _ _ _ A Hfl) as [Aw1 Aw2].
      split; [eapply Conserve2.WFx2_shape; [|exact A]; reflexivity|]. split; [|split; [apply (Lq_same s sa); [reflexivity|reflexivity|exact C]|apply (NoInt_same s sa); [reflexivity|exact D]]].
      unfold JI in *. change (log sa) with (log s ++ [r]). rewrite app_assoc.
      apply (JH_mono an _ s sa); [|intros k y Hk; exact Hk|intros; reflexivity|reflexivity|cbn; lia].
      apply (JH_log an _ s r B); rewrite ?Hrid.
      - exact (proj2 (WFx2_fl_le _ _ _ A Hfl)).
      - exact Hl.
      - exact Hfst.
      - exact Aw2.
      - intros k x Hk. exfalso. exact (Aw1 k Hk). }
    apply (Jst_put_away fl sa s' i x0 x' Ha Hfl HN Hf Hid Ei En Ee Een Ea El).
  Qed.

  (* what the record writers do *)
  Lemma bump_rec_spec i s u s' : bump_rec i s = Ok (u, s') ->
    exists x, find_ind i (inds s) = Some x /\ inds s' = put_ind_l (x <| i_nrec := i_nrec x + 1 |>) (inds s) /\
      nodes s' = nodes s /\ exit_ids s' = exit_ids s /\ exit_n s' = exit_n s /\ arr s' = arr s /\ log s' = log s /\ now s' = now s.
  Proof.
    unfold bump_rec, upd_ind. intros H. mstep H as x. exists x. split; [exact Hf|]. destruct (put_ind_facts _ _ _ _ H) as (A & B & C & D & E & F & G). auto 10.
  Qed.
  Lemma log_then_bump i r s u s' : (log_rec r ;;; bump_rec i) s = Ok (u, s') ->
    exists x, find_ind i (inds s) = Some x /\ inds s' = put_ind_l (x <| i_nrec := i_nrec x + 1 |>) (inds s) /\
      nodes s' = nodes s /\ exit_ids s' = exit_ids s /\ exit_n s' = exit_n s /\ arr s' = arr s /\ log s' = log s ++ [r] /\ now s' = now s.
  Proof.
    intros H. mstep H as u0. unfold log_rec in E. apply modify_spec in E. subst s0.
    destruct (bump_rec_spec _ _ _ _ H) as (x & Hx & A & B & C & D & E & F & G). exists x. cbn in *. auto 10.
  Qed.
End JSteps.

(* ====================================================================================================================
   7. The recursive core, one layer at a time (the recursive calls as parameters)
   ==================================================================================================================== *)
Section Bodies.
  Variable cf : config.
  Definition release_body (acc : Z -> Z -> M unit) (rbi : Z -> M unit) (j i d : Z) (rr : bool) : M unit :=
    t <- tnow ;;
    x <- get_ind i ;;
    nd <- get_node j ;;
    nc <- ncfg_of cf j ;;
    q <- lift E_Remove (nthZ (n_queues nd) (i_pprio x)) ;;
    q' <- lift E_Remove (remove_first i q) ;;
    let nd1 := nd <| n_queues := updZ (n_queues nd) (i_pprio x) q' |> <| n_pop := n_pop nd - 1 |> <| n_insvc := n_insvc nd - 1 |> in
    put_node nd1 ;;;
    put_ind (x <| i_qd := Some (n_pop nd1) |> <| i_exit := Some t |>) ;;;
    (if rr then ret tt else write_individual_record cf j i) ;;;
    freed <- (if negb (nd_inf nd) && negb (nc_slotted nc)
              then x1 <- get_ind i ;; sid <- lift E_NoServer (i_server x1) ;; detatch_server j sid i ;;; ret (Some sid)
              else ret None) ;;
    (if nc_slotted nc then upd_ind i (fun y => y <| i_server := None |>) else ret tt) ;;;
    reset_individual_attributes i ;;;
    (if rr then ret tt else begin_service_if_possible_release cf j freed) ;;;
    (if d =? -1 then exit_accept i true else acc d i) ;;;
    (if rr then ret tt else rbi j).
  Definition rbi_body (rel : Z -> Z -> Z -> bool -> M unit) (j : Z) : M unit :=
    nd <- get_node j ;; nc <- ncfg_of cf j ;;
    if (0 <? n_lenbq nd) && (match nc_cap nc with None => true | Some cap => n_pop nd <? cap end) then
      match n_bq nd with
      | [] => fail E_Index
      | (from, y) :: rest =>
        fnd <- get_node from ;;
        (if memZ y (all_individuals fnd) then ret tt else fail E_Index) ;;;
        put_node (nd <| n_bq := rest |> <| n_lenbq := n_lenbq nd - 1 |>) ;;;
        yx <- get_ind y ;;
        (if i_interrupted yx then
           os <- lift E_Attr (i_osst yx) ;; ot <- lift E_Attr (i_ost yx) ;;
           put_ind (yx <| i_interrupted := false |> <| i_sst := Some os |> <| i_send := Some (os + ot) |>) ;;;
           fnd2 <- get_node from ;;
           l' <- lift E_IntRemove (remove_first y (n_interrupted fnd2)) ;;
           put_node (fnd2 <| n_interrupted := l' |> <| n_nint := n_nint fnd2 - 1 |>)
         else ret tt) ;;;
        rel from y j false
      end
    else ret tt.
  Definition accept_body (pre : Z -> Z -> Z -> M unit) (j i : Z) : M unit :=
    x <- get_ind i ;; nd <- get_node j ;;
    put_ind (x <| i_node := Some j |> <| i_exit := None |> <| i_blocked := false |> <| i_ocls := i_cls x |> <| i_pcls := i_cls x |>
               <| i_pprio := i_prio x |> <| i_qa := Some (n_pop nd) |>) ;;;
    qs <- lift E_Index (match nthZ (n_queues nd) (i_prio x) with Some q => Some (updZ (n_queues nd) (i_prio x) (q ++ [i])) | None => None end) ;;
    put_node (nd <| n_queues := qs |> <| n_pop := n_pop nd + 1 |>) ;;;
    t <- tnow ;;
    upd_ind i (fun y => y <| i_arr := Some t |>) ;;;
    nc <- ncfg_of cf j ;;
    (if nc_reneging nc then rd <- get_reneging_date cf j i ;; upd_ind i (fun y => y <| i_ren := rd |>) else ret tt) ;;;
    decide_class_change cf j i ;;;
    nd1 <- get_node j ;;
    let inf := nd_inf nd1 in
    cand <- (if inf then ret (Some i) else choose_next_customer cf j) ;;
    match cand with
    | None => ret tt
    | Some c =>
      if inf then start_fresh cf j c None true
      else
        cx <- get_ind c ;;
        match find_free_server_for (nc_spf nc) (i_cls cx) (n_servers nd1) with
           | Some sv => start_fresh cf j c (Some (sv_id sv)) true
           | None =>
             if 0 <? numo (n_c nd1) then
               v <- preempt_victim cf j c ;;
               match v with Some vi => pre j vi c | None => ret tt end
             else ret tt
           end
    end.
  Definition preempt_body (rel : Z -> Z -> Z -> bool -> M unit) (j v i : Z) : M unit :=
    t <- tnow ;;
    vx <- get_ind v ;; nc <- ncfg_of cf j ;;
    put_ind (vx <| i_ost := i_stime vx |>) ;;;
    (if nc_preempt nc =? 4 then
       d <- next_node_for cf 1 j v ;;
       write_interruption_record cf j v (Some d) ;;;
       rel j v d true
     else
       write_interruption_record cf j v None ;;;
       upd_ind v (fun y => y <| i_sst := None |> <| i_tleft := Some (numo (i_send y) - t) |> <| i_smark := nc_preempt nc |>
                            <| i_stime := None |> <| i_send := None |>) ;;;
       sid <- lift E_NoServer (i_server vx) ;;
       detatch_server j sid v ;;;
       decide_class_change cf j v) ;;;
    sid <- lift E_NoServer (i_server vx) ;;
    start_preemptor cf j i sid.

  Lemma release_S f j i d rr : release cf (S f) j i d rr = release_body (accept cf f) (release_blocked_individual cf f) j i d rr.
  Proof. reflexivity. Qed.
  Lemma rbi_S f j : release_blocked_individual cf (S f) j = rbi_body (release cf f) j.
  Proof. reflexivity. Qed.
  Lemma accept_S f j i : accept cf (S f) j i = accept_body (preempt cf f) j i.
  Proof. reflexivity. Qed.
  Lemma preempt_S f j v i : preempt cf (S f) j v i = preempt_body (release cf f) j v i.
  Proof. reflexivity. Qed.
End Bodies.

Lemma preempt_victim_none cf j c s v s' : preempts cf = false -> preempt_victim cf j c s = Ok (v, s') -> v = None /\ s' = s.
Proof.
  intros Hnp H. unfold preempt_victim in H. mstep H as nc. rewrite (nopre_nc _ _ _ Hnp Hc) in H. change (0 =? 0) with true in H. cbv iota in H.
  apply ret_spec in H as [-> ->]. auto.
Qed.
Lemma decide_between_spec l i s s' : decide_between l s = Ok (i, s') -> In i l.
Proof.
  unfold decide_between. destruct l as [|a [|b r]]; [discriminate| |].
  - intros H. apply ret_spec in H as [-> _]. left. reflexivity.
  - intros H. apply choice_uniform_spec in H as (Hin & _). exact Hin.
Qed.

(* ---------- functions that change nothing the server view looks at ---------- *)
Ltac ksb := apply kb_ks; kb_lem.
Section FrameS.
  Variable cf : config.
  Notation PS m := (keepS KT m).
  Lemma ks_log_rec r : PS (log_rec r). Proof. unfold log_rec. apply kv_modify. intros ?. reflexivity. Qed.
  Lemma ks_bump_rec i : PS (bump_rec i). Proof. unfold bump_rec. kv0. Qed.
  Lemma ks_write_individual_record j i : PS (write_individual_record cf j i).
  Proof. unfold write_individual_record. kv using first [apply ks_log_rec | apply ks_bump_rec | ksb]. Qed.
  Lemma ks_write_interruption_record j i d : PS (write_interruption_record cf j i d).
  Proof. unfold write_interruption_record. kv using first [apply ks_log_rec | apply ks_bump_rec | ksb]. Qed.
  Lemma ks_write_reneging_record j i : PS (write_reneging_record j i).
  Proof. unfold write_reneging_record. kv using first [apply ks_log_rec | apply ks_bump_rec | ksb]. Qed.
  Lemma ks_write_br_record j i ty : PS (write_br_record j i ty).
  Proof. unfold write_br_record. kv using first [apply ks_log_rec | apply ks_bump_rec | ksb]. Qed.
  Lemma ks_reset_individual_attributes i : PS (reset_individual_attributes i).
  Proof. unfold reset_individual_attributes. kv0. Qed.
End FrameS.

Lemma VS_put_node s s' nd nd' : nodeZ s (n_id nd') = Some nd -> fnS nd' = fnS nd -> n_id nd' = n_id nd ->
  nodes s' = updZ (nodes s) (n_id nd' - 1) nd' -> inds s' = inds s -> VS s' = VS s.
Proof.
  intros Hn Ef Eid En Ei. unfold VW. f_equal.
  - rewrite En. unfold nodeZ in Hn. destruct (Conserve2.nthZ_nat _ _ _ Hn) as (kk & Hkk & Hnk). rewrite Hkk, Conserve2.updZ_nat, Conserve2.upd_map.
    apply Conserve2.upd_same. rewrite nth_error_map, Hnk. unfold nv. rewrite Ef, Eid. reflexivity.
  - rewrite Ei. reflexivity.
Qed.
Lemma VS_put_ind s s' x x' : find_ind (i_id x') (inds s) = Some x -> fiS x' = fiS x -> inds s' = put_ind_l x' (inds s) -> nodes s' = nodes s -> VS s' = VS s.
Proof.
  intros Hf Ef Ei En. unfold VW. f_equal; [rewrite En; reflexivity|]. rewrite Ei, (map_iv_put fiS). apply aput_same. cbn [fst snd iv].
  rewrite (afind_iv fiS), Hf. cbn. rewrite Ef. reflexivity.
Qed.
Lemma upd_ind_full i g s u s' : upd_ind i g s = Ok (u, s') ->
  exists x, find_ind i (inds s) = Some x /\ inds s' = put_ind_l (g x) (inds s) /\ nodes s' = nodes s /\
    arr s' = arr s /\ log s' = log s /\ now s' = now s /\ exit_ids s' = exit_ids s /\ exit_n s' = exit_n s.
Proof.
  unfold upd_ind. intros H. mstep H as x. exists x. split; [exact Hf|]. destruct (put_ind_facts _ _ _ _ H) as (A & B & C & D & E & F & G). auto 10.
Qed.

Section Walk.
  Variable cf : config.
  Variable an : Z -> option Z.
  Variable h : list rec.             (* the history before the current event *)
  Hypothesis Hsc : scope2 cf = true.

  Definition St (fl : list Z) (s : sim) : Prop := Jst an h fl s /\ SrvInv cf fl s.
  Lemma St_Ctx fl s : St fl s -> Ctx fl s. Proof. intros [A _]. eapply Jst_Ctx; eauto. Qed.
  Lemma St_VJS fl s s' : VJ s' = VJ s -> VS s' = VS s -> St fl s -> St fl s'.
  Proof. intros EJ ES [A B]. split; [eapply Jst_VJ; eauto|eapply SrvInv_VS; eauto]. Qed.
  (* from a journey state and the results of a server lemma *)
  Lemma St_of fl s s' : St fl s -> VJ s' = VJ s -> SrvInv cf fl s' -> St fl s'.
  Proof. intros [A _] EJ HS. split; [eapply Jst_VJ; eauto|exact HS]. Qed.

  Lemma WFx2_at_le s k y : Conserve2.WFx2 [] s -> at_node s k y -> 1 <= y <= a_created (arr s).
  Proof.
    intros (_ & _ & H0 & HP & _) Hat. assert (Hin : In y (zseq 1 (Z.to_nat (a_created (arr s))))).
    { eapply Permutation_in; [exact HP|]. apply in_or_app. left. eapply at_node_qids; eauto. }
    apply zseq_In in Hin. cbn in *. lia.
  Qed.
  Lemma WFx2_rec_le s y x : Conserve2.WFx2 [] s -> find_ind y (inds s) = Some x -> 1 <= y <= a_created (arr s).
  Proof.
    intros HW Hf. destruct (WFx2_rec_place _ _ _ _ HW Hf) as [[k Hk]|[]]. eapply WFx2_at_le; eauto.
  Qed.

  Lemma St_carryB fl {X} (m : M X) s a s' : keepB KT m -> St fl s -> m s = Ok (a, s') -> St fl s' /\ VJ s' = VJ s /\ VS s' = VS s.
  Proof.
    intros Hm [HJ HS] H. destruct (carryB cf fl m s a s' Hm (Jst_Ctx an h _ _ HJ) HS H) as (_ & HS' & ES & EJ).
    split; [split; [eapply Jst_VJ; eauto|exact HS']|auto].
  Qed.

  (* the record of customer i keeps its views through steps that neither view sees *)
  Lemma rec_VJS s s' i y : VJ s' = VJ s -> VS s' = VS s -> find_ind i (inds s) = Some y ->
    exists y', find_ind i (inds s') = Some y' /\ fiJ y' = fiJ y /\ fiS y' = fiS y.
  Proof.
    intros EJ ES Hf. pose proof (VJ_find s s' i EJ) as Hv. rewrite Hf in Hv. destruct (find_ind i (inds s')) as [y'|] eqn:E; [|discriminate Hv].
    cbn [option_map] in Hv. exists y'. split; [reflexivity|]. split; [congruence|].
    pose proof (VW_ind fnS fiS fgS s s' i ES) as Hw. rewrite Hf, E in Hw. cbn [option_map] in Hw. congruence.
  Qed.
  Lemma unblocked_NoEntry s i y : Lq s -> find_ind i (inds s) = Some y -> i_blocked y = false -> NoEntry s i.
  Proof. intros HL Hf Hb d fr He. destruct (l_ent _ HL d fr i He) as (x & Hx & _ & Hbx). congruence. Qed.

  (* ---------- ExitNode.accept: the customer in flight reaches the exit ---------- *)
  Lemma exit_accept_St i c s s' : St [i] s -> NoEntry s i -> NoOwner cf i s ->
    (exists r, last_of i (h ++ log s) = Some r /\ term r) ->
    exit_accept i c s = Ok (tt, s') -> St [] s' /\ now s' = now s /\ log s' = log s.
  Proof.
    intros [(A & B & C & D) HS] HN HO Hr H.
    pose proof (Conserve2.tr_exit_accept i c [] s tt s' I A H) as [A' _].
    destruct (WFx2_away _ _ i A (or_introl eq_refl)) as [Aw1 Aw2]. pose proof (WFx2_ids_nodup _ _ A) as Hnd.
    unfold exit_accept, bind, del_ind, modify in H. injection H as <-.
    split; [|split; reflexivity]. split; [split; [exact A'|split; [|split]]|].
    - unfold JI in *. cbn [log]. apply (JH_exit an _ s _ i B (conj Aw1 Aw2) Hr); [intros k y Hk; exact Hk| |reflexivity|cbn; lia].
      intros y Hy. cbn. rewrite find_del_other by exact Hy. reflexivity.
    - destruct C as [C1 C2]. constructor.
      + intros d f y He. change (entry s d f y) in He. destruct (C1 d f y He) as (x & Hx & P). exists x. cbn.
        rewrite find_del_other; [auto|]. intros ->. exact (HN d f He).
      + exact C2.
    - exact D.
    - destruct HS as [S1 S2 S3 S4]. constructor; [| | |intros Hp y z Hy; cbn in Hy; destruct (Z.eq_dec y i) as [->|Hne];
        [rewrite (find_del_same i _ Hnd) in Hy; discriminate Hy|rewrite find_del_other in Hy by exact Hne; exact (S4 Hp y z Hy)]].
      + exact S1.
      + intros j nd sv c0 Hn Hsl Hin Hc. change (nodeZ s j = Some nd) in Hn. destruct (S2 j nd sv c0 Hn Hsl Hin Hc) as (x & Hx & P).
        exists x. cbn. rewrite find_del_other; [auto|]. intros ->. exact (HO j nd sv Hn Hsl Hin Hc).
      + intros y z Hy _ Hb Hs. cbn in Hy. destruct (Z.eq_dec y i) as [->|Hne]; [rewrite (find_del_same i _ Hnd) in Hy; discriminate Hy|].
        rewrite find_del_other in Hy by exact Hne. apply (S3 y z Hy); [|exact Hb|exact Hs]. intros [E|[]]. congruence.
  Qed.

  (* ---------- priority pre-emption without rerouting: the victim stays in its node ---------- *)
  Lemma omap_in {X Y} (g : X -> option Y) : forall l ps p, omap g l = Some ps -> In p ps -> exists a, In a l /\ g a = Some p.
  Proof.
    induction l as [|a r IH]; intros ps p H Hp; cbn in H; [injection H as <-; destruct Hp|].
    destruct (g a) as [y|] eqn:Ea; cbn in H; [|discriminate]. destruct (omap g r) as [ys|] eqn:Er; cbn in H; [|discriminate]. injection H as <-.
    destruct Hp as [<-|Hp]; [exists a; split; [left; reflexivity|exact Ea]|]. destruct (IH ys p eq_refl Hp) as (b & Hb & Eb). exists b. split; [right; exact Hb|exact Eb].
  Qed.
  Lemma first_max_in {X} (key : X -> Z) : forall l best, In (first_max key l best) (best :: l).
  Proof.
    induction l as [|a r IH]; intros best; cbn [first_max]; [left; reflexivity|]. destruct (key best <? key a).
    - destruct (IH a) as [E|Hin]; [right; left; exact E|right; right; exact Hin].
    - destruct (IH best) as [E|Hin]; [left; exact E|right; right; exact Hin].
  Qed.
  Lemma preempt_victim_same j c v s s' : preempt_victim cf j c s = Ok (v, s') -> s' = s.
  Proof.
    intros H. unfold preempt_victim in H. mstep H as nc. destruct (nc_preempt nc =? 0); [apply ret_spec in H as [_ ->]; reflexivity|].
    mstep H as nd. mstep H as il. mstep H as ps. destruct ps as [|p0 pr]; [discriminate H|]. mstep H as x.
    match type of H with (if ?b then _ else _) _ = _ => destruct b end; [|apply ret_spec in H as [_ ->]; reflexivity].
    match type of H with match ?l with _ => _ end _ = _ => destruct l end; [discriminate H|apply ret_spec in H as [_ ->]; reflexivity].
  Qed.
  Lemma preempt_victim_spec j c v s s' : preempt_victim cf j c s = Ok (Some v, s') ->
    s' = s /\ (exists nd sv, nodeZ s j = Some nd /\ In sv (n_servers nd) /\ sv_cust sv = Some v) /\
    exists nc, nthZ (cf_nodes cf) (j - 1) = Some nc /\ nc_preempt nc <> 0.
  Proof.
    intros H. unfold preempt_victim in H. mstep H as nc. destruct (nc_preempt nc =? 0) eqn:Epre; [apply ret_spec in H as [H _]; discriminate H|].
    apply Z.eqb_neq in Epre.
    mstep H as nd. mstep H as il. mstep H as ps. destruct ps as [|p0 pr]; [discriminate H|]. mstep H as x.
    match type of H with (if ?b then _ else _) _ = _ => destruct b end; [|apply ret_spec in H as [H _]; discriminate H].
    match type of H with match ?l with _ => _ end _ = _ => destruct l as [|c0 cr] eqn:Ef end; [discriminate H|].
    apply ret_spec in H as [H ->]. injection H as ->. split; [reflexivity|]. split; [|eauto].
    match goal with |- context [first_max ?k cr c0] => pose proof (first_max_in k cr c0) as Hin end.
    rewrite <- Ef in Hin. apply filter_In in Hin as [Hin _].
    destruct (omap_in _ _ _ _ Hl Hin) as (sv & Hsv & Esv). exists nd, sv. split; [exact Hn|]. split; [exact Hsv|].
    destruct (sv_cust sv) as [c1|]; [|discriminate Esv]. destruct (find_ind c1 (inds s)); cbn in Esv; [|discriminate Esv]. injection Esv as Esv. rewrite <- Esv. reflexivity.
  Qed.

  Lemma wint_spec j i dest s s' : write_interruption_record cf j i dest s = Ok (tt, s') ->
    exists x r, find_ind i (inds s) = Some x /\ r_id r = i_id x /\ r_type r = 1 /\ r_node r = j /\ r_arr r = i_arr x /\ r_exit r = Some (now s) /\ r_dest r = dest /\
      inds s' = put_ind_l (x <| i_nrec := i_nrec x + 1 |>) (inds s) /\
      nodes s' = nodes s /\ exit_ids s' = exit_ids s /\ exit_n s' = exit_n s /\ arr s' = arr s /\ log s' = log s ++ [r] /\ now s' = now s.
  Proof.
    intros H. unfold write_interruption_record in H. mstep H as t0. mstep H as x. mstep H as nc. mstep H as sid.
    assert (s0 = s).
    { destruct (nc_slotted nc); [apply ret_spec in E as [_ ->]; reflexivity|]. mstep E as sv. apply ret_spec in E as [_ ->]. reflexivity. }
    subst s0. clear E. destruct (log_then_bump _ _ _ _ _ H) as (x0 & Hx0 & A). assert (x0 = x) by congruence. subst x0.
    match type of A with context [log s ++ [?r0]] => exists x, r0 end. split; [exact Hf|]. repeat (split; [reflexivity|]). exact A.
  Qed.

  (* a continuation record for a customer that stays in node j *)
  Lemma Jst_log_inplace s s' j v x x' r : Jst an h [] s -> at_node s j v -> find_ind v (inds s) = Some x -> r_id r = v ->
    cont r -> r_node r = j -> r_arr r = i_arr x -> x' = x <| i_nrec := i_nrec x + 1 |> ->
    inds s' = put_ind_l x' (inds s) -> nodes s' = nodes s -> exit_ids s' = exit_ids s -> exit_n s' = exit_n s -> arr s' = arr s -> log s' = log s ++ [r] ->
    Jst an h [] s'.
  Proof.
    intros (A & B & C & D) Hat Hf Hrid Hco Hrn Hra Ex' Ei En Ee Een Ea El. pose proof (find_ind_id _ _ _ Hf) as Hidx.
    assert (Hidx' : i_id x' = v) by (rewrite Ex'; exact Hidx).
    assert (Hatn : forall k z, at_node s' k z <-> at_node s k z) by (intros k z; apply at_node_nodes; exact En).
    destruct (j_node _ _ _ B j v Hat) as (x0 & Hx0 & Gnode & Glast & Gnrec & Gan). assert (x0 = x) by congruence. subst x0.
    split; [|split; [|split]].
    - eapply Conserve2.WFx2_shape; [|exact A]. unfold Conserve2.shp. rewrite En, Ee, Een, Ea, Ei. f_equal.
      apply Conserve2.put_ind_l_ids_in. rewrite Hidx'. eapply Conserve2.find_ind_In; eauto.
    - unfold JI in *. rewrite El, app_assoc. apply (JH_log2 an _ s s' r B); rewrite ?Hrid.
      + exact (proj2 (WFx2_at_le s j v A Hat)).
      + intros r1 Hr1. unfold lastok in Glast. rewrite Hr1 in Glast. split; [right; left; exact (proj1 Hco)|].
        destruct Glast as [(G1 & G2 & G3)|(G1 & G2 & G3)]; [left|right].
        * split; [exact G1|]. split; [rewrite Hrn; exact G2|rewrite Hra; exact G3].
        * split; [exact G1|]. split; [rewrite Hrn; symmetry; exact G2|rewrite Hra; symmetry; exact G3].
      + rewrite Hrn. exact Gan.
      + intros Hex. apply (NoDup_app_disj _ _ v (WFx2_nodup _ _ A)); [eapply at_node_qids; eauto|apply in_or_app; left; exact Hex].
      + intros k z; apply Hatn.
      + exact Ee.
      + rewrite Ea. lia.
      + intros y Hy. rewrite Ei, find_put_other by congruence. reflexivity.
      + intros k Hk. destruct (j_node _ _ _ B k v Hk) as (xk & Hxk & Gk & _). assert (xk = x) by congruence. subst xk.
        assert (k = j) by congruence. subst k. exists x'. split; [rewrite Ei; rewrite <- Hidx' at 1; apply find_put_same|].
        unfold good, last_of. rewrite (recs_of_snoc_same _ _ _ Hrid), last_opt_snoc. rewrite Ex'. cbn [i_node i_arr i_nrec].
        split; [exact Gnode|]. split; [right; auto|]. split; [|intros E0; destruct (recs_of v (h ++ log s)); discriminate E0].
        change (i_nrec (x <| i_nrec := i_nrec x + 1 |>)) with (i_nrec x + 1). rewrite Gnrec. unfold zlen. rewrite app_length, Nat2Z.inj_add. reflexivity.
    - destruct C as [C1 C2]. constructor.
      + intros d fr y He. apply (entry_nodes s s') in He; [|exact En]. destruct (C1 d fr y He) as (z & Hz & P1 & P2). rewrite Ei.
        destruct (Z.eq_dec y v) as [->|Hne].
        * assert (z = x) by congruence. subst z. exists x'. rewrite <- Hidx' at 1. rewrite find_put_same. rewrite Ex'. auto.
        * exists z. rewrite find_put_other by congruence. auto.
      + intros d nd Hn. rewrite (nodeZ_same s s' d En) in Hn. exact (C2 d nd Hn).
    - exact (NoInt_same s s' En D).
  Qed.

  Lemma preempt_St f j v c s s' : St [] s -> Waits s j c ->
    (exists nd sv, nodeZ s j = Some nd /\ In sv (n_servers nd) /\ sv_cust sv = Some v) -> slot_of cf j = false -> preempts cf = true ->
    preempt cf (S f) j v c s = Ok (tt, s') -> St [] s'.
  Proof.
    intros [HJ HS] HW (ndv & svv & Hnv & Hsvv & Hcv) Hslot Hp H. rewrite preempt_S in H. unfold preempt_body in H.
    mstep H as t0. mstep H as vx. mstep H as nc.
    pose proof (scope2_nc _ _ _ Hsc Hc) as Hs. unfold scope_nc in Hs. apply andb_true_iff in Hs as [Hs _]. apply negb_true_iff in Hs. rewrite Hs in H.
    (* the victim is in node j, served by the server that names it *)
    destruct (si_own _ _ _ HS j ndv svv v Hnv Hslot Hsvv Hcv) as (x0 & Hx0 & Hsrv & Hnode & _). assert (x0 = vx) by congruence. subst x0. clear Hx0.
    assert (Hatv : at_node s j v).
    { destruct (WFx2_rec_place _ _ _ _ (proj1 HJ) Hf) as [[k Hk]|[]]. destruct (j_node _ _ _ (proj1 (proj2 HJ)) k v Hk) as (x0 & Hx0 & Gk & _).
      assert (x0 = vx) by congruence. subst x0. assert (k = j) by congruence. subst k. exact Hk. }
    assert (Hvc : v <> c) by (intros ->; destruct HW as (_ & xc & Hxc & Hxs); congruence).
    pose proof (find_ind_id _ _ _ Hf) as Hidv.
    (* original service time remembered *)
    mstep H as u0. match type of E with put_ind ?x' _ = _ => set (v1 := x') in * end.
    destruct (carry_put_ind cf [] s s0 tt vx v1 ltac:(change (i_id v1) with (i_id vx); rewrite Hidv; exact Hf) eq_refl (Jst_Ctx an h _ _ HJ) HS E) as (_ & S0 & ES0 & EJ0).
    assert (J0 : Jst an h [] s0) by (eapply Jst_VJ; eauto).
    destruct (put_ind_facts _ _ _ _ E) as (Ei0 & En0 & _). clear E.
    assert (Hf0 : find_ind v (inds s0) = Some v1) by (rewrite Ei0; rewrite <- Hidv at 1; change (i_id vx) with (i_id v1); apply find_put_same).
    assert (Hat0 : at_node s0 j v) by (apply (at_node_nodes s s0); assumption).
    (* the interruption record *)
    mstep H as u1. mstep E as u2.
    destruct (wint_spec j v None s0 s2 E0) as (xw & r & Hxw & R1 & R2 & R3 & R4 & R5 & R6 & Ei2 & En2 & Ee2 & Een2 & Ea2 & El2 & Et2).
    assert (xw = v1) by congruence. subst xw. clear Hxw.
    assert (J2 : Jst an h [] s2).
    { apply (Jst_log_inplace s0 s2 j v v1 _ r J0 Hat0 Hf0 ltac:(rewrite R1; exact Hidv) (conj R2 R6) R3 R4 eq_refl Ei2 En2 Ee2 Een2 Ea2 El2). }
    assert (S2 : SrvInv cf [] s2) by (exact (proj1 (SrvInv_keepS cf [] _ s0 tt s2 (ks_write_interruption_record cf j v None) (WFx2_Idx _ _ (proj1 J0)) S0 E0))).
    set (v2 := v1 <| i_nrec := i_nrec v1 + 1 |>) in *.
    assert (Hf2 : find_ind v (inds s2) = Some v2) by (rewrite Ei2; rewrite <- Hidv at 1; change (i_id vx) with (i_id v2); apply find_put_same).
    clear E0 J0 S0.
    (* its service is suspended *)
    mstep E as u3. destruct (upd_ind_full _ _ _ _ _ E0) as (z & Hz & Ei3 & En3 & _). assert (z = v2) by congruence. subst z.
    match type of Ei3 with _ = put_ind_l ?x' _ => set (v3 := x') in * end.
    destruct (carry_put_ind cf [] s2 s3 tt v2 v3 ltac:(change (i_id v3) with (i_id vx); rewrite Hidv; exact Hf2) eq_refl (Jst_Ctx an h _ _ J2) S2) as (_ & S3 & ES3 & EJ3).
    { unfold upd_ind in E0. mstep E0 as zz. assert (zz = v2) by congruence. subst zz. exact E0. }
    assert (J3 : Jst an h [] s3) by (eapply Jst_VJ; eauto).
    assert (Hf3 : find_ind v (inds s3) = Some v3) by (rewrite Ei3; rewrite <- Hidv at 1; change (i_id vx) with (i_id v3); apply find_put_same).
    clear E0 J2 S2.
    (* it gives up its server *)
    mstep E as sid. mstep E as u4.
    assert (Hnb : i_blocked v3 = false).
    { destruct (i_blocked v3) eqn:Eb; [|reflexivity]. exfalso.
      pose proof (si_nb _ _ _ S3 Hp v v3 Hf3). congruence. }
    assert (Hsrv3 : i_server v3 = Some sid) by (change (i_server v3) with (i_server vx); congruence).
    destruct (srv_detatch cf [] j sid v s3 s4 v3 (WFx2_Idx _ _ (proj1 J3)) S3 (or_intror Hnb) Hf3 Hnode Hsrv3 E0) as (S4 & O4 & _ & Hfo4).
    destruct (carryJ [] _ s3 _ s4 (kv_T _ _ _ _ _ (kj_detatch_server j sid v)) (Jst_Ctx an h _ _ J3) E0) as (_ & EJ4).
    assert (J4 : Jst an h [] s4) by (eapply Jst_VJ; eauto). clear E0.
    destruct (St_carryB [] (decide_class_change cf j v) s4 tt s1 (kb_decide_class_change cf j v) (conj J4 S4) E) as (St1 & EJ1 & ES1).
    clear E. mstep H as sid2.
    (* the pre-emptor still waits in node j *)
    assert (HW1 : Waits s1 j c).
    { destruct HW as ((ndc & Hnc & Hinc) & xc & Hxc & Hxs). split.
      - apply (VJ_at s1 s4 j c (eq_sym EJ1)). apply (VJ_at s4 s3 j c (eq_sym EJ4)). apply (at_node_nodes s2 s3); [exact En3|].
        apply (at_node_nodes s0 s2); [exact En2|]. apply (at_node_nodes s s0); [exact En0|]. exists ndc. auto.
      - assert (Hc3 : find_ind c (inds s3) = Some xc).
        { rewrite Ei3, find_put_other by (change (i_id v3) with (i_id vx); congruence). rewrite Ei2, find_put_other by (change (i_id v2) with (i_id vx); congruence).
          rewrite Ei0, find_put_other by (change (i_id v1) with (i_id vx); congruence). exact Hxc. }
        assert (Hc4 : find_ind c (inds s4) = Some xc) by (rewrite Hfo4 by congruence; exact Hc3).
        destruct (rec_VJS s4 s1 c xc EJ1 ES1 Hc4) as (xc1 & Hxc1 & _ & PS1). exists xc1. split; [exact Hxc1|].
        unfold fiS in PS1. injection PS1 as PS1 _ _. congruence. }
    destruct (srv_start_preemptor cf [] j c sid2 s1 s' (St_Ctx _ _ St1) (proj2 St1) HW1 H) as (_ & S5 & EJ5 & _).
    split; [eapply Jst_VJ; [exact EJ5|exact (proj1 St1)]|exact S5].
  Qed.

  (* ---------- Node.accept: the customer in flight lands in node j; its arrival date there is the clock ---------- *)
  Lemma accept_St f j i s s' : St [i] s -> NoEntry s i -> NoOwner cf i s ->
    (forall x, find_ind i (inds s) = Some x ->
       lastok j (Some (now s)) (last_of i (h ++ log s)) /\ i_nrec x = zlen (recs_of i (h ++ log s)) /\
       (recs_of i (h ++ log s) = [] -> an i = Some j)) ->
    accept cf (S f) j i s = Ok (tt, s') -> St [] s'.
  Proof.
    intros HSt HN HO Hgood H. rewrite accept_S in H. unfold accept_body in H.
    mstep H as x. mstep H as nd. destruct (Hgood x Hf) as (Hlast & Hnrec & Han). clear Hgood.
    pose proof (find_ind_id _ _ _ Hf) as Hidx. destruct HSt as [HJ HS]. pose proof (WFx2_Idx _ _ (proj1 HJ)) as HI. pose proof (HI _ _ Hn) as Hidn.
    (* the record is stamped with the node *)
    mstep H as u1. destruct (put_ind_facts _ _ _ _ E) as (Ei1 & En1 & Ea1 & El1 & Et1 & Ee1 & Een1).
    match type of E with put_ind ?x' _ = _ => set (x1 := x') in * end.
    assert (J1 : Jst an h [i] s0) by (apply (Jst_put_away an h [i] s s0 i x x1 HJ (or_introl eq_refl) HN Hf Hidx Ei1 En1 Ee1 Een1 Ea1 El1)).
    assert (S1 : SrvInv cf [] s0).
    { apply (SrvInv_put_ind cf [i] [] s s0 i x x1 HS Hf Hidx En1 Ei1).
      - intros y Hy [Hin|[]]. congruence.
      - intros j0 n0 sv A1 A2 A3 A4. exfalso. exact (HO j0 n0 sv A1 A2 A3 A4).
      - intros _ Hb. discriminate Hb.
      - intros _. reflexivity. }
    clear E.
    (* it joins the queue of its priority class *)
    mstep H as qs. destruct (nthZ (n_queues nd) (i_prio x)) as [q|] eqn:Eq; [injection Hl as Hqs|discriminate Hl].
    mstep H as u2. match type of E with put_node ?n _ = _ => set (nd1 := n) in * end.
    assert (Hn0 : nodeZ s0 j = Some nd) by (rewrite (nodeZ_same s s0 j En1); exact Hn).
    assert (W2 : Conserve2.WFx2 [] s1).
    { assert (Hok : Conserve2.okn (Conserve2.shp s0) nd) by (apply (Conserve2.get_node_okn j); [exact (Conserve2.WFx2_idx _ _ (proj1 J1))|exact Hn0]).
      apply (Conserve2.trK_put_node_add (fun sh => Conserve2.okn sh nd) [] i nd1) with (s := s0) (a := tt); [|exact Hok|exact (proj1 J1)|exact E].
      intros sh Hsh. exists nd, (i_prio x), q. split; [exact Hsh|]. split; [exact Eq|]. split; [reflexivity|]. split; [reflexivity|]. cbn. symmetry. exact Hqs. }
    destruct (put_node_facts _ _ _ _ E) as (Es1 & Ei2 & Ea2 & El2 & Et2 & Ee2 & Een2).
    assert (En2 : nodes s1 = updZ (nodes s0) (n_id nd1 - 1) nd1) by (rewrite Es1; reflexivity).
    assert (Hn0' : nodeZ s0 (n_id nd1) = Some nd) by (change (n_id nd1) with (n_id nd); rewrite Hidn; exact Hn0).
    assert (HZ : forall k, nodeZ s1 k = if k =? j then Some nd1 else nodeZ s0 k).
    { intros k. rewrite (nodeZ_upd s0 s1 nd1 nd k En2 Hn0'). change (n_id nd1) with (n_id nd). rewrite Hidn. reflexivity. }
    clear E Es1.
    (* the arrival date *)
    mstep H as t0. mstep H as u3. destruct (upd_ind_spec _ _ _ _ _ E) as (xr & Hxr & Ei3 & En3).
    assert (xr = x1) by (rewrite Ei2, Ei1 in Hxr; rewrite <- Hidx in Hxr at 1; change (i_id x) with (i_id x1) in Hxr; rewrite find_put_same in Hxr; congruence). subst xr.
    set (x3 := x1 <| i_arr := Some (now s1) |>) in *.
    assert (EG3 : fgJ s2 = fgJ s1 /\ now s2 = now s1 /\ log s2 = log s1 /\ exit_ids s2 = exit_ids s1 /\ exit_n s2 = exit_n s1 /\ arr s2 = arr s1).
    { unfold upd_ind in E. mstep E as xx. destruct (put_ind_facts _ _ _ _ E) as (_ & _ & Q1 & Q2 & Q3 & Q4 & Q5). unfold fgJ. rewrite Q1, Q2, Q3, Q4, Q5. auto 6. }
    destruct EG3 as (_ & Et3 & El3 & Ee3 & Een3 & Ea3). clear E.
    assert (Hf3 : find_ind i (inds s2) = Some x3) by (rewrite Ei3; rewrite <- Hidx at 1; change (i_id x) with (i_id x3); apply find_put_same).
    assert (Hfo : forall y, y <> i -> find_ind y (inds s2) = find_ind y (inds s)).
    { intros y Hy. rewrite Ei3, Ei2, Ei1. rewrite find_put_other by (change (i_id x3) with (i_id x); congruence).
      rewrite find_put_other by (change (i_id x1) with (i_id x); congruence). reflexivity. }
    assert (HZ2 : forall k, nodeZ s2 k = if k =? j then Some nd1 else nodeZ s k).
    { intros k. rewrite (nodeZ_same s1 s2 k En3), HZ. destruct (k =? j); [reflexivity|apply nodeZ_same; exact En1]. }
    destruct (Jst_away an h [i] s i HJ (or_introl eq_refl)) as [Aw1 Aw2].
    assert (Hnow : now s2 = now s) by congruence. assert (Hlog : log s2 = log s) by congruence.
    assert (J3 : Jst an h [] s2).
    { destruct HJ as (A & B & C & D). split; [|split; [|split]].
      - eapply Conserve2.WFx2_shape; [|exact W2]. unfold Conserve2.shp. rewrite En3, Ee3, Een3, Ea3, Ei3. f_equal.
        apply Conserve2.put_ind_l_ids_in. change (i_id x3) with (i_id x). rewrite Hidx. rewrite Ei2, Ei1.
        apply Conserve2.find_ind_In with (x := x1). rewrite <- Hidx at 1. change (i_id x) with (i_id x1). apply find_put_same.
      - unfold JI in *. rewrite Hlog. apply (JH_land an _ s s2 i j x3 B (conj Aw1 Aw2)).
        + intros k y (n & Hnn & Hin). rewrite HZ2 in Hnn. destruct (Z.eqb_spec k j) as [->|Hne].
          * injection Hnn as <-. unfold all_individuals, nd1 in Hin. cbn in Hin. rewrite <- Hqs in Hin.
            destruct (Conserve2.nthZ_nat _ _ _ Eq) as (kp & Hkp & Hqk). rewrite Hkp, Conserve2.updZ_nat in Hin.
            eapply Permutation_in in Hin; [|apply (Conserve2.concat_upd_add (n_queues nd) kp q (q ++ [i]) i Hqk); rewrite Permutation_app_comm; reflexivity].
            destruct Hin as [<-|Hin]; [left; auto|right; exists nd; auto].
          * right. exists n. auto.
        + intros y Hy. rewrite (Hfo y Hy). reflexivity.
        + exact Hf3.
        + split; [reflexivity|]. split; [cbn; rewrite Et2, Et1; exact Hlast|]. split; [exact Hnrec|exact Han].
        + congruence.
        + rewrite Ea3, Ea2, Ea1. lia.
      - destruct C as [C1 C2]. constructor.
        + intros d fr y (n & Hnn & Hin). rewrite HZ2 in Hnn.
          assert (He : entry s d fr y) by (destruct (Z.eqb_spec d j) as [->|Hne]; [injection Hnn as <-; exists nd; auto|exists n; auto]).
          destruct (C1 d fr y He) as (xy & Hxy & P). exists xy. rewrite Hfo; [auto|]. intros ->. exact (HN d fr He).
        + intros d n Hnn. rewrite HZ2 in Hnn. destruct (Z.eqb_spec d j) as [->|Hne]; [injection Hnn as <-; exact (C2 j nd Hn)|exact (C2 d n Hnn)].
      - intros k n Hnn. rewrite HZ2 in Hnn. destruct (Z.eqb_spec k j) as [->|Hne]; [injection Hnn as <-; exact (D j nd Hn)|exact (D k n Hnn)]. }
    assert (S3 : SrvInv cf [] s2).
    { assert (ES : VS s2 = VS s0).
      { unfold VW. f_equal.
        - rewrite En3, En2. destruct (Conserve2.nthZ_nat _ _ _ Hn0') as (kk & Hkk & Hnk). rewrite Hkk, Conserve2.updZ_nat, Conserve2.upd_map.
          apply Conserve2.upd_same. rewrite nth_error_map, Hnk. reflexivity.
        - rewrite Ei3, Ei2. rewrite (map_iv_put fiS). apply aput_same. cbn [fst snd iv]. rewrite (afind_iv fiS).
          change (i_id x3) with (i_id x1). rewrite Ei1, find_put_same. reflexivity. }
      exact (SrvInv_VS cf [] s0 s2 ES S1). }
    clear J1 S1 HJ HS.
    (* reneging date, class-change date: nothing either view sees *)
    assert (HC3 : Ctx [] s2) by (eapply Jst_Ctx; eauto).
    mstep H as nc. bstep H HC3 S3 as ES4 EJ4. bstep H HC3 S3 as ES5 EJ5.
    mstep H as nd2. mstep H as cand.
    assert (Hc6 : Ctx [] s5 /\ SrvInv cf [] s5 /\ VJ s5 = VJ s4 /\ (nd_inf nd2 = false -> forall c, cand = Some c -> Waits s5 j c)).
    { destruct (nd_inf nd2).
      - apply ret_spec in E as [_ ->]. split; [exact HC3|]. split; [exact S3|]. split; [reflexivity|]. intros Hx. discriminate Hx.
      - destruct (carryB cf [] _ s4 _ s5 (kb_choose_next_customer cf j) HC3 S3 E) as (A1 & A2 & A3 & A4).
        split; [exact A1|]. split; [exact A2|]. split; [exact A4|]. intros _ c ->. destruct (cnc_spec cf j c s4 s5 E) as (B1 & B2 & B3 & B4).
        apply (Waits_same s4 s5 j c B3 B4). split; assumption. }
    destruct Hc6 as (HC6 & S6 & EJ6 & HW6). clear E HC3 S3.
    assert (EJ26 : VJ s5 = VJ s2) by congruence.
    assert (Hend : forall s6, VJ s6 = VJ s5 -> SrvInv cf [] s6 -> St [] s6).
    { intros s6 EJ HS6. assert (EJ' : VJ s6 = VJ s2) by congruence. split; [eapply Jst_VJ; eauto|exact HS6]. }
    destruct cand as [c|]; [|apply ret_spec in H as [_ ->]; apply Hend; [reflexivity|exact S6]].
    destruct (nd_inf nd2) eqn:Einf.
    - destruct (srv_start_fresh cf [] j c None true s5 s' HC6 S6 ltac:(intros Hx; exfalso; apply Hx; reflexivity) H) as (_ & HS7 & EJ7 & _). apply Hend; assumption.
    - mstep H as cx. destruct (find_free_server_for (nc_spf nc) (i_cls cx) (n_servers nd2)) as [sv|].
      + destruct (srv_start_fresh cf [] j c (Some (sv_id sv)) true s5 s' HC6 S6 ltac:(intros _; exact (HW6 eq_refl c eq_refl)) H) as (_ & HS7 & EJ7 & _). apply Hend; assumption.
      + destruct (0 <? numo (n_c nd2)); [|apply ret_spec in H as [_ ->]; apply Hend; [reflexivity|exact S6]].
        mstep H as v. pose proof (preempt_victim_same j c v s5 s6 E) as Es6. subst s6.
        destruct v as [vi|]; [|apply ret_spec in H as [_ ->]; apply Hend; [reflexivity|exact S6]].
        destruct (preempt_victim_spec j c vi s5 s5 E) as (_ & Hvic & nc1 & Hc1 & Hpre1).
        destruct f as [|f0]; [discriminate H|].
        assert (Hp : preempts cf = true).
        { unfold preempts. apply existsb_exists. exists nc1. split; [eapply nthZ_In; eauto|]. apply negb_true_iff. apply Z.eqb_neq. exact Hpre1. }
        assert (Hslot : slot_of cf j = false).
        { unfold slot_of. rewrite Hc1. pose proof (scope2_nc _ _ _ Hsc Hc1) as Hs. unfold scope_nc in Hs. apply andb_true_iff in Hs as [_ Hs].
          unfold nc_slotted. destruct (nc_srv nc1); [reflexivity|reflexivity|]. apply andb_true_iff in Hs as [_ Hs]. apply Z.eqb_eq in Hs. contradiction. }
        apply (preempt_St f0 j vi c s5 s' (Hend s5 eq_refl S6) (HW6 eq_refl c eq_refl) Hvic Hslot Hp H).
  Qed.

  (* ---------- the service record ---------- *)
  Lemma wir_spec j i s s' : write_individual_record cf j i s = Ok (tt, s') ->
    exists x r, find_ind i (inds s) = Some x /\ r_id r = i_id x /\ r_type r = 0 /\ r_node r = j /\ r_arr r = i_arr x /\ r_exit r = i_exit x /\ r_dest r = i_dest x /\
      inds s' = put_ind_l (x <| i_nrec := i_nrec x + 1 |>) (inds s) /\
      nodes s' = nodes s /\ exit_ids s' = exit_ids s /\ exit_n s' = exit_n s /\ arr s' = arr s /\ log s' = log s ++ [r] /\ now s' = now s.
  Proof.
    intros H. unfold write_individual_record in H. mstep H as x. mstep H as nd. mstep H as nc. mstep H as sid.
    assert (s0 = s).
    { destruct (nd_inf nd || nc_slotted nc); [apply ret_spec in E as [_ ->]; reflexivity|]. mstep E as sv. apply ret_spec in E as [_ ->]. reflexivity. }
    subst s0. clear E. destruct (log_then_bump _ _ _ _ _ H) as (x0 & Hx0 & A). assert (x0 = x) by congruence. subst x0.
    match type of A with context [log s ++ [?r0]] => exists x, r0 end. split; [exact Hf|]. repeat (split; [reflexivity|]). exact A.
  Qed.

  (* ---------- release (a service is over) and the unblocking cascade ---------- *)
  Lemma core_St : forall f,
    (forall j i d s s', St [] s -> NoEntry s i -> (exists x, find_ind i (inds s) = Some x /\ i_dest x = Some d) ->
       release cf f j i d false s = Ok (tt, s') -> St [] s') /\
    (forall j s s', St [] s -> release_blocked_individual cf f j s = Ok (tt, s') -> St [] s').
  Proof.
    induction f as [|f [IHr IHb]]; [split; intros; discriminate|]. split.
    - (* release *)
      intros j i d s s' [HJ HS] HN0 (xd & Hxd & Hdest) H. rewrite release_S in H. unfold release_body in H.
      mstep H as t0. mstep H as x. assert (xd = x) by congruence. subst xd. clear Hxd.
      mstep H as nd. mstep H as nc. mstep H as q. rename Hl into Hq. mstep H as q'. rename Hl into Hq'.
      pose proof (WFx2_Idx _ _ (proj1 HJ)) as HI. pose proof (HI _ _ Hn) as Hidn. pose proof (find_ind_id _ _ _ Hf) as Hidx.
      assert (Hiq : In i q) by (apply (Permutation_in _ (Permutation_sym (Conserve2.remove_first_perm _ _ _ Hq'))); left; reflexivity).
      assert (Hat : at_node s j i).
      { exists nd. split; [exact Hn|]. unfold all_individuals. apply in_concat. exists q. split; [|exact Hiq]. eapply nthZ_In; eauto. }
      destruct (j_node _ _ _ (proj1 (proj2 HJ)) j i Hat) as (x0 & Hx0 & Gnode & Glast & Gnrec & Gan).
      assert (x0 = x) by congruence. subst x0. clear Hx0.
      (* the customer leaves its queue *)
      mstep H as u0. match type of E with put_node ?n _ = _ => set (nd1 := n) in * end.
      destruct (put_node_facts _ _ _ _ E) as (Es0 & Ei0 & Ea0 & El0 & Et0 & Ee0 & Een0).
      assert (En0 : nodes s0 = updZ (nodes s) (n_id nd1 - 1) nd1) by (rewrite Es0; reflexivity).
      assert (Hn' : nodeZ s (n_id nd1) = Some nd) by (change (n_id nd1) with (n_id nd); rewrite Hidn; exact Hn).
      assert (HZ0 : forall k, nodeZ s0 k = if k =? j then Some nd1 else nodeZ s k).
      { intros k. rewrite (nodeZ_upd s s0 nd1 nd k En0 Hn'). change (n_id nd1) with (n_id nd). rewrite Hidn. reflexivity. }
      assert (W0 : Conserve2.WFx2 [i] s0).
      { assert (Hok : Conserve2.okn (Conserve2.shp s) nd) by (apply (Conserve2.get_node_okn j); [exact (Conserve2.WFx2_idx _ _ (proj1 HJ))|exact Hn]).
        apply (Conserve2.trK_put_node_rm (fun sh => Conserve2.okn sh nd) [] i nd1) with (s := s) (a := tt); [|exact Hok|exact (proj1 HJ)|exact E].
        intros sh Hsh. exists nd, (i_pprio x), q, q'. repeat split; assumption || reflexivity. }
      assert (Hsub : forall k y, at_node s0 k y -> at_node s k y).
      { intros k y (n & Hnn & Hin). rewrite HZ0 in Hnn. destruct (Z.eqb_spec k j) as [->|Hne]; [|exists n; auto].
        injection Hnn as <-. exists nd. split; [exact Hn|]. unfold all_individuals, nd1 in *. cbn in Hin.
        destruct (Conserve2.nthZ_nat _ _ _ Hq) as (kp & Hkp & Hqk). rewrite Hkp, Conserve2.updZ_nat in Hin.
        apply (Permutation_in _ (Conserve2.concat_upd_rm (n_queues nd) kp q q' i Hqk (Conserve2.remove_first_perm _ _ _ Hq'))). right. exact Hin. }
      assert (J0 : Jst an h [i] s0).
      { destruct HJ as (A & B & C & D). split; [exact W0|]. split; [|split].
        - unfold JI in *. rewrite El0. apply (JH_mono an _ s s0 B Hsub); [intros k y _; rewrite Ei0; reflexivity|exact Ee0|rewrite Ea0; lia].
        - destruct C as [C1 C2]. constructor.
          + intros d0 fr y (n & Hnn & Hin). rewrite HZ0 in Hnn. rewrite Ei0. apply (C1 d0 fr y).
            destruct (Z.eqb_spec d0 j) as [->|Hne]; [injection Hnn as <-; exists nd; auto|exists n; auto].
          + intros d0 n Hnn. rewrite HZ0 in Hnn. destruct (Z.eqb_spec d0 j) as [->|Hne]; [injection Hnn as <-; exact (C2 j nd Hn)|exact (C2 d0 n Hnn)].
        - intros k n Hnn. rewrite HZ0 in Hnn. destruct (Z.eqb_spec k j) as [->|Hne]; [injection Hnn as <-; exact (D j nd Hn)|exact (D k n Hnn)]. }
      assert (S0 : SrvInv cf [i] s0).
      { apply (SrvInv_VS cf [i] s s0 (VS_put_node s s0 nd nd1 Hn' eq_refl eq_refl En0 Ei0)). eapply SrvInv_fl_weaken; [|exact HS]. intros y []. }
      assert (N0 : NoEntry s0 i).
      { intros d0 fr (n & Hnn & Hin). rewrite HZ0 in Hnn. apply (HN0 d0 fr). destruct (Z.eqb_spec d0 j) as [->|Hne]; [injection Hnn as <-; exists nd; auto|exists n; auto]. }
      clear E Es0 HJ HS.
      (* its exit date *)
      mstep H as u1. match type of E with put_ind ?x' _ = _ => set (x1 := x') in * end.
      assert (Hf0 : find_ind (i_id x1) (inds s0) = Some x) by (change (i_id x1) with (i_id x); rewrite Hidx, Ei0; exact Hf).
      destruct (carry_put_ind cf [i] s0 s1 tt x x1 Hf0 eq_refl (Jst_Ctx an h _ _ J0) S0 E) as (_ & S1 & ES1 & EJ1).
      assert (J1 : Jst an h [i] s1) by (eapply Jst_VJ; eauto).
      destruct (put_ind_facts _ _ _ _ E) as (Ei1 & En1 & Ea1 & El1 & Et1 & Ee1 & Een1). clear E.
      assert (Hf1 : find_ind i (inds s1) = Some x1) by (rewrite Ei1; rewrite <- Hidx at 1; change (i_id x) with (i_id x1); apply find_put_same).
      assert (N1 : NoEntry s1 i) by (eapply NoEntry_VJ; eauto).
      (* its record *)
      mstep H as u2. change ((if false then ret tt else write_individual_record cf j i) s1 = Ok (tt, s2)) in E. cbv iota in E.
      destruct (wir_spec j i s1 s2 E) as (xw & r & Hxw & R1 & R2 & R3 & R4 & R5 & R6 & Ei2 & En2 & Ee2 & Een2 & Ea2 & El2 & Et2).
      assert (xw = x1) by congruence. subst xw. clear Hxw.
      set (x2 := x1 <| i_nrec := i_nrec x1 + 1 |>) in *.
      assert (Hrid : r_id r = i) by (rewrite R1; exact Hidx).
      assert (Hlog1 : log s1 = log s) by congruence.
      assert (Hcl : closing r) by (left; exact R2).
      assert (J2 : Jst an h [i] s2).
      { apply (Jst_log_away an h [i] s1 s2 i x1 x2 r J1 (or_introl eq_refl) N1 Hf1 Hidx Hrid); try assumption.
        - rewrite Hlog1. intros r1 Hr1. unfold lastok in Glast. rewrite Hr1 in Glast. split; [left; exact R2|].
          destruct Glast as [(G1 & G2 & G3)|(G1 & G2 & G3)]; [left|right].
          + split; [exact G1|]. split; [rewrite R3; exact G2|rewrite R4; exact G3].
          + split; [exact G1|]. split; [rewrite R3; symmetry; exact G2|rewrite R4; symmetry; exact G3].
        - rewrite Hlog1, R3. exact Gan. }
      assert (S2 : SrvInv cf [i] s2) by (exact (proj1 (SrvInv_keepS cf [i] _ s1 tt s2 (ks_write_individual_record cf j i) (WFx2_Idx _ _ (proj1 J1)) S1 E))).
      assert (N2 : NoEntry s2 i) by (intros d0 fr He; apply (entry_nodes s1 s2) in He; [exact (N1 d0 fr He)|exact En2]).
      assert (Hf2 : find_ind i (inds s2) = Some x2) by (rewrite Ei2; rewrite <- Hidx at 1; change (i_id x) with (i_id x2); apply find_put_same).
      assert (Hrecs2 : recs_of i (h ++ log s2) = recs_of i (h ++ log s) ++ [r]) by (rewrite El2, Hlog1, app_assoc; apply recs_of_snoc_same; exact Hrid).
      assert (Hlast2 : last_of i (h ++ log s2) = Some r) by (unfold last_of; rewrite Hrecs2; apply last_opt_snoc).
      assert (Hnow2 : now s2 = now s) by congruence.
      clear E J1 S1 N1 J0 S0 N0.
      (* its server is freed *)
      mstep H as freed.
      assert (F3 : Jst an h [i] s3 /\ SrvInv cf [i] s3 /\ NoOwner cf i s3 /\ VJ s3 = VJ s2).
      { destruct (negb (nd_inf nd) && negb (nc_slotted nc)) eqn:Ec.
        - mstep E as xr. assert (xr = x2) by congruence. subst xr. mstep E as sid. mstep E as u3. apply ret_spec in E as [_ ->].
          destruct (srv_detatch cf [i] j sid i s2 s4 x2 (WFx2_Idx _ _ (proj1 J2)) S2 (or_introl (or_introl eq_refl)) Hf2 Gnode Hl E0) as (A1 & A2 & _ & _).
          destruct (carryJ [i] _ s2 _ s4 (kv_T _ _ _ _ _ (kj_detatch_server j sid i)) (Jst_Ctx an h _ _ J2) E0) as (_ & EJ).
          split; [eapply Jst_VJ; eauto|]. auto.
        - apply ret_spec in E as [_ ->]. split; [exact J2|]. split; [exact S2|]. split; [|reflexivity].
          intros j0 n0 sv A1 A2 A3 A4. destruct (si_own _ _ _ S2 j0 n0 sv i A1 A2 A3 A4) as (y & Hy & _ & P2 & _).
          assert (y = x2) by congruence. subst y. assert (j0 = j) by (change (i_node x2) with (i_node x) in P2; congruence). subst j0.
          assert (n0 = nd1) by (rewrite (nodeZ_same s1 s2 j En2), (nodeZ_same s0 s1 j En1), HZ0, Z.eqb_refl in A1; congruence). subst n0.
          apply andb_false_iff in Ec as [Ec|Ec]; apply negb_false_iff in Ec.
          + pose proof (sn_inf _ _ _ (si_n _ _ _ S2 j nd1 A1) Ec) as Hnil. rewrite Hnil in A3. destruct A3.
          + unfold slot_of in A2. rewrite Hc in A2. congruence. }
      destruct F3 as (J3 & S3 & O3 & EJ3). clear E.
      assert (Hf3 : forall y, find_ind i (inds s3) = Some y -> i_nrec y = i_nrec x + 1).
      { intros y Hy. pose proof (VJ_find s2 s3 i EJ3) as Hv. rewrite Hy, Hf2 in Hv. cbn in Hv. unfold fiJ in Hv. injection Hv as _ _ Hv _ _. rewrite Hv. reflexivity. }
      assert (N3 : NoEntry s3 i) by (eapply NoEntry_VJ; eauto).
      (* a slotted service has no server object *)
      mstep H as u4.
      assert (F4 : Jst an h [i] s4 /\ SrvInv cf [i] s4 /\ NoOwner cf i s4 /\ VJ s4 = VJ s3).
      { destruct (nc_slotted nc); [|apply ret_spec in E as [_ ->]; auto].
        destruct (upd_ind_full _ _ _ _ _ E) as (y & Hy & Ei4 & En4 & _).
        assert (Hid4 : i_id (y <| i_server := None |>) = i) by (exact (find_ind_id _ _ _ Hy)).
        destruct (carryJ_put_ind [i] s3 s4 tt y (y <| i_server := None |>) ltac:(rewrite Hid4; exact Hy) eq_refl (Jst_Ctx an h _ _ J3)) as (_ & EJ4).
        { unfold upd_ind in E. mstep E as yy. assert (yy = y) by congruence. subst yy. exact E. }
        split; [eapply Jst_VJ; eauto|]. split; [|split; [exact (NoOwner_nodes cf i s3 s4 En4 O3)|exact EJ4]].
        apply (SrvInv_put_ind cf [i] [i] s3 s4 i y (y <| i_server := None |>) S3 Hy Hid4 En4 Ei4); [auto| | |].
        - intros j0 n0 sv A1 A2 A3 A4. exfalso. exact (O3 j0 n0 sv A1 A2 A3 A4).
        - intros Hx. exfalso. apply Hx. left. reflexivity.
        - intros Hp. exact (si_nb _ _ _ S3 Hp i y Hy). }
      destruct F4 as (J4 & S4 & O4 & EJ4). clear E J3 S3 O3.
      assert (N4 : NoEntry s4 i) by (eapply NoEntry_VJ; eauto).
      (* its attributes are reset *)
      mstep H as u5. unfold reset_individual_attributes in E.
      destruct (upd_ind_full _ _ _ _ _ E) as (y4 & Hy4 & Ei5 & En5 & Ea5 & El5 & Et5 & Ee5 & Een5).
      match type of Ei5 with _ = put_ind_l ?x' _ => set (y5 := x') in * end.
      assert (Hid5 : i_id y5 = i) by (exact (find_ind_id _ _ _ Hy4)).
      assert (J5 : Jst an h [i] s5) by (apply (Jst_put_away an h [i] s4 s5 i y4 y5 J4 (or_introl eq_refl) N4 Hy4 Hid5 Ei5 En5 Ee5 Een5 Ea5 El5)).
      assert (S5 : SrvInv cf [i] s5).
      { apply (SrvInv_VS cf [i] s4 s5); [|exact S4]. apply (VS_put_ind s4 s5 y4 y5); [rewrite Hid5; exact Hy4|reflexivity|exact Ei5|exact En5]. }
      assert (O5 : NoOwner cf i s5) by (exact (NoOwner_nodes cf i s4 s5 En5 O4)).
      assert (N5 : NoEntry s5 i) by (intros d0 fr He; apply (entry_nodes s4 s5) in He; [exact (N4 d0 fr He)|exact En5]).
      assert (Hf5 : forall y, find_ind i (inds s5) = Some y -> i_nrec y = i_nrec x + 1).
      { intros y Hy. rewrite Ei5 in Hy. rewrite <- Hid5 in Hy at 1. rewrite find_put_same in Hy. injection Hy as <-.
        change (i_nrec y5) with (i_nrec y4). pose proof (VJ_find s3 s4 i EJ4) as Hv. rewrite Hy4 in Hv.
        destruct (find_ind i (inds s3)) as [y3|] eqn:E3; [|discriminate Hv]. cbn in Hv. unfold fiJ in Hv. injection Hv as _ _ Hv _ _.
        rewrite Hv. apply Hf3. reflexivity. }
      clear E J4 S4 O4 N4.
      (* the freed server takes the next customer *)
      mstep H as u6. change ((if false then ret tt else begin_service_if_possible_release cf j freed) s5 = Ok (tt, s6)) in E. cbv iota in E.
      destruct (srv_bsipr cf [i] j freed s5 s6 (Jst_Ctx an h _ _ J5) S5 E) as (_ & S6 & EJ6 & HO6).
      assert (J6 : Jst an h [i] s6) by (eapply Jst_VJ; eauto).
      assert (O6 : NoOwner cf i s6) by (apply HO6; [exact (proj1 (Jst_away an h [i] s5 i J5 (or_introl eq_refl)))|exact O5]).
      assert (N6 : NoEntry s6 i) by (eapply NoEntry_VJ; eauto).
      assert (EJ26 : VJ s6 = VJ s5) by exact EJ6.
      assert (Hglob6 : now s6 = now s /\ log s6 = log s2).
      { destruct (VJ_glob _ _ EJ6) as (_ & _ & _ & Q4 & Q5). destruct (VJ_glob _ _ EJ4) as (_ & _ & _ & P4 & P5). destruct (VJ_glob _ _ EJ3) as (_ & _ & _ & R4' & R5').
        split; congruence. }
      destruct Hglob6 as [Hnow6 Hlog6].
      assert (Hf6 : forall y, find_ind i (inds s6) = Some y -> i_nrec y = i_nrec x + 1).
      { intros y Hy. pose proof (VJ_find s5 s6 i EJ6) as Hv. rewrite Hy in Hv. destruct (find_ind i (inds s5)) as [y0|] eqn:E5; [|discriminate Hv].
        cbn in Hv. unfold fiJ in Hv. injection Hv as _ _ Hv _ _. rewrite Hv. apply Hf5. reflexivity. }
      clear E J5 S5 O5 N5.
      (* the customer lands *)
      mstep H as u7.
      assert (L7 : St [] s7).
      { destruct (d =? -1) eqn:Ed.
        - apply Z.eqb_eq in Ed. destruct (exit_accept_St i true s6 s7 (conj J6 S6) N6 O6) as (A1 & _); [|exact E|exact A1].
          rewrite Hlog6. exists r. split; [exact Hlast2|]. left. split; [exact Hcl|]. rewrite R6. cbn. rewrite Hdest, Ed. reflexivity.
        - destruct f as [|f0]; [discriminate E|]. apply (accept_St f0 d i s6 s7 (conj J6 S6) N6 O6); [|exact E].
          intros y Hy. rewrite Hlog6, Hlast2, Hrecs2. split; [|split].
          + left. split; [exact Hcl|]. split; [rewrite R6; exact Hdest|]. rewrite R5, Hnow6. reflexivity.
          + rewrite (Hf6 y Hy), Gnrec. unfold zlen. rewrite app_length, Nat2Z.inj_add. reflexivity.
          + intros E0. destruct (recs_of i (h ++ log s)); discriminate E0. }
      (* the node lets a blocked customer in *)
      change ((if false then ret tt else release_blocked_individual cf f j) s7 = Ok (tt, s')) in H. cbv iota in H.
      exact (IHb j s7 s' L7 H).
    - (* release_blocked_individual *)
      intros j s s' [HJ HS] H. rewrite rbi_S in H. unfold rbi_body in H.
      mstep H as nd. mstep H as nc.
      match type of H with (if ?c then _ else _) _ = _ => destruct c end; [|apply ret_spec in H as [_ ->]; split; assumption].
      destruct (n_bq nd) as [|[from y] rest] eqn:Ebq; [discriminate H|].
      mstep H as fnd. mstep H as u0.
      assert (s0 = s) by (destruct (memZ y (all_individuals fnd)); [apply ret_spec in E as [_ ->]; reflexivity|discriminate E]). subst s0. clear E.
      pose proof (WFx2_Idx _ _ (proj1 HJ)) as HI. pose proof (HI _ _ Hn) as Hidn.
      destruct HJ as (A & B & C & D).
      assert (He : entry s j from y) by (exists nd; rewrite Ebq; split; [exact Hn|left; reflexivity]).
      destruct (l_ent _ C j from y He) as (xy & Hxy & Hdy & Hby).
      (* the entry is taken out of the blocked queue *)
      mstep H as u1. match type of E with put_node ?n _ = _ => set (nd1 := n) in * end.
      destruct (put_node_facts _ _ _ _ E) as (Es0 & Ei0 & Ea0 & El0 & Et0 & Ee0 & Een0).
      assert (En0 : nodes s0 = updZ (nodes s) (n_id nd1 - 1) nd1) by (rewrite Es0; reflexivity).
      assert (Hn' : nodeZ s (n_id nd1) = Some nd) by (change (n_id nd1) with (n_id nd); rewrite Hidn; exact Hn).
      assert (HZ0 : forall k, nodeZ s0 k = if k =? j then Some nd1 else nodeZ s k).
      { intros k. rewrite (nodeZ_upd s s0 nd1 nd k En0 Hn'). change (n_id nd1) with (n_id nd). rewrite Hidn. reflexivity. }
      assert (Hatn : forall k z, at_node s0 k z <-> at_node s k z).
      { intros k z. unfold at_node. rewrite HZ0. destruct (Z.eqb_spec k j) as [->|Hne]; [|reflexivity]. split.
        - intros (n & Hnn & Hin). injection Hnn as <-. exists nd. auto.
        - intros (n & Hnn & Hin). assert (n = nd) by congruence. subst n. exists nd1. auto. }
      assert (J0 : Jst an h [] s0).
      { split; [|split; [|split]].
        - eapply Conserve2.WFx2_shape; [|exact A]. unfold Conserve2.shp. rewrite Ee0, Een0, Ea0, Ei0. f_equal.
          rewrite En0. unfold nodeZ in Hn'. destruct (Conserve2.nthZ_nat _ _ _ Hn') as (kk & Hkk & Hnk). rewrite Hkk, Conserve2.updZ_nat, Conserve2.upd_map.
          apply Conserve2.upd_same. rewrite nth_error_map, Hnk. reflexivity.
        - unfold JI in *. rewrite El0. apply (JH_mono an _ s s0 B); [intros k z; apply Hatn|intros k z _; rewrite Ei0; reflexivity|exact Ee0|rewrite Ea0; lia].
        - constructor.
          + intros d0 fr z (n & Hnn & Hin). rewrite HZ0 in Hnn. rewrite Ei0. apply (l_ent _ C d0 fr z).
            destruct (Z.eqb_spec d0 j) as [->|Hne]; [injection Hnn as <-; exists nd; split; [exact Hn|rewrite Ebq; right; exact Hin]|exists n; auto].
          + intros d0 n Hnn. rewrite HZ0 in Hnn. destruct (Z.eqb_spec d0 j) as [->|Hne]; [|exact (l_nd _ C d0 n Hnn)].
            injection Hnn as <-. cbn. pose proof (l_nd _ C j nd Hn) as Hnd. rewrite Ebq in Hnd. cbn in Hnd. apply NoDup_cons_iff in Hnd as [_ Hnd]. exact Hnd.
        - intros k n Hnn. rewrite HZ0 in Hnn. destruct (Z.eqb_spec k j) as [->|Hne]; [injection Hnn as <-; exact (D j nd Hn)|exact (D k n Hnn)]. }
      assert (S0 : SrvInv cf [] s0) by (apply (SrvInv_VS cf [] s s0 (VS_put_node s s0 nd nd1 Hn' eq_refl eq_refl En0 Ei0)); exact HS).
      assert (N0 : NoEntry s0 y).
      { intros d0 fr (n & Hnn & Hin). rewrite HZ0 in Hnn. destruct (Z.eqb_spec d0 j) as [->|Hne].
        - injection Hnn as <-. cbn in Hin. pose proof (l_nd _ C j nd Hn) as Hnd. rewrite Ebq in Hnd. cbn in Hnd.
          apply NoDup_cons_iff in Hnd as [Hnd _]. apply Hnd. apply in_map_iff. exists (fr, y). auto.
        - destruct (l_ent _ C d0 fr y (ex_intro _ n (conj Hnn Hin))) as (xy' & Hxy' & Hdy' & _). congruence. }
      assert (Hxy0 : find_ind y (inds s0) = Some xy) by (rewrite Ei0; exact Hxy).
      clear E Es0 A B C D HS.
      (* an interrupted customer gets its service dates back *)
      mstep H as yx. assert (yx = xy) by congruence. subst yx. mstep H as u2.
      assert (F1 : St [] s1 /\ NoEntry s1 y /\ exists x1, find_ind y (inds s1) = Some x1 /\ i_dest x1 = Some j).
      { destruct (i_interrupted xy).
        - mstep E as os. mstep E as ot. mstep E as u3.
          match type of E0 with put_ind ?x' _ = _ => set (xy1 := x') in * end.
          pose proof (find_ind_id _ _ _ Hf) as Hidy.
          destruct (carry_put_ind cf [] s0 s2 tt xy xy1 ltac:(change (i_id xy1) with (i_id xy); rewrite Hidy; exact Hf) eq_refl (Jst_Ctx an h _ _ J0) S0 E0) as (_ & S2 & ES2 & EJ2).
          assert (J2 : Jst an h [] s2) by (eapply Jst_VJ; eauto).
          destruct (put_ind_facts _ _ _ _ E0) as (Ei2 & En2 & _). clear E0.
          mstep E as fnd2. match goal with Hx : nodeZ s2 from = Some fnd2 |- _ => rename Hx into Hnf2 end. mstep E as l'.
          match type of E with put_node ?n _ = _ => set (fn1 := n) in * end.
          destruct (put_node_facts _ _ _ _ E) as (Es1 & Ei1 & Ea1 & El1 & Et1 & Ee1 & Een1).
          assert (En1 : nodes s1 = updZ (nodes s2) (n_id fn1 - 1) fn1) by (rewrite Es1; reflexivity).
          pose proof (WFx2_Idx _ _ (proj1 J2) _ _ Hnf2) as Hidf.
          assert (Hnf : nodeZ s2 (n_id fn1) = Some fnd2) by (change (n_id fn1) with (n_id fnd2); rewrite Hidf; exact Hnf2).
          assert (HZ1 : forall k, nodeZ s1 k = if k =? from then Some fn1 else nodeZ s2 k).
          { intros k. rewrite (nodeZ_upd s2 s1 fn1 fnd2 k En1 Hnf). change (n_id fn1) with (n_id fnd2). rewrite Hidf. reflexivity. }
          assert (Hatn1 : forall k z, at_node s1 k z <-> at_node s2 k z).
          { intros k z. unfold at_node. rewrite HZ1. destruct (Z.eqb_spec k from) as [->|Hne]; [|reflexivity]. split.
            - intros (n & Hnn & Hin). injection Hnn as <-. exists fnd2. auto.
            - intros (n & Hnn & Hin). assert (n = fnd2) by congruence. subst n. exists fn1. auto. }
          assert (Hent1 : forall d0 fr z, entry s1 d0 fr z <-> entry s2 d0 fr z).
          { intros d0 fr z. unfold entry. rewrite HZ1. destruct (Z.eqb_spec d0 from) as [->|Hne]; [|reflexivity]. split.
            - intros (n & Hnn & Hin). injection Hnn as <-. exists fnd2. auto.
            - intros (n & Hnn & Hin). assert (n = fnd2) by congruence. subst n. exists fn1. auto. }
          destruct J2 as (A2 & B2 & C2 & D2).
          assert (J1 : Jst an h [] s1).
          { split; [|split; [|split]].
            - eapply Conserve2.WFx2_shape; [|exact A2]. unfold Conserve2.shp. rewrite Ee1, Een1, Ea1, Ei1. f_equal.
              rewrite En1. unfold nodeZ in Hnf. destruct (Conserve2.nthZ_nat _ _ _ Hnf) as (kk & Hkk & Hnk). rewrite Hkk, Conserve2.updZ_nat, Conserve2.upd_map.
              apply Conserve2.upd_same. rewrite nth_error_map, Hnk. reflexivity.
            - unfold JI in *. rewrite El1. apply (JH_mono an _ s2 s1 B2); [intros k z; apply Hatn1|intros k z _; rewrite Ei1; reflexivity|exact Ee1|rewrite Ea1; lia].
            - constructor.
              + intros d0 fr z Hez. rewrite Ei1. apply (l_ent _ C2 d0 fr z). apply Hent1. exact Hez.
              + intros d0 n Hnn. rewrite HZ1 in Hnn. destruct (Z.eqb_spec d0 from) as [->|Hne]; [injection Hnn as <-; exact (l_nd _ C2 from fnd2 Hnf2)|exact (l_nd _ C2 d0 n Hnn)].
            - intros k n Hnn. rewrite HZ1 in Hnn. destruct (Z.eqb_spec k from) as [->|Hne]; [|exact (D2 k n Hnn)].
              injection Hnn as <-. cbn. pose proof (D2 from fnd2 Hnf2). lia. }
          split; [split; [exact J1|]|split].
          + apply (SrvInv_VS cf [] s2 s1 (VS_put_node s2 s1 fnd2 fn1 Hnf eq_refl eq_refl En1 Ei1)). exact S2.
          + intros d0 fr Hez. apply Hent1 in Hez. exact (NoEntry_VJ s0 s2 y EJ2 N0 d0 fr Hez).
          + exists xy1. split; [rewrite Ei1, Ei2; rewrite <- Hidy at 1; change (i_id xy) with (i_id xy1); apply find_put_same|exact Hdy].
        - apply ret_spec in E as [_ ->]. split; [split; assumption|]. split; [exact N0|]. exists xy. auto. }
      destruct F1 as (St1 & N1 & Hd1).
      exact (IHr from y j s1 s' St1 N1 Hd1 H).
  Qed.

  Lemma release_St f j i d s s' : St [] s -> NoEntry s i -> (exists x, find_ind i (inds s) = Some x /\ i_dest x = Some d) ->
    release cf f j i d false s = Ok (tt, s') -> St [] s'.
  Proof. apply core_St. Qed.
  Lemma rbi_St f j s s' : St [] s -> release_blocked_individual cf f j s = Ok (tt, s') -> St [] s'.
  Proof. apply core_St. Qed.
  Lemma accept_St' f j i s s' : St [i] s -> NoEntry s i -> NoOwner cf i s ->
    (forall x, find_ind i (inds s) = Some x ->
       lastok j (Some (now s)) (last_of i (h ++ log s)) /\ i_nrec x = zlen (recs_of i (h ++ log s)) /\
       (recs_of i (h ++ log s) = [] -> an i = Some j)) ->
    accept cf f j i s = Ok (tt, s') -> St [] s'.
  Proof. intros A B C D H. destruct f as [|f]; [discriminate H|]. exact (accept_St f j i s s' A B C D H). Qed.

  (* the record of a customer is rewritten without touching where it is, when it came and how many records it has;
     the customer is in no blocked queue *)
  Lemma Jst_put_same fl s s' i y y' : Jst an h fl s -> NoEntry s i -> find_ind i (inds s) = Some y -> i_id y' = i -> jv3 y' = jv3 y ->
    inds s' = put_ind_l y' (inds s) -> nodes s' = nodes s -> exit_ids s' = exit_ids s -> exit_n s' = exit_n s -> arr s' = arr s -> log s' = log s ->
    Jst an h fl s'.
  Proof.
    intros (A & B & C & D) HN Hf Hid Hv Ei En Ee Een Ea El.
    assert (Hat : forall k z, at_node s' k z <-> at_node s k z) by (intros k z; apply at_node_nodes; exact En).
    split; [|split; [|split]].
    - eapply Conserve2.WFx2_shape; [|exact A]. unfold Conserve2.shp. rewrite En, Ee, Een, Ea, Ei. f_equal.
      apply Conserve2.put_ind_l_ids_in. rewrite Hid. eapply Conserve2.find_ind_In; eauto.
    - unfold JI in *. rewrite El. apply (JH_mono an _ s s' B); [intros k z; apply Hat| |exact Ee|rewrite Ea; lia].
      intros k z _. rewrite Ei. destruct (Z.eq_dec z i) as [->|Hne].
      + rewrite <- Hid at 1. rewrite find_put_same, Hf. cbn. rewrite Hv. reflexivity.
      + rewrite find_put_other by congruence. reflexivity.
    - destruct C as [C1 C2]. constructor.
      + intros d f z He. apply (entry_nodes s s') in He; [|exact En]. destruct (C1 d f z He) as (x & Hx & P).
        assert (Hne : z <> i_id y') by (rewrite Hid; intros ->; exact (HN d f He)). exists x. rewrite Ei, find_put_other by exact Hne. auto.
      + intros d nd Hn. rewrite (nodeZ_same s s' d En) in Hn. exact (C2 d nd Hn).
    - intros k nd Hn. rewrite (nodeZ_same s s' k En) in Hn. exact (D k nd Hn).
  Qed.

  Lemma set_next_end_post j sid d s s' : Idx s -> SrvInv cf [] s -> set_next_end j sid d s = Ok (tt, s') ->
    forall nd' sv, nodeZ s' j = Some nd' -> In sv (n_servers nd') -> sv_id sv = sid -> sv_next_end sv = d.
  Proof.
    intros HI HS H nd' sv Hn' Hin Hid. unfold set_next_end in H. destruct (upd_server_spec _ _ _ _ _ _ H) as (nd & Hn & Ei & Hm).
    pose proof (HI _ _ Hn) as Hidn.
    destruct (find_server sid (n_servers nd)) as [sv0|] eqn:Efs.
    - destruct (find_server_spec _ _ _ Efs) as [Hsin Hsid]. set (ndn := nd <| n_servers := put_server_l (sv0 <| sv_next_end := d |>) (n_servers nd) |>) in *.
      assert (Hn0 : nodeZ s (n_id ndn) = Some nd) by (change (n_id ndn) with (n_id nd); rewrite Hidn; exact Hn).
      rewrite (nodeZ_upd s s' ndn nd j Hm Hn0) in Hn'. change (n_id ndn) with (n_id nd) in Hn'. rewrite Hidn, Z.eqb_refl in Hn'. injection Hn' as <-.
      cbn in Hin. apply (put_server_in _ _ _ (sn_nd _ _ _ (si_n _ _ _ HS j nd Hn))) in Hin as [->|[_ Hne]]; [reflexivity|]. exfalso. apply Hne. cbn. congruence.
    - exfalso. rewrite (nodeZ_same s s' j Hm) in Hn'. assert (nd' = nd) by congruence. subst nd'. exact (find_server_some _ _ _ Hin Hid Efs).
  Qed.

  Lemma has_space_pre d s b s' : preempts cf = true -> has_space cf d s = Ok (b, s') -> b = true.
  Proof.
    intros Hp H. unfold has_space in H. destruct (d =? -1); [apply ret_spec in H as [-> _]; reflexivity|].
    mstep H as dn. mstep H as dc. apply ret_spec in H as [-> _]. rewrite (proj1 (scope2_pre cf Hsc Hp) d dc Hc). reflexivity.
  Qed.

  (* ---------- finish_service ---------- *)
  Lemma finish_service_St j s s' : St [] s ->
    (forall nd i x, nodeZ s j = Some nd -> In i (n_next_inds nd) -> find_ind i (inds s) = Some x -> i_blocked x = false /\ i_node x = Some j) ->
    finish_service cf j s = Ok (tt, s') -> St [] s'.
  Proof.
    intros [HJ HS] Hpick H. unfold finish_service in H. mstep H as nd.
    pose proof (Jst_Ctx an h _ _ HJ) as HC. rename HS into HS0.
    mstep H as i. pose proof (decide_between_spec _ _ _ _ E) as Hi.
    destruct (carryB cf [] _ s _ s0 (kb_decide_between _) HC HS0 E) as (HC1 & HS1 & ES1 & EJ1). clear E.
    bstep H HC1 HS1 as ES2 EJ2. bstep H HC1 HS1 as ES3 EJ3. rename a into d.
    assert (EJ03 : VJ s2 = VJ s) by congruence. assert (ES03 : VS s2 = VS s) by congruence.
    assert (J3 : Jst an h [] s2) by (eapply Jst_VJ; eauto).
    (* the destination is stamped on the customer *)
    mstep H as u0. destruct (upd_ind_full _ _ _ _ _ E) as (y & Hy & Ei4 & En4 & Ea4 & El4 & Et4 & Ee4 & Een4). clear E.
    set (y4 := y <| i_dest := Some d |>) in *. pose proof (find_ind_id _ _ _ Hy) as Hidy.
    assert (Hy0 : exists y0, find_ind i (inds s) = Some y0 /\ fiJ y = fiJ y0 /\ fiS y = fiS y0).
    { destruct (find_ind i (inds s)) as [y0|] eqn:E0.
      - destruct (rec_VJS s s2 i y0 EJ03 ES03 E0) as (y' & Hy' & P1 & P2). assert (y' = y) by congruence. subst y'. eauto.
      - exfalso. pose proof (VJ_find s s2 i EJ03) as Hv. rewrite E0, Hy in Hv. discriminate Hv. }
    destruct Hy0 as (y0 & Hy0 & PJ & PS). destruct (Hpick nd i y0 Hn Hi Hy0) as [Hb0 Hnode0].
    assert (Hb : i_blocked y = false) by (unfold fiS in PS; injection PS as _ _ PS; congruence).
    assert (Hnode : i_node y = Some j) by (unfold fiS in PS; injection PS as _ PS _; congruence).
    assert (N3 : NoEntry s2 i) by (eapply unblocked_NoEntry; [exact (proj1 (proj2 (proj2 J3)))|exact Hy|exact Hb]).
    assert (J4 : Jst an h [] s3) by (apply (Jst_put_same [] s2 s3 i y y4 J3 N3 Hy Hidy eq_refl Ei4 En4 Ee4 Een4 Ea4 El4)).
    assert (S4 : SrvInv cf [] s3) by (apply (SrvInv_VS cf [] s2 s3); [apply (VS_put_ind s2 s3 y y4); [change (i_id y4) with (i_id y); rewrite Hidy; exact Hy|reflexivity|exact Ei4|exact En4]|exact HS1]).
    assert (Hy4 : find_ind i (inds s3) = Some y4) by (rewrite Ei4; rewrite <- Hidy at 1; change (i_id y) with (i_id y4); apply find_put_same).
    assert (N4 : NoEntry s3 i) by (intros d0 fr He; apply (entry_nodes s2 s3) in He; [exact (N3 d0 fr He)|exact En4]).
    clear HC1 HS1 J3 N3.
    (* the server has no end-of-service date any more *)
    mstep H as nc. mstep H as u1.
    assert (F5 : Jst an h [] s4 /\ SrvInv cf [] s4 /\ VJ s4 = VJ s3 /\ find_ind i (inds s4) = Some y4 /\
                 (forall j0 n0 sv, nodeZ s4 j0 = Some n0 -> slot_of cf j0 = false -> In sv (n_servers n0) -> sv_cust sv = Some i -> sv_next_end sv = None) /\
                 (i_server y4 = None -> exists n0, nodeZ s4 j = Some n0 /\ (nd_inf n0 = true \/ slot_of cf j = true))).
    { destruct (negb (nd_inf nd) && negb (nc_slotted nc)) eqn:Ec.
      - mstep E as xr. assert (xr = y4) by congruence. subst xr. mstep E as sid.
        destruct (srv_set_next_end cf [] j sid None s3 s4 (WFx2_Idx _ _ (proj1 J4)) S4 ltac:(intros Hx; exfalso; apply Hx; reflexivity) E) as (A1 & _).
        destruct (carryJ [] _ s3 _ s4 (kv_T _ _ _ _ _ (kj_set_next_end j sid None)) (Jst_Ctx an h _ _ J4) E) as (_ & EJ).
        assert (Ei5 : inds s4 = inds s3) by (unfold set_next_end in E; destruct (upd_server_spec _ _ _ _ _ _ E) as (? & _ & A & _); exact A).
        split; [eapply Jst_VJ; eauto|]. split; [exact A1|]. split; [exact EJ|]. split; [rewrite Ei5; exact Hy4|]. split.
        + intros j0 n0 sv B1 B2 B3 B4. destruct (si_own _ _ _ A1 j0 n0 sv i B1 B2 B3 B4) as (z & Hz & P1 & P2 & _).
          rewrite Ei5, Hy4 in Hz. injection Hz as <-. assert (j0 = j) by (change (i_node y4) with (i_node y) in P2; congruence). subst j0.
          apply (set_next_end_post j sid None s3 s4 (WFx2_Idx _ _ (proj1 J4)) S4 E n0 sv B1 B3). change (i_server y4) with (i_server y) in *. congruence.
        + intros Hx. change (i_server y4) with (i_server y) in *. congruence.
      - apply ret_spec in E as [_ ->]. split; [exact J4|]. split; [exact S4|]. split; [reflexivity|]. split; [exact Hy4|].
        assert (Hnd3 : exists n3, nodeZ s3 j = Some n3 /\ nd_inf n3 = nd_inf nd).
        { assert (ES : VS s3 = VS s) by (rewrite <- ES03; apply (VS_put_ind s2 s3 y y4); [change (i_id y4) with (i_id y); rewrite Hidy; exact Hy|reflexivity|exact Ei4|exact En4]).
          pose proof (VW_node fnS fiS fgS s s3 j ES) as Hv. rewrite Hn in Hv. destruct (nodeZ s3 j) as [n3|]; [|discriminate Hv].
          cbn in Hv. unfold nv, fnS in Hv. injection Hv as _ _ _ Hv. eauto. }
        destruct Hnd3 as (n3 & Hn3 & Hinf3).
        assert (Hor : nd_inf n3 = true \/ slot_of cf j = true).
        { apply andb_false_iff in Ec as [Ec|Ec]; apply negb_false_iff in Ec; [left; congruence|right; unfold slot_of; rewrite Hc; exact Ec]. }
        split.
        + intros j0 n0 sv B1 B2 B3 B4. exfalso. destruct (si_own _ _ _ S4 j0 n0 sv i B1 B2 B3 B4) as (z & Hz & _ & P2 & _).
          rewrite Hy4 in Hz. injection Hz as <-. assert (j0 = j) by (change (i_node y4) with (i_node y) in P2; congruence). subst j0.
          assert (n0 = n3) by congruence. subst n0. destruct Hor as [Hor|Hor]; [|congruence].
          rewrite (sn_inf _ _ _ (si_n _ _ _ S4 j n3 Hn3) Hor) in B3. destruct B3.
        + intros _. exists n3. auto. }
    destruct F5 as (J5 & S5 & EJ5 & Hy5 & Hown5 & Hblk5). clear E J4 S4.
    assert (N5 : NoEntry s4 i) by (eapply NoEntry_VJ; eauto).
    (* is there room at the destination? *)
    pose proof (Jst_Ctx an h _ _ J5) as HC5. mstep H as space. rename E into Hsp.
    destruct (carryB cf [] _ s4 space s5 (kb_has_space cf d) HC5 S5 Hsp) as (HC5' & S5' & ES6 & EJ6).
    clear HC5 S5. rename HC5' into HC5. rename S5' into S5.
    assert (J6 : Jst an h [] s5) by (eapply Jst_VJ; eauto).
    destruct (rec_VJS s4 s5 i y4 EJ6 ES6 Hy5) as (y6 & Hy6 & PJ6 & PS6).
    assert (N6 : NoEntry s5 i) by (eapply NoEntry_VJ; eauto).
    assert (Hd6 : i_dest y6 = Some d) by (unfold fiJ in PJ6; injection PJ6 as _ _ _ PJ6 _; exact PJ6).
    destruct space.
    - mstep H as fl0. apply (release_St _ j i d s5 s' (conj J6 S5) N6 ltac:(eauto) H).
    - (* blocked *)
      unfold block_individual in H. mstep H as u2.
      destruct (upd_ind_full _ _ _ _ _ E) as (z & Hz & Ei7 & En7 & Ea7 & El7 & Et7 & Ee7 & Een7). clear E.
      assert (z = y6) by congruence. subst z. set (y7 := y6 <| i_blocked := true |>) in *. pose proof (find_ind_id _ _ _ Hy6) as Hid6.
      assert (J7 : Jst an h [] s6) by (apply (Jst_put_same [] s5 s6 i y6 y7 J6 N6 Hy6 Hid6 eq_refl Ei7 En7 Ee7 Een7 Ea7 El7)).
      assert (S7 : SrvInv cf [] s6).
      { apply (SrvInv_put_ind cf [] [] s5 s6 i y6 y7 S5 Hy6 Hid6 En7 Ei7); [auto| | |intros Hp; exfalso; pose proof (has_space_pre d s4 false s5 Hp Hsp); discriminate].
        - intros j0 n0 sv B1 B2 B3 B4. destruct (si_own _ _ _ S5 j0 n0 sv i B1 B2 B3 B4) as (z & Hz' & P1 & P2 & _).
          assert (z = y6) by congruence. subst z. split; [exact P1|]. split; [exact P2|]. intros Hne. exfalso. apply Hne.
          (* the server is seen from s4 *)
          destruct (VS_node s4 s5 j0 n0 ES6 B1) as (n4 & Hn4 & _ & E1 & _ & _). destruct (srv3_in _ _ _ E1 B3) as (sv4 & Hsv4 & E4).
          unfold srv3 in E4. injection E4 as E41 E42 E43. rewrite <- E43. apply (Hown5 j0 n4 sv4 Hn4 B2 Hsv4). congruence.
        - intros _ _ Hsv. change (i_server y7) with (i_server y6) in Hsv.
          assert (Hsv4 : i_server y4 = None) by (change (i_server y = None); unfold fiS in PS6; injection PS6 as Q1 _ _; congruence).
          destruct (Hblk5 Hsv4) as (n4 & Hn4 & Hor). pose proof (VW_node fnS fiS fgS s4 s5 j ES6) as Hv. rewrite Hn4 in Hv.
          destruct (nodeZ s5 j) as [n5|] eqn:En5; [|discriminate Hv]. cbn in Hv. unfold nv, fnS in Hv. injection Hv as _ _ _ Hv.
          exists j, n5. split; [|split; [exact En5|rewrite Hv; exact Hor]].
          change (i_node y7) with (i_node y6). unfold fiS in PS6. injection PS6 as _ PS6 _. rewrite PS6. exact Hnode. }
      assert (Hy7 : find_ind i (inds s6) = Some y7) by (rewrite Ei7; rewrite <- Hid6 at 1; change (i_id y6) with (i_id y7); apply find_put_same).
      assert (N7 : NoEntry s6 i) by (intros d0 fr He; apply (entry_nodes s5 s6) in He; [exact (N6 d0 fr He)|exact En7]).
      (* the entry in the blocked queue of the destination *)
      unfold upd_node in H. mstep H as dn. match type of H with put_node ?n _ = _ => set (dn1 := n) in * end.
      destruct (put_node_facts _ _ _ _ H) as (Es8 & Ei8 & Ea8 & El8 & Et8 & Ee8 & Een8).
      assert (En8 : nodes s' = updZ (nodes s6) (n_id dn1 - 1) dn1) by (rewrite Es8; reflexivity).
      pose proof (WFx2_Idx _ _ (proj1 J7) _ _ Hn0) as Hidd.
      assert (Hnd : nodeZ s6 (n_id dn1) = Some dn) by (change (n_id dn1) with (n_id dn); rewrite Hidd; exact Hn0).
      assert (HZ8 : forall k, nodeZ s' k = if k =? d then Some dn1 else nodeZ s6 k).
      { intros k. rewrite (nodeZ_upd s6 s' dn1 dn k En8 Hnd). change (n_id dn1) with (n_id dn). rewrite Hidd. reflexivity. }
      assert (Hatn : forall k z, at_node s' k z <-> at_node s6 k z).
      { intros k z. unfold at_node. rewrite HZ8. destruct (Z.eqb_spec k d) as [->|Hne]; [|reflexivity]. split.
        - intros (n & Hnn & Hin). injection Hnn as <-. exists dn. auto.
        - intros (n & Hnn & Hin). assert (n = dn) by congruence. subst n. exists dn1. auto. }
      destruct J7 as (A7 & B7 & C7 & D7). split.
      + split; [|split; [|split]].
        * eapply Conserve2.WFx2_shape; [|exact A7]. unfold Conserve2.shp. rewrite Ee8, Een8, Ea8, Ei8. f_equal.
          rewrite En8. unfold nodeZ in Hnd. destruct (Conserve2.nthZ_nat _ _ _ Hnd) as (kk & Hkk & Hnk). rewrite Hkk, Conserve2.updZ_nat, Conserve2.upd_map.
          apply Conserve2.upd_same. rewrite nth_error_map, Hnk. reflexivity.
        * unfold JI in *. rewrite El8. apply (JH_mono an _ s6 s' B7); [intros k z; apply Hatn|intros k z _; rewrite Ei8; reflexivity|exact Ee8|rewrite Ea8; lia].
        * constructor.
          -- intros d0 fr z (n & Hnn & Hin). rewrite HZ8 in Hnn. rewrite Ei8. destruct (Z.eqb_spec d0 d) as [->|Hne].
             ++ injection Hnn as <-. cbn in Hin. apply in_app_or in Hin as [Hin|[Hin|[]]].
                ** apply (l_ent _ C7 d fr z). exists dn. auto.
                ** injection Hin as <- <-. exists y7. split; [exact Hy7|]. split; [exact Hd6|reflexivity].
             ++ apply (l_ent _ C7 d0 fr z). exists n. auto.
          -- intros d0 n Hnn. rewrite HZ8 in Hnn. destruct (Z.eqb_spec d0 d) as [->|Hne]; [|exact (l_nd _ C7 d0 n Hnn)].
             injection Hnn as <-. cbn. rewrite map_app. cbn. apply NoDup_snoc; [exact (l_nd _ C7 d dn Hn0)|].
             intros Hin. apply in_map_iff in Hin as ([fr z] & Ez & Hin). cbn in Ez. subst z. exact (N7 d fr (ex_intro _ dn (conj Hn0 Hin))).
        * intros k n Hnn. rewrite HZ8 in Hnn. destruct (Z.eqb_spec k d) as [->|Hne]; [injection Hnn as <-; exact (D7 d dn Hn0)|exact (D7 k n Hnn)].
      + apply (SrvInv_VS cf [] s6 s' (VS_put_node s6 s' dn dn1 Hnd eq_refl eq_refl En8 Ei8)). exact S7.
  Qed.

  (* ---------- a customer is taken out of its queue ---------- *)
  Lemma leave_queue j i s s0 nd nd1 x p q q' : St [] s -> NoEntry s i -> nodeZ s j = Some nd -> find_ind i (inds s) = Some x ->
    nthZ (n_queues nd) p = Some q -> remove_first i q = Some q' ->
    n_id nd1 = n_id nd -> n_pop nd1 = n_pop nd - 1 -> n_queues nd1 = updZ (n_queues nd) p q' -> n_bq nd1 = n_bq nd -> n_nint nd1 = n_nint nd -> fnS nd1 = fnS nd ->
    put_node nd1 s = Ok (tt, s0) ->
    St [i] s0 /\ NoEntry s0 i /\ inds s0 = inds s /\ log s0 = log s /\ now s0 = now s /\
    i_node x = Some j /\ lastok j (i_arr x) (last_of i (h ++ log s)) /\ i_nrec x = zlen (recs_of i (h ++ log s)) /\ (recs_of i (h ++ log s) = [] -> an i = Some j).
  Proof.
    intros [HJ HS] HN0 Hn Hf Hq Hq' Eid Epop Eqs Ebq Enint EfS E.
    pose proof (WFx2_Idx _ _ (proj1 HJ)) as HI. pose proof (HI _ _ Hn) as Hidn.
    assert (Hiq : In i q) by (apply (Permutation_in _ (Permutation_sym (Conserve2.remove_first_perm _ _ _ Hq'))); left; reflexivity).
    assert (Hat : at_node s j i).
    { exists nd. split; [exact Hn|]. unfold all_individuals. apply in_concat. exists q. split; [|exact Hiq]. eapply nthZ_In; eauto. }
    destruct (j_node _ _ _ (proj1 (proj2 HJ)) j i Hat) as (x0 & Hx0 & Gnode & Glast & Gnrec & Gan).
    assert (x0 = x) by congruence. subst x0. clear Hx0.
    destruct (put_node_facts _ _ _ _ E) as (Es0 & Ei0 & Ea0 & El0 & Et0 & Ee0 & Een0).
    assert (En0 : nodes s0 = updZ (nodes s) (n_id nd1 - 1) nd1) by (rewrite Es0; reflexivity).
    assert (Hn' : nodeZ s (n_id nd1) = Some nd) by (rewrite Eid, Hidn; exact Hn).
    assert (HZ0 : forall k, nodeZ s0 k = if k =? j then Some nd1 else nodeZ s k).
    { intros k. rewrite (nodeZ_upd s s0 nd1 nd k En0 Hn'). rewrite Eid, Hidn. reflexivity. }
    assert (W0 : Conserve2.WFx2 [i] s0).
    { assert (Hok : Conserve2.okn (Conserve2.shp s) nd) by (apply (Conserve2.get_node_okn j); [exact (Conserve2.WFx2_idx _ _ (proj1 HJ))|exact Hn]).
      apply (Conserve2.trK_put_node_rm (fun sh => Conserve2.okn sh nd) [] i nd1) with (s := s) (a := tt); [|exact Hok|exact (proj1 HJ)|exact E].
      intros sh Hsh. exists nd, p, q, q'. repeat split; assumption. }
    assert (Hsub : forall k y, at_node s0 k y -> at_node s k y).
    { intros k y (n & Hnn & Hin). rewrite HZ0 in Hnn. destruct (Z.eqb_spec k j) as [->|Hne]; [|exists n; auto].
      injection Hnn as <-. exists nd. split; [exact Hn|]. unfold all_individuals in *. rewrite Eqs in Hin.
      destruct (Conserve2.nthZ_nat _ _ _ Hq) as (kp & Hkp & Hqk). rewrite Hkp, Conserve2.updZ_nat in Hin.
      apply (Permutation_in _ (Conserve2.concat_upd_rm (n_queues nd) kp q q' i Hqk (Conserve2.remove_first_perm _ _ _ Hq'))). right. exact Hin. }
    split; [split|].
    - destruct HJ as (A & B & C & D). split; [exact W0|]. split; [|split].
      + unfold JI in *. rewrite El0. apply (JH_mono an _ s s0 B Hsub); [intros k y _; rewrite Ei0; reflexivity|exact Ee0|rewrite Ea0; lia].
      + destruct C as [C1 C2]. constructor.
        * intros d0 fr y (n & Hnn & Hin). rewrite HZ0 in Hnn. rewrite Ei0. apply (C1 d0 fr y).
          destruct (Z.eqb_spec d0 j) as [->|Hne]; [injection Hnn as <-; exists nd; rewrite <- Ebq; auto|exists n; auto].
        * intros d0 n Hnn. rewrite HZ0 in Hnn. destruct (Z.eqb_spec d0 j) as [->|Hne]; [injection Hnn as <-; rewrite Ebq; exact (C2 j nd Hn)|exact (C2 d0 n Hnn)].
      + intros k n Hnn. rewrite HZ0 in Hnn. destruct (Z.eqb_spec k j) as [->|Hne]; [injection Hnn as <-; rewrite Enint; exact (D j nd Hn)|exact (D k n Hnn)].
    - apply (SrvInv_VS cf [i] s s0 (VS_put_node s s0 nd nd1 Hn' EfS Eid En0 Ei0)). eapply SrvInv_fl_weaken; [|exact HS]. intros y [].
    - split; [|auto 10]. intros d0 fr (n & Hnn & Hin). rewrite HZ0 in Hnn. apply (HN0 d0 fr).
      destruct (Z.eqb_spec d0 j) as [->|Hne]; [injection Hnn as <-; exists nd; rewrite <- Ebq; auto|exists n; auto].
  Qed.

  (* ---------- the renege record ---------- *)
  Lemma wrr_spec j i s s' : write_reneging_record j i s = Ok (tt, s') ->
    exists x r, find_ind i (inds s) = Some x /\ r_id r = i_id x /\ r_type r = 2 /\ r_node r = j /\ r_arr r = i_arr x /\ r_exit r = i_exit x /\ r_dest r = i_dest x /\
      inds s' = put_ind_l (x <| i_nrec := i_nrec x + 1 |>) (inds s) /\
      nodes s' = nodes s /\ exit_ids s' = exit_ids s /\ exit_n s' = exit_n s /\ arr s' = arr s /\ log s' = log s ++ [r] /\ now s' = now s.
  Proof.
    intros H. unfold write_reneging_record in H. mstep H as x.
    destruct (log_then_bump _ _ _ _ _ H) as (x0 & Hx0 & A). assert (x0 = x) by congruence. subst x0.
    match type of A with context [log s ++ [?r0]] => exists x, r0 end. split; [exact Hf|]. repeat (split; [reflexivity|]). exact A.
  Qed.

  (* ---------- renege ---------- *)
  Lemma renege_St j s s' : St [] s ->
    (forall nd i x, nodeZ s j = Some nd -> In i (n_next_inds nd) -> find_ind i (inds s) = Some x -> i_blocked x = false /\ i_server x = None) ->
    renege cf j s = Ok (tt, s') -> St [] s'.
  Proof.
    intros [HJ HS] Hpick H. unfold renege in H. mstep H as t0. mstep H as nd.
    pose proof (Jst_Ctx an h _ _ HJ) as HC.
    mstep H as i. pose proof (decide_between_spec _ _ _ _ E) as Hi.
    destruct (carryB cf [] _ s _ s0 (kb_decide_between _) HC HS E) as (HC1 & HS1 & ES1 & EJ1). clear E.
    bstep H HC1 HS1 as ES2 EJ2. bstep H HC1 HS1 as ES3 EJ3. rename a into d.
    assert (EJ03 : VJ s2 = VJ s) by congruence. assert (ES03 : VS s2 = VS s) by congruence.
    assert (J3 : Jst an h [] s2) by (eapply Jst_VJ; eauto).
    mstep H as x. mstep H as nd1. mstep H as q. rename Hl into Hq. mstep H as q'. rename Hl into Hq'.
    assert (Hx0 : exists y0, find_ind i (inds s) = Some y0 /\ fiJ x = fiJ y0 /\ fiS x = fiS y0).
    { destruct (find_ind i (inds s)) as [y0|] eqn:E0.
      - destruct (rec_VJS s s2 i y0 EJ03 ES03 E0) as (y' & Hy' & P1 & P2). assert (y' = x) by congruence. subst y'. eauto.
      - exfalso. pose proof (VJ_find s s2 i EJ03) as Hv. rewrite E0, Hf in Hv. discriminate Hv. }
    destruct Hx0 as (y0 & Hy0 & PJ & PS). destruct (Hpick nd i y0 Hn Hi Hy0) as [Hb0 Hsv0].
    assert (Hb : i_blocked x = false) by (unfold fiS in PS; injection PS as _ _ PS; congruence).
    assert (Hsv : i_server x = None) by (unfold fiS in PS; injection PS as PS _ _; congruence).
    assert (N3 : NoEntry s2 i) by (eapply unblocked_NoEntry; [exact (proj1 (proj2 (proj2 J3)))|exact Hf|exact Hb]).
    (* the customer leaves its queue *)
    mstep H as u0. match type of E with put_node ?n _ = _ => set (nd2 := n) in * end.
    destruct (leave_queue j i s2 s3 nd1 nd2 x (i_pprio x) q q' (conj J3 HS1) N3 Hn0 Hf Hq Hq' eq_refl eq_refl eq_refl eq_refl eq_refl eq_refl E)
      as ([J4 S4] & N4 & Ei4 & El4 & Et4 & Gnode & Glast & Gnrec & Gan).
    clear E HC1 HS1 J3 N3.
    pose proof (Jst_Ctx an h _ _ J4) as HC4. bstep H HC4 S4 as ES5 EJ5.
    assert (J5 : Jst an h [i] s4) by (eapply Jst_VJ; eauto).
    assert (N5 : NoEntry s4 i) by (eapply NoEntry_VJ; eauto).
    assert (Hf4 : find_ind i (inds s3) = Some x) by (rewrite Ei4; exact Hf).
    destruct (rec_VJS s3 s4 i x EJ5 ES5 Hf4) as (x5 & Hx5 & PJ5 & PS5).
    (* exit date and destination *)
    mstep H as u1. destruct (upd_ind_full _ _ _ _ _ E) as (z & Hz & Ei6 & En6 & Ea6 & El6 & Et6 & Ee6 & Een6). clear E.
    assert (z = x5) by congruence. subst z.
    match type of Ei6 with _ = put_ind_l ?x' _ => set (x6 := x') in * end.
    pose proof (find_ind_id _ _ _ Hx5) as Hid5.
    assert (J6 : Jst an h [i] s5) by (apply (Jst_put_away an h [i] s4 s5 i x5 x6 J5 (or_introl eq_refl) N5 Hx5 Hid5 Ei6 En6 Ee6 Een6 Ea6 El6)).
    assert (S6 : SrvInv cf [i] s5).
    { apply (SrvInv_VS cf [i] s4 s5); [|exact S4]. apply (VS_put_ind s4 s5 x5 x6); [change (i_id x6) with (i_id x5); rewrite Hid5; exact Hx5|reflexivity|exact Ei6|exact En6]. }
    assert (Hx6 : find_ind i (inds s5) = Some x6) by (rewrite Ei6; rewrite <- Hid5 at 1; change (i_id x5) with (i_id x6); apply find_put_same).
    assert (N6 : NoEntry s5 i) by (intros d0 fr He; apply (entry_nodes s4 s5) in He; [exact (N5 d0 fr He)|exact En6]).
    clear J4 J5 S4 N4 N5 HC4.
    (* the record *)
    mstep H as u2.
    destruct (wrr_spec j i s5 s6 E) as (xw & r & Hxw & R1 & R2 & R3 & R4 & R5 & R6 & Ei7 & En7 & Ee7 & Een7 & Ea7 & El7 & Et7).
    assert (xw = x6) by congruence. subst xw. clear Hxw.
    set (x7 := x6 <| i_nrec := i_nrec x6 + 1 |>) in *.
    assert (Hrid : r_id r = i) by (rewrite R1; exact Hid5).
    assert (Hlog5 : log s5 = log s2) by (destruct (VJ_glob _ _ EJ5) as (_ & _ & _ & _ & Q5); congruence).
    assert (Hnow5 : now s5 = now s) by (destruct (VJ_glob _ _ EJ5) as (_ & _ & _ & Q4 & _); destruct (VJ_glob _ _ EJ03) as (_ & _ & _ & Q4' & _); congruence).
    assert (Harr : i_arr x5 = i_arr x) by (unfold fiJ in PJ5; injection PJ5 as _ PJ5 _ _ _; exact PJ5).
    assert (Hcl : closing r) by (right; left; exact R2).
    assert (J7 : Jst an h [i] s6).
    { apply (Jst_log_away an h [i] s5 s6 i x6 x7 r J6 (or_introl eq_refl) N6 Hx6 Hid5 Hrid); try assumption.
      - rewrite Hlog5. intros r1 Hr1. unfold lastok in Glast. rewrite Hr1 in Glast. split; [right; right; exact R2|].
        change (i_arr x6) with (i_arr x5) in R4. rewrite Harr in R4.
        destruct Glast as [(G1 & G2 & G3)|(G1 & G2 & G3)]; [left|right].
        + split; [exact G1|]. split; [rewrite R3; exact G2|rewrite R4; exact G3].
        + split; [exact G1|]. split; [rewrite R3; symmetry; exact G2|rewrite R4; symmetry; exact G3].
      - rewrite Hlog5, R3. exact Gan. }
    assert (S7 : SrvInv cf [i] s6) by (exact (proj1 (SrvInv_keepS cf [i] _ s5 tt s6 (ks_write_reneging_record j i) (WFx2_Idx _ _ (proj1 J6)) S6 E))).
    assert (N7 : NoEntry s6 i) by (intros d0 fr He; apply (entry_nodes s5 s6) in He; [exact (N6 d0 fr He)|exact En7]).
    assert (Hx7 : find_ind i (inds s6) = Some x7) by (rewrite Ei7; rewrite <- Hid5 at 1; change (i_id x5) with (i_id x7); apply find_put_same).
    assert (Hrecs7 : recs_of i (h ++ log s6) = recs_of i (h ++ log s2) ++ [r]) by (rewrite El7, Hlog5, app_assoc; apply recs_of_snoc_same; exact Hrid).
    assert (Hlast7 : last_of i (h ++ log s6) = Some r) by (unfold last_of; rewrite Hrecs7; apply last_opt_snoc).
    clear E J6 S6 N6.
    (* attributes reset *)
    mstep H as u3. unfold reset_individual_attributes in E.
    destruct (upd_ind_full _ _ _ _ _ E) as (z & Hz' & Ei8 & En8 & Ea8 & El8 & Et8 & Ee8 & Een8). clear E.
    assert (z = x7) by congruence. subst z.
    match type of Ei8 with _ = put_ind_l ?x' _ => set (x8 := x') in * end.
    assert (J8 : Jst an h [i] s7) by (apply (Jst_put_away an h [i] s6 s7 i x7 x8 J7 (or_introl eq_refl) N7 Hx7 Hid5 Ei8 En8 Ee8 Een8 Ea8 El8)).
    assert (S8 : SrvInv cf [i] s7).
    { apply (SrvInv_VS cf [i] s6 s7); [|exact S7]. apply (VS_put_ind s6 s7 x7 x8); [change (i_id x8) with (i_id x5); rewrite Hid5; exact Hx7|reflexivity|exact Ei8|exact En8]. }
    assert (Hx8 : find_ind i (inds s7) = Some x8) by (rewrite Ei8; rewrite <- Hid5 at 1; change (i_id x5) with (i_id x8); apply find_put_same).
    assert (N8 : NoEntry s7 i) by (intros d0 fr He; apply (entry_nodes s6 s7) in He; [exact (N7 d0 fr He)|exact En8]).
    assert (O8 : NoOwner cf i s7).
    { apply (NoOwner_of cf [i] s7 i x8 S8 Hx8). change (i_server x8) with (i_server x5). unfold fiS in PS5. injection PS5 as PS5 _ _. congruence. }
    clear J7 S7 N7.
    (* the customer lands; the node lets a blocked customer in *)
    mstep H as fl0. mstep H as u4.
    assert (L9 : St [] s8).
    { destruct (d =? -1) eqn:Ed.
      - apply Z.eqb_eq in Ed. destruct (exit_accept_St i false s7 s8 (conj J8 S8) N8 O8) as (A1 & _); [|exact E|exact A1].
        rewrite El8. exists r. split; [exact Hlast7|]. left. split; [exact Hcl|]. rewrite R6. cbn. rewrite Ed. reflexivity.
      - refine (accept_St' _ d i s7 s8 (conj J8 S8) N8 O8 _ E).
        intros y Hy. assert (y = x8) by congruence. subst y. rewrite El8, Hlast7, Hrecs7. split; [|split].
        + left. split; [exact Hcl|]. split; [rewrite R6; reflexivity|]. rewrite R5. cbn. congruence.
        + change (i_nrec x8) with (i_nrec x5 + 1). assert (Hn5 : i_nrec x5 = i_nrec x) by (unfold fiJ in PJ5; injection PJ5 as _ _ PJ5 _ _; exact PJ5).
          rewrite Hn5, Gnrec. unfold zlen. rewrite app_length, Nat2Z.inj_add. reflexivity.
        + intros E0. destruct (recs_of i (h ++ log s2)); discriminate E0. }
    exact (rbi_St _ j s8 s' L9 H).
  Qed.

  (* ---------- schedules and slots (in scope: no interruption) ---------- *)
  Lemma change_shift_St j s s' : St [] s -> change_shift cf j s = Ok (tt, s') -> St [] s'.
  Proof.
    intros [HJ HS] H. destruct (Jst_keepJ an h [] _ s tt s' (kj_change_shift cf j Hsc) HJ H) as (HJ' & _).
    destruct (srv_change_shift cf [] j s s' Hsc (Jst_Ctx an h _ _ HJ) HS H) as (_ & HS' & _). split; assumption.
  Qed.
  Lemma slotted_service_St j s s' : St [] s -> slotted_service cf j s = Ok (tt, s') -> St [] s'.
  Proof.
    intros [HJ HS] H. destruct (Jst_keepJ an h [] _ s tt s' (kj_slotted_service cf j Hsc) HJ H) as (HJ' & _).
    destruct (srv_slotted_service cf [] j s s' Hsc (Jst_Ctx an h _ _ HJ) HS H) as (_ & HS' & _). split; assumption.
  Qed.

  (* ---------- class change while waiting: the customer may move to another queue of the same node ---------- *)
  Lemma St_requeue j s s' nd nd1 : St [] s -> nodeZ s j = Some nd ->
    n_id nd1 = n_id nd -> n_pop nd1 = n_pop nd -> n_bq nd1 = n_bq nd -> n_nint nd1 = n_nint nd -> fnS nd1 = fnS nd ->
    Permutation (concat (n_queues nd1)) (concat (n_queues nd)) -> put_node nd1 s = Ok (tt, s') -> St [] s'.
  Proof.
    intros [HJ HS] Hn Eid Epop Ebq Enint EfS Hperm E.
    pose proof (WFx2_Idx _ _ (proj1 HJ)) as HI. pose proof (HI _ _ Hn) as Hidn.
    destruct (put_node_facts _ _ _ _ E) as (Es0 & Ei0 & Ea0 & El0 & Et0 & Ee0 & Een0).
    assert (En0 : nodes s' = updZ (nodes s) (n_id nd1 - 1) nd1) by (rewrite Es0; reflexivity).
    assert (Hn' : nodeZ s (n_id nd1) = Some nd) by (rewrite Eid, Hidn; exact Hn).
    assert (HZ0 : forall k, nodeZ s' k = if k =? j then Some nd1 else nodeZ s k).
    { intros k. rewrite (nodeZ_upd s s' nd1 nd k En0 Hn'). rewrite Eid, Hidn. reflexivity. }
    assert (W0 : Conserve2.WFx2 [] s').
    { assert (Hok : Conserve2.okn (Conserve2.shp s) nd) by (apply (Conserve2.get_node_okn j); [exact (Conserve2.WFx2_idx _ _ (proj1 HJ))|exact Hn]).
      apply (Conserve2.trK_put_node_mv (fun sh => Conserve2.okn sh nd) [] nd1) with (s := s) (a := tt); [|exact Hok|exact (proj1 HJ)|exact E].
      intros sh Hsh. exists nd. auto. }
    assert (Hatn : forall k z, at_node s' k z <-> at_node s k z).
    { intros k z. unfold at_node. rewrite HZ0. destruct (Z.eqb_spec k j) as [->|Hne]; [|reflexivity]. unfold all_individuals. split.
      - intros (n & Hnn & Hin). injection Hnn as <-. exists nd. split; [exact Hn|]. eapply Permutation_in; eauto.
      - intros (n & Hnn & Hin). assert (n = nd) by congruence. subst n. exists nd1. split; [reflexivity|]. eapply Permutation_in; [symmetry; exact Hperm|exact Hin]. }
    destruct HJ as (A & B & C & D). split.
    - split; [exact W0|]. split; [|split].
      + unfold JI in *. rewrite El0. apply (JH_mono an _ s s' B); [intros k z; apply Hatn|intros k z _; rewrite Ei0; reflexivity|exact Ee0|rewrite Ea0; lia].
      + destruct C as [C1 C2]. constructor.
        * intros d0 fr y (n & Hnn & Hin). rewrite HZ0 in Hnn. rewrite Ei0. apply (C1 d0 fr y).
          destruct (Z.eqb_spec d0 j) as [->|Hne]; [injection Hnn as <-; exists nd; rewrite <- Ebq; auto|exists n; auto].
        * intros d0 n Hnn. rewrite HZ0 in Hnn. destruct (Z.eqb_spec d0 j) as [->|Hne]; [injection Hnn as <-; rewrite Ebq; exact (C2 j nd Hn)|exact (C2 d0 n Hnn)].
      + intros k n Hnn. rewrite HZ0 in Hnn. destruct (Z.eqb_spec k j) as [->|Hne]; [injection Hnn as <-; rewrite Enint; exact (D j nd Hn)|exact (D k n Hnn)].
    - apply (SrvInv_VS cf [] s s' (VS_put_node s s' nd nd1 Hn' EfS Eid En0 Ei0)). exact HS.
  Qed.

  Lemma ccww_St j s s' : preempts cf = false -> St [] s -> change_customer_class_while_waiting cf j s = Ok (tt, s') -> St [] s'.
  Proof.
    intros Hnp HSt H. unfold change_customer_class_while_waiting in H.
    mstep H as nd. mstep H as i. mstep H as x. mstep H as nc'. mstep H as p'.
    mstep H as u0. pose proof (find_ind_id _ _ _ Hf) as Hidx.
    match type of E with put_ind ?x' _ = _ => set (x1 := x') in * end.
    destruct HSt as [HJ HS].
    destruct (carry_put_ind cf [] s s0 tt x x1 ltac:(change (i_id x1) with (i_id x); rewrite Hidx; exact Hf) eq_refl (Jst_Ctx an h _ _ HJ) HS E) as (_ & HS0 & ES0 & EJ0).
    assert (St0 : St [] s0) by (split; [eapply Jst_VJ; eauto|exact HS0]).
    destruct (put_ind_facts _ _ _ _ E) as (_ & En0 & _). clear E HJ HS HS0.
    mstep H as u1.
    assert (St1 : St [] s1).
    { destruct (negb (p' =? i_pprio x)); [|apply ret_spec in E as [_ ->]; exact St0].
      mstep E as q. rename Hl2 into Hq. mstep E as q'. rename Hl2 into Hq'. mstep E as qn. rename Hl2 into Hqn. mstep E as u2.
      match type of E0 with put_node ?n _ = _ => set (nd1 := n) in * end.
      assert (St2 : St [] s2).
      { apply (St_requeue j s0 s2 nd nd1 St0); [rewrite (nodeZ_same s s0 j En0); exact Hn|reflexivity|reflexivity|reflexivity|reflexivity|reflexivity| |exact E0].
        unfold nd1. cbn.
        destruct (Conserve2.nthZ_nat _ _ _ Hq) as (kp & Hkp & Hqk). rewrite Hkp, Conserve2.updZ_nat in *.
        destruct (Conserve2.nthZ_nat _ _ _ Hqn) as (kn & Hkn & Hqnk). rewrite Hkn, Conserve2.updZ_nat.
        rewrite (Conserve2.concat_upd_add _ _ _ (qn ++ [i]) i Hqnk); [|rewrite Permutation_app_comm; reflexivity].
        eapply Conserve2.concat_upd_rm; [exact Hqk|]. apply Conserve2.remove_first_perm. exact Hq'. }
      clear E0. destruct (negb (nd_inf nd) && (0 <? numo (n_c nd))); [|apply ret_spec in E as [_ ->]; exact St2].
      mstep E as v. destruct (preempt_victim_none cf j i s2 v s3 Hnp E0) as [-> ->]. apply ret_spec in E as [_ ->]. exact St2. }
    clear E St0.
    mstep H as u3. match type of E with ?m _ = _ => destruct (St_carryB [] m s1 tt s2 ltac:(kv using kb_lem) St1 E) as (St2 & _) end. clear E.
    exact (proj1 (St_carryB [] _ s2 tt s' (kb_decide_class_change cf j i) St2 H)).
  Qed.

  (* ---------- the arrival node: a fresh customer is rejected, baulks, or enters its first node ---------- *)
  Lemma wbr_spec j i ty s s' : write_br_record j i ty s = Ok (tt, s') ->
    exists x r, find_ind i (inds s) = Some x /\ r_id r = i_id x /\ r_type r = ty /\ r_node r = j /\
      inds s' = put_ind_l (x <| i_nrec := i_nrec x + 1 |>) (inds s) /\
      nodes s' = nodes s /\ exit_ids s' = exit_ids s /\ exit_n s' = exit_n s /\ arr s' = arr s /\ log s' = log s ++ [r] /\ now s' = now s.
  Proof.
    intros H. unfold write_br_record in H. mstep H as t0. mstep H as nd. mstep H as x.
    destruct (log_then_bump _ _ _ _ _ H) as (x0 & Hx0 & A). assert (x0 = x) by congruence. subst x0.
    match type of A with context [log s ++ [?r0]] => exists x, r0 end. split; [exact Hf|]. repeat (split; [reflexivity|]). exact A.
  Qed.

  Lemma release_individual_St j i s s' : St [i] s -> NoEntry s i -> NoOwner cf i s ->
    recs_of i (h ++ log s) = [] -> (forall x, find_ind i (inds s) = Some x -> i_nrec x = 0) -> an i = Some j ->
    release_individual cf j i s = Ok (tt, s') -> St [] s'.
  Proof.
    intros HSt HN HO Hfresh Hnrec Han H. unfold release_individual in H.
    mstep H as x. mstep H as nd. mstep H as nc. mstep H as sp.
    destruct (St_carryB [i] _ s sp s0 (kb_sys_population) HSt E) as (St0 & EJ0 & ES0). clear E.
    destruct (rec_VJS s s0 i x EJ0 ES0 Hf) as (x0 & Hx0 & PJ0 & PS0).
    assert (N0 : NoEntry s0 i) by (eapply NoEntry_VJ; eauto). assert (O0 : NoOwner cf i s0) by (eapply NoOwner_VS; eauto).
    assert (Hlog0 : log s0 = log s) by (destruct (VJ_glob _ _ EJ0) as (_ & _ & _ & _ & Q); exact Q).
    assert (Hnrec0 : forall y, find_ind i (inds s0) = Some y -> i_nrec y = 0).
    { intros y Hy. assert (y = x0) by congruence. subst y. unfold fiJ in PJ0. injection PJ0 as _ _ PJ0 _ _. rewrite PJ0. apply Hnrec. exact Hf. }
    clear HSt HN HO.
    (* a baulk / rejection record, then the exit *)
    assert (Hbr : forall ty sa sb sc, (ty = 3 \/ ty = 4) -> St [i] sa -> NoEntry sa i -> NoOwner cf i sa -> log sa = log s ->
              write_br_record j i ty sa = Ok (tt, sb) -> exit_accept i false sb = Ok (tt, sc) -> St [] sc).
    { intros ty sa sb sc Hty [Ja Sa] Na Oa Ela Ew Ex.
      destruct (wbr_spec j i ty sa sb Ew) as (xw & r & Hxw & R1 & R2 & R3 & Ei & En & Ee & Een & Ea & El & Et).
      pose proof (find_ind_id _ _ _ Hxw) as Hidw. assert (Hrid : r_id r = i) by congruence.
      assert (Hrecs : recs_of i (h ++ log sa) = []) by (rewrite Ela; exact Hfresh).
      assert (Jb : Jst an h [i] sb).
      { match type of Ei with _ = put_ind_l ?x' _ => set (xn := x') in * end.
        apply (Jst_log_away an h [i] sa sb i xw xn r Ja (or_introl eq_refl) Na Hxw Hidw Hrid); try assumption.
        - unfold last_of. rewrite Hrecs. discriminate.
        - rewrite R3. intros _. exact Han. }
      assert (Sb : SrvInv cf [i] sb) by (exact (proj1 (SrvInv_keepS cf [i] _ sa tt sb (ks_write_br_record j i ty) (WFx2_Idx _ _ (proj1 Ja)) Sa Ew))).
      assert (Nb : NoEntry sb i) by (intros d0 fr He; apply (entry_nodes sa sb) in He; [exact (Na d0 fr He)|exact En]).
      assert (Ob : NoOwner cf i sb) by (exact (NoOwner_nodes cf i sa sb En Oa)).
      destruct (exit_accept_St i false sb sc (conj Jb Sb) Nb Ob) as (A1 & _); [|exact Ex|exact A1].
      exists r. unfold last_of. rewrite El, app_assoc, (recs_of_snoc_same _ _ _ Hrid), Hrecs. split; [reflexivity|]. right. rewrite R2. exact Hty. }
    (* or the customer is accepted by its first node *)
    assert (Hacc : forall sa sc, St [i] sa -> NoEntry sa i -> NoOwner cf i sa -> log sa = log s -> (forall y, find_ind i (inds sa) = Some y -> i_nrec y = 0) ->
              send_individual cf j i sa = Ok (tt, sc) -> St [] sc).
    { intros sa sc Sta Na Oa Ela Hnr Hm. unfold send_individual in Hm. mstep Hm as u0.
      match type of E with ?m _ = _ => destruct (St_carryB [i] m sa tt s1 ltac:(kv using kb_lem) Sta E) as (St1 & EJ1 & ES1) end.
      mstep Hm as fl0.
      refine (accept_St' _ j i s1 sc St1 (NoEntry_VJ _ _ _ EJ1 Na) (NoOwner_VS cf i _ _ ES1 Oa) _ Hm).
      intros y Hy. assert (Hl1 : log s1 = log s) by (destruct (VJ_glob _ _ EJ1) as (_ & _ & _ & _ & Q); congruence).
      rewrite Hl1. unfold last_of. rewrite Hfresh. split; [exact I|]. split; [|intros _; exact Han].
      pose proof (VJ_find sa s1 i EJ1) as Hv. rewrite Hy in Hv. destruct (find_ind i (inds sa)) as [ya|] eqn:Ea; [|discriminate Hv].
      cbn [option_map] in Hv. unfold fiJ in Hv. injection Hv as _ _ Hv _ _. rewrite Hv. apply Hnr. reflexivity. }
    match type of H with (if ?b then _ else _) _ = _ => destruct b end.
    - mstep H as u1. match goal with E : write_br_record j i ?ty ?sa = Ok (tt, ?sb) |- _ => exact (Hbr ty sa sb s' ltac:(auto) St0 N0 O0 Hlog0 E H) end.
    - mstep H as tabs. mstep H as tab. destruct tab as [tb|].
      + mstep H as u.
        destruct (St_carryB [i] draw_unif s0 u s1 ltac:(kv0) St0 E) as (St1 & EJ1 & ES1). clear E.
        assert (N1 : NoEntry s1 i) by (eapply NoEntry_VJ; eauto). assert (O1 : NoOwner cf i s1) by (eapply NoOwner_VS; eauto).
        assert (Hlog1 : log s1 = log s) by (destruct (VJ_glob _ _ EJ1) as (_ & _ & _ & _ & Q); congruence).
        match type of H with (if ?b then _ else _) _ = _ => destruct b end.
        * mstep H as u1. match goal with E : write_br_record j i ?ty ?sa = Ok (tt, ?sb) |- _ => exact (Hbr ty sa sb s' ltac:(auto) St1 N1 O1 Hlog1 E H) end.
        * apply (Hacc s1 s' St1 N1 O1 Hlog1); [|exact H]. intros y Hy.
          pose proof (VJ_find s0 s1 i EJ1) as Hv. rewrite Hy in Hv. destruct (find_ind i (inds s0)) as [ya|] eqn:Ea; [|discriminate Hv].
          cbn [option_map] in Hv. unfold fiJ in Hv. injection Hv as _ _ Hv _ _. rewrite Hv. apply Hnrec0. reflexivity.
      + exact (Hacc s0 s' St0 N0 O0 Hlog0 Hnrec0 H).
  Qed.

  Lemma route_of_same i c r s s' : route_of cf i c s = Ok (r, s') -> s' = s.
  Proof.
    unfold route_of. intros H. mstep H as rt. destruct rt as [rs|routes|routes al ch].
    - apply ret_spec in H as [_ ->]. reflexivity.
    - destruct routes; [discriminate H|]. mstep H as r0. apply ret_spec in H as [_ ->]. reflexivity.
    - destruct routes; [discriminate H|]. mstep H as r0. apply ret_spec in H as [_ ->]. reflexivity.
  Qed.
  Lemma batch_loop_St : forall n j c p s s', St [] s -> (forall i, a_created (arr s) < i -> an i = Some j) ->
    batch_loop cf n j c p s = Ok (tt, s') -> St [] s'.
  Proof.
    induction n as [|n IH]; intros j c p s s' HSt Han H; cbn [batch_loop] in H; [apply ret_spec in H as [_ ->]; exact HSt|].
    mstep H as u0. unfold modify in E. injection E as <-.
    set (s1 := s <| arr := arr s <| a_created := a_created (arr s) + 1 |> |>) in *.
    mstep H as i0. change (a_created (arr s1)) with (a_created (arr s) + 1) in H. set (i := a_created (arr s) + 1) in *.
    mstep H as u1. assert (s0 = s1) by (destruct (1 <=? j); [apply ret_spec in E as [_ ->]; reflexivity|discriminate E]). subst s0. clear E.
    mstep H as nd. mstep H as r. apply route_of_same in E. subst s0.
    mstep H as u2. unfold put_ind in E. apply modify_spec in E. set (xn := new_ind i c p r) in *.
    destruct HSt as [(A & B & C & D) HS].
    assert (Hnone : find_ind i (inds s) = None).
    { destruct (find_ind i (inds s)) as [z|] eqn:Ez; [|reflexivity]. pose proof (WFx2_rec_le s i z A Ez). unfold i in *. lia. }
    destruct (Conserve2.spawn_spec s s1 xn A eq_refl eq_refl) as [W4 X4]. rewrite <- E in W4, X4. change (i_id xn) with i in W4.
    assert (Hfo : forall y, y <> i -> find_ind y (inds s0) = find_ind y (inds s)).
    { intros y Hy. rewrite E. cbn. rewrite find_put_other by (change (i_id xn) with i; exact Hy). reflexivity. }
    assert (Hfi : find_ind i (inds s0) = Some xn) by (rewrite E; cbn; change i with (i_id xn) at 1; apply find_put_same).
    assert (Hnodes : nodes s0 = nodes s) by (rewrite E; reflexivity).
    assert (Hlog : log s0 = log s) by (rewrite E; reflexivity).
    assert (St4 : St [i] s0).
    { split; [split; [exact W4|split; [|split]]|].
      - unfold JI in *. rewrite Hlog. apply (JH_mono an _ s s0 B); [intros k y; apply (at_node_nodes s s0); exact Hnodes| |rewrite E; reflexivity|rewrite E; cbn; lia].
        intros k y Hk. apply (at_node_nodes s s0) in Hk; [|exact Hnodes]. pose proof (WFx2_at_le s k y A Hk). rewrite Hfo; [reflexivity|unfold i; lia].
      - destruct C as [C1 C2]. constructor.
        + intros d0 fr y He. apply (entry_nodes s s0) in He; [|exact Hnodes]. destruct (C1 d0 fr y He) as (z & Hz & P). exists z.
          rewrite Hfo; [auto|]. intros ->. congruence.
        + intros d0 n0 Hnn. rewrite (nodeZ_same s s0 d0 Hnodes) in Hnn. exact (C2 d0 n0 Hnn).
      - exact (NoInt_same s s0 Hnodes D).
      - destruct HS as [S1 S2 S3 S4]. constructor; [| | |intros Hp y z Hy; destruct (Z.eq_dec y i) as [->|Hne];
          [assert (z = xn) by congruence; subst z; reflexivity|rewrite Hfo in Hy by exact Hne; exact (S4 Hp y z Hy)]].
        + intros k n0 Hnn. rewrite (nodeZ_same s s0 k Hnodes) in Hnn. exact (S1 k n0 Hnn).
        + intros k n0 sv c0 Hnn Hsl Hin Hc0. rewrite (nodeZ_same s s0 k Hnodes) in Hnn. destruct (S2 k n0 sv c0 Hnn Hsl Hin Hc0) as (z & Hz & P).
          exists z. rewrite Hfo; [auto|]. intros ->. congruence.
        + intros y z Hy Hny Hb Hsv. destruct (Z.eq_dec y i) as [->|Hne]; [exfalso; apply Hny; left; reflexivity|].
          rewrite Hfo in Hy by exact Hne. destruct (S3 y z Hy ltac:(intros []) Hb Hsv) as (k & n0 & P1 & P2 & P3). exists k, n0. rewrite (nodeZ_same s s0 k Hnodes). auto. }
    assert (N4 : NoEntry s0 i).
    { intros d0 fr He. apply (entry_nodes s s0) in He; [|exact Hnodes]. destruct (l_ent _ C d0 fr i He) as (z & Hz & _). congruence. }
    assert (O4 : NoOwner cf i s0).
    { intros k n0 sv Hnn Hsl Hin Hc0. rewrite (nodeZ_same s s0 k Hnodes) in Hnn. destruct (si_own _ _ _ HS k n0 sv i Hnn Hsl Hin Hc0) as (z & Hz & _). congruence. }
    clear E.
    mstep H as u3.
    assert (Hfresh : recs_of i (h ++ log s0) = []).
    { rewrite Hlog. apply recs_of_none. intros r0 Hr. pose proof (j_ids _ _ _ B r0 Hr). unfold i. lia. }
    assert (St5 : St [] s2).
    { apply (release_individual_St j i s0 s2 St4 N4 O4 Hfresh); [|apply Han; unfold i; lia|exact E].
      intros y Hy. assert (y = xn) by congruence. subst y. reflexivity. }
    destruct (Conserve2.tr_release_individual cf j i [] s0 tt s2 I W4 E) as [_ [_ Hle]].
    apply (IH j c p s2 s' St5); [|exact H]. intros i' Hi'. apply Han. destruct X4 as [_ Hle4]. cbn in Hle, Hle4. lia.
  Qed.

  Lemma arrival_have_event_St s s' : St [] s -> (forall i, a_created (arr s) < i -> an i = Some (a_next_node (arr s))) ->
    arrival_have_event cf s = Ok (tt, s') -> St [] s'.
  Proof.
    intros HSt Han H. unfold arrival_have_event in H. mstep H as a. mstep H as b.
    destruct (St_carryB [] draw_batch s b s0 ltac:(kv0) HSt E) as (St0 & EJ0 & _). clear E.
    mstep H as u0. assert (s1 = s0) by (destruct (b <? 0); [discriminate E|apply ret_spec in E as [_ ->]; reflexivity]). subst s1. clear E.
    mstep H as p. mstep H as u1.
    assert (St1 : St [] s1).
    { refine (batch_loop_St _ _ _ _ s0 s1 St0 _ E). intros i Hi. apply Han. destruct (VJ_glob _ _ EJ0) as (_ & _ & Q & _). lia. }
    clear E. mstep H as ia. destruct (St_carryB [] draw_arr s1 ia s2 ltac:(kv0) St1 E) as (St2 & _). clear E.
    mstep H as a'. mstep H as row. mstep H as old. mstep H as u2.
    match type of E with ?m _ = _ => destruct (St_carryB [] m s2 tt s3 ltac:(kv0) St2 E) as (St3 & _) end. clear E.
    exact (proj1 (St_carryB [] _ s3 tt s' kb_find_next_event_date St3 H)).
  Qed.
End Walk.

(* ====================================================================================================================
   8. Who acts next: the customers a node names for its next end of service / renege are not blocked
   ==================================================================================================================== *)
Definition PickN (cf : config) (s : sim) (j : Z) (nd : node) : Prop :=
  (forall i x, In i (n_next_inds nd) -> find_ind i (inds s) = Some x ->
    (n_next_type nd = 0 -> i_blocked x = false /\ i_node x = Some j) /\
    (n_next_type nd = 2 -> i_blocked x = false /\ i_server x = None)) /\
  (* a class change while waiting is only ever scheduled when the configuration has class-change times *)
  (n_next_type nd = 3 -> cf_dyn cf = true).
Definition PickOK (cf : config) (s : sim) : Prop := forall j nd, nodeZ s j = Some nd -> PickN cf s j nd.

Lemma scan_servers_in : forall l best acc c, In c (snd (scan_servers l best acc)) ->
  In c acc \/ exists sv, In sv l /\ sv_cust sv = Some c /\ sv_next_end sv <> None.
Proof.
  induction l as [|sv r IH]; intros best acc c H; cbn [scan_servers] in H; [left; exact H|].
  destruct (date_lt (sv_next_end sv) best) eqn:E1.
  - destruct (IH _ _ _ H) as [Hin|(t & Ht & P)]; [|right; exists t; split; [right; exact Ht|exact P]].
    right. exists sv. split; [left; reflexivity|]. destruct (sv_cust sv) as [c0|]; [|destruct Hin]. destruct Hin as [->|[]]. split; [reflexivity|].
    destruct (sv_next_end sv); [discriminate|discriminate E1].
  - destruct (date_eqb (sv_next_end sv) best && match best with Some _ => true | None => false end) eqn:E2.
    + destruct (IH _ _ _ H) as [Hin|(t & Ht & P)]; [|right; exists t; split; [right; exact Ht|exact P]].
      apply in_app_or in Hin as [Hin|Hin]; [left; exact Hin|]. right. exists sv. split; [left; reflexivity|].
      destruct (sv_cust sv) as [c0|]; [|destruct Hin]. destruct Hin as [->|[]]. split; [reflexivity|].
      apply andb_true_iff in E2 as [E2 E3]. destruct best; [|discriminate E3]. destruct (sv_next_end sv); [discriminate|discriminate E2].
    + destruct (IH _ _ _ H) as [Hin|(t & Ht & P)]; [left; exact Hin|right; exists t; split; [right; exact Ht|exact P]].
Qed.
Lemma scan_inds_in t il : forall q best acc c, In c (snd (scan_inds t q il best acc)) ->
  In c acc \/ (In c q /\ exists x, find_ind c il = Some x /\ i_blocked x = false).
Proof.
  induction q as [|i r IH]; intros best acc c H; cbn [scan_inds] in H; [left; exact H|].
  assert (Hrec : forall b a, In c (snd (scan_inds t r il b a)) -> In c a \/ (In c (i :: r) /\ exists x, find_ind c il = Some x /\ i_blocked x = false)).
  { intros b a Hc. destruct (IH _ _ _ Hc) as [Hin|[Hin P]]; [left; exact Hin|right; split; [right; exact Hin|exact P]]. }
  destruct (find_ind i il) as [x|] eqn:Ef; [|exact (Hrec _ _ H)].
  destruct (i_send x) as [e|]; [|exact (Hrec _ _ H)].
  destruct (negb (i_blocked x) && (t <=? e)) eqn:Eb; [|exact (Hrec _ _ H)].
  apply andb_true_iff in Eb as [Eb _]. apply negb_true_iff in Eb.
  assert (Hme : In i (i :: r) /\ exists x0, find_ind i il = Some x0 /\ i_blocked x0 = false) by (split; [left; reflexivity|eauto]).
  destruct (date_lt (Some e) best).
  - destruct (Hrec _ _ H) as [[->|[]]|P]; [right; exact Hme|right; exact P].
  - destruct (date_eqb (Some e) best); [|exact (Hrec _ _ H)].
    destruct (Hrec _ _ H) as [Hin|P]; [|right; exact P]. apply in_app_or in Hin as [Hin|[->|[]]]; [left; exact Hin|right; exact Hme].
Qed.
Lemma scan_ren_in il : forall q best acc b l c, scan_ren q il best acc = Some (b, l) -> In c l ->
  In c acc \/ (In c q /\ exists x, find_ind c il = Some x /\ i_server x = None).
Proof.
  induction q as [|i r IH]; intros best acc b l c H Hc; cbn [scan_ren] in H; [injection H as <- <-; left; exact Hc|].
  assert (Hrec : forall b0 a, scan_ren r il b0 a = Some (b, l) -> In c a \/ (In c (i :: r) /\ exists x, find_ind c il = Some x /\ i_server x = None)).
  { intros b0 a Hs. destruct (IH _ _ _ _ _ Hs Hc) as [Hin|[Hin P]]; [left; exact Hin|right; split; [right; exact Hin|exact P]]. }
  destruct (find_ind i il) as [x|] eqn:Ef; [|discriminate H].
  destruct (i_ren x) as [| |z]; [discriminate H|exact (Hrec _ _ H)|].
  destruct (i_server x) eqn:Es.
  - rewrite !andb_false_r in H. exact (Hrec _ _ H).
  - rewrite !andb_true_r in H.
    assert (Hme : In i (i :: r) /\ exists x0, find_ind i il = Some x0 /\ i_server x0 = None) by (split; [left; reflexivity|eauto]).
    destruct (date_lt (Some z) best).
    + destruct (Hrec _ _ H) as [[->|[]]|P]; [right; exact Hme|right; exact P].
    + destruct (date_eqb (Some z) best); [|exact (Hrec _ _ H)].
      destruct (Hrec _ _ H) as [Hin|P]; [|right; exact P]. apply in_app_or in Hin as [Hin|[->|[]]]; [left; exact Hin|right; exact Hme].
Qed.
Lemma dne_in : forall cands best, decide_next_event cands best = best \/
  (In (decide_next_event cands best) cands /\ fst (snd (decide_next_event cands best)) <> None).
Proof.
  induction cands as [|c r IH]; intros best; cbn [decide_next_event]; [left; reflexivity|].
  destruct (date_lt (fst (snd c)) (fst (snd best))) eqn:Ed.
  - destruct (IH c) as [E|[Hin Hne]]; [right; split; [left; symmetry; exact E|rewrite E; destruct (fst (snd c)); [discriminate|discriminate Ed]]|right; split; [right; exact Hin|exact Hne]].
  - destruct (IH best) as [E|[Hin Hne]]; [left; exact E|right; split; [right; exact Hin|exact Hne]].
Qed.

Section Pick.
  Variable cf : config.
  Hypothesis Hsc : scope2 cf = true.

  Lemma une_pick j s s' : Ctx [] s -> SrvInv cf [] s -> update_next_event_date cf j s = Ok (tt, s') ->
    inds s' = inds s /\ (forall k, k <> j -> nodeZ s' k = nodeZ s k) /\ (forall nd', nodeZ s' j = Some nd' -> PickN cf s' j nd').
  Proof.
    intros HC HS H. unfold update_next_event_date in H. mstep H as nd. mstep H as nc. mstep H as t0. mstep H as il.
    pose proof (Ctx_Idx _ _ HC _ _ Hn) as Hidn.
    set (inf := nd_inf nd) in *.
    set (es := if nc_slotted nc || inf then scan_inds (now s) (all_individuals nd) (inds s) None [] else scan_servers (n_servers nd) None []) in *.
    mstep H as rn.
    assert (Hrn : s0 = s /\ forall c, In c (snd rn) -> exists x, find_ind c (inds s) = Some x /\ i_server x = None /\ i_blocked x = false).
    { destruct (negb inf && nc_reneging nc) eqn:Ec.
      - apply lift_spec in E as [-> Hl]. split; [reflexivity|]. intros c Hcin. destruct rn as [b l]. cbn in Hcin.
        destruct (scan_ren_in _ _ _ _ _ _ c Hl Hcin) as [[]|[Hq (x & Hx & Hsv)]]. exists x. split; [exact Hx|]. split; [exact Hsv|].
        destruct (i_blocked x) eqn:Eb; [|reflexivity]. exfalso.
        destruct (proj1 (proj2 HC) j c (ex_intro _ nd (conj Hn Hq))) as (x0 & Hx0 & Hk). assert (x0 = x) by congruence. subst x0.
        destruct (si_blk _ _ _ HS c x Hx ltac:(intros []) Eb Hsv) as (k & n & P1 & P2 & [P3|P3]).
        + assert (k = j) by congruence. subst k. assert (n = nd) by congruence. subst n. apply andb_true_iff in Ec as [Ec _]. apply negb_true_iff in Ec. unfold inf in Ec. congruence.
        + assert (k = j) by congruence. subst k. unfold slot_of in P3. rewrite Hc in P3.
          pose proof (scope2_nc _ _ _ Hsc Hc) as Hs. unfold scope_nc in Hs. apply andb_true_iff in Hs as [_ Hs]. unfold nc_slotted in P3.
          destruct (nc_srv nc); try discriminate P3. apply andb_true_iff in Hs as [Hs _]. apply andb_true_iff in Hs as [_ Hs]. apply negb_true_iff in Hs.
          apply andb_true_iff in Ec as [_ Ec]. congruence.
      - apply ret_spec in E as [-> ->]. split; [reflexivity|]. intros c []. }
    destruct Hrn as [-> Hrn]. clear E.
    assert (Hes : forall c, In c (snd es) -> forall x, find_ind c (inds s) = Some x -> i_blocked x = false /\ i_node x = Some j).
    { intros c Hcin x Hx. unfold es in Hcin. destruct (nc_slotted nc || inf) eqn:Ec.
      - destruct (scan_inds_in _ _ _ _ _ c Hcin) as [[]|[Hq (x0 & Hx0 & Hb)]]. assert (x0 = x) by congruence. subst x0. split; [exact Hb|].
        destruct (proj1 (proj2 HC) j c (ex_intro _ nd (conj Hn Hq))) as (x0 & Hx0' & Hk). congruence.
      - destruct (scan_servers_in _ _ _ c Hcin) as [[]|(sv & Hsv & Hcu & Hne)]. apply orb_false_iff in Ec as [Ec _].
        assert (Hsl : slot_of cf j = false) by (unfold slot_of; rewrite Hc; exact Ec).
        destruct (si_own _ _ _ HS j nd sv c Hn Hsl Hsv Hcu) as (x0 & Hx0 & _ & P2 & P3). assert (x0 = x) by congruence. subst x0. split; [apply P3; exact Hne|exact P2]. }
    (* the node that is written back *)
    assert (Hfin : forall d l ty, (ty = 0 -> l = snd es) -> (ty = 2 -> l = snd rn) -> (ty = 3 -> cf_dyn cf = true) ->
              put_node (nd <| n_next_date := d |> <| n_next_inds := l |> <| n_next_type := ty |>) s = Ok (tt, s') ->
              inds s' = inds s /\ (forall k, k <> j -> nodeZ s' k = nodeZ s k) /\ (forall nd', nodeZ s' j = Some nd' -> PickN cf s' j nd')).
    { intros d l ty H0 H2 H3 Hp. set (nd1 := nd <| n_next_date := d |> <| n_next_inds := l |> <| n_next_type := ty |>) in *.
      destruct (put_node_facts _ _ _ _ Hp) as (Es & Ei & _).
      assert (En : nodes s' = updZ (nodes s) (n_id nd1 - 1) nd1) by (rewrite Es; reflexivity).
      assert (Hn' : nodeZ s (n_id nd1) = Some nd) by (change (n_id nd1) with (n_id nd); rewrite Hidn; exact Hn).
      assert (HZ : forall k, nodeZ s' k = if k =? j then Some nd1 else nodeZ s k).
      { intros k. rewrite (nodeZ_upd s s' nd1 nd k En Hn'). change (n_id nd1) with (n_id nd). rewrite Hidn. reflexivity. }
      split; [exact Ei|]. split.
      - intros k Hk. rewrite HZ. apply Z.eqb_neq in Hk. rewrite Hk. reflexivity.
      - intros nd' Hnn. rewrite HZ, Z.eqb_refl in Hnn. injection Hnn as <-. split; [|intros Hty; cbn in Hty; exact (H3 Hty)].
        intros c x Hcin Hx. rewrite Ei in Hx. cbn in Hcin. split.
        + intros Hty. cbn in Hty. rewrite (H0 Hty) in Hcin. exact (Hes c Hcin x Hx).
        + intros Hty. cbn in Hty. rewrite (H2 Hty) in Hcin. destruct (Hrn c Hcin) as (x0 & Hx0 & P1 & P2). assert (x0 = x) by congruence. subst x0. auto. }
    destruct (nc_reneging nc || cf_dyn cf || nc_sched nc).
    - match type of H with context [decide_next_event ?cands ?best] => destruct (dne_in cands best) as [Hd|[Hd Hne]]; destruct (decide_next_event cands best) as [ty [d l]] end.
      + injection Hd as -> -> ->. apply (Hfin None [] 5); [intros Hx; discriminate Hx|intros Hx; discriminate Hx|intros Hx; discriminate Hx|exact H].
      + cbn in Hne. apply (fun A B C => Hfin d l ty A B C H).
        * intros ->. apply in_app_or in Hd as [Hd|Hd].
          -- destruct (nc_srv nc); cbn in Hd; [destruct Hd|destruct Hd as [Hd|[]]; discriminate Hd|destruct Hd as [Hd|[]]; discriminate Hd].
          -- destruct Hd as [Hd|[Hd|[Hd|[]]]]; [injection Hd as Hd; rewrite Hd; reflexivity|discriminate Hd|discriminate Hd].
        * intros ->. apply in_app_or in Hd as [Hd|Hd].
          -- destruct (nc_srv nc); cbn in Hd; [destruct Hd|destruct Hd as [Hd|[]]; discriminate Hd|destruct Hd as [Hd|[]]; discriminate Hd].
          -- destruct Hd as [Hd|[Hd|[Hd|[]]]]; [discriminate Hd|discriminate Hd|injection Hd as Hd; rewrite Hd; reflexivity].
        * intros ->. apply in_app_or in Hd as [Hd|Hd].
          -- destruct (nc_srv nc); cbn in Hd; [destruct Hd|destruct Hd as [Hd|[]]; discriminate Hd|destruct Hd as [Hd|[]]; discriminate Hd].
          -- destruct Hd as [Hd|[Hd|[Hd|[]]]]; [discriminate Hd| |discriminate Hd].
             destruct (cf_dyn cf); [reflexivity|]. cbn in Hd. injection Hd as Hd _. congruence.
    - apply (Hfin (fst es) (snd es) 0); [intros _; reflexivity|intros Hx; discriminate Hx|intros Hx; discriminate Hx|exact H].
  Qed.
End Pick.

Definition PickAt (cf : config) (s : sim) (k : Z) : Prop := forall nd, nodeZ s k = Some nd -> PickN cf s k nd.
Lemma update_all_pick cf : scope2 cf = true -> forall js s s', Ctx [] s -> SrvInv cf [] s -> update_all cf js s = Ok (tt, s') ->
  forall k, (In k js \/ PickAt cf s k) -> PickAt cf s' k.
Proof.
  intros Hsc. induction js as [|j r IH]; intros s s' HC HS H k Hk; cbn [update_all] in H.
  - apply ret_spec in H as [_ ->]. destruct Hk as [[]|Hk]. exact Hk.
  - mstep H as u0. destruct (une_pick cf Hsc j s s0 HC HS E) as (Ei & Hoth & Hj).
    destruct (carryB cf [] _ s tt s0 (kb_update_next_event_date cf j) HC HS E) as (HC0 & HS0 & _ & _).
    apply (IH s0 s' HC0 HS0 H k). destruct (Z.eq_dec k j) as [->|Hne]; [right; exact Hj|].
    destruct Hk as [[Hk|Hk]|Hk]; [congruence|left; exact Hk|right].
    intros nd Hn. rewrite (Hoth k Hne) in Hn. destruct (Hk nd Hn) as [Hk1 Hk2]. split; [|exact Hk2]. intros i x Hi Hx. rewrite Ei in Hx. exact (Hk1 i x Hi Hx).
Qed.

Lemma choice_uniform_dr {A} (l : list A) x s s' : choice_uniform l s = Ok (x, s') -> exists d, s' = s <| dr := d |>.
Proof.
  unfold choice_uniform. intros H. mstep H as u. apply lift_spec in H as [-> _].
  unfold draw_unif in E. destruct (d_unif (dr s)); [discriminate|]. injection E as _ <-. eexists. reflexivity.
Qed.
Lemma fnan_spec s s' : find_next_active_node s = Ok (tt, s') ->
  nodes s' = nodes s /\ inds s' = inds s /\ log s' = log s /\ exit_ids s' = exit_ids s /\ exit_n s' = exit_n s /\ arr s' = arr s.
Proof.
  unfold find_next_active_node. intros H. mstep H as cur.
  destruct (scan_active 0 (a_next_date (arr s) :: map n_next_date (nodes s)) None []) as [d cands].
  mstep H as k.
  assert (Hs : exists d0, s0 = s <| dr := d0 |>).
  { destruct cands as [|a [|b r]]; [discriminate E|apply ret_spec in E as [_ ->]; exists (dr s); destruct s; reflexivity|eapply choice_uniform_dr; eauto]. }
  destruct Hs as [d0 ->]. unfold modify in H. injection H as <-. repeat split; reflexivity.
Qed.

(* ====================================================================================================================
   9. The theorems
   ==================================================================================================================== *)
(* the invariant at event boundaries *)
Definition Jrn2 (cf : config) (an : Z -> option Z) (s : sim) (h : list rec) : Prop :=
  Conserve2.WFx2 [] s /\ JH an h s /\ Lq s /\ NoInt s /\ SrvInv cf [] s /\ PickOK cf s.

(* the invariant only looks at nodes, records, exit list and counter, and the creation counter *)
Lemma Jrn2_same cf an s s' h : nodes s' = nodes s -> inds s' = inds s -> exit_ids s' = exit_ids s -> exit_n s' = exit_n s ->
  a_created (arr s') = a_created (arr s) -> Jrn2 cf an s h -> Jrn2 cf an s' h.
Proof.
  intros En Ei Ee Een Ec (A & B & C & D & E & F).
  assert (HZ : forall k, nodeZ s' k = nodeZ s k) by (intros k; apply nodeZ_same; exact En).
  split; [|split; [|split; [|split; [|split]]]].
  - eapply Conserve2.WFx2_shape; [|exact A]. unfold Conserve2.shp. rewrite En, Ei, Ee, Een, Ec. reflexivity.
  - apply (JH_mono an h s s' B); [intros k y; apply (at_node_nodes s s'); exact En|intros; rewrite Ei; reflexivity|exact Ee|lia].
  - exact (Lq_same s s' En Ei C).
  - exact (NoInt_same s s' En D).
  - destruct E as [S1 S2 S3 S4]. constructor; [| | |intros Hp y z Hy; rewrite Ei in Hy; exact (S4 Hp y z Hy)].
    + intros j nd Hn. rewrite HZ in Hn. exact (S1 j nd Hn).
    + intros j nd sv c Hn. rewrite HZ in Hn. rewrite Ei. exact (S2 j nd sv c Hn).
    + intros i x Hx. rewrite Ei in Hx. intros A1 A2 A3. destruct (S3 i x Hx A1 A2 A3) as (k & nd & P1 & P2 & P3). exists k, nd. rewrite HZ. auto.
  - intros j nd Hn. rewrite HZ in Hn. destruct (F j nd Hn) as [F1 F2]. split; [|exact F2]. intros i x Hi Hx. rewrite Ei in Hx. exact (F1 i x Hi Hx).
Qed.

Section Event.
  Variable cf : config.
  Hypothesis Hsc : scope2 cf = true.

  Lemma node_have_event_St an h j s s' : St cf an h [] s -> PickOK cf s -> node_have_event cf j s = Ok (tt, s') -> St cf an h [] s'.
  Proof.
    intros HSt HP H. unfold node_have_event in H. mstep H as nd.
    destruct (n_next_type nd =? 0) eqn:E0.
    { apply Z.eqb_eq in E0. apply (finish_service_St cf an h Hsc j s s' HSt); [|exact H].
      intros nd0 i x Hn0 Hi Hx. assert (nd0 = nd) by congruence. subst nd0. exact (proj1 (proj1 (HP j nd Hn) i x Hi Hx) E0). }
    destruct (n_next_type nd =? 1); [exact (change_shift_St cf an h Hsc j s s' HSt H)|].
    destruct (n_next_type nd =? 2) eqn:E2.
    { apply Z.eqb_eq in E2. apply (renege_St cf an h Hsc j s s' HSt); [|exact H].
      intros nd0 i x Hn0 Hi Hx. assert (nd0 = nd) by congruence. subst nd0. exact (proj2 (proj1 (HP j nd Hn) i x Hi Hx) E2). }
    destruct (n_next_type nd =? 3) eqn:E3.
    { apply Z.eqb_eq in E3. pose proof (proj2 (HP j nd Hn) E3) as Hdyn.
      assert (Hnp : preempts cf = false) by (destruct (preempts cf) eqn:Ep; [|reflexivity]; pose proof (proj2 (scope2_pre cf Hsc Ep)); congruence).
      exact (ccww_St cf an h j s s' Hnp HSt H). }
    destruct (n_next_type nd =? 4); [exact (slotted_service_St cf an h Hsc j s s' HSt H)|].
    apply ret_spec in H as [_ ->]. exact HSt.
  Qed.

  (* one event: the history is extended by the records of the event *)
  Lemma event_step_Jrn2 an h s s' : Jrn2 cf an s h ->
    (next_active s = 0 -> forall i, a_created (arr s) < i -> an i = Some (a_next_node (arr s))) ->
    event_step cf s = Ok (tt, s') -> Jrn2 cf an s' (h ++ log s').
  Proof.
    intros HJ Han H. unfold event_step in H. mstep H as u0. unfold modify in E. injection E as <-.
    set (s0 := s <| log := [] |>) in *.
    assert (HJ0 : Jrn2 cf an s0 h) by (apply (Jrn2_same cf an s s0 h); try reflexivity; exact HJ).
    destruct HJ0 as (A & B & C & D & E & F).
    assert (St0 : St cf an h [] s0).
    { split; [split; [exact A|split; [|split; [exact C|exact D]]]|exact E]. unfold JI. change (log s0) with (@nil rec). rewrite app_nil_r. exact B. }
    mstep H as k. mstep H as u1.
    assert (St1 : St cf an h [] s1).
    { destruct (next_active s0 =? 0) eqn:Ek.
      - apply Z.eqb_eq in Ek. apply (arrival_have_event_St cf an h Hsc s0 s1 St0); [|exact E0]. exact (Han Ek).
      - exact (node_have_event_St an h _ s0 s1 St0 F E0). }
    clear E0. mstep H as ns. mstep H as u2.
    destruct (St_carryB cf an h [] _ s1 tt s2 (kb_update_all cf _) St1 E0) as (St2 & EJ2 & _).
    assert (P2 : PickOK cf s2).
    { intros j nd' Hn'. destruct (VJ_node _ _ _ _ EJ2 Hn') as (nd & Hn & Eid & _).
      pose proof (WFx2_Idx _ _ (proj1 (proj1 St1)) _ _ Hn) as Hidn.
      apply (update_all_pick cf Hsc _ s1 s2 (St_Ctx cf an h [] s1 St1) (proj2 St1) E0 j); [|exact Hn'].
      left. rewrite <- Hidn. apply in_map. eapply nthZ_In; exact Hn. }
    clear E0.
    destruct (fnan_spec _ _ H) as (En & Ei & El & Ee & Een & Ea).
    apply (Jrn2_same cf an s2 s' (h ++ log s')); [exact En|exact Ei|exact Ee|exact Een|rewrite Ea; reflexivity|].
    destruct St2 as [(A2 & B2 & C2 & D2) E2]. rewrite El. split; [exact A2|]. split; [exact B2|]. split; [exact C2|]. split; [exact D2|]. split; [exact E2|exact P2].
  Qed.
End Event.

(* how the ghost is read off the run: the customers created by an arrival event (next_active = 0) of state s are those
   with an identifier above the creation counter of s, and they arrive at the node the arrival node had chosen *)
Definition an_step (s : sim) (an : Z -> option Z) : Z -> option Z :=
  fun i => if (next_active s =? 0) && (a_created (arr s) <? i) then Some (a_next_node (arr s)) else an i.
Lemma an_step_old s an i : i <= a_created (arr s) -> an_step s an i = an i.
Proof. intros H. unfold an_step. destruct (a_created (arr s) <? i) eqn:E; [apply Z.ltb_lt in E; lia|]. rewrite andb_false_r. reflexivity. Qed.
Lemma an_step_new s an i : next_active s = 0 -> a_created (arr s) < i -> an_step s an i = Some (a_next_node (arr s)).
Proof. intros H0 H. unfold an_step. rewrite H0. apply Z.ltb_lt in H. rewrite H. reflexivity. Qed.

(* the invariant only looks at the ghost of customers that exist *)
Lemma JH_an_ext an an' H s : Conserve2.WFx2 [] s -> (forall i, i <= a_created (arr s) -> an' i = an i) -> JH an H s -> JH an' H s.
Proof.
  intros HW He [A B C F D]. constructor.
  - intros k i Hk. destruct (A k i Hk) as (x & Hx & Gn & Gl & Gc & Ga). exists x. split; [exact Hx|].
    split; [exact Gn|]. split; [exact Gl|]. split; [exact Gc|]. intros E. rewrite He; [exact (Ga E)|].
    destruct (Conserve2.WFx2_means s HW) as (HP & _). assert (Hin : In i (zseq 1 (Z.to_nat (a_created (arr s))))).
    { eapply Permutation_in; [exact HP|]. unfold Conserve2.ids_of. apply in_or_app. left. destruct Hk as (nd & Hn & Hin).
      unfold Conserve2.ids_in_nodes. apply in_concat. exists (all_individuals nd). split; [apply in_map; eapply nthZ_In; exact Hn|exact Hin]. }
    apply zseq_In in Hin. lia.
  - exact B.
  - exact C.
  - intros i r l E. rewrite He; [exact (F i r l E)|].
    assert (Hin : In r (recs_of i H)) by (rewrite E; left; reflexivity). apply recs_of_In in Hin as [Hin <-]. exact (D r Hin).
  - exact D.
Qed.

(* T2 for C03 on the stage-2 engine, one event: the history is extended by the records of the event *)
Theorem event_step_jrn2 cf an s s' h : scope2 cf = true -> Jrn2 cf an s h -> event_step cf s = Ok (tt, s') ->
  Jrn2 cf (an_step s an) s' (h ++ log s').
Proof.
  intros Hsc (A & B & C & D & E & F) H.
  apply (event_step_Jrn2 cf Hsc (an_step s an) h s s'); [|intros H0 i Hi; apply an_step_new; assumption|exact H].
  split; [exact A|]. split; [|auto]. apply (JH_an_ext an _ _ _ A); [|exact B]. intros i Hi. apply an_step_old. exact Hi.
Qed.

(* any number of events, each with its own draws, accumulating the history (and the ghost) *)
Fixpoint run_hist (cf : config) (s : sim) (h : list rec) (an : Z -> option Z) (ds : list draws) : res (sim * list rec * (Z -> option Z)) :=
  match ds with
  | [] => Ok (s, h, an)
  | d :: r => match event_step cf (s <| dr := d |>) with
              | Ok (_, s1) => run_hist cf s1 (h ++ log s1) (an_step s an) r
              | Err e => Err e
              | OutOfFuel => OutOfFuel
              end
  end.
Lemma run_hist_many cf : forall ds s h an s' h' an', run_hist cf s h an ds = Ok (s', h', an') -> run_many cf s ds = Ok s'.
Proof.
  induction ds as [|d r IH]; intros s h an s' h' an' H; cbn [run_hist run_many] in *; [inversion H; reflexivity|].
  destruct (event_step cf (s <| dr := d |>)) as [[u s1]| |]; try discriminate. eapply IH; eauto.
Qed.
Lemma run_many_hist cf : forall ds s h an s', run_many cf s ds = Ok s' -> exists h' an', run_hist cf s h an ds = Ok (s', h', an').
Proof.
  induction ds as [|d r IH]; intros s h an s' H; cbn [run_hist run_many] in *; [inversion H; eauto|].
  destruct (event_step cf (s <| dr := d |>)) as [[u s1]| |]; try discriminate. eapply IH; eauto.
Qed.
Lemma run_hist_grows cf : forall ds s h an s' h' an', run_hist cf s h an ds = Ok (s', h', an') -> exists t, h' = h ++ t.
Proof.
  induction ds as [|d r IH]; intros s h an s' h' an' H; cbn [run_hist] in *; [inversion H; exists []; rewrite app_nil_r; reflexivity|].
  destruct (event_step cf (s <| dr := d |>)) as [[u s1]| |]; try discriminate.
  destruct (IH _ _ _ _ _ _ H) as [t ->]. exists (log s1 ++ t). rewrite app_assoc. reflexivity.
Qed.
Lemma Jrn2_dr cf an s h d : Jrn2 cf an s h -> Jrn2 cf an (s <| dr := d |>) h.
Proof. apply Jrn2_same; reflexivity. Qed.

Theorem run_hist_jrn2 cf : scope2 cf = true -> forall ds s h an s' h' an', Jrn2 cf an s h -> run_hist cf s h an ds = Ok (s', h', an') -> Jrn2 cf an' s' h'.
Proof.
  intros Hsc. induction ds as [|d r IH]; intros s h an s' h' an' HJ H; cbn [run_hist] in H; [injection H as <- <- <-; exact HJ|].
  destruct (event_step cf (s <| dr := d |>)) as [[u s1]| |] eqn:E; try discriminate. destruct u.
  eapply IH; [|exact H]. exact (event_step_jrn2 cf an _ s1 h Hsc (Jrn2_dr _ _ _ _ d HJ) E).
Qed.
(* the same for Codec2.run_many: the final state satisfies the invariant for the accumulated history *)
Theorem run_many_jrn2 cf ds s h an s' : scope2 cf = true -> Jrn2 cf an s h -> run_many cf s ds = Ok s' ->
  exists h' an', run_hist cf s h an ds = Ok (s', h', an') /\ Jrn2 cf an' s' h' /\ exists t, h' = h ++ t.
Proof.
  intros Hsc HJ H. destruct (run_many_hist cf ds s h an s' H) as (h' & an' & Hh). exists h', an'. split; [exact Hh|].
  split; [eapply run_hist_jrn2; eauto|eapply run_hist_grows; eauto].
Qed.
Theorem engine_journey2 cf ds s h an s' h' an' : scope2 cf = true -> Jrn2 cf an s h -> run_hist cf s h an ds = Ok (s', h', an') ->
  run_many cf s ds = Ok s' /\ (exists t, h' = h ++ t) /\ Jrn2 cf an' s' h'.
Proof.
  intros Hsc HJ H. split; [eapply run_hist_many; eauto|]. split; [eapply run_hist_grows; eauto|eapply run_hist_jrn2; eauto].
Qed.

(* ---------- in the words of the property ---------- *)
Lemma closing_cont_excl r : closing r -> cont r -> False.
Proof. unfold closing, cont. intros [H|[H|[_ H]]] [H1 H2]; congruence. Qed.
(* the records of the present visit: after the last closing record only continuation records follow, all at node k with
   arrival date a; the closing record names k and ends at a *)
Lemma chain_visit k a : forall l2 r, chain (r :: l2) -> Forall cont l2 -> lastok k a (last_opt (r :: l2)) ->
  (closing r -> r_dest r = Some k /\ r_exit r = a) /\ (cont r -> r_node r = k /\ r_arr r = a) /\
  Forall (fun r' => r_node r' = k /\ r_arr r' = a) l2.
Proof.
  induction l2 as [|r2 l2 IH]; intros r Hc Hf Hl.
  - cbn in Hl. split; [|split; [|constructor]].
    + intros Hcl. destruct Hl as [(_ & A & B)|(A & _)]; [auto|exfalso; exact (closing_cont_excl r Hcl A)].
    + intros Hco. destruct Hl as [(A & _)|(_ & A & B)]; [exfalso; exact (closing_cont_excl r A Hco)|auto].
  - cbn [chain] in Hc. destruct Hc as [Hlk Hc]. inversion Hf as [|? ? Hc2 Hf2]. subst.
    assert (Hl' : lastok k a (last_opt (r2 :: l2))).
    { cbn [last_opt] in Hl |- *. destruct (last_opt l2); exact Hl. }
    destruct (IH r2 Hc Hf2 Hl') as (_ & I2 & I3). destruct (I2 Hc2) as [N2 A2].
    destruct Hlk as [_ [(Hcl & Hd & He)|(Hco & Hn & Ha)]].
    + split; [intros _; split; congruence|]. split; [intros Hco; exfalso; exact (closing_cont_excl r Hcl Hco)|]. constructor; auto.
    + split; [intros Hcl; exfalso; exact (closing_cont_excl r Hcl Hco)|]. split; [intros _; split; congruence|]. constructor; auto.
Qed.

Theorem Jrn2_means cf an s h : Jrn2 cf an s h ->
  (* (0) the first record of a customer is at the node where it arrived *)
  (forall i r l, recs_of i h = r :: l -> an i = Some (r_node r)) /\
  (* (1) the records of one customer, in order, are one connected journey: a record r1 that has a successor r2 is a
         service, interruption or renege record; if it closes its visit (service, renege, rerouting interruption) it names
         the node of r2 as destination and ends when the visit of r2 began; if it is an interruption in the middle of
         a visit, r2 belongs to the same visit: same node, same arrival date; r2 is not a baulk / rejection record *)
  (forall i l1 r1 r2 l2, recs_of i h = l1 ++ r1 :: r2 :: l2 ->
     visit r2 /\ ((closing r1 /\ r_dest r1 = Some (r_node r2) /\ r_exit r1 = r_arr r2) \/ (cont r1 /\ r_node r2 = r_node r1 /\ r_arr r2 = r_arr r1))) /\
  (* (2) a baulk / rejection record is its customer's only record *)
  (forall r, In r h -> ~ visit r -> recs_of (r_id r) h = [r]) /\
  (* (3) a customer in node k+1 is recorded there and has as many records as its own counter says; it has no record yet
         and k+1 is where it arrived, or its last record closed the previous visit naming k+1 and ending at the customer's
         arrival date here, or its last record is an interruption of the present visit (node k+1, same arrival date) *)
  (forall k nd i, nth_error (nodes s) k = Some nd -> In i (all_individuals nd) ->
     exists x, find_ind i (inds s) = Some x /\ i_node x = Some (Z.of_nat k + 1) /\ i_nrec x = zlen (recs_of i h) /\
       ((recs_of i h = [] /\ an i = Some (Z.of_nat k + 1)) \/
        exists l r, recs_of i h = l ++ [r] /\
          ((closing r /\ r_dest r = Some (Z.of_nat k + 1) /\ r_exit r = i_arr x) \/ (cont r /\ r_node r = Z.of_nat k + 1 /\ r_arr r = i_arr x))) /\
       (* the last visit-closing record names k+1 and ends at the arrival date; the records after it are of this visit *)
       (forall l1 r l2, recs_of i h = l1 ++ r :: l2 -> Forall cont l2 -> closing r ->
          r_dest r = Some (Z.of_nat k + 1) /\ r_exit r = i_arr x /\ Forall (fun r' => r_node r' = Z.of_nat k + 1 /\ r_arr r' = i_arr x) l2) /\
       (* no visit-closing record at all: every record is of this visit, and this is where the customer arrived *)
       (Forall cont (recs_of i h) -> an i = Some (Z.of_nat k + 1) /\ Forall (fun r' => r_node r' = Z.of_nat k + 1 /\ r_arr r' = i_arr x) (recs_of i h))) /\
  (* (4) a customer is at the exit exactly when its last record names destination -1 or is a baulk / rejection record *)
  (forall i, 1 <= i <= a_created (arr s) ->
     (In i (exit_ids s) <-> exists l r, recs_of i h = l ++ [r] /\ (r_dest r = Some (-1) \/ r_type r = 3 \/ r_type r = 4))) /\
  (* (5) records only name customers that exist *)
  (forall r, In r h -> r_id r <= a_created (arr s)).
Proof.
  intros (HW & [A B C F D] & _).
  assert (P3 : forall k nd i, nth_error (nodes s) k = Some nd -> In i (all_individuals nd) ->
     exists x, find_ind i (inds s) = Some x /\ good an (Z.of_nat k + 1) i x h).
  { intros k nd i Hk Hin. apply (A (Z.of_nat k + 1) i). exists nd. split; [|exact Hin]. unfold nodeZ.
    replace (Z.of_nat k + 1 - 1) with (Z.of_nat k) by lia. rewrite Conserve2.nthZ_of_nat. exact Hk. }
  split; [exact F|]. split; [|split; [|split; [|split; [|exact D]]]].
  - intros i l1 r1 r2 l2 E. pose proof (C i) as Hc. rewrite E in Hc. apply chain_mid in Hc. exact Hc.
  - intros r Hr Hty. apply (chain_only _ r (C (r_id r))); [apply recs_of_In; auto|exact Hty].
  - intros k nd i Hk Hin. destruct (P3 k nd i Hk Hin) as (x & Hx & Gn & Gl & Gc & Ga). exists x.
    split; [exact Hx|]. split; [exact Gn|]. split; [exact Gc|]. split; [|split].
    + unfold last_of in Gl. destruct (last_opt (recs_of i h)) as [r|] eqn:El.
      * right. destruct (last_opt_split _ _ El) as [l Hl]. exists l, r. split; [exact Hl|exact Gl].
      * left. apply last_opt_None in El. auto.
    + intros l1 r l2 E Hf Hcl. pose proof (C i) as Hc. rewrite E in Hc.
      assert (Hc' : chain (r :: l2)) by (clear -Hc; induction l1 as [|a t IH]; [exact Hc|apply IH; destruct Hc as [_ Hc]; exact Hc]).
      assert (Hl' : lastok (Z.of_nat k + 1) (i_arr x) (last_opt (r :: l2))).
      { unfold last_of in Gl. rewrite E in Gl. clear -Gl. induction l1 as [|a t IH]; [exact Gl|apply IH]. cbn [app last_opt] in Gl.
        destruct (last_opt (t ++ r :: l2)) eqn:E0; [exact Gl|]. apply last_opt_None in E0. destruct t; discriminate E0. }
      destruct (chain_visit _ _ l2 r Hc' Hf Hl') as (Q1 & _ & Q3). destruct (Q1 Hcl). auto.
    + intros Hf. destruct (recs_of i h) as [|r l] eqn:E; [split; [exact (Ga eq_refl)|constructor]|].
      inversion Hf as [|? ? Hcr Hfl]. subst. pose proof (C i) as Hc. rewrite E in Hc. unfold last_of in Gl. rewrite E in Gl.
      destruct (chain_visit _ _ l r Hc Hfl Gl) as (_ & Q2 & Q3). destruct (Q2 Hcr) as [N1 A1].
      split; [rewrite (F i r l E), N1; reflexivity|constructor; auto].
  - intros i Hi. split.
    + intros Hin. destruct (B i Hin) as (r & Hl & Ht). destruct (last_opt_split _ _ Hl) as [l El]. exists l, r. split; [exact El|].
      destruct Ht as [[_ Hd]|[Ht|Ht]]; auto.
    + intros (l & r & El & Hr).
      destruct (Conserve2.WFx2_means _ HW) as (HP & _).
      assert (Hin : In i (Conserve2.ids_of s)) by (eapply Permutation_in; [symmetry; exact HP|]; apply zseq_In; lia).
      unfold Conserve2.ids_of in Hin. apply in_app_or in Hin as [Hin|Hin]; [exfalso|exact Hin].
      unfold Conserve2.ids_in_nodes in Hin. apply in_concat in Hin as (q & Hq & Hiq). apply in_map_iff in Hq as (nd & <- & Hnd).
      apply In_nth_error in Hnd as (k & Hk).
      destruct (P3 k nd i Hk Hiq) as (x & _ & _ & Gl & _ & _). unfold last_of in Gl. rewrite El, last_opt_snoc in Gl.
      destruct Gl as [(Hcl & Hd & _)|((Ht & Hd) & _)].
      * destruct Hr as [Hr|[Hr|Hr]]; [rewrite Hr in Hd; injection Hd as Hd; lia| |]; destruct Hcl as [Hc|[Hc|[Hc _]]]; congruence.
      * destruct Hr as [Hr|[Hr|Hr]]; congruence.
Qed.

(* ====================================================================================================================
   10. An executable test of the invariant
   ==================================================================================================================== *)
Definition ozeqb (a b : option Z) : bool :=
  match a, b with Some x, Some y => x =? y | None, None => true | _, _ => false end.
Lemma ozeqb_eq a b : ozeqb a b = true -> a = b.
Proof. destruct a, b; cbn; intros H; try discriminate; [apply Z.eqb_eq in H; congruence|reflexivity]. Qed.
Definition isnone {A} (o : option A) : bool := match o with None => true | Some _ => false end.
Lemma isnone_eq {A} (o : option A) : isnone o = true -> o = None.
Proof. destruct o; [discriminate|reflexivity]. Qed.
Fixpoint nodupZ (l : list Z) : bool := match l with [] => true | a :: r => negb (memZ a r) && nodupZ r end.
Lemma nodupZ_sound l : nodupZ l = true -> NoDup l.
Proof.
  induction l as [|a r IH]; cbn; [constructor|]. intros H. apply andb_true_iff in H as [H1 H2]. constructor; [|apply IH; exact H2].
  intros Hin. apply memZ_In in Hin. rewrite Hin in H1. discriminate H1.
Qed.

Definition closing_b (r : rec) : bool := (r_type r =? 0) || (r_type r =? 2) || ((r_type r =? 1) && negb (isnone (r_dest r))).
Definition cont_b (r : rec) : bool := (r_type r =? 1) && isnone (r_dest r).
Definition visit_b (r : rec) : bool := (r_type r =? 0) || (r_type r =? 1) || (r_type r =? 2).
Definition link_b (r1 r2 : rec) : bool :=
  visit_b r2 && ((closing_b r1 && ozeqb (r_dest r1) (Some (r_node r2)) && ozeqb (r_exit r1) (r_arr r2))
                 || (cont_b r1 && (r_node r2 =? r_node r1) && ozeqb (r_arr r2) (r_arr r1))).
Fixpoint chain_b (l : list rec) : bool :=
  match l with [] => true | r1 :: t => match t with [] => true | r2 :: _ => link_b r1 r2 end && chain_b t end.
Definition term_b (r : rec) : bool := (closing_b r && ozeqb (r_dest r) (Some (-1))) || (r_type r =? 3) || (r_type r =? 4).
Definition lastok_b (k : Z) (a : option Z) (o : option rec) : bool :=
  match o with
  | None => true
  | Some r => (closing_b r && ozeqb (r_dest r) (Some k) && ozeqb (r_exit r) a) || (cont_b r && (r_node r =? k) && ozeqb (r_arr r) a)
  end.
Definition first_b (an : Z -> option Z) (i : Z) (l : list rec) : bool :=
  match l with r :: _ => ozeqb (an i) (Some (r_node r)) | [] => true end.
Definition good_b (an : Z -> option Z) (k i : Z) (x : ind) (H : list rec) : bool :=
  ozeqb (i_node x) (Some k) && lastok_b k (i_arr x) (last_of i H) && (i_nrec x =? zlen (recs_of i H))
  && match recs_of i H with [] => ozeqb (an i) (Some k) | _ => true end.
Definition jh_b (an : Z -> option Z) (s : sim) (H : list rec) : bool :=
  forallb (fun nd => forallb (fun i => match find_ind i (inds s) with Some x => good_b an (n_id nd) i x H | None => false end)
                             (all_individuals nd)) (nodes s)
  && forallb (fun i => match last_of i H with Some r => term_b r | None => false end) (exit_ids s)
  && forallb (fun r => chain_b (recs_of (r_id r) H)) H
  && forallb (fun r => first_b an (r_id r) (recs_of (r_id r) H)) H
  && forallb (fun r => r_id r <=? a_created (arr s)) H.
Definition lq_b (s : sim) : bool :=
  forallb (fun nd => forallb (fun p => match find_ind (snd p) (inds s) with
                                       | Some x => ozeqb (i_dest x) (Some (n_id nd)) && i_blocked x
                                       | None => false end) (n_bq nd)
                     && nodupZ (map snd (n_bq nd))) (nodes s).
Definition noint_b (s : sim) : bool := forallb (fun nd => n_nint nd <=? 0) (nodes s).
Definition srvn_b (cf : config) (nd : node) : bool :=
  nodupZ (map sv_id (n_servers nd)) && forallb (fun sv => sv_id sv <=? n_highest nd) (n_servers nd)
  && (if nd_inf nd then match n_servers nd with [] => true | _ => false end else true)
  && (if sched_of cf (n_id nd) then negb (nd_inf nd) else true).
Definition own_b (cf : config) (s : sim) (nd : node) : bool :=
  if slot_of cf (n_id nd) then true
  else forallb (fun sv => match sv_cust sv with
                          | None => true
                          | Some c => match find_ind c (inds s) with
                                      | Some x => ozeqb (i_server x) (Some (sv_id sv)) && ozeqb (i_node x) (Some (n_id nd))
                                                  && (if isnone (sv_next_end sv) then true else negb (i_blocked x))
                                      | None => false end
                          end) (n_servers nd).
Definition blk_b (cf : config) (s : sim) : bool :=
  forallb (fun x => if i_blocked x && isnone (i_server x)
                    then match i_node x with
                         | Some k => match nodeZ s k with Some nd => nd_inf nd || slot_of cf k | None => false end
                         | None => false end
                    else true) (inds s).
Definition pick_b (cf : config) (s : sim) : bool :=
  forallb (fun nd => forallb (fun i => match find_ind i (inds s) with
                                       | None => true
                                       | Some x => (if n_next_type nd =? 0 then negb (i_blocked x) && ozeqb (i_node x) (Some (n_id nd)) else true)
                                                   && (if n_next_type nd =? 2 then negb (i_blocked x) && isnone (i_server x) else true)
                                       end) (n_next_inds nd)
                     && (if n_next_type nd =? 3 then cf_dyn cf else true)) (nodes s).
Definition nb_b (cf : config) (s : sim) : bool := if preempts cf then forallb (fun x => negb (i_blocked x)) (inds s) else true.
Definition jrn2_b (cf : config) (an : Z -> option Z) (s : sim) (h : list rec) : bool :=
  Conserve2.wfx2_b s && jh_b an s h && lq_b s && noint_b s && forallb (srvn_b cf) (nodes s) && forallb (own_b cf s) (nodes s)
  && blk_b cf s && pick_b cf s && nb_b cf s.

Lemma closing_b_sound r : closing_b r = true -> closing r.
Proof.
  unfold closing_b, closing. intros H. apply orb_true_iff in H as [H|H]; [apply orb_true_iff in H as [H|H]|].
  - left. apply Z.eqb_eq. exact H.
  - right. left. apply Z.eqb_eq. exact H.
  - right. right. apply andb_true_iff in H as [H1 H2]. apply Z.eqb_eq in H1. split; [exact H1|]. destruct (r_dest r); [discriminate|discriminate H2].
Qed.
Lemma cont_b_sound r : cont_b r = true -> cont r.
Proof. unfold cont_b, cont. intros H. apply andb_true_iff in H as [H1 H2]. apply Z.eqb_eq in H1. apply isnone_eq in H2. auto. Qed.
Lemma visit_b_sound r : visit_b r = true -> visit r.
Proof.
  unfold visit_b, visit. intros H. apply orb_true_iff in H as [H|H]; [apply orb_true_iff in H as [H|H]|]; apply Z.eqb_eq in H; auto.
Qed.
Lemma lastok_b_sound k a o : lastok_b k a o = true -> lastok k a o.
Proof.
  destruct o as [r|]; cbn; [|auto]. intros H. apply orb_true_iff in H as [H|H]; apply andb_true_iff in H as [H H3]; apply andb_true_iff in H as [H1 H2].
  - left. split; [apply closing_b_sound; exact H1|]. split; apply ozeqb_eq; assumption.
  - right. split; [apply cont_b_sound; exact H1|]. split; [apply Z.eqb_eq; exact H2|apply ozeqb_eq; exact H3].
Qed.
Lemma term_b_sound r : term_b r = true -> term r.
Proof.
  unfold term_b, term. intros H. apply orb_true_iff in H as [H|H]; [apply orb_true_iff in H as [H|H]|].
  - left. apply andb_true_iff in H as [H1 H2]. split; [apply closing_b_sound; exact H1|apply ozeqb_eq; exact H2].
  - right. left. apply Z.eqb_eq. exact H.
  - right. right. apply Z.eqb_eq. exact H.
Qed.
Lemma chain_b_sound l : chain_b l = true -> chain l.
Proof.
  induction l as [|a t IH]; cbn [chain_b chain]; [auto|]. intros H. apply andb_true_iff in H as [H1 H2]. split; [|auto].
  destruct t as [|b t']; [exact I|]. unfold link_b in H1. unfold link. apply andb_true_iff in H1 as [V H1]. split; [apply visit_b_sound; exact V|].
  apply orb_true_iff in H1 as [H1|H1]; apply andb_true_iff in H1 as [H1 E3]; apply andb_true_iff in H1 as [E1 E2].
  - left. split; [apply closing_b_sound; exact E1|]. split; apply ozeqb_eq; assumption.
  - right. split; [apply cont_b_sound; exact E1|]. split; [apply Z.eqb_eq; exact E2|apply ozeqb_eq; exact E3].
Qed.

Theorem jh_b_sound an s H : Idx s -> jh_b an s H = true -> JH an H s.
Proof.
  intros HI Hb. unfold jh_b in Hb.
  apply andb_true_iff in Hb as [Hb B5]. apply andb_true_iff in Hb as [Hb B4]. apply andb_true_iff in Hb as [Hb B3]. apply andb_true_iff in Hb as [B1 B2].
  rewrite forallb_forall in B1, B2, B3, B4, B5. constructor.
  - intros k i (nd & Hn & Hin). pose proof (B1 nd (nthZ_In _ _ _ Hn)) as E. rewrite forallb_forall in E. specialize (E i Hin).
    destruct (find_ind i (inds s)) as [x|]; [|discriminate]. exists x. split; [reflexivity|].
    rewrite (HI _ _ Hn) in E. unfold good_b in E.
    apply andb_true_iff in E as [E E4]. apply andb_true_iff in E as [E E3]. apply andb_true_iff in E as [E1 E2].
    split; [apply ozeqb_eq; exact E1|]. split; [apply lastok_b_sound; exact E2|]. split; [apply Z.eqb_eq; exact E3|].
    intros E0. rewrite E0 in E4. apply ozeqb_eq. exact E4.
  - intros i Hi. specialize (B2 i Hi). destruct (last_of i H) as [r|]; [|discriminate]. exists r. split; [reflexivity|apply term_b_sound; exact B2].
  - intros i. destruct (recs_of i H) as [|r t] eqn:E; [exact I|].
    assert (Hin : In r (recs_of i H)) by (rewrite E; left; reflexivity). apply recs_of_In in Hin as [Hin Hid].
    rewrite <- E, <- Hid. apply chain_b_sound. exact (B3 r Hin).
  - intros i r l E. assert (Hin : In r (recs_of i H)) by (rewrite E; left; reflexivity). apply recs_of_In in Hin as [Hin Hid].
    specialize (B4 r Hin). rewrite Hid, E in B4. cbn in B4. apply ozeqb_eq. exact B4.
  - intros r Hr. apply Z.leb_le. exact (B5 r Hr).
Qed.

Theorem jrn2_b_sound cf an s h : jrn2_b cf an s h = true -> Jrn2 cf an s h.
Proof.
  unfold jrn2_b. intros H. apply andb_true_iff in H as [H B9].
  apply andb_true_iff in H as [H B8]. apply andb_true_iff in H as [H B7]. apply andb_true_iff in H as [H B6]. apply andb_true_iff in H as [H B5].
  apply andb_true_iff in H as [H B4]. apply andb_true_iff in H as [H B3]. apply andb_true_iff in H as [B1 B2].
  pose proof (Conserve2.wfx2_b_sound s B1) as HW. pose proof (WFx2_Idx _ _ HW) as HI.
  unfold lq_b in B3. unfold noint_b in B4. unfold blk_b in B7. unfold pick_b in B8. rewrite forallb_forall in B3, B4, B5, B6, B7, B8.
  split; [exact HW|]. split; [apply jh_b_sound; assumption|]. split; [|split; [|split]].
  - constructor.
    + intros d fr y (nd & Hn & Hin). specialize (B3 nd (nthZ_In _ _ _ Hn)). apply andb_true_iff in B3 as [B3 _]. rewrite forallb_forall in B3.
      specialize (B3 (fr, y) Hin). cbn in B3. destruct (find_ind y (inds s)) as [x|]; [|discriminate]. apply andb_true_iff in B3 as [E1 E2].
      exists x. rewrite (HI _ _ Hn) in E1. split; [reflexivity|]. split; [apply ozeqb_eq; exact E1|exact E2].
    + intros d nd Hn. specialize (B3 nd (nthZ_In _ _ _ Hn)). apply andb_true_iff in B3 as [_ B3]. apply nodupZ_sound. exact B3.
  - intros k nd Hn. apply Z.leb_le. exact (B4 nd (nthZ_In _ _ _ Hn)).
  - constructor.
    + intros j nd Hn. specialize (B5 nd (nthZ_In _ _ _ Hn)). unfold srvn_b in B5. rewrite (HI _ _ Hn) in B5.
      apply andb_true_iff in B5 as [B5 E4]. apply andb_true_iff in B5 as [B5 E3]. apply andb_true_iff in B5 as [E1 E2]. constructor.
      * apply nodupZ_sound. exact E1.
      * intros sv Hsv. rewrite forallb_forall in E2. apply Z.leb_le. exact (E2 sv Hsv).
      * intros Hi. rewrite Hi in E3. destruct (n_servers nd); [reflexivity|discriminate E3].
      * intros Hs. rewrite Hs in E4. apply negb_true_iff in E4. exact E4.
    + intros j nd sv c Hn Hsl Hin Hc. specialize (B6 nd (nthZ_In _ _ _ Hn)). unfold own_b in B6. rewrite (HI _ _ Hn), Hsl in B6.
      rewrite forallb_forall in B6. specialize (B6 sv Hin). rewrite Hc in B6. destruct (find_ind c (inds s)) as [x|]; [|discriminate].
      apply andb_true_iff in B6 as [B6 E3]. apply andb_true_iff in B6 as [E1 E2]. exists x. split; [reflexivity|].
      split; [apply ozeqb_eq; exact E1|]. split; [apply ozeqb_eq; exact E2|]. intros Hne. destruct (sv_next_end sv); [|congruence].
      cbn in E3. apply negb_true_iff in E3. exact E3.
    + intros i x Hf _ Hb Hs. specialize (B7 x (find_ind_In _ _ _ Hf)). rewrite Hb, Hs in B7. cbn in B7.
      destruct (i_node x) as [k|]; [|discriminate]. destruct (nodeZ s k) as [nd|] eqn:En; [|discriminate]. exists k, nd.
      split; [reflexivity|]. split; [exact En|]. apply orb_true_iff in B7. exact B7.
    + intros Hp i x Hf. unfold nb_b in B9. rewrite Hp in B9. rewrite forallb_forall in B9. specialize (B9 x (find_ind_In _ _ _ Hf)). apply negb_true_iff in B9. exact B9.
  - intros j nd Hn. specialize (B8 nd (nthZ_In _ _ _ Hn)). apply andb_true_iff in B8 as [B8 B8'].
    split; [|intros Ht; rewrite Ht in B8'; exact B8'].
    intros i x Hi Hx. rewrite forallb_forall in B8. specialize (B8 i Hi). rewrite Hx, (HI _ _ Hn) in B8.
    apply andb_true_iff in B8 as [E1 E2]. split.
    + intros Ht. rewrite Ht in E1. cbn in E1. apply andb_true_iff in E1 as [F1 F2]. apply negb_true_iff in F1. split; [exact F1|apply ozeqb_eq; exact F2].
    + intros Ht. rewrite Ht in E2. cbn in E2. apply andb_true_iff in E2 as [F1 F2]. apply negb_true_iff in F1. split; [exact F1|apply isnone_eq; exact F2].
Qed.

(* ====================================================================================================================
   11. Non-vacuity: a two-node network in scope.  Customers arrive at node 1 every 2 ticks, renege there after 7 ticks
   and jockey to node 2; node 1 routes to node 2, which holds one customer (the next one is blocked at node 1); node 2
   routes to the exit.  Services take 5 ticks.
   ==================================================================================================================== *)
Definition jx_cf : config :=
  mkCfg 2
    [ mkNcfg None None 0 SFixed 0 true [true] 0;
      mkNcfg (Some 1) None 0 SFixed 0 false [false] 0 ]
    [0] 1 None
    [ RtNR [RJockey 2 2; RLeave] ]
    [ [None; None] ] false [ [false] ].
Definition jx_srv : server := mkServer 1 None false None 0 None 0 false 0 None.
Definition jx_node (j : Z) : node :=
  mkNode j 0 0 [[]] [jx_srv] [] 0 None [] (Some 1) 1 [] 0 [] [] [] 0 None 0 None None.
Definition jx_s0 : sim :=
  mkSim 1 0 (mkArr 0 0 [[Some 1]; [None]] 1 0 (Some 1)) [jx_node 1; jx_node 2] [] 0 0 []
        (mkDraws [] [] [] [] [] []) [] [[0; 0]].
Definition jx_d : draws := mkDraws [2] [1] [5; 5] [0; 0] [7; 7] [].
Definition jx_an0 : Z -> option Z := fun _ => None.
Definition jx_view (r : rec) := (r_id r, r_node r, r_type r, r_arr r, r_exit r, r_dest r).

Example jx_scope : scope2 jx_cf = true. Proof. vm_compute. reflexivity. Qed.
Example jx_scopeA : scopeA jx_cf = true. Proof. vm_compute. reflexivity. Qed.
Example jx_start : jrn2_b jx_cf jx_an0 jx_s0 [] = true. Proof. vm_compute. reflexivity. Qed.
Example jx_Jrn2 : Jrn2 jx_cf jx_an0 jx_s0 []. Proof. apply jrn2_b_sound. vm_compute. reflexivity. Qed.
(* 20 events later: customer 1 has visited node 1 and node 2 and is at the exit; customer 2 was blocked at node 1 from 8 to
   11 (its record at node 1 ends when its visit at node 2 begins); customers 4 - 7 have reneged at node 1 and jockeyed to
   node 2 (records of type 2 naming node 2, each ending when the visit at node 2 begins); customer 3 is blocked at node 1 *)
Example jx_run : exists s h an, run_hist jx_cf jx_s0 [] jx_an0 (repeat jx_d 20) = Ok (s, h, an) /\
  map jx_view h = [(1, 1, 0, Some 1, Some 6, Some 2); (1, 2, 0, Some 6, Some 11, Some (-1)); (2, 1, 0, Some 3, Some 11, Some 2);
                   (4, 1, 2, Some 7, Some 14, Some 2); (5, 1, 2, Some 9, Some 16, Some 2); (2, 2, 0, Some 11, Some 16, Some (-1));
                   (6, 1, 2, Some 11, Some 18, Some 2); (7, 1, 2, Some 13, Some 20, Some 2)] /\
  map all_individuals (nodes s) = [[3; 8; 9; 10; 11]; [4; 5; 6; 7]] /\ map n_bq (nodes s) = [[]; [(1, 3)]] /\ exit_ids s = [1; 2] /\
  map an [1; 4; 11] = [Some 1; Some 1; Some 1] /\
  jrn2_b jx_cf an s h = true.
Proof. eexists. eexists. eexists. split; [vm_compute; reflexivity|]. vm_compute. auto 7. Qed.
(* the same state satisfies the invariant by the theorem (not by computation) *)
Example jx_thm : forall s h an, run_hist jx_cf jx_s0 [] jx_an0 (repeat jx_d 20) = Ok (s, h, an) -> Jrn2 jx_cf an s h.
Proof. intros s h an H. exact (run_hist_jrn2 jx_cf jx_scope _ _ _ _ _ _ _ jx_Jrn2 H). Qed.

(* A second network in scope, with priority pre-emption (no capacities): the network of Conserve2.v.  Class 0 has priority over
   class 1; node 1 pre-empts (resume) and class 0 reneges there and jockeys to node 2.  Customer 1 (class 1) is pre-empted at
   t = 2 by customer 2: an interruption record (type 1, no destination) in the middle of its visit - it is still in node 1 *)
Example jp_scope : scope2 Conserve2.ex_cf = true /\ scopeA Conserve2.ex_cf = false. Proof. vm_compute. auto. Qed.
Example jp_Jrn2 : Jrn2 Conserve2.ex_cf jx_an0 Conserve2.ex_s0 []. Proof. apply jrn2_b_sound. vm_compute. reflexivity. Qed.
Example jp_run : exists s h an, run_hist Conserve2.ex_cf Conserve2.ex_s0 [] jx_an0 (repeat Conserve2.ex_d 24) = Ok (s, h, an) /\
  map jx_view h = [(1, 1, 1, Some 1, Some 2, None); (4, 1, 2, Some 7, Some 10, Some 2); (2, 1, 0, Some 2, Some 12, Some 2);
                   (8, 1, 2, Some 17, Some 20, Some 2); (4, 2, 0, Some 10, Some 20, Some (-1)); (6, 1, 0, Some 12, Some 22, Some 2);
                   (12, 1, 2, Some 27, Some 30, Some 2); (2, 2, 0, Some 12, Some 30, Some (-1)); (10, 1, 0, Some 22, Some 32, Some 2)] /\
  map all_individuals (nodes s) = [[14; 16; 1; 3; 5; 7; 9; 11; 13; 15]; [8; 6; 12; 10]] /\ exit_ids s = [4; 2] /\
  jrn2_b Conserve2.ex_cf an s h = true.
Proof. eexists. eexists. eexists. split; [vm_compute; reflexivity|]. vm_compute. auto 7. Qed.
Example jp_thm : forall s h an, run_hist Conserve2.ex_cf Conserve2.ex_s0 [] jx_an0 (repeat Conserve2.ex_d 24) = Ok (s, h, an) -> Jrn2 Conserve2.ex_cf an s h.
Proof. intros s h an H. exact (run_hist_jrn2 Conserve2.ex_cf (proj1 jp_scope) _ _ _ _ _ _ _ jp_Jrn2 H). Qed.

(* ====================================================================================================================
   12. Outside the scope the statement is FALSE of the model: priority pre-emption of a BLOCKED customer (region F-02a).
   Three nodes; node 1 pre-empts (resume), nodes 2 and 3 hold one customer each.  Customer 1 occupies node 2.  Customer 2
   (low priority) finishes at node 1, is routed to node 2 and blocked; customer 3 (high priority) arrives, pre-empts the
   blocked customer 2, is served and leaves for node 3; customer 2 resumes with a NEGATIVE remaining time, the clock goes
   back from 8 to 7, it finishes "again", is now routed to node 3 and blocked a second time: it sits in the blocked queues of
   node 2 AND node 3.  When node 2 lets it in (t = 102), its service record at node 1 names node 3 - but the customer is in
   node 2, and its next record is at node 2.  Nothing crashes for nine events (the tenth does).
   ==================================================================================================================== *)
Definition rf_cf : config :=
  mkCfg 3
    [ mkNcfg None None 0 SFixed 1 false [false; false] 0;
      mkNcfg (Some 1) None 0 SFixed 0 false [false; false] 0;
      mkNcfg (Some 1) None 0 SFixed 0 false [false; false] 0 ]
    [0; 1] 2 None
    [ RtNR [RDirect 3; RLeave; RLeave]; RtNR [RCycle [2; 2; 3]; RLeave; RLeave] ]
    [ [None; None; None]; [None; None; None] ] false [ [false; false]; [false; false] ].
Definition rf_srv : server := mkServer 1 None false None 0 None 0 false 0 None.
Definition rf_node (j : Z) : node :=
  mkNode j 0 0 [[]; []] [rf_srv] [] 0 None [] (Some 1) 1 [] 0 [] [] [] 0 None 0 None None.
(* arrivals at node 1: class 1 (low priority) at 1 and 3, class 0 (high priority) at 6 *)
Definition rf_s0 : sim :=
  mkSim 1 0 (mkArr 0 0 [[Some 6; Some 1]; [None; None]; [None; None]] 1 1 (Some 1)) [rf_node 1; rf_node 2; rf_node 3] [] 0 0 []
        (mkDraws [] [] [] [] [] []) [] [[0; 0; 0]; [0; 0; 0]].
Definition rf_d (a sv : list Z) : draws := mkDraws a [1] sv [0; 0; 0] [] [].
Definition rf_ds : list draws :=
  [ rf_d [2] [1];        (* t = 1   customer 1 arrives (class 1), service 1 *)
    rf_d [] [100];       (* t = 2   customer 1 moves to node 2, service 100 *)
    rf_d [1000] [2];     (* t = 3   customer 2 arrives (class 1), service 2 *)
    rf_d [] [];          (* t = 5   customer 2 finishes, routed to node 2: full, blocked *)
    rf_d [1000] [2];     (* t = 6   customer 3 arrives (class 0) and pre-empts the blocked customer 2 *)
    rf_d [] [200];       (* t = 8   customer 3 moves to node 3 (service 200); customer 2 resumes: time left 5 - 6 = -1 *)
    rf_d [] [];          (* t = 7 ! customer 2 finishes again, routed to node 3: full, blocked a second time *)
    rf_d [] [50; 50];    (* t = 102 customer 1 leaves node 2, which lets customer 2 in *)
    rf_d [] [50] ].      (* t = 152 customer 2 leaves node 2 *)

Theorem journey_refuted_preempt_blocked :
  exists s9 h9 an9,
    (* the initial state satisfies the invariant; the configuration is outside the scope only by its pre-emption option *)
    jrn2_b rf_cf (fun _ => None) rf_s0 [] = true /\ scope2 rf_cf = false /\
    run_hist rf_cf rf_s0 [] (fun _ => None) rf_ds = Ok (s9, h9, an9) /\ Conserve2.wfx2_b s9 = true /\
    (* customer 2: a service record at node 1 naming node 3, directly followed by a record at node 2 *)
    (* (id, node, type, arrival, exit, destination) *)
    map jx_view (recs_of 2 h9) = [(2, 1, 1, Some 3, Some 6, None); (2, 1, 0, Some 3, Some 102, Some 3); (2, 2, 0, Some 102, Some 152, Some (-1))] /\
    (* hence no journey invariant, whatever the ghost *)
    (forall an, ~ JH an h9 s9).
Proof.
  eexists. eexists. eexists. split; [vm_compute; reflexivity|]. split; [vm_compute; reflexivity|]. split; [vm_compute; reflexivity|].
  split; [vm_compute; reflexivity|]. split; [vm_compute; reflexivity|].
  intros an HJ. pose proof (j_chain _ _ _ HJ 2) as Hc.
    match type of Hc with chain ?l => let l' := eval vm_compute in l in change (chain l') in Hc end.
    cbn [chain] in Hc. destruct Hc as (_ & Hl & _). destruct Hl as [_ [(_ & Hd & _)|((Ht & _) & _)]]; [|vm_compute in Ht; discriminate Ht].
    vm_compute in Hd. discriminate Hd.
Qed.

(* the same theorems under the name the framework uses for statements proved in a scope that leaves out regions which are
   neither proved nor refuted (see the header: rerouting pre-emption; pre-emptive schedules / slots without blocking; priority
   pre-emption with class change while waiting; reneging or pre-emption at a slotted node) *)
Theorem event_step_jrn2_partial cf an s s' h : scope2 cf = true -> Jrn2 cf an s h -> event_step cf s = Ok (tt, s') ->
  Jrn2 cf (an_step s an) s' (h ++ log s').
Proof. apply event_step_jrn2. Qed.
Theorem run_many_jrn2_partial cf ds s h an s' : scope2 cf = true -> Jrn2 cf an s h -> run_many cf s ds = Ok s' ->
  exists h' an', run_hist cf s h an ds = Ok (s', h', an') /\ Jrn2 cf an' s' h' /\ exists t, h' = h ++ t.
Proof. apply run_many_jrn2. Qed.

Print Assumptions event_step_jrn2.
Print Assumptions run_hist_jrn2.
Print Assumptions run_many_jrn2.
Print Assumptions engine_journey2.
Print Assumptions Jrn2_means.
Print Assumptions jrn2_b_sound.
Print Assumptions jx_run.
Print Assumptions jx_thm.
Print Assumptions jp_run.
Print Assumptions jp_thm.
Print Assumptions journey_refuted_preempt_blocked.
Print Assumptions event_step_jrn2_partial.
Print Assumptions run_many_jrn2_partial.

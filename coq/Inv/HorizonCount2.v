(* HorizonCount2.v -- T2 for C14 (second half) and C16 on the STAGE-2 engine model (State2 / Engine2 / Codec2): routers, reneging
   and jockeying, priority pre-emption (resume / restart / resample / reroute), server schedules, slotted services, class change
   while waiting.  Transplant of HorizonCount.v (stage 1) plus the time loop of Horizon.v.
   Partial correctness: nothing is said about runs in which the model returns Err / OutOfFuel.
   NO hypothesis on the draws anywhere in this file and NO scope restriction on the configuration, except in the section
   NoReneging (scope no_reneging cf = true), which recovers the stage-1 identity.

   simulate_until_max_customers(n, method) is "while check() < n: event", where check() reads, according to the method,
       'Complete' (0)  nodes[-1].number_of_completed_individuals   = exit_completed s
       'Finish'   (1)  nodes[-1].number_of_individuals             = exit_n s
       'Arrive'   (2)  nodes[0].number_of_individuals              = a_created (arr s)
       'Accept'   (3)  nodes[0].number_accepted_individuals        = a_accepted (arr s)
   and simulate_until_max_time(T) is "while next_active_node.next_event_date < T: event".  As in stage 1
   find_next_active_node is the last action of event_step, so both loops of the model are "while test s do event_step",
   driven like Codec2.run_many by one record of draws per event; run_count / run_until2 are these loops and return the
   unused draws.

   WHO REACHES THE EXIT HOW (the `completed` flag of ExitNode.accept in each caller of the model = of the Python code):
       Node.release                    exit_accept i true    (also for a victim of `reroute` pre-emption whose new destination
                                                              is the exit: it counts as COMPLETED although its service was cut)
       Node.renege (no jockeying)      exit_accept i false   finished, not completed
       ArrivalNode.release_individual  exit_accept i false   baulked / rejected: finished, not completed, never accepted
   Hence the stage-1 identity  finished - completed = arrived - accepted  is FALSE on stage 2 (stage1_identity_refuted: a
   customer reneges to the exit; this is the intended behaviour of Ciw, not a defect).  The right identities, proved here
   for EVERY configuration, are stated with the data records the events write (type 2 = renege, 3 = baulk, 4 = rejection):
       (finished - completed)' - (finished - completed) = #(renege records with destination exit) + #(baulk / rejection records)
       (arrived  - accepted)'  - (arrived  - accepted)  = #(baulk / rejection records)
   per event (event_step_counts: the records of log s') and per run (run_many_counts: the records of all events of the
   run, run_logs).  As a state invariant this leaves  arrived - accepted <= finished - completed  (Cnt).

   Contents
     crel a b c / cg a b c  relation between the state before and after an engine function: the four counters and
                          finished - completed never go down; Q3 = (finished - completed) - #renege-to-exit records in the
                          log - #baulk/rejection records in the log changes by exactly a; Q2 = (arrived - accepted) -
                          #baulk/rejection records in the log changes by exactly b; the number of reneging records in the log
                          changes by exactly c.  Every engine function has a = b = c = 0 (one line each, tactic cw) except:
                          creation of a customer (b = +1), send_individual / release_individual (b = -1), the record writers
                          (a = -1) and exit_accept _ false (a = +1), which cancel inside renege / release_individual, and
                          renege (c = 1).  event_step_crel: one event, from the state with the log emptied.
     cstep R B            the same without the log: what one event / a run does to the counters (R reneged to the exit, B
                          refused); event_step_counts (also: a reneging record is written by a renege event only, and then
                          exactly one), run_many_counts, run_many_accounts, event_step_gap; monotonicity of the four counts
                          (event_step_count_mono, run_many_count_mono, count_stays_reached)
     Cnt, CInv            the invariant (with Conserve2.WFx2 []); cnt_b, cinv_b executable; event_step_count, run_many_count;
                          count_means in words
     no_reneging, CInv0   scope "no node has a reneging distribution" (executable on the configuration): there the stage-1
                          identity is an invariant (event_step_count0, run_many_count0, count_means0); uses
                          Renege2.event_step_candidates (no node of such a configuration is ever about to renege)
     run_while            the generic loop "while test s do event_step" and its theory, once
     run_count ...        the count loop; agreement with run_many; count < n before every executed event, >= n at return when
                          draws are left; stopped after the FIRST event at which the count reached n (run_count_first,
                          run_count_last); all four counts monotone along the run; invariant (incl. conservation) throughout
                          and at return; pause / resume (run_count_split_eq, run_count_split, run_count_tr_split,
                          run_count_again); engine_count
     run_until2 ...       the time loop; agreement with run_many; the test held before every executed event and fails at
                          return when draws are left; pause / resume (run_until2_split_eq, run_until2_split,
                          run_until2_tr_split, run_until2_again) with no clock invariant; engine_until2
     run_count_is_loop, run_until2_is_loop   both are instances of the abstract loops of Sub/Loop.v
     closed examples      a node with capacity 2 and reneging to the exit: the four methods stop at different events; the time
                          loop; pause / resume across the two loops; stage1_identity_refuted; the same node without reneging. *)
From Coq Require Import ZArith List Bool Lia Permutation.
From RecordUpdate Require Import RecordUpdate.
From CiwV Require Import Sx Prelude Routing Sched.
From CiwV Require Loop.
From CiwV.Engine Require Import State2 Engine2 Codec2.
From CiwV.Inv Require Conserve2 Route2 Renege2.
Import ListNotations.
Open Scope Z_scope.

(* ================================================================================================================ *)
(* the four counts, the records that explain them                                                                    *)
(* ================================================================================================================ *)
Definition count_of (m : Z) (s : sim) : Z :=
  if m =? 0 then exit_completed s
  else if m =? 1 then exit_n s
  else if m =? 2 then a_created (arr s)
  else a_accepted (arr s).

(* those who reached the exit without completing; those who arrived without being accepted *)
Definition unc (s : sim) : Z := exit_n s - exit_completed s.
Definition rej (s : sim) : Z := a_created (arr s) - a_accepted (arr s).
Definition gap (s : sim) : Z := unc s - rej s.

(* a reneging record whose destination is the exit; a baulking or rejection record *)
Definition is_renx (r : rec) : bool := (r_type r =? 2) && (match r_dest r with Some d => d =? -1 | None => false end).
Definition is_br (r : rec) : bool := (r_type r =? 3) || (r_type r =? 4).
Definition is_ren (r : rec) : bool := r_type r =? 2.
Definition cntb {X} (f : X -> bool) (l : list X) : Z := Z.of_nat (length (filter f l)).
Definition nrenx (l : list rec) : Z := cntb is_renx l.
Definition nbr (l : list rec) : Z := cntb is_br l.
Definition nren (l : list rec) : Z := cntb is_ren l.
Definition b2z (b : bool) : Z := if b then 1 else 0.

Lemma cntb_app {X} (f : X -> bool) a b : cntb f (a ++ b) = cntb f a + cntb f b.
Proof. unfold cntb. rewrite filter_app, app_length. lia. Qed.
Lemma cntb_one {X} (f : X -> bool) x : cntb f [x] = b2z (f x).
Proof. unfold cntb, b2z. cbn. destruct (f x); reflexivity. Qed.
Lemma cntb_nonneg {X} (f : X -> bool) l : 0 <= cntb f l.
Proof. unfold cntb. lia. Qed.

Definition Q3 (s : sim) : Z := unc s - nrenx (log s) - nbr (log s).
Definition Q2 (s : sim) : Z := rej s - nbr (log s).

(* ================================================================================================================ *)
(* the relation between pre- and post-state                                                                          *)
(* ================================================================================================================ *)
Definition crel (a b c : Z) (s s' : sim) : Prop :=
  exit_completed s <= exit_completed s' /\ exit_n s <= exit_n s' /\
  a_created (arr s) <= a_created (arr s') /\ a_accepted (arr s) <= a_accepted (arr s') /\
  unc s <= unc s' /\
  Q3 s' = Q3 s + a /\ Q2 s' = Q2 s + b /\ nren (log s') = nren (log s) + c.

Lemma crel_refl s : crel 0 0 0 s s.
Proof. unfold crel. lia. Qed.
Lemma crel_trans a1 b1 c1 a2 b2 c2 x y z : crel a1 b1 c1 x y -> crel a2 b2 c2 y z -> crel (a1 + a2) (b1 + b2) (c1 + c2) x z.
Proof. unfold crel. intros (A1 & A2 & A3 & A4 & A5 & A6 & A7 & A8) (B1 & B2 & B3 & B4 & B5 & B6 & B7 & B8). repeat split; lia. Qed.
Lemma crel_same s s' : exit_completed s' = exit_completed s -> exit_n s' = exit_n s -> arr s' = arr s -> log s' = log s -> crel 0 0 0 s s'.
Proof. intros A B C D. unfold crel, Q3, Q2, unc, rej. rewrite A, B, C, D. lia. Qed.

Definition cg {A} (a b c : Z) (m : M A) : Prop := forall s r s', m s = Ok (r, s') -> crel a b c s s'.

Lemma bind_ok {X Y} (m : M X) (k : X -> M Y) s b s' :
  bind m k s = Ok (b, s') -> exists a s1, m s = Ok (a, s1) /\ k a s1 = Ok (b, s').
Proof. unfold bind. destruct (m s) as [[a s1]| |]; try discriminate. intros H. exists a, s1. split; [reflexivity|exact H]. Qed.

Lemma cg_ret {A} (x : A) : cg 0 0 0 (ret x).
Proof. intros s r s' H. inversion H. apply crel_refl. Qed.
Lemma cg_fail {A} a b c e : cg a b c (@fail A e).
Proof. intros s r s' H. discriminate. Qed.
Lemma cg_oof {A} a b c : cg a b c (@oof A).
Proof. intros s r s' H. discriminate. Qed.
Lemma cg_bind_gen {A B} a1 b1 c1 a2 b2 c2 a b c (m : M A) (f : A -> M B) :
  a = a1 + a2 -> b = b1 + b2 -> c = c1 + c2 -> cg a1 b1 c1 m -> (forall x, cg a2 b2 c2 (f x)) -> cg a b c (bind m f).
Proof.
  intros -> -> -> Hm Hf s r s' H. apply bind_ok in H as (x & s1 & E & H).
  eapply crel_trans; [eapply Hm; exact E|eapply Hf; exact H].
Qed.
Lemma cg_bind {A B} (m : M A) (f : A -> M B) : cg 0 0 0 m -> (forall x, cg 0 0 0 (f x)) -> cg 0 0 0 (bind m f).
Proof. apply cg_bind_gen; reflexivity. Qed.
(* the first / the second part carries the change *)
Lemma cg_bind0x {A B} a b c (m : M A) (f : A -> M B) : cg 0 0 0 m -> (forall x, cg a b c (f x)) -> cg a b c (bind m f).
Proof. apply cg_bind_gen; reflexivity. Qed.
Lemma cg_bindx0 {A B} a b c (m : M A) (f : A -> M B) : cg a b c m -> (forall x, cg 0 0 0 (f x)) -> cg a b c (bind m f).
Proof. apply cg_bind_gen; lia. Qed.
Lemma cg_gets {A} (f : sim -> A) : cg 0 0 0 (gets f).
Proof. intros s r s' H. inversion H. apply crel_refl. Qed.
Lemma cg_lift {A} e (o : option A) : cg 0 0 0 (lift e o).
Proof. destruct o; [apply cg_ret|apply cg_fail]. Qed.
Lemma cg_modify a b c (f : sim -> sim) : (forall s, crel a b c s (f s)) -> cg a b c (modify f).
Proof. intros Hf s r s' H. inversion H. apply Hf. Qed.
Lemma cg_same (f : sim -> sim) :
  (forall s, exit_completed (f s) = exit_completed s /\ exit_n (f s) = exit_n s /\ arr (f s) = arr s /\ log (f s) = log s) -> cg 0 0 0 (modify f).
Proof. intros Hf. apply cg_modify. intros s. destruct (Hf s) as (A & B & C & D). apply crel_same; assumption. Qed.
Lemma cg_get_node j : cg 0 0 0 (get_node j).
Proof. intros s r s' H. unfold get_node in H. destruct (if j <? 1 then None else nthZ (nodes s) (j - 1)); inversion H; apply crel_refl. Qed.
Lemma cg_get_ind i : cg 0 0 0 (get_ind i).
Proof. intros s r s' H. unfold get_ind in H. destruct (find_ind i (inds s)); inversion H; apply crel_refl. Qed.
Lemma cg_put_node nd : cg 0 0 0 (put_node nd). Proof. apply cg_same. intros s. repeat split; reflexivity. Qed.
Lemma cg_put_ind x : cg 0 0 0 (put_ind x). Proof. apply cg_same. intros s. repeat split; reflexivity. Qed.
Lemma cg_del_ind i : cg 0 0 0 (del_ind i). Proof. apply cg_same. intros s. repeat split; reflexivity. Qed.
Lemma cg_draw_arr : cg 0 0 0 draw_arr.
Proof. intros s r s' H. unfold draw_arr in H. destruct (d_arr (dr s)); inversion H. apply crel_same; reflexivity. Qed.
Lemma cg_draw_batch : cg 0 0 0 draw_batch.
Proof. intros s r s' H. unfold draw_batch in H. destruct (d_batch (dr s)); inversion H. apply crel_same; reflexivity. Qed.
Lemma cg_draw_svc : cg 0 0 0 draw_svc.
Proof. intros s r s' H. unfold draw_svc in H. destruct (d_svc (dr s)); inversion H. apply crel_same; reflexivity. Qed.
Lemma cg_draw_unif : cg 0 0 0 draw_unif.
Proof. intros s r s' H. unfold draw_unif in H. destruct (d_unif (dr s)); inversion H. apply crel_same; reflexivity. Qed.
Lemma cg_draw_ren : cg 0 0 0 draw_ren.
Proof. intros s r s' H. unfold draw_ren in H. destruct (d_ren (dr s)); inversion H. apply crel_same; reflexivity. Qed.
Lemma cg_draw_cct : cg 0 0 0 draw_cct.
Proof. intros s r s' H. unfold draw_cct in H. destruct (d_cct (dr s)); inversion H. apply crel_same; reflexivity. Qed.
Lemma cg_upd_ind i f : cg 0 0 0 (upd_ind i f). Proof. unfold upd_ind. apply cg_bind; [apply cg_get_ind|]. intros x. apply cg_put_ind. Qed.
Lemma cg_upd_node j f : cg 0 0 0 (upd_node j f). Proof. unfold upd_node. apply cg_bind; [apply cg_get_node|]. intros x. apply cg_put_node. Qed.
Lemma cg_tnow : cg 0 0 0 tnow. Proof. apply cg_gets. Qed.
Lemma cg_mapM {A B} (f : A -> M B) l : (forall x, cg 0 0 0 (f x)) -> cg 0 0 0 (mapM f l).
Proof. intros Hf. induction l as [|x r IH]; cbn [mapM]; [apply cg_ret|]. apply cg_bind; [apply Hf|]. intros y. apply cg_bind; [exact IH|]. intros ys. apply cg_ret. Qed.
Lemma cg_forM {A} (f : A -> M unit) l : (forall x, cg 0 0 0 (f x)) -> cg 0 0 0 (forM_ l f).
Proof. intros Hf. induction l as [|x r IH]; cbn [forM_]; [apply cg_ret|]. apply cg_bind; [apply Hf|]. intros _. exact IH. Qed.

(* writing a data record: what it does to Q3 / Q2 depends on the type (and destination) of the record only *)
Lemma cg_log_rec r : cg (- b2z (is_renx r) - b2z (is_br r)) (- b2z (is_br r)) (b2z (is_ren r)) (log_rec r).
Proof.
  apply cg_modify. intros s. unfold crel, Q3, Q2, unc, rej, nrenx, nbr, nren. cbn. rewrite !cntb_app, !cntb_one. lia.
Qed.
Lemma cg_log_plain r : is_renx r = false -> is_br r = false -> is_ren r = false -> cg 0 0 0 (log_rec r).
Proof. intros A B C. pose proof (cg_log_rec r) as H. rewrite A, B, C in H. exact H. Qed.

Create HintDb hc2db.
#[local] Hint Resolve cg_ret cg_fail cg_oof cg_gets cg_lift cg_get_node cg_get_ind cg_put_node cg_put_ind cg_del_ind
  cg_draw_arr cg_draw_batch cg_draw_svc cg_draw_unif cg_draw_ren cg_draw_cct cg_upd_ind cg_upd_node cg_tnow : hc2db.

Ltac c1 :=
  first
    [ solve [auto 1 with hc2db nocore]
    | (apply cg_bind; [|intros])
    | (apply cg_mapM; intros) | (apply cg_forM; intros)
    | match goal with
      | |- cg _ _ _ (if ?b then _ else _) => destruct b
      | |- cg _ _ _ (match ?x with _ => _ end) => destruct x
      | |- cg _ _ _ (let '(_, _) := ?x in _) => destruct x
      end ].
Ltac cw := repeat c1.

(* ================================================================================================================ *)
(* the walk over the engine                                                                                          *)
(* ================================================================================================================ *)
Section Walk.
  Variable cf : config.

  Lemma c_ncfg_of j : cg 0 0 0 (ncfg_of cf j). Proof. apply cg_lift. Qed.
  #[local] Hint Resolve c_ncfg_of : hc2db.
  Lemma c_choice_uniform {A} (l : list A) : cg 0 0 0 (choice_uniform l). Proof. unfold choice_uniform. cw. Qed.
  Lemma c_choice_weighted den Pw : cg 0 0 0 (choice_weighted den Pw). Proof. unfold choice_weighted. cw. Qed.
  #[local] Hint Resolve c_choice_uniform c_choice_weighted : hc2db.

  (* ExitNode.accept: a completed journey counts in both exit counters, an uncompleted one only in the first *)
  Lemma c_exit_accept_true i : cg 0 0 0 (exit_accept i true).
  Proof.
    unfold exit_accept. apply cg_bind; [apply cg_del_ind|]. intros _. apply cg_modify. intros s.
    unfold crel, Q3, Q2, unc, rej. cbn. lia.
  Qed.
  Lemma c_exit_accept_false i : cg 1 0 0 (exit_accept i false).
  Proof.
    unfold exit_accept. apply cg_bind0x; [apply cg_del_ind|]. intros _. apply cg_modify. intros s.
    unfold crel, Q3, Q2, unc, rej. cbn. lia.
  Qed.
  #[local] Hint Resolve c_exit_accept_true : hc2db.

  Lemma c_choose_next_customer j : cg 0 0 0 (choose_next_customer cf j). Proof. unfold choose_next_customer. cw. Qed.
  Lemma c_upd_server j sid f : cg 0 0 0 (upd_server j sid f). Proof. unfold upd_server. cw. Qed.
  #[local] Hint Resolve c_choose_next_customer c_upd_server : hc2db.
  Lemma c_find_next_class_change j : cg 0 0 0 (find_next_class_change j). Proof. unfold find_next_class_change. cw. Qed.
  #[local] Hint Resolve c_find_next_class_change : hc2db.
  Lemma c_cct_loop : forall row b best bc, cg 0 0 0 (cct_loop row b best bc).
  Proof. induction row as [|h r IH]; intros b best bc; cbn [cct_loop]; [apply cg_ret|]. destruct h; [|apply IH]. apply cg_bind; [apply cg_draw_cct|]. intros t. destruct (date_lt (Some t) best); apply IH. Qed.
  #[local] Hint Resolve c_cct_loop : hc2db.
  Lemma c_decide_class_change j i : cg 0 0 0 (decide_class_change cf j i). Proof. unfold decide_class_change. cw. Qed.
  Lemma c_reset_class_change j i : cg 0 0 0 (reset_class_change cf j i). Proof. unfold reset_class_change. cw. Qed.
  Lemma c_stime_num x : cg 0 0 0 (stime_num x). Proof. unfold stime_num. cw. Qed.
  Lemma c_gstap i : cg 0 0 0 (give_service_time_after_preemption i). Proof. unfold give_service_time_after_preemption. cw. Qed.
  #[local] Hint Resolve c_decide_class_change c_reset_class_change c_stime_num c_gstap : hc2db.
  Lemma c_giast i : cg 0 0 0 (give_individual_a_service_time i). Proof. unfold give_individual_a_service_time. cw. Qed.
  Lemma c_attach_server j sid i : cg 0 0 0 (attach_server j sid i). Proof. unfold attach_server. cw. Qed.
  Lemma c_set_next_end j sid d : cg 0 0 0 (set_next_end j sid d). Proof. unfold set_next_end. cw. Qed.
  Lemma c_kill_server j sid : cg 0 0 0 (kill_server j sid). Proof. unfold kill_server. cw. Qed.
  #[local] Hint Resolve c_giast c_attach_server c_set_next_end c_kill_server : hc2db.
  Lemma c_detatch_server j sid i : cg 0 0 0 (detatch_server j sid i). Proof. unfold detatch_server. cw. Qed.
  Lemma c_bump_rec i : cg 0 0 0 (bump_rec i). Proof. unfold bump_rec. cw. Qed.
  #[local] Hint Resolve c_detatch_server c_bump_rec : hc2db.

  (* the record writers: service and interruption records are neutral; a baulking / rejection record takes one off Q3 and Q2;
     a reneging record takes one off Q3 when the destination stored on the customer is the exit *)
  Lemma c_write_individual_record j i : cg 0 0 0 (write_individual_record cf j i).
  Proof. unfold write_individual_record. cw; apply cg_log_plain; reflexivity. Qed.
  Lemma c_write_interruption_record j i d : cg 0 0 0 (write_interruption_record cf j i d).
  Proof. unfold write_interruption_record. cw; apply cg_log_plain; reflexivity. Qed.
  Lemma c_write_br_record j i ty : ty = 3 \/ ty = 4 -> cg (-1) (-1) 0 (write_br_record j i ty).
  Proof.
    intros Hty. unfold write_br_record.
    apply cg_bind0x; [apply cg_tnow|]. intros t. apply cg_bind0x; [apply cg_get_node|]. intros nd.
    apply cg_bind0x; [apply cg_get_ind|]. intros x. apply cg_bindx0; [|intros; apply c_bump_rec].
    match goal with |- cg _ _ _ (log_rec ?r) => pose proof (cg_log_rec r) as H; assert (E1 : is_renx r = false); [|assert (E2 : is_br r = true); [|assert (E3 : is_ren r = false)]] end.
    - unfold is_renx. cbn [r_type r_dest]. destruct Hty as [-> | ->]; reflexivity.
    - unfold is_br. cbn [r_type]. destruct Hty as [-> | ->]; reflexivity.
    - unfold is_ren. cbn [r_type]. destruct Hty as [-> | ->]; reflexivity.
    - rewrite E1, E2, E3 in H. exact H.
  Qed.
  Definition dest_exit (o : option Z) : bool := match o with Some d => d =? -1 | None => false end.
  Lemma c_write_reneging_record j i s s' x : find_ind i (inds s) = Some x -> write_reneging_record j i s = Ok (tt, s') ->
    crel (- b2z (dest_exit (i_dest x))) 0 1 s s'.
  Proof.
    intros Hx H. unfold write_reneging_record in H. apply bind_ok in H as (x0 & s1 & E & H).
    unfold get_ind in E. rewrite Hx in E. inversion E. subst x0 s1. clear E.
    assert (Hc : cg (- b2z (dest_exit (i_dest x))) 0 1
              (log_rec (mkRec (i_id x) (i_pcls x) (i_ocls x) j 2 (i_arr x) (Some (numo (i_exit x) - numo (i_arr x))) None None None None (i_exit x)
                              (i_dest x) (i_qa x) (i_qd x) None) ;;; bump_rec i)); [|exact (Hc _ _ _ H)].
    clear H.
    apply cg_bindx0; [|intros; apply c_bump_rec].
    match goal with |- cg _ _ _ (log_rec ?r) => pose proof (cg_log_rec r) as H; assert (E1 : is_renx r = dest_exit (i_dest x)) by reflexivity;
      assert (E2 : is_br r = false) by reflexivity; assert (E3 : is_ren r = true) by reflexivity end.
    rewrite E1, E2, E3 in H. cbn [b2z] in H. replace (- b2z (dest_exit (i_dest x)) - 0) with (- b2z (dest_exit (i_dest x))) in H by lia. exact H.
  Qed.
  Lemma c_reset_individual_attributes i : cg 0 0 0 (reset_individual_attributes i). Proof. unfold reset_individual_attributes. cw. Qed.
  #[local] Hint Resolve c_write_individual_record c_write_interruption_record c_reset_individual_attributes : hc2db.

  Lemma c_valid_dest d : cg 0 0 0 (valid_dest d). Proof. unfold valid_dest. cw. Qed.
  Lemma c_jsq_loop lb : forall ds best acc, cg 0 0 0 (jsq_loop lb ds best acc).
  Proof. induction ds as [|d r IH]; intros best acc; cbn [jsq_loop]; [apply cg_ret|]. apply cg_bind; [apply cg_get_node|]. intros nd. cbv zeta. destruct (date_eqb _ _); [apply IH|]. destruct (date_lt _ _); apply IH. Qed.
  #[local] Hint Resolve c_valid_dest c_jsq_loop : hc2db.
  Lemma c_jsq_next lb ds o : cg 0 0 0 (jsq_next lb ds o). Proof. unfold jsq_next. cw. Qed.
  Lemma c_get_cyc c j : cg 0 0 0 (get_cyc c j). Proof. unfold get_cyc. cw. Qed.
  Lemma c_bump_cyc c j : cg 0 0 0 (bump_cyc c j).
  Proof.
    unfold bump_cyc. apply cg_modify. intros s. destruct (nthZ (cyc s) c) as [row|]; [|apply crel_refl].
    destruct (nthZ row (j - 1)); [apply crel_same; reflexivity|apply crel_refl].
  Qed.
  #[local] Hint Resolve c_jsq_next c_get_cyc c_bump_cyc : hc2db.
  Lemma c_node_router_next r c j : cg 0 0 0 (node_router_next r c j). Proof. unfold node_router_next. cw. Qed.
  #[local] Hint Resolve c_node_router_next : hc2db.
  Lemma c_next_node_for mode j i : cg 0 0 0 (next_node_for cf mode j i). Proof. unfold next_node_for. cw. Qed.
  #[local] Hint Resolve c_next_node_for : hc2db.
  Lemma c_start_fresh j i osid c : cg 0 0 0 (start_fresh cf j i osid c). Proof. unfold start_fresh. cw. Qed.
  Lemma c_start_give j i sid : cg 0 0 0 (start_give cf j i sid). Proof. unfold start_give. cw. Qed.
  Lemma c_start_preemptor j i sid : cg 0 0 0 (start_preemptor cf j i sid). Proof. unfold start_preemptor. cw. Qed.
  Lemma c_biis j sid : cg 0 0 0 (begin_interrupted_individuals_service j sid). Proof. unfold begin_interrupted_individuals_service. cw. Qed.
  #[local] Hint Resolve c_start_fresh c_start_give c_start_preemptor c_biis : hc2db.
  Lemma c_serve_with j sid : cg 0 0 0 (serve_with cf j sid). Proof. unfold serve_with. cw. Qed.
  #[local] Hint Resolve c_serve_with : hc2db.
  Lemma c_bsipr j freed : cg 0 0 0 (begin_service_if_possible_release cf j freed). Proof. unfold begin_service_if_possible_release. cw. Qed.
  Lemma c_get_reneging_date j i : cg 0 0 0 (get_reneging_date cf j i). Proof. unfold get_reneging_date. cw. Qed.
  Lemma c_block_individual j i d : cg 0 0 0 (block_individual j i d). Proof. unfold block_individual. cw. Qed.
  Lemma c_preempt_victim j i : cg 0 0 0 (preempt_victim cf j i). Proof. unfold preempt_victim. cw. Qed.
  #[local] Hint Resolve c_bsipr c_get_reneging_date c_block_individual c_preempt_victim : hc2db.

  (* the recursive core: release always hands the customer to the exit as completed *)
  Lemma c_release_body acc rbi j i d rr : (forall d' i', cg 0 0 0 (acc d' i')) -> (forall j', cg 0 0 0 (rbi j')) -> cg 0 0 0 (Route2.release_body cf acc rbi j i d rr).
  Proof. intros Ha Hr. unfold Route2.release_body. cw; first [apply Ha|apply Hr]. Qed.
  Lemma c_rbi_body rel j : (forall a b c e, cg 0 0 0 (rel a b c e)) -> cg 0 0 0 (Route2.rbi_body cf rel j).
  Proof. intros Hr. unfold Route2.rbi_body. cw; apply Hr. Qed.
  Lemma c_accept_body pre j i : (forall a b c, cg 0 0 0 (pre a b c)) -> cg 0 0 0 (Route2.accept_body cf pre j i).
  Proof. intros Hp. unfold Route2.accept_body. cw; apply Hp. Qed.
  Lemma c_preempt_body rel j v i : (forall a b c e, cg 0 0 0 (rel a b c e)) -> cg 0 0 0 (Route2.preempt_body cf rel j v i).
  Proof. intros Hr. unfold Route2.preempt_body. cw; apply Hr. Qed.
  Lemma c_core : forall f, (forall j i d rr, cg 0 0 0 (release cf f j i d rr)) /\ (forall j, cg 0 0 0 (release_blocked_individual cf f j)) /\
                           (forall j i, cg 0 0 0 (accept cf f j i)) /\ (forall j v i, cg 0 0 0 (preempt cf f j v i)).
  Proof.
    induction f as [|f (IH1 & IH2 & IH3 & IH4)]; [split; [|split; [|split]]; intros; apply cg_oof|].
    split; [|split; [|split]]; intros.
    - rewrite Route2.release_S. apply c_release_body; assumption.
    - rewrite Route2.rbi_S. apply c_rbi_body; assumption.
    - rewrite Route2.accept_S. apply c_accept_body; assumption.
    - rewrite Route2.preempt_S. apply c_preempt_body; assumption.
  Qed.
  Lemma c_release f j i d rr : cg 0 0 0 (release cf f j i d rr). Proof. apply c_core. Qed.
  Lemma c_rbi f j : cg 0 0 0 (release_blocked_individual cf f j). Proof. apply c_core. Qed.
  Lemma c_accept f j i : cg 0 0 0 (accept cf f j i). Proof. apply c_core. Qed.
  Lemma c_preempt f j v i : cg 0 0 0 (preempt cf f j v i). Proof. apply c_core. Qed.
  #[local] Hint Resolve c_release c_rbi c_accept c_preempt : hc2db.

  Lemma c_decide_between l : cg 0 0 0 (decide_between l). Proof. unfold decide_between. cw. Qed.
  Lemma c_has_space d : cg 0 0 0 (has_space cf d). Proof. unfold has_space. cw. Qed.
  Lemma c_change_customer_class j i : cg 0 0 0 (change_customer_class cf j i). Proof. unfold change_customer_class. cw. Qed.
  #[local] Hint Resolve c_decide_between c_has_space c_change_customer_class : hc2db.
  Lemma c_finish_service j : cg 0 0 0 (finish_service cf j). Proof. unfold finish_service. cw. Qed.

  (* Node.renege: the reneging record (destination exit) and exit_accept _ false cancel; with jockeying both are neutral *)
  Lemma find_ind_put x : forall l, find_ind (i_id x) (put_ind_l x l) = Some x.
  Proof.
    induction l as [|y r IH]; cbn [put_ind_l find_ind]; [rewrite Z.eqb_refl; reflexivity|].
    destruct (i_id y =? i_id x) eqn:E; cbn [find_ind]; [rewrite Z.eqb_refl; reflexivity|rewrite E; exact IH].
  Qed.
  Lemma find_ind_id i l x : find_ind i l = Some x -> i_id x = i.
  Proof. induction l as [|y r IH]; cbn [find_ind]; [discriminate|]. destruct (i_id y =? i) eqn:E; [intros H; injection H as <-; apply Z.eqb_eq; exact E|exact IH]. Qed.
  Lemma c_renege_tail i j d (f : ind -> ind) (rest : M unit) :
    (forall y, i_id (f y) = i_id y) -> (forall y, i_dest (f y) = Some d) ->
    cg (b2z (d =? -1)) 0 0 rest ->
    cg 0 0 1 (upd_ind i f ;;; (write_reneging_record j i ;;; rest)).
  Proof.
    intros Hid Hd Hrest s r s' H. apply bind_ok in H as (u1 & s1 & E1 & H). apply bind_ok in H as (u2 & s2 & E2 & H).
    destruct u2.
    assert (Hx : exists x, find_ind i (inds s1) = Some (f x) /\ crel 0 0 0 s s1).
    { pose proof (cg_upd_ind i f _ _ _ E1) as R1. unfold upd_ind in E1. apply bind_ok in E1 as (x & s0 & E0 & E1).
      unfold get_ind in E0. destruct (find_ind i (inds s)) as [x0|] eqn:Ef; inversion E0. subst x0 s0.
      unfold put_ind, modify in E1. injection E1 as _ <-. exists x. split; [|exact R1]. cbn.
      pose proof (find_ind_id _ _ _ Ef) as Hi. rewrite <- Hi, <- (Hid x). apply find_ind_put. }
    destruct Hx as (x & Hx & R1).
    pose proof (c_write_reneging_record j i _ _ _ Hx E2) as R2. rewrite Hd in R2. cbn [dest_exit] in R2.
    pose proof (Hrest _ _ _ H) as R3.
    pose proof (crel_trans _ _ _ _ _ _ _ _ _ R1 (crel_trans _ _ _ _ _ _ _ _ _ R2 R3)) as R.
    replace (0 + (- b2z (d =? -1) + b2z (d =? -1))) with 0 in R by lia. exact R.
  Qed.
  Lemma c_renege j : cg 0 0 1 (renege cf j).
  Proof.
    unfold renege.
    apply cg_bind0x; [apply cg_tnow|]. intros t. apply cg_bind0x; [apply cg_get_node|]. intros nd.
    apply cg_bind0x; [apply c_decide_between|]. intros i. apply cg_bind0x; [apply cg_upd_ind|]. intros _.
    apply cg_bind0x; [apply c_next_node_for|]. intros d. apply cg_bind0x; [apply cg_get_ind|]. intros x.
    apply cg_bind0x; [apply cg_get_node|]. intros nd1. apply cg_bind0x; [apply cg_lift|]. intros q.
    apply cg_bind0x; [apply cg_lift|]. intros q'. cbv zeta.
    apply cg_bind0x; [apply cg_put_node|]. intros _. apply cg_bind0x; [apply c_reset_class_change|]. intros _.
    apply (c_renege_tail i j d); [intros y; reflexivity|intros y; reflexivity|].
    apply cg_bind0x; [apply c_reset_individual_attributes|]. intros _.
    apply cg_bind0x; [apply cg_gets|]. intros fl.
    destruct (d =? -1); cbn [b2z].
    - apply cg_bindx0; [apply c_exit_accept_false|]. intros _. apply c_rbi.
    - apply cg_bind; [apply c_accept|]. intros _. apply c_rbi.
  Qed.

  Lemma c_interrupt_service f j i pre : cg 0 0 0 (interrupt_service cf f j i pre). Proof. unfold interrupt_service. cw. Qed.
  Lemma c_keyed l : cg 0 0 0 (keyed l). Proof. unfold keyed. cw. Qed.
  #[local] Hint Resolve c_finish_service c_interrupt_service c_keyed : hc2db.
  Lemma c_sort_interrupted_individuals j : cg 0 0 0 (sort_interrupted_individuals j). Proof. unfold sort_interrupted_individuals. cw. Qed.
  Lemma c_off_duty_loop : forall k f j idx pre se, cg 0 0 0 (off_duty_loop cf k f j idx pre se).
  Proof. induction k as [|k IH]; intros f j idx pre se; cbn [off_duty_loop]; [apply cg_ret|]. cw; try apply IH. Qed.
  #[local] Hint Resolve c_sort_interrupted_individuals c_off_duty_loop : hc2db.
  Lemma c_take_servers_off_duty f j pre : cg 0 0 0 (take_servers_off_duty cf f j pre). Proof. unfold take_servers_off_duty. cw. Qed.
  Lemma c_add_new_servers : forall k j, cg 0 0 0 (add_new_servers k j).
  Proof. induction k as [|k IH]; intros j; cbn [add_new_servers]; [apply cg_ret|]. cw; try apply IH. Qed.
  Lemma c_bsipcs j : cg 0 0 0 (begin_service_if_possible_change_shift cf j). Proof. unfold begin_service_if_possible_change_shift. cw. Qed.
  #[local] Hint Resolve c_take_servers_off_duty c_add_new_servers c_bsipcs : hc2db.
  Lemma c_change_shift j : cg 0 0 0 (change_shift cf j). Proof. unfold change_shift. cw. Qed.
  Lemma c_slot_loop : forall k j, cg 0 0 0 (slot_loop cf k j).
  Proof. induction k as [|k IH]; intros j; cbn [slot_loop]; [apply cg_ret|]. cw; try apply IH. Qed.
  #[local] Hint Resolve c_change_shift c_slot_loop : hc2db.
  Lemma c_slotted_service j : cg 0 0 0 (slotted_service cf j). Proof. unfold slotted_service. cw. Qed.
  Lemma c_ccww j : cg 0 0 0 (change_customer_class_while_waiting cf j). Proof. unfold change_customer_class_while_waiting. cw. Qed.
  #[local] Hint Resolve c_slotted_service c_ccww : hc2db.
  (* every event of a service node: service completion, shift change, renege, class change while waiting, slotted service;
     a reneging record is written by the renege event only, and then exactly one *)
  Lemma c_node_have_event j s s' : node_have_event cf j s = Ok (tt, s') ->
    exists nd, get_node j s = Ok (nd, s) /\ crel 0 0 (b2z (n_next_type nd =? 2)) s s'.
  Proof.
    intros H. unfold node_have_event in H. apply bind_ok in H as (nd & s1 & E & H).
    assert (Es : s1 = s).
    { unfold get_node in E. destruct (if j <? 1 then None else nthZ (nodes s) (j - 1)); inversion E. reflexivity. }
    rewrite Es in E, H. clear Es s1. exists nd. split; [exact E|]. cbv zeta in H.
    destruct (n_next_type nd =? 0) eqn:E0; [assert (E2 : n_next_type nd =? 2 = false) by (apply Z.eqb_eq in E0; rewrite E0; reflexivity); rewrite E2; exact (c_finish_service j _ _ _ H)|].
    destruct (n_next_type nd =? 1) eqn:E1; [assert (E2 : n_next_type nd =? 2 = false) by (apply Z.eqb_eq in E1; rewrite E1; reflexivity); rewrite E2; exact (c_change_shift j _ _ _ H)|].
    destruct (n_next_type nd =? 2) eqn:E2; [exact (c_renege j _ _ _ H)|].
    destruct (n_next_type nd =? 3) eqn:E3; [exact (c_ccww j _ _ _ H)|].
    destruct (n_next_type nd =? 4) eqn:E4; [exact (c_slotted_service j _ _ _ H)|].
    exact (cg_ret tt _ _ _ H).
  Qed.
  Lemma c_update_next_event_date j : cg 0 0 0 (update_next_event_date cf j). Proof. unfold update_next_event_date. cw. Qed.
  #[local] Hint Resolve c_update_next_event_date : hc2db.
  Lemma c_update_all : forall js, cg 0 0 0 (update_all cf js).
  Proof. induction js as [|j r IH]; cbn [update_all]; [apply cg_ret|]. cw. Qed.
  Lemma c_find_next_active_node : cg 0 0 0 find_next_active_node.
  Proof. unfold find_next_active_node. cw; apply cg_same; intros s0; repeat split; reflexivity. Qed.
  Lemma c_sys_population : cg 0 0 0 sys_population. Proof. unfold sys_population. cw. Qed.
  Lemma c_route_of i c : cg 0 0 0 (route_of cf i c). Proof. unfold route_of. cw. Qed.
  #[local] Hint Resolve c_sys_population c_route_of : hc2db.

  (* ---------- the arrival node ---------- *)
  (* number_accepted_individuals += 1 *)
  Lemma c_count_accepted : cg 0 (-1) 0 (modify (fun s => s <| arr := arr s <| a_accepted := a_accepted (arr s) + 1 |> |>)).
  Proof. apply cg_modify. intros s. unfold crel, Q3, Q2, unc, rej. cbn. lia. Qed.
  (* number_of_individuals += 1 *)
  Lemma c_count_created : cg 0 1 0 (modify (fun s => s <| arr := arr s <| a_created := a_created (arr s) + 1 |> |>)).
  Proof. apply cg_modify. intros s. unfold crel, Q3, Q2, unc, rej. cbn. lia. Qed.
  Lemma c_send_individual j i : cg 0 (-1) 0 (send_individual cf j i).
  Proof. unfold send_individual. apply cg_bindx0; [apply c_count_accepted|]. intros _. apply cg_bind; [apply cg_gets|]. intros fl. apply c_accept. Qed.
  Lemma c_refuse j i ty : ty = 3 \/ ty = 4 -> cg 0 (-1) 0 (write_br_record j i ty ;;; exit_accept i false).
  Proof. intros Hty. apply (cg_bind_gen (-1) (-1) 0 1 0 0); [reflexivity|reflexivity|reflexivity|apply c_write_br_record; exact Hty|]. intros _. apply c_exit_accept_false. Qed.
  (* ArrivalNode.release_individual: the new customer is rejected (record 4, exit, not completed), baulks (record 3, the same)
     or is accepted *)
  Lemma c_release_individual j i : cg 0 (-1) 0 (release_individual cf j i).
  Proof.
    unfold release_individual.
    apply cg_bind0x; [apply cg_get_ind|]. intros x. apply cg_bind0x; [apply cg_get_node|]. intros nd.
    apply cg_bind0x; [apply c_ncfg_of|]. intros nc. apply cg_bind0x; [apply c_sys_population|]. intros sp. cbv zeta.
    match goal with |- cg _ _ _ (if ?b then _ else _) => destruct b end.
    - apply c_refuse. right. reflexivity.
    - apply cg_bind0x; [apply cg_lift|]. intros tabs. apply cg_bind0x; [apply cg_lift|]. intros tab.
      destruct tab as [tb|]; [|apply c_send_individual].
      apply cg_bind0x; [apply cg_draw_unif|]. intros u. cbv zeta.
      match goal with |- cg _ _ _ (if ?b then _ else _) => destruct b end; [|apply c_send_individual].
      apply c_refuse. left. reflexivity.
  Qed.
  Lemma c_batch_loop : forall n j c p, cg 0 0 0 (batch_loop cf n j c p).
  Proof.
    induction n as [|n IH]; intros j c p; cbn [batch_loop]; [apply cg_ret|].
    apply (cg_bind_gen 0 1 0 0 (-1) 0); [reflexivity|reflexivity|reflexivity|apply c_count_created|]. intros _.
    apply cg_bind0x; [apply cg_gets|]. intros i.
    apply cg_bind0x; [destruct (1 <=? j); [apply cg_ret|apply cg_fail]|]. intros _.
    apply cg_bind0x; [apply cg_get_node|]. intros _.
    apply cg_bind0x; [apply c_route_of|]. intros r.
    apply cg_bind0x; [apply cg_put_ind|]. intros _.
    apply cg_bindx0; [apply c_release_individual|]. intros _. apply IH.
  Qed.
  Lemma c_find_next_event_date : cg 0 0 0 find_next_event_date.
  Proof.
    apply cg_modify. intros s. destruct (find_min_dates 1 (a_dates (arr s)) (None, 0, 0)) as [[d j] c].
    unfold crel, Q3, Q2, unc, rej. cbn. lia.
  Qed.
  Lemma c_set_dates (f : sim -> list (list (option Z))) : cg 0 0 0 (modify (fun s => s <| arr := arr s <| a_dates := f s |> |>)).
  Proof. apply cg_modify. intros s. unfold crel, Q3, Q2, unc, rej. cbn. lia. Qed.
  #[local] Hint Resolve c_batch_loop c_find_next_event_date : hc2db.
  Lemma c_arrival_have_event : cg 0 0 0 (arrival_have_event cf).
  Proof.
    unfold arrival_have_event.
    repeat first [ match goal with |- cg 0 0 0 (modify (fun s => s <| arr := arr s <| a_dates := @?f s |> |>)) => apply (c_set_dates f) end
                 | c1 ].
  Qed.

  #[local] Hint Resolve c_arrival_have_event c_update_all c_find_next_active_node : hc2db.

  (* the event about to be executed is a renege *)
  Definition renege_event (s : sim) : bool :=
    (1 <=? next_active s) && match nthZ (nodes s) (next_active s - 1) with Some nd => n_next_type nd =? 2 | None => false end.

  (* ---------- one event: the log is emptied first ---------- *)
  Theorem event_step_crel s s' : event_step cf s = Ok (tt, s') -> crel 0 0 (b2z (renege_event s)) (s <| log := [] |>) s'.
  Proof.
    unfold event_step. intros H. apply bind_ok in H as (u & s1 & E & H). unfold modify in E. inversion E. subst u s1. clear E.
    apply bind_ok in H as (k & s1 & E & H). unfold gets in E. inversion E. subst k s1. clear E.
    apply bind_ok in H as (u & s1 & E & H). destruct u.
    assert (Hc : cg 0 0 0 (ns <- gets nodes ;; update_all cf (map n_id ns) ;;; find_next_active_node)) by cw.
    pose proof (Hc _ _ _ H) as R2. clear Hc H.
    change (next_active (s <| log := [] |>)) with (next_active s) in E.
    assert (R1 : crel 0 0 (b2z (renege_event s)) (s <| log := [] |>) s1).
    { unfold renege_event. destruct (next_active s =? 0) eqn:Ek.
      - apply Z.eqb_eq in Ek. rewrite Ek. cbn [Z.leb Z.compare andb b2z]. exact (c_arrival_have_event _ _ _ E).
      - destruct (c_node_have_event _ _ _ E) as (nd & Eg & R). unfold get_node in Eg.
        change (nodes (s <| log := [] |>)) with (nodes s) in Eg.
        destruct (next_active s <? 1) eqn:E1; [discriminate|]. apply Z.ltb_ge in E1.
        destruct (nthZ (nodes s) (next_active s - 1)) as [nd0|]; inversion Eg. subst nd0.
        assert (E1' : 1 <=? next_active s = true) by (apply Z.leb_le; exact E1). rewrite E1'. cbn [andb]. exact R. }
    pose proof (crel_trans _ _ _ _ _ _ _ _ _ R1 R2) as R. replace (b2z (renege_event s) + 0) with (b2z (renege_event s)) in R by lia.
    exact R.
  Qed.
End Walk.

(* ================================================================================================================ *)
(* what one event / a run does to the counters (the log no longer appears on the left)                               *)
(* ================================================================================================================ *)
(* R customers reneged to the exit, B customers were refused (baulked or rejected) *)
Definition cstep (R B : Z) (s s' : sim) : Prop :=
  exit_completed s <= exit_completed s' /\ exit_n s <= exit_n s' /\
  a_created (arr s) <= a_created (arr s') /\ a_accepted (arr s) <= a_accepted (arr s') /\
  0 <= R /\ 0 <= B /\ unc s' = unc s + R + B /\ rej s' = rej s + B.

Lemma cstep_refl s : cstep 0 0 s s.
Proof. unfold cstep. lia. Qed.
Lemma cstep_trans R1 B1 R2 B2 x y z : cstep R1 B1 x y -> cstep R2 B2 y z -> cstep (R1 + R2) (B1 + B2) x z.
Proof. unfold cstep. intros (A1 & A2 & A3 & A4 & A5 & A6 & A7 & A8) (B1' & B2' & B3 & B4 & B5 & B6 & B7 & B8). repeat split; lia. Qed.
Lemma cstep_dr R B s s' d : cstep R B (s <| dr := d |>) s' -> cstep R B s s'.
Proof. intros H. exact H. Qed.

(* (3) each count is monotone *)
Lemma cstep_count R B m s s' : cstep R B s s' -> count_of m s <= count_of m s'.
Proof.
  intros (A1 & A2 & A3 & A4 & _). unfold count_of.
  destruct (m =? 0); [exact A1|]. destruct (m =? 1); [exact A2|]. destruct (m =? 2); [exact A3|exact A4].
Qed.

Lemma cntb_le {X} (f g : X -> bool) l : (forall x, f x = true -> g x = true) -> cntb f l <= cntb g l.
Proof.
  intros Hfg. unfold cntb. induction l as [|x r IH]; cbn [filter]; [lia|].
  destruct (f x) eqn:Ef; [rewrite (Hfg x Ef); cbn [length]; lia|]. destruct (g x); cbn [length]; lia.
Qed.
Lemma nrenx_le_nren l : nrenx l <= nren l.
Proof. apply cntb_le. intros r H. unfold is_renx in H. apply andb_true_iff in H as [H _]. exact H. Qed.

(* the records written by all the events of a run, in order (a ghost: it re-runs the model) *)
Fixpoint run_logs (cf : config) (s : sim) (ds : list draws) : list rec :=
  match ds with
  | [] => []
  | d :: r => match event_step cf (s <| dr := d |>) with Ok (_, s1) => log s1 ++ run_logs cf s1 r | _ => [] end
  end.

Section Counts.
  Variable cf : config.

  (* ---------- one event ---------- *)
  Theorem event_step_counts s s' : event_step cf s = Ok (tt, s') ->
    cstep (nrenx (log s')) (nbr (log s')) s s' /\
    (* a reneging record is written by a renege event only, and then exactly one: at most one customer reneges per event *)
    nren (log s') = b2z (renege_event s) /\ nrenx (log s') <= nren (log s').
  Proof.
    intros H. apply event_step_crel in H. destruct H as (A1 & A2 & A3 & A4 & A5 & A6 & A7 & A8).
    unfold Q3, Q2, unc, rej, nrenx, nbr, nren in *. cbn in A1, A2, A3, A4, A5, A6, A7, A8.
    pose proof (cntb_nonneg is_renx (log s')). pose proof (cntb_nonneg is_br (log s')).
    split; [|split; [|apply nrenx_le_nren]].
    - unfold cstep, unc, rej, nrenx, nbr. repeat split; lia.
    - unfold nren. lia.
  Qed.
  Corollary event_step_cstep s s' : event_step cf s = Ok (tt, s') -> cstep (nrenx (log s')) (nbr (log s')) s s'.
  Proof. intros H. apply event_step_counts. exact H. Qed.

  (* ---------- any number of events ---------- *)
  Theorem run_many_counts : forall ds s s', run_many cf s ds = Ok s' ->
    cstep (nrenx (run_logs cf s ds)) (nbr (run_logs cf s ds)) s s'.
  Proof.
    induction ds as [|d r IH]; intros s s' H; cbn [run_many run_logs] in *; [inversion H; apply cstep_refl|].
    destruct (event_step cf (s <| dr := d |>)) as [[u s1]| |] eqn:E; try discriminate. destruct u.
    unfold nrenx, nbr. rewrite !cntb_app. eapply cstep_trans; [|eapply IH; exact H].
    apply (cstep_dr _ _ s s1 d). apply event_step_cstep. exact E.
  Qed.

  (* (3) every count is monotone over an event and over a run; hence once reached it stays reached *)
  Theorem event_step_count_mono m s s' : event_step cf s = Ok (tt, s') -> count_of m s <= count_of m s'.
  Proof. intros H. eapply cstep_count. eapply event_step_cstep. exact H. Qed.
  Theorem run_many_count_mono m ds s s' : run_many cf s ds = Ok s' -> count_of m s <= count_of m s'.
  Proof. intros H. eapply cstep_count. eapply run_many_counts. exact H. Qed.
  Corollary count_stays_reached m n ds s s' : run_many cf s ds = Ok s' -> n <= count_of m s -> n <= count_of m s'.
  Proof. intros H Hn. pose proof (run_many_count_mono m _ _ _ H). lia. Qed.

  (* the accounting identities in the words of the property: over any run
       (finished - completed) grows by the customers who reneged to the exit plus those refused on arrival,
       (arrived - accepted)   grows by those refused on arrival;
     hence the stage-1 quantity (finished - completed) - (arrived - accepted) grows by the customers who reneged to the exit *)
  Theorem run_many_accounts ds s s' : run_many cf s ds = Ok s' ->
    count_of 1 s' - count_of 0 s' = (count_of 1 s - count_of 0 s) + nrenx (run_logs cf s ds) + nbr (run_logs cf s ds) /\
    count_of 2 s' - count_of 3 s' = (count_of 2 s - count_of 3 s) + nbr (run_logs cf s ds) /\
    gap s' = gap s + nrenx (run_logs cf s ds).
  Proof.
    intros H. destruct (run_many_counts _ _ _ H) as (_ & _ & _ & _ & _ & _ & A7 & A8).
    change (count_of 0 s') with (exit_completed s'). change (count_of 1 s') with (exit_n s').
    change (count_of 2 s') with (a_created (arr s')). change (count_of 3 s') with (a_accepted (arr s')).
    change (count_of 0 s) with (exit_completed s). change (count_of 1 s) with (exit_n s).
    change (count_of 2 s) with (a_created (arr s)). change (count_of 3 s) with (a_accepted (arr s)).
    unfold gap, unc, rej in *. lia.
  Qed.
  (* an event that is not a renege leaves finished - completed - (arrived - accepted) alone; a renege adds at most 1 *)
  Theorem event_step_gap s s' : event_step cf s = Ok (tt, s') ->
    gap s' = gap s + nrenx (log s') /\ 0 <= nrenx (log s') <= b2z (renege_event s).
  Proof.
    intros H. destruct (event_step_counts _ _ H) as ((_ & _ & _ & _ & A5 & _ & A7 & A8) & B & C). unfold gap. lia.
  Qed.
End Counts.

(* ================================================================================================================ *)
(* the invariant, and an executable test of it                                                                       *)
(* ================================================================================================================ *)
Definition Cnt (s : sim) : Prop :=
  0 <= exit_completed s <= exit_n s /\ 0 <= a_accepted (arr s) <= a_created (arr s) /\ rej s <= unc s.
(* the configuration plays no role in the invariant; the argument is there for uniformity with the other invariants *)
Definition CInv (cf : config) (s : sim) : Prop := Conserve2.WFx2 [] s /\ Cnt s.

Definition cnt_b (s : sim) : bool :=
  (0 <=? exit_completed s) && (exit_completed s <=? exit_n s) && (0 <=? a_accepted (arr s)) &&
  (a_accepted (arr s) <=? a_created (arr s)) && (rej s <=? unc s).
Definition cinv_b (cf : config) (s : sim) : bool := Conserve2.wfx2_b s && cnt_b s.
Theorem cnt_b_sound s : cnt_b s = true -> Cnt s.
Proof.
  unfold cnt_b. intros H. apply andb_true_iff in H as [H H5]. apply andb_true_iff in H as [H H4].
  apply andb_true_iff in H as [H H3]. apply andb_true_iff in H as [H1 H2].
  apply Z.leb_le in H1. apply Z.leb_le in H2. apply Z.leb_le in H3. apply Z.leb_le in H4. apply Z.leb_le in H5. unfold Cnt. lia.
Qed.
Theorem cinv_b_sound cf s : cinv_b cf s = true -> CInv cf s.
Proof. unfold cinv_b. intros H. apply andb_true_iff in H as [H1 H2]. split; [apply Conserve2.wfx2_b_sound; exact H1|apply cnt_b_sound; exact H2]. Qed.

Lemma cstep_Cnt R B s s' : cstep R B s s' -> Cnt s -> Cnt s'.
Proof. unfold cstep, Cnt, unc, rej. intros (A1 & A2 & A3 & A4 & A5 & A6 & A7 & A8) (B1 & B2 & B3). repeat split; lia. Qed.

Lemma zsum_nonneg l : (forall x, In x l -> 0 <= x) -> 0 <= zsum l.
Proof.
  induction l as [|a r IH]; intros H; unfold zsum in *; cbn [fold_right]; [lia|].
  pose proof (H a (or_introl eq_refl)). assert (0 <= fold_right Z.add 0 r) by (apply IH; intros x Hx; apply H; right; exact Hx). lia.
Qed.

Section Invariant.
  Variable cf : config.

  Theorem event_step_cnt s s' : Cnt s -> event_step cf s = Ok (tt, s') -> Cnt s'.
  Proof. intros HC H. eapply cstep_Cnt; [eapply event_step_cstep; exact H|exact HC]. Qed.
  Theorem run_many_cnt ds s s' : Cnt s -> run_many cf s ds = Ok s' -> Cnt s'.
  Proof. intros HC H. eapply cstep_Cnt; [eapply run_many_counts; exact H|exact HC]. Qed.

  (* T2: one event, any number of events (every configuration, no hypothesis on the draws) *)
  Theorem event_step_count s s' : CInv cf s -> event_step cf s = Ok (tt, s') -> CInv cf s'.
  Proof. intros [HW HC] H. split; [eapply Conserve2.event_step_conserves2; eauto|eapply event_step_cnt; eauto]. Qed.
  Theorem run_many_count ds s s' : CInv cf s -> run_many cf s ds = Ok s' -> CInv cf s'.
  Proof. intros [HW HC] H. split; [eapply Conserve2.run_many_conserves2; eauto|eapply run_many_cnt; eauto]. Qed.
  Lemma CInv_dr s d : CInv cf s -> CInv cf (s <| dr := d |>).
  Proof. intros [HW HC]. split; [eapply Conserve2.WFx2_shape; [|exact HW]; reflexivity|exact HC]. Qed.

  (* (4) the invariant in the words of the property:
         0 <= completed <= finished <= arrived,  0 <= accepted <= arrived,
         arrived - accepted (baulked or rejected) <= finished - completed (baulked, rejected or reneged to the exit),
         and those arrived and not yet finished are the customers in the nodes *)
  Theorem count_means s : CInv cf s ->
    0 <= count_of 0 s /\ count_of 0 s <= count_of 1 s /\ count_of 1 s <= count_of 2 s /\
    0 <= count_of 3 s /\ count_of 3 s <= count_of 2 s /\
    count_of 2 s - count_of 3 s <= count_of 1 s - count_of 0 s /\
    count_of 2 s - count_of 1 s = zsum (map n_pop (nodes s)).
  Proof.
    intros [HW (B1 & B2 & B3)]. destruct (Conserve2.WFx2_means s HW) as (_ & _ & Hpop & _ & Hsum & _).
    assert (Hz : 0 <= zsum (map n_pop (nodes s))).
    { apply zsum_nonneg. intros x Hx. apply in_map_iff in Hx. destruct Hx as (nd & <- & Hnd). rewrite (Hpop nd Hnd). unfold zlen. lia. }
    unfold unc, rej in B3. change (count_of 0 s) with (exit_completed s). change (count_of 1 s) with (exit_n s).
    change (count_of 2 s) with (a_created (arr s)). change (count_of 3 s) with (a_accepted (arr s)).
    repeat split; lia.
  Qed.
End Invariant.

(* ================================================================================================================ *)
(* scope "no reneging anywhere": the stage-1 identity finished - completed = arrived - accepted is an invariant       *)
(* ================================================================================================================ *)
(* the executable scope restriction on the configuration: no node has a reneging distribution for any class *)
Definition no_reneging (cf : config) : bool := forallb (fun nc => negb (nc_reneging nc)) (cf_nodes cf).
(* no node is about to execute a renege (established by update_next_event_date at the end of every event) *)
Definition NoRenT (s : sim) : Prop := forall nd, In nd (nodes s) -> n_next_type nd <> 2.
Definition norent_b (s : sim) : bool := forallb (fun nd => negb (n_next_type nd =? 2)) (nodes s).
Lemma norent_b_sound s : norent_b s = true -> NoRenT s.
Proof.
  unfold norent_b, NoRenT. intros H nd Hnd Hty. rewrite forallb_forall in H. specialize (H nd Hnd). rewrite Hty in H. discriminate.
Qed.
Lemma NoRenT_event s : NoRenT s -> renege_event s = false.
Proof.
  intros HN. unfold renege_event. destruct (1 <=? next_active s); [|reflexivity]. cbn [andb].
  destruct (nthZ (nodes s) (next_active s - 1)) as [nd|] eqn:E; [|reflexivity].
  apply Z.eqb_neq. apply HN. unfold nthZ in E. destruct (next_active s - 1 <? 0); [discriminate|]. eapply nth_error_In. exact E.
Qed.

Definition CInv0 (cf : config) (s : sim) : Prop := CInv cf s /\ NoRenT s /\ gap s = 0.
Definition cinv0_b (cf : config) (s : sim) : bool := cinv_b cf s && norent_b s && (gap s =? 0).
Theorem cinv0_b_sound cf s : cinv0_b cf s = true -> CInv0 cf s.
Proof.
  unfold cinv0_b. intros H. apply andb_true_iff in H as [H H3]. apply andb_true_iff in H as [H1 H2].
  split; [apply cinv_b_sound; exact H1|]. split; [apply norent_b_sound; exact H2|apply Z.eqb_eq; exact H3].
Qed.

Section NoReneging.
  Variable cf : config.
  Hypothesis Hscope : no_reneging cf = true.

  (* after any event no node of a configuration without reneging is about to renege *)
  Lemma event_step_norent s s' : Conserve2.WFx2 [] s -> event_step cf s = Ok (tt, s') -> NoRenT s'.
  Proof.
    intros HW H nd Hnd Hty.
    assert (HI : Renege2.Idx s) by (destruct (Conserve2.WFx2_means s HW) as (_ & _ & _ & _ & _ & _ & _ & _ & HI); exact HI).
    destruct (Renege2.event_step_candidates cf s s' HI H nd Hnd) as (nc & Hnc & _ & H2).
    destruct (H2 Hty) as (_ & Hr & _).
    unfold nthZ in Hnc. destruct (n_id nd - 1 <? 0); [discriminate|]. apply nth_error_In in Hnc.
    unfold no_reneging in Hscope. rewrite forallb_forall in Hscope. specialize (Hscope nc Hnc). rewrite Hr in Hscope. discriminate.
  Qed.

  Theorem event_step_count0 s s' : CInv0 cf s -> event_step cf s = Ok (tt, s') -> CInv0 cf s'.
  Proof.
    intros (HC & HN & HG) H. split; [eapply event_step_count; eauto|]. split; [eapply event_step_norent; [exact (proj1 HC)|exact H]|].
    destruct (event_step_gap cf _ _ H) as (E & L). rewrite (NoRenT_event _ HN) in L. cbn [b2z] in L. lia.
  Qed.
  Theorem run_many_count0 : forall ds s s', CInv0 cf s -> run_many cf s ds = Ok s' -> CInv0 cf s'.
  Proof.
    induction ds as [|d r IH]; intros s s' HZ H; cbn [run_many] in H; [inversion H; subst s'; exact HZ|].
    destruct (event_step cf (s <| dr := d |>)) as [[u s1]| |] eqn:E; try discriminate. destruct u.
    eapply IH; [|exact H]. eapply event_step_count0; [|exact E].
    destruct HZ as (HC & HN & HG). split; [apply CInv_dr; exact HC|]. split; [exact HN|exact HG].
  Qed.
  (* stage 1's count_means, in its scope *)
  Theorem count_means0 s : CInv0 cf s ->
    0 <= count_of 0 s /\ count_of 0 s <= count_of 1 s /\ count_of 1 s <= count_of 2 s /\
    0 <= count_of 3 s /\ count_of 3 s <= count_of 2 s /\
    count_of 1 s - count_of 0 s = count_of 2 s - count_of 3 s /\
    count_of 2 s - count_of 1 s = zsum (map n_pop (nodes s)).
  Proof.
    intros (HC & _ & HG). destruct (count_means cf s HC) as (A1 & A2 & A3 & A4 & A5 & A6 & A7).
    repeat split; try assumption. unfold gap, unc, rej in HG.
    change (count_of 0 s) with (exit_completed s). change (count_of 1 s) with (exit_n s).
    change (count_of 2 s) with (a_created (arr s)). change (count_of 3 s) with (a_accepted (arr s)). lia.
  Qed.
End NoReneging.

(* ================================================================================================================ *)
(* the loops: "while test s do event_step", one record of draws per event                                            *)
(* ================================================================================================================ *)
Fixpoint chain (a : Z) (l : list Z) : Prop := match l with [] => True | x :: r => a <= x /\ chain x r end.
Lemma chain_le a b l : a <= b -> chain b l -> chain a l.
Proof. destruct l as [|x r]; cbn; [auto|]. intros H [H1 H2]. split; [lia|exact H2]. Qed.

(* next_active_node.next_event_date (None = float('inf')) and the test current_time < max_simulation_time *)
Definition next_date2 (s : sim) : option Z :=
  if next_active s =? 0 then a_next_date (arr s)
  else match nthZ (nodes s) (next_active s - 1) with Some nd => n_next_date nd | None => None end.
Definition before2 (T : Z) (s : sim) : bool := match next_date2 s with Some d => d <? T | None => false end.
(* check() < max_customers *)
Definition below (m n : Z) (s : sim) : bool := count_of m s <? n.

Lemma before2_true T s : before2 T s = true -> exists d, next_date2 s = Some d /\ d < T.
Proof. unfold before2. destruct (next_date2 s) as [d|]; [|discriminate]. intros H. apply Z.ltb_lt in H. exists d. auto. Qed.
Lemma before2_mono T1 T s : T1 <= T -> before2 T1 s = true -> before2 T s = true.
Proof. intros HT H. destruct (before2_true _ _ H) as (d & Hd & Hlt). unfold before2. rewrite Hd. apply Z.ltb_lt. lia. Qed.
Lemma below_mono m n1 n s : n1 <= n -> below m n1 s = true -> below m n s = true.
Proof. unfold below. intros Hn H. apply Z.ltb_lt in H. apply Z.ltb_lt. lia. Qed.

Section Loops.
  Variable cf : config.

  (* ---------- the generic loop ---------- *)
  Fixpoint run_while (test : sim -> bool) (s : sim) (ds : list draws) : res (sim * list draws) :=
    match ds with
    | [] => Ok (s, [])
    | d :: r =>
      if test s then
        match event_step cf (s <| dr := d |>) with
        | Ok (_, s') => run_while test s' r
        | Err e => Err e
        | OutOfFuel => OutOfFuel
        end
      else Ok (s, ds)
    end.
  (* the same loop, also returning the states from which an event was executed, in order *)
  Fixpoint run_while_tr (test : sim -> bool) (s : sim) (ds : list draws) : res (list sim * sim * list draws) :=
    match ds with
    | [] => Ok ([], s, [])
    | d :: r =>
      if test s then
        match event_step cf (s <| dr := d |>) with
        | Ok (_, s') =>
          match run_while_tr test s' r with
          | Ok (tr, s'', rest) => Ok (s :: tr, s'', rest)
          | Err e => Err e
          | OutOfFuel => OutOfFuel
          end
        | Err e => Err e
        | OutOfFuel => OutOfFuel
        end
      else Ok ([], s, ds)
    end.

  Lemma run_while_forget test : forall ds s,
    run_while test s ds = match run_while_tr test s ds with Ok (_, s', r) => Ok (s', r) | Err e => Err e | OutOfFuel => OutOfFuel end.
  Proof.
    induction ds as [|d r IH]; intros s; cbn [run_while run_while_tr]; [reflexivity|].
    destruct (test s); [|reflexivity].
    destruct (event_step cf (s <| dr := d |>)) as [[u s1]| |]; try reflexivity.
    rewrite IH. destruct (run_while_tr test s1 r) as [[[tr s2] rest]| |]; reflexivity.
  Qed.
  Lemma run_while_has_trace test ds s s' rest : run_while test s ds = Ok (s', rest) -> exists tr, run_while_tr test s ds = Ok (tr, s', rest).
  Proof.
    rewrite run_while_forget. destruct (run_while_tr test s ds) as [[[tr s2] rest2]| |]; intros H; try discriminate.
    inversion H. subst s2 rest2. exists tr. reflexivity.
  Qed.

  (* with no hypothesis at all: the loop consumed a prefix `used` of the draws, its result is Codec2.run_many on that prefix,
     every state from which an event was executed is run_many of a shorter prefix and passed the test, and when draws are left
     over the loop stopped because the test failed *)
  Lemma run_while_tr_spec test : forall ds s tr s' rest, run_while_tr test s ds = Ok (tr, s', rest) ->
    exists used, ds = used ++ rest /\ length used = length tr /\ run_many cf s used = Ok s' /\
      Forall (fun x => test x = true) tr /\ (rest <> [] -> test s' = false) /\
      (forall k x, nth_error tr k = Some x -> run_many cf s (firstn k used) = Ok x).
  Proof.
    induction ds as [|d r IH]; intros s tr s' rest H; cbn [run_while_tr] in H.
    - inversion H. subst tr s' rest. exists []. split; [reflexivity|]. split; [reflexivity|]. split; [reflexivity|]. split; [constructor|].
      split; [intros Hne; exfalso; apply Hne; reflexivity|]. intros k x Hk. destruct k; discriminate.
    - destruct (test s) eqn:Eb.
      + destruct (event_step cf (s <| dr := d |>)) as [[u s1]| |] eqn:Ee; try discriminate.
        destruct (run_while_tr test s1 r) as [[[tr1 s2] rest1]| |] eqn:Er; try discriminate.
        inversion H. subst tr s' rest. clear H.
        destruct (IH _ _ _ _ Er) as (used & E1 & E2 & E3 & E4 & E5 & E6).
        exists (d :: used). split; [cbn [app]; f_equal; exact E1|]. split; [cbn [length]; f_equal; exact E2|].
        split; [cbn [run_many]; rewrite Ee; exact E3|]. split; [constructor; [exact Eb|exact E4]|]. split; [exact E5|].
        intros k x Hk. destruct k as [|k]; cbn [nth_error] in Hk.
        * injection Hk as <-. reflexivity.
        * cbn [firstn run_many]. rewrite Ee. apply E6. exact Hk.
      + inversion H. subst tr s' rest. exists []. split; [reflexivity|]. split; [reflexivity|]. split; [reflexivity|]. split; [constructor|].
        split; [intros _; exact Eb|]. intros k x Hk. destruct k; discriminate.
  Qed.

  (* agreement with Codec2.run_many on the consumed draws; with draws to spare the test fails at return *)
  Theorem run_while_run_many test ds s s' rest : run_while test s ds = Ok (s', rest) ->
    exists used, ds = used ++ rest /\ run_many cf s used = Ok s' /\ (rest <> [] -> test s' = false).
  Proof.
    intros H. destruct (run_while_has_trace _ _ _ _ _ H) as [tr Htr].
    destruct (run_while_tr_spec _ _ _ _ _ _ Htr) as (used & E1 & _ & E3 & _ & E5 & _). exists used. auto.
  Qed.
  (* the loop stopped at the FIRST state at which the test fails: the state reached after each shorter prefix passed it *)
  Theorem run_while_first test ds s s' rest : run_while test s ds = Ok (s', rest) ->
    exists used, ds = used ++ rest /\ run_many cf s used = Ok s' /\ (rest <> [] -> test s' = false) /\
      forall k, (k < length used)%nat -> exists x, run_many cf s (firstn k used) = Ok x /\ test x = true.
  Proof.
    intros H. destruct (run_while_has_trace _ _ _ _ _ H) as [tr Htr].
    destruct (run_while_tr_spec _ _ _ _ _ _ Htr) as (used & E1 & E2 & E3 & E4 & E5 & E6). exists used.
    split; [exact E1|]. split; [exact E3|]. split; [exact E5|].
    intros k Hk. rewrite E2 in Hk. apply nth_error_Some in Hk.
    destruct (nth_error tr k) as [x|] eqn:Ex; [|exfalso; apply Hk; reflexivity].
    exists x. split; [apply E6; exact Ex|]. rewrite Forall_forall in E4. apply E4. eapply nth_error_In; exact Ex.
  Qed.

  Lemma run_many_app : forall a b s,
    run_many cf s (a ++ b) = match run_many cf s a with Ok x => run_many cf x b | Err e => Err e | OutOfFuel => OutOfFuel end.
  Proof.
    induction a as [|d r IH]; intros b s; cbn [app run_many]; [reflexivity|].
    destruct (event_step cf (s <| dr := d |>)) as [[u s1]| |]; try reflexivity. apply IH.
  Qed.

  (* said of the last executed event: the test held before it and fails after it *)
  Theorem run_while_last test ds s s' rest u0 d : run_while test s ds = Ok (s', rest) -> rest <> [] -> ds = (u0 ++ [d]) ++ rest ->
    exists x, run_many cf s u0 = Ok x /\ test x = true /\ event_step cf (x <| dr := d |>) = Ok (tt, s') /\ test s' = false.
  Proof.
    intros H Hne Hds. destruct (run_while_first _ _ _ _ _ H) as (used & E1 & E3 & E5 & E6).
    assert (Hu : used = u0 ++ [d]) by (rewrite E1 in Hds; apply app_inv_tail in Hds; exact Hds).
    rewrite Hu in E3, E6. clear Hu E1.
    destruct (E6 (length u0)) as (x & Hx & Hlt); [rewrite app_length; cbn [length]; lia|].
    rewrite firstn_app, firstn_all, Nat.sub_diag in Hx. cbn [firstn] in Hx. rewrite app_nil_r in Hx.
    exists x. split; [exact Hx|]. split; [exact Hlt|]. split; [|exact (E5 Hne)].
    rewrite run_many_app, Hx in E3. cbn [run_many] in E3.
    destruct (event_step cf (x <| dr := d |>)) as [[u s1]| |]; try discriminate. destruct u. inversion E3. reflexivity.
  Qed.

  (* along the loop every one of the four counts is nondecreasing *)
  Theorem run_while_tr_mono test m' : forall ds s tr s' rest, run_while_tr test s ds = Ok (tr, s', rest) ->
    chain (count_of m' s) (map (count_of m') tr ++ [count_of m' s']).
  Proof.
    induction ds as [|d r IH]; intros s tr s' rest H; cbn [run_while_tr] in H.
    - inversion H. subst tr s' rest. cbn. lia.
    - destruct (test s) eqn:Eb.
      + destruct (event_step cf (s <| dr := d |>)) as [[u s1]| |] eqn:Ee; try discriminate. destruct u.
        destruct (run_while_tr test s1 r) as [[[tr1 s2] rest1]| |] eqn:Er; try discriminate.
        inversion H. subst tr s' rest. clear H.
        pose proof (event_step_count_mono cf m' _ _ Ee) as L1. change (count_of m' (s <| dr := d |>)) with (count_of m' s) in L1.
        cbn [map app chain]. split; [lia|]. eapply chain_le; [exact L1|]. eapply IH. exact Er.
      + inversion H. subst tr s' rest. cbn. lia.
  Qed.

  (* any property that every event preserves (whatever the draws offered) holds at every state from which an event was
     executed and at return *)
  Theorem run_while_tr_pres test (P : sim -> Prop) :
    (forall s d s', P s -> event_step cf (s <| dr := d |>) = Ok (tt, s') -> P s') ->
    forall ds s tr s' rest, P s -> run_while_tr test s ds = Ok (tr, s', rest) -> Forall P tr /\ P s'.
  Proof.
    intros HP. induction ds as [|d r IH]; intros s tr s' rest HZ H; cbn [run_while_tr] in H.
    - inversion H. subst tr s' rest. split; [constructor|exact HZ].
    - destruct (test s) eqn:Eb.
      + destruct (event_step cf (s <| dr := d |>)) as [[u s1]| |] eqn:Ee; try discriminate. destruct u.
        destruct (run_while_tr test s1 r) as [[[tr1 s2] rest1]| |] eqn:Er; try discriminate.
        inversion H. subst tr s' rest. clear H.
        destruct (IH _ _ _ _ (HP _ _ _ HZ Ee) Er) as [A B]. split; [constructor; [exact HZ|exact A]|exact B].
      + inversion H. subst tr s' rest. split; [constructor|exact HZ].
  Qed.
  Lemma CInv_step s d s' : CInv cf s -> event_step cf (s <| dr := d |>) = Ok (tt, s') -> CInv cf s'.
  Proof. intros HZ H. eapply event_step_count; [apply CInv_dr; exact HZ|exact H]. Qed.

  (* pause / resume: a call with a test followed by a call with a weaker test on the remaining draws is one call with the
     weaker test.  No hypothesis on the state: between events the state is already "picked" (C16's proviso holds by construction) *)
  Theorem run_while_split_eq test1 test2 : (forall s, test1 s = true -> test2 s = true) -> forall ds s,
    run_while test2 s ds =
    match run_while test1 s ds with Ok (s1, r1) => run_while test2 s1 r1 | Err e => Err e | OutOfFuel => OutOfFuel end.
  Proof.
    intros Hw. induction ds as [|d r IH]; intros s; cbn [run_while]; [reflexivity|].
    destruct (test1 s) eqn:Eb; [|reflexivity].
    rewrite (Hw _ Eb). destruct (event_step cf (s <| dr := d |>)) as [[u s2]| |]; try reflexivity. apply IH.
  Qed.
  Theorem run_while_tr_split test1 test2 : (forall s, test1 s = true -> test2 s = true) ->
    forall ds s tr1 s1 r1, run_while_tr test1 s ds = Ok (tr1, s1, r1) ->
    run_while_tr test2 s ds =
    match run_while_tr test2 s1 r1 with Ok (tr2, s2, r2) => Ok (tr1 ++ tr2, s2, r2) | Err e => Err e | OutOfFuel => OutOfFuel end.
  Proof.
    intros Hw. induction ds as [|d r IH]; intros s tr1 s1 r1 H; cbn [run_while_tr] in H.
    - inversion H. subst tr1 s1 r1. cbn [run_while_tr]. reflexivity.
    - destruct (test1 s) eqn:Eb.
      + destruct (event_step cf (s <| dr := d |>)) as [[u s2]| |] eqn:Ee; try discriminate.
        destruct (run_while_tr test1 s2 r) as [[[tr0 s3] rest0]| |] eqn:Er; try discriminate.
        inversion H. subst tr1 s1 r1. clear H.
        cbn [run_while_tr]. rewrite (Hw _ Eb), Ee, (IH _ _ _ _ Er).
        destruct (run_while_tr test2 s3 rest0) as [[[tr2 s4] r2]| |]; reflexivity.
      + inversion H. subst tr1 s1 r1. clear H. cbn [app].
        destruct (run_while_tr test2 s (d :: r)) as [[[tr2 s4] r2]| |]; reflexivity.
  Qed.

  (* ================= the count loop: simulate_until_max_customers(n, method m) ================= *)
  Definition run_count (m n : Z) : sim -> list draws -> res (sim * list draws) := run_while (below m n).
  Definition run_count_tr (m n : Z) : sim -> list draws -> res (list sim * sim * list draws) := run_while_tr (below m n).
  (* the loop, spelled out *)
  Lemma run_count_eq m n s d r :
    run_count m n s [] = Ok (s, []) /\
    run_count m n s (d :: r) =
      if count_of m s <? n then
        match event_step cf (s <| dr := d |>) with Ok (_, s') => run_count m n s' r | Err e => Err e | OutOfFuel => OutOfFuel end
      else Ok (s, d :: r).
  Proof. split; reflexivity. Qed.

  Lemma run_count_has_trace m n ds s s' rest : run_count m n s ds = Ok (s', rest) -> exists tr, run_count_tr m n s ds = Ok (tr, s', rest).
  Proof. apply run_while_has_trace. Qed.

  (* (1) run_count agrees with Codec2.run_many on the draws it consumed; (2) with draws to spare the count has reached n *)
  Theorem run_count_run_many m n ds s s' rest : run_count m n s ds = Ok (s', rest) ->
    exists used, ds = used ++ rest /\ run_many cf s used = Ok s' /\ (rest <> [] -> n <= count_of m s').
  Proof.
    intros H. destruct (run_while_run_many _ _ _ _ _ H) as (used & E1 & E2 & E3). exists used.
    split; [exact E1|]. split; [exact E2|]. intros Hne. apply Z.ltb_ge. exact (E3 Hne).
  Qed.
  (* (2) an event is executed only while the count is below n, and the loop stopped after the FIRST event at which the count
     reached n: the state reached after each shorter prefix of the consumed draws had count < n *)
  Theorem run_count_first m n ds s s' rest : run_count m n s ds = Ok (s', rest) ->
    exists used, ds = used ++ rest /\ run_many cf s used = Ok s' /\ (rest <> [] -> n <= count_of m s') /\
      forall k, (k < length used)%nat -> exists x, run_many cf s (firstn k used) = Ok x /\ count_of m x < n.
  Proof.
    intros H. destruct (run_while_first _ _ _ _ _ H) as (used & E1 & E2 & E3 & E4). exists used.
    split; [exact E1|]. split; [exact E2|]. split; [intros Hne; apply Z.ltb_ge; exact (E3 Hne)|].
    intros k Hk. destruct (E4 k Hk) as (x & Hx & Ht). exists x. split; [exact Hx|apply Z.ltb_lt; exact Ht].
  Qed.
  (* (2) said of the last executed event: it took the count from below n to n or above *)
  Theorem run_count_last m n ds s s' rest u0 d : run_count m n s ds = Ok (s', rest) -> rest <> [] -> ds = (u0 ++ [d]) ++ rest ->
    exists x, run_many cf s u0 = Ok x /\ count_of m x < n /\ event_step cf (x <| dr := d |>) = Ok (tt, s') /\ n <= count_of m s'.
  Proof.
    intros H Hne Hds. destruct (run_while_last _ _ _ _ _ _ _ H Hne Hds) as (x & A & B & C & D).
    exists x. split; [exact A|]. split; [apply Z.ltb_lt; exact B|]. split; [exact C|apply Z.ltb_ge; exact D].
  Qed.
  (* (3) along the loop every one of the four counts (not only the watched one) is nondecreasing *)
  Theorem run_count_tr_mono m n m' ds s tr s' rest : run_count_tr m n s ds = Ok (tr, s', rest) ->
    chain (count_of m' s) (map (count_of m') tr ++ [count_of m' s']).
  Proof. apply run_while_tr_mono. Qed.
  (* the invariant (conservation included) holds at every state from which an event was executed and at return *)
  Theorem run_count_tr_inv m n ds s tr s' rest : CInv cf s -> run_count_tr m n s ds = Ok (tr, s', rest) -> Forall (CInv cf) tr /\ CInv cf s'.
  Proof. apply run_while_tr_pres. intros x d x'. apply CInv_step. Qed.
  Theorem run_count_inv m n ds s s' rest : CInv cf s -> run_count m n s ds = Ok (s', rest) -> CInv cf s' /\ count_of m s <= count_of m s'.
  Proof.
    intros HZ H. destruct (run_count_run_many _ _ _ _ _ _ H) as (used & _ & E2 & _).
    split; [eapply run_many_count; eauto|eapply run_many_count_mono; eauto].
  Qed.

  (* pause / resume: a call to n1 followed by a call to n >= n1 on the remaining draws is one call to n (any method);
     in particular calling again with the same n does nothing *)
  Theorem run_count_split_eq m n1 n : n1 <= n -> forall ds s,
    run_count m n s ds =
    match run_count m n1 s ds with Ok (s1, r1) => run_count m n s1 r1 | Err e => Err e | OutOfFuel => OutOfFuel end.
  Proof. intros Hn. apply run_while_split_eq. intros s. apply below_mono. exact Hn. Qed.
  Theorem run_count_split m n1 n : n1 <= n -> forall ds s s1 r1, run_count m n1 s ds = Ok (s1, r1) ->
    run_count m n s1 r1 = run_count m n s ds.
  Proof. intros Hn ds s s1 r1 H. rewrite (run_count_split_eq m n1 n Hn ds s), H. reflexivity. Qed.
  Theorem run_count_tr_split m n1 n : n1 <= n -> forall ds s tr1 s1 r1, run_count_tr m n1 s ds = Ok (tr1, s1, r1) ->
    run_count_tr m n s ds =
    match run_count_tr m n s1 r1 with Ok (tr2, s2, r2) => Ok (tr1 ++ tr2, s2, r2) | Err e => Err e | OutOfFuel => OutOfFuel end.
  Proof. intros Hn. apply run_while_tr_split. intros s. apply below_mono. exact Hn. Qed.
  Corollary run_count_again m n ds s s' rest : run_count m n s ds = Ok (s', rest) -> run_count m n s' rest = Ok (s', rest).
  Proof. intros H. rewrite (run_count_split m n n (Z.le_refl n) _ _ _ _ H). exact H. Qed.

  (* ---------- C14, second half, in the words of the property ---------- *)
  Theorem engine_count m n ds s s' rest : CInv cf s -> run_count m n s ds = Ok (s', rest) ->
    exists used tr,
      (* the loop consumed a prefix of the draws and its result is the engine run on that prefix *)
      ds = used ++ rest /\ length tr = length used /\ run_many cf s used = Ok s' /\
      (* tr lists the states from which an event was executed *)
      (forall k x, nth_error tr k = Some x -> run_many cf s (firstn k used) = Ok x) /\
      (* before every executed event the count was below n *)
      Forall (fun x => count_of m x < n) tr /\
      (* with draws to spare, the loop stopped because the count had reached n: after the first such event *)
      (rest <> [] -> n <= count_of m s') /\
      (* all four counts are nondecreasing along the run *)
      (forall m', chain (count_of m' s) (map (count_of m') tr ++ [count_of m' s'])) /\
      (* the invariants hold throughout and at return: unfinished customers are left in place (conservation), and
         completed <= finished <= arrived, accepted <= arrived, arrived - accepted <= finished - completed *)
      Forall (CInv cf) tr /\ CInv cf s' /\
      (* the accounting of the whole call *)
      count_of 1 s' - count_of 0 s' = (count_of 1 s - count_of 0 s) + nrenx (run_logs cf s used) + nbr (run_logs cf s used) /\
      count_of 2 s' - count_of 3 s' = (count_of 2 s - count_of 3 s) + nbr (run_logs cf s used).
  Proof.
    intros HZ H. destruct (run_count_has_trace _ _ _ _ _ _ H) as [tr Htr].
    destruct (run_while_tr_spec _ _ _ _ _ _ Htr) as (used & E1 & E2 & E3 & E4 & E5 & E6).
    destruct (run_count_tr_inv _ _ _ _ _ _ _ HZ Htr) as [I1 I2]. destruct (run_many_accounts cf _ _ _ E3) as (A1 & A2 & _).
    exists used, tr. split; [exact E1|]. split; [symmetry; exact E2|]. split; [exact E3|]. split; [exact E6|].
    split; [eapply Forall_impl; [|exact E4]; intros x Hx; apply Z.ltb_lt; exact Hx|].
    split; [intros Hne; apply Z.ltb_ge; exact (E5 Hne)|]. split; [intros m'; eapply run_count_tr_mono; exact Htr|].
    split; [exact I1|]. split; [exact I2|]. split; [exact A1|exact A2].
  Qed.

  (* ================= the time loop: simulate_until_max_time(T) ================= *)
  Definition run_until2 (T : Z) : sim -> list draws -> res (sim * list draws) := run_while (before2 T).
  Definition run_until2_tr (T : Z) : sim -> list draws -> res (list sim * sim * list draws) := run_while_tr (before2 T).
  Lemma run_until2_eq T s d r :
    run_until2 T s [] = Ok (s, []) /\
    run_until2 T s (d :: r) =
      if before2 T s then
        match event_step cf (s <| dr := d |>) with Ok (_, s') => run_until2 T s' r | Err e => Err e | OutOfFuel => OutOfFuel end
      else Ok (s, d :: r).
  Proof. split; reflexivity. Qed.
  Lemma run_until2_has_trace T ds s s' rest : run_until2 T s ds = Ok (s', rest) -> exists tr, run_until2_tr T s ds = Ok (tr, s', rest).
  Proof. apply run_while_has_trace. Qed.

  (* agreement with Codec2.run_many; an event is executed only while the active node's date is < T, and with draws to spare
     the loop stopped because that date is >= T (or infinite) *)
  Theorem run_until2_run_many T ds s s' rest : run_until2 T s ds = Ok (s', rest) ->
    exists used, ds = used ++ rest /\ run_many cf s used = Ok s' /\ (rest <> [] -> before2 T s' = false).
  Proof. apply run_while_run_many. Qed.
  Theorem run_until2_first T ds s s' rest : run_until2 T s ds = Ok (s', rest) ->
    exists used, ds = used ++ rest /\ run_many cf s used = Ok s' /\ (rest <> [] -> before2 T s' = false) /\
      forall k, (k < length used)%nat -> exists x d, run_many cf s (firstn k used) = Ok x /\ next_date2 x = Some d /\ d < T.
  Proof.
    intros H. destruct (run_while_first _ _ _ _ _ H) as (used & E1 & E2 & E3 & E4). exists used.
    split; [exact E1|]. split; [exact E2|]. split; [exact E3|].
    intros k Hk. destruct (E4 k Hk) as (x & Hx & Ht). destruct (before2_true _ _ Ht) as (d & Hd & Hlt). exists x, d. auto.
  Qed.
  Theorem run_until2_last T ds s s' rest u0 d : run_until2 T s ds = Ok (s', rest) -> rest <> [] -> ds = (u0 ++ [d]) ++ rest ->
    exists x, run_many cf s u0 = Ok x /\ before2 T x = true /\ event_step cf (x <| dr := d |>) = Ok (tt, s') /\ before2 T s' = false.
  Proof. apply run_while_last. Qed.
  Theorem run_until2_tr_mono T m' ds s tr s' rest : run_until2_tr T s ds = Ok (tr, s', rest) ->
    chain (count_of m' s) (map (count_of m') tr ++ [count_of m' s']).
  Proof. apply run_while_tr_mono. Qed.
  Theorem run_until2_tr_inv T ds s tr s' rest : CInv cf s -> run_until2_tr T s ds = Ok (tr, s', rest) -> Forall (CInv cf) tr /\ CInv cf s'.
  Proof. apply run_while_tr_pres. intros x d x'. apply CInv_step. Qed.

  (* C16, pause / resume: a call to T1 followed by a call to T >= T1 on the remaining draws is one call to T.  No clock
     invariant, no hypothesis on configuration, state or draws *)
  Theorem run_until2_split_eq T1 T : T1 <= T -> forall ds s,
    run_until2 T s ds =
    match run_until2 T1 s ds with Ok (s1, r1) => run_until2 T s1 r1 | Err e => Err e | OutOfFuel => OutOfFuel end.
  Proof. intros HT. apply run_while_split_eq. intros s. apply before2_mono. exact HT. Qed.
  Theorem run_until2_split T1 T : T1 <= T -> forall ds s s1 r1, run_until2 T1 s ds = Ok (s1, r1) ->
    run_until2 T s1 r1 = run_until2 T s ds.
  Proof. intros HT ds s s1 r1 H. rewrite (run_until2_split_eq T1 T HT ds s), H. reflexivity. Qed.
  Theorem run_until2_tr_split T1 T : T1 <= T -> forall ds s tr1 s1 r1, run_until2_tr T1 s ds = Ok (tr1, s1, r1) ->
    run_until2_tr T s ds =
    match run_until2_tr T s1 r1 with Ok (tr2, s2, r2) => Ok (tr1 ++ tr2, s2, r2) | Err e => Err e | OutOfFuel => OutOfFuel end.
  Proof. intros HT. apply run_while_tr_split. intros s. apply before2_mono. exact HT. Qed.
  Corollary run_until2_again T ds s s' rest : run_until2 T s ds = Ok (s', rest) -> run_until2 T s' rest = Ok (s', rest).
  Proof. intros H. rewrite (run_until2_split T T (Z.le_refl T) _ _ _ _ H). exact H. Qed.

  Theorem engine_until2 T ds s s' rest : CInv cf s -> run_until2 T s ds = Ok (s', rest) ->
    exists used tr,
      ds = used ++ rest /\ length tr = length used /\ run_many cf s used = Ok s' /\
      (forall k x, nth_error tr k = Some x -> run_many cf s (firstn k used) = Ok x) /\
      (* every executed event was scheduled (at the active node) strictly before T *)
      Forall (fun x => exists d, next_date2 x = Some d /\ d < T) tr /\
      (* with draws to spare, the loop stopped because the active node's date is not before T *)
      (rest <> [] -> before2 T s' = false) /\
      (forall m', chain (count_of m' s) (map (count_of m') tr ++ [count_of m' s'])) /\
      Forall (CInv cf) tr /\ CInv cf s'.
  Proof.
    intros HZ H. destruct (run_until2_has_trace _ _ _ _ _ H) as [tr Htr].
    destruct (run_while_tr_spec _ _ _ _ _ _ Htr) as (used & E1 & E2 & E3 & E4 & E5 & E6).
    destruct (run_until2_tr_inv _ _ _ _ _ _ HZ Htr) as [I1 I2].
    exists used, tr. split; [exact E1|]. split; [symmetry; exact E2|]. split; [exact E3|]. split; [exact E6|].
    split; [eapply Forall_impl; [|exact E4]; intros x Hx; apply before2_true; exact Hx|].
    split; [exact E5|]. split; [intros m'; eapply run_until2_tr_mono; exact Htr|]. split; [exact I1|exact I2].
  Qed.

End Loops.

(* ================================================================================================================ *)
(* both loops are instances of the abstract loops of Sub/Loop.v                                                      *)
(* ================================================================================================================ *)
(* state = (result so far, draws left); pick = identity (the model's states are already "picked"); event = one event_step
   with the next record of draws; fuel = number of records.  Loop.v's count / date of a state from which the loop cannot
   continue (the run has failed, or the draws have run out) is read as n / infinity, i.e. "reached". *)
Definition LS2 : Type := (res sim * list draws)%type.
Definition l_event (cf : config) (x : LS2) : LS2 :=
  match x with
  | (Ok s, d :: r) => (match event_step cf (s <| dr := d |>) with Ok (_, s') => Ok s' | Err e => Err e | OutOfFuel => OutOfFuel end, r)
  | _ => x
  end.
Definition l_out (x : LS2) : res (sim * list draws) :=
  match fst x with Ok s => Ok (s, snd x) | Err e => Err e | OutOfFuel => OutOfFuel end.
Definition l_count (m n : Z) (x : LS2) : Z := match x with (Ok s, _ :: _) => count_of m s | _ => n end.
Definition l_cloop (cf : config) (m n : Z) (fuel : nat) (x : LS2) : option (list Z * LS2) :=
  Loop.loop_count LS2 (fun x => x) (l_event cf) (l_count m n) n fuel x.
Definition l_date (x : LS2) : option Z := match x with (Ok s, _ :: _) => next_date2 s | _ => None end.
Definition l_loop (cf : config) (T : Z) (fuel : nat) (x : LS2) : option (list Z * LS2) :=
  Loop.loop_time LS2 (fun x => x) (l_event cf) l_date T fuel x.

Lemma l_cloop_stopped cf m n fuel x : (l_count m n x <? n) = false -> l_cloop cf m n fuel x = Some ([], x).
Proof. intros H. unfold l_cloop. destruct fuel; cbn [Loop.loop_count]; rewrite H; reflexivity. Qed.
Lemma l_loop_stopped cf T fuel x : Loop.before LS2 l_date T x = false -> l_loop cf T fuel x = Some ([], x).
Proof. intros H. unfold l_loop. destruct fuel; cbn [Loop.loop_time]; rewrite H; reflexivity. Qed.

Theorem run_count_is_loop cf m n : forall ds s, exists cs r,
  l_cloop cf m n (length ds) (Ok s, ds) = Some (cs, r) /\ l_out r = run_count cf m n s ds /\
  (forall tr s' rest, run_count_tr cf m n s ds = Ok (tr, s', rest) -> cs = map (count_of m) tr).
Proof.
  unfold run_count, run_count_tr. induction ds as [|d r IH]; intros s.
  - exists [], (Ok s, []). split; [apply l_cloop_stopped; cbn [l_count]; apply Z.ltb_irrefl|]. split; [reflexivity|].
    intros tr s' rest H. cbn [run_while_tr] in H. inversion H. reflexivity.
  - assert (Eb : (l_count m n (Ok s, d :: r) <? n) = below m n s) by reflexivity.
    destruct (below m n s) eqn:Eb'.
    + unfold l_cloop. cbn [length Loop.loop_count]. rewrite Eb. cbv beta. cbn [l_event].
      cbn [run_while run_while_tr]. rewrite Eb'.
      destruct (event_step cf (s <| dr := d |>)) as [[u s1]| |] eqn:Ee.
      * destruct (IH s1) as (cs & r0 & El & Eo & Etr). unfold l_cloop in El. rewrite El.
        exists (count_of m s :: cs), r0. split; [reflexivity|]. split; [exact Eo|].
        intros tr s' rest H. destruct (run_while_tr cf (below m n) s1 r) as [[[tr1 s2] rest1]| |] eqn:Er; try discriminate.
        inversion H. subst tr s' rest. cbn [map]. f_equal. eapply Etr. reflexivity.
      * fold (l_cloop cf m n (length r) (Err site, r)). rewrite l_cloop_stopped by (cbn [l_count]; apply Z.ltb_irrefl).
        exists [count_of m s], (Err site, r). split; [reflexivity|]. split; [reflexivity|]. intros tr s' rest H. discriminate.
      * fold (l_cloop cf m n (length r) (OutOfFuel, r)). rewrite l_cloop_stopped by (cbn [l_count]; apply Z.ltb_irrefl).
        exists [count_of m s], (OutOfFuel, r). split; [reflexivity|]. split; [reflexivity|]. intros tr s' rest H. discriminate.
    + exists [], (Ok s, d :: r). split; [apply l_cloop_stopped; rewrite Eb; reflexivity|].
      cbn [run_while run_while_tr]. rewrite Eb'. split; [reflexivity|]. intros tr s' rest H. inversion H. reflexivity.
Qed.
(* what the abstract C14 theorem Loop.loop_count_post says of run_count *)
Corollary run_count_loop_post cf m n ds s s' rest : run_count cf m n s ds = Ok (s', rest) ->
  exists cs, l_cloop cf m n (length ds) (Ok s, ds) = Some (cs, (Ok s', rest)) /\
             Forall (fun c => c < n) cs /\ n <= l_count m n (Ok s', rest).
Proof.
  intros H. destruct (run_count_is_loop cf m n ds s) as (cs & r & El & Eo & _).
  rewrite H in Eo. destruct r as [[s0| |] rest0]; cbn in Eo; try discriminate. inversion Eo. subst s0 rest0.
  exists cs. split; [exact El|]. exact (Loop.loop_count_post LS2 (fun x => x) (l_event cf) (l_count m n) n _ _ _ _ El).
Qed.

Theorem run_until2_is_loop cf T : forall ds s, exists dates r,
  l_loop cf T (length ds) (Ok s, ds) = Some (dates, r) /\ l_out r = run_until2 cf T s ds /\
  (forall tr s' rest, run_until2_tr cf T s ds = Ok (tr, s', rest) -> map Some dates = map next_date2 tr).
Proof.
  unfold run_until2, run_until2_tr. induction ds as [|d r IH]; intros s.
  - exists [], (Ok s, []). split; [apply l_loop_stopped; reflexivity|]. split; [reflexivity|].
    intros tr s' rest H. cbn [run_while_tr] in H. inversion H. reflexivity.
  - assert (Eb : Loop.before LS2 l_date T (Ok s, d :: r) = before2 T s) by reflexivity.
    destruct (before2 T s) eqn:Eb'.
    + unfold l_loop. cbn [length Loop.loop_time]. rewrite Eb. cbv beta. cbn [l_event].
      destruct (before2_true _ _ Eb') as (x & Hx & _).
      cbn [run_while run_while_tr]. rewrite Eb'.
      destruct (event_step cf (s <| dr := d |>)) as [[u s1]| |] eqn:Ee.
      * destruct (IH s1) as (dates & r0 & El & Eo & Etr). unfold l_loop in El. rewrite El.
        exists (x :: dates), r0. cbn [l_date]. rewrite Hx. split; [reflexivity|]. split; [exact Eo|].
        intros tr s' rest H. destruct (run_while_tr cf (before2 T) s1 r) as [[[tr1 s2] rest1]| |] eqn:Er; try discriminate.
        inversion H. subst tr s' rest. cbn [map]. rewrite Hx. f_equal. eapply Etr. reflexivity.
      * fold (l_loop cf T (length r) (Err site, r)). rewrite l_loop_stopped by reflexivity.
        exists [x], (Err site, r). cbn [l_date]. rewrite Hx. split; [reflexivity|]. split; [reflexivity|]. intros tr s' rest H. discriminate.
      * fold (l_loop cf T (length r) (OutOfFuel, r)). rewrite l_loop_stopped by reflexivity.
        exists [x], (OutOfFuel, r). cbn [l_date]. rewrite Hx. split; [reflexivity|]. split; [reflexivity|]. intros tr s' rest H. discriminate.
    + exists [], (Ok s, d :: r). split; [apply l_loop_stopped; rewrite Eb; reflexivity|].
      cbn [run_while run_while_tr]. rewrite Eb'. split; [reflexivity|]. intros tr s' rest H. inversion H. reflexivity.
Qed.
(* what the abstract C14 theorem Loop.loop_time_post says of run_until2 *)
Corollary run_until2_loop_post cf T ds s s' rest : run_until2 cf T s ds = Ok (s', rest) ->
  exists dates, l_loop cf T (length ds) (Ok s, ds) = Some (dates, (Ok s', rest)) /\
                Forall (fun d => d < T) dates /\ Loop.before LS2 l_date T (Ok s', rest) = false.
Proof.
  intros H. destruct (run_until2_is_loop cf T ds s) as (dates & r & El & Eo & _).
  rewrite H in Eo. destruct r as [[s0| |] rest0]; cbn in Eo; try discriminate. inversion Eo. subst s0 rest0.
  exists dates. split; [exact El|]. exact (Loop.loop_time_post LS2 (fun x => x) (l_event cf) l_date T _ _ _ _ El).
Qed.

(* ================================================================================================================ *)
(* non-vacuity and executable runs                                                                                   *)
(* ================================================================================================================ *)
(* one node: one server, room for 2 customers in all (node capacity 2), customers renege after 4 and leave for the exit;
   arrivals every 3 from time 3 on, service time 10.  The state is "picked": the arrival node acts next, at 3.
     3 arrival of 1 (served until 13)   6 arrival of 2 (waits)        9 arrival of 3: REJECTED (node full)
    10 customer 2 RENEGES to the exit  12 arrival of 4 (waits)       13 customer 1 COMPLETES; 4 starts (until 23)
    15 arrival of 5 (waits)            18 arrival of 6: REJECTED     19 customer 5 RENEGES
    21 arrival of 7 (waits)            23 customer 4 COMPLETES       24 arrival of 8 (waits)                      *)
Definition ex_cf : config :=
  mkCfg 1 [mkNcfg (Some 2) None 0 SFixed 0 true [true] 0] [0] 1 None [RtNR [RLeave]] [[None]] false [[false]].
Definition ex_srv : server := mkServer 1 None false None 0 None 0 false 0 None.
Definition ex_node : node := mkNode 1 0 0 [[]] [ex_srv] [] 0 None [] (Some 1) 1 [] 0 [] [] [] 0 None 0 None None.
Definition ex_s0 : sim :=
  mkSim 3 0 (mkArr 0 0 [[Some 3]] 1 0 (Some 3)) [ex_node] [] 0 0 [] (mkDraws [] [] [] [] [] []) [] [[0]].
(* the draws offered to each event: inter-arrival 3, batch 1, service 10, uniform 0, patience 4 *)
Definition ex_d : draws := mkDraws [3] [1] [10] [0; 0] [4] [].

Example ex_cinv : CInv ex_cf ex_s0.
Proof. apply cinv_b_sound. vm_compute. reflexivity. Qed.

(* counts at return are (completed, finished, arrived, accepted) *)
Definition ex_show (m n : Z) :=
  match run_count_tr ex_cf m n ex_s0 (repeat ex_d 12) with
  | Ok (tr, s', rest) => Some (map now tr, map (count_of m) tr, length rest, exit_ids s',
                               (count_of 0 s', count_of 1 s', count_of 2 s', count_of 3 s'), cinv_b ex_cf s')
  | _ => None
  end.
Example ex_run_count_methods :
  (* Complete, n = 1: stops after the service end at 13; the rejected and the reneged customer are at the exit but not completed *)
  ex_show 0 1 = Some ([3; 6; 9; 10; 12; 13], [0; 0; 0; 0; 0; 0], 6%nat, [3; 2; 1], (1, 3, 4, 3), true) /\
  (* Finish, n = 2: stops already after the renege at 10 *)
  ex_show 1 2 = Some ([3; 6; 9; 10], [0; 0; 0; 1], 8%nat, [3; 2], (0, 2, 3, 2), true) /\
  (* Arrive, n = 3: stops after the (rejected) arrival at 9 *)
  ex_show 2 3 = Some ([3; 6; 9], [0; 1; 2], 9%nat, [3], (0, 1, 3, 2), true) /\
  (* Accept, n = 3: the rejected customer does not count; stops after the arrival at 12 *)
  ex_show 3 3 = Some ([3; 6; 9; 10; 12], [0; 1; 2; 2; 2], 7%nat, [3; 2], (0, 2, 4, 3), true) /\
  (* Complete, n = 100: the draws run out first: 2 completed, 6 finished (2 reneged + 2 rejected + 2 completed), 8 arrived, 6 accepted *)
  ex_show 0 100 = Some ([3; 6; 9; 10; 12; 13; 15; 18; 19; 21; 23; 24], [0; 0; 0; 0; 0; 0; 1; 1; 1; 1; 1; 2], 0%nat,
                        [3; 2; 1; 6; 5; 4], (2, 6, 8, 6), true) /\
  (* n already reached: nothing is executed *)
  ex_show 1 0 = Some ([], [], 12%nat, [], (0, 0, 0, 0), true).
Proof. vm_compute. repeat split. Qed.
(* the records of that run: (customer, type, destination); 2 renege records to the exit, 2 rejection records *)
Example ex_run_logs :
  map (fun r => (r_id r, r_type r, r_dest r)) (run_logs ex_cf ex_s0 (repeat ex_d 12)) =
    [(3, 4, None); (2, 2, Some (-1)); (1, 0, Some (-1)); (6, 4, None); (5, 2, Some (-1)); (4, 0, Some (-1))] /\
  nrenx (run_logs ex_cf ex_s0 (repeat ex_d 12)) = 2 /\ nbr (run_logs ex_cf ex_s0 (repeat ex_d 12)) = 2.
Proof. vm_compute. repeat split. Qed.
(* run_count returns the same state as run_many on the consumed records *)
Example ex_run_count_is_run_many :
  match run_count ex_cf 0 1 ex_s0 (repeat ex_d 12), run_many ex_cf ex_s0 (repeat ex_d 6) with
  | Ok (s', rest), Ok s'' => (Conserve2.shp s', exit_completed s', length rest) = (Conserve2.shp s'', exit_completed s'', 6%nat)
  | _, _ => False
  end.
Proof. vm_compute. reflexivity. Qed.

(* the time loop on the same run: (clock before each executed event, draws left, exit, counts, invariant, clock, next date) *)
Definition ex_showT (T : Z) :=
  match run_until2_tr ex_cf T ex_s0 (repeat ex_d 12) with
  | Ok (tr, s', rest) => Some (map now tr, length rest, exit_ids s', (count_of 0 s', count_of 1 s', count_of 2 s', count_of 3 s'),
                               cinv_b ex_cf s', now s', next_date2 s')
  | _ => None
  end.
Example ex_run_until2 :
  (* T = 13: the service end AT 13 is not executed *)
  ex_showT 13 = Some ([3; 6; 9; 10; 12], 7%nat, [3; 2], (0, 2, 4, 3), true, 13, Some 13) /\
  (* T = 14: it is *)
  ex_showT 14 = Some ([3; 6; 9; 10; 12; 13], 6%nat, [3; 2; 1], (1, 3, 4, 3), true, 15, Some 15) /\
  (* T = 3: nothing is executed *)
  ex_showT 3 = Some ([], 12%nat, [], (0, 0, 0, 0), true, 3, Some 3).
Proof. vm_compute. repeat split. Qed.
(* pause / resume across the two loops: until time 11, then until the first completion *)
Example ex_pause_resume :
  match run_until2 ex_cf 11 ex_s0 (repeat ex_d 12) with
  | Ok (s1, r1) => match run_count ex_cf 0 1 s1 r1 with
                   | Ok (s2, r2) => (now s1, length r1, now s2, length r2, exit_ids s2) = (12, 8%nat, 15, 6%nat, [3; 2; 1])
                   | _ => False end
  | _ => False
  end.
Proof. vm_compute. reflexivity. Qed.
(* the abstract loops of Sub/Loop.v on the same run *)
Example ex_l_cloop : option_map fst (l_cloop ex_cf 1 2 12 (Ok ex_s0, repeat ex_d 12)) = Some [0; 0; 0; 1].
Proof. vm_compute. reflexivity. Qed.
Example ex_l_loop : option_map fst (l_loop ex_cf 13 12 (Ok ex_s0, repeat ex_d 12)) = Some [3; 6; 9; 10; 12].
Proof. vm_compute. reflexivity. Qed.

(* stage 1's identity finished - completed = arrived - accepted is FALSE on stage 2: after the renege at 10, 2 customers are
   finished and not completed, 1 arrived and was not accepted.  (Ciw's intended behaviour, not a defect: a reneging customer
   is sent to the exit node with completed = False.) *)
Definition ex_s4 : sim := match run_many ex_cf ex_s0 (repeat ex_d 4) with Ok s => s | _ => ex_s0 end.
Theorem stage1_identity_refuted : exists cf s ds s',
  cinv_b cf s = true /\ count_of 1 s - count_of 0 s = count_of 2 s - count_of 3 s /\ run_many cf s ds = Ok s' /\
  count_of 1 s' - count_of 0 s' <> count_of 2 s' - count_of 3 s'.
Proof.
  exists ex_cf, ex_s0, (repeat ex_d 4), ex_s4. split; [vm_compute; reflexivity|]. split; [vm_compute; reflexivity|].
  split; [vm_compute; reflexivity|]. vm_compute. intros H. discriminate H.
Qed.

(* the same network without reneging: the scope of count_means0; rejections only, the stage-1 identity holds throughout *)
Definition ex_cf0 : config :=
  mkCfg 1 [mkNcfg (Some 2) None 0 SFixed 0 false [false] 0] [0] 1 None [RtNR [RLeave]] [[None]] false [[false]].
Example ex_cinv0 : no_reneging ex_cf0 = true /\ CInv0 ex_cf0 ex_s0.
Proof. split; [reflexivity|]. apply cinv0_b_sound. vm_compute. reflexivity. Qed.
Example ex_run0 :
  match run_count_tr ex_cf0 0 2 ex_s0 (repeat ex_d 12) with
  | Ok (tr, s', rest) => Some (map now tr, length rest, exit_ids s', (count_of 0 s', count_of 1 s', count_of 2 s', count_of 3 s'), cinv0_b ex_cf0 s')
  | _ => None
  end = Some ([3; 6; 9; 12; 13; 15; 18; 21; 23], 3%nat, [3; 4; 1; 6; 7; 2], (2, 6, 7, 3), true).
Proof. vm_compute. reflexivity. Qed.

Print Assumptions event_step_crel.
Print Assumptions event_step_counts.
Print Assumptions run_many_counts.
Print Assumptions event_step_count_mono.
Print Assumptions run_many_count_mono.
Print Assumptions count_stays_reached.
Print Assumptions run_many_accounts.
Print Assumptions event_step_gap.
Print Assumptions cinv_b_sound.
Print Assumptions event_step_count.
Print Assumptions run_many_count.
Print Assumptions count_means.
Print Assumptions cinv0_b_sound.
Print Assumptions event_step_count0.
Print Assumptions run_many_count0.
Print Assumptions count_means0.
Print Assumptions run_while_tr_spec.
Print Assumptions run_count_run_many.
Print Assumptions run_count_first.
Print Assumptions run_count_last.
Print Assumptions run_count_tr_mono.
Print Assumptions run_count_tr_inv.
Print Assumptions run_count_inv.
Print Assumptions run_count_split_eq.
Print Assumptions run_count_split.
Print Assumptions run_count_tr_split.
Print Assumptions run_count_again.
Print Assumptions engine_count.
Print Assumptions run_until2_run_many.
Print Assumptions run_until2_first.
Print Assumptions run_until2_last.
Print Assumptions run_until2_tr_inv.
Print Assumptions run_until2_split_eq.
Print Assumptions run_until2_split.
Print Assumptions run_until2_tr_split.
Print Assumptions run_until2_again.
Print Assumptions engine_until2.
Print Assumptions run_count_is_loop.
Print Assumptions run_count_loop_post.
Print Assumptions run_until2_is_loop.
Print Assumptions run_until2_loop_post.
Print Assumptions ex_cinv.
Print Assumptions ex_run_count_methods.
Print Assumptions ex_run_until2.
Print Assumptions stage1_identity_refuted.
Print Assumptions ex_cinv0.
Print Assumptions ex_run0.

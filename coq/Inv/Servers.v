(* Servers.v -- T2 for C04 (server exclusivity) on the engine model, for nodes with a finite number of servers:
   the server set is fixed (c servers with pairwise distinct identities), a server is busy exactly when it holds a
   customer, the customer a server holds is at that node and records that server as its own, and conversely every
   customer of the node that records a server is the customer of exactly that server.  Hence no two customers share a
   server, no server has two customers, at most c customers of the node hold a server, and a server is freed exactly
   when its customer leaves the node (a blocked customer keeps it).  At infinite-server nodes no customer records a
   server.  In time (event_step_stays, server_stays): over one event a busy server keeps its customer unless a service
   record of that customer at that node is written during the event (the customer is released).
   Proved for every configuration, every state satisfying the invariant, every oracle of draws.
   Structure: the invariant and list lemmas; K-steps (actions that keep queues, servers' (id, customer, busy) and every
   customer's server entry, and only append records); *_decomp lemmas saying what start_service, accept, release, ... do
   in those terms (reused by NonIdle.v); the walk over the engine functions; the property in words; an executable test. *)
From Coq Require Import ZArith List Bool Lia Permutation.
From RecordUpdate Require Import RecordUpdate.
From CiwV Require Import Sx Prelude Routing.
From CiwV.Engine Require Import State Engine Codec.
From CiwV.Inv Require Import Frame Conserve ConserveRun.
Import ListNotations.
Open Scope Z_scope.

(* ---------- the invariant ---------- *)
(* the server a customer records (None also when the customer has no entry) *)
Definition isv (il : list ind) (i : Z) : option Z := match find_ind i il with Some x => i_server x | None => None end.
(* what the invariant looks at in a server *)
Definition score (sv : server) : Z * option Z * bool := (sv_id sv, sv_cust sv, sv_busy sv).

Record FinOK (c : Z) (ids : list Z) (svs : list server) (f : Z -> option Z) : Prop := mkFinOK {
  fo_len : zlen svs = c;
  fo_nodup : NoDup (map sv_id svs);
  fo_busy : forall sv, In sv svs -> sv_busy sv = match sv_cust sv with Some _ => true | None => false end;
  fo_cust : forall sv i, In sv svs -> sv_cust sv = Some i -> In i ids /\ f i = Some (sv_id sv);
  fo_inv : forall i k, In i ids -> f i = Some k -> exists sv, In sv svs /\ sv_id sv = k /\ sv_cust sv = Some i
}.
Definition NodeOK (oc : option Z) (ids : list Z) (svs : list server) (f : Z -> option Z) : Prop :=
  match oc with None => forall i, In i ids -> f i = None | Some c => FinOK c ids svs f end.

Definition Srv (cf : config) (s : sim) : Prop :=
  forall k nd nc, nth_error (nodes s) k = Some nd -> nth_error (cf_nodes cf) k = Some nc ->
    NodeOK (nc_c nc) (all_individuals nd) (n_servers nd) (isv (inds s)).

(* the invariant of the step theorem: conservation (Conserve.v) and server exclusivity *)
Definition SrvInv (cf : config) (s : sim) : Prop := WFx [] s /\ Srv cf s.

(* ---------- lists of servers ---------- *)
Lemma find_server_In sid l sv : find_server sid l = Some sv -> In sv l /\ sv_id sv = sid.
Proof.
  induction l as [|y r IH]; cbn; [discriminate|]. destruct (sv_id y =? sid) eqn:E.
  - intros H. injection H as <-. apply Z.eqb_eq in E. auto.
  - intros H. destruct (IH H). auto.
Qed.
Lemma find_free_server_In l sv : find_free_server l = Some sv -> In sv l /\ sv_busy sv = false.
Proof.
  induction l as [|y r IH]; cbn; [discriminate|]. destruct (sv_busy y) eqn:E.
  - intros H. destruct (IH H). auto.
  - intros H. injection H as <-. auto.
Qed.
Lemma map_id_put_server_l sv l : map sv_id (put_server_l sv l) = map sv_id l.
Proof.
  induction l as [|y r IH]; cbn; [reflexivity|]. destruct (sv_id y =? sv_id sv) eqn:E; cbn.
  - apply Z.eqb_eq in E. rewrite E. reflexivity.
  - rewrite IH. reflexivity.
Qed.
Lemma length_put_server_l sv l : length (put_server_l sv l) = length l.
Proof. rewrite <- (map_length sv_id), map_id_put_server_l, map_length. reflexivity. Qed.
Lemma in_put_server_l sv' l : NoDup (map sv_id l) -> In (sv_id sv') (map sv_id l) ->
  forall sv, In sv (put_server_l sv' l) <-> sv = sv' \/ (In sv l /\ sv_id sv <> sv_id sv').
Proof.
  induction l as [|y r IH]; cbn [map put_server_l In]; intros HN Hin sv; [tauto|].
  inversion HN as [|? ? Hny HNr]; subst. destruct (sv_id y =? sv_id sv') eqn:E.
  - apply Z.eqb_eq in E. cbn [In]. split.
    + intros [<-|H]; [auto|]. right. split; [auto|]. intros Heq. apply Hny. rewrite E, <- Heq. apply in_map. exact H.
    + intros [->|[[<-|H] Hne]]; [auto|congruence|auto].
  - apply Z.eqb_neq in E. cbn [In]. destruct Hin as [Hin|Hin]; [congruence|]. rewrite (IH HNr Hin sv). split.
    + intros [<-|[->|[H Hne]]]; [right; split; [auto|congruence]|auto|auto].
    + intros [->|[[<-|H] Hne]]; [auto|auto|auto].
Qed.
Lemma put_server_l_score sv' sv l : find_server (sv_id sv') l = Some sv -> score sv' = score sv ->
  map score (put_server_l sv' l) = map score l.
Proof.
  induction l as [|y r IH]; cbn; [reflexivity|]. destruct (sv_id y =? sv_id sv') eqn:E; intros H Hs.
  - injection H as ->. cbn. rewrite Hs. reflexivity.
  - cbn. rewrite (IH H Hs). reflexivity.
Qed.

(* ---------- NodeOK under changes ---------- *)
Lemma NodeOK_ext oc ids ids' svs svs' f f' :
  (forall i, In i ids' <-> In i ids) -> map score svs' = map score svs -> (forall i, In i ids -> f' i = f i) ->
  NodeOK oc ids svs f -> NodeOK oc ids' svs' f'.
Proof.
  intros Hi Hs Hf. destruct oc as [c|]; cbn.
  - intros [L N B C D].
    assert (Hto : forall sv', In sv' svs' -> exists sv, In sv svs /\ score sv = score sv').
    { intros sv' H. apply (in_map score) in H. rewrite Hs in H. apply in_map_iff in H. destruct H as (sv & E & H). eauto. }
    assert (Hfrom : forall sv, In sv svs -> exists sv', In sv' svs' /\ score sv' = score sv).
    { intros sv H. apply (in_map score) in H. rewrite <- Hs in H. apply in_map_iff in H. destruct H as (sv' & E & H). eauto. }
    assert (Hid : map sv_id svs' = map sv_id svs).
    { assert (E : forall l, map sv_id l = map (fun t => fst (fst t)) (map score l)) by (intros l; rewrite map_map; reflexivity).
      rewrite (E svs'), (E svs), Hs. reflexivity. }
    split.
    + unfold zlen in *. rewrite <- (map_length score), Hs, map_length. exact L.
    + rewrite Hid. exact N.
    + intros sv' H. destruct (Hto _ H) as (sv & Hin & E). unfold score in E. injection E as E1 E2 E3. rewrite <- E2, <- E3. apply B. exact Hin.
    + intros sv' i H Hc. destruct (Hto _ H) as (sv & Hin & E). unfold score in E. injection E as E1 E2 E3.
      rewrite <- E2 in Hc. destruct (C _ _ Hin Hc) as [Ha Hb]. split; [apply Hi; exact Ha|]. rewrite (Hf _ Ha), Hb, E1. reflexivity.
    + intros i k Hin Hk. apply Hi in Hin. rewrite (Hf _ Hin) in Hk. destruct (D _ _ Hin Hk) as (sv & Hs1 & Hs2 & Hs3).
      destruct (Hfrom _ Hs1) as (sv' & Hin' & E). unfold score in E. injection E as E1 E2 E3. exists sv'. split; [exact Hin'|]. split; congruence.
  - intros H i Hin. apply Hi in Hin. rewrite (Hf _ Hin). apply H. exact Hin.
Qed.

(* a customer without a server joins the node *)
Lemma NodeOK_add oc ids ids' svs f i :
  (forall i', In i' ids' <-> i' = i \/ In i' ids) -> f i = None -> NodeOK oc ids svs f -> NodeOK oc ids' svs f.
Proof.
  intros Hi Hf. destruct oc as [c|]; cbn.
  - intros [L N B C D]. split; auto.
    + intros sv i0 H Hc. destruct (C _ _ H Hc) as [Ha Hb]. split; [apply Hi; auto|exact Hb].
    + intros i0 k Hin Hk. apply Hi in Hin. destruct Hin as [->|Hin]; [congruence|]. eauto.
  - intros H i0 Hin. apply Hi in Hin. destruct Hin as [->|Hin]; auto.
Qed.

(* a waiting customer of the node gets a free server of the node *)
Lemma FinOK_start c ids svs f f' sv0 sv' i :
  FinOK c ids svs f -> In sv0 svs -> sv_cust sv0 = None -> In i ids -> f i = None ->
  sv_id sv' = sv_id sv0 -> sv_cust sv' = Some i -> sv_busy sv' = true ->
  (forall i', f' i' = if i' =? i then Some (sv_id sv0) else f i') ->
  FinOK c ids (put_server_l sv' svs) f'.
Proof.
  intros [L N B C D] H0 Hc0 Hi Hfi Hid Hcu Hbu Hf'.
  assert (Hidin : In (sv_id sv') (map sv_id svs)) by (rewrite Hid; apply in_map; exact H0).
  pose proof (in_put_server_l sv' svs N Hidin) as Hin.
  split.
  - unfold zlen in *. rewrite length_put_server_l. exact L.
  - rewrite map_id_put_server_l. exact N.
  - intros sv H. apply Hin in H. destruct H as [->|[H _]]; [rewrite Hbu, Hcu; reflexivity|auto].
  - intros sv i0 H Hc. apply Hin in H. destruct H as [->|[H Hne]].
    + rewrite Hcu in Hc. injection Hc as <-. split; [exact Hi|]. rewrite Hf', Z.eqb_refl, Hid. reflexivity.
    + destruct (C _ _ H Hc) as [Ha Hb]. split; [exact Ha|]. rewrite Hf'. destruct (i0 =? i) eqn:E; [|exact Hb].
      apply Z.eqb_eq in E. subst i0. congruence.
  - intros i0 k Hin0 Hk. rewrite Hf' in Hk. destruct (i0 =? i) eqn:E.
    + apply Z.eqb_eq in E. subst i0. injection Hk as <-. exists sv'. split; [apply Hin; auto|]. split; [exact Hid|exact Hcu].
    + destruct (D _ _ Hin0 Hk) as (sv & Hs1 & Hs2 & Hs3). exists sv. split; [|auto]. apply Hin. right. split; [exact Hs1|].
      intros Heq. assert (sv = sv0).
      { clear -N Hs1 H0 Heq Hid. rewrite Hid in Heq. induction svs as [|y r IH]; [destruct H0|].
        cbn in N. inversion N as [|? ? Hny HNr]; subst. destruct Hs1 as [<-|Hs1], H0 as [<-|H0]; auto.
        - exfalso. apply Hny. rewrite Heq. apply in_map. exact H0.
        - exfalso. apply Hny. rewrite <- Heq. apply in_map. exact Hs1. }
      subst sv. congruence.
Qed.

(* a customer leaves the node and its server is freed *)
Lemma FinOK_release c ids ids' svs f sv sv' i sid :
  FinOK c ids svs f -> In i ids -> ~ In i ids' -> (forall i', In i' ids <-> i' = i \/ In i' ids') ->
  f i = Some sid -> find_server sid svs = Some sv ->
  sv_id sv' = sid -> sv_cust sv' = None -> sv_busy sv' = false ->
  FinOK c ids' (put_server_l sv' svs) f.
Proof.
  intros [L N B C D] Hi Hni Hids Hfi Hfs Hid Hcu Hbu.
  destruct (find_server_In _ _ _ Hfs) as [Hsv Hsid].
  assert (Hidin : In (sv_id sv') (map sv_id svs)) by (rewrite Hid, <- Hsid; apply in_map; exact Hsv).
  pose proof (in_put_server_l sv' svs N Hidin) as Hin.
  split.
  - unfold zlen in *. rewrite length_put_server_l. exact L.
  - rewrite map_id_put_server_l. exact N.
  - intros sv1 H. apply Hin in H. destruct H as [->|[H _]]; [rewrite Hbu, Hcu; reflexivity|auto].
  - intros sv1 i0 H Hc. apply Hin in H. destruct H as [->|[H Hne]]; [congruence|].
    destruct (C _ _ H Hc) as [Ha Hb]. split; [|exact Hb]. apply Hids in Ha. destruct Ha as [->|Ha]; [|exact Ha].
    exfalso. apply Hne. congruence.
  - intros i0 k Hin0 Hk. assert (Hin1 : In i0 ids) by (apply Hids; auto).
    destruct (D _ _ Hin1 Hk) as (sv1 & Hs1 & Hs2 & Hs3). exists sv1. split; [|auto]. apply Hin. right. split; [exact Hs1|].
    intros Heq. destruct (D _ _ Hi Hfi) as (sv2 & Ht1 & Ht2 & Ht3).
    assert (sv1 = sv2).
    { assert (Heq2 : sv_id sv1 = sv_id sv2) by congruence.
      clear -N Hs1 Ht1 Heq2. induction svs as [|y r IH]; [destruct Hs1|].
      cbn in N. inversion N as [|? ? Hny HNr]; subst. destruct Hs1 as [<-|Hs1], Ht1 as [<-|Ht1]; auto.
      - exfalso. apply Hny. rewrite Heq2. apply in_map. exact Ht1.
      - exfalso. apply Hny. rewrite <- Heq2. apply in_map. exact Hs1. }
    subst sv2. assert (i0 = i) by congruence. subst i0. contradiction.
Qed.

(* ---------- what conservation gives: nobody is in two places ---------- *)
Lemma WFx_nodup fl s : WFx fl s -> NoDup (concat (map all_individuals (nodes s)) ++ exit_ids s ++ fl).
Proof.
  intros (_ & _ & _ & HP). unfold shp in HP. cbn [sh_ids sh_created] in HP. rewrite map_map in HP.
  change (map (fun x => concat (snd (nshape x))) (nodes s)) with (map all_individuals (nodes s)) in HP.
  rewrite <- app_assoc in HP. eapply Permutation_NoDup; [symmetry; exact HP|apply zseq_NoDup].
Qed.
Lemma NoDup_app_l {A} (a b : list A) : NoDup (a ++ b) -> NoDup a.
Proof. induction a as [|x a IH]; cbn; intros H; [constructor|]. inversion H; subst. constructor; [rewrite in_app_iff in *; tauto|auto]. Qed.
Lemma NoDup_app_disj {A} (a b : list A) x : NoDup (a ++ b) -> In x a -> In x b -> False.
Proof.
  induction a as [|y a IH]; cbn; intros H Ha Hb; [destruct Ha|]. inversion H; subst. destruct Ha as [->|Ha].
  - match goal with Hn : ~ In _ _ |- _ => apply Hn end. apply in_or_app. auto.
  - eauto.
Qed.
Lemma NoDup_concat_nth {A} (ls : list (list A)) k k' l l' x :
  NoDup (concat ls) -> nth_error ls k = Some l -> nth_error ls k' = Some l' -> In x l -> In x l' -> k = k'.
Proof.
  revert k k'; induction ls as [|h t IH]; intros k k' HN Hk Hk' Hx Hx'; [destruct k; discriminate|].
  cbn in HN. destruct k as [|k], k' as [|k']; cbn in Hk, Hk'.
  - reflexivity.
  - injection Hk as ->. exfalso. eapply NoDup_app_disj; [exact HN|exact Hx|]. apply in_concat. exists l'. split; [eapply nth_error_In; eauto|exact Hx'].
  - injection Hk' as ->. exfalso. eapply NoDup_app_disj; [exact HN|exact Hx'|]. apply in_concat. exists l. split; [eapply nth_error_In; eauto|exact Hx].
  - f_equal. eapply IH; eauto. clear -HN. induction h as [|a h IHh]; cbn in HN; [exact HN|]. inversion HN; auto.
Qed.
Lemma WFx_one_node fl s k k' nd nd' i : WFx fl s -> nth_error (nodes s) k = Some nd -> nth_error (nodes s) k' = Some nd' ->
  In i (all_individuals nd) -> In i (all_individuals nd') -> k = k'.
Proof.
  intros HW Hk Hk' Hi Hi'. apply WFx_nodup, NoDup_app_l in HW.
  eapply (NoDup_concat_nth (map all_individuals (nodes s))); [exact HW| | |exact Hi|exact Hi']; rewrite nth_error_map; [rewrite Hk|rewrite Hk']; reflexivity.
Qed.
Lemma WFx_flying fl s k nd i : WFx fl s -> In i fl -> nth_error (nodes s) k = Some nd -> ~ In i (all_individuals nd).
Proof.
  intros HW Hfl Hk Hi. apply WFx_nodup in HW. eapply NoDup_app_disj; [exact HW| |apply in_or_app; right; exact Hfl].
  apply in_concat. exists (all_individuals nd). split; [apply in_map; eapply nth_error_In; eauto|exact Hi].
Qed.

(* ---------- records of customers ---------- *)
Lemma find_put_ind x l i : find_ind i (put_ind_l x l) = if i =? i_id x then Some x else find_ind i l.
Proof.
  induction l as [|y r IH]; cbn.
  - rewrite (Z.eqb_sym (i_id x) i). destruct (i =? i_id x); reflexivity.
  - destruct (i_id y =? i_id x) eqn:E; cbn.
    + apply Z.eqb_eq in E. rewrite (Z.eqb_sym (i_id x) i). destruct (i =? i_id x) eqn:E2; [reflexivity|].
      rewrite E, (Z.eqb_sym (i_id x) i), E2. reflexivity.
    + destruct (i_id y =? i) eqn:E2.
      * apply Z.eqb_eq in E2. destruct (i =? i_id x) eqn:E3; [apply Z.eqb_eq in E3; apply Z.eqb_neq in E; congruence|reflexivity].
      * exact IH.
Qed.
Lemma isv_put x l i : isv (put_ind_l x l) i = if i =? i_id x then i_server x else isv l i.
Proof. unfold isv. rewrite find_put_ind. destruct (i =? i_id x); reflexivity. Qed.
Lemma find_del_ind i l i' : i' <> i -> find_ind i' (del_ind_l i l) = find_ind i' l.
Proof.
  intros Hne. induction l as [|y r IH]; cbn; [reflexivity|]. destruct (i_id y =? i) eqn:E; cbn.
  - apply Z.eqb_eq in E. destruct (i_id y =? i') eqn:E2; [apply Z.eqb_eq in E2; congruence|reflexivity].
  - destruct (i_id y =? i'); [reflexivity|exact IH].
Qed.
Lemma isv_del i l i' : i' <> i -> isv (del_ind_l i l) i' = isv l i'.
Proof. intros H. unfold isv. rewrite find_del_ind by exact H. reflexivity. Qed.
Lemma isv_find il i x : find_ind i il = Some x -> isv il i = i_server x.
Proof. unfold isv. intros ->. reflexivity. Qed.
(* the entry of a customer as far as servers are concerned: None = no entry, Some o = an entry recording server o *)
Definition ient (il : list ind) (i : Z) : option (option Z) := option_map i_server (find_ind i il).
Lemma isv_ient il i : isv il i = match ient il i with Some o => o | None => None end.
Proof. unfold isv, ient. destruct (find_ind i il); reflexivity. Qed.
Lemma ient_isv il il' i : ient il' i = ient il i -> isv il' i = isv il i.
Proof. intros H. rewrite !isv_ient, H. reflexivity. Qed.
Lemma ient_put x l i : ient (put_ind_l x l) i = if i =? i_id x then Some (i_server x) else ient l i.
Proof. unfold ient. rewrite find_put_ind. destruct (i =? i_id x); reflexivity. Qed.
Lemma ient_del i l i' : i' <> i -> ient (del_ind_l i l) i' = ient l i'.
Proof. intros H. unfold ient. rewrite find_del_ind by exact H. reflexivity. Qed.
Lemma ient_find il i x : find_ind i il = Some x -> ient il i = Some (i_server x).
Proof. unfold ient. intros ->. reflexivity. Qed.

(* ---------- K: a step that keeps the shape, what the invariant sees of the servers, and every customer's server,
   and only appends to the records of the current event ---------- *)
Definition svmap (s : sim) := map (fun nd => map score (n_servers nd)) (nodes s).
Definition K (s s' : sim) : Prop :=
  shp s' = shp s /\ svmap s' = svmap s /\ (forall i, ient (inds s') i = ient (inds s) i) /\ exists t, log s' = log s ++ t.
Lemma K_ient s s' : K s s' -> forall i, ient (inds s') i = ient (inds s) i.
Proof. intros (_ & _ & H & _). exact H. Qed.
Lemma K_isv s s' : K s s' -> forall i, isv (inds s') i = isv (inds s) i.
Proof. intros H i. apply ient_isv, (K_ient _ _ H). Qed.
Lemma K_log s s' : K s s' -> exists t, log s' = log s ++ t.
Proof. intros (_ & _ & _ & H). exact H. Qed.
Lemma K_refl s : K s s. Proof. repeat split; try reflexivity. exists []. rewrite app_nil_r. reflexivity. Qed.
Lemma K_trans a b c : K a b -> K b c -> K a c.
Proof.
  intros (A1 & A2 & A3 & t1 & A4) (B1 & B2 & B3 & t2 & B4).
  split; [congruence|split; [congruence|split; [intros i; rewrite B3; apply A3|exists (t1 ++ t2); rewrite B4, A4, app_assoc; reflexivity]]].
Qed.
Lemma K_Idx s s' : K s s' -> Idx s -> Idx s'.
Proof. intros (A & _). apply Idx_shape. exact A. Qed.
Lemma K_WFx fl s s' : K s s' -> WFx fl s -> WFx fl s'.
Proof. intros (A & _). apply WFx_shape. exact A. Qed.
Lemma K_nth s s' k nd' : K s s' -> nth_error (nodes s') k = Some nd' ->
  exists nd, nth_error (nodes s) k = Some nd /\ nshape nd' = nshape nd /\ map score (n_servers nd') = map score (n_servers nd).
Proof.
  intros (A & B & _) Hk. unfold shp in A. injection A as A _ _ _. unfold svmap in B.
  assert (A1 := f_equal (fun l => nth_error l k) A). assert (B1 := f_equal (fun l => nth_error l k) B). cbn in A1, B1.
  rewrite !nth_error_map, Hk in A1, B1. destruct (nth_error (nodes s) k) as [nd|]; cbn in *; [|discriminate].
  exists nd. split; [reflexivity|]. split; congruence.
Qed.
Lemma K_sym_nth s s' k nd : K s s' -> nth_error (nodes s) k = Some nd ->
  exists nd', nth_error (nodes s') k = Some nd' /\ nshape nd' = nshape nd /\ map score (n_servers nd') = map score (n_servers nd).
Proof.
  intros (A & B & _) Hk. unfold shp in A. injection A as A _ _ _. unfold svmap in B.
  assert (A1 := f_equal (fun l => nth_error l k) A). assert (B1 := f_equal (fun l => nth_error l k) B). cbn in A1, B1.
  rewrite !nth_error_map, Hk in A1, B1. destruct (nth_error (nodes s') k) as [nd'|]; cbn in *; [|discriminate].
  exists nd'. split; [reflexivity|]. split; congruence.
Qed.
Lemma nshape_all nd nd' : nshape nd' = nshape nd -> all_individuals nd' = all_individuals nd.
Proof. unfold nshape, all_individuals. intros H. injection H as _ _ ->. reflexivity. Qed.

Lemma Srv_K cf s s' : K s s' -> Srv cf s -> Srv cf s'.
Proof.
  intros HK HS k nd' nc Hk Hc. destruct (K_nth _ _ _ _ HK Hk) as (nd & Hn & Hsh & Hsc).
  eapply NodeOK_ext; [| | |exact (HS k nd nc Hn Hc)].
  - intros i. rewrite (nshape_all _ _ Hsh). tauto.
  - exact Hsc.
  - intros i _. apply (K_isv _ _ HK).
Qed.

(* a step that only touches fields the invariant does not look at *)
Lemma K_eq s s' : nodes s' = nodes s -> inds s' = inds s -> exit_ids s' = exit_ids s -> exit_n s' = exit_n s ->
  a_created (arr s') = a_created (arr s) -> (exists t, log s' = log s ++ t) -> K s s'.
Proof. intros A B C D E F. unfold K, shp, svmap. rewrite A, B, C, D, E. repeat split; try reflexivity. exact F. Qed.
Lemma log_same s s' : log s' = log s -> exists t, log s' = log s ++ t.
Proof. intros ->. exists []. rewrite app_nil_r. reflexivity. Qed.

(* writing a customer's record back with the server it had *)
Lemma K_put_ind x s s' : put_ind x s = Ok (tt, s') -> ient (inds s) (i_id x) = Some (i_server x) -> K s s'.
Proof.
  unfold put_ind, modify. intros H Hx. inversion H. subst s'. clear H. unfold K, shp, svmap. cbn. repeat split; [|apply log_same; reflexivity].
  intros i. rewrite ient_put. destruct (i =? i_id x) eqn:E; [|reflexivity]. apply Z.eqb_eq in E. subst i. symmetry. exact Hx.
Qed.

(* writing a node back into its slot with the same identity, population, queues and server view *)
Lemma K_put_node nd nd0 s s' j : Idx s -> nthZ (nodes s) (j - 1) = Some nd0 -> nshape nd = nshape nd0 ->
  map score (n_servers nd) = map score (n_servers nd0) -> put_node nd s = Ok (tt, s') -> K s s'.
Proof.
  intros HI Hn Hs Hsc H. assert (Hid : n_id nd = j).
  { unfold nshape in Hs. injection Hs as -> _ _. apply (Idx_get _ _ _ HI Hn). }
  split; [eapply put_node_shape; [exact H|rewrite Hid; exact Hn|symmetry; exact Hs]|].
  unfold put_node, modify in H. inversion H. subst s'. clear H. split; [|split; [intros i; reflexivity|apply log_same; reflexivity]].
  unfold svmap. cbn. rewrite Hid. destruct (nthZ_nat _ _ _ Hn) as (k & Hk & Hnk). rewrite Hk, updZ_nat, upd_map.
  apply upd_same. rewrite nth_error_map, Hnk. cbn. f_equal. symmetry. exact Hsc.
Qed.

(* ---------- actions that are K-steps (given that node identities are positions) ---------- *)
Definition KI {A} (m : M A) : Prop := forall s a s', Idx s -> m s = Ok (a, s') -> K s s'.
Lemma KI_ro {A} (m : M A) : ro m -> KI m.
Proof. intros H s a s' _ E. apply H in E. subst s'. apply K_refl. Qed.
Lemma KI_bind {A B} (m : M A) (f : A -> M B) : KI m -> (forall a, KI (f a)) -> KI (bind m f).
Proof.
  intros Hm Hf s b s' HI H. unfold bind in H. destruct (m s) as [[a s1]| |] eqn:E; try discriminate.
  pose proof (Hm _ _ _ HI E) as K1. eapply K_trans; [exact K1|]. eapply Hf; [eapply K_Idx; eauto|exact H].
Qed.
Lemma KI_ret {A} (a : A) : KI (ret a). Proof. apply KI_ro, ro_ret. Qed.
Lemma KI_fail {A} e : KI (@fail A e). Proof. intros s a s' _ H. discriminate. Qed.
Lemma KI_gets {A} (f : sim -> A) : KI (gets f). Proof. apply KI_ro, ro_gets. Qed.
Lemma KI_lift {A} e (o : option A) : KI (lift e o). Proof. apply KI_ro, ro_lift. Qed.
Lemma KI_get_node j : KI (get_node j). Proof. apply KI_ro, ro_get_node. Qed.
Lemma KI_get_ind i : KI (get_ind i). Proof. apply KI_ro, ro_get_ind. Qed.
Lemma KI_modify (f : sim -> sim) :
  (forall s, nodes (f s) = nodes s /\ inds (f s) = inds s /\ exit_ids (f s) = exit_ids s /\ exit_n (f s) = exit_n s /\
             a_created (arr (f s)) = a_created (arr s) /\ log (f s) = log s) ->
  KI (modify f).
Proof. intros Hf s a s' _ H. inversion H. destruct (Hf s) as (A1 & A2 & A3 & A4 & A5 & A6). apply K_eq; try assumption. apply log_same. exact A6. Qed.
Lemma KI_log_rec r : KI (log_rec r).
Proof. intros s a s' _ H. unfold log_rec, modify in H. inversion H. apply K_eq; try reflexivity. exists [r]. reflexivity. Qed.
Lemma KI_draw_arr : KI draw_arr.
Proof. intros s a s' _ H. unfold draw_arr in H. destruct (d_arr (dr s)); inversion H. apply K_eq; try reflexivity. apply log_same. reflexivity. Qed.
Lemma KI_draw_batch : KI draw_batch.
Proof. intros s a s' _ H. unfold draw_batch in H. destruct (d_batch (dr s)); inversion H. apply K_eq; try reflexivity. apply log_same. reflexivity. Qed.
Lemma KI_draw_svc : KI draw_svc.
Proof. intros s a s' _ H. unfold draw_svc in H. destruct (d_svc (dr s)); inversion H. apply K_eq; try reflexivity. apply log_same. reflexivity. Qed.
Lemma KI_draw_unif : KI draw_unif.
Proof. intros s a s' _ H. unfold draw_unif in H. destruct (d_unif (dr s)); inversion H. apply K_eq; try reflexivity. apply log_same. reflexivity. Qed.

Ltac k_step :=
  first
    [ apply KI_ret | apply KI_fail | apply KI_gets | apply KI_lift | apply KI_get_node | apply KI_get_ind | apply KI_log_rec
    | apply KI_draw_arr | apply KI_draw_batch | apply KI_draw_svc | apply KI_draw_unif
    | (apply KI_bind; [|intros])
    | match goal with
      | |- KI (if ?b then _ else _) => destruct b
      | |- KI (match ?x with _ => _ end) => destruct x
      end ].

Lemma ret_spec {A} (x : A) s a s' : ret x s = Ok (a, s') -> s' = s /\ a = x.
Proof. intros H. inversion H. auto. Qed.
Lemma lift_spec {A} e (o : option A) s a s' : lift e o s = Ok (a, s') -> s' = s /\ o = Some a.
Proof. destruct o; cbn; intros H; inversion H. auto. Qed.
Lemma get_ind_spec i s x s' : get_ind i s = Ok (x, s') -> s' = s /\ find_ind i (inds s) = Some x /\ i_id x = i.
Proof.
  unfold get_ind. destruct (find_ind i (inds s)) eqn:E; intros H; inversion H. subst.
  split; [reflexivity|]. split; [reflexivity|eapply find_ind_id; eauto].
Qed.
Lemma is_inf_spec cf j s b s' : is_inf cf j s = Ok (b, s') ->
  s' = s /\ exists nc, nthZ (cf_nodes cf) (j - 1) = Some nc /\ b = match nc_c nc with None => true | Some _ => false end.
Proof.
  unfold is_inf, bind, ncfg_of. destruct (nthZ (cf_nodes cf) (j - 1)) as [nc|]; cbn; intros H; inversion H. split; [reflexivity|eauto].
Qed.

(* invert one bind; reads are substituted away and leave their fact *)
Ltac mstep H :=
  match type of H with
  | bind ?m ?f ?s = Ok _ =>
    let a := fresh "a" in let s1 := fresh "s" in let E := fresh "E" in
    unfold bind in H at 1; destruct (m s) as [[a s1]| |] eqn:E; [|discriminate H|discriminate H];
    first [ (apply gets_spec in E as [-> ->])
          | (let Hl := fresh "Hl" in apply lift_spec in E as [-> Hl])
          | (let Hc := fresh "Hc" in let nc := fresh "nc" in let Hb := fresh "Hb" in apply is_inf_spec in E as [-> (nc & Hc & Hb)])
          | (let Hn := fresh "Hn" in apply get_node_spec in E as [-> Hn])
          | (let Hf := fresh "Hf" in let Hi := fresh "Hid" in apply get_ind_spec in E as [-> [Hf Hi]])
          | idtac ]
  end.

Ltac dtt := repeat match goal with u : unit |- _ => destruct u end.
Ltac nm E n := match type of E with _ = Ok (_, ?sx) => rename sx into n end.

Section Servers.
  Variable cf : config.

  Lemma KI_ncfg_of j : KI (ncfg_of cf j). Proof. apply KI_lift. Qed.
  Lemma KI_is_inf j : KI (is_inf cf j). Proof. apply KI_ro, ro_is_inf. Qed.
  Lemma KI_choice_uniform {A} (l : list A) : KI (choice_uniform l). Proof. unfold choice_uniform. repeat k_step. Qed.
  Lemma KI_choice_weighted den P : KI (choice_weighted den P). Proof. unfold choice_weighted. repeat k_step. Qed.
  Lemma KI_choose_next_customer nd : KI (choose_next_customer cf nd).
  Proof. unfold choose_next_customer. repeat first [apply KI_ncfg_of | apply KI_choice_uniform | k_step]. Qed.
  Lemma KI_write_br_record j x ty : KI (write_br_record j x ty). Proof. unfold write_br_record. repeat k_step. Qed.
  Lemma KI_sys_population : KI sys_population. Proof. unfold sys_population. repeat k_step. Qed.
  Lemma KI_find_next_event_date : KI find_next_event_date.
  Proof. apply KI_modify. intros s. destruct (find_min_dates 1 (a_dates (arr s)) (None, 0, 0)) as [[d j] c]. repeat split. Qed.
  Lemma KI_find_next_active_node : KI find_next_active_node.
  Proof.
    unfold find_next_active_node. apply KI_bind; [apply KI_gets|]. intros s0.
    destruct (scan_active 0 (a_next_date (arr s0) :: map n_next_date (nodes s0)) None [] true) as [d cands].
    apply KI_bind; [destruct cands as [|a [|b r]]; [apply KI_fail|apply KI_ret|apply KI_choice_uniform]|].
    intros k. apply KI_modify. intros s. repeat split.
  Qed.
  Lemma KI_update_next_event_date j : KI (update_next_event_date cf j).
  Proof.
    intros s a s' HI H. unfold update_next_event_date in H.
    mstep H. mstep H. mstep H. mstep H.
    match type of H with (let '(_, _) := ?x in _) _ = _ => destruct x as [d l] end. destruct a.
    match type of Hn with _ = Some ?nd0 => refine (K_put_node _ nd0 _ _ j HI Hn _ _ H); reflexivity end.
  Qed.
  Lemma KI_update_all js : KI (update_all cf js).
  Proof. induction js as [|j r IH]; cbn [update_all]; [apply KI_ret|]. apply KI_bind; [apply KI_update_next_event_date|intros; exact IH]. Qed.
  Lemma KI_block_individual j i d : KI (block_individual j i d).
  Proof.
    intros s a s' HI H. unfold block_individual in H.
    mstep H. mstep H. destruct a1.
    assert (K1 : K s s0) by (eapply K_put_ind; [exact E|cbn; rewrite Hid; apply ient_find; exact Hf]).
    mstep H. destruct a. eapply K_trans; [exact K1|].
    match type of Hn with _ = Some ?nd0 => refine (K_put_node _ nd0 _ _ d (K_Idx _ _ K1 HI) Hn _ _ H); reflexivity end.
  Qed.

  (* ---------- how the invariant moves when one node and/or the customers' records change ---------- *)
  Lemma put_node_spec nd s s' : put_node nd s = Ok (tt, s') -> nodes s' = updZ (nodes s) (n_id nd - 1) nd /\ inds s' = inds s.
  Proof. unfold put_node, modify. intros H. inversion H. auto. Qed.
  Lemma put_ind_spec x s s' : put_ind x s = Ok (tt, s') -> nodes s' = nodes s /\ inds s' = put_ind_l x (inds s).
  Proof. unfold put_ind, modify. intros H. inversion H. auto. Qed.
  Lemma draw_svc_spec s a s' : draw_svc s = Ok (a, s') -> nodes s' = nodes s /\ inds s' = inds s.
  Proof. unfold draw_svc. destruct (d_svc (dr s)); intros H; inversion H. auto. Qed.
  Lemma put_node_log nd s s' : put_node nd s = Ok (tt, s') -> log s' = log s.
  Proof. unfold put_node, modify. intros H. inversion H. reflexivity. Qed.
  Lemma put_ind_log x s s' : put_ind x s = Ok (tt, s') -> log s' = log s.
  Proof. unfold put_ind, modify. intros H. inversion H. reflexivity. Qed.
  Lemma draw_svc_log s a s' : draw_svc s = Ok (a, s') -> log s' = log s.
  Proof. unfold draw_svc. destruct (d_svc (dr s)); intros H; inversion H. reflexivity. Qed.

  Lemma Srv_step s s' k nd nd0 : nodes s' = upd (nodes s) k nd -> nth_error (nodes s) k = Some nd0 -> Srv cf s ->
    (forall nc, nth_error (cf_nodes cf) k = Some nc ->
       NodeOK (nc_c nc) (all_individuals nd0) (n_servers nd0) (isv (inds s)) -> NodeOK (nc_c nc) (all_individuals nd) (n_servers nd) (isv (inds s'))) ->
    (forall k' nd' i, k' <> k -> nth_error (nodes s) k' = Some nd' -> In i (all_individuals nd') -> isv (inds s') i = isv (inds s) i) ->
    Srv cf s'.
  Proof.
    intros Hn Hk HS Hnode Hoth k1 nd1 nc Hk1 Hc. rewrite Hn in Hk1. destruct (Nat.eq_dec k k1) as [<-|Hne].
    - rewrite (nth_error_upd_eq _ _ _ _ Hk) in Hk1. injection Hk1 as <-. apply Hnode; [exact Hc|]. exact (HS k nd0 nc Hk Hc).
    - rewrite nth_error_upd_neq in Hk1 by exact Hne.
      eapply NodeOK_ext; [| | |exact (HS k1 nd1 nc Hk1 Hc)]; [tauto|reflexivity|].
      intros i Hi. eapply Hoth; [|exact Hk1|exact Hi]. congruence.
  Qed.
  Lemma Srv_inds s s' : nodes s' = nodes s ->
    (forall k nd i, nth_error (nodes s) k = Some nd -> In i (all_individuals nd) -> isv (inds s') i = isv (inds s) i) -> Srv cf s -> Srv cf s'.
  Proof.
    intros Hn Hf HS k nd nc Hk Hc. rewrite Hn in Hk.
    eapply NodeOK_ext; [| | |exact (HS k nd nc Hk Hc)]; [tauto|reflexivity|]. intros i Hi. eapply Hf; eauto.
  Qed.

  (* ---------- choose_next_customer picks a customer of the node that has no server ---------- *)
  Lemma waiting_of_spec q il c : In c (waiting_of q il) -> In c q /\ isv il c = None.
  Proof.
    induction q as [|i r IH]; cbn; [tauto|]. unfold isv in *. destruct (find_ind i il) as [x|] eqn:E.
    - destruct (i_server x) eqn:Es.
      + intros H. destruct (IH H). auto.
      + intros [<-|H]; [rewrite E; auto|]. destruct (IH H). auto.
    - intros H. destruct (IH H). auto.
  Qed.
  Lemma first_waiting_spec qs il c : In c (first_waiting qs il) -> In c (concat qs) /\ isv il c = None.
  Proof.
    induction qs as [|q r IH]; cbn; [tauto|]. destruct (waiting_of q il) as [|w0 wr] eqn:E.
    - intros H. destruct (IH H). split; [apply in_or_app; auto|auto].
    - rewrite <- E. intros H. destruct (waiting_of_spec _ _ _ H). split; [apply in_or_app; auto|auto].
  Qed.
  Lemma last_In {A} (l : list A) d : In (last l d) (d :: l).
  Proof. revert d; induction l as [|a l IH]; intros d; [left; reflexivity|]. rewrite last_cons. right. apply IH. Qed.
  Lemma choose_spec nd s c s' : Idx s -> choose_next_customer cf nd s = Ok (Some c, s') ->
    K s s' /\ In c (all_individuals nd) /\ isv (inds s) c = None.
  Proof.
    intros HI H. split; [eapply KI_choose_next_customer; eauto|].
    unfold choose_next_customer in H. mstep H.
    destruct (first_waiting (n_queues nd) (inds s)) as [|w0 wr] eqn:E; [apply ret_spec in H as [_ H]; discriminate|].
    assert (Hin : In c (w0 :: wr)).
    { mstep H. destruct (nc_disc a =? 0); [apply ret_spec in H as [_ H]; injection H as ->; left; reflexivity|].
      destruct (nc_disc a =? 1); [apply ret_spec in H as [_ H]; injection H as ->; apply last_In|].
      mstep H. apply ret_spec in H as [_ H]. injection H as ->.
      unfold choice_uniform in E0. mstep E0. apply lift_spec in E0 as [_ E0]. eapply nth_error_In; eauto. }
    rewrite <- E in Hin. apply first_waiting_spec in Hin. exact Hin.
  Qed.

  (* ---------- start_service ---------- *)
  Definition free_in (svs : list server) (sid : Z) : Prop := exists sv0, In sv0 svs /\ sv_id sv0 = sid /\ sv_cust sv0 = None.
  Lemma free_in_score svs svs' sid : map score svs' = map score svs -> free_in svs sid -> free_in svs' sid.
  Proof.
    intros Hs (sv0 & Hin & Hid & Hc). apply (in_map score) in Hin. rewrite <- Hs in Hin. apply in_map_iff in Hin.
    destruct Hin as (sv1 & E & Hin). unfold score in E. injection E as E1 E2 E3. exists sv1. split; [exact Hin|]. split; congruence.
  Qed.

  Lemma start_service_none j c s s' : Idx s -> start_service j c None s = Ok (tt, s') -> K s s'.
  Proof.
    intros HI H. unfold start_service in H. mstep H. mstep H. mstep H.
    assert (K1 : K s s0) by (eapply KI_draw_svc; eauto).
    mstep H. dtt.
    assert (K2 : K s0 s1) by (eapply K_put_ind; [exact E0|cbn; rewrite (K_ient _ _ K1), Hid; apply ient_find; exact Hf]).
    mstep H.
    assert (K3 : K s1 s') by (match type of Hn with _ = Some ?nd0 => refine (K_put_node _ nd0 _ _ j (K_Idx _ _ K2 (K_Idx _ _ K1 HI)) Hn _ _ H); reflexivity end).
    eapply K_trans; [exact K1|]. eapply K_trans; eauto.
  Qed.

  Lemma start_service_some j c sv fl s s' k nd nc c0 :
    WFx fl s -> Srv cf s -> j - 1 = Z.of_nat k -> nth_error (nodes s) k = Some nd ->
    nth_error (cf_nodes cf) k = Some nc -> nc_c nc = Some c0 ->
    free_in (n_servers nd) (sv_id sv) -> In c (all_individuals nd) -> isv (inds s) c = None ->
    start_service j c (Some sv) s = Ok (tt, s') -> Srv cf s'.
  Proof.
    intros HW HS Hj Hk Hc Hc0 (sv0 & Hsv0 & Hid0 & Hcu0) Hin Hnone H. unfold start_service in H.
    mstep H. mstep H. mstep H. apply draw_svc_spec in E as [En0 Ei0].
    mstep H. dtt. apply put_ind_spec in E as [En1 Ei1].
    mstep H. apply put_node_spec in H as [En2 Ei2]. cbn [n_id set] in En2.
    match type of Hn with _ = Some ?x => assert (Hnd : x = nd);
      [ rewrite En1, En0, Hj in Hn; unfold nthZ in Hn; destruct (Z.of_nat k <? 0) eqn:E; [apply Z.ltb_lt in E; lia|];
        rewrite Nat2Z.id, Hk in Hn; congruence | subst x ] end.
    assert (Hidn : n_id nd = j) by (pose proof (WFx_Idx _ _ HW k nd Hk); lia).
    rewrite Hidn, Hj, updZ_nat, En1, En0 in En2.
    eapply Srv_step; [exact En2|exact Hk|exact HS| |].
    - intros nc' Hc'. rewrite Hc in Hc'. injection Hc' as <-. rewrite Hc0. cbn [NodeOK n_servers all_individuals n_queues set]. intros HF.
      change (concat (n_queues nd)) with (all_individuals nd).
      eapply FinOK_start; [exact HF|exact Hsv0|exact Hcu0|exact Hin|exact Hnone|cbn; congruence|reflexivity|reflexivity|].
      intros i'. rewrite Ei2, Ei1, Ei0, isv_put. cbn [i_id i_server set]. rewrite Hid, Hid0. reflexivity.
    - intros k' nd' i Hne Hk' Hi. rewrite Ei2, Ei1, Ei0, isv_put. cbn [i_id set]. rewrite Hid.
      destruct (i =? c) eqn:E; [|reflexivity]. apply Z.eqb_eq in E. subst i. exfalso. apply Hne.
      eapply WFx_one_node; [exact HW|exact Hk'|exact Hk|exact Hi|exact Hin].
  Qed.

  (* ---------- begin_service_if_possible (both call sites) ---------- *)
  Lemma nthZ_of_nat {A} (l : list A) k : nthZ l (Z.of_nat k) = nth_error l k.
  Proof. unfold nthZ. destruct (Z.of_nat k <? 0) eqn:E; [apply Z.ltb_lt in E; lia|]. rewrite Nat2Z.id. reflexivity. Qed.

  (* ---------- what the service-start functions do, in terms of queues, servers and customers' entries ---------- *)
  Lemma start_service_decomp j c sv s s' k nd : j - 1 = Z.of_nat k -> nth_error (nodes s) k = Some nd -> n_id nd = j ->
    start_service j c (Some sv) s = Ok (tt, s') ->
    exists ndk sv', nodes s' = upd (nodes s) k ndk /\ nshape ndk = nshape nd /\ n_servers ndk = put_server_l sv' (n_servers nd) /\
      sv_id sv' = sv_id sv /\ sv_cust sv' = Some c /\ sv_busy sv' = true /\ ient (inds s) c <> None /\
      (forall i, ient (inds s') i = if i =? c then Some (Some (sv_id sv)) else ient (inds s) i) /\ log s' = log s.
  Proof.
    intros Hj Hk Hidn H. unfold start_service in H.
    mstep H. mstep H. mstep H. pose proof (draw_svc_log _ _ _ E) as El0. apply draw_svc_spec in E as [En0 Ei0].
    mstep H. dtt. pose proof (put_ind_log _ _ _ E) as El1. apply put_ind_spec in E as [En1 Ei1].
    mstep H. pose proof (put_node_log _ _ _ H) as El2. apply put_node_spec in H as [En2 Ei2]. cbn [n_id set] in En2.
    match type of Hn with _ = Some ?v => assert (Hnd : v = nd);
      [ rewrite En1, En0, Hj, nthZ_of_nat, Hk in Hn; congruence | subst v ] end.
    rewrite Hidn, Hj, updZ_nat, En1, En0 in En2.
    eexists. eexists. split; [exact En2|]. split; [reflexivity|]. split; [reflexivity|]. split; [reflexivity|]. split; [reflexivity|]. split; [reflexivity|].
    split; [rewrite (ient_find _ _ _ Hf); discriminate|]. split; [|congruence].
    intros i. rewrite Ei2, Ei1, Ei0, ient_put. cbn [i_id i_server set]. rewrite Hid. reflexivity.
  Qed.

  Lemma waiting_of_nil q il : waiting_of q il = [] -> forall i, In i q -> ient il i <> Some None.
  Proof.
    induction q as [|a r IH]; cbn; intros H i Hi; [destruct Hi|]. unfold ient in *.
    destruct (find_ind a il) as [x|] eqn:E.
    - destruct (i_server x) eqn:Es; [|discriminate H]. destruct Hi as [<-|Hi]; [rewrite E; cbn; congruence|auto].
    - destruct Hi as [<-|Hi]; [rewrite E; cbn; congruence|auto].
  Qed.
  Lemma first_waiting_nil qs il : first_waiting qs il = [] -> forall i, In i (concat qs) -> ient il i <> Some None.
  Proof.
    induction qs as [|q r IH]; cbn; intros H i Hi; [destruct Hi|]. destruct (waiting_of q il) as [|w0 wr] eqn:E; [|discriminate H].
    apply in_app_or in Hi as [Hi|Hi]; [eapply waiting_of_nil; eauto|auto].
  Qed.
  (* choose_next_customer finds nobody only when no customer of the node is waiting *)
  Lemma choose_none_spec nd s s' : Idx s -> choose_next_customer cf nd s = Ok (None, s') ->
    K s s' /\ forall i, In i (all_individuals nd) -> ient (inds s) i <> Some None.
  Proof.
    intros HI H. split; [eapply KI_choose_next_customer; eauto|].
    unfold choose_next_customer in H. mstep H.
    destruct (first_waiting (n_queues nd) (inds s)) as [|w0 wr] eqn:E; [apply first_waiting_nil; exact E|].
    exfalso. mstep H. destruct (nc_disc a =? 0); [apply ret_spec in H as [_ H]; discriminate|].
    destruct (nc_disc a =? 1); [apply ret_spec in H as [_ H]; discriminate|].
    mstep H. apply ret_spec in H as [_ H]. discriminate.
  Qed.

  Lemma bsip_accept_decomp j i s s' : Idx s -> begin_service_if_possible_accept cf j i s = Ok (tt, s') ->
    exists s0 k nd nc, K s s0 /\ j - 1 = Z.of_nat k /\ nth_error (nodes s0) k = Some nd /\ nth_error (cf_nodes cf) k = Some nc /\
      match nc_c nc with
      | None => K s0 s'
      | Some _ => exists cand s1, choose_next_customer cf nd s0 = Ok (cand, s1) /\
          match cand, find_free_server (n_servers nd) with
          | Some c, Some sv => start_service j c (Some sv) s1 = Ok (tt, s')
          | _, _ => s' = s1
          end
      end.
  Proof.
    intros HI H. unfold begin_service_if_possible_accept in H.
    mstep H. mstep H. mstep H. dtt.
    assert (K0 : K s s0) by (eapply K_put_ind; [exact E|cbn; rewrite Hid; apply ient_find; exact Hf]). clear E.
    pose proof (K_Idx _ _ K0 HI) as I0.
    mstep H. mstep H.
    destruct (nthZ_nat _ _ _ Hn) as (k & Hk & Hnk). rewrite Hk, nthZ_of_nat in Hc.
    exists s0, k. eexists. exists nc. split; [exact K0|]. split; [exact Hk|]. split; [exact Hnk|]. split; [exact Hc|].
    mstep H. destruct (nc_c nc) as [c0|]; rewrite Hb in E, H.
    - eexists. eexists. split; [exact E|].
      match type of H with (match ?cand with _ => _ end) _ = _ => destruct cand as [c|] end; [|apply ret_spec in H as [-> _]; reflexivity].
      match type of H with (match ?o with _ => _ end) _ = _ => destruct o as [sv|] end; [exact H|apply ret_spec in H as [-> _]; reflexivity].
    - apply ret_spec in E as [-> ->]. eapply start_service_none; eauto.
  Qed.

  (* node k has a free server sid and a customer c without server *)
  Definition ready (s : sim) (k : nat) (sid c : Z) : Prop :=
    exists nd, nth_error (nodes s) k = Some nd /\ free_in (n_servers nd) sid /\ In c (all_individuals nd) /\ isv (inds s) c = None.
  Lemma K_ready s s' k sid c : K s s' -> ready s k sid c -> ready s' k sid c.
  Proof.
    intros HK (nd & Hk & Hfree & Hin & Hnone). destruct (K_sym_nth _ _ _ _ HK Hk) as (nd' & Hk' & Hsh & Hsc).
    exists nd'. split; [exact Hk'|]. split; [eapply free_in_score; eauto|]. split; [rewrite (nshape_all _ _ Hsh); exact Hin|].
    rewrite (K_isv _ _ HK). exact Hnone.
  Qed.
  Lemma start_service_ready j c sv fl s s' k nc c0 :
    WFx fl s -> Srv cf s -> j - 1 = Z.of_nat k -> nth_error (cf_nodes cf) k = Some nc -> nc_c nc = Some c0 ->
    ready s k (sv_id sv) c -> start_service j c (Some sv) s = Ok (tt, s') -> Srv cf s'.
  Proof. intros HW HS Hj Hc Hc0 (nd & Hk & Hfree & Hin & Hnone) H. eapply start_service_some; eauto. Qed.

  Lemma bsip_accept_srv j i fl s s' : WFx fl s -> Srv cf s -> begin_service_if_possible_accept cf j i s = Ok (tt, s') -> Srv cf s'.
  Proof.
    intros HW HS H. unfold begin_service_if_possible_accept in H.
    pose proof (WFx_Idx _ _ HW) as HI.
    mstep H. mstep H. mstep H. dtt.
    assert (K0 : K s s0) by (eapply K_put_ind; [exact E|cbn; rewrite Hid; apply ient_find; exact Hf]). clear E.
    pose proof (K_WFx _ _ _ K0 HW) as W0. pose proof (Srv_K _ _ _ K0 HS) as S0. pose proof (K_Idx _ _ K0 HI) as I0.
    mstep H. mstep H.
    destruct (nthZ_nat _ _ _ Hn) as (k & Hk & Hnk). rewrite Hk, nthZ_of_nat in Hc.
    mstep H.
    match type of E with (if ?b then _ else _) _ = _ => destruct b eqn:Einf end.
    - apply ret_spec in E as [-> ->]. eapply Srv_K; [eapply start_service_none; eauto|exact S0].
    - match type of H with (match ?cand with _ => _ end) _ = _ => destruct cand as [c|] end.
      + destruct (choose_spec _ _ _ _ I0 E) as (K1 & Hin & Hnone).
        match type of H with (match ?o with _ => _ end) _ = _ => destruct o as [sv|] eqn:Efree end.
        * destruct (nc_c nc) as [c0|] eqn:Ec0; [|discriminate Hb].
          apply find_free_server_In in Efree as [Hsv Hbusy].
          pose proof (S0 k _ nc Hnk Hc) as HF. rewrite Ec0 in HF. cbn in HF.
          assert (Hcu : sv_cust sv = None) by (pose proof (fo_busy _ _ _ _ HF sv Hsv) as B; rewrite Hbusy in B; destruct (sv_cust sv); [discriminate|reflexivity]).
          eapply start_service_ready; [exact (K_WFx _ _ _ K1 W0)|exact (Srv_K _ _ _ K1 S0)|exact Hk|exact Hc|exact Ec0| |exact H].
          eapply K_ready; [exact K1|]. eexists. split; [exact Hnk|]. split; [exists sv; auto|]. auto.
        * apply ret_spec in H as [-> _]. exact (Srv_K _ _ _ K1 S0).
      + apply ret_spec in H as [-> _]. eapply Srv_K; [eapply KI_choose_next_customer; eauto|exact S0].
  Qed.

  Lemma bsip_release_srv j freed fl s s' k nc :
    WFx fl s -> Srv cf s -> j - 1 = Z.of_nat k -> nth_error (cf_nodes cf) k = Some nc ->
    (forall sid, freed = Some sid -> (exists c0, nc_c nc = Some c0) /\ exists nd, nth_error (nodes s) k = Some nd /\ free_in (n_servers nd) sid) ->
    begin_service_if_possible_release cf j freed s = Ok (tt, s') -> Srv cf s'.
  Proof.
    intros HW HS Hj Hc Hfr H. unfold begin_service_if_possible_release in H.
    pose proof (WFx_Idx _ _ HW) as HI.
    destruct freed as [sid|]; [|apply ret_spec in H as [-> _]; exact HS].
    destruct (Hfr sid eq_refl) as ((c0 & Hc0) & nd & Hk & Hfree).
    mstep H. rewrite Hj, nthZ_of_nat, Hk in Hn. injection Hn as <-.
    destruct (find_server sid (n_servers nd)) as [sv|] eqn:Efs; [|apply ret_spec in H as [-> _]; exact HS].
    apply find_server_In in Efs as [Hsv Hsid].
    mstep H.
    match type of H with (match ?cand with _ => _ end) _ = _ => destruct cand as [c|] end.
    - destruct (choose_spec _ _ _ _ HI E) as (K1 & Hin & Hnone).
      eapply start_service_ready; [exact (K_WFx _ _ _ K1 HW)|exact (Srv_K _ _ _ K1 HS)|exact Hj|exact Hc|exact Hc0| |exact H].
      eapply K_ready; [exact K1|]. exists nd. rewrite Hsid. auto.
    - apply ret_spec in H as [-> _]. eapply Srv_K; [eapply KI_choose_next_customer; eauto|exact HS].
  Qed.

  (* ---------- a customer in flight (without server) lands in a node, or at the exit ---------- *)
  Lemma in_concat_upd_add (ls : list (list Z)) k q x i :
    nth_error ls k = Some q -> (In i (concat (upd ls k (q ++ [x]))) <-> i = x \/ In i (concat ls)).
  Proof.
    intros Hk. assert (P : Permutation (concat (upd ls k (q ++ [x]))) (x :: concat ls)).
    { eapply concat_upd_perm; [exact Hk|]. rewrite Permutation_app_comm. reflexivity. }
    split; intros H.
    - apply (Permutation_in _ P) in H. destruct H as [<-|H]; auto.
    - apply (Permutation_in _ (Permutation_sym P)). destruct H as [->|H]; [left; reflexivity|right; exact H].
  Qed.

  Lemma accept_decomp j x fl s s' : WFx (i_id x :: fl) s -> accept cf j x s = Ok (tt, s') ->
    exists k nd ndk s1, j - 1 = Z.of_nat k /\ nth_error (nodes s) k = Some nd /\ nodes s1 = upd (nodes s) k ndk /\
      n_servers ndk = n_servers nd /\ (forall i', In i' (all_individuals ndk) <-> i' = i_id x \/ In i' (all_individuals nd)) /\
      (forall i', ient (inds s1) i' = if i' =? i_id x then Some (i_server x) else ient (inds s) i') /\
      WFx fl s1 /\ log s1 = log s /\ begin_service_if_possible_accept cf j (i_id x) s1 = Ok (tt, s').
  Proof.
    intros HW H. unfold accept in H.
    mstep H. mstep H. dtt.
    pose proof (put_ind_log _ _ _ E) as El0. destruct (put_ind_nodes _ _ _ E) as [En Es]. apply put_ind_spec in E as [_ Ei].
    assert (W1 : WFx (i_id x :: fl) s0) by (eapply WFx_shape; eauto).
    mstep H.
    match type of Hl with match ?o with _ => _ end = _ => destruct o as [q|] eqn:Eq; [|discriminate Hl] end. injection Hl as <-.
    mstep H. dtt.
    destruct (nthZ_nat _ _ _ Hn) as (k & Hk & Hnk).
    pose proof (Idx_get _ _ _ (WFx_Idx _ _ HW) Hn) as Hidn.
    destruct (nthZ_nat _ _ _ Eq) as (kp & Hkp & Hqk).
    assert (W2 : WFx fl s1).
    { rewrite <- En in Hnk. match type of Hnk with _ = Some ?nd0 => assert (Hsh := shp_put_node _ _ _ k nd0 E ltac:(cbn; lia) Hnk) end.
      unfold WFx. rewrite Hsh. unfold WFx, shp in W1.
      eapply WFsh_add; [exact W1|rewrite nth_error_map, Hnk; reflexivity|reflexivity|reflexivity|].
      cbn. rewrite Hkp, updZ_nat. eapply concat_upd_perm; [exact Hqk|]. rewrite Permutation_app_comm. reflexivity. }
    pose proof (put_node_log _ _ _ E) as El1.
    apply put_node_spec in E as [En1 Ei1]. cbn [n_id set] in En1. rewrite Hidn, Hk, updZ_nat, En in En1.
    exists k. eexists. eexists. exists s1. split; [exact Hk|]. split; [exact Hnk|]. split; [exact En1|]. split; [reflexivity|].
    split; [intros i'; cbn [all_individuals n_queues set]; rewrite Hkp, updZ_nat; apply in_concat_upd_add; exact Hqk|].
    split; [intros i'; rewrite Ei1, Ei, ient_put; reflexivity|]. split; [exact W2|]. split; [congruence|exact H].
  Qed.

  (* the state between the two halves of accept: the customer is in the queue, begin_service_if_possible has not run *)
  Lemma accept_mid_srv x fl s s1 k nd ndk : WFx (i_id x :: fl) s -> Srv cf s -> i_server x = None ->
    nth_error (nodes s) k = Some nd -> nodes s1 = upd (nodes s) k ndk -> n_servers ndk = n_servers nd ->
    (forall i', In i' (all_individuals ndk) <-> i' = i_id x \/ In i' (all_individuals nd)) ->
    (forall i', ient (inds s1) i' = if i' =? i_id x then Some (i_server x) else ient (inds s) i') -> Srv cf s1.
  Proof.
    intros HW HS Hx Hnk En Hsv Hmem He.
    assert (Hfly : forall k' nd' i', nth_error (nodes s) k' = Some nd' -> In i' (all_individuals nd') -> isv (inds s1) i' = isv (inds s) i').
    { intros k' nd' i' Hk' Hi'. apply ient_isv. rewrite He. destruct (i' =? i_id x) eqn:E; [|reflexivity]. apply Z.eqb_eq in E. subst i'.
      exfalso. eapply WFx_flying; [exact HW|left; reflexivity|exact Hk'|exact Hi']. }
    eapply Srv_step; [exact En|exact Hnk|exact HS| |].
    - intros nc Hc HN. rewrite Hsv. eapply NodeOK_add; [exact Hmem| |].
      + rewrite isv_ient, He, Z.eqb_refl. exact Hx.
      + eapply NodeOK_ext; [| | |exact HN]; [tauto|reflexivity|]. intros i' Hi'. eapply Hfly; eauto.
    - intros k' nd' i' _ Hk' Hi'. eapply Hfly; eauto.
  Qed.

  Lemma accept_srv j x fl s s' : WFx (i_id x :: fl) s -> Srv cf s -> i_server x = None -> accept cf j x s = Ok (tt, s') -> Srv cf s'.
  Proof.
    intros HW HS Hx H. destruct (accept_decomp _ _ _ _ _ HW H) as (k & nd & ndk & s1 & Hk & Hnk & En & Hsv & Hmem & He & W1 & _ & Hb).
    eapply bsip_accept_srv; [exact W1| |exact Hb]. eapply accept_mid_srv; eauto.
  Qed.

  Lemma exit_accept_srv x c fl s s' : WFx (i_id x :: fl) s -> Srv cf s -> exit_accept x c s = Ok (tt, s') -> Srv cf s'.
  Proof.
    intros HW HS H. unfold exit_accept in H. mstep H. dtt.
    unfold del_ind, modify in E. inversion E. subst s0. clear E.
    unfold modify in H. inversion H. subst s'. clear H.
    match goal with |- Srv cf ?s2 => refine (Srv_inds s s2 _ _ HS) end; [reflexivity|]. intros k nd i Hk Hi. cbn. apply isv_del.
    intros ->. eapply WFx_flying; [exact HW|left; reflexivity|exact Hk|exact Hi].
  Qed.

  (* ---------- release and the unblocking cascade ---------- *)
  Lemma upd_upd {A} (l : list A) k a b : upd (upd l k a) k b = upd l k b.
  Proof. revert k; induction l as [|h t IH]; intros [|k]; cbn; try reflexivity. f_equal. apply IH. Qed.
  Lemma put_server_l_In sv' sv l : find_server (sv_id sv') l = Some sv -> In sv' (put_server_l sv' l).
  Proof.
    induction l as [|y r IH]; cbn; [discriminate|]. destruct (sv_id y =? sv_id sv'); [left; reflexivity|].
    intros H. right. apply IH. exact H.
  Qed.
  Lemma in_concat_upd_rm (ls : list (list Z)) k q q' i i' :
    nth_error ls k = Some q -> remove_first i q = Some q' -> (In i' (concat ls) <-> i' = i \/ In i' (concat (upd ls k q'))).
  Proof.
    intros Hk Hr. assert (P : Permutation (i :: concat (upd ls k q')) (concat ls)).
    { eapply concat_upd_perm_rm; [exact Hk|]. apply remove_first_perm. exact Hr. }
    split; intros H.
    - apply (Permutation_in _ (Permutation_sym P)) in H. destruct H as [<-|H]; auto.
    - apply (Permutation_in _ P). destruct H as [->|H]; [left; reflexivity|right; exact H].
  Qed.

  Lemma write_individual_record_ient j x s s' : ient (inds s) (i_id x) = Some (i_server x) -> write_individual_record cf j x s = Ok (tt, s') ->
    nodes s' = nodes s /\ shp s' = shp s /\ (forall i, ient (inds s') i = ient (inds s) i) /\
    exists r, log s' = log s ++ [r] /\ r_id r = i_id x /\ r_node r = j /\ r_type r = 0.
  Proof.
    intros Hx H. unfold write_individual_record in H. mstep H. mstep H. dtt.
    unfold log_rec, modify in E. inversion E. subst s0. clear E.
    unfold put_ind, modify in H. inversion H. subst s'. clear H. cbn. split; [reflexivity|]. split; [reflexivity|].
    split; [|eexists; split; [reflexivity|cbn; auto]].
    intros i. rewrite ient_put. cbn [i_id i_server set]. destruct (i =? i_id x) eqn:E; [|reflexivity]. apply Z.eqb_eq in E. subst i. symmetry. exact Hx.
  Qed.

  (* one level of release: customer i leaves node j (its server, if any, is freed and offered to a waiting customer),
     lands at d or at the exit, and possibly one blocked customer is released in turn *)
  Lemma release_decomp f j i d fl s s' : WFx fl s -> release cf (S f) j i d s = Ok (tt, s') ->
    exists k nd nc x ndk x3 freed t4 t5 t6,
      j - 1 = Z.of_nat k /\ nth_error (nodes s) k = Some nd /\ nth_error (cf_nodes cf) k = Some nc /\
      find_ind i (inds s) = Some x /\ i_id x3 = i /\
      (forall i', In i' (all_individuals nd) <-> i' = i \/ In i' (all_individuals ndk)) /\
      WFx (i :: fl) t4 /\ WFx (i :: fl) t5 /\ WFx fl t6 /\
      nodes t4 = upd (nodes s) k ndk /\
      (forall i', ient (inds t4) i' = if i' =? i then Some (i_server x3) else ient (inds s) i') /\
      (exists r, log t4 = log s ++ [r] /\ r_id r = i /\ r_node r = j /\ r_type r = 0) /\
      match nc_c nc with
      | None => freed = None /\ n_servers ndk = n_servers nd /\ i_server x3 = i_server x
      | Some _ => exists sid sv sv', freed = Some sid /\ i_server x = Some sid /\ find_server sid (n_servers nd) = Some sv /\
                   n_servers ndk = put_server_l sv' (n_servers nd) /\ sv_id sv' = sid /\ sv_cust sv' = None /\ sv_busy sv' = false /\
                   i_server x3 = None
      end /\
      begin_service_if_possible_release cf j freed t4 = Ok (tt, t5) /\
      (if d =? 0 then exit_accept x3 true else accept cf d x3) t5 = Ok (tt, t6) /\
      (s' = t6 \/ exists t7 from y, K t6 t7 /\ release cf f from y j t7 = Ok (tt, s')).
  Proof.
    intros HW H. cbn [release] in H.
    mstep H. mstep H. mstep H. mstep H. mstep H.
    destruct (nthZ_nat _ _ _ Hn) as (k & Hk & Hnk).
    pose proof (Idx_get _ _ _ (WFx_Idx _ _ HW) Hn) as Hidn.
    destruct (nthZ_nat _ _ _ Hl) as (kp & Hkp & Hqk).
    match type of Hf with _ = Some ?v => rename v into x end.
    match type of Hn with _ = Some ?v => rename v into nd end.
    match type of Hl with _ = Some ?v => rename v into q end.
    match type of Hl0 with _ = Some ?v => rename v into q' end.
    assert (Hmem : forall i', In i' (all_individuals nd) <-> i' = i \/ In i' (concat (updZ (n_queues nd) (i_pprio x) q'))).
    { intros i'. rewrite Hkp, updZ_nat. apply in_concat_upd_rm with (q := q); assumption. }
    assert (Hsx : ient (inds s) i = Some (i_server x)) by (apply ient_find; exact Hf).
    mstep H. dtt. nm E t0.
    assert (W0 : WFx (i :: fl) t0).
    { assert (Hsh := shp_put_node _ _ _ k nd E ltac:(cbn; lia) Hnk).
      unfold WFx. rewrite Hsh. unfold WFx, shp in HW.
      eapply WFsh_rm; [exact HW|rewrite nth_error_map, Hnk; reflexivity|reflexivity|reflexivity|].
      cbn. rewrite Hkp, updZ_nat. symmetry. eapply concat_upd_perm_rm; [exact Hqk|]. apply remove_first_perm. exact Hl0. }
    pose proof (put_node_log _ _ _ E) as El0.
    apply put_node_spec in E as [En0 Ei0]. cbn [n_id set] in En0. rewrite Hidn, Hk, updZ_nat in En0.
    mstep H. dtt. nm E t1.
    pose proof (put_ind_log _ _ _ E) as El1.
    destruct (put_ind_nodes _ _ _ E) as [En1 Es1]. apply put_ind_spec in E as [_ Ei1].
    assert (Hf1 : forall i', ient (inds t1) i' = ient (inds s) i').
    { intros i'. rewrite Ei1, ient_put, Ei0. cbn [i_id i_server set]. rewrite Hid.
      destruct (i' =? i) eqn:E'; [apply Z.eqb_eq in E'; subst i'; symmetry; exact Hsx|reflexivity]. }
    assert (W1 : WFx (i :: fl) t1) by (eapply WFx_shape; eauto).
    mstep H. dtt. nm E t2.
    apply write_individual_record_ient in E as (En2 & Es2 & Hf2 & (r & El2 & Hr1 & Hr2 & Hr3)); [|cbn [i_id i_server set]; rewrite Hid, Hf1; exact Hsx].
    cbn [i_id set] in Hr1. rewrite Hid in Hr1.
    assert (W2 : WFx (i :: fl) t2) by (eapply WFx_shape; eauto).
    mstep H. match type of Hb with ?b = _ => rename b into inf end. rewrite Hk, nthZ_of_nat in Hc.
    mstep H. match type of E with _ = Ok (?fr, ?sx) => rename fr into freed; rename sx into t3 end.
    assert (Hf2' : forall i', ient (inds t2) i' = ient (inds s) i') by (intros i'; rewrite Hf2; apply Hf1).
    assert (Hn2 : nodes t2 = upd (nodes s) k (nd <| n_queues := updZ (n_queues nd) (i_pprio x) q' |> <| n_pop := n_pop nd - 1 |> <| n_insvc := n_insvc nd - 1 |>))
      by (rewrite En2, En1; exact En0).
    assert (C3 : exists ndk, log t3 = log t2 /\ WFx (i :: fl) t3 /\ nodes t3 = upd (nodes s) k ndk /\ (forall i', ient (inds t3) i' = ient (inds s) i') /\
                 all_individuals ndk = concat (updZ (n_queues nd) (i_pprio x) q') /\
                 match nc_c nc with
                 | None => freed = None /\ n_servers ndk = n_servers nd /\ inf = true
                 | Some _ => exists sid sv sv', freed = Some sid /\ i_server x = Some sid /\ find_server sid (n_servers nd) = Some sv /\
                     n_servers ndk = put_server_l sv' (n_servers nd) /\ sv_id sv' = sid /\ sv_cust sv' = None /\ sv_busy sv' = false /\ inf = false
                 end).
    { destruct (nc_c nc) as [c0|] eqn:Ec0; rewrite Hb in E |- *.
      - mstep E. cbn [i_server set] in Hl1. match type of Hl1 with _ = Some ?v => rename v into sid end.
        mstep E. rewrite Hn2, Hk, nthZ_of_nat, (nth_error_upd_eq _ _ _ _ Hnk) in Hn0. injection Hn0 as <-.
        cbn [n_servers set] in E.
        mstep E. match type of Hl2 with _ = Some ?v => rename v into sv end.
        mstep E. mstep E. dtt. apply ret_spec in E as [-> ->]. nm E0 t3.
        assert (Hsh3 : shp t3 = shp t2).
        { eapply put_node_shape; [exact E0|cbn [n_id set]; rewrite Hidn, Hn2, Hk, nthZ_of_nat; eapply nth_error_upd_eq; exact Hnk|reflexivity]. }
        pose proof (put_node_log _ _ _ E0) as El3.
        apply put_node_spec in E0 as [En3 Ei3]. cbn [n_id set] in En3. rewrite Hidn, Hk, updZ_nat, Hn2, upd_upd in En3.
        eexists. split; [exact El3|]. split; [eapply WFx_shape; eauto|]. split; [exact En3|]. split; [intros i'; rewrite Ei3; apply Hf2'|]. split; [reflexivity|].
        exists sid, sv. eexists. split; [reflexivity|]. split; [exact Hl1|]. split; [exact Hl2|]. split; [reflexivity|].
        split; [cbn; apply (find_server_In _ _ _ Hl2)|]. split; [reflexivity|]. split; reflexivity.
      - apply ret_spec in E as [-> ->]. eexists. split; [reflexivity|]. split; [exact W2|]. split; [exact Hn2|]. split; [exact Hf2'|]. split; [reflexivity|].
        split; [reflexivity|]. split; reflexivity. }
    clear E. destruct C3 as (ndk & El3 & W3 & En3 & Hf3 & Hids & Hcase).
    mstep H. match type of Hf0 with _ = Some ?v => rename v into x2 end.
    mstep H. dtt. nm E t4.
    pose proof (put_ind_log _ _ _ E) as El4.
    destruct (put_ind_nodes _ _ _ E) as [En4 Es4]. apply put_ind_spec in E as [_ Ei4].
    assert (W4 : WFx (i :: fl) t4) by (eapply WFx_shape; eauto).
    match type of H with context [accept cf d ?y] => set (x3 := y) in * end.
    assert (Hx3i : i_id x3 = i) by exact Hid0.
    assert (Hx2 : i_server x2 = i_server x).
    { pose proof (ient_find _ _ _ Hf0) as A. rewrite Hf3, Hsx in A. congruence. }
    assert (Hx3 : i_server x3 = if inf then i_server x else None) by (unfold x3; cbn [i_server set]; rewrite Hx2; reflexivity).
    assert (Hf4 : forall i', ient (inds t4) i' = if i' =? i then Some (i_server x3) else ient (inds s) i').
    { intros i'. rewrite Ei4, ient_put, Hx3i, Hf3. reflexivity. }
    clearbody x3.
    mstep H. dtt. nm E t5.
    assert (W5 : WFx (i :: fl) t5) by (eapply WFx_presI; [apply presI_bsip_release|exact W4|exact E]).
    rename E into Ebs.
    mstep H. dtt. nm E t6.
    assert (W6 : WFx fl t6).
    { rewrite <- Hx3i in W5. destruct (d =? 0); [eapply exit_accept_spec; eauto|eapply accept_spec; eauto]. }
    exists k, nd, nc, x, ndk, x3, freed, t4, t5, t6.
    split; [exact Hk|]. split; [exact Hnk|]. split; [exact Hc|]. split; [exact Hf|]. split; [exact Hx3i|].
    split; [intros i'; rewrite Hids; apply Hmem|]. split; [exact W4|]. split; [exact W5|]. split; [exact W6|].
    split; [rewrite En4; exact En3|]. split; [exact Hf4|].
    split; [exists r; split; [rewrite El4, El3, El2, El1, El0; reflexivity|auto]|].
    split.
    { destruct (nc_c nc).
      - destruct Hcase as (sid & sv & sv' & A1 & A2 & A3 & A4 & A5 & A6 & A7 & A8). exists sid, sv, sv'. rewrite A8 in Hx3. tauto.
      - destruct Hcase as (A1 & A2 & A3). rewrite A3 in Hx3. tauto. }
    split; [exact Ebs|]. split; [exact E|].
    mstep H. mstep H.
    match type of H with (if ?c then _ else _) _ = _ => destruct c end; [|apply ret_spec in H as [-> _]; left; reflexivity].
    match type of H with (match ?l with _ => _ end) _ = _ => destruct l as [|[from y] rest] end; [discriminate|].
    mstep H. mstep H.
    match type of E0 with (if ?b then _ else _) _ = Ok (_, ?sx) => assert (Hsx' : sx = t6) by (destruct b; [apply ret_spec in E0 as [-> _]; reflexivity|discriminate E0]); subst sx; clear E0 end.
    mstep H. dtt. nm E0 t7.
    assert (K7 : K t6 t7) by (match type of Hn0 with _ = Some ?nd0 => refine (K_put_node _ nd0 _ _ j (WFx_Idx _ _ W6) Hn0 _ _ E0); reflexivity end).
    right. exists t7, from, y. split; [exact K7|exact H].
  Qed.

  (* the state of release_decomp in which the customer has left node k and its server has been freed *)
  Lemma release_mid_srv i fl s k nd nc x ndk x3 freed t4 : WFx fl s -> Srv cf s ->
    nth_error (nodes s) k = Some nd -> nth_error (cf_nodes cf) k = Some nc -> find_ind i (inds s) = Some x ->
    (forall i', In i' (all_individuals nd) <-> i' = i \/ In i' (all_individuals ndk)) ->
    WFx (i :: fl) t4 -> nodes t4 = upd (nodes s) k ndk ->
    (forall i', ient (inds t4) i' = if i' =? i then Some (i_server x3) else ient (inds s) i') ->
    match nc_c nc with
    | None => freed = None /\ n_servers ndk = n_servers nd /\ i_server x3 = i_server x
    | Some _ => exists sid sv sv', freed = Some sid /\ i_server x = Some sid /\ find_server sid (n_servers nd) = Some sv /\
                 n_servers ndk = put_server_l sv' (n_servers nd) /\ sv_id sv' = sid /\ sv_cust sv' = None /\ sv_busy sv' = false /\
                 i_server x3 = None
    end ->
    Srv cf t4 /\ i_server x3 = None /\
    (forall sid, freed = Some sid -> (exists c0, nc_c nc = Some c0) /\ exists nd', nth_error (nodes t4) k = Some nd' /\ free_in (n_servers nd') sid).
  Proof.
    intros HW HS Hnk Hc Hf Hmem W4 En4 Hf4 Hcase.
    assert (Hni : ~ In i (all_individuals ndk)).
    { eapply (WFx_flying _ _ k _ i W4); [left; reflexivity|rewrite En4; eapply nth_error_upd_eq; exact Hnk]. }
    assert (Hsx : isv (inds s) i = i_server x) by (apply isv_find; exact Hf).
    assert (Hoth : forall i', i' <> i -> isv (inds t4) i' = isv (inds s) i').
    { intros i' Hne. apply ient_isv. rewrite Hf4. destruct (i' =? i) eqn:E; [apply Z.eqb_eq in E; contradiction|reflexivity]. }
    pose proof (HS k nd nc Hnk Hc) as HN.
    split; [|split].
    - eapply Srv_step; [exact En4|exact Hnk|exact HS| |].
      + intros nc' Hc'. rewrite Hc in Hc'. injection Hc' as <-. intros _.
        eapply NodeOK_ext with (ids := all_individuals ndk) (svs := n_servers ndk) (f := isv (inds s)); [tauto|reflexivity| |].
        { intros i' Hi'. apply Hoth. intros ->. contradiction. }
        destruct (nc_c nc) as [c0|] eqn:Ec0; cbn [NodeOK] in *.
        * destruct Hcase as (sid & sv & sv' & A1 & A2 & A3 & A4 & A5 & A6 & A7 & A8). rewrite A4.
          eapply FinOK_release with (i := i) (sid := sid) (sv := sv); [exact HN| |exact Hni|exact Hmem| |exact A3|exact A5|exact A6|exact A7].
          -- apply Hmem. left. reflexivity.
          -- rewrite Hsx. exact A2.
        * intros i' Hi'. apply HN. apply Hmem. right. exact Hi'.
      + intros k' nd' i' Hne Hk' Hi'. apply Hoth. intros ->. apply Hne.
        eapply WFx_one_node; [exact HW|exact Hk'|exact Hnk|exact Hi'|apply Hmem; left; reflexivity].
    - destruct (nc_c nc) as [c0|] eqn:Ec0.
      + destruct Hcase as (sid0 & sv & sv' & A1 & A2 & A3 & A4 & A5 & A6 & A7 & A8). exact A8.
      + destruct Hcase as (_ & _ & A3). rewrite A3, <- Hsx. cbn in HN. apply HN. apply Hmem. left. reflexivity.
    - intros sid Hs. destruct (nc_c nc) as [c0|] eqn:Ec0.
      + destruct Hcase as (sid0 & sv & sv' & A1 & A2 & A3 & A4 & A5 & A6 & A7 & A8). rewrite A1 in Hs. injection Hs as <-.
        split; [eauto|]. exists ndk. split; [rewrite En4; eapply nth_error_upd_eq; exact Hnk|]. rewrite A4.
        exists sv'. split; [eapply put_server_l_In; rewrite A5; exact A3|]. auto.
      + destruct Hcase as (A1 & _). congruence.
  Qed.

  Lemma release_srv : forall f j i d fl s s', WFx fl s -> Srv cf s -> release cf f j i d s = Ok (tt, s') -> Srv cf s'.
  Proof.
    induction f as [|f IH]; intros j i d fl s s' HW HS H; [discriminate|].
    destruct (release_decomp _ _ _ _ _ _ _ HW H) as
      (k & nd & nc & x & ndk & x3 & freed & t4 & t5 & t6 & Hk & Hnk & Hc & Hf & Hx3i & Hmem & W4 & W5 & W6 & En4 & Hf4 & Hlog & Hcase & Ebs & Eacc & Hrest).
    destruct (release_mid_srv _ _ _ _ _ _ _ _ _ _ _ HW HS Hnk Hc Hf Hmem W4 En4 Hf4 Hcase) as (S4 & Hx3 & Hfree).
    assert (S5 : Srv cf t5) by (eapply bsip_release_srv; [exact W4|exact S4|exact Hk|exact Hc|exact Hfree|exact Ebs]).
    assert (S6 : Srv cf t6).
    { rewrite <- Hx3i in W5. destruct (d =? 0); [eapply exit_accept_srv; eauto|eapply accept_srv; eauto]. }
    destruct Hrest as [->|(t7 & from & y & K7 & Hr)]; [exact S6|].
    eapply IH; [exact (K_WFx _ _ _ K7 W6)|exact (Srv_K _ _ _ K7 S6)|exact Hr].
  Qed.

  (* extend the cumulative K-step from the start state by one more K-step *)
  Ltac kc H0 :=
    match type of H0 with K ?sa ?sb =>
      match goal with HI : Idx ?s0, Kc : K ?s0 sa |- _ =>
        let Kn := fresh "Kn" in assert (Kn := K_trans _ _ _ Kc H0); clear Kc H0; rename Kn into Kc end end.
  Ltac kci lem :=
    match goal with
    | Kc : K ?s0 ?sa, HI : Idx ?s0, E : _ ?sa = Ok (_, ?sb) |- _ =>
      let Kn := fresh "Kn" in assert (Kn : K sa sb) by (eapply lem; [exact (K_Idx _ _ Kc HI)|exact E]); clear E; kc Kn
    end.

  (* ---------- finish_service ---------- *)
  Lemma finish_service_decomp j s s' : Idx s -> finish_service cf j s = Ok (tt, s') ->
    exists s1, K s s1 /\ (K s1 s' \/ exists f i d, release cf f j i d s1 = Ok (tt, s')).
  Proof.
    intros HI H. unfold finish_service in H. pose proof (K_refl s) as Kc.
    mstep H.
    mstep H. match type of E with _ = Ok (?v, _) => rename v into i end.
    match type of E with _ ?sa = Ok (_, ?sb) => assert (K1 : K sa sb) by
      (match type of E with (match ?l with _ => _ end) _ = _ => destruct l as [|i0 [|i1 r]] end;
       [discriminate E|apply ret_spec in E as [-> _]; apply K_refl|eapply KI_choice_uniform; eauto]); clear E; kc K1 end.
    mstep H; match type of Hf with _ = Some ?v => rename v into x end.
    match type of Hf with find_ind _ (inds ?sa) = _ => assert (Hsx : ient (inds s) i = Some (i_server x)) by (etransitivity; [symmetry; apply (K_ient _ _ Kc)|apply ient_find; exact Hf]) end.
    mstep H.
    mstep H; match type of E with _ = Ok (?v, _) => rename v into x1 end.
    match type of E with _ ?sa = Ok (_, ?sb) => assert (C1 : K sa sb /\ i_server x1 = i_server x /\ i_id x1 = i);
      [ match type of E with (match ?o with _ => _ end) _ = _ => destruct o as [m|] end;
        [ mstep E; mstep E;
          match goal with E' : choice_weighted _ _ _ = Ok (_, _) |- _ => pose proof (KI_choice_weighted _ _ _ _ _ (K_Idx _ _ Kc HI) E') as K1; clear E' end;
          mstep E; apply ret_spec in E as [-> ->]; split; [exact K1|split; [reflexivity|exact Hid]]
        | apply ret_spec in E as [-> ->]; split; [apply K_refl|split; [reflexivity|exact Hid]] ]
      | destruct C1 as (K1 & Hs1 & Hi1); clear E; kc K1 ] end.
    mstep H; mstep H; mstep H; kci KI_choice_weighted.
    mstep H; dtt.
    match type of E with put_ind ?y ?sa = Ok (_, ?sb) =>
           assert (K1 : K sa sb) by (eapply K_put_ind; [exact E|cbn [i_id i_server set]; rewrite Hi1, Hs1, <- Hsx; apply (K_ient _ _ Kc)]); clear E; kc K1 end.
    mstep H.
    mstep H; dtt.
    match type of E with _ ?sa = Ok (_, ?sb) => assert (K1 : K sa sb);
      [ match type of E with (if ?b then _ else _) _ = _ => destruct b end;
        [ apply ret_spec in E as [-> _]; apply K_refl
        | mstep E; mstep E; mstep E;
          match goal with Hn' : nthZ (nodes sa) (j - 1) = Some ?nd0, Hfs : find_server _ _ = Some ?sv |- _ =>
            refine (K_put_node _ nd0 _ _ j (K_Idx _ _ Kc HI) Hn' _ _ E); [reflexivity|]; cbn [n_servers set];
            eapply put_server_l_score; [cbn [sv_id set]; rewrite (proj2 (find_server_In _ _ _ Hfs)); exact Hfs|reflexivity] end ]
      | clear E; kc K1 ] end.
    mstep H.
    match type of E with (if ?b then _ else _) ?sa = Ok (_, ?sb) =>
           assert (Hsb : sb = sa) by (destruct b; [apply ret_spec in E as [-> _]; reflexivity|mstep E; mstep E; apply ret_spec in E as [-> _]; reflexivity]);
           subst sb; clear E end.
    match type of H with (if ?sp then _ else _) _ = _ => destruct sp end.
    - mstep H. eexists. split; [exact Kc|]. right. eauto.
    - eexists. split; [exact Kc|]. left. eapply KI_block_individual; [exact (K_Idx _ _ Kc HI)|exact H].
  Qed.
  Lemma finish_service_srv j fl s s' : WFx fl s -> Srv cf s -> finish_service cf j s = Ok (tt, s') -> Srv cf s'.
  Proof.
    intros HW HS H. destruct (finish_service_decomp _ _ _ (WFx_Idx _ _ HW) H) as (s1 & K1 & [K2|(f & i & d & Hr)]).
    - exact (Srv_K _ _ _ K2 (Srv_K _ _ _ K1 HS)).
    - eapply release_srv; [exact (K_WFx _ _ _ K1 HW)|exact (Srv_K _ _ _ K1 HS)|exact Hr].
  Qed.

  Lemma KI_mod_accepted : KI (modify (fun s => s <| arr := arr s <| a_accepted := a_accepted (arr s) + 1 |> |>)).
  Proof. apply KI_modify. intros s. repeat split. Qed.

  (* ---------- the arrival node ---------- *)
  Lemma release_individual_decomp j x s s' : Idx s -> release_individual cf j x s = Ok (tt, s') ->
    exists s0 s1, nodes s0 = nodes s /\ shp s0 = shp s /\ inds s0 = put_ind_l x (inds s) /\ log s0 = log s /\ K s0 s1 /\
      ((exists b, exit_accept x b s1 = Ok (tt, s')) \/ accept cf j x s1 = Ok (tt, s')).
  Proof.
    intros HI H. unfold release_individual in H.
    mstep H. mstep H. mstep H.
    try match goal with E : sys_population ?sa = Ok (_, ?sb) |- _ =>
      assert (Hsb : sb = sa) by (unfold sys_population in E; mstep E; apply ret_spec in E as [-> _]; reflexivity); subst sb; clear E end.
    mstep H. dtt.
    pose proof (put_ind_log _ _ _ E) as El. destruct (put_ind_nodes _ _ _ E) as [En Es]. apply put_ind_spec in E as [_ Ei].
    exists s0. assert (I0 : Idx s0) by (eapply Idx_shape; eauto).
    assert (Hfin : forall s1, K s0 s1 -> ((exists b, exit_accept x b s1 = Ok (tt, s')) \/ accept cf j x s1 = Ok (tt, s')) ->
              exists s1, nodes s0 = nodes s /\ shp s0 = shp s /\ inds s0 = put_ind_l x (inds s) /\ log s0 = log s /\ K s0 s1 /\
                ((exists b, exit_accept x b s1 = Ok (tt, s')) \/ accept cf j x s1 = Ok (tt, s'))) by (intros s1 K1 Hc; exists s1; split; [exact En|split; [exact Es|split; [exact Ei|split; [exact El|split; [exact K1|exact Hc]]]]]).
    match type of H with (if ?b then _ else _) _ = _ => destruct b end.
    - mstep H. dtt. eapply Hfin; [eapply KI_write_br_record; eauto|left; eauto].
    - mstep H. mstep H.
      match type of H with (match ?tb with _ => _ end) _ = _ => destruct tb as [tb|] end.
      + mstep H. assert (K1 : K s0 s1) by (eapply KI_draw_unif; eauto).
        match type of H with (if ?b then _ else _) _ = _ => destruct b end.
        * mstep H. dtt. eapply Hfin; [eapply K_trans; [exact K1|eapply KI_write_br_record; [exact (K_Idx _ _ K1 I0)|eauto]]|left; eauto].
        * mstep H. dtt. eapply Hfin; [eapply K_trans; [exact K1|eapply KI_mod_accepted; [exact (K_Idx _ _ K1 I0)|eauto]]|right; exact H].
      + mstep H. dtt. eapply Hfin; [eapply KI_mod_accepted; eauto|right; exact H].
  Qed.

  Lemma release_individual_srv j x fl s s' : WFx (i_id x :: fl) s -> Srv cf s -> i_server x = None ->
    release_individual cf j x s = Ok (tt, s') -> Srv cf s'.
  Proof.
    intros HW HS Hx H.
    destruct (release_individual_decomp _ _ _ _ (WFx_Idx _ _ HW) H) as (s0 & s1 & En & Es & Ei & _ & K1 & Hc).
    assert (W0 : WFx (i_id x :: fl) s0) by (eapply WFx_shape; eauto).
    assert (S0 : Srv cf s0).
    { eapply Srv_inds; [exact En| |exact HS]. intros k nd i Hk Hi. rewrite Ei, isv_put.
      destruct (i =? i_id x) eqn:E; [|reflexivity]. apply Z.eqb_eq in E. subst i.
      exfalso. eapply WFx_flying; [exact HW|left; reflexivity|exact Hk|exact Hi]. }
    pose proof (K_WFx _ _ _ K1 W0) as W1. pose proof (Srv_K _ _ _ K1 S0) as S1.
    destruct Hc as [[b Hc]|Hc]; [eapply exit_accept_srv; eauto|eapply accept_srv; eauto].
  Qed.

  Lemma batch_loop_srv : forall n j c p s s', WFx [] s -> Srv cf s -> batch_loop cf n j c p s = Ok (tt, s') -> WFx [] s' /\ Srv cf s'.
  Proof.
    induction n as [|n IH]; intros j c p s s' HW HS H; cbn [batch_loop] in H; [apply ret_spec in H as [-> _]; auto|].
    mstep H. dtt.
    match goal with E : modify _ s = Ok (_, ?s1) |- _ =>
      assert (C1 : WFx [a_created (arr s) + 1] s1 /\ a_created (arr s1) = a_created (arr s) + 1 /\ Srv cf s1) by
        (unfold modify in E; inversion E; subst; split; [unfold WFx, shp in *; cbn; apply WFsh_spawn; exact HW|split; [reflexivity|exact HS]]);
      destruct C1 as (W1 & Ec & S1); clear HW HS E end.
    mstep H. mstep H. dtt.
    match goal with E : release_individual _ ?jj ?xx ?s0 = Ok (tt, ?s1) |- _ =>
      assert (W2 : WFx [] s1) by (eapply release_individual_spec; [|exact E]; cbn [new_ind i_id]; rewrite Ec; exact W1);
      assert (S2 : Srv cf s1) by (refine (release_individual_srv jj xx [] s0 s1 _ S1 eq_refl E); cbn [new_ind i_id]; rewrite Ec; exact W1) end.
    eapply IH; eauto.
  Qed.

  Lemma arrival_have_event_decomp s s' : Idx s -> arrival_have_event cf s = Ok (tt, s') ->
    exists s1 s2 n j c p, K s s1 /\ batch_loop cf n j c p s1 = Ok (tt, s2) /\ (Idx s2 -> K s2 s').
  Proof.
    intros HI H. unfold arrival_have_event in H.
    mstep H. mstep H. assert (K1 : K s s0) by (eapply KI_draw_batch; eauto). clear E.
    mstep H.
    match goal with E : (if ?b then _ else _) ?sa = Ok (_, ?sb) |- _ =>
      assert (Hsb : sb = sa) by (destruct b; [discriminate E|apply ret_spec in E as [-> _]; reflexivity]); subst sb; clear E end.
    mstep H. mstep H. dtt.
    do 6 eexists. split; [exact K1|]. split; [exact E|]. intros I2.
    mstep H. assert (K2 : K s1 s2) by (eapply KI_draw_arr; eauto). clear E0.
    mstep H. mstep H. mstep H.
    mstep H. dtt.
    match goal with E : modify ?f ?sa = Ok (_, ?sb) |- _ =>
      assert (K3 : K sa sb) by (refine (KI_modify f _ _ _ _ (K_Idx _ _ K2 I2) E); intros ?; repeat split) end.
    eapply K_trans; [exact K2|]. eapply K_trans; [exact K3|]. eapply KI_find_next_event_date; [|exact H].
    exact (K_Idx _ _ K3 (K_Idx _ _ K2 I2)).
  Qed.

  Lemma arrival_have_event_srv s s' : WFx [] s -> Srv cf s -> arrival_have_event cf s = Ok (tt, s') -> Srv cf s'.
  Proof.
    intros HW HS H. destruct (arrival_have_event_decomp _ _ (WFx_Idx _ _ HW) H) as (s1 & s2 & n & j & c & p & K1 & Hb & K2).
    destruct (batch_loop_srv _ _ _ _ _ _ (K_WFx _ _ _ K1 HW) (Srv_K _ _ _ K1 HS) Hb) as [W2 S2].
    exact (Srv_K _ _ _ (K2 (WFx_Idx _ _ W2)) S2).
  Qed.

  (* one event = the records of the previous event are dropped, the event proper of the arrival node or of a service node, a K-step *)
  Lemma event_step_decomp s s' : event_step cf s = Ok (tt, s') ->
    exists s2, (arrival_have_event cf (s <| log := [] |>) = Ok (tt, s2) \/ exists j, finish_service cf j (s <| log := [] |>) = Ok (tt, s2)) /\
               (Idx s2 -> K s2 s').
  Proof.
    intros H. unfold event_step in H.
    mstep H. dtt. unfold modify in E. inversion E. subst s0. clear E.
    mstep H. mstep H. dtt.
    eexists. split.
    { match type of E with (if ?b then _ else _) _ = _ => destruct b end; [left; exact E|right; eexists; exact E]. }
    intros I2. mstep H. mstep H. dtt.
    assert (K2 : K s0 s1) by (eapply KI_update_all; eauto).
    eapply K_trans; [exact K2|]. eapply KI_find_next_active_node; [exact (K_Idx _ _ K2 I2)|exact H].
  Qed.

  Lemma Srv_log0 s : Srv cf s -> Srv cf (s <| log := [] |>).
  Proof. intros HS k nd nc Hk Hc. exact (HS k nd nc Hk Hc). Qed.

  (* ---------- T2 for C04: one event ---------- *)
  Theorem event_step_srv s s' : SrvInv cf s -> event_step cf s = Ok (tt, s') -> SrvInv cf s'.
  Proof.
    intros [HW HS] H. split; [eapply event_step_conserves; eauto|].
    destruct (event_step_decomp _ _ H) as (s2 & Hev & K2).
    assert (W1 : WFx [] (s <| log := [] |>)) by (eapply WFx_shape; [|exact HW]; reflexivity). pose proof (Srv_log0 _ HS) as S1.
    assert (C2 : WFx [] s2 /\ Srv cf s2).
    { destruct Hev as [Ha|[j Hf]]; [split; [eapply arrival_have_event_spec; eauto|eapply arrival_have_event_srv; eauto]
                                   |split; [eapply finish_service_spec; eauto|eapply finish_service_srv; eauto]]. }
    destruct C2 as [W2 S2]. exact (Srv_K _ _ _ (K2 (WFx_Idx _ _ W2)) S2).
  Qed.

  Lemma Srv_dr s d : Srv cf s -> Srv cf (s <| dr := d |>).
  Proof. intros HS k nd nc Hk Hc. exact (HS k nd nc Hk Hc). Qed.

  Theorem run_many_srv : forall ds s s', SrvInv cf s -> run_many cf s ds = Ok s' -> SrvInv cf s'.
  Proof.
    induction ds as [|d r IH]; intros s s' HJ H; cbn [run_many] in H; [inversion H; subst; exact HJ|].
    destruct (event_step cf (s <| dr := d |>)) as [[u s1]| |] eqn:E; try discriminate. destruct u.
    eapply IH; [|exact H]. eapply event_step_srv; [|exact E]. destruct HJ as [HW HS].
    split; [eapply WFx_shape; [|exact HW]; reflexivity|apply Srv_dr; exact HS].
  Qed.

  (* ---------- a server stays with its customer until the customer leaves the node ---------- *)
  Definition at_node (s : sim) (k : nat) (i : Z) : Prop := exists nd, nth_error (nodes s) k = Some nd /\ In i (all_individuals nd).
  (* a service record of customer i at node k+1 has been written during the current event: i has been released from the node *)
  Definition left_node (s : sim) (k : nat) (i : Z) : Prop :=
    exists r, In r (log s) /\ r_id r = i /\ r_node r = Z.of_nat k + 1 /\ r_type r = 0.
  Definition Stay (s s' : sim) : Prop :=
    (exists t, log s' = log s ++ t) /\
    forall k i sid, at_node s k i -> isv (inds s) i = Some sid -> (at_node s' k i /\ isv (inds s') i = Some sid) \/ left_node s' k i.

  Lemma Stay_refl s : Stay s s.
  Proof. split; [exists []; rewrite app_nil_r; reflexivity|]. intros k i sid Ha Hs. left. auto. Qed.
  Lemma Stay_trans a b c : Stay a b -> Stay b c -> Stay a c.
  Proof.
    intros [[t1 L1] A] [[t2 L2] B]. split; [exists (t1 ++ t2); rewrite L2, L1, app_assoc; reflexivity|].
    intros k i sid Ha Hs. destruct (A k i sid Ha Hs) as [[Hb Hsb]|(r & Hr & Hr')]; [apply B; assumption|].
    right. exists r. split; [rewrite L2; apply in_or_app; left; exact Hr|exact Hr'].
  Qed.
  (* a step that keeps, for every customer that is at a node, its node and its server *)
  Lemma Stay_keep s s' : (exists t, log s' = log s ++ t) ->
    (forall k i, at_node s k i -> at_node s' k i /\ isv (inds s') i = isv (inds s) i) -> Stay s s'.
  Proof. intros L H. split; [exact L|]. intros k i sid Ha Hs. left. destruct (H k i Ha) as [A B]. split; [exact A|congruence]. Qed.
  Lemma Stay_K s s' : K s s' -> Stay s s'.
  Proof.
    intros HK. apply Stay_keep; [exact (K_log _ _ HK)|]. intros k i (nd & Hk & Hi).
    destruct (K_sym_nth _ _ _ _ HK Hk) as (nd' & Hk' & Hsh & _). split; [exists nd'; rewrite (nshape_all _ _ Hsh); auto|apply (K_isv _ _ HK)].
  Qed.
  (* node k is rewritten with at least the customers it had; entries change only for customers that are at no node or have no server *)
  Lemma Stay_upd s s' k nd ndk : nodes s' = upd (nodes s) k ndk -> nth_error (nodes s) k = Some nd ->
    (forall i, In i (all_individuals nd) -> In i (all_individuals ndk)) -> (exists t, log s' = log s ++ t) ->
    (forall k' i sid, at_node s k' i -> isv (inds s) i = Some sid -> isv (inds s') i = Some sid) -> Stay s s'.
  Proof.
    intros En Hk Hsub L He. split; [exact L|]. intros k' i sid (nd' & Hk' & Hi) Hs. left. split; [|eapply He; [exists nd'; eauto|exact Hs]].
    destruct (Nat.eq_dec k k') as [<-|Hne].
    - exists ndk. rewrite En. split; [eapply nth_error_upd_eq; exact Hk|]. apply Hsub. congruence.
    - exists nd'. rewrite En, nth_error_upd_neq by exact Hne. auto.
  Qed.

  Lemma Stay_start j c sv s s' k nd : Idx s -> j - 1 = Z.of_nat k -> nth_error (nodes s) k = Some nd -> isv (inds s) c = None ->
    start_service j c (Some sv) s = Ok (tt, s') -> Stay s s'.
  Proof.
    intros HI Hj Hk Hnone H. assert (Hidn : n_id nd = j) by (pose proof (HI k nd Hk); lia).
    destruct (start_service_decomp _ _ _ _ _ _ _ Hj Hk Hidn H) as (ndk & sv' & En & Hsh & _ & _ & _ & _ & _ & He & Hl).
    eapply Stay_upd; [exact En|exact Hk|rewrite (nshape_all _ _ Hsh); auto|apply log_same; exact Hl|].
    intros k' i sid _ Hs. rewrite <- Hs. apply ient_isv. rewrite He. destruct (i =? c) eqn:E; [|reflexivity].
    apply Z.eqb_eq in E. subst i. congruence.
  Qed.

  Lemma Stay_bsip_accept j i s s' : Idx s -> begin_service_if_possible_accept cf j i s = Ok (tt, s') -> Stay s s'.
  Proof.
    intros HI H. destruct (bsip_accept_decomp _ _ _ _ HI H) as (s0 & k & nd & nc & K0 & Hj & Hnk & Hc & Hcase).
    eapply Stay_trans; [apply Stay_K; exact K0|]. pose proof (K_Idx _ _ K0 HI) as I0.
    destruct (nc_c nc) as [c0|]; [|apply Stay_K; exact Hcase].
    destruct Hcase as (cand & s1 & Hch & Hrest).
    assert (K1 : K s0 s1) by (eapply KI_choose_next_customer; eauto).
    eapply Stay_trans; [apply Stay_K; exact K1|].
    destruct cand as [c|]; [|assert (s' = s1) by (destruct (find_free_server (n_servers nd)); exact Hrest); subst s'; apply Stay_refl].
    destruct (find_free_server (n_servers nd)) as [sv|]; [|subst s'; apply Stay_refl].
    destruct (choose_spec _ _ _ _ I0 Hch) as (_ & _ & Hnone).
    destruct (K_sym_nth _ _ _ _ K1 Hnk) as (nd1 & Hnk1 & _ & _).
    eapply Stay_start; [exact (K_Idx _ _ K1 I0)|exact Hj|exact Hnk1|rewrite (K_isv _ _ K1); exact Hnone|exact Hrest].
  Qed.

  Lemma Stay_bsip_release j freed s s' : Idx s -> begin_service_if_possible_release cf j freed s = Ok (tt, s') -> Stay s s'.
  Proof.
    intros HI H. unfold begin_service_if_possible_release in H.
    destruct freed as [sid|]; [|apply ret_spec in H as [-> _]; apply Stay_refl].
    mstep H. match type of Hn with _ = Some ?v => rename v into nd end.
    destruct (find_server sid (n_servers nd)) as [sv|]; [|apply ret_spec in H as [-> _]; apply Stay_refl].
    mstep H. assert (K1 : K s s0) by (eapply KI_choose_next_customer; eauto).
    eapply Stay_trans; [apply Stay_K; exact K1|].
    match type of H with (match ?cand with _ => _ end) _ = _ => destruct cand as [c|] end; [|apply ret_spec in H as [-> _]; apply Stay_refl].
    destruct (choose_spec _ _ _ _ HI E) as (_ & _ & Hnone).
    destruct (nthZ_nat _ _ _ Hn) as (k & Hk & Hnk). destruct (K_sym_nth _ _ _ _ K1 Hnk) as (nd1 & Hnk1 & _ & _).
    eapply Stay_start; [exact (K_Idx _ _ K1 HI)|exact Hk|exact Hnk1|rewrite (K_isv _ _ K1); exact Hnone|exact H].
  Qed.

  Lemma Stay_accept j x fl s s' : WFx (i_id x :: fl) s -> accept cf j x s = Ok (tt, s') -> Stay s s'.
  Proof.
    intros HW H. destruct (accept_decomp _ _ _ _ _ HW H) as (k & nd & ndk & s1 & Hk & Hnk & En & Hsv & Hmem & He & W1 & Hl & Hb).
    eapply Stay_trans; [|eapply Stay_bsip_accept; [exact (WFx_Idx _ _ W1)|exact Hb]].
    eapply Stay_upd; [exact En|exact Hnk|intros i Hi; apply Hmem; right; exact Hi|apply log_same; exact Hl|].
    intros k' i sid (nd' & Hk' & Hi) Hs. rewrite <- Hs. apply ient_isv. rewrite He. destruct (i =? i_id x) eqn:E; [|reflexivity].
    apply Z.eqb_eq in E. subst i. exfalso. eapply WFx_flying; [exact HW|left; reflexivity|exact Hk'|exact Hi].
  Qed.

  Lemma Stay_exit_accept x c fl s s' : WFx (i_id x :: fl) s -> exit_accept x c s = Ok (tt, s') -> Stay s s'.
  Proof.
    intros HW H. unfold exit_accept in H. mstep H. dtt.
    unfold del_ind, modify in E. inversion E. subst s0. clear E.
    unfold modify in H. inversion H. subst s'. clear H.
    apply Stay_keep; [apply log_same; reflexivity|]. intros k i (nd & Hk & Hi). split; [exists nd; auto|]. cbn. apply isv_del.
    intros ->. eapply WFx_flying; [exact HW|left; reflexivity|exact Hk|exact Hi].
  Qed.

  Lemma Stay_release : forall f j i d fl s s', WFx fl s -> release cf f j i d s = Ok (tt, s') -> Stay s s'.
  Proof.
    induction f as [|f IH]; intros j i d fl s s' HW H; [discriminate|].
    destruct (release_decomp _ _ _ _ _ _ _ HW H) as
      (k & nd & nc & x & ndk & x3 & freed & t4 & t5 & t6 & Hk & Hnk & Hc & Hf & Hx3i & Hmem & W4 & W5 & W6 & En4 & Hf4 & Hlog & Hcase & Ebs & Eacc & Hrest).
    assert (S04 : Stay s t4).
    { destruct Hlog as (r & Hl & Hr1 & Hr2 & Hr3). split; [eauto|]. intros k' i' sid (nd' & Hk' & Hi') Hs.
      destruct (Z.eq_dec i' i) as [->|Hne].
      - right. assert (k' = k) by (eapply WFx_one_node; [exact HW|exact Hk'|exact Hnk|exact Hi'|apply Hmem; left; reflexivity]). subst k'.
        exists r. split; [rewrite Hl; apply in_or_app; right; left; reflexivity|]. split; [exact Hr1|]. split; [lia|exact Hr3].
      - left. split.
        + destruct (Nat.eq_dec k k') as [<-|Hnk'].
          * exists ndk. rewrite En4. split; [eapply nth_error_upd_eq; exact Hnk|]. rewrite Hnk in Hk'. injection Hk' as <-.
            apply Hmem in Hi'. destruct Hi' as [->|Hi']; [contradiction|exact Hi'].
          * exists nd'. rewrite En4, nth_error_upd_neq by exact Hnk'. auto.
        + rewrite <- Hs. apply ient_isv. rewrite Hf4. destruct (i' =? i) eqn:E; [apply Z.eqb_eq in E; contradiction|reflexivity]. }
    assert (S45 : Stay t4 t5) by (eapply Stay_bsip_release; [exact (WFx_Idx _ _ W4)|exact Ebs]).
    assert (S56 : Stay t5 t6).
    { rewrite <- Hx3i in W5. destruct (d =? 0); [eapply Stay_exit_accept; eauto|eapply Stay_accept; eauto]. }
    eapply Stay_trans; [exact S04|]. eapply Stay_trans; [exact S45|]. eapply Stay_trans; [exact S56|].
    destruct Hrest as [->|(t7 & from & y & K7 & Hr)]; [apply Stay_refl|].
    eapply Stay_trans; [apply Stay_K; exact K7|]. eapply IH; [exact (K_WFx _ _ _ K7 W6)|exact Hr].
  Qed.

  Lemma Stay_finish_service j fl s s' : WFx fl s -> finish_service cf j s = Ok (tt, s') -> Stay s s'.
  Proof.
    intros HW H. destruct (finish_service_decomp _ _ _ (WFx_Idx _ _ HW) H) as (s1 & K1 & [K2|(f & i & d & Hr)]).
    - apply Stay_K. eapply K_trans; eauto.
    - eapply Stay_trans; [apply Stay_K; exact K1|]. eapply Stay_release; [exact (K_WFx _ _ _ K1 HW)|exact Hr].
  Qed.

  Lemma Stay_release_individual j x fl s s' : WFx (i_id x :: fl) s -> release_individual cf j x s = Ok (tt, s') -> Stay s s'.
  Proof.
    intros HW H. destruct (release_individual_decomp _ _ _ _ (WFx_Idx _ _ HW) H) as (s0 & s1 & En & Es & Ei & El & K1 & Hc).
    assert (W0 : WFx (i_id x :: fl) s0) by (eapply WFx_shape; eauto).
    assert (S0 : Stay s s0).
    { apply Stay_keep; [apply log_same; exact El|]. intros k i (nd & Hk & Hi). split; [exists nd; rewrite En; auto|].
      rewrite Ei, isv_put. destruct (i =? i_id x) eqn:E; [|reflexivity]. apply Z.eqb_eq in E. subst i.
      exfalso. eapply WFx_flying; [exact HW|left; reflexivity|exact Hk|exact Hi]. }
    eapply Stay_trans; [exact S0|]. eapply Stay_trans; [apply Stay_K; exact K1|]. pose proof (K_WFx _ _ _ K1 W0) as W1.
    destruct Hc as [[b Hc]|Hc]; [eapply Stay_exit_accept; eauto|eapply Stay_accept; eauto].
  Qed.

  Lemma Stay_batch_loop : forall n j c p s s', WFx [] s -> batch_loop cf n j c p s = Ok (tt, s') -> Stay s s'.
  Proof.
    induction n as [|n IH]; intros j c p s s' HW H; cbn [batch_loop] in H; [apply ret_spec in H as [-> _]; apply Stay_refl|].
    mstep H. dtt.
    match goal with E : modify _ s = Ok (_, ?s1) |- _ =>
      assert (C1 : WFx [a_created (arr s) + 1] s1 /\ a_created (arr s1) = a_created (arr s) + 1 /\ Stay s s1) by
        (unfold modify in E; inversion E; subst; split; [unfold WFx, shp in *; cbn; apply WFsh_spawn; exact HW|split; [reflexivity|]];
         apply Stay_keep; [apply log_same; reflexivity|intros k i Ha; split; [exact Ha|reflexivity]]);
      destruct C1 as (W1 & Ec & S1); clear HW E end.
    mstep H. mstep H. dtt.
    match goal with E : release_individual _ ?jj ?xx ?s0 = Ok (tt, ?s1) |- _ =>
      assert (W1' : WFx (i_id xx :: []) s0) by (cbn [new_ind i_id]; rewrite Ec; exact W1);
      assert (W2 : WFx [] s1) by (eapply release_individual_spec; [exact W1'|exact E]);
      assert (S2 : Stay s0 s1) by (eapply Stay_release_individual; [exact W1'|exact E]) end.
    eapply Stay_trans; [exact S1|]. eapply Stay_trans; [exact S2|]. eapply IH; eauto.
  Qed.

  Lemma Stay_arrival_have_event s s' : WFx [] s -> arrival_have_event cf s = Ok (tt, s') -> Stay s s'.
  Proof.
    intros HW H. destruct (arrival_have_event_decomp _ _ (WFx_Idx _ _ HW) H) as (s1 & s2 & n & j & c & p & K1 & Hb & K2).
    pose proof (K_WFx _ _ _ K1 HW) as W1.
    assert (W2 : WFx [] s2) by (eapply batch_loop_spec; eauto).
    eapply Stay_trans; [apply Stay_K; exact K1|]. eapply Stay_trans; [eapply Stay_batch_loop; eauto|]. apply Stay_K. exact (K2 (WFx_Idx _ _ W2)).
  Qed.

  (* T2 for C04, the clause in time: over one event, a customer that holds a server at a node either is still at that node
     with the same server, or a service record for it at that node was written during the event (it was released) *)
  Theorem event_step_stays s s' : WFx [] s -> event_step cf s = Ok (tt, s') ->
    forall k i sid, at_node s k i -> isv (inds s) i = Some sid -> (at_node s' k i /\ isv (inds s') i = Some sid) \/ left_node s' k i.
  Proof.
    intros HW H. destruct (event_step_decomp _ _ H) as (s2 & Hev & K2).
    assert (W1 : WFx [] (s <| log := [] |>)) by (eapply WFx_shape; [|exact HW]; reflexivity).
    assert (C2 : WFx [] s2 /\ Stay (s <| log := [] |>) s2).
    { destruct Hev as [Ha|[j Hf]]; [split; [eapply arrival_have_event_spec; eauto|eapply Stay_arrival_have_event; eauto]
                                   |split; [eapply finish_service_spec; eauto|eapply Stay_finish_service; eauto]]. }
    destruct C2 as [W2 S2]. pose proof (Stay_trans _ _ _ S2 (Stay_K _ _ (K2 (WFx_Idx _ _ W2)))) as [_ HSt].
    intros k i sid Ha Hs. exact (HSt k i sid Ha Hs).
  Qed.

  (* in terms of the servers: a busy server keeps its customer until that customer is released from the node *)
  Theorem server_stays s s' : SrvInv cf s -> event_step cf s = Ok (tt, s') ->
    forall k nd nc c sv i, nth_error (nodes s) k = Some nd -> nth_error (cf_nodes cf) k = Some nc -> nc_c nc = Some c ->
      In sv (n_servers nd) -> sv_cust sv = Some i ->
      (exists nd' sv', nth_error (nodes s') k = Some nd' /\ In i (all_individuals nd') /\
                       In sv' (n_servers nd') /\ sv_id sv' = sv_id sv /\ sv_cust sv' = Some i /\ sv_busy sv' = true) \/
      left_node s' k i.
  Proof.
    intros HJ H k nd nc c sv i Hk Hc Hcc Hsv Hcu. pose proof (event_step_srv _ _ HJ H) as [W' HS']. destruct HJ as [HW HS].
    pose proof (HS k nd nc Hk Hc) as HF. rewrite Hcc in HF. cbn in HF. destruct (fo_cust _ _ _ _ HF sv i Hsv Hcu) as [Hi Hs].
    destruct (event_step_stays _ _ HW H k i (sv_id sv) (ex_intro _ nd (conj Hk Hi)) Hs) as [[(nd' & Hk' & Hi') Hs']|Hl]; [left|right; exact Hl].
    pose proof (HS' k nd' nc Hk' Hc) as HF'. rewrite Hcc in HF'. cbn in HF'.
    destruct (fo_inv _ _ _ _ HF' i (sv_id sv) Hi' Hs') as (sv' & A1 & A2 & A3).
    exists nd', sv'. split; [exact Hk'|]. split; [exact Hi'|]. split; [exact A1|]. split; [exact A2|]. split; [exact A3|].
    rewrite (fo_busy _ _ _ _ HF' sv' A1), A3. reflexivity.
  Qed.
End Servers.

(* ---------- the invariant in the words of C04 ---------- *)
Lemma NoDup_map_inj_in {A B} (g : A -> B) (l : list A) a b : NoDup (map g l) -> In a l -> In b l -> g a = g b -> a = b.
Proof.
  induction l as [|y r IH]; cbn; intros HN Ha Hb E; [destruct Ha|]. inversion HN as [|? ? Hny HNr]; subst.
  destruct Ha as [<-|Ha], Hb as [<-|Hb]; auto.
  - exfalso. apply Hny. rewrite E. apply in_map. exact Hb.
  - exfalso. apply Hny. rewrite <- E. apply in_map. exact Ha.
Qed.
Lemma NoDup_map_of_inj {A B} (g : A -> B) (l : list A) : NoDup l -> (forall a b, In a l -> In b l -> g a = g b -> a = b) -> NoDup (map g l).
Proof.
  induction l as [|y r IH]; cbn; intros HN Hinj; constructor; inversion HN as [|? ? Hny HNr]; subst.
  - intros Hin. apply in_map_iff in Hin. destruct Hin as (z & Ez & Hz). apply Hny. rewrite (Hinj y z); auto.
  - apply IH; [exact HNr|]. intros a b Ha Hb. apply Hinj; auto.
Qed.
Lemma NoDup_concat_In {A} (ls : list (list A)) l : NoDup (concat ls) -> In l ls -> NoDup l.
Proof.
  induction ls as [|h t IH]; cbn; intros HN Hin; [destruct Hin|]. destruct Hin as [->|Hin].
  - eapply NoDup_app_l; exact HN.
  - apply IH; [|exact Hin]. clear -HN. induction h as [|a h IHh]; cbn in HN; [exact HN|]. inversion HN; auto.
Qed.
Lemma NoDup_filter {A} (p : A -> bool) (l : list A) : NoDup l -> NoDup (filter p l).
Proof.
  induction l as [|y r IH]; cbn; intros HN; [constructor|]. inversion HN as [|? ? Hny HNr]; subst.
  destruct (p y); [constructor; [rewrite filter_In; tauto|auto]|auto].
Qed.
Lemma filter_length_le' {A} (p : A -> bool) (l : list A) : (length (filter p l) <= length l)%nat.
Proof. induction l as [|y r IH]; cbn; [lia|]. destruct (p y); cbn; lia. Qed.

Definition holds_server (il : list ind) (i : Z) : bool := match isv il i with Some _ => true | None => false end.

Theorem srv_means cf s : SrvInv cf s -> forall k nd nc, nth_error (nodes s) k = Some nd -> nth_error (cf_nodes cf) k = Some nc ->
  match nc_c nc with
  | None =>
    (* infinite-server node: no customer of the node records a server *)
    forall i, In i (all_individuals nd) -> isv (inds s) i = None
  | Some c =>
    (* the server set is fixed: c servers with pairwise distinct identities *)
    zlen (n_servers nd) = c /\ NoDup (map sv_id (n_servers nd)) /\
    (* a server is busy exactly when it holds a customer *)
    (forall sv, In sv (n_servers nd) -> (sv_busy sv = true <-> sv_cust sv <> None)) /\
    (* the customer a server holds is at this node and records exactly this server (so a server that has lost its customer is free) *)
    (forall sv i, In sv (n_servers nd) -> sv_cust sv = Some i ->
       In i (all_individuals nd) /\ exists x, find_ind i (inds s) = Some x /\ i_server x = Some (sv_id sv)) /\
    (* a customer of the node that records a server is the customer of exactly that server of this node (blocked or not) *)
    (forall i x sid, In i (all_individuals nd) -> find_ind i (inds s) = Some x -> i_server x = Some sid ->
       exists sv, In sv (n_servers nd) /\ sv_id sv = sid /\ sv_cust sv = Some i) /\
    (* no two customers share a server, no server has two customers' worth of records *)
    (forall i1 i2 sid, In i1 (all_individuals nd) -> In i2 (all_individuals nd) ->
       isv (inds s) i1 = Some sid -> isv (inds s) i2 = Some sid -> i1 = i2) /\
    (forall sv1 sv2 i, In sv1 (n_servers nd) -> In sv2 (n_servers nd) -> sv_cust sv1 = Some i -> sv_cust sv2 = Some i -> sv1 = sv2) /\
    (* at most c customers of the node hold a server, at most c servers are busy *)
    zlen (filter (holds_server (inds s)) (all_individuals nd)) <= c /\ zlen (filter sv_busy (n_servers nd)) <= c
  end.
Proof.
  intros [HW HS] k nd nc Hk Hc. pose proof (HS k nd nc Hk Hc) as HN. destruct (nc_c nc) as [c|]; cbn in HN; [|exact HN].
  destruct HN as [L N B C D].
  assert (Hinj : forall i1 i2 sid, In i1 (all_individuals nd) -> In i2 (all_individuals nd) ->
            isv (inds s) i1 = Some sid -> isv (inds s) i2 = Some sid -> i1 = i2).
  { intros i1 i2 sid H1 H2 E1 E2. destruct (D _ _ H1 E1) as (sv1 & A1 & A2 & A3). destruct (D _ _ H2 E2) as (sv2 & B1 & B2 & B3).
    assert (sv1 = sv2) by (eapply (NoDup_map_inj_in sv_id); eauto; congruence). subst sv2. congruence. }
  split; [exact L|]. split; [exact N|]. split; [|split; [|split; [|split; [exact Hinj|split; [|split]]]]].
  - intros sv Hsv. rewrite (B sv Hsv). destruct (sv_cust sv); split; intros H; congruence.
  - intros sv i Hsv Hcu. destruct (C sv i Hsv Hcu) as [Ha Hb]. split; [exact Ha|]. unfold isv in Hb.
    destruct (find_ind i (inds s)) as [x|]; [|discriminate]. eauto.
  - intros i x sid Hi Hf Hx. apply (D i sid Hi). rewrite (isv_find _ _ _ Hf). exact Hx.
  - intros sv1 sv2 i H1 H2 E1 E2. destruct (C _ _ H1 E1) as [_ A1]. destruct (C _ _ H2 E2) as [_ A2].
    eapply (NoDup_map_inj_in sv_id); eauto. congruence.
  - set (g := fun i => match isv (inds s) i with Some sid => sid | None => 0 end).
    set (l := filter (holds_server (inds s)) (all_individuals nd)).
    assert (Hl : forall i, In i l -> In i (all_individuals nd) /\ exists sid, isv (inds s) i = Some sid).
    { intros i Hi. apply filter_In in Hi as [Ha Hb]. split; [exact Ha|]. unfold holds_server in Hb. destruct (isv (inds s) i); [eauto|discriminate]. }
    assert (NDl : NoDup l).
    { apply NoDup_filter. apply WFx_nodup, NoDup_app_l in HW. eapply NoDup_concat_In; [exact HW|].
      apply in_map. eapply nth_error_In; eauto. }
    assert (NDg : NoDup (map g l)).
    { apply NoDup_map_of_inj; [exact NDl|]. intros a b Ha Hb E. destruct (Hl _ Ha) as (Ha1 & sa & Ea). destruct (Hl _ Hb) as (Hb1 & sb & Eb).
      unfold g in E. rewrite Ea, Eb in E. subst sb. eapply Hinj; eauto. }
    assert (Hincl : incl (map g l) (map sv_id (n_servers nd))).
    { intros z Hz. apply in_map_iff in Hz. destruct Hz as (i & <- & Hi). destruct (Hl _ Hi) as (Ha & sid & Ea).
      destruct (D _ _ Ha Ea) as (sv & A1 & A2 & _). unfold g. rewrite Ea, <- A2. apply in_map. exact A1. }
    pose proof (NoDup_incl_length NDg Hincl) as Hlen. rewrite !map_length in Hlen. unfold zlen in *. lia.
  - pose proof (filter_length_le' sv_busy (n_servers nd)). unfold zlen in *. lia.
Qed.

(* ---------- an executable test of the invariant ---------- *)
Definition opt_eqb (a b : option Z) : bool := match a, b with Some x, Some y => x =? y | None, None => true | _, _ => false end.
Lemma opt_eqb_eq a b : opt_eqb a b = true -> a = b.
Proof. destruct a, b; cbn; intros H; try discriminate; [apply Z.eqb_eq in H; congruence|reflexivity]. Qed.
Fixpoint nodup_b (l : list Z) : bool := match l with [] => true | x :: r => negb (memZ x r) && nodup_b r end.
Lemma nodup_b_sound l : nodup_b l = true -> NoDup l.
Proof.
  induction l as [|x r IH]; cbn; intros H; constructor; apply andb_true_iff in H as [H1 H2]; [|auto].
  intros Hin. apply memZ_In in Hin. rewrite Hin in H1. discriminate.
Qed.
Definition node_b (nc : ncfg) (nd : node) (il : list ind) : bool :=
  let ids := all_individuals nd in
  match nc_c nc with
  | None => forallb (fun i => negb (holds_server il i)) ids
  | Some c =>
    (zlen (n_servers nd) =? c) && nodup_b (map sv_id (n_servers nd))
    && forallb (fun sv => Bool.eqb (sv_busy sv) (match sv_cust sv with Some _ => true | None => false end)) (n_servers nd)
    && forallb (fun sv => match sv_cust sv with None => true | Some i => memZ i ids && opt_eqb (isv il i) (Some (sv_id sv)) end) (n_servers nd)
    && forallb (fun i => match isv il i with
                         | None => true
                         | Some sid => existsb (fun sv => (sv_id sv =? sid) && opt_eqb (sv_cust sv) (Some i)) (n_servers nd)
                         end) ids
  end.
Lemma node_b_sound nc nd il : node_b nc nd il = true -> NodeOK (nc_c nc) (all_individuals nd) (n_servers nd) (isv il).
Proof.
  unfold node_b. destruct (nc_c nc) as [c|]; cbn [NodeOK]; intros H.
  - apply andb_true_iff in H as [H H5]. apply andb_true_iff in H as [H H4]. apply andb_true_iff in H as [H H3].
    apply andb_true_iff in H as [H1 H2]. rewrite forallb_forall in H3, H4, H5. split.
    + apply Z.eqb_eq. exact H1.
    + apply nodup_b_sound. exact H2.
    + intros sv Hsv. apply eqb_prop. apply H3. exact Hsv.
    + intros sv i Hsv Hcu. specialize (H4 sv Hsv). rewrite Hcu in H4. apply andb_true_iff in H4 as [A1 A2].
      split; [apply memZ_In; exact A1|apply opt_eqb_eq; exact A2].
    + intros i sid Hi Hs. specialize (H5 i Hi). rewrite Hs in H5. apply existsb_exists in H5. destruct H5 as (sv & Hsv & A).
      apply andb_true_iff in A as [A1 A2]. exists sv. split; [exact Hsv|]. split; [apply Z.eqb_eq; exact A1|apply opt_eqb_eq; exact A2].
  - rewrite forallb_forall in H. intros i Hi. specialize (H i Hi). unfold holds_server in H. destruct (isv il i); [discriminate|reflexivity].
Qed.
Fixpoint nodes_b (ncs : list ncfg) (nds : list node) (il : list ind) : bool :=
  match ncs, nds with nc :: r, nd :: r' => node_b nc nd il && nodes_b r r' il | _, _ => true end.
Definition srv_b (cf : config) (s : sim) : bool := wfx_b s && nodes_b (cf_nodes cf) (nodes s) (inds s).

Theorem srv_b_sound cf s : srv_b cf s = true -> SrvInv cf s.
Proof.
  unfold srv_b. intros H. apply andb_true_iff in H as [H1 H2]. split; [apply wfx_b_sound; exact H1|].
  unfold Srv. generalize dependent (nodes s). generalize (cf_nodes cf). clear H1.
  induction l as [|nc r IH]; intros nds H k nd nc' Hk Hc; [destruct k; discriminate|].
  destruct nds as [|nd0 r']; [destruct k; discriminate|]. cbn in H. apply andb_true_iff in H as [A1 A2].
  destruct k as [|k]; cbn in Hk, Hc.
  - injection Hk as <-. injection Hc as <-. apply node_b_sound. exact A1.
  - eapply IH; eauto.
Qed.

(* non-vacuity: a two-server node holding three customers, two in service (one of them blocked) and one waiting,
   next to an infinite-server node holding one customer *)
Definition ex_cf : config :=
  mkCfg 1 [mkNcfg (Some 2) None None 0; mkNcfg None None None 0] [0] 1 None [[[0; 8]; [0; 0]]] [[None; None]].
Definition ex_ind (i : Z) (j : Z) (blocked : bool) (srv : option Z) : ind :=
  mkInd i 0 0 0 0 0 (Some j) (Some 0) (match srv with Some _ => Some 0 | None => None end) (match srv with Some _ => Some 5 | None => None end)
        (match srv with Some _ => Some 5 | None => None end) None blocked srv None (Some 0) None 0.
Definition ex_s : sim :=
  mkSim 7 1 (mkArr 4 4 [[Some 9]; [None]] 1 0 (Some 9))
    [ mkNode 1 3 2 [[1; 2; 3]] [mkServer 1 (Some 1) true None 0 None 0; mkServer 2 (Some 2) true (Some 8) 0 None 0] [] 0 (Some 8) [2];
      mkNode 2 1 1 [[4]] [] [] 0 (Some 12) [4] ]
    [] 0 0
    [ex_ind 1 1 true (Some 1); ex_ind 2 1 false (Some 2); ex_ind 3 1 false None; ex_ind 4 2 false None]
    (mkDraws [] [] [] []) [].
Example ex_srv : srv_b ex_cf ex_s = true.
Proof. vm_compute. reflexivity. Qed.
Example ex_SrvInv : SrvInv ex_cf ex_s.
Proof. apply srv_b_sound. exact ex_srv. Qed.
(* the test is not trivially true: the same state with customer 3 recording server 2 as well is rejected *)
Example ex_srv_rejects :
  srv_b ex_cf (ex_s <| inds := [ex_ind 1 1 true (Some 1); ex_ind 2 1 false (Some 2); ex_ind 3 1 false (Some 2); ex_ind 4 2 false None] |>) = false.
Proof. vm_compute. reflexivity. Qed.

(* the hypotheses of the run theorems are met by runs that succeed: four events from the example state (a service completion
   with transfer to node 2 that hands the freed server to the waiting customer, then arrivals and further completions) *)
Definition ex_draws : draws := mkDraws [3] [1] [5; 7; 9] [two53 / 2; 1; 2].
Example ex_run : match run_many ex_cf ex_s [ex_draws; ex_draws; ex_draws; ex_draws] with Ok s' => srv_b ex_cf s' | _ => false end = true.
Proof. vm_compute. reflexivity. Qed.

(* ---------- T2 for C04 over whole runs, in the words of the property ---------- *)
Theorem engine_servers cf : forall ds s s', SrvInv cf s -> run_many cf s ds = Ok s' ->
  forall k nd nc c, nth_error (nodes s') k = Some nd -> nth_error (cf_nodes cf) k = Some nc -> nc_c nc = Some c ->
    zlen (n_servers nd) = c /\ NoDup (map sv_id (n_servers nd)) /\
    (forall sv, In sv (n_servers nd) -> (sv_busy sv = true <-> sv_cust sv <> None)) /\
    (forall sv i, In sv (n_servers nd) -> sv_cust sv = Some i ->
       In i (all_individuals nd) /\ exists x, find_ind i (inds s') = Some x /\ i_server x = Some (sv_id sv)) /\
    (forall i x sid, In i (all_individuals nd) -> find_ind i (inds s') = Some x -> i_server x = Some sid ->
       exists sv, In sv (n_servers nd) /\ sv_id sv = sid /\ sv_cust sv = Some i) /\
    (forall i1 i2 sid, In i1 (all_individuals nd) -> In i2 (all_individuals nd) ->
       isv (inds s') i1 = Some sid -> isv (inds s') i2 = Some sid -> i1 = i2) /\
    (forall sv1 sv2 i, In sv1 (n_servers nd) -> In sv2 (n_servers nd) -> sv_cust sv1 = Some i -> sv_cust sv2 = Some i -> sv1 = sv2) /\
    zlen (filter (holds_server (inds s')) (all_individuals nd)) <= c /\ zlen (filter sv_busy (n_servers nd)) <= c.
Proof.
  intros ds s s' HJ H k nd nc c Hk Hc Hcc.
  pose proof (srv_means cf s' (run_many_srv cf ds s s' HJ H) k nd nc Hk Hc) as M. rewrite Hcc in M. exact M.
Qed.

Print Assumptions event_step_srv.
Print Assumptions run_many_srv.
Print Assumptions srv_means.
Print Assumptions srv_b_sound.
Print Assumptions ex_SrvInv.
Print Assumptions engine_servers.
Print Assumptions event_step_stays.
Print Assumptions server_stays.

(* Clock2s.v -- T2 for C02 on the STAGE-2 engine model: the option `resume` of priority pre-emption at event level BEYOND the scope `tiny` of Clock2p.v.
   "simulated time never decreases, each event is executed exactly at its scheduled date, no event is scheduled in the past", with priority
   pre-emption `resume` (and restart / resample / none), PROVED for every configuration of scope_s, every state satisfying Clk2s, every oracle with
   draws >= 0 and any number of events (partial correctness).  Relative to Clock2p.v (fixed servers only, no infinite-server node):
     step (1) nodes with INFINITELY MANY servers                                                              -- DONE (example ix)
     step (2) NON-PRE-EMPTIVE Schedules (servers come and go: off-duty / overtime servers, kill_server, add_new_servers, fresh ids) and slotted
              services without interruption (non-capacitated, or capacitated with pre-emption False), at any node, together with priority
              pre-emption of any option but reroute                                                           -- DONE (example kx)
     step (3) PRE-EMPTIVE Schedules with `resume`                                       -- NOT DONE at event level; function level: section 8 and "Missing"
   MAIN RESULTS
     event_step_clk2s_partial, run_many_clk2s_partial, run_many_monotone2s_partial
                        Clk2s cf s = Clock2r.Clk2r cf s /\ LinkB cf s is kept by one event / any run, and now s <= now s'
     Clk2s_means        the invariant in words: Clock2r.Clk2r + the link LinkD (every customer c that a server sv holds has a record which records
                        exactly that server and that node and has an end date e, and sv's next end date is a date d with now <= d <= e) + the
                        customers of an infinite-server node record no server (and that node) + time left under the resume marker >= 0
     LinkB_nodes        what else LinkB says of every node: the customers of a queue record that node; a node with a slot timetable has no server
                        objects; server ids are distinct and <= highest_id (retired ids are never reused); no interrupted customers; the next
                        event is never a reneging / class-change-while-waiting event
     event_step_linkb, run_many_linkb      the link alone is kept by every event: NO hypothesis on the draws, no clock involved
     clk2s_b, linkb_b (+ _sound)           executable tests;  ix_* (step 1), kx_* (step 2): closed states and runs (vm_compute), and by the theorem
                        Clk2s after ANY number of events of these runs
     fx_F12d_inside     finding F-12d (priority pre-emption of the customer of an OVERTIME server, Sched2.start_offduty_refuted) lies INSIDE scope_s:
                        by the theorem Clk2s holds after that run too (the pre-emptor records the retired server 1 and is never served)
   SCOPE  scope_s cf (executable) = every node: servers SFixed | SSched with pre-emption False | SSlot not (capacitated && pre-emptive); no reneging;
     priority pre-emption option <> reroute; no queue capacity -- and no class change while waiting, and well-formed timetables (Clock2.wf_times).
     Any routing, baulking, system capacity, class change after service, service discipline, server priority function.  In the invariant (state
     clauses of LinkB, all executable in linkb_b): no interrupted customers (n_nint <= 0: true without pre-emptive Schedules / slots), nobody
     blocked (n_lenbq <= 0: true without capacities), nodes with a Schedule or slots have finitely many servers (slot_fin; Ciw's c = 0 there).
   METHOD  Clock2p's sections 6 (Hoare logic for the link LKI G X T: ghost G : customer -> (server, node, end date), exemption X, transit flag T) and
     7 (the conjunction with Clock2r's invariant) are re-done with a changed node clause: ghost inf_at (which nodes have infinitely many servers,
     fixed along a run); Locd also says "a customer of an infinite-server node records no server" (then release / finish_service need not detach);
     Misc says: slotted node => no server objects (so the pseudo-server -1 that a slotted customer records is held by nobody: lk_unserve_slot),
     server ids <= highest_id (add_new_servers keeps ids distinct: NOK_addsrv), next event type <> renege / class change (dne_type).  New walk
     lemmas: lk_start_fresh_none, lk_unserve_slot, NOK_mapsrv / lk_tsod0, NOK_addsrv / lk_add_new_servers, lk_bsipcs, lk_change_shift,
     lk_slot_loop, lk_slotted_service, lk_une (with Schedules), and on Clock2r's side t_bsipcs, t_change_shift, t_slot_loop, t_slotted_service
     (Clock2r's own versions assume "no resume").  A customer that pre-empts the customer of an OVERTIME server (finding F-12d) ends up recording
     a retired server id and is never served: the invariant tolerates it (the link constrains held customers only; attach / set_next_end on a
     server that is gone are no-ops in model and code alike).
   SECTION 8 (towards step 3, function level, any configuration without class change while waiting -- pre-emptive Schedules and slots included):
     r_interrupt_keep / interrupt_resume_clock_partial: interrupt_service with ANY option but reroute (resume included) keeps Clock2r's invariant and
     stores time_left = e - now >= 0, GIVEN THE LINK AT THE INTERRUPTED SERVER (the server holds i, i's end date is e, the server's next end date is
     d <= e); the end dates of other customers are untouched (frame Clock2r.Ends, so a whole off_duty_loop can be chained from the link at its start).
     The resumption (begin_interrupted_individuals_service) keeps Clock2r's invariant under `resume` by t_biis / t_serve_with (section 7).
   MISSING for step (3) (nothing refuted: Clock2p.sx_run_all tests the same clock + link invariant on 60 events of a pre-emptive `resume` Schedule):
     the link walk through take_servers_off_duty (pre-emptive) and begin_interrupted_individuals_service.  Design that the above is ready for:
     (a) a further ghost W (like inf_at a section variable; W = Some j while node j is between its first interruption and the retirement of all its
         servers) that switches off the DATE part of Held at node j only (the record part -- "records that server and that node" -- survives
         interrupt_service); enter by weakening, leave when n_servers = [] (every old id is killed: ids are kept by put_server_l, NoDup);
     (b) Misc: n_nint <= 0 only at nodes without a pre-emptive Schedule; a clause IntOK: every c of n_interrupted has G c = (Some sid, this node, _)
         with sid <= highest_id and sid NOT the id of a present server (retired ids are not reused: NOK_addsrv already gives new ids > highest_id),
         unless c is exempt (X) or W is this node; NoDup n_interrupted (sort_interrupted_individuals is a permutation); LKI_nod keeps IntOK for free
         (it only changes servers with the same ids); LKI_rec needs "c exempt, or in transit, or waiting, or keeps a server and its node";
     (c) begin_interrupted_individuals_service: attach to the head c of n_interrupted (nobody holds c: its recorded id is retired), X = (c, j, sid)
         stays open over set_next_end until c is removed from n_interrupted, then LKI_closeX with the server's new date (state inversion);
     (d) release must know that its customer is not interrupted: the candidates of an end-of-service event are customers of servers (a boundary clause
         on n_next_inds re-established by update_next_event_date via Clock2r.scan_servers_spec, or Servers2.SrvInv2's NextOK), put into RP / the
         transit flag T ("the customer in transit is on no interrupted list");
     (e) on Clock2r's side: take_servers_off_duty from Ends (customers of the node's servers) by r_interrupt_keep + a frame for "the servers' customers
         are unchanged" (put_server_l of the shift end, interrupt_service do not touch sv_cust), then kill_server / add_new_servers / t_bsipcs as in
         t_change_shift.
*)
From Coq Require Import ZArith List Bool Lia Permutation.
From RecordUpdate Require Import RecordUpdate.
From CiwV Require Import Sx Prelude Routing Sched.
From CiwV.Engine Require Import State2 Engine2 Codec2.
From CiwV.Inv Require Renege2 Preempt2 Clock2 Clock2r Clock2p Servers2 Samples2.
Import ListNotations.
Open Scope Z_scope.

Local Arguments Z.mul : simpl never.
Local Arguments Z.add : simpl never.
Local Arguments Z.sub : simpl never.
Local Arguments Z.ltb : simpl never.
Local Arguments Z.leb : simpl never.
Local Arguments Z.eqb : simpl never.
Local Arguments Z.to_nat : simpl never.
Local Arguments Z.of_nat : simpl never.
Local Arguments nth_error : simpl never.

Notation sp := Renege2.sp.
Notation top := Renege2.top.
Notation NN := Clock2.NN.

(* invert one bind, with names chosen by the caller *)
Ltac minv H a s1 E :=
  match type of H with
  | bind ?m ?f ?s = Ok _ => unfold bind in H at 1; destruct (m s) as [[a s1]| |] eqn:E; [|discriminate H|discriminate H]
  end.

(* ================================================================================================================ *)
(* 6. the link with dates is kept by every event (scope_s scope)                                                       *)
(* ================================================================================================================ *)
Definition kt : Type := (option Z * option Z * option Z)%type.
Definition key (x : ind) : kt := (i_server x, i_node x, i_send x).
Definition upg (G : Z -> option kt) (c : Z) (k : option kt) : Z -> option kt := fun i => if i =? c then k else G i.
Definition XT : Type := option (Z * Z * Z).
Definition exempt (X : XT) (c : Z) : Prop := exists j sid, X = Some (c, j, sid).

(* the scope: fixed numbers of servers everywhere, no capacities, no class change while waiting, no reneging, no rerouting pre-emption *)
Definition scope_s_nc (nc : ncfg) : bool :=
  (match nc_srv nc with SFixed => true | SSched sc => sc_pre sc =? 0 | SSlot sl => negb (sl_cap sl && negb (sl_pre sl =? 0)) end) &&
  negb (nc_reneging nc) && negb (nc_preempt nc =? 4) && (match nc_cap nc with None => true | Some _ => false end).
Definition scope_s (c : config) : bool := forallb scope_s_nc (cf_nodes c) && negb (cf_dyn c) && Clock2.wf_times c.

Lemma put_server_ids a : forall l, map sv_id (put_server_l a l) = map sv_id l.
Proof. induction l as [|y r IH]; cbn; [reflexivity|]. destruct (sv_id y =? sv_id a) eqn:E; cbn; [apply Z.eqb_eq in E; rewrite E; reflexivity|rewrite IH; reflexivity]. Qed.
Lemma In_put_server a : forall l sv, NoDup (map sv_id l) -> In sv (put_server_l a l) -> sv = a \/ (In sv l /\ sv_id sv <> sv_id a).
Proof.
  induction l as [|y r IH]; cbn; intros sv HN H; [contradiction|]. inversion HN as [|? ? Hn Hd]; subst.
  destruct (sv_id y =? sv_id a) eqn:E.
  - apply Z.eqb_eq in E. destruct H as [<-|H]; [left; reflexivity|]. right. split; [right; exact H|]. intros Q. apply Hn. rewrite E, <- Q. apply in_map. exact H.
  - apply Z.eqb_neq in E. destruct H as [<-|H]; [right; split; [left; reflexivity|exact E]|]. destruct (IH sv Hd H) as [->|[H1 H2]]; [left; reflexivity|right; split; [right; exact H1|exact H2]].
Qed.
Lemma find_server_In i l sv : find_server i l = Some sv -> In sv l /\ sv_id sv = i.
Proof.
  induction l as [|y r IH]; cbn; [discriminate|]. destruct (sv_id y =? i) eqn:E; [intros H; injection H as <-; apply Z.eqb_eq in E; auto|].
  intros H. destruct (IH H). auto.
Qed.
Lemma find_server_None i l : find_server i l = None -> forall sv, In sv l -> sv_id sv <> i.
Proof.
  induction l as [|y r IH]; cbn; [intros _ sv []|]. destruct (sv_id y =? i) eqn:E; [discriminate|]. apply Z.eqb_neq in E.
  intros H sv [<-|Hs]; [exact E|apply IH; assumption].
Qed.
Lemma In_del_server i : forall l sv, In sv (del_server_l i l) -> In sv l.
Proof. induction l as [|y r IH]; cbn; [tauto|]. destruct (sv_id y =? i); [intros sv H; right; exact H|intros sv [<-|H]; [left; reflexivity|right; auto]]. Qed.
Lemma NoDup_del_server i : forall l, NoDup (map sv_id l) -> NoDup (map sv_id (del_server_l i l)).
Proof.
  induction l as [|y r IH]; cbn; intros H; [constructor|]. inversion H as [|? ? Hn Hd]; subst. destruct (sv_id y =? i); [exact Hd|].
  cbn. constructor; [|apply IH; exact Hd]. intros Q. apply Hn. apply in_map_iff in Q as (sv & E & Hs). apply in_map_iff. exists sv. split; [exact E|eapply In_del_server; exact Hs].
Qed.


Lemma NoDup_map_inj {A} (f : A -> Z) : forall (l : list A) a b, NoDup (map f l) -> In a l -> In b l -> f a = f b -> a = b.
Proof.
  induction l as [|y r IH]; cbn; intros a b HN Ha Hb E; [contradiction|]. inversion HN as [|? ? Hn Hd]; subst.
  destruct Ha as [<-|Ha], Hb as [<-|Hb]; [reflexivity| | |apply IH; assumption].
  - exfalso. apply Hn. rewrite E. apply in_map. exact Hb.
  - exfalso. apply Hn. rewrite <- E. apply in_map. exact Ha.
Qed.
Lemma find_del_ind k : forall l k', NoDup (map i_id l) -> find_ind k' (del_ind_l k l) = if k' =? k then None else find_ind k' l.
Proof.
  induction l as [|y r IH]; cbn; intros k' HN; [destruct (k' =? k); reflexivity|]. inversion HN as [|? ? Hn Hd]; subst.
  destruct (i_id y =? k) eqn:E.
  - apply Z.eqb_eq in E. destruct (k' =? k) eqn:E'.
    + apply Z.eqb_eq in E'. subst k'. destruct (find_ind k r) as [z|] eqn:Ez; [|reflexivity]. exfalso. apply Hn. rewrite E.
      rewrite <- (Renege2.find_ind_id _ _ _ Ez). apply in_map. eapply Renege2.find_ind_In; exact Ez.
    + rewrite E, Z.eqb_sym, E'. reflexivity.
  - cbn. destruct (i_id y =? k') eqn:E2.
    + apply Z.eqb_eq in E2. subst k'. rewrite E. reflexivity.
    + apply IH. exact Hd.
Qed.
Lemma Idx_inj s a b : Renege2.Idx s -> In a (nodes s) -> In b (nodes s) -> n_id a = n_id b -> a = b.
Proof.
  intros HI Ha Hb E. apply In_nth_error in Ha as [p Hp]. apply In_nth_error in Hb as [q Hq].
  rewrite (HI _ _ Hp), (HI _ _ Hq) in E. assert (p = q) by lia. subst q. rewrite Hp in Hq. injection Hq as <-. reflexivity.
Qed.
Lemma In_updZ_Idx s nd nd1 x : Renege2.Idx s -> In nd (nodes s) -> n_id nd1 = n_id nd -> In x (updZ (nodes s) (n_id nd1 - 1) nd1) ->
  x = nd1 \/ (In x (nodes s) /\ n_id x <> n_id nd).
Proof.
  intros HI Hnd E Hx. apply In_nth_error in Hnd as [p Hp]. pose proof (HI _ _ Hp) as Hid. unfold updZ in Hx.
  destruct (n_id nd1 - 1 <? 0) eqn:E0; [apply Z.ltb_lt in E0; lia|]. apply In_nth_error in Hx as [q Hq].
  destruct (Renege2.nth_error_upd_cases _ _ _ _ _ Hq) as [[_ ->]|[Hne Hq']]; [left; reflexivity|]. right. split; [eapply nth_error_In; exact Hq'|].
  rewrite (HI _ _ Hq'), Hid. intros Q. apply Hne. rewrite E, Hid. lia.
Qed.

Section LK.
  Variable cf : config.
  Variable inf_at : Z -> bool.              (* which nodes have infinitely many servers (fixed during a run: n_c never becomes / ceases to be None) *)
  Hypothesis Hsc : scope_s cf = true.
  Lemma Hdyn : cf_dyn cf = false.
  Proof. unfold scope_s in Hsc. apply andb_true_iff in Hsc as [H _]. apply andb_true_iff in H as [_ H]. apply negb_true_iff in H. exact H. Qed.
  Lemma Hwft : Clock2.wf_times cf = true.
  Proof. unfold scope_s in Hsc. apply andb_true_iff in Hsc as [_ H]. exact H. Qed.
  Hypothesis Hschf : forall j nc, nthZ (cf_nodes cf) (j - 1) = Some nc -> nc_sched nc = true -> inf_at j = false.
  Definition slot_at (j : Z) : bool := match nthZ (cf_nodes cf) (j - 1) with Some nc => nc_slotted nc | None => false end.
  Lemma scope_s_at j nc : nthZ (cf_nodes cf) (j - 1) = Some nc -> scope_s_nc nc = true.
  Proof. intros H. apply Renege2.nthZ_In in H. unfold scope_s in Hsc. apply andb_true_iff in Hsc as [Ht _]. apply andb_true_iff in Ht as [Ht _]. rewrite forallb_forall in Ht. apply Ht. exact H. Qed.

  Definition Held (G : Z -> option kt) (X : XT) (nd : node) : Prop :=
    forall sv c, In sv (n_servers nd) -> sv_cust sv = Some c ->
      exists sd, G c = Some (Some (sv_id sv), Some (n_id nd), sd) /\
                 (exempt X c \/ exists e d, sd = Some e /\ sv_next_end sv = Some d /\ d <= e).
  Definition Att (X : XT) (nd : node) : Prop :=
    forall c sid, X = Some (c, n_id nd, sid) -> forall sv, In sv (n_servers nd) -> sv_id sv = sid -> sv_cust sv = Some c.
  Definition Locd (G : Z -> option kt) (nd : node) : Prop :=
    forall c, In c (all_individuals nd) -> exists a sd, G c = Some (a, Some (n_id nd), sd) /\ (inf_at (n_id nd) = true -> a = None).
  Definition NotIn (T : option (Z * bool)) (nd : node) : Prop := forall c b, T = Some (c, b) -> ~ In c (all_individuals nd).
  Definition Misc (nd : node) : Prop :=
    nd_inf nd = inf_at (n_id nd) /\ n_nint nd <= 0 /\ n_lenbq nd <= 0 /\ (n_next_type nd <> 2 /\ n_next_type nd <> 3) /\
    (slot_at (n_id nd) = true -> n_servers nd = []) /\ (forall sv, In sv (n_servers nd) -> sv_id sv <= n_highest nd).
  Lemma Misc_same nd nd' : Misc nd -> n_id nd' = n_id nd -> nd_inf nd' = nd_inf nd -> n_nint nd' <= n_nint nd -> n_lenbq nd' <= n_lenbq nd ->
    (n_next_type nd' <> 2 /\ n_next_type nd' <> 3) -> map sv_id (n_servers nd') = map sv_id (n_servers nd) -> n_highest nd' = n_highest nd -> Misc nd'.
  Proof.
    unfold Misc. intros (A & B & C & D0 & E & F) -> -> Hn Hb Ht Hs ->. split; [exact A|]. split; [lia|]. split; [lia|]. split; [exact Ht|]. split.
    - intros Q. specialize (E Q). rewrite E in Hs. cbn in Hs. destruct (n_servers nd'); [reflexivity|discriminate Hs].
    - intros sv Hsv. assert (Hi : In (sv_id sv) (map sv_id (n_servers nd))) by (rewrite <- Hs; apply in_map; exact Hsv).
      apply in_map_iff in Hi as (sv0 & Q & Hin). rewrite <- Q. apply F. exact Hin.
  Qed.
  Definition NOK (G : Z -> option kt) (X : XT) (T : option (Z * bool)) (nd : node) : Prop :=
    Misc nd /\ NoDup (map sv_id (n_servers nd)) /\ Held G X nd /\ Att X nd /\ Locd G nd /\ NoDup (all_individuals nd) /\ NotIn T nd.
  Definition LKI (G : Z -> option kt) (X : XT) (T : option (Z * bool)) (s : sim) : Prop :=
    (forall k, option_map key (find_ind k (inds s)) = G k) /\ NoDup (map i_id (inds s)) /\
    (forall k, G k <> None -> k <= a_created (arr s)) /\
    Renege2.Idx s /\ (forall nd, In nd (nodes s) -> NOK G X T nd) /\
    ((forall c j sid, X = Some (c, j, sid) -> exists sd, G c = Some (Some sid, Some j, sd)) /\
     (forall k, T = Some (k, true) -> exists b sd, G k = Some (None, b, sd))).
  Definition okr (G : Z -> option kt) (x : ind) : Prop := G (i_id x) = Some (key x).

  Lemma NOK_same G X T nd nd' : NOK G X T nd -> n_id nd' = n_id nd -> n_c nd' = n_c nd -> n_nint nd' <= n_nint nd -> n_lenbq nd' <= n_lenbq nd ->
    n_next_type nd' = n_next_type nd -> n_servers nd' = n_servers nd -> n_queues nd' = n_queues nd -> n_highest nd' = n_highest nd -> NOK G X T nd'.
  Proof.
    intros (M & E) E1 E2 Hn Hb E5 E6 E7 E8. split; [apply (Misc_same nd); auto; [unfold nd_inf; rewrite E2; reflexivity|rewrite E5; apply M|rewrite E6; reflexivity]|].
    revert E. unfold Held, Att, Locd, NotIn, all_individuals. rewrite E1, E6, E7. exact (fun h => h).
  Qed.

  Section Fixed.
    Variables (G : Z -> option kt) (X : XT) (T : option (Z * bool)).
    Notation I := (LKI G X T).
    Lemma LKI_same s s' : I s -> inds s' = inds s -> nodes s' = nodes s -> a_created (arr s) <= a_created (arr s') -> I s'.
    Proof.
      unfold LKI, Renege2.Idx. intros (H1 & H2 & H3 & H4) E1 E2 E3. rewrite E1, E2. split; [exact H1|]. split; [exact H2|]. split; [|exact H4].
      intros k Hk. specialize (H3 k Hk). lia.
    Qed.
    Lemma lk_frame {A} (m : M A) : (forall s a s', m s = Ok (a, s') -> inds s' = inds s /\ nodes s' = nodes s /\ a_created (arr s) <= a_created (arr s')) -> sp I I m top.
    Proof. intros Hm s a s' HI H. destruct (Hm _ _ _ H) as (E1 & E2 & E3). split; [eapply LKI_same; eauto|exact Logic.I]. Qed.
    Lemma lk_modify f : (forall s, inds (f s) = inds s /\ nodes (f s) = nodes s /\ a_created (arr s) <= a_created (arr (f s))) -> sp I I (modify f) top.
    Proof. intros Hf. apply lk_frame. intros s a s' H. apply Renege2.modify_inv in H. rewrite H. apply Hf. Qed.
    Lemma lk_log_rec r : sp I I (log_rec r) top.
    Proof. unfold log_rec. apply lk_modify. intros s. cbn. repeat split; lia. Qed.
    Lemma lk_draw_svc : sp I I draw_svc top.
    Proof. apply lk_frame. intros s a s' H. unfold draw_svc in H. destruct (d_svc (dr s)); inversion H. cbn. repeat split; lia. Qed.
    Lemma lk_draw_unif : sp I I draw_unif top.
    Proof. apply lk_frame. intros s a s' H. unfold draw_unif in H. destruct (d_unif (dr s)); inversion H. cbn. repeat split; lia. Qed.
    Lemma lk_draw_arr : sp I I draw_arr top.
    Proof. apply lk_frame. intros s a s' H. unfold draw_arr in H. destruct (d_arr (dr s)); inversion H. cbn. repeat split; lia. Qed.
    Lemma lk_draw_batch : sp I I draw_batch top.
    Proof. apply lk_frame. intros s a s' H. unfold draw_batch in H. destruct (d_batch (dr s)); inversion H. cbn. repeat split; lia. Qed.
    Lemma lk_draw_ren : sp I I draw_ren top.
    Proof. apply lk_frame. intros s a s' H. unfold draw_ren in H. destruct (d_ren (dr s)); inversion H. cbn. repeat split; lia. Qed.
    Lemma lk_get_node j : sp I I (get_node j) (fun nd => NOK G X T nd /\ n_id nd = j).
    Proof.
      intros s nd s' HI H. apply Renege2.get_node_inv in H as (-> & Hj & Hn). split; [exact HI|]. destruct HI as (_ & _ & _ & HX & HN & _).
      split; [apply HN; eapply Renege2.nthZ_In; exact Hn|eapply Renege2.Idx_get; eauto].
    Qed.
    Lemma lk_get_ind i : sp I I (get_ind i) (fun x => i_id x = i /\ okr G x).
    Proof.
      intros s x s' HI H. apply Renege2.get_ind_inv in H as [-> Hx]. split; [exact HI|]. pose proof (Renege2.find_ind_id _ _ _ Hx) as Hid.
      split; [exact Hid|]. destruct HI as (H1 & _). unfold okr. rewrite Hid, <- H1, Hx. reflexivity.
    Qed.
    Lemma lk_put_ind x : okr G x -> sp I I (put_ind x) top.
    Proof.
      intros K1 s a s' (H1 & H2 & H3) H. unfold put_ind in H. apply Renege2.modify_inv in H. rewrite H. split; [|exact Logic.I].
      split; [|split; [cbn [inds set]; apply Renege2.NoDup_put_ind; exact H2|exact H3]].
      intros k. cbn [inds set]. rewrite Renege2.find_put_ind. destruct (k =? i_id x) eqn:E; [apply Z.eqb_eq in E; rewrite E; cbn; symmetry; exact K1|apply H1].
    Qed.
    Lemma lk_upd_ind i f : (forall x, i_id x = i -> okr G x -> okr G (f x)) -> sp I I (upd_ind i f) top.
    Proof. intros Hf. unfold upd_ind. eapply Renege2.sp_bind; [apply lk_get_ind|]. intros x [Hi Hx]. apply lk_put_ind. apply Hf; assumption. Qed.
    Lemma lk_put_node nd : NOK G X T nd -> sp I I (put_node nd) top.
    Proof.
      intros Hnd s a s' (H1 & H2 & H3 & H4 & H5 & H6) H. unfold put_node in H. apply Renege2.modify_inv in H. rewrite H. split; [|exact Logic.I].
      split; [exact H1|]. split; [exact H2|]. split; [exact H3|]. split; [unfold Renege2.Idx; cbn [nodes set]; apply Renege2.Idx_updZ; exact H4|]. split; [|exact H6].
      intros nd' Hin. cbn [nodes set] in Hin. apply Renege2.In_updZ in Hin as [->|Hin]; [exact Hnd|apply H5; exact Hin].
    Qed.
    Lemma lk_upd_node j f : (forall nd, n_id nd = j -> NOK G X T nd -> NOK G X T (f nd)) -> sp I I (upd_node j f) top.
    Proof. intros Hf. unfold upd_node. eapply Renege2.sp_bind; [apply lk_get_node|]. intros nd [Hn Hj]. apply lk_put_node. apply Hf; assumption. Qed.
  End Fixed.
  Create HintDb lkdb.
  Ltac lk_ok := match goal with H : okr ?G ?x |- okr ?G _ => unfold okr, key in *; cbn; exact H end.
  Ltac lk_nok := match goal with H : NOK ?G ?X ?T ?nd |- NOK ?G ?X ?T _ =>
    apply (NOK_same G X T nd _ H); cbn; first [reflexivity | lia] end.
  Ltac lk_intro :=
    let a := fresh "v" in let H := fresh "G" in
    intros a H; cbv beta in H;
    try match type of H with _ /\ _ => let H1 := fresh "G" in let H2 := fresh "G" in destruct H as [H1 H2] end.
  Ltac lk_prim m :=
    lazymatch m with
    | tnow => apply Renege2.sp_gets
    | gets _ => apply Renege2.sp_gets
    | lift _ _ => apply Renege2.sp_lift
    | ncfg_of _ _ => apply Renege2.sp_lift
    | get_node _ => apply lk_get_node
    | get_ind _ => apply lk_get_ind
    | log_rec _ => apply lk_log_rec
    | draw_svc => apply lk_draw_svc
    | draw_unif => apply lk_draw_unif
    | draw_arr => apply lk_draw_arr
    | draw_batch => apply lk_draw_batch
    | draw_ren => apply lk_draw_ren
    | put_ind _ => apply lk_put_ind; lk_ok
    | upd_ind _ _ => apply lk_upd_ind; intros; lk_ok
    | put_node _ => apply lk_put_node; lk_nok
    | upd_node _ _ => apply lk_upd_node; intros; lk_nok
    | modify _ => apply lk_modify; intros ?; cbn; repeat split; lia
    | _ => solve [eauto 3 with lkdb nocore]
    end.
  Ltac lk_step :=
    lazymatch goal with
    | |- Renege2.sp _ _ (ret _) _ => apply Renege2.sp_ret; exact Logic.I
    | |- Renege2.sp _ _ (fail _) _ => apply Renege2.sp_fail
    | |- Renege2.sp _ _ (bind (match _ with _ => _ end) _) _ => eapply Renege2.sp_bind with (phi := top); [|intros ? _]
    | |- Renege2.sp _ _ (bind (if _ then _ else _) _) _ => eapply Renege2.sp_bind with (phi := top); [|intros ? _]
    | |- Renege2.sp _ _ (bind ?m _) _ => eapply Renege2.sp_bind; [lk_prim m|lk_intro]
    | |- Renege2.sp _ _ (if ?b then _ else _) _ => destruct b eqn:?
    | |- Renege2.sp _ _ (match ?x with _ => _ end) _ => first [progress cbv iota beta | destruct x eqn:?]
    | |- Renege2.sp _ _ ?m _ => first [lk_prim m | (eapply Renege2.sp_top; lk_prim m)]
    end.
  Ltac lkw := repeat lk_step.

  Section Walk.
    Variables (G : Z -> option kt) (X : XT) (T : option (Z * bool)).
    Notation I := (LKI G X T).
    Lemma lk_choice_uniform {A} (l : list A) : sp I I (choice_uniform l) top.
    Proof. unfold choice_uniform. lkw. Qed.
    Lemma lk_choice_weighted den Pw : sp I I (choice_weighted den Pw) top.
    Proof. unfold choice_weighted. lkw. Qed.
    Hint Resolve lk_choice_uniform lk_choice_weighted : lkdb.
    Lemma lk_choose_next_customer j : sp I I (choose_next_customer cf j) top.
    Proof. unfold choose_next_customer. lkw. Qed.
    Lemma lk_bump_rec i : sp I I (bump_rec i) top.
    Proof. unfold bump_rec. lkw. Qed.
    Hint Resolve lk_choose_next_customer lk_bump_rec : lkdb.
    Lemma lk_write_individual_record j i : sp I I (write_individual_record cf j i) top.
    Proof. unfold write_individual_record. lkw. Qed.
    Lemma lk_write_interruption_record j i d : sp I I (write_interruption_record cf j i d) top.
    Proof. unfold write_interruption_record. lkw. Qed.
    Lemma lk_write_br_record j i ty : sp I I (write_br_record j i ty) top.
    Proof. unfold write_br_record. lkw. Qed.
    Lemma lk_decide_class_change j i : sp I I (decide_class_change cf j i) top.
    Proof. unfold decide_class_change. rewrite Hdyn. apply Renege2.sp_ret. exact Logic.I. Qed.
    Lemma lk_reset_class_change j i : sp I I (reset_class_change cf j i) top.
    Proof. unfold reset_class_change. rewrite Hdyn. apply Renege2.sp_ret. exact Logic.I. Qed.
    Lemma lk_stime_num x : sp I I (stime_num x) top.
    Proof. unfold stime_num. lkw. Qed.
    Lemma lk_valid_dest d : sp I I (valid_dest d) top.
    Proof. unfold valid_dest. lkw. Qed.
    Lemma lk_jsq_loop lb : forall ds best acc, sp I I (jsq_loop lb ds best acc) top.
    Proof.
      induction ds as [|d r IH]; intros best acc; cbn [jsq_loop]; [apply Renege2.sp_ret; exact Logic.I|].
      eapply Renege2.sp_bind; [apply lk_get_node|]. intros nd _. cbv zeta. destruct (date_eqb _ best); [apply IH|]. destruct (date_lt _ best); apply IH.
    Qed.
    Hint Resolve lk_write_individual_record lk_write_interruption_record lk_write_br_record lk_decide_class_change lk_reset_class_change
      lk_stime_num lk_valid_dest lk_jsq_loop : lkdb.
    Lemma lk_jsq_next lb ds o : sp I I (jsq_next lb ds o) top.
    Proof. unfold jsq_next. lkw. Qed.
    Lemma lk_get_cyc c j : sp I I (get_cyc c j) top.
    Proof. unfold get_cyc. lkw. Qed.
    Lemma lk_bump_cyc c j : sp I I (bump_cyc c j) top.
    Proof. unfold bump_cyc. apply lk_modify. intros s. destruct (nthZ (cyc s) c) as [row|]; [destruct (nthZ row (j - 1))|]; cbn; repeat split; lia. Qed.
    Hint Resolve lk_jsq_next lk_get_cyc lk_bump_cyc : lkdb.
    Lemma lk_node_router_next r c j : sp I I (node_router_next r c j) top.
    Proof. unfold node_router_next. lkw. Qed.
    Hint Resolve lk_node_router_next : lkdb.
    Lemma lk_next_node_for mode j i : sp I I (next_node_for cf mode j i) top.
    Proof. unfold next_node_for. lkw. Qed.
    Lemma lk_decide_between l : sp I I (decide_between l) top.
    Proof. unfold decide_between. lkw. Qed.
    Lemma lk_change_customer_class j i : sp I I (change_customer_class cf j i) top.
    Proof. unfold change_customer_class. lkw. Qed.
    Lemma lk_has_space d : sp I I (has_space cf d) top.
    Proof. unfold has_space. lkw. Qed.
    Lemma lk_sys_population : sp I I sys_population top.
    Proof. unfold sys_population. lkw. Qed.
    Lemma lk_route_of i c : sp I I (route_of cf i c) top.
    Proof. unfold route_of. lkw. Qed.
    Lemma lk_gstap i : sp I I (give_service_time_after_preemption i) top.
    Proof. unfold give_service_time_after_preemption. lkw. Qed.
    Hint Resolve lk_gstap : lkdb.
    Lemma lk_giast i : sp I I (give_individual_a_service_time i) top.
    Proof. unfold give_individual_a_service_time. lkw. Qed.
  End Walk.

  (* ---------- pure lemmas: how the ghosts may change ---------- *)
  Definition NoHold (c : Z) (s : sim) : Prop := forall nd sv, In nd (nodes s) -> In sv (n_servers nd) -> sv_cust sv <> Some c.
  Lemma NoHold_G G X T s c b sd : LKI G X T s -> G c = Some (None, b, sd) -> NoHold c s.
  Proof.
    intros (_ & _ & _ & _ & HN & _) Hg nd sv Hnd Hsv Hc. destruct (HN nd Hnd) as (_ & _ & HH & _). destruct (HH sv c Hsv Hc) as (sd' & Q & _).
    rewrite Hg in Q. discriminate Q.
  Qed.
  Lemma upg_same G c k : upg G c k c = k. Proof. unfold upg. rewrite Z.eqb_refl. reflexivity. Qed.
  Lemma upg_other G c k c0 : c0 <> c -> upg G c k c0 = G c0. Proof. unfold upg. intros H. apply Z.eqb_neq in H. rewrite H. reflexivity. Qed.

  Lemma LKI_rec G X T s c x x' : LKI G X T s -> find_ind c (inds s) = Some x -> i_id x' = c ->
    ((NoHold c s /\ (i_node x' = i_node x \/ exists b, T = Some (c, b))) \/ (exempt X c /\ i_server x' = i_server x /\ i_node x' = i_node x)) ->
    (forall j sid, X = Some (c, j, sid) -> i_server x' = Some sid /\ i_node x' = Some j) ->
    (T = Some (c, true) -> i_server x' = None) ->
    (i_server x' = i_server x \/ i_server x' = None \/ exists j, i_node x = Some j /\ inf_at j = false) ->
    LKI (upg G c (Some (key x'))) X T (s <| inds := put_ind_l x' (inds s) |>).
  Proof.
    intros (H1 & H2 & H3 & H4 & H5 & H6 & H7) Hx Hid Hcase HK4 HK7 Hsv3.
    assert (Hgc : G c = Some (key x)) by (rewrite <- H1, Hx; reflexivity).
    unfold LKI. cbn [inds nodes arr set]. split; [|split; [apply Renege2.NoDup_put_ind; exact H2|split; [|split; [exact H4|split]]]].
    - intros k. rewrite Renege2.find_put_ind, Hid. unfold upg. destruct (k =? c); [reflexivity|apply H1].
    - intros k Hk. destruct (Z.eq_dec k c) as [->|Hne]; [apply H3; rewrite Hgc; discriminate|]. rewrite upg_other in Hk by exact Hne. apply H3. exact Hk.
    - intros nd Hnd. destruct (H5 nd Hnd) as (M & N1 & HH & HA & HL & N2 & HT). split; [exact M|]. split; [exact N1|]. split; [|split; [exact HA|split; [|split; [exact N2|exact HT]]]].
      + intros sv c0 Hsv Hc0. destruct (Z.eq_dec c0 c) as [->|Hne].
        * destruct Hcase as [[Hno _]|(Hex & Es & En)]; [exfalso; exact (Hno nd sv Hnd Hsv Hc0)|].
          destruct (HH sv c Hsv Hc0) as (sd & Q & _). rewrite Hgc in Q. injection Q as Q1 Q2 Q3. exists (i_send x'). rewrite upg_same. unfold key. rewrite Es, En, Q1, Q2.
          split; [reflexivity|left; exact Hex].
        * rewrite upg_other by exact Hne. apply HH; assumption.
      + intros c0 Hc0. destruct (Z.eq_dec c0 c) as [->|Hne]; [|rewrite upg_other by exact Hne; apply HL; exact Hc0].
        rewrite upg_same. destruct (HL c Hc0) as (a & sd & Q & Qi). rewrite Hgc in Q. injection Q as Q1 Q2 Q3.
        assert (En : i_node x' = i_node x). { destruct Hcase as [[_ [En|[b Ht]]]|(_ & _ & En)]; [exact En|exfalso; exact (HT c b Ht Hc0)|exact En]. }
        exists (i_server x'), (i_send x'). unfold key. rewrite En, Q2. split; [reflexivity|]. intros Hi.
        destruct Hsv3 as [E3|[E3|(j3 & E3 & E4)]]; [rewrite E3, Q1; exact (Qi Hi)|exact E3|rewrite Q2 in E3; injection E3 as <-; congruence].
    - split.
      + intros c0 j sid HX. destruct (Z.eq_dec c0 c) as [->|Hne].
        * destruct (HK4 j sid HX) as [K1 K2]. exists (i_send x'). rewrite upg_same. unfold key. rewrite K1, K2. reflexivity.
        * rewrite upg_other by exact Hne. eapply H6; exact HX.
      + intros k Hk. destruct (Z.eq_dec k c) as [->|Hne].
        * rewrite upg_same. unfold key. rewrite (HK7 Hk). eauto.
        * rewrite upg_other by exact Hne. apply H7. exact Hk.
  Qed.

  Lemma LKI_nod G X X' T s nd l' : LKI G X T s -> In nd (nodes s) -> map sv_id l' = map sv_id (n_servers nd) ->
    Held G X' (nd <| n_servers := l' |>) -> Att X' (nd <| n_servers := l' |>) ->
    (forall nd0, In nd0 (nodes s) -> n_id nd0 <> n_id nd -> Held G X' nd0 /\ Att X' nd0) ->
    (forall c j sid, X' = Some (c, j, sid) -> exists sd, G c = Some (Some sid, Some j, sd)) ->
    LKI G X' T (s <| nodes := updZ (nodes s) (n_id nd - 1) (nd <| n_servers := l' |>) |>).
  Proof.
    intros (H1 & H2 & H3 & H4 & H5 & H6 & H7) Hnd HN HH HA Hoth HK4. unfold LKI. cbn [inds nodes arr set].
    split; [exact H1|]. split; [exact H2|]. split; [exact H3|]. split; [|split; [|split; [exact HK4|exact H7]]].
    - unfold Renege2.Idx. cbn [nodes set]. change (n_id nd) with (n_id (nd <| n_servers := l' |>)). apply Renege2.Idx_updZ. exact H4.
    - intros nd0 Hin. set (nd1 := nd <| n_servers := l' |>) in *. assert (E1 : n_id nd1 = n_id nd) by reflexivity. rewrite <- E1 in Hin.
      destruct (In_updZ_Idx s nd nd1 nd0 H4 Hnd E1 Hin) as [->|[Hin' Hne]]; [|rename Hin' into Hin0].
      + destruct (H5 nd Hnd) as (M & N1 & _ & _ & HL & N2 & HT). split; [apply (Misc_same nd _ M); [reflexivity|reflexivity|cbn; lia|cbn; lia|apply M|exact HN|reflexivity]|]. split; [change (NoDup (map sv_id l')); rewrite HN; exact N1|]. split; [exact HH|]. split; [exact HA|]. split; [exact HL|]. split; [exact N2|exact HT].
      + destruct (H5 nd0 Hin0) as (M & N1 & _ & _ & HL & N2 & HT). destruct (Hoth nd0 Hin0 Hne) as [HH0 HA0].
        split; [exact M|]. split; [exact N1|]. split; [exact HH0|]. split; [exact HA0|]. split; [exact HL|]. split; [exact N2|exact HT].
  Qed.

  (* opening / closing the exemption *)
  Lemma LKI_openX G T s c j sid sd : LKI G None T s -> G c = Some (Some sid, Some j, sd) ->
    (forall nd sv, In nd (nodes s) -> n_id nd = j -> In sv (n_servers nd) -> sv_id sv = sid -> sv_cust sv = Some c) ->
    LKI G (Some (c, j, sid)) T s.
  Proof.
    intros (H1 & H2 & H3 & H4 & H5 & H6 & H7) Hg Hatt. unfold LKI. split; [exact H1|]. split; [exact H2|]. split; [exact H3|]. split; [exact H4|]. split; [|split; [|exact H7]].
    - intros nd Hnd. destruct (H5 nd Hnd) as (M & N1 & HH & HA & HL & N2 & HT). split; [exact M|]. split; [exact N1|]. split; [|split; [|split; [exact HL|split; [exact N2|exact HT]]]].
      + intros sv c0 Hsv Hc0. destruct (HH sv c0 Hsv Hc0) as (sd0 & Q & [(j0 & s0 & Q')|D]); [discriminate Q'|]. exists sd0. split; [exact Q|right; exact D].
      + intros c0 sid0 HX sv Hsv Hi. injection HX as -> Hj ->. apply (Hatt nd sv Hnd); auto.
    - intros c0 j0 sid0 HX. injection HX as -> -> ->. exists sd. exact Hg.
  Qed.
  Lemma LKI_closeX G X T s : LKI G X T s ->
    (forall c j sid nd sv, X = Some (c, j, sid) -> In nd (nodes s) -> In sv (n_servers nd) -> sv_cust sv = Some c ->
       exists e d, G c = Some (Some sid, Some j, Some e) /\ sv_next_end sv = Some d /\ d <= e) ->
    LKI G None T s.
  Proof.
    intros (H1 & H2 & H3 & H4 & H5 & H6 & H7) Hd. unfold LKI. split; [exact H1|]. split; [exact H2|]. split; [exact H3|]. split; [exact H4|]. split; [|split; [intros c j sid Q; discriminate Q|exact H7]].
    intros nd Hnd. destruct (H5 nd Hnd) as (M & N1 & HH & HA & HL & N2 & HT). split; [exact M|]. split; [exact N1|]. split; [|split; [|split; [exact HL|split; [exact N2|exact HT]]]].
    - intros sv c0 Hsv Hc0. destruct (HH sv c0 Hsv Hc0) as (sd0 & Q & [(j0 & s0 & Q')|D]); [|exists sd0; split; [exact Q|right; exact D]].
      destruct (Hd c0 j0 s0 nd sv Q' Hnd Hsv Hc0) as (e & d & Qg & Qd & Qle). rewrite Qg in Q. injection Q as Q1 Q2 Q3.
      exists sd0. split; [rewrite Qg, Q1, Q2, Q3; reflexivity|right]. exists e, d. auto.
    - intros c0 sid0 Q. discriminate Q.
  Qed.

  Lemma LKI_node_repl G X X' T T' s nd nd1 : LKI G X T s -> In nd (nodes s) -> n_id nd1 = n_id nd -> NOK G X' T' nd1 ->
    (forall nd0, In nd0 (nodes s) -> n_id nd0 <> n_id nd -> NOK G X T nd0 -> NOK G X' T' nd0) ->
    ((forall c j sid, X' = Some (c, j, sid) -> exists sd, G c = Some (Some sid, Some j, sd)) /\
     (forall k, T' = Some (k, true) -> exists b sd, G k = Some (None, b, sd))) ->
    LKI G X' T' (s <| nodes := updZ (nodes s) (n_id nd1 - 1) nd1 |>).
  Proof.
    intros (H1 & H2 & H3 & H4 & H5 & H6) Hnd E1 Hn1 Hoth HK4. unfold LKI. cbn [inds nodes arr set].
    split; [exact H1|]. split; [exact H2|]. split; [exact H3|]. split; [|split; [|exact HK4]].
    - unfold Renege2.Idx. cbn [nodes set]. apply Renege2.Idx_updZ. exact H4.
    - intros nd0 Hin. destruct (In_updZ_Idx s nd nd1 nd0 H4 Hnd E1 Hin) as [->|[Hin' Hne]]; [exact Hn1|]. apply Hoth; auto.
  Qed.
  Lemma LKI_remove G X s nd nd1 prio q q' i : LKI G X None s -> In nd (nodes s) -> nthZ (n_queues nd) prio = Some q -> remove_first i q = Some q' ->
    n_id nd1 = n_id nd -> n_c nd1 = n_c nd -> n_nint nd1 = n_nint nd -> n_lenbq nd1 = n_lenbq nd -> n_next_type nd1 = n_next_type nd ->
    n_servers nd1 = n_servers nd -> n_queues nd1 = updZ (n_queues nd) prio q' -> n_highest nd1 = n_highest nd ->
    LKI G X (Some (i, false)) (s <| nodes := updZ (nodes s) (n_id nd1 - 1) nd1 |>).
  Proof.
    intros HI Hnd Hq Hq' E1 E2 E3 E4 E5 E6 E7 E8. pose proof HI as (H1 & H2 & H3 & H4 & H5 & H6).
    assert (P : Permutation (all_individuals nd) (i :: all_individuals nd1)) by (unfold all_individuals; rewrite E7; apply (Renege2.concat_remove _ _ _ _ _ Hq Hq')).
    destruct (H5 nd Hnd) as (M & N1 & HH & HA & HL & N2 & HT).
    assert (ND : NoDup (i :: all_individuals nd1)) by (eapply Permutation_NoDup; eauto). inversion ND as [|? ? ND1 ND2]; subst.
    assert (Hi_in : In i (all_individuals nd)) by (eapply Permutation_in; [symmetry; exact P|left; reflexivity]).
    apply (LKI_node_repl G X X None (Some (i, false)) s nd nd1 HI Hnd E1); [| |split; [apply H6|intros k Q; discriminate Q]].
    - split; [apply (Misc_same nd _ M); [exact E1|unfold nd_inf; rewrite E2; reflexivity|lia|lia|rewrite E5; apply M|rewrite E6; reflexivity|exact E8]|].
      unfold Held, Att, Locd, NotIn in *. rewrite E1, E6. split; [exact N1|]. split; [exact HH|]. split; [exact HA|].
      split; [intros c Hc; apply HL; eapply Permutation_in; [symmetry; exact P|right; exact Hc]|]. split; [exact ND2|]. intros c b Q. injection Q as <- _. exact ND1.
    - intros nd0 Hin Hne (M0 & K1 & K2 & K3 & K4 & K5 & K6). split; [exact M0|]. split; [exact K1|]. split; [exact K2|]. split; [exact K3|]. split; [exact K4|]. split; [exact K5|].
      intros c b Q Hc. injection Q as <- _. destruct (K4 i Hc) as (a & sd & Qa & _). destruct (HL i Hi_in) as (a' & sd' & Qb & _). rewrite Qa in Qb. injection Qb as _ Qn _. apply Hne. exact Qn.
  Qed.
  Lemma LKI_insert G X s nd nd1 p q k b0 a sd : LKI G X (Some (k, b0)) s -> In nd (nodes s) -> G k = Some (a, Some (n_id nd), sd) ->
    (inf_at (n_id nd) = true -> a = None) -> nthZ (n_queues nd) p = Some q ->
    n_id nd1 = n_id nd -> n_c nd1 = n_c nd -> n_nint nd1 = n_nint nd -> n_lenbq nd1 = n_lenbq nd -> n_next_type nd1 = n_next_type nd ->
    n_servers nd1 = n_servers nd -> n_queues nd1 = updZ (n_queues nd) p (q ++ [k]) -> n_highest nd1 = n_highest nd ->
    LKI G X None (s <| nodes := updZ (nodes s) (n_id nd1 - 1) nd1 |>).
  Proof.
    intros HI Hnd Hg Hgi Hq E1 E2 E3 E4 E5 E6 E7 E8. pose proof HI as (H1 & H2 & H3 & H4 & H5 & H6).
    assert (P : Permutation (all_individuals nd1) (k :: all_individuals nd)) by (unfold all_individuals; rewrite E7; apply (Renege2.concat_append _ _ _ _ Hq)).
    destruct (H5 nd Hnd) as (M & N1 & HH & HA & HL & N2 & HT).
    apply (LKI_node_repl G X X (Some (k, b0)) None s nd nd1 HI Hnd E1); [| |split; [apply H6|intros k0 Q; discriminate Q]].
    - split; [apply (Misc_same nd _ M); [exact E1|unfold nd_inf; rewrite E2; reflexivity|lia|lia|rewrite E5; apply M|rewrite E6; reflexivity|exact E8]|].
      unfold Held, Att, Locd, NotIn in *. rewrite E1, E6. split; [exact N1|]. split; [exact HH|]. split; [exact HA|].
      split; [|split; [|intros c b Q; discriminate Q]].
      + intros c Hc. apply (Permutation_in _ P) in Hc. destruct Hc as [<-|Hc]; [exists a, sd; split; [exact Hg|exact Hgi]|apply HL; exact Hc].
      + eapply Permutation_NoDup; [symmetry; exact P|]. constructor; [apply (HT k b0); reflexivity|exact N2].
    - intros nd0 Hin Hne (M0 & K1 & K2 & K3 & K4 & K5 & K6). split; [exact M0|]. split; [exact K1|]. split; [exact K2|]. split; [exact K3|]. split; [exact K4|]. split; [exact K5|].
      intros c b Q. discriminate Q.
  Qed.
  Lemma LKI_create G X s i x' : LKI G X None s -> G i = None -> i <= a_created (arr s) -> i_id x' = i -> i_server x' = None ->
    LKI (upg G i (Some (key x'))) X (Some (i, true)) (s <| inds := put_ind_l x' (inds s) |>).
  Proof.
    intros (H1 & H2 & H3 & H4 & H5 & H6 & H7) Hg Hle Hid Hsrv. unfold LKI. cbn [inds nodes arr set].
    split; [|split; [apply Renege2.NoDup_put_ind; exact H2|split; [|split; [exact H4|split]]]].
    - intros k. rewrite Renege2.find_put_ind, Hid. unfold upg. destruct (k =? i); [reflexivity|apply H1].
    - intros k Hk. destruct (Z.eq_dec k i) as [->|Hne]; [exact Hle|]. rewrite upg_other in Hk by exact Hne. apply H3. exact Hk.
    - intros nd Hnd. destruct (H5 nd Hnd) as (M & N1 & HH & HA & HL & N2 & HT). split; [exact M|]. split; [exact N1|]. split; [|split; [exact HA|split; [|split; [exact N2|]]]].
      + intros sv c0 Hsv Hc0. destruct (HH sv c0 Hsv Hc0) as (sd & Q & D). assert (c0 <> i) by (intros ->; rewrite Hg in Q; discriminate Q). rewrite upg_other by assumption. eauto.
      + intros c0 Hc0. destruct (HL c0 Hc0) as (a & sd & Q & Qi). assert (c0 <> i) by (intros ->; rewrite Hg in Q; discriminate Q). rewrite upg_other by assumption. eauto.
      + intros c b Q Hc. injection Q as <- _. destruct (HL i Hc) as (a & sd & Q & _). rewrite Hg in Q. discriminate Q.
    - split.
      + intros c0 j sid HX. destruct (H6 c0 j sid HX) as (sd & Q). assert (c0 <> i) by (intros ->; rewrite Hg in Q; discriminate Q). rewrite upg_other by assumption. eauto.
      + intros k Q. injection Q as <-. rewrite upg_same. unfold key. rewrite Hsrv. eauto.
  Qed.
  Lemma LKI_exit G s k b0 s' : LKI G None (Some (k, b0)) s -> NoHold k s -> inds s' = del_ind_l k (inds s) -> nodes s' = nodes s -> a_created (arr s) <= a_created (arr s') ->
    LKI (upg G k None) None None s'.
  Proof.
    intros (H1 & H2 & H3 & H4 & H5 & H6) Hno E1 E2 E3. unfold LKI, Renege2.Idx. rewrite E1, E2.
    split; [|split; [apply (Renege2.NoDup_del_ind k _ H2)|split; [|split; [exact H4|split; [|split; [intros c j sid Q; discriminate Q|intros k0 Q; discriminate Q]]]]]].
    - intros k0. rewrite (find_del_ind k _ k0 H2). unfold upg. destruct (k0 =? k); [reflexivity|apply H1].
    - intros k0 Hk. destruct (Z.eq_dec k0 k) as [->|Hne]; [rewrite upg_same in Hk; contradiction|]. rewrite upg_other in Hk by exact Hne. specialize (H3 k0 Hk). lia.
    - intros nd Hnd. destruct (H5 nd Hnd) as (M & N1 & HH & HA & HL & N2 & HT). split; [exact M|]. split; [exact N1|]. split; [|split; [exact HA|split; [|split; [exact N2|intros c b Q; discriminate Q]]]].
      + intros sv c0 Hsv Hc0. assert (c0 <> k) by (intros ->; exact (Hno nd sv Hnd Hsv Hc0)). rewrite upg_other by assumption. apply HH; assumption.
      + intros c0 Hc0. assert (c0 <> k) by (intros ->; exact (HT k b0 eq_refl Hc0)). rewrite upg_other by assumption. apply HL; assumption.
  Qed.

  (* ---------- the steps that change the ghosts ---------- *)
  Lemma upd_server_inv j sid f u s s1 : upd_server j sid f s = Ok (u, s1) -> exists nd, 1 <= j /\ nthZ (nodes s) (j - 1) = Some nd /\
    ((find_server sid (n_servers nd) = None /\ s1 = s) \/
     exists sv, find_server sid (n_servers nd) = Some sv /\
                s1 = s <| nodes := updZ (nodes s) (n_id nd - 1) (nd <| n_servers := put_server_l (f sv) (n_servers nd) |>) |>).
  Proof.
    unfold upd_server. intros H. minv H nd s0 E. apply Renege2.get_node_inv in E as (-> & Hj & Hn). exists nd. split; [exact Hj|]. split; [exact Hn|].
    destruct (find_server sid (n_servers nd)) as [sv|].
    - right. exists sv. split; [reflexivity|]. unfold put_node in H. apply Renege2.modify_inv in H. exact H.
    - left. apply Renege2.ret_inv in H as [_ ->]. auto.
  Qed.
  Lemma LKI_flag G X s k : LKI G X (Some (k, false)) s -> (exists b sd, G k = Some (None, b, sd)) -> LKI G X (Some (k, true)) s.
  Proof.
    intros (H1 & H2 & H3 & H4 & H5 & H6 & H7) Hg. unfold LKI. repeat (split; [assumption|]). split; [|split; [exact H6|]].
    - intros nd Hnd. destruct (H5 nd Hnd) as (M & N1 & HH & HA & HL & N2 & HT). repeat (split; [assumption|]). intros c b Q. injection Q as <- _. apply (HT k false). reflexivity.
    - intros k0 Q. injection Q as <-. exact Hg.
  Qed.
  Lemma swap_nodes_inds (s : sim) N (f : list ind -> list ind) :
    (s <| nodes := N |>) <| inds := f (inds (s <| nodes := N |>)) |> = (s <| inds := f (inds s) |>) <| nodes := N |>.
  Proof. destruct s; reflexivity. Qed.

  Lemma lk_attach G T j sid c sd : G c = Some (None, Some j, sd) -> T <> Some (c, true) -> inf_at j = false ->
    sp (LKI G None T) (LKI (upg G c (Some (Some sid, Some j, sd))) (Some (c, j, sid)) T) (attach_server j sid c) top.
  Proof.
    intros Hg HT Hinf s u s' HI H. split; [|exact Logic.I]. unfold attach_server in H. minv H u1 s1 E. apply upd_server_inv in E as (nd & Hj & Hn & Hcase).
    apply Renege2.upd_ind_inv in H as (x & Hx & ->). pose proof HI as (H1 & H2 & H3 & H4 & H5 & H6 & H7).
    assert (Hnd : In nd (nodes s)) by (eapply Renege2.nthZ_In; exact Hn). assert (Hidn : n_id nd = j) by (eapply Renege2.Idx_get; eauto).
    assert (Hno : NoHold c s) by (eapply NoHold_G; eauto).
    assert (Hx0 : find_ind c (inds s) = Some x) by (destruct Hcase as [[_ ->]|(sv & _ & ->)]; exact Hx).
    assert (Hgx : G c = Some (key x)) by (rewrite <- H1, Hx0; reflexivity). rewrite Hg in Hgx. injection Hgx as K1 K2 K3.
    set (x' := x <| i_server := Some sid |>) in *.
    assert (Hk' : key x' = (Some sid, Some j, sd)) by (unfold key, x'; cbn; rewrite <- K2, <- K3; reflexivity).
    assert (HI1 : LKI (upg G c (Some (Some sid, Some j, sd))) None T (s <| inds := put_ind_l x' (inds s) |>)).
    { rewrite <- Hk'. apply (LKI_rec G None T s c x x' HI Hx0); [exact (Renege2.find_ind_id _ _ _ Hx0)|left; split; [exact Hno|left; reflexivity]|intros j0 s0 Q; discriminate Q|intros Q; contradiction|].
      right; right. exists j. split; [symmetry; exact K2|exact Hinf]. }
    set (G' := upg G c (Some (Some sid, Some j, sd))) in *.
    destruct Hcase as [[Hf ->]|(sv & Hf & ->)].
    - apply (LKI_openX G' T _ c j sid sd HI1); [unfold G'; apply upg_same|].
      intros nd0 sv0 Hnd0 Hid0 Hsv0 Hs0. exfalso. cbn [nodes set] in Hnd0. assert (nd0 = nd) by (apply (Idx_inj s); auto; congruence). subst nd0.
      exact (find_server_None _ _ Hf sv0 Hsv0 Hs0).
    - rewrite (swap_nodes_inds s _ (put_ind_l x')). destruct (find_server_In _ _ _ Hf) as [Hsvin Hsvid].
      destruct (H5 nd Hnd) as (M & N1 & HH & HA & HL & N2 & HTn).
      set (a := sv <| sv_cust := Some c |> <| sv_busy := true |>).
      assert (Ha : sv_id a = sid) by exact Hsvid.
      pose proof HI1 as (_ & _ & _ & _ & J5 & _).
      apply (LKI_nod G' None (Some (c, j, sid)) T _ nd (put_server_l a (n_servers nd)) HI1 Hnd); [apply put_server_ids| | | |].
      + intros sv0 c0 Hsv0 Hc0. cbn [n_servers n_id set] in Hsv0 |- *. apply (In_put_server a _ sv0 N1) in Hsv0 as [->|[Hin Hne]].
        * cbn in Hc0. injection Hc0 as <-. exists sd. unfold G'. rewrite upg_same, Ha, Hidn. split; [reflexivity|left; exists j, sid; reflexivity].
        * destruct (J5 nd Hnd) as (_ & _ & HH' & _). destruct (HH' sv0 c0 Hin Hc0) as (sd0 & Q & [(j0 & s0 & Q')|D]); [discriminate Q'|]. exists sd0. split; [exact Q|right; exact D].
      + intros c0 sid0 Q sv0 Hsv0 Hs0. cbn [n_servers n_id set] in Hsv0, Q. injection Q as -> _ ->. apply (In_put_server a _ sv0 N1) in Hsv0 as [->|[Hin Hne]]; [reflexivity|]. exfalso. apply Hne. rewrite Ha. exact Hs0.
      + intros nd0 Hnd0 Hne. destruct (J5 nd0 Hnd0) as (_ & _ & HH' & _). split.
        * intros sv0 c0 Hsv0 Hc0. destruct (HH' sv0 c0 Hsv0 Hc0) as (sd0 & Q & [(j0 & s0 & Q')|D]); [discriminate Q'|]. exists sd0. split; [exact Q|right; exact D].
        * intros c0 sid0 Q. injection Q as _ Q _. exfalso. apply Hne. rewrite Hidn. symmetry. exact Q.
      + intros c0 j0 sid0 Q. injection Q as -> -> ->. exists sd. unfold G'. apply upg_same.
  Qed.

  Lemma lk_sne_close G T j sid c e d' : G c = Some (Some sid, Some j, Some e) -> d' <= e ->
    sp (LKI G (Some (c, j, sid)) T) (LKI G None T) (set_next_end j sid (Some d')) top.
  Proof.
    intros Hg Hle s u s' HI H. split; [|exact Logic.I]. unfold set_next_end in H. apply upd_server_inv in H as (nd & Hj & Hn & Hcase).
    pose proof HI as (H1 & H2 & H3 & H4 & H5 & H6 & H7).
    assert (Hnd : In nd (nodes s)) by (eapply Renege2.nthZ_In; exact Hn). assert (Hidn : n_id nd = j) by (eapply Renege2.Idx_get; eauto).
    destruct Hcase as [[Hf ->]|(sv & Hf & ->)].
    - apply (LKI_closeX G _ T s HI). intros c0 j0 s0 nd0 sv0 Q Hnd0 Hsv0 Hc0. injection Q as <- <- <-. exfalso.
      destruct (H5 nd0 Hnd0) as (_ & _ & HH & _). destruct (HH sv0 c Hsv0 Hc0) as (sd0 & Q & _). rewrite Hg in Q. injection Q as Q1 Q2 _.
      assert (nd0 = nd) by (apply (Idx_inj s); auto; congruence). subst nd0. exact (find_server_None _ _ Hf sv0 Hsv0 (eq_sym Q1)).
    - destruct (find_server_In _ _ _ Hf) as [Hsvin Hsvid]. destruct (H5 nd Hnd) as (M & N1 & HH & HA & HL & N2 & HTn).
      set (a := sv <| sv_next_end := Some d' |>). assert (Ha : sv_id a = sid) by exact Hsvid.
      apply (LKI_nod G _ None T s nd (put_server_l a (n_servers nd)) HI Hnd); [apply put_server_ids| | | |intros c0 j0 s0 Q; discriminate Q].
      + intros sv0 c0 Hsv0 Hc0. cbn [n_servers n_id set] in Hsv0 |- *. apply (In_put_server a _ sv0 N1) in Hsv0 as [->|[Hin Hne]].
        * cbn in Hc0. assert (Hc : sv_cust sv = Some c) by (apply (HA c sid); [rewrite Hidn; reflexivity|exact Hsvin|exact Hsvid]). rewrite Hc in Hc0. injection Hc0 as <-.
          exists (Some e). rewrite Ha, Hidn. split; [exact Hg|right]. exists e, d'. cbn. auto.
        * destruct (HH sv0 c0 Hin Hc0) as (sd0 & Q & [(j0 & s0 & Q')|D]); [|exists sd0; split; [exact Q|right; exact D]].
          exfalso. injection Q' as <- _ _. rewrite Hg in Q. injection Q as Q1 _ _. apply Hne. rewrite Ha. symmetry. exact Q1.
      + intros c0 s0 Q. discriminate Q.
      + intros nd0 Hnd0 Hne. destruct (H5 nd0 Hnd0) as (_ & _ & HH0 & _). split; [|intros c0 s0 Q; discriminate Q].
        intros sv0 c0 Hsv0 Hc0. destruct (HH0 sv0 c0 Hsv0 Hc0) as (sd0 & Q & [(j0 & s0 & Q')|D]); [|exists sd0; split; [exact Q|right; exact D]].
        exfalso. injection Q' as <- _ _. rewrite Hg in Q. injection Q as _ Q2 _. apply Hne. rewrite Hidn. symmetry. exact Q2.
  Qed.

  Lemma lk_sne_open G T j sid :
    sp (LKI G None T) (fun s' => exists X', LKI G X' T s' /\ (X' = None \/ exists c2, X' = Some (c2, j, sid))) (set_next_end j sid None) top.
  Proof.
    intros s u s' HI H. split; [|exact Logic.I]. unfold set_next_end in H. apply upd_server_inv in H as (nd & Hj & Hn & Hcase).
    pose proof HI as (H1 & H2 & H3 & H4 & H5 & H6 & H7).
    assert (Hnd : In nd (nodes s)) by (eapply Renege2.nthZ_In; exact Hn). assert (Hidn : n_id nd = j) by (eapply Renege2.Idx_get; eauto).
    destruct Hcase as [[Hf ->]|(sv & Hf & ->)]; [exists None; auto|].
    destruct (find_server_In _ _ _ Hf) as [Hsvin Hsvid]. destruct (H5 nd Hnd) as (M & N1 & HH & HA & HL & N2 & HTn).
    set (a := sv <| sv_next_end := None |>). assert (Ha : sv_id a = sid) by exact Hsvid.
    assert (Hold : forall nd0 sv0 c0 X', In nd0 (nodes s) -> In sv0 (n_servers nd0) -> sv_cust sv0 = Some c0 ->
              exists sd, G c0 = Some (Some (sv_id sv0), Some (n_id nd0), sd) /\ (exempt X' c0 \/ exists e d, sd = Some e /\ sv_next_end sv0 = Some d /\ d <= e)).
    { intros nd0 sv0 c0 X' Hnd0 Hsv0 Hc0. destruct (H5 nd0 Hnd0) as (_ & _ & HH0 & _). destruct (HH0 sv0 c0 Hsv0 Hc0) as (sd0 & Q & [(j0 & s0 & Q')|D]); [discriminate Q'|]. exists sd0. auto. }
    destruct (sv_cust sv) as [c2|] eqn:Ec.
    - exists (Some (c2, j, sid)). split; [|right; exists c2; reflexivity]. destruct (HH sv c2 Hsvin Ec) as (sd2 & Q2 & _). rewrite Hsvid, Hidn in Q2.
      apply (LKI_nod G _ _ T s nd (put_server_l a (n_servers nd)) HI Hnd); [apply put_server_ids| | | |].
      + intros sv0 c0 Hsv0 Hc0. cbn [n_servers n_id set] in Hsv0 |- *. apply (In_put_server a _ sv0 N1) in Hsv0 as [->|[Hin Hne]].
        * cbn in Hc0. rewrite Ec in Hc0. injection Hc0 as <-. exists sd2. rewrite Ha, Hidn. split; [exact Q2|left; exists j, sid; reflexivity].
        * apply (Hold nd); assumption.
      + intros c0 s0 Q sv0 Hsv0 Hs0. cbn [n_servers n_id set] in Hsv0, Q. injection Q as -> _ ->. apply (In_put_server a _ sv0 N1) in Hsv0 as [->|[Hin Hne]]; [exact Ec|]. exfalso. apply Hne. rewrite Ha. exact Hs0.
      + intros nd0 Hnd0 Hne. split; [intros sv0 c0 Hsv0 Hc0; apply (Hold nd0); assumption|]. intros c0 s0 Q. injection Q as _ Q _. exfalso. apply Hne. rewrite Hidn. symmetry. exact Q.
      + intros c0 j0 s0 Q. injection Q as -> -> ->. exists sd2. exact Q2.
    - exists None. split; [|left; reflexivity].
      apply (LKI_nod G _ _ T s nd (put_server_l a (n_servers nd)) HI Hnd); [apply put_server_ids| | | |intros c0 j0 s0 Q; discriminate Q].
      + intros sv0 c0 Hsv0 Hc0. cbn [n_servers n_id set] in Hsv0 |- *. apply (In_put_server a _ sv0 N1) in Hsv0 as [->|[Hin Hne]].
        * cbn in Hc0. rewrite Ec in Hc0. discriminate Hc0.
        * apply (Hold nd); assumption.
      + intros c0 s0 Q. discriminate Q.
      + intros nd0 Hnd0 Hne. split; [intros sv0 c0 Hsv0 Hc0; apply (Hold nd0); assumption|intros c0 s0 Q; discriminate Q].
  Qed.

  Lemma NOK_del G X T nd nd' sid : NOK G X T nd -> n_id nd' = n_id nd -> n_c nd' = n_c nd -> n_nint nd' = n_nint nd -> n_lenbq nd' = n_lenbq nd ->
    n_next_type nd' = n_next_type nd -> n_servers nd' = del_server_l sid (n_servers nd) -> n_queues nd' = n_queues nd -> n_highest nd' = n_highest nd -> NOK G X T nd'.
  Proof.
    intros ((A & B & C & D0 & E & F) & N1 & HH & HA & HL & N2 & HT) E1 E2 E3 E4 E5 E6 E7 E8.
    split.
    { unfold Misc, nd_inf in *. rewrite E1, E2, E3, E4, E5, E6, E8. split; [exact A|]. split; [exact B|]. split; [exact C|]. split; [exact D0|]. split.
      - intros Q. rewrite (E Q). reflexivity.
      - intros sv Hsv. apply F. eapply In_del_server; exact Hsv. }
    unfold Held, Att, Locd, NotIn, all_individuals in *. rewrite E1, E6, E7.
    split; [apply NoDup_del_server; exact N1|]. split; [intros sv c Hsv; apply HH; eapply In_del_server; exact Hsv|].
    split; [intros c s0 Q sv Hsv; apply (HA c s0 Q); eapply In_del_server; exact Hsv|]. auto.
  Qed.
  Lemma lk_kill_server G X T j sid : sp (LKI G X T) (LKI G X T) (kill_server j sid) top.
  Proof.
    unfold kill_server. eapply Renege2.sp_bind; [apply Renege2.sp_gets|]. intros t0 _. eapply Renege2.sp_bind; [apply lk_get_node|]. intros nd [Hnd Hj].
    eapply Renege2.sp_bind; [apply Renege2.sp_lift|]. intros sv _. cbv zeta. apply lk_put_node. apply (NOK_del G X T nd _ sid Hnd); reflexivity.
  Qed.

  Lemma lk_detach G X T j sid i sd : G i = Some (Some sid, Some j, sd) -> (X = None \/ exists c2, X = Some (c2, j, sid)) ->
    sp (LKI G X T) (LKI (upg G i (Some (None, Some j, sd))) None T) (detatch_server j sid i) top.
  Proof.
    intros Hg HX s u s' HI H. split; [|exact Logic.I]. unfold detatch_server in H.
    minv H t0 s0 E. apply Renege2.tnow_inv in E as [-> ->].
    minv H nd s0 E. apply Renege2.get_node_inv in E as (-> & Hj & Hn).
    minv H x s0 E. apply Renege2.get_ind_inv in E as [-> Hx].
    minv H u1 s1 E. unfold put_ind in E. apply Renege2.modify_inv in E. subst s1.
    pose proof HI as (H1 & H2 & H3 & H4 & H5 & H6 & H7).
    assert (Hnd : In nd (nodes s)) by (eapply Renege2.nthZ_In; exact Hn). assert (Hidn : n_id nd = j) by (eapply Renege2.Idx_get; eauto).
    assert (Hgx : G i = Some (key x)) by (rewrite <- H1, Hx; reflexivity). rewrite Hg in Hgx. injection Hgx as K1 K2 K3.
    set (x' := x <| i_server := None |>) in *.
    assert (Hk' : key x' = (None, Some j, sd)) by (unfold key, x'; cbn; rewrite <- K2, <- K3; reflexivity).
    assert (Hid' : i_id x' = i) by exact (Renege2.find_ind_id _ _ _ Hx).
    (* who may hold i, and who may be exempt *)
    assert (Hhold : forall nd0 sv0, In nd0 (nodes s) -> In sv0 (n_servers nd0) -> sv_cust sv0 = Some i -> nd0 = nd /\ sv_id sv0 = sid).
    { intros nd0 sv0 Hnd0 Hsv0 Hc0. destruct (H5 nd0 Hnd0) as (_ & _ & HH0 & _). destruct (HH0 sv0 i Hsv0 Hc0) as (sd0 & Q & _). rewrite Hg in Q. injection Q as Q1 Q2 _.
      split; [apply (Idx_inj s); auto; congruence|symmetry; exact Q1]. }
    assert (Hex : forall nd0 sv0 c0, In nd0 (nodes s) -> In sv0 (n_servers nd0) -> sv_cust sv0 = Some c0 -> exempt X c0 -> nd0 = nd /\ sv_id sv0 = sid).
    { intros nd0 sv0 c0 Hnd0 Hsv0 Hc0 (j0 & s0 & Q). destruct HX as [HX|(c2 & HX)]; [rewrite HX in Q; discriminate Q|]. rewrite HX in Q. injection Q as <- <- <-.
      destruct (H6 c2 j sid HX) as (sd2 & Q2). destruct (H5 nd0 Hnd0) as (_ & _ & HH0 & _). destruct (HH0 sv0 c2 Hsv0 Hc0) as (sd0 & Q & _). rewrite Q2 in Q. injection Q as Q1 Q3 _.
      split; [apply (Idx_inj s); auto; congruence|symmetry; exact Q1]. }
    assert (Hweak : forall nd0 sv0 c0, In nd0 (nodes s) -> In sv0 (n_servers nd0) -> sv_cust sv0 = Some c0 -> (nd0 = nd -> sv_id sv0 <> sid) ->
              exists sd0, G c0 = Some (Some (sv_id sv0), Some (n_id nd0), sd0) /\ (exempt None c0 \/ exists e d, sd0 = Some e /\ sv_next_end sv0 = Some d /\ d <= e)).
    { intros nd0 sv0 c0 Hnd0 Hsv0 Hc0 Hn0. destruct (H5 nd0 Hnd0) as (_ & _ & HH0 & _). destruct (HH0 sv0 c0 Hsv0 Hc0) as (sd0 & Q & [Hx0|D]); [|exists sd0; auto].
      exfalso. destruct (Hex nd0 sv0 c0 Hnd0 Hsv0 Hc0 Hx0) as [Q1 Q2]. exact (Hn0 Q1 Q2). }
    destruct (find_server sid (n_servers nd)) as [sv|] eqn:Hf.
    - (* the server is in the list *)
      destruct (find_server_In _ _ _ Hf) as [Hsvin Hsvid]. destruct (H5 nd Hnd) as (M & N1 & HH & HA & HL & N2 & HTn).
      minv H u2 s2 E. unfold put_node in E. apply Renege2.modify_inv in E. subst s2. cbn [nodes set n_id] in H.
      match type of H with context [put_server_l ?b _] => set (a := b) in * end. assert (Ha : sv_id a = sid) by exact Hsvid.
      assert (HIn : LKI G None T (s <| nodes := updZ (nodes s) (n_id nd - 1) (nd <| n_servers := put_server_l a (n_servers nd) |>) |>)).
      { apply (LKI_nod G X None T s nd (put_server_l a (n_servers nd)) HI Hnd); [apply put_server_ids| | | |intros c0 j0 s0 Q; discriminate Q].
        - intros sv0 c0 Hsv0 Hc0. cbn [n_servers n_id set] in Hsv0 |- *. apply (In_put_server a _ sv0 N1) in Hsv0 as [->|[Hin Hne]]; [cbn in Hc0; discriminate Hc0|].
          apply (Hweak nd); auto. intros _. rewrite <- Ha. exact Hne.
        - intros c0 s0 Q. discriminate Q.
        - intros nd0 Hnd0 Hne. split; [|intros c0 s0 Q; discriminate Q]. intros sv0 c0 Hsv0 Hc0. apply (Hweak nd0); auto. intros Q. exfalso. apply Hne. rewrite Q. reflexivity. }
      assert (Hno : NoHold i (s <| nodes := updZ (nodes s) (n_id nd - 1) (nd <| n_servers := put_server_l a (n_servers nd) |>) |>)).
      { intros nd0 sv0 Hnd0 Hsv0 Hc0. cbn [nodes set] in Hnd0. set (nd1 := nd <| n_servers := put_server_l a (n_servers nd) |>) in *.
        assert (E1 : n_id nd1 = n_id nd) by reflexivity. rewrite <- E1 in Hnd0. destruct (In_updZ_Idx s nd nd1 nd0 H4 Hnd E1 Hnd0) as [->|[Hin0 Hne0]].
        - cbn [n_servers set nd1] in Hsv0. apply (In_put_server a _ sv0 N1) in Hsv0 as [->|[Hin Hne]]; [cbn in Hc0; discriminate Hc0|].
          destruct (Hhold nd sv0 Hnd Hin Hc0) as [_ Q]. apply Hne. rewrite Ha. exact Q.
        - destruct (Hhold nd0 sv0 Hin0 Hsv0 Hc0) as [Q _]. apply Hne0. rewrite Q. reflexivity. }
      assert (HI2 : LKI (upg G i (Some (None, Some j, sd))) None T
                        ((s <| nodes := updZ (nodes s) (n_id nd - 1) (nd <| n_servers := put_server_l a (n_servers nd) |>) |>) <| inds := put_ind_l x' (inds s) |>)).
      { rewrite <- Hk'. apply (LKI_rec G None T _ i x x' HIn Hx Hid'); [left; split; [exact Hno|left; reflexivity]|intros j0 s0 Q; discriminate Q|intros _; reflexivity|right; left; reflexivity]. }
      rewrite (swap_nodes_inds s _ (put_ind_l x')) in HI2.
      destruct (sv_offduty sv); [exact (proj1 (lk_kill_server _ None T j sid _ _ _ HI2 H))|apply Renege2.ret_inv in H as [_ ->]; exact HI2].
    - (* the server has been retired: nothing but the record changes *)
      apply Renege2.ret_inv in H as [_ ->].
      assert (HI0 : LKI G None T s).
      { apply (LKI_closeX G X T s HI). intros c0 j0 s0 nd0 sv0 Q Hnd0 Hsv0 Hc0. exfalso. destruct (Hex nd0 sv0 c0 Hnd0 Hsv0 Hc0 (ex_intro _ j0 (ex_intro _ s0 Q))) as [-> Q2].
        exact (find_server_None _ _ Hf sv0 Hsv0 Q2). }
      rewrite <- Hk'. apply (LKI_rec G None T s i x x' HI0 Hx Hid'); [left; split; [|left; reflexivity]|intros j0 s0 Q; discriminate Q|intros _; reflexivity|right; left; reflexivity].
      intros nd0 sv0 Hnd0 Hsv0 Hc0. destruct (Hhold nd0 sv0 Hnd0 Hsv0 Hc0) as [-> Q2]. exact (find_server_None _ _ Hf sv0 Hsv0 Q2).
  Qed.

  (* writing the end date of the exempt customer; writing any field of a customer nobody holds *)
  Lemma lk_put_send_p G X T x x' : okr G x -> i_id x' = i_id x -> i_server x' = i_server x -> i_node x' = i_node x -> exempt X (i_id x) ->
    sp (LKI G X T) (LKI (upg G (i_id x) (Some (key x'))) X T) (put_ind x') top.
  Proof.
    intros Ho Hid Es En Hex s u s' HI H. split; [|exact Logic.I]. unfold put_ind in H. apply Renege2.modify_inv in H. subst s'.
    pose proof HI as (H1 & H2 & H3 & H4 & H5 & H6 & H7). unfold okr in Ho.
    pose proof (H1 (i_id x)) as Hk. rewrite Ho in Hk. destruct (find_ind (i_id x) (inds s)) as [xc|] eqn:Exc; [|discriminate]. cbn in Hk. injection Hk as Kc1 Kc2 Kc3.
    destruct Hex as (j0 & s0 & HX). destruct (H6 _ _ _ HX) as (sd0 & Q). rewrite Ho in Q. injection Q as Q1 Q2 _.
    apply (LKI_rec G X T s (i_id x) xc x' HI Exc Hid).
    - right. split; [exists j0, s0; exact HX|]. split; congruence.
    - intros j1 s1 Q. rewrite HX in Q. injection Q as <- <-. split; congruence.
    - intros Q. exfalso. destruct (H7 _ Q) as (b & sd1 & Q'). rewrite Ho in Q'. injection Q' as Q' _ _. congruence.
    - left. congruence.
  Qed.
  Lemma lk_put_free_p G X T x x' b sd : okr G x -> G (i_id x) = Some (None, b, sd) -> i_id x' = i_id x ->
    (i_node x' = i_node x \/ exists b0, T = Some (i_id x, b0)) -> (T = Some (i_id x, true) -> i_server x' = None) ->
    (i_server x' = i_server x \/ i_server x' = None \/ exists j, i_node x = Some j /\ inf_at j = false) ->
    sp (LKI G X T) (LKI (upg G (i_id x) (Some (key x'))) X T) (put_ind x') top.
  Proof.
    intros Ho Hg Hid En HT Hsv3 s u s' HI H. split; [|exact Logic.I]. unfold put_ind in H. apply Renege2.modify_inv in H. subst s'.
    pose proof HI as (H1 & H2 & H3 & H4 & H5 & H6 & H7). unfold okr in Ho.
    pose proof (H1 (i_id x)) as Hk. rewrite Ho in Hk. destruct (find_ind (i_id x) (inds s)) as [xc|] eqn:Exc; [|discriminate]. cbn in Hk. injection Hk as Kc1 Kc2 Kc3.
    apply (LKI_rec G X T s (i_id x) xc x' HI Exc Hid).
    - left. split; [eapply NoHold_G; eauto|]. destruct En as [En|En]; [left; congruence|right; exact En].
    - intros j1 s1 Q. exfalso. destruct (H6 _ _ _ Q) as (sd1 & Q'). rewrite Hg in Q'. discriminate Q'.
    - exact HT.
    - destruct Hsv3 as [E|[E|(j3 & E & E')]]; [left; congruence|right; left; exact E|right; right; exists j3; split; [congruence|exact E']].
  Qed.

  Lemma lk_upd_send G X T c g a b sd sd' : G c = Some (a, b, sd) -> exempt X c ->
    (forall y, i_id (g y) = i_id y /\ i_server (g y) = i_server y /\ i_node (g y) = i_node y /\ i_send (g y) = sd') ->
    sp (LKI G X T) (LKI (upg G c (Some (a, b, sd'))) X T) (upd_ind c g) top.
  Proof.
    intros Hg Hex Hgy. unfold upd_ind. eapply Renege2.sp_bind; [apply lk_get_ind|]. intros x [Hi Ho]. destruct (Hgy x) as (E1 & E2 & E3 & E4).
    pose proof Ho as Ho'. unfold okr in Ho'. rewrite Hi, Hg in Ho'. injection Ho' as K1 K2 K3.
    pose proof (lk_put_send_p G X T x (g x) Ho E1 E2 E3 ltac:(rewrite Hi; exact Hex)) as L. rewrite Hi in L.
    replace (key (g x)) with (a, b, sd') in L by (unfold key; rewrite E2, E3, E4, <- K1, <- K2; reflexivity). exact L.
  Qed.
  Lemma lk_upd_free G X T c g b sd sd' : G c = Some (None, b, sd) ->
    (forall y, i_id (g y) = i_id y /\ i_server (g y) = i_server y /\ i_node (g y) = i_node y /\ i_send (g y) = sd') ->
    sp (LKI G X T) (LKI (upg G c (Some (None, b, sd'))) X T) (upd_ind c g) top.
  Proof.
    intros Hg Hgy. unfold upd_ind. eapply Renege2.sp_bind; [apply lk_get_ind|]. intros x [Hi Ho]. destruct (Hgy x) as (E1 & E2 & E3 & E4).
    pose proof Ho as Ho'. unfold okr in Ho'. rewrite Hi, Hg in Ho'. injection Ho' as K1 K2 K3.
    pose proof (lk_put_free_p G X T x (g x) b sd Ho ltac:(rewrite Hi; exact Hg) E1 (or_introl E3) ltac:(intros _; rewrite E2, <- K1; reflexivity) (or_introl E2)) as L. rewrite Hi in L.
    replace (key (g x)) with (@None Z, b, sd') in L by (unfold key; rewrite E2, E3, E4, <- K1, <- K2; reflexivity). exact L.
  Qed.

  Definition LKX (X : XT) (T : option (Z * bool)) (s : sim) : Prop := exists G, LKI G X T s.
  Lemma sp_toLKX {A} (I0 : sim -> Prop) G X T (m : M A) phi : sp I0 (LKI G X T) m phi -> sp I0 (LKX X T) m phi.
  Proof. intros Hm. eapply Renege2.sp_post; [exact Hm|]. intros s0 H0. exists G. exact H0. Qed.

  (* ---------- the blocks that start a service ---------- *)
  Ltac spb L := eapply Renege2.sp_bind; [L|].
  Lemma lk_start_fresh G T j c sid sd cnt : G c = Some (None, Some j, sd) -> T <> Some (c, true) -> inf_at j = false ->
    sp (LKI G None T) (LKX None T) (start_fresh cf j c (Some sid) cnt) top.
  Proof.
    intros Hg HT Hinf. unfold start_fresh. spb ltac:(apply lk_attach; eassumption). intros _ _.
    set (G1 := upg G c (Some (Some sid, Some j, sd))).
    spb ltac:(apply Renege2.sp_gets). intros t0 _. spb ltac:(apply lk_draw_svc). intros st _.
    spb ltac:(apply (lk_upd_send G1 _ T c _ (Some sid) (Some j) sd (Some (t0 + st))); [unfold G1; apply upg_same|exists j, sid; reflexivity|intros y; repeat split; reflexivity]). intros _ _.
    set (G2 := upg G1 c (Some (Some sid, Some j, Some (t0 + st)))).
    eapply Renege2.sp_bind with (phi := top) (J := LKI G2 (Some (c, j, sid)) T); [destruct cnt; [apply lk_upd_node; intros; lk_nok|apply Renege2.sp_ret; exact Logic.I]|]. intros _ _.
    spb ltac:(apply lk_reset_class_change). intros _ _.
    eapply sp_toLKX. apply (lk_sne_close G2 T j sid c (t0 + st) (t0 + st)); [unfold G2; apply upg_same|lia].
  Qed.
  Lemma lk_start_fresh_none G T j c b sd cnt : G c = Some (None, b, sd) ->
    sp (LKI G None T) (LKX None T) (start_fresh cf j c None cnt) top.
  Proof.
    intros Hg. unfold start_fresh. eapply Renege2.sp_bind with (phi := top); [apply Renege2.sp_ret; exact Logic.I|]. intros _ _.
    spb ltac:(apply Renege2.sp_gets). intros t0 _. spb ltac:(apply lk_draw_svc). intros st _.
    spb ltac:(apply (lk_upd_free G None T c _ b sd (Some (t0 + st)) Hg); intros y; repeat split; reflexivity). intros _ _.
    set (G2 := upg G c (Some (None, b, Some (t0 + st)))).
    eapply Renege2.sp_bind with (phi := top) (J := LKI G2 None T); [destruct cnt; [apply lk_upd_node; intros; lk_nok|apply Renege2.sp_ret; exact Logic.I]|]. intros _ _.
    spb ltac:(apply lk_reset_class_change). intros _ _. eapply sp_toLKX. apply Renege2.sp_ret. exact Logic.I.
  Qed.
  Lemma lk_start_tail G T j c sid sd (cnt : bool) : G c = Some (Some sid, Some j, sd) ->
    sp (LKI G (Some (c, j, sid)) T) (LKX None T)
       (t0 <- tnow ;;
        upd_ind c (fun x => x <| i_sst := Some t0 |>) ;;;
        give_individual_a_service_time c ;;;
        x <- get_ind c ;; st <- stime_num x ;;
        put_ind (x <| i_send := Some (t0 + st) |>) ;;;
        (if cnt then upd_node j (fun nd => nd <| n_insvc := n_insvc nd + 1 |>) else ret tt) ;;;
        reset_class_change cf j c ;;;
        set_next_end j sid (Some (t0 + st))) top.
  Proof.
    intros Hg. spb ltac:(apply Renege2.sp_gets). intros t0 _.
    spb ltac:(apply lk_upd_ind; intros; lk_ok). intros _ _. spb ltac:(apply lk_giast). intros _ _.
    spb ltac:(apply lk_get_ind). intros x [Hi Ho]. spb ltac:(apply lk_stime_num). intros st _.
    pose proof Ho as Ho'. unfold okr in Ho'. rewrite Hi, Hg in Ho'. injection Ho' as K1 K2 K3.
    set (x2 := x <| i_send := Some (t0 + st) |>).
    assert (Ek : key x2 = (Some sid, Some j, Some (t0 + st))) by (unfold key, x2; cbn; rewrite <- K1, <- K2; reflexivity).
    pose proof (lk_put_send_p G (Some (c, j, sid)) T x x2 Ho eq_refl eq_refl eq_refl ltac:(rewrite Hi; exists j, sid; reflexivity)) as L. rewrite Hi, Ek in L.
    spb ltac:(exact L). intros _ _. set (G2 := upg G c (Some (Some sid, Some j, Some (t0 + st)))).
    eapply Renege2.sp_bind with (phi := top) (J := LKI G2 (Some (c, j, sid)) T); [destruct cnt; [apply lk_upd_node; intros; lk_nok|apply Renege2.sp_ret; exact Logic.I]|]. intros _ _.
    spb ltac:(apply lk_reset_class_change). intros _ _.
    eapply sp_toLKX. apply (lk_sne_close G2 T j sid c (t0 + st) (t0 + st)); [unfold G2; apply upg_same|lia].
  Qed.
  Lemma lk_start_give G T j c sid sd : G c = Some (None, Some j, sd) -> T <> Some (c, true) -> inf_at j = false ->
    sp (LKI G None T) (LKX None T) (start_give cf j c sid) top.
  Proof.
    intros Hg HT Hinf. unfold start_give. spb ltac:(apply lk_attach; eassumption). intros _ _.
    apply (lk_start_tail _ T j c sid sd true). apply upg_same.
  Qed.
  Lemma lk_start_preemptor G T j c sid sd : G c = Some (None, Some j, sd) -> T <> Some (c, true) -> inf_at j = false ->
    sp (LKI G None T) (LKX None T) (start_preemptor cf j c sid) top.
  Proof.
    intros Hg HT Hinf. unfold start_preemptor. spb ltac:(apply lk_attach; eassumption). intros _ _.
    pose proof (lk_start_tail (upg G c (Some (Some sid, Some j, sd))) T j c sid sd false (upg_same _ _ _)) as L. cbv iota in L.
    intros s a s' HI H. refine (L s a s' HI _). clear L. revert H. unfold bind. destruct (tnow s) as [[t0 s0]| |]; [|discriminate|discriminate].
    destruct (upd_ind c _ s0) as [[u1 s1]| |]; [|discriminate|discriminate]. destruct (give_individual_a_service_time c s1) as [[u2 s2]| |]; [|discriminate|discriminate].
    destruct (get_ind c s2) as [[x s3]| |]; [|discriminate|discriminate]. destruct (stime_num x s3) as [[st s4]| |]; [|discriminate|discriminate].
    destruct (put_ind _ s4) as [[u3 s5]| |]; [|discriminate|discriminate]. cbn. exact (fun h => h).
  Qed.

  (* choose_next_customer picks a WAITING customer of that node who has a record *)
  Lemma waiting_of_In q il c : In c (waiting_of q il) -> In c q /\ exists x, find_ind c il = Some x /\ i_server x = None.
  Proof.
    induction q as [|i r IH]; cbn; [intros []|]. destruct (find_ind i il) as [x|] eqn:Ex; [|intros H; destruct (IH H); auto].
    destruct (i_server x) eqn:Es; [intros H; destruct (IH H); auto|]. intros [<-|H]; [split; [left; reflexivity|eauto]|destruct (IH H); auto].
  Qed.
  Lemma first_waiting_In qs il c : In c (first_waiting qs il) -> In c (concat qs) /\ exists x, find_ind c il = Some x /\ i_server x = None.
  Proof.
    induction qs as [|q r IH]; cbn [first_waiting concat]; [intros []|]. destruct (waiting_of q il) as [|w0 wr] eqn:Ew.
    - intros H. destruct (IH H) as [H1 H2]. split; [apply in_or_app; right; exact H1|exact H2].
    - intros H. rewrite <- Ew in H. destruct (waiting_of_In _ _ _ H) as [H1 H2]. split; [apply in_or_app; left; exact H1|exact H2].
  Qed.
  Lemma cnc_inv j s c s' : choose_next_customer cf j s = Ok (Some c, s') ->
    nodes s' = nodes s /\ inds s' = inds s /\
    exists nd x, 1 <= j /\ nthZ (nodes s) (j - 1) = Some nd /\ In c (all_individuals nd) /\ find_ind c (inds s) = Some x /\ i_server x = None.
  Proof.
    unfold choose_next_customer. intros H. minv H nd s1 E. apply Renege2.get_node_inv in E as (-> & Hj & Hn).
    minv H il s1 E. apply Renege2.gets_inv in E as [-> ->].
    destruct (first_waiting (n_queues nd) (inds s)) as [|w0 wr] eqn:Ew; [apply Renege2.ret_inv in H as [H _]; discriminate H|].
    assert (Hfin : forall c0, In c0 (w0 :: wr) -> exists nd x, 1 <= j /\ nthZ (nodes s) (j - 1) = Some nd /\ In c0 (all_individuals nd) /\ find_ind c0 (inds s) = Some x /\ i_server x = None).
    { intros c0 Hc. rewrite <- Ew in Hc. destruct (first_waiting_In _ _ _ Hc) as [H1 (x & H2 & H3)]. exists nd, x. auto. }
    minv H nc s1 E. apply Renege2.ncfg_of_inv in E as [-> _].
    destruct (nc_disc nc =? 0); [apply Renege2.ret_inv in H as [H ->]; injection H as <-; split; [reflexivity|split; [reflexivity|apply Hfin; left; reflexivity]]|].
    destruct (nc_disc nc =? 1); [apply Renege2.ret_inv in H as [H ->]; injection H as ->; split; [reflexivity|split; [reflexivity|apply Hfin; apply Clock2r.last_In]]|].
    minv H x0 s1 E. apply Renege2.choice_uniform_inv in E as (Hin & u & rest & _ & ->). apply Renege2.ret_inv in H as [H ->]. injection H as ->.
    split; [reflexivity|split; [reflexivity|apply Hfin; exact Hin]].
  Qed.
  (* a waiting customer chosen at node j: its ghost entry *)
  Lemma waiting_ghost G X T s j nd c x : LKI G X T s -> 1 <= j -> nthZ (nodes s) (j - 1) = Some nd -> In c (all_individuals nd) -> find_ind c (inds s) = Some x ->
    i_server x = None -> (exists sd, G c = Some (None, Some j, sd)) /\ T <> Some (c, true).
  Proof.
    intros (H1 & H2 & H3 & H4 & H5 & H6 & H7) Hj Hn Hq Hx Hs. assert (Hnd : In nd (nodes s)) by (eapply Renege2.nthZ_In; exact Hn).
    assert (Hidn : n_id nd = j) by (eapply Renege2.Idx_get; eauto). destruct (H5 nd Hnd) as (_ & _ & _ & _ & HL & _ & HT).
    destruct (HL c Hq) as (a & sd & Q & _). pose proof (H1 c) as K. rewrite Hx, Q in K. cbn in K. injection K as K1 K2 K3. split.
    - exists sd. rewrite Q, <- K1, Hs, Hidn. reflexivity.
    - intros Q'. exact (HT c true Q' Hq).
  Qed.

  Lemma lk_serve_with T j sid : inf_at j = false -> sp (LKX None T) (LKX None T) (serve_with cf j sid) top.
  Proof.
    intros Hinf s a s' (G & HI) H. destruct a. split; [|exact Logic.I]. unfold serve_with in H.
    minv H nd s1 E. destruct (lk_get_node G None T j _ _ _ HI E) as [_ [Hnd _]]. apply Renege2.get_node_inv in E as (-> & Hj & Hn).
    destruct Hnd as ((_ & Hni & _) & _). assert (E0 : (0 <? n_nint nd) = false) by (apply Z.ltb_ge; lia). rewrite E0 in H.
    minv H cand s1 E. destruct (lk_choose_next_customer G None T j _ _ _ HI E) as [HI1 _].
    destruct cand as [c|]; [|apply Renege2.ret_inv in H as [_ ->]; exists G; exact HI1].
    apply cnc_inv in E as (E1 & E2 & nd' & x & _ & Hn' & Hq & Hx & Hs). rewrite <- E1 in Hn'. rewrite <- E2 in Hx.
    destruct (waiting_ghost G None T s1 j nd' c x HI1 Hj Hn' Hq Hx Hs) as [(sd & Hg) HT].
    exact (proj1 (lk_start_give G T j c sid sd Hg HT Hinf _ _ _ HI1 H)).
  Qed.
  Lemma lk_bsipr T j freed : (freed <> None -> inf_at j = false) -> sp (LKX None T) (LKX None T) (begin_service_if_possible_release cf j freed) top.
  Proof.
    intros Hinf. unfold begin_service_if_possible_release. destruct freed as [sid|]; [|apply Renege2.sp_ret; exact Logic.I].
    intros s a s' (G & HI) H. minv H nd s1 E. destruct (lk_get_node G None T j _ _ _ HI E) as [HI1 _].
    destruct (find_server sid (n_servers nd)); [exact (lk_serve_with T j sid (Hinf ltac:(discriminate)) _ _ _ (ex_intro _ G HI1) H)|].
    apply Renege2.ret_inv in H as [-> ->]. split; [exists G; exact HI1|exact Logic.I].
  Qed.

  (* ---------- the recursive core ---------- *)
  Lemma okr_of G X T s i x : LKI G X T s -> find_ind i (inds s) = Some x -> okr G x.
  Proof. intros (H1 & _) Hx. unfold okr. rewrite (Renege2.find_ind_id _ _ _ Hx), <- H1, Hx. reflexivity. Qed.
  Lemma nc_scope j nc : nthZ (cf_nodes cf) (j - 1) = Some nc ->
    ((forall sc, nc_srv nc = SSched sc -> sc_pre sc = 0) /\ (forall sl, nc_srv nc = SSlot sl -> (sl_cap sl && negb (sl_pre sl =? 0)) = false)) /\
    nc_reneging nc = false /\ (nc_preempt nc =? 4) = false /\ nc_cap nc = None.
  Proof.
    intros H. pose proof (scope_s_at _ _ H) as Ht. unfold scope_s_nc in Ht. apply andb_true_iff in Ht as [Ht H4]. apply andb_true_iff in Ht as [Ht H3]. apply andb_true_iff in Ht as [H1 H2].
    apply negb_true_iff in H2, H3. destruct (nc_cap nc); [discriminate|]. split; [|auto]. split.
    - intros sc Q. rewrite Q in H1. apply Z.eqb_eq. exact H1.
    - intros sl Q. rewrite Q in H1. apply negb_true_iff in H1. exact H1.
  Qed.
  Lemma slot_at_of j nc : nthZ (cf_nodes cf) (j - 1) = Some nc -> slot_at j = nc_slotted nc.
  Proof. intros H. unfold slot_at. rewrite H. reflexivity. Qed.
  Lemma slotted_fin j nc : nthZ (cf_nodes cf) (j - 1) = Some nc -> nc_slotted nc = true -> inf_at j = false.
  Proof. intros H Q. apply (Hschf j nc H). unfold nc_slotted in Q. unfold nc_sched. destruct (nc_srv nc); [discriminate|reflexivity|reflexivity]. Qed.
  Lemma lk_exit_accept k c : sp (LKX None (Some (k, true))) (LKX None None) (exit_accept k c) top.
  Proof.
    intros s a s' (G & HI) H. unfold exit_accept, del_ind, bind, modify in H. injection H as _ <-. split; [|exact Logic.I].
    exists (upg G k None). pose proof HI as (_ & _ & _ & _ & _ & _ & H7). destruct (H7 k eq_refl) as (b & sd & Hg).
    apply (LKI_exit G s k true _ HI); [eapply NoHold_G; eauto|reflexivity|reflexivity|cbn; lia].
  Qed.

  (* release at a slotted node: the customer stops recording the pseudo-server -1; nobody holds it (a slotted node has no servers) *)
  Lemma lk_unserve_slot G T i a j sd : slot_at j = true -> G i = Some (a, Some j, sd) ->
    sp (LKI G None T) (LKI (upg G i (Some (None, Some j, sd))) None T) (upd_ind i (fun y => y <| i_server := None |>)) top.
  Proof.
    intros Hs Hg s u s' HI H. split; [|exact Logic.I]. apply Renege2.upd_ind_inv in H as (x & Hx & ->).
    pose proof HI as (H1 & H2 & H3 & H4 & H5 & H6 & H7).
    assert (Hgx : G i = Some (key x)) by (rewrite <- H1, Hx; reflexivity). rewrite Hg in Hgx. injection Hgx as K1 K2 K3.
    set (x' := x <| i_server := None |>).
    assert (Hk' : key x' = (None, Some j, sd)) by (unfold key, x'; cbn; rewrite <- K2, <- K3; reflexivity).
    rewrite <- Hk'. apply (LKI_rec G None T s i x x' HI Hx (Renege2.find_ind_id _ _ _ Hx)); [left; split; [|left; reflexivity]|intros j0 s0 Q; discriminate Q|intros _; reflexivity|right; left; reflexivity].
    intros nd0 sv0 Hnd0 Hsv0 Hc0. destruct (H5 nd0 Hnd0) as ((_ & _ & _ & _ & Hsl & _) & _ & HH0 & _). destruct (HH0 sv0 i Hsv0 Hc0) as (sd0 & Q & _). rewrite Hg in Q. injection Q as _ Q2 _.
    rewrite <- Q2 in Hsl. rewrite (Hsl Hs) in Hsv0. exact Hsv0.
  Qed.
  Definition RP (j i : Z) (s : sim) : Prop :=
    exists G X, LKI G X None s /\ (X = None \/ exists c2 sid0 b sd, X = Some (c2, j, sid0) /\ G i = Some (Some sid0, b, sd) /\ slot_at j = false).
  Lemma lk_release_body acc rbi j i d :
    (forall d' k, sp (LKX None (Some (k, true))) (LKX None None) (acc d' k) top) -> (forall j', sp (LKX None None) (LKX None None) (rbi j') top) ->
    sp (RP j i) (LKX None None) (Renege2.release_body cf acc rbi j i d false) top.
  Proof.
    intros Hacc Hrbi s a s' (G & X & HI & HX) H. unfold Renege2.release_body in H.
    minv H t0 s0 E. apply Renege2.tnow_inv in E as [-> ->].
    minv H x s0 E. apply Renege2.get_ind_inv in E as [-> Hx].
    minv H nd s0 E. apply Renege2.get_node_inv in E as (-> & Hj & Hn).
    minv H nc s0 E. apply Renege2.ncfg_of_inv in E as [-> Hc].
    minv H q s0 E. apply Renege2.lift_inv in E as [Hq ->]. minv H q' s0 E. apply Renege2.lift_inv in E as [Hq' ->].
    cbv zeta in H. minv H u s1 E. match type of E with put_node ?n _ = _ => set (nd1 := n) in * end.
    unfold put_node in E. apply Renege2.modify_inv in E. subst s1.
    pose proof HI as (H1 & H2 & H3 & H4 & H5 & H6 & H7).
    assert (Hnd : In nd (nodes s)) by (eapply Renege2.nthZ_In; exact Hn). assert (Hidn : n_id nd = j) by (eapply Renege2.Idx_get; eauto).
    assert (Hq_in : In i (all_individuals nd)).
    { apply Renege2.nthZ_In in Hq. unfold all_individuals. apply in_concat. exists q. split; [exact Hq|]. eapply Permutation_in; [symmetry; apply (Renege2.remove_first_perm _ _ _ Hq')|left; reflexivity]. }
    destruct (H5 nd Hnd) as ((Minf & _) & _ & _ & _ & HL & _). destruct (HL i Hq_in) as (a0 & sd0 & Hgi & Hgin). rewrite Hidn in Hgi, Hgin, Minf.
    pose proof (okr_of _ _ _ _ _ _ HI Hx) as Hox. pose proof (Renege2.find_ind_id _ _ _ Hx) as Hid.
    assert (HI1 := LKI_remove G X s nd nd1 (i_pprio x) q q' i HI Hnd Hq Hq' eq_refl eq_refl eq_refl eq_refl eq_refl eq_refl eq_refl eq_refl).
    cbv iota in H. rewrite Minf in H. destruct (nc_slotted nc) eqn:Hsl.
    { (* a slotted node: nothing to detach, the customer stops recording the pseudo-server *)
      replace (negb (inf_at j) && negb true) with false in H by (destruct (inf_at j); reflexivity). cbv iota in H.
      assert (HXn : X = None) by (destruct HX as [HX|(c2 & sid0 & b & sd & HX & Hg2 & Hns)]; [exact HX|rewrite (slot_at_of _ _ Hc), Hsl in Hns; discriminate Hns]). subst X.
      match type of H with ?m _ = _ => assert (RR : sp (LKI G None (Some (i, false))) (LKX None None) m top) end.
      { spb ltac:(apply lk_put_ind; lk_ok). intros _ _. spb ltac:(apply lk_write_individual_record). intros _ _.
        eapply Renege2.sp_bind with (phi := fun f => f = None); [apply Renege2.sp_ret; reflexivity|]. intros freed ->.
        set (G1 := upg G i (Some (None, Some j, sd0))).
        eapply Renege2.sp_bind with (phi := top) (J := LKI G1 None (Some (i, false))); [apply (lk_unserve_slot G _ i a0 j sd0); [rewrite (slot_at_of _ _ Hc); exact Hsl|exact Hgi]|]. intros _ _.
        eapply Renege2.sp_pre with (I := LKI G1 None (Some (i, true))); [|intros s2 H2'; apply LKI_flag; [exact H2'|unfold G1; rewrite upg_same; eauto]].
        spb ltac:(unfold reset_individual_attributes; apply (lk_upd_free G1 None _ i _ (Some j) sd0 None); [unfold G1; apply upg_same|intros y; repeat split; reflexivity]). intros _ _.
        eapply Renege2.sp_bind with (phi := top) (J := LKX None (Some (i, true))).
        { intros s2 a2 s2' H2' E2. assert (HX2 : LKX None (Some (i, true)) s2) by (eexists; exact H2'). exact (lk_bsipr _ j None ltac:(intros Q; contradiction) _ _ _ HX2 E2). }
        intros _ _. eapply Renege2.sp_bind with (phi := top) (J := LKX None None); [destruct (d =? -1); [apply lk_exit_accept|apply Hacc]|]. intros _ _. apply Hrbi. }
      destruct a. exact (RR _ _ _ HI1 H). }
    destruct (inf_at j) eqn:Einf; cbn [negb andb] in H; cbv iota in H.
    { (* a node with infinitely many servers: nothing to detach, the customer records no server *)
      assert (a0 = None) by (apply Hgin; reflexivity). subst a0.
      assert (HXn : X = None) by (destruct HX as [HX|(c2 & sid0 & b & sd & HX & Hg2 & _)]; [exact HX|rewrite Hgi in Hg2; discriminate Hg2]). subst X.
      match type of H with ?m _ = _ => assert (RR : sp (LKI G None (Some (i, false))) (LKX None None) m top) end.
      { spb ltac:(apply lk_put_ind; lk_ok). intros _ _. spb ltac:(apply lk_write_individual_record). intros _ _.
        eapply Renege2.sp_bind with (phi := fun f => f = None); [apply Renege2.sp_ret; reflexivity|]. intros freed ->.
        eapply Renege2.sp_pre with (I := LKI G None (Some (i, true))); [|intros s2 H2'; apply LKI_flag; [exact H2'|rewrite Hgi; eauto]].
        eapply Renege2.sp_bind with (phi := top); [apply Renege2.sp_ret; exact Logic.I|]. intros _ _.
        spb ltac:(unfold reset_individual_attributes; apply (lk_upd_free G None _ i _ (Some j) sd0 None); [exact Hgi|intros y; repeat split; reflexivity]). intros _ _.
        eapply Renege2.sp_bind with (phi := top) (J := LKX None (Some (i, true))).
        { intros s2 a2 s2' H2' E2. assert (HX2 : LKX None (Some (i, true)) s2) by (eexists; exact H2'). exact (lk_bsipr _ j None ltac:(intros Q; contradiction) _ _ _ HX2 E2). }
        intros _ _. eapply Renege2.sp_bind with (phi := top) (J := LKX None None); [destruct (d =? -1); [apply lk_exit_accept|apply Hacc]|]. intros _ _. apply Hrbi. }
      destruct a. exact (RR _ _ _ HI1 H). }
    match type of H with ?m _ = _ => assert (RR : sp (LKI G X (Some (i, false))) (LKX None None) m top) end.
    { spb ltac:(apply lk_put_ind; lk_ok). intros _ _. spb ltac:(apply lk_write_individual_record). intros _ _.
      eapply Renege2.sp_bind with (phi := top) (J := LKI (upg G i (Some (None, Some j, sd0))) None (Some (i, false))).
      { spb ltac:(apply lk_get_ind). intros x1 [Hi1 Ho1]. spb ltac:(apply Renege2.sp_lift). intros sid Hs1. cbv beta in Hs1.
        unfold okr in Ho1. rewrite Hi1, Hgi in Ho1. injection Ho1 as K1 K2 K3. rewrite Hs1 in K1.
        eapply Renege2.sp_bind with (phi := top); [apply (lk_detach G X _ j sid i sd0)|intros _ _; apply Renege2.sp_ret; exact Logic.I].
        - rewrite Hgi, K1. reflexivity.
        - destruct HX as [HX|(c2 & sid0 & b & sd & HX & Hg2 & _)]; [left; exact HX|right]. exists c2. rewrite Hgi, K1 in Hg2. injection Hg2 as <- _ _. exact HX. }
      intros freed _. set (G1 := upg G i (Some (None, Some j, sd0))).
      eapply Renege2.sp_pre with (I := LKI G1 None (Some (i, true))); [|intros s2 H2'; apply LKI_flag; [exact H2'|unfold G1; rewrite upg_same; eauto]].
      eapply Renege2.sp_bind with (phi := top); [apply Renege2.sp_ret; exact Logic.I|]. intros _ _.
      spb ltac:(unfold reset_individual_attributes; apply (lk_upd_free G1 None _ i _ (Some j) sd0 None); [unfold G1; apply upg_same|intros y; repeat split; reflexivity]). intros _ _.
      eapply Renege2.sp_bind with (phi := top) (J := LKX None (Some (i, true))).
      { intros s2 a2 s2' H2' E2. assert (HX2 : LKX None (Some (i, true)) s2) by (eexists; exact H2'). exact (lk_bsipr _ j freed (fun _ => Einf) _ _ _ HX2 E2). }
      intros _ _. eapply Renege2.sp_bind with (phi := top) (J := LKX None None); [destruct (d =? -1); [apply lk_exit_accept|apply Hacc]|]. intros _ _. apply Hrbi. }
    destruct a. exact (RR _ _ _ HI1 H).
  Qed.
  Lemma lk_rbi_body rel j : sp (LKX None None) (LKX None None) (Renege2.rbi_body cf rel j) top.
  Proof.
    intros s a s' (G & HI) H. unfold Renege2.rbi_body in H. minv H nd s1 E. destruct (lk_get_node G None None j _ _ _ HI E) as [HI1 [Hnd _]].
    minv H nc s2 E2. apply Renege2.ncfg_of_inv in E2 as [-> _]. destruct Hnd as ((_ & _ & Hb & _) & _).
    assert (E0 : (0 <? n_lenbq nd) = false) by (apply Z.ltb_ge; lia). rewrite E0 in H. cbn [andb] in H. apply Renege2.ret_inv in H as [-> ->]. split; [exists G; exact HI1|exact Logic.I].
  Qed.

  Definition PVpre (j v c : Z) (s : sim) : Prop :=
    exists G, LKI G None None s /\ (exists nd sv, 1 <= j /\ nthZ (nodes s) (j - 1) = Some nd /\ In sv (n_servers nd) /\ sv_cust sv = Some v) /\
              (exists sd, G c = Some (None, Some j, sd)) /\ inf_at j = false.
  Lemma lk_preempt_body rel j v c : sp (PVpre j v c) (LKX None None) (Renege2.preempt_body cf rel j v c) top.
  Proof.
    intros s a s' (G & HI & (nd & sv & Hj & Hn & Hsv & Hcu) & (sdc & Hgc) & Hinfj) H.
    pose proof HI as (H1 & H2 & H3 & H4 & H5 & H6 & H7).
    assert (Hnd : In nd (nodes s)) by (eapply Renege2.nthZ_In; exact Hn). assert (Hidn : n_id nd = j) by (eapply Renege2.Idx_get; eauto).
    destruct (H5 nd Hnd) as (_ & N1 & HH & _). destruct (HH sv v Hsv Hcu) as (sdv & Hgv & _). rewrite Hidn in Hgv. set (sidv := sv_id sv) in *.
    assert (HIx : LKI G (Some (v, j, sidv)) None s).
    { apply (LKI_openX G None s v j sidv sdv HI Hgv). intros nd0 sv0 Hnd0 Hid0 Hsv0 Hs0. assert (nd0 = nd) by (apply (Idx_inj s); auto; congruence). subst nd0.
      assert (sv0 = sv) by (apply (NoDup_map_inj sv_id (n_servers nd)); auto). subst sv0. exact Hcu. }
    assert (Hcv : c <> v) by (intros ->; rewrite Hgc in Hgv; discriminate Hgv).
    assert (RR : sp (LKI G (Some (v, j, sidv)) None) (LKX None None) (Renege2.preempt_body cf rel j v c) top).
    { unfold Renege2.preempt_body. spb ltac:(apply Renege2.sp_gets). intros t0 _. spb ltac:(apply lk_get_ind). intros vx [Hi Ho].
      spb ltac:(apply Renege2.sp_lift). intros nc Hc. cbv beta in Hc. destruct (nc_scope _ _ Hc) as (_ & _ & Hp4 & _). rewrite Hp4.
      pose proof Ho as Ho'. unfold okr in Ho'. rewrite Hi, Hgv in Ho'. injection Ho' as K1 K2 K3.
      spb ltac:(apply lk_put_ind; lk_ok). intros _ _.
      eapply Renege2.sp_bind with (phi := top) (J := LKI (upg (upg G v (Some (Some sidv, Some j, None))) v (Some (None, Some j, None))) None None).
      { spb ltac:(apply lk_write_interruption_record). intros _ _.
        spb ltac:(apply (lk_upd_send G _ None v _ (Some sidv) (Some j) sdv None); [exact Hgv|exists j, sidv; reflexivity|intros y; repeat split; reflexivity]). intros _ _.
        spb ltac:(apply Renege2.sp_lift). intros sid Hs. cbv beta in Hs. rewrite <- K1 in Hs. injection Hs as <-.
        spb ltac:(apply (lk_detach (upg G v (Some (Some sidv, Some j, None))) (Some (v, j, sidv)) None j sidv v None); [apply upg_same|right; exists v; reflexivity]). intros _ _.
        apply lk_decide_class_change. }
      intros _ _. spb ltac:(apply Renege2.sp_lift). intros sid _.
      apply (lk_start_preemptor _ None j c sid sdc); [rewrite upg_other by exact Hcv; rewrite upg_other by exact Hcv; exact Hgc|discriminate|exact Hinfj]. }
    exact (RR _ _ _ HIx H).
  Qed.

  Lemma acc_key x j p t0 rd : key (Renege2.accepted_ind x j p t0 rd) = (i_server x, Some j, i_send x) /\ i_id (Renege2.accepted_ind x j p t0 rd) = i_id x.
  Proof. destruct x; split; reflexivity. Qed.
  Definition AR (j k : Z) (s : sim) : Prop := exists G, LKI G None None s /\ exists sd, G k = Some (None, Some j, sd).
  Lemma lk_accept_rest pre j k nc : (forall j0 v c, sp (PVpre j0 v c) (LKX None None) (pre j0 v c) top) ->
    sp (AR j k) (LKX None None) (Renege2.accept_rest cf pre j k nc) top.
  Proof.
    intros Hpr s a s' (G & HI & (sdk & Hgk)) H. destruct a. split; [|exact Logic.I]. unfold Renege2.accept_rest in H.
    minv H u0 s0 E. destruct (lk_decide_class_change G None None j k _ _ _ HI E) as [HI0 _]. clear E HI.
    minv H nd1 s1 E. destruct (lk_get_node G None None j _ _ _ HI0 E) as [_ [Hnd1 Hidn1]]. apply Renege2.get_node_inv in E as (-> & Hj & Hn). cbv zeta in H.
    destruct Hnd1 as ((Minf & _) & _). rewrite Minf, Hidn1 in H. destruct (inf_at j) eqn:Einf.
    { minv H cand s1 E. apply Renege2.ret_inv in E as [-> ->]. exact (proj1 (lk_start_fresh_none G None j k (Some j) sdk true Hgk _ _ _ HI0 H)). }
    minv H cand s1 E. destruct (lk_choose_next_customer G None None j _ _ _ HI0 E) as [HI1 _].
    destruct cand as [c|]; [|apply Renege2.ret_inv in H as [_ ->]; exists G; exact HI1].
    apply cnc_inv in E as (E1 & E2 & nd' & x & _ & Hn' & Hq & Hx & Hs). rewrite <- E1 in Hn'. rewrite <- E2 in Hx.
    destruct (waiting_ghost G None None s1 j nd' c x HI1 Hj Hn' Hq Hx Hs) as [(sd & Hg) HT].
    minv H cx s2 E. apply Renege2.get_ind_inv in E as [-> _].
    destruct (find_free_server_for (nc_spf nc) (i_cls cx) (n_servers nd1)) as [sv|].
    - exact (proj1 (lk_start_fresh G None j c (sv_id sv) sd true Hg HT Einf _ _ _ HI1 H)).
    - destruct (0 <? numo (n_c nd1)); [|apply Renege2.ret_inv in H as [_ ->]; exists G; exact HI1].
      minv H v s2 E. apply Preempt2.preempt_victim_spec in E as (-> & nc0 & Hc0 & Hz & Hnz).
      destruct v as [vi|]; [|apply Renege2.ret_inv in H as [_ ->]; exists G; exact HI1].
      assert (Hne : nc_preempt nc0 <> 0) by (intros Q; specialize (Hz Q); discriminate Hz).
      destruct (Hnz Hne) as (nd & x0 & Hnd & _ & _ & _ & (spre & sv & spost & vx & Hsp & Hcu & _)).
      unfold Preempt2.node_at in Hnd. destruct (j <? 1) eqn:Ej; [discriminate|].
      refine (proj1 (Hpr j vi c _ _ _ _ H)). exists G. split; [exact HI1|]. split; [|split; [exists sd; exact Hg|exact Einf]].
      exists nd, sv. split; [exact Hj|]. split; [exact Hnd|]. split; [rewrite Hsp; apply in_or_app; right; left; reflexivity|exact Hcu].
  Qed.
  Lemma lk_accept_body pre j k : (forall j0 v c, sp (PVpre j0 v c) (LKX None None) (pre j0 v c) top) ->
    sp (LKX None (Some (k, true))) (LKX None None) (Renege2.accept_body cf pre j k) top.
  Proof.
    intros Hpr s a s' (G & HI) H. destruct a.
    apply Renege2.accept_stamps in H as (x & nd & q & nc & rd & rest & Hx & Hj & Hn & Hq & Hc & Hst & H).
    pose proof HI as (H1 & H2 & H3 & H4 & H5 & H6 & H7). destruct (H7 k eq_refl) as (b & sd & Hgk).
    assert (Hnd : In nd (nodes s)) by (eapply Renege2.nthZ_In; exact Hn). assert (Hidn : n_id nd = j) by (eapply Renege2.Idx_get; eauto).
    pose proof (Renege2.find_ind_id _ _ _ Hx) as Hid. pose proof (okr_of _ _ _ _ _ _ HI Hx) as Hox. unfold okr in Hox. rewrite Hid, Hgk in Hox. injection Hox as K1 K2 K3.
    set (x' := Renege2.accepted_ind x j (n_pop nd) (now s) rd) in *. destruct (acc_key x j (n_pop nd) (now s) rd) as [Ek Eid]. fold x' in Ek, Eid.
    assert (HI1 : LKI (upg G k (Some (key x'))) None (Some (k, true)) (s <| inds := put_ind_l x' (inds s) |>)).
    { apply (LKI_rec G None _ s k x x' HI Hx); [rewrite Eid; exact Hid|left; split; [eapply NoHold_G; eauto|right; exists true; reflexivity]|intros j0 s0 Q; discriminate Q| |left; reflexivity].
      intros _. transitivity (i_server x); [reflexivity|symmetry; exact K1]. }
    set (nd1 := nd <| n_queues := updZ (n_queues nd) (i_prio x) (q ++ [i_id x]) |> <| n_pop := n_pop nd + 1 |>) in *.
    assert (HI2 : LKI (upg G k (Some (key x'))) None None ((s <| inds := put_ind_l x' (inds s) |>) <| nodes := updZ (nodes s) (n_id nd1 - 1) nd1 |>)).
    { apply (LKI_insert _ None (s <| inds := put_ind_l x' (inds s) |>) nd nd1 (i_prio x) q k true (i_server x) (i_send x) HI1 Hnd); try reflexivity.
      - rewrite upg_same, Ek, Hidn. reflexivity.
      - intros _. symmetry. exact K1.
      - exact Hq.
      - unfold nd1. cbn. rewrite Hid. reflexivity. }
    refine (lk_accept_rest pre j k nc Hpr _ _ _ _ H). exists (upg G k (Some (key x'))).
    split; [eapply LKI_same; [exact HI2|reflexivity|reflexivity|cbn; lia]|]. exists (i_send x). rewrite upg_same, Ek, <- K1. reflexivity.
  Qed.

  Lemma lk_core : forall f,
    (forall j i d, sp (RP j i) (LKX None None) (release cf f j i d false) top) /\
    (forall j, sp (LKX None None) (LKX None None) (release_blocked_individual cf f j) top) /\
    (forall j k, sp (LKX None (Some (k, true))) (LKX None None) (accept cf f j k) top) /\
    (forall j v c, sp (PVpre j v c) (LKX None None) (preempt cf f j v c) top).
  Proof.
    induction f as [|f (IH1 & IH2 & IH3 & IH4)]; [split; [|split; [|split]]; intros; intros s0 a0 s0' _ Hx; cbn in Hx; discriminate Hx|].
    split; [|split; [|split]]; intros.
    - rewrite Renege2.release_S. apply lk_release_body; assumption.
    - rewrite Renege2.rbi_S. apply lk_rbi_body.
    - rewrite Renege2.accept_S. apply lk_accept_body. exact IH4.
    - rewrite Renege2.preempt_S. apply lk_preempt_body.
  Qed.

  (* ---------- the events ---------- *)
  Lemma lk_has_space_true G X T d : sp (LKI G X T) (LKI G X T) (has_space cf d) (fun b => b = true).
  Proof.
    unfold has_space. destruct (d =? -1); [apply Renege2.sp_ret; reflexivity|]. spb ltac:(apply lk_get_node). intros dn _.
    spb ltac:(apply Renege2.sp_lift). intros dc Hc. cbv beta in Hc. destruct (nc_scope _ _ Hc) as (_ & _ & _ & Hcap). rewrite Hcap. apply Renege2.sp_ret. reflexivity.
  Qed.
  Lemma lk_release f j i d : sp (RP j i) (LKX None None) (release cf f j i d false) top.
  Proof. apply lk_core. Qed.
  Lemma lk_accept f j k : sp (LKX None (Some (k, true))) (LKX None None) (accept cf f j k) top.
  Proof. apply lk_core. Qed.

  Lemma lk_finish_service j : sp (LKX None None) (LKX None None) (finish_service cf j) top.
  Proof.
    intros s a s' (G & HI) H.
    assert (RR : sp (LKI G None None) (LKX None None) (finish_service cf j) top).
    { unfold finish_service. spb ltac:(apply lk_get_node). intros nd [Hnd Hj]. destruct Hnd as ((Minf & _) & _).
      spb ltac:(apply lk_decide_between). intros i _. spb ltac:(apply lk_change_customer_class). intros _ _.
      spb ltac:(apply lk_next_node_for). intros d _. spb ltac:(apply lk_upd_ind; intros; lk_ok). intros _ _.
      spb ltac:(apply Renege2.sp_lift). intros nc Hc. cbv beta in Hc. rewrite Minf.
      eapply Renege2.sp_bind with (phi := top) (J := RP j i).
      { destruct (negb (inf_at (n_id nd)) && negb (nc_slotted nc)) eqn:Esrv; [|eapply Renege2.sp_post; [apply Renege2.sp_ret; exact Logic.I|]; intros s2 HI2; exists G, None; split; [exact HI2|left; reflexivity]].
        apply andb_true_iff in Esrv as [_ Esl]. apply negb_true_iff in Esl.
        spb ltac:(apply lk_get_ind). intros x [Hi Ho]. spb ltac:(apply Renege2.sp_lift). intros sid Hs. cbv beta in Hs.
        eapply Renege2.sp_post; [apply lk_sne_open|]. intros s2 (X' & HI2 & HX'). exists G, X'. split; [exact HI2|].
        destruct HX' as [->|(c2 & ->)]; [left; reflexivity|right]. exists c2, sid, (i_node x), (i_send x). split; [reflexivity|].
        split; [|rewrite (slot_at_of _ _ Hc); exact Esl].
        unfold okr in Ho. rewrite Hi in Ho. rewrite Ho. unfold key. rewrite Hs. reflexivity. }
      intros _ _. eapply Renege2.sp_bind with (phi := fun b => b = true) (J := RP j i).
      { intros s2 b s2' (G2 & X2 & HI2 & HX2) E2. destruct (lk_has_space_true G2 X2 None d _ _ _ HI2 E2) as [HI3 Hb]. split; [exists G2, X2; auto|exact Hb]. }
      intros space ->. eapply Renege2.sp_bind with (phi := top) (J := RP j i); [intros s2 fl s2' HR E2; apply Renege2.gets_inv in E2 as [_ ->]; split; [exact HR|exact Logic.I]|].
      intros fl _. apply lk_release. }
    exact (RR _ _ _ HI H).
  Qed.

  Lemma sp_openX {A} X T (J : sim -> Prop) (m : M A) phi : (forall G, sp (LKI G X T) J m phi) -> sp (LKX X T) J m phi.
  Proof. intros Hm s a s' (G & HI) H. exact (Hm G _ _ _ HI H). Qed.
  Lemma sp_X {A} X T (m : M A) phi : (forall G, sp (LKI G X T) (LKI G X T) m phi) -> sp (LKX X T) (LKX X T) m phi.
  Proof. intros Hm. apply sp_openX. intros G. eapply sp_toLKX. apply Hm. Qed.

  Lemma lk_send_individual j k : sp (LKX None (Some (k, true))) (LKX None None) (send_individual cf j k) top.
  Proof.
    unfold send_individual. eapply Renege2.sp_bind with (phi := top); [apply sp_X; intros G; apply lk_modify; intros s; cbn; repeat split; lia|]. intros _ _.
    eapply Renege2.sp_bind with (phi := top); [apply sp_X; intros G; apply Renege2.sp_gets|]. intros fl _. apply lk_accept.
  Qed.
  Lemma lk_turn_away j k ty : sp (LKX None (Some (k, true))) (LKX None None) (write_br_record j k ty ;;; exit_accept k false) top.
  Proof. eapply Renege2.sp_bind with (phi := top); [apply sp_X; intros G; apply lk_write_br_record|]. intros _ _. apply lk_exit_accept. Qed.
  Lemma lk_release_individual j k : sp (LKX None (Some (k, true))) (LKX None None) (release_individual cf j k) top.
  Proof.
    unfold release_individual. eapply Renege2.sp_bind with (phi := top); [apply sp_X; intros G; eapply Renege2.sp_top; apply lk_get_ind|]. intros x _.
    eapply Renege2.sp_bind with (phi := top); [apply sp_X; intros G; eapply Renege2.sp_top; apply lk_get_node|]. intros nd _.
    eapply Renege2.sp_bind with (phi := top); [apply sp_X; intros G; eapply Renege2.sp_top; apply Renege2.sp_lift|]. intros nc _.
    eapply Renege2.sp_bind with (phi := top); [apply sp_X; intros G; apply lk_sys_population|]. intros spop _. cbv zeta.
    match goal with |- Renege2.sp _ _ (if ?b then _ else _) _ => destruct b end; [apply lk_turn_away|].
    eapply Renege2.sp_bind with (phi := top); [apply sp_X; intros G; eapply Renege2.sp_top; apply Renege2.sp_lift|]. intros tabs _.
    eapply Renege2.sp_bind with (phi := top); [apply sp_X; intros G; eapply Renege2.sp_top; apply Renege2.sp_lift|]. intros tab _.
    destruct tab as [tb|]; [|apply lk_send_individual].
    eapply Renege2.sp_bind with (phi := top); [apply sp_X; intros G; apply lk_draw_unif|]. intros u _. cbv zeta.
    match goal with |- Renege2.sp _ _ (if ?b then _ else _) _ => destruct b end; [apply lk_turn_away|apply lk_send_individual].
  Qed.
  Lemma lk_batch_loop : forall n j c p, sp (LKX None None) (LKX None None) (batch_loop cf n j c p) top.
  Proof.
    induction n as [|n IH]; intros j c p; cbn [batch_loop]; [apply Renege2.sp_ret; exact Logic.I|].
    intros s a s' (G & HI) H.
    minv H u1 s1 E. apply Renege2.modify_inv in E. subst s1.
    minv H i s1 E. apply Renege2.gets_inv in E as [-> ->]. cbn [arr set a_created] in H.
    minv H u2 s1 E. assert (s1 = s <| arr := arr s <| a_created := a_created (arr s) + 1 |> |>) by (destruct (1 <=? j); [apply Renege2.ret_inv in E as [_ ->]; reflexivity|discriminate E]). subst s1. clear E.
    minv H nd0 s1 E. apply Renege2.get_node_inv in E as (-> & _ & _).
    set (s1 := s <| arr := arr s <| a_created := a_created (arr s) + 1 |> |>) in *.
    assert (HI1 : LKI G None None s1) by (eapply LKI_same; [exact HI|reflexivity|reflexivity|cbn; lia]).
    minv H r s2 E. destruct (lk_route_of G None None _ _ _ _ _ HI1 E) as [HI2 _].
    assert (E2 : inds s2 = inds s1 /\ nodes s2 = nodes s1 /\ arr s2 = arr s1).
    { unfold route_of in E. minv E rt s3 E3. apply Renege2.lift_inv in E3 as [_ ->]. destruct rt as [rs|routes|routes al ch]; [apply Renege2.ret_inv in E as [_ ->]; auto| |];
        (destruct routes; [discriminate E|]; minv E r0 s4 E4; apply Renege2.lift_inv in E4 as [_ ->]; apply Renege2.ret_inv in E as [_ ->]; auto). }
    destruct E2 as (Ea & Eb & Ec).
    set (i := a_created (arr s) + 1) in *.
    assert (Hgi : G i = None).
    { destruct (G i) eqn:Eg; [|reflexivity]. exfalso. destruct HI as (_ & _ & K5 & _). assert (i <= a_created (arr s)) by (apply K5; rewrite Eg; discriminate). unfold i in *. lia. }
    minv H u3 s3 E5. unfold put_ind in E5. apply Renege2.modify_inv in E5. subst s3.
    assert (HI3 : LKI (upg G i (Some (key (new_ind i c p r)))) None (Some (i, true)) (s2 <| inds := put_ind_l (new_ind i c p r) (inds s2) |>)).
    { apply (LKI_create G None s2 i (new_ind i c p r) HI2 Hgi); [rewrite Ec; cbn; unfold i; lia|reflexivity|reflexivity]. }
    minv H u4 s4 E6. assert (HX3 : LKX None (Some (i, true)) (s2 <| inds := put_ind_l (new_ind i c p r) (inds s2) |>)) by (eexists; exact HI3).
    destruct (lk_release_individual j i _ _ _ HX3 E6) as [HX4 _].
    exact (IH j c p _ _ _ HX4 H).
  Qed.
  Lemma lk_find_next_event_date G X T : sp (LKI G X T) (LKI G X T) find_next_event_date top.
  Proof. unfold find_next_event_date. apply lk_modify. intros s. destruct (find_min_dates 1 (a_dates (arr s)) (None, 0, 0)) as [[d j] c]. cbn. repeat split; lia. Qed.
  Lemma lk_arrival_have_event : sp (LKX None None) (LKX None None) (arrival_have_event cf) top.
  Proof.
    unfold arrival_have_event. eapply Renege2.sp_bind with (phi := top); [apply sp_X; intros G; apply Renege2.sp_gets|]. intros a0 _. cbv zeta.
    eapply Renege2.sp_bind with (phi := top); [apply sp_X; intros G; apply lk_draw_batch|]. intros b _.
    eapply Renege2.sp_bind with (phi := top); [destruct (b <? 0); [apply Renege2.sp_fail|apply Renege2.sp_ret; exact Logic.I]|]. intros _ _.
    eapply Renege2.sp_bind with (phi := top); [apply sp_X; intros G; eapply Renege2.sp_top; apply Renege2.sp_lift|]. intros p _.
    eapply Renege2.sp_bind with (phi := top); [apply lk_batch_loop|]. intros _ _.
    apply sp_X. intros G. spb ltac:(apply lk_draw_arr). intros ia _. spb ltac:(apply Renege2.sp_gets). intros a' _.
    spb ltac:(apply Renege2.sp_lift). intros row _. spb ltac:(apply Renege2.sp_lift). intros old _.
    eapply Renege2.sp_bind with (phi := top); [apply lk_modify; intros s; cbn; repeat split; lia|]. intros _ _. apply lk_find_next_event_date.
  Qed.
  (* ---------- non-pre-emptive Schedules ---------- *)
  Lemma NOK_mapsrv G X T nd f : NOK G X T nd -> (forall sv, sv_id (f sv) = sv_id sv /\ sv_cust (f sv) = sv_cust sv /\ sv_next_end (f sv) = sv_next_end sv) ->
    NOK G X T (nd <| n_servers := map f (n_servers nd) |>).
  Proof.
    intros (M & N1 & HH & HA & HL & N2 & HT) Hf.
    assert (Hids : map sv_id (map f (n_servers nd)) = map sv_id (n_servers nd)) by (rewrite map_map; apply map_ext; intros sv; apply Hf).
    split; [apply (Misc_same nd _ M); [reflexivity|reflexivity|cbn; lia|cbn; lia|apply M|exact Hids|reflexivity]|].
    split; [change (NoDup (map sv_id (map f (n_servers nd)))); rewrite Hids; exact N1|].
    split; [|split; [|split; [exact HL|split; [exact N2|exact HT]]]].
    - intros sv' c Hsv' Hc. change (In sv' (map f (n_servers nd))) in Hsv'. apply in_map_iff in Hsv' as (sv & <- & Hsv). destruct (Hf sv) as (F1 & F2 & F3).
      rewrite F2 in Hc. rewrite F1, F3. exact (HH sv c Hsv Hc).
    - intros c sid Q sv' Hsv' Hi. change (In sv' (map f (n_servers nd))) in Hsv'. apply in_map_iff in Hsv' as (sv & <- & Hsv). destruct (Hf sv) as (F1 & F2 & F3).
      rewrite F2. rewrite F1 in Hi. exact (HA c sid Q sv Hsv Hi).
  Qed.
  Lemma lk_tsod0 G X T fl j : sp (LKI G X T) (LKI G X T) (take_servers_off_duty cf fl j 0) top.
  Proof.
    unfold take_servers_off_duty. change (0 =? 0) with true. cbv iota.
    spb ltac:(apply lk_get_node). intros nd [Hnd Hj].
    eapply Renege2.sp_bind with (phi := top); [destruct (n_next_date nd); [apply Renege2.sp_ret; exact Logic.I|apply Renege2.sp_fail]|]. intros se _.
    eapply Renege2.sp_bind with (phi := top); [apply lk_put_node; apply (NOK_mapsrv G X T nd _ Hnd); intros sv; repeat split; reflexivity|]. intros _ _.
    apply Renege2.sp_forM. intros sid. apply lk_kill_server.
  Qed.
  Lemma NOK_addsrv G T nd sv : NOK G None T nd -> slot_at (n_id nd) = false -> sv_id sv = n_highest nd + 1 -> sv_cust sv = None ->
    NOK G None T (nd <| n_highest := n_highest nd + 1 |> <| n_servers := n_servers nd ++ [sv] |>).
  Proof.
    intros ((A & B & C & D0 & E & F) & N1 & HH & HA & HL & N2 & HT) Hns Hid Hcu.
    split; [|split; [|split; [|split; [intros c sid Q; discriminate Q|split; [exact HL|split; [exact N2|exact HT]]]]]].
    - unfold Misc. cbn [n_id n_nint n_lenbq n_next_type n_servers n_highest set]. split; [exact A|]. split; [exact B|]. split; [exact C|]. split; [exact D0|]. split.
      + intros Q. rewrite Hns in Q. discriminate Q.
      + intros sv0 Hsv0. apply in_app_or in Hsv0 as [Hsv0|[<-|[]]]; [specialize (F sv0 Hsv0); lia|lia].
    - cbn [n_servers set]. rewrite map_app. cbn [map]. eapply Permutation_NoDup; [apply Permutation_cons_append|]. constructor; [|exact N1].
      intros Q. apply in_map_iff in Q as (sv0 & Q & Hsv0). specialize (F sv0 Hsv0). lia.
    - intros sv0 c Hsv0 Hc. cbn [n_servers n_id set] in Hsv0 |- *. apply in_app_or in Hsv0 as [Hsv0|[<-|[]]]; [exact (HH sv0 c Hsv0 Hc)|rewrite Hcu in Hc; discriminate Hc].
  Qed.
  Lemma lk_add_new_servers G T : forall k j, slot_at j = false -> sp (LKI G None T) (LKI G None T) (add_new_servers k j) top.
  Proof.
    induction k as [|k IH]; intros j Hns; cbn [add_new_servers]; [apply Renege2.sp_ret; exact Logic.I|].
    spb ltac:(apply Renege2.sp_gets). intros t0 _. eapply Renege2.sp_bind with (phi := top); [|intros _ _; apply IH; exact Hns].
    apply lk_upd_node. intros nd Hj Hnd. apply NOK_addsrv; [exact Hnd|rewrite Hj; exact Hns|reflexivity|reflexivity].
  Qed.
  Lemma lk_bsipcs T j : inf_at j = false -> sp (LKX None T) (LKX None T) (begin_service_if_possible_change_shift cf j) top.
  Proof.
    intros Hinf. unfold begin_service_if_possible_change_shift. eapply Renege2.sp_bind with (phi := top); [apply sp_X; intros G; eapply Renege2.sp_top; apply lk_get_node|]. intros nd _.
    apply Renege2.sp_forM. intros sid. apply lk_serve_with. exact Hinf.
  Qed.
  Lemma lk_change_shift j : sp (LKX None None) (LKX None None) (change_shift cf j) top.
  Proof.
    unfold change_shift. eapply Renege2.sp_bind with (phi := fun nc => nthZ (cf_nodes cf) (j - 1) = Some nc); [apply sp_X; intros G; apply Renege2.sp_lift|]. intros nc Hc.
    destruct (nc_srv nc) as [|sc|sl] eqn:Esrv; [apply Renege2.sp_fail| |apply Renege2.sp_fail].
    destruct (nc_scope _ _ Hc) as ((Hpre & _) & _). specialize (Hpre sc Esrv).
    assert (Hinf : inf_at j = false) by (apply (Hschf j nc Hc); unfold nc_sched; rewrite Esrv; reflexivity).
    assert (Hns : slot_at j = false) by (rewrite (slot_at_of _ _ Hc); unfold nc_slotted; rewrite Esrv; reflexivity).
    apply sp_openX. intros G. spb ltac:(apply lk_get_node). intros nd [Hnd Hj].
    eapply Renege2.sp_bind with (phi := top); [destruct (sc_b sc); [apply Renege2.sp_fail|apply Renege2.sp_ret; exact Logic.I]|]. intros _ _. cbv zeta.
    eapply Renege2.sp_bind with (phi := top) (J := LKI G None None).
    { apply lk_put_node. destruct Hnd as (M & E). split; [|exact E].
      apply (Misc_same nd _ M); [reflexivity| |cbn; lia|cbn; lia|apply M|reflexivity|reflexivity].
      destruct M as (M1 & _). rewrite M1, Hj, Hinf. reflexivity. }
    intros _ _. spb ltac:(apply Renege2.sp_gets). intros fl _. rewrite Hpre.
    eapply Renege2.sp_bind with (phi := top); [apply lk_tsod0|]. intros _ _.
    eapply Renege2.sp_bind with (phi := top); [apply lk_add_new_servers; exact Hns|]. intros _ _.
    eapply Renege2.sp_pre; [apply lk_bsipcs; exact Hinf|]. intros s0 H0. exists G. exact H0.
  Qed.

  (* ---------- slotted services without interruption ---------- *)
  Lemma lk_slot_loop T : forall k j, slot_at j = true -> inf_at j = false -> sp (LKX None T) (LKX None T) (slot_loop cf k j) top.
  Proof.
    induction k as [|k IH]; intros j Hs Hinf; cbn [slot_loop]; [apply Renege2.sp_ret; exact Logic.I|].
    intros s a s' (G & HI) H.
    minv H t0 s0 E. apply Renege2.tnow_inv in E as [-> ->].
    minv H nd s0 E. destruct (lk_get_node G None T j _ _ _ HI E) as [_ [Hnd _]]. apply Renege2.get_node_inv in E as (-> & Hj & Hn).
    destruct Hnd as ((_ & Hni & _) & _). assert (E0 : (0 <? n_nint nd) = false) by (apply Z.ltb_ge; lia). rewrite E0 in H.
    minv H cand s1 E. destruct (lk_choose_next_customer G None T j _ _ _ HI E) as [HI1 _].
    destruct cand as [c|]; [|minv H u s2 E2; apply Renege2.ret_inv in E2 as [_ ->]; exact (IH j Hs Hinf _ _ _ (ex_intro _ G HI1) H)].
    apply cnc_inv in E as (E1 & E2 & nd' & x & _ & Hn' & Hq & Hx & Hsv). rewrite <- E1 in Hn'. rewrite <- E2 in Hx.
    destruct (waiting_ghost G None T s1 j nd' c x HI1 Hj Hn' Hq Hx Hsv) as [(sd & Hg) HT].
    minv H u s2 E3.
    match type of E3 with ?m _ = _ => assert (RR : sp (LKI G None T) (LKX None T) m top) end.
    { spb ltac:(apply lk_upd_ind; intros; lk_ok). intros _ _. spb ltac:(apply lk_giast). intros _ _.
      spb ltac:(apply lk_get_ind). intros x0 [Hi Ho]. spb ltac:(apply lk_stime_num). intros st _.
      assert (Hk0 : Some (key x0) = Some (None, Some j, sd)) by (unfold okr in Ho; rewrite <- Ho, Hi; exact Hg). injection Hk0 as K1 K2 K3.
      assert (L := lk_put_free_p G None T x0 (x0 <| i_send := Some (now s + st) |> <| i_server := Some (-1) |>) (Some j) sd Ho ltac:(rewrite Hi; exact Hg) eq_refl (or_introl eq_refl)
                     ltac:(intros Q; exfalso; apply HT; rewrite <- Hi; exact Q) ltac:(right; right; exists j; split; [exact K2|exact Hinf])).
      spb ltac:(exact L). intros _ _. eapply sp_toLKX. spb ltac:(apply lk_upd_node; intros; lk_nok). intros _ _. apply lk_reset_class_change. }
    destruct (RR _ _ _ HI1 E3) as [HX2 _]. exact (IH j Hs Hinf _ _ _ HX2 H).
  Qed.
  Lemma lk_slotted_service j : sp (LKX None None) (LKX None None) (slotted_service cf j) top.
  Proof.
    unfold slotted_service. eapply Renege2.sp_bind with (phi := fun nc => nthZ (cf_nodes cf) (j - 1) = Some nc); [apply sp_X; intros G; apply Renege2.sp_lift|]. intros nc Hc.
    destruct (nc_srv nc) as [|sc|sl] eqn:Esrv; [apply Renege2.sp_fail|apply Renege2.sp_fail|].
    destruct (nc_scope _ _ Hc) as ((_ & Hpre) & _). specialize (Hpre sl Esrv).
    assert (Hs : slot_at j = true) by (rewrite (slot_at_of _ _ Hc); unfold nc_slotted; rewrite Esrv; reflexivity).
    assert (Hinf : inf_at j = false) by (apply (slotted_fin _ _ Hc); unfold nc_slotted; rewrite Esrv; reflexivity).
    eapply Renege2.sp_bind with (phi := top); [apply sp_X; intros G; eapply Renege2.sp_top; apply lk_get_node|]. intros nd _.
    eapply Renege2.sp_bind with (phi := top); [destruct (sl_b sl); [apply Renege2.sp_fail|apply Renege2.sp_ret; exact Logic.I]|]. intros _ _. cbv zeta. rewrite Hpre. cbv iota.
    eapply Renege2.sp_bind with (phi := top); [apply Renege2.sp_ret; exact Logic.I|]. intros _ _.
    eapply Renege2.sp_bind with (phi := top); [apply lk_slot_loop; assumption|]. intros _ _.
    apply sp_X. intros G. apply lk_upd_node; intros; lk_nok.
  Qed.

  Lemma lk_node_have_event j : sp (LKX None None) (LKX None None) (node_have_event cf j) top.
  Proof.
    intros s a s' (G & HI) H. unfold node_have_event in H. minv H nd s1 E. destruct (lk_get_node G None None j _ _ _ HI E) as [HI1 [Hnd _]]. cbv zeta in H.
    destruct Hnd as ((_ & _ & _ & (Ht2 & Ht3) & _) & _).
    destruct (n_next_type nd =? 0); [exact (lk_finish_service j _ _ _ (ex_intro _ G HI1) H)|].
    destruct (n_next_type nd =? 1); [exact (lk_change_shift j _ _ _ (ex_intro _ G HI1) H)|].
    destruct (n_next_type nd =? 2) eqn:E2; [apply Z.eqb_eq in E2; contradiction|].
    destruct (n_next_type nd =? 3) eqn:E3; [apply Z.eqb_eq in E3; contradiction|].
    destruct (n_next_type nd =? 4); [exact (lk_slotted_service j _ _ _ (ex_intro _ G HI1) H)|].
    apply Renege2.ret_inv in H as [-> ->]. split; [exists G; exact HI1|exact Logic.I].
  Qed.

  (* ---------- the end of the event ---------- *)
  Lemma NOK_une G X T nd nd' : NOK G X T nd -> n_id nd' = n_id nd -> n_c nd' = n_c nd -> n_nint nd' = n_nint nd -> n_lenbq nd' = n_lenbq nd ->
    (n_next_type nd' <> 2 /\ n_next_type nd' <> 3) -> n_servers nd' = n_servers nd -> n_queues nd' = n_queues nd -> n_highest nd' = n_highest nd -> NOK G X T nd'.
  Proof.
    intros (M & E) E1 E2 E3 E4 E5 E6 E7 E8. split; [apply (Misc_same nd _ M); [exact E1|unfold nd_inf; rewrite E2; reflexivity|lia|lia|exact E5|rewrite E6; reflexivity|exact E8]|].
    revert E. unfold Held, Att, Locd, NotIn, all_individuals. rewrite E1, E6, E7. exact (fun h => h).
  Qed.
  Lemma dne_type : forall cands best, decide_next_event cands best = best \/ (In (decide_next_event cands best) cands /\ fst (snd (decide_next_event cands best)) <> None).
  Proof.
    induction cands as [|c r IH]; intros best; cbn [decide_next_event]; [left; reflexivity|].
    destruct (date_lt (fst (snd c)) (fst (snd best))) eqn:E.
    - destruct (IH c) as [Q|[Q1 Q2]]; [rewrite Q; right; split; [left; reflexivity|]|right; split; [right; exact Q1|exact Q2]].
      intros Q'. rewrite Q' in E. cbn in E. discriminate E.
    - destruct (IH best) as [Q|[Q1 Q2]]; [left; exact Q|right; split; [right; exact Q1|exact Q2]].
  Qed.
  Lemma lk_une G X T j : sp (LKI G X T) (LKI G X T) (update_next_event_date cf j) top.
  Proof.
    unfold update_next_event_date. spb ltac:(apply lk_get_node). intros nd [Hnd Hj]. spb ltac:(apply Renege2.sp_lift). intros nc Hc. cbv beta in Hc.
    destruct (nc_scope _ _ Hc) as (_ & Hren & _). pose proof Hdyn as Hd.
    spb ltac:(apply Renege2.sp_gets). intros t0 _. spb ltac:(apply Renege2.sp_gets). intros il _. cbv zeta.
    rewrite Hren, Hd. rewrite Bool.andb_false_r. cbn [orb andb].
    eapply Renege2.sp_bind with (phi := fun r => r = (None, [])); [apply Renege2.sp_ret; reflexivity|]. intros rn ->.
    destruct (nc_sched nc); [|apply lk_put_node; apply (NOK_une G X T nd _ Hnd); try reflexivity; cbn; split; discriminate].
    match goal with |- context [decide_next_event ?cs ?b] => pose proof (dne_type cs b) as Hty; destruct (decide_next_event cs b) as [ty [d l]] end.
    apply lk_put_node. apply (NOK_une G X T nd _ Hnd); try reflexivity. cbn [n_next_type set].
    destruct Hty as [Q|[Q1 Q2]]; [injection Q as -> _ _; split; discriminate|]. cbn [fst snd] in Q2.
    apply in_app_or in Q1 as [Q1|Q1].
    - destruct (nc_srv nc) as [|sc|sl]; [destruct Q1|destruct Q1 as [Q1|[]]; injection Q1 as <- _ _; split; discriminate|destruct Q1 as [Q1|[]]; injection Q1 as <- _ _; split; discriminate].
    - destruct Q1 as [Q1|[Q1|[Q1|[]]]]; [injection Q1 as <- _; split; discriminate|injection Q1 as _ Q _; exfalso; apply Q2; symmetry; exact Q|injection Q1 as _ Q _; exfalso; apply Q2; symmetry; exact Q].
  Qed.
  Lemma lk_update_all G X T : forall js, sp (LKI G X T) (LKI G X T) (update_all cf js) top.
  Proof. induction js as [|j r IH]; cbn [update_all]; [apply Renege2.sp_ret; exact Logic.I|]. spb ltac:(apply lk_une). intros _ _. exact IH. Qed.
  Lemma lk_fnan G X T : sp (LKI G X T) (LKI G X T) find_next_active_node top.
  Proof.
    unfold find_next_active_node. spb ltac:(apply Renege2.sp_gets). intros s0 _. cbv zeta.
    destruct (scan_active 0 (a_next_date (arr s0) :: map n_next_date (nodes s0)) None []) as [d cands].
    eapply Renege2.sp_bind with (phi := top).
    { destruct cands as [|c0 [|c1 r]]; [apply Renege2.sp_fail|apply Renege2.sp_ret; exact Logic.I|apply lk_choice_uniform]. }
    intros k _. apply lk_modify. intros s. cbn. repeat split; lia.
  Qed.
  Theorem lk_event_step : sp (LKX None None) (LKX None None) (event_step cf) top.
  Proof.
    unfold event_step. eapply Renege2.sp_bind with (phi := top); [apply sp_X; intros G; apply lk_modify; intros s; cbn; repeat split; lia|]. intros _ _.
    eapply Renege2.sp_bind with (phi := top); [apply sp_X; intros G; apply Renege2.sp_gets|]. intros k _.
    eapply Renege2.sp_bind with (phi := top); [destruct (k =? 0); [apply lk_arrival_have_event|apply lk_node_have_event]|]. intros _ _.
    apply sp_X. intros G. spb ltac:(apply Renege2.sp_gets). intros ns _. spb ltac:(apply lk_update_all). intros _ _. apply lk_fnan.
  Qed.
End LK.

(* the ghost `inf_at` only matters at the ids of the nodes of the state *)
Lemma LKI_ext cf inf_at inf_at' G X T s : (forall nd, In nd (nodes s) -> inf_at' (n_id nd) = inf_at (n_id nd)) -> LKI cf inf_at G X T s -> LKI cf inf_at' G X T s.
Proof.
  intros HE (H1 & H2 & H3 & H4 & H5 & H6). unfold LKI. repeat (split; [assumption|]). split; [|exact H6].
  intros nd Hnd. destruct (H5 nd Hnd) as ((M1 & M2) & N1 & HH & HA & HL & N2). unfold NOK, Misc, Locd. rewrite (HE nd Hnd).
  split; [split; [exact M1|exact M2]|]. split; [exact N1|]. split; [exact HH|]. split; [exact HA|]. split; [exact HL|exact N2].
Qed.
Lemma LKI_inf_in cf inf_at G X T s j : LKI cf inf_at G X T s -> 1 <= j <= Z.of_nat (length (nodes s)) -> Renege2.inf_of s j = inf_at j.
Proof.
  intros (_ & _ & _ & H4 & H5 & _) Hj. unfold Renege2.inf_of, nthZ. destruct (j - 1 <? 0) eqn:E0; [apply Z.ltb_lt in E0; lia|].
  destruct (nth_error (nodes s) (Z.to_nat (j - 1))) as [nd|] eqn:Hk; [|apply nth_error_None in Hk; lia].
  destruct (H5 nd (nth_error_In _ _ Hk)) as ((M1 & _) & _). rewrite M1, (H4 _ _ Hk). f_equal. lia.
Qed.
Lemma inf_of_out s j : ~ (1 <= j <= Z.of_nat (length (nodes s))) -> Renege2.inf_of s j = false.
Proof.
  intros Hj. unfold Renege2.inf_of, nthZ. destruct (j - 1 <? 0) eqn:E0; [reflexivity|]. apply Z.ltb_ge in E0.
  destruct (nth_error (nodes s) (Z.to_nat (j - 1))) as [nd|] eqn:Hk; [|reflexivity]. exfalso. apply Hj. assert (Z.to_nat (j - 1) < length (nodes s))%nat by (apply nth_error_Some; rewrite Hk; discriminate). lia.
Qed.
Lemma LKI_inf_of cf inf_at G X T s : LKI cf inf_at G X T s -> LKI cf (Renege2.inf_of s) G X T s.
Proof.
  intros HI. apply (LKI_ext cf inf_at); [|exact HI]. intros nd Hnd. apply (LKI_inf_in cf inf_at G X T s _ HI). pose proof HI as (_ & _ & _ & H4 & _).
  apply In_nth_error in Hnd as [k Hk]. rewrite (H4 _ _ Hk). assert (k < length (nodes s))%nat by (apply nth_error_Some; rewrite Hk; discriminate). lia.
Qed.

(* the link at an event boundary; slot_fin: a node with a Schedule or a slot timetable does not have infinitely many servers (Renege2.sched_fin
   says it for Schedules only) *)
Definition slot_fin (cf : config) (s : sim) : Prop :=
  forall j nc, nthZ (cf_nodes cf) (j - 1) = Some nc -> nc_sched nc = true -> Renege2.inf_of s j = false.
Definition LinkB (cf : config) (s : sim) : Prop := (exists G, LKI cf (Renege2.inf_of s) G None None s) /\ slot_fin cf s.
Lemma slot_fin_keep cf s s' G G' X T X' T' : slot_fin cf s -> LKI cf (Renege2.inf_of s) G X T s -> LKI cf (Renege2.inf_of s) G' X' T' s' -> slot_fin cf s'.
Proof.
  intros HF HI HI' j nc Hc Hs. destruct (Z_le_dec 1 j) as [L1|L1]; [destruct (Z_le_dec j (Z.of_nat (length (nodes s')))) as [L2|L2]|]; [|apply inf_of_out; lia|apply inf_of_out; lia].
  rewrite (LKI_inf_in cf _ G' X' T' s' j HI' (conj L1 L2)). exact (HF j nc Hc Hs).
Qed.

(* the link alone is kept by every event: NO hypothesis on the draws, no clock involved *)
Theorem event_step_linkb cf s d s' : scope_s cf = true -> LinkB cf s -> event_step cf (s <| dr := d |>) = Ok (tt, s') -> LinkB cf s'.
Proof.
  intros Ht ((G & HI) & HF) H. assert (HI0 : LKI cf (Renege2.inf_of s) G None None (s <| dr := d |>)) by (eapply LKI_same; [exact HI|reflexivity|reflexivity|cbn; lia]).
  destruct (proj1 (lk_event_step cf (Renege2.inf_of s) Ht HF _ _ _ (ex_intro _ G HI0) H)) as (G' & HI').
  split; [exists G'; eapply LKI_inf_of; exact HI'|exact (slot_fin_keep cf s s' _ _ _ _ _ _ HF HI HI')].
Qed.
Theorem run_many_linkb cf : scope_s cf = true -> forall ds s s', LinkB cf s -> run_many cf s ds = Ok s' -> LinkB cf s'.
Proof.
  intros Ht. induction ds as [|d r IH]; intros s s' HL H; cbn [run_many] in H; [injection H as <-; exact HL|].
  destruct (event_step cf (s <| dr := d |>)) as [[[] s1]| |] eqn:E; try discriminate. eapply IH; [|exact H]. eapply event_step_linkb; eauto.
Qed.

(* the boundary link implies the link clause of Clock2p.Clk2p (for every node, with infinitely many servers or not) *)
Theorem LinkB_LinkD cf s : LinkB cf s -> Clock2p.LinkD s.
Proof.
  intros ((G & H1 & _ & _ & _ & H5 & _) & _) nd sv c Hnd _ Hsv Hc. destruct (H5 nd Hnd) as (_ & _ & HH & _).
  destruct (HH sv c Hsv Hc) as (sd & Q & [(j0 & s0 & Q')|(e & d & Q1 & Q2 & Q3)]); [discriminate Q'|].
  rewrite <- H1 in Q. destruct (find_ind c (inds s)) as [x|]; [|discriminate Q]. cbn in Q. injection Q as K1 K2 K3.
  exists x, e, d. rewrite K1, K2, K3, Q1. repeat split; auto.
Qed.
(* ... and: the customers of a node with infinitely many servers record no server *)
Theorem LinkB_inf cf s : LinkB cf s -> forall nd c x, In nd (nodes s) -> nd_inf nd = true -> In c (all_individuals nd) -> find_ind c (inds s) = Some x ->
  i_server x = None /\ i_node x = Some (n_id nd).
Proof.
  intros ((G & H1 & _ & _ & _ & H5 & _) & _) nd c x Hnd Hinf Hc Hx. destruct (H5 nd Hnd) as ((M1 & _) & _ & _ & _ & HL & _).
  destruct (HL c Hc) as (a & sd & Q & Qi). rewrite <- H1, Hx in Q. cbn in Q. injection Q as K1 K2 K3. rewrite <- M1 in Qi. rewrite K1, K2. split; [apply Qi; exact Hinf|reflexivity].
Qed.
(* ... and: every customer of a queue records that node; a node with a slot timetable has no server objects; server ids are distinct and at most
   highest_id (retired ids are never reused: add_new_servers takes highest_id + 1); no reneging / class-change event is ever scheduled *)
Theorem LinkB_nodes cf s : LinkB cf s -> forall nd, In nd (nodes s) ->
  (forall c, In c (all_individuals nd) -> exists x, find_ind c (inds s) = Some x /\ i_node x = Some (n_id nd)) /\
  (slot_at cf (n_id nd) = true -> n_servers nd = []) /\ NoDup (map sv_id (n_servers nd)) /\ (forall sv, In sv (n_servers nd) -> sv_id sv <= n_highest nd) /\
  n_nint nd <= 0 /\ n_next_type nd <> 2 /\ n_next_type nd <> 3.
Proof.
  intros ((G & H1 & _ & _ & _ & H5 & _) & _) nd Hnd. destruct (H5 nd Hnd) as ((_ & M2 & _ & (M4 & M5) & M6 & M7) & N1 & _ & _ & HL & _).
  split; [|repeat (split; [assumption|]); assumption]. intros c Hc. destruct (HL c Hc) as (a & sd & Q & _). rewrite <- H1 in Q. destruct (find_ind c (inds s)) as [x|]; [|discriminate Q].
  cbn in Q. injection Q as K1 K2 K3. exists x. auto.
Qed.

(* ---------- executable test of LinkB ---------- *)
Definition locd_b (s : sim) (nd : node) (c : Z) : bool :=
  match find_ind c (inds s) with
  | Some x => (match i_node x with Some j => j =? n_id nd | None => false end) &&
              (negb (nd_inf nd) || match i_server x with None => true | Some _ => false end)
  | None => false end.
Definition nok_b (cf : config) (s : sim) (nd : node) : bool :=
  (n_nint nd <=? 0) && (n_lenbq nd <=? 0) && (negb (n_next_type nd =? 2) && negb (n_next_type nd =? 3)) &&
  (negb (slot_at cf (n_id nd)) || match n_servers nd with [] => true | _ => false end) &&
  (negb (match nthZ (cf_nodes cf) (n_id nd - 1) with Some nc => nc_sched nc | None => false end) || negb (nd_inf nd)) &&
  forallb (fun sv => sv_id sv <=? n_highest nd) (n_servers nd) &&
  Renege2.nodup_b (map sv_id (n_servers nd)) && forallb (Clock2p.link_sv_b s nd) (n_servers nd) && forallb (locd_b s nd) (all_individuals nd) &&
  Renege2.nodup_b (all_individuals nd).
Definition linkb_b (cf : config) (s : sim) : bool :=
  Renege2.nodup_b (map i_id (inds s)) && forallb (fun x => i_id x <=? a_created (arr s)) (inds s) && Renege2.idx_b (nodes s) 1 && forallb (nok_b cf s) (nodes s).
Theorem linkb_b_sound cf s : linkb_b cf s = true -> LinkB cf s.
Proof.
  unfold linkb_b. intros H. apply andb_true_iff in H as [H H4]. apply andb_true_iff in H as [H H3]. apply andb_true_iff in H as [H1 H2].
  assert (HIdx : Renege2.Idx s) by (intros k nd Hk; rewrite (Renege2.idx_b_sound _ _ H3 _ _ Hk); reflexivity).
  rewrite forallb_forall in H4.
  assert (Hof : forall nd, In nd (nodes s) -> nd_inf nd = Renege2.inf_of s (n_id nd)).
  { intros nd Hnd. apply In_nth_error in Hnd as [k Hk]. unfold Renege2.inf_of. rewrite (HIdx _ _ Hk). replace (Z.of_nat k + 1 - 1) with (Z.of_nat k) by lia. rewrite Renege2.nthZ_of_nat, Hk. reflexivity. }
  split.
  2:{ intros j nc Hc Hs. destruct (Z_le_dec 1 j) as [L1|L1]; [destruct (Z_le_dec j (Z.of_nat (length (nodes s)))) as [L2|L2]|]; [|apply inf_of_out; lia|apply inf_of_out; lia].
      destruct (nth_error (nodes s) (Z.to_nat (j - 1))) as [nd|] eqn:Hk; [|apply nth_error_None in Hk; lia].
      pose proof (nth_error_In _ _ Hk) as Hnd. assert (Hid : n_id nd = j) by (rewrite (HIdx _ _ Hk); lia). rewrite <- Hid, <- (Hof nd Hnd).
      specialize (H4 nd Hnd). unfold nok_b in H4. do 5 (apply andb_true_iff in H4 as [H4 _]). apply andb_true_iff in H4 as [_ H4].
      rewrite Hid, Hc, Hs in H4. cbn in H4. apply negb_true_iff in H4. exact H4. }
  exists (fun k => option_map key (find_ind k (inds s))). unfold LKI.
  split; [intros k; reflexivity|]. split; [apply Renege2.nodup_b_sound; exact H1|]. split; [|split; [exact HIdx|split; [|split; [intros c j sid Q; discriminate Q|intros k Q; discriminate Q]]]].
  - intros k Hk. destruct (find_ind k (inds s)) as [x|] eqn:Ex; [|contradiction]. rewrite forallb_forall in H2. specialize (H2 x (Renege2.find_ind_In _ _ _ Ex)).
    apply Z.leb_le in H2. rewrite (Renege2.find_ind_id _ _ _ Ex) in H2. exact H2.
  - intros nd Hnd. specialize (H4 nd Hnd). unfold nok_b in H4.
    apply andb_true_iff in H4 as [H4 N8]. apply andb_true_iff in H4 as [H4 N7]. apply andb_true_iff in H4 as [H4 N6]. apply andb_true_iff in H4 as [H4 N5].
    apply andb_true_iff in H4 as [H4 N10]. apply andb_true_iff in H4 as [H4 N12]. apply andb_true_iff in H4 as [H4 N9]. apply andb_true_iff in H4 as [H4 N4]. apply andb_true_iff in H4 as [N2 N3].
    apply Z.leb_le in N2, N3. apply andb_true_iff in N4 as [N4a N4b]. apply negb_true_iff in N4a, N4b. apply Z.eqb_neq in N4a, N4b.
    pose proof (Hof nd Hnd) as N1.
    split; [split; [exact N1|split; [exact N2|split; [exact N3|split; [split; assumption|split]]]]|].
    { intros Q. rewrite Q in N9. cbn in N9. destruct (n_servers nd); [reflexivity|discriminate N9]. }
    { intros sv Hsv. rewrite forallb_forall in N10. apply Z.leb_le. exact (N10 sv Hsv). }
    split; [apply Renege2.nodup_b_sound; exact N5|]. split; [|split; [intros c sid Q; discriminate Q|split; [|split; [apply Renege2.nodup_b_sound; exact N8|intros c b Q; discriminate Q]]]].
    + intros sv c Hsv Hc. rewrite forallb_forall in N6. specialize (N6 sv Hsv). unfold Clock2p.link_sv_b in N6. rewrite Hc in N6.
      destruct (find_ind c (inds s)) as [x|]; [|discriminate]. apply andb_true_iff in N6 as [N6 E3]. apply andb_true_iff in N6 as [E1 E2].
      destruct (i_server x) as [sid|] eqn:F1; [|discriminate]. apply Z.eqb_eq in E1. destruct (i_node x) as [j|] eqn:F2; [|discriminate]. apply Z.eqb_eq in E2.
      destruct (i_send x) as [e|] eqn:F3; [|discriminate]. destruct (sv_next_end sv) as [d|] eqn:F4; [|discriminate]. apply Z.leb_le in E3.
      exists (Some e). cbn. unfold key. rewrite F1, F2, F3, E1, E2. split; [reflexivity|right]. exists e, d. auto.
    + intros c Hc. rewrite forallb_forall in N7. specialize (N7 c Hc). unfold locd_b in N7. destruct (find_ind c (inds s)) as [x|]; [|discriminate].
      apply andb_true_iff in N7 as [N7 N11].
      destruct (i_node x) as [j|] eqn:F2; [|discriminate]. apply Z.eqb_eq in N7. exists (i_server x), (i_send x). cbn. unfold key. rewrite F2, N7. split; [reflexivity|].
      intros Hi. rewrite <- N1 in Hi. rewrite Hi in N11. cbn in N11. destruct (i_server x); [discriminate|reflexivity].
Qed.

(* inside section 7 the ghost inf_at is the section variable: it is inferred *)
Arguments LKI_create {cf inf_at}.
Arguments LKI_flag {cf inf_at}.
Arguments LKI_insert {cf inf_at}.
Arguments LKI_rec {cf inf_at}.
Arguments LKI_remove {cf inf_at}.
Arguments LKI_same {cf inf_at}.
Arguments NoHold_G {cf inf_at}.
Arguments lk_bsipr cf {inf_at}.
Arguments lk_change_customer_class cf {inf_at}.
Arguments lk_choose_next_customer cf {inf_at}.
Arguments lk_decide_between {cf inf_at}.
Arguments lk_decide_class_change cf {inf_at}.
Arguments lk_detach {cf inf_at}.
Arguments lk_draw_arr {cf inf_at}.
Arguments lk_draw_batch {cf inf_at}.
Arguments lk_draw_unif {cf inf_at}.
Arguments lk_exit_accept {cf inf_at}.
Arguments lk_find_next_event_date {cf inf_at}.
Arguments lk_fnan {cf inf_at}.
Arguments lk_get_ind {cf inf_at}.
Arguments lk_get_node {cf inf_at}.
Arguments lk_has_space_true cf {inf_at}.
Arguments lk_modify {cf inf_at}.
Arguments lk_next_node_for cf {inf_at}.
Arguments lk_preempt_body cf {inf_at}.
Arguments lk_put_ind {cf inf_at}.
Arguments lk_rbi_body cf {inf_at}.
Arguments lk_sne_open {cf inf_at}.
Arguments lk_start_fresh cf {inf_at}.
Arguments lk_sys_population {cf inf_at}.
Arguments lk_upd_free {cf inf_at}.
Arguments lk_upd_ind {cf inf_at}.
Arguments lk_update_all cf {inf_at}.
Arguments lk_write_br_record {cf inf_at}.
Arguments lk_write_individual_record cf {inf_at}.
Arguments okr_of {cf inf_at}.
Arguments waiting_ghost {cf inf_at}.
Arguments lk_start_fresh_none cf {inf_at}.

(* ================================================================================================================ *)
(* 7. Clock2r's invariant together with the link: one event, any run (scope_s scope, priority pre-emption `resume` included) *)
(* ================================================================================================================ *)
Notation TNone := Renege2.TNone.
Section Comb.
  Variable cf : config.
  Variable inf_at : Z -> bool.
  Variable t : Z.
  Variable nn : nat.
  Hypothesis Hsc : scope_s cf = true.
  Hypothesis Hschf : forall j nc, nthZ (cf_nodes cf) (j - 1) = Some nc -> nc_sched nc = true -> inf_at j = false.
  Lemma XHdyn : cf_dyn cf = false. Proof. exact (Hdyn cf Hsc). Qed.
  Notation Inv := (Clock2r.Inv cf inf_at t nn).
  Notation IndOK := (Clock2r.IndOK cf inf_at t).
  Notation NodeOK := (Clock2r.NodeOK cf inf_at t).

  Ltac nn_tac := first [ assumption | apply Clock2.NN_None | (apply Clock2.NN_Some; first [lia | assumption]) | lia | discriminate ].
  Ltac se_tac := unfold Clock2r.SEok, Clock2r.EndGood; cbn;
    first [ (left; split; reflexivity) | (right; left; reflexivity) | (right; right; eexists; split; [reflexivity|lia]) ].
  Ltac irel_tac :=
    first [ se_tac
          | cbn; first [ reflexivity | nn_tac | (intro; assumption) | (intro; discriminate) | (intros _ ?H; exact H) | (intros ?Hd; congruence)
               | (left; reflexivity) | (right; intros ? ?; discriminate) ] ].
  Ltac indok :=
    match goal with
    | H : Clock2r.IndOK _ _ _ ?l ?r ?e ?g ?c ?x |- Clock2r.IndOK _ _ _ ?l ?r ?e ?g ?c _ =>
      solve [ let H' := fresh in pose proof H as H'; destruct H' as (_ & (? & ? & ? & ?) & _); apply (Clock2r.IndOK_irel cf inf_at t XHdyn l r e g c x _ H); irel_tac ]
    | H : Clock2r.IndOK _ _ _ ?l ?r ?e ?g ?c ?x, Hi : i_id ?x = ?i |- Clock2r.IndOK _ _ _ ?l ?r ?e ?g ?c _ =>
      solve [ let H' := fresh in pose proof H as H'; destruct H' as (_ & (? & ? & ? & ?) & _);
              eapply (Clock2r.IndOK_xrel cf inf_at t XHdyn l r e g c x _ _ H); [rewrite Hi; first [reflexivity|eassumption]|irel_tac..] ]
    end.
  Lemma t_bump_rec loc tr ex gc cr i : sp (Inv loc tr ex gc cr) (Inv loc tr ex gc cr) (bump_rec i) top.
  Proof. unfold bump_rec. apply Clock2r.spI_upd_ind. intros x Hi Hx. indok. Qed.

  Ltac srv_tac :=
    let HF := fresh "HF" in intro HF; cbn;
    first [ exact HF
          | (apply Clock2.Forall_put_server; [exact HF|]; unfold Clock2r.SvOK; cbn;
             match goal with Hf : find_server _ _ = Some ?sv |- _ =>
               let HF' := fresh in pose proof HF as HF'; rewrite Forall_forall in HF'; apply (HF' sv); eapply Clock2.find_server_In; exact Hf end)
          | (apply Clock2.Forall_del_server; exact HF) ].
  Ltac nodeok :=
    match goal with
    | H : Clock2r.NodeOK _ _ _ ?l ?r ?e ?g ?c ?nd |- Clock2r.NodeOK _ _ _ ?l ?r ?e ?g ?c _ =>
      solve [ apply (Clock2r.NodeOK_nrel cf inf_at t l r e g c nd _ H);
              [reflexivity|reflexivity|reflexivity|reflexivity|reflexivity|reflexivity|reflexivity|first [(intros _; cbn; lia)|(intros ?Hn; congruence)]|(cbn; lia)|srv_tac] ]
    end.
  Ltac sp_intro :=
    let a := fresh "v" in let H := fresh "F" in
    intros a H; cbv beta in H;
    try match type of H with _ /\ _ => let H1 := fresh "F" in let H2 := fresh "F" in destruct H as [H1 H2] end;
    try match type of H with a = _ => subst a end.
  Create HintDb cdb.
  #[local] Hint Extern 1 (Renege2.dle _ _) => cbn; first [exact Logic.I | lia] : cdb.
  #[local] Hint Extern 1 (Clock2r.IndOK _ _ _ _ _ _ _ _ _) => eassumption : cdb.
  #[local] Hint Resolve Clock2r.spI_choice_uniform Clock2r.spI_choice_weighted Clock2r.spI_choose_next_customer Clock2r.spI_stime_num Clock2r.spI_set_next_end
     Clock2r.spI_kill_server Clock2r.spI_valid_dest Clock2r.spI_jsq_loop Clock2r.spI_jsq_next Clock2r.spI_get_cyc Clock2r.spI_bump_cyc Clock2r.spI_node_router_next
     Clock2r.spI_decide_between Clock2r.spI_has_space Clock2r.spI_sys_population Clock2r.spI_route_of t_bump_rec : cdb.
  Ltac sp_prim m :=
    lazymatch m with
    | tnow => apply Clock2r.spI_tnow
    | get_node _ => apply Clock2r.spI_get_node
    | get_ind _ => apply Clock2r.spI_get_ind
    | ncfg_of _ _ => apply Clock2r.spI_ncfg_of
    | lift _ _ => apply Renege2.sp_lift
    | gets _ => apply Renege2.sp_gets
    | draw_arr => apply Clock2r.spI_draw_arr
    | draw_batch => apply Clock2r.spI_draw_batch
    | draw_svc => apply Clock2r.spI_draw_svc
    | draw_unif => apply Clock2r.spI_draw_unif
    | draw_cct => apply Clock2r.spI_draw_cct
    | draw_ren => apply Clock2r.spI_draw_ren
    | log_rec _ => apply Clock2r.spI_log_rec
    | put_node _ => apply Clock2r.spI_put_node; nodeok
    | put_ind _ => apply Clock2r.spI_put_ind; indok
    | upd_ind _ _ => apply Clock2r.spI_upd_ind; intros; indok
    | upd_node _ _ => apply Clock2r.spI_upd_node; intros; nodeok
    | modify _ => apply Clock2r.spI_same; intros ?; repeat split; reflexivity
    | decide_class_change _ _ _ => apply Clock2r.spI_decide_class_change_nodyn; exact XHdyn
    | reset_class_change _ _ _ => apply Clock2r.spI_reset_class_change_nodyn; exact XHdyn
    | _ => solve [eauto 4 with cdb nocore]
    end.
  Ltac sp_step :=
    lazymatch goal with
    | |- Renege2.sp _ _ (ret _) _ => apply Renege2.sp_ret; exact Logic.I
    | |- Renege2.sp _ _ (fail _) _ => apply Renege2.sp_fail
    | |- Renege2.sp _ _ oof _ => apply Renege2.sp_oof
    | |- Renege2.sp _ _ (bind (match _ with _ => _ end) _) _ => eapply Renege2.sp_bind with (phi := top); [|intros ? _]
    | |- Renege2.sp _ _ (bind (if _ then _ else _) _) _ => eapply Renege2.sp_bind with (phi := top); [|intros ? _]
    | |- Renege2.sp _ _ (bind ?m _) _ => eapply Renege2.sp_bind; [sp_prim m|sp_intro]
    | |- Renege2.sp _ _ (if ?b then _ else _) _ => destruct b eqn:?
    | |- Renege2.sp _ _ (match ?x with _ => _ end) _ => first [progress cbv iota beta | destruct x eqn:?]
    | |- Renege2.sp _ _ ?m _ => first [sp_prim m | (eapply Renege2.sp_top; sp_prim m)]
    end.
  Ltac spb L := eapply Renege2.sp_bind; [L|].

  Section Small.
    Variables (loc : Z -> option Z) (tr : Renege2.transit) (ex : option (Z * Z)) (gc : Z -> option Z * option Z) (cr : Z).
    Notation spI := (sp (Inv loc tr ex gc cr) (Inv loc tr ex gc cr)).
    Lemma t_write_individual_record j i : spI (write_individual_record cf j i) top.
    Proof. unfold write_individual_record. repeat sp_step. Qed.
    Lemma t_write_interruption_record j i d : spI (write_interruption_record cf j i d) top.
    Proof. unfold write_interruption_record. repeat sp_step. Qed.
    Lemma t_write_br_record j i ty : spI (write_br_record j i ty) top.
    Proof. unfold write_br_record. repeat sp_step. Qed.
    Lemma t_reset_individual_attributes i : spI (reset_individual_attributes i) top.
    Proof. unfold reset_individual_attributes. repeat sp_step. Qed.
    Lemma t_next_node_for mode j i : spI (next_node_for cf mode j i) top.
    Proof. unfold next_node_for. repeat sp_step. Qed.
    Lemma t_change_customer_class j i : spI (change_customer_class cf j i) top.
    Proof. unfold change_customer_class. repeat sp_step. Qed.
    Lemma t_gstap i : spI (give_service_time_after_preemption i) top.
    Proof.
      unfold give_service_time_after_preemption. eapply Renege2.sp_bind; [apply Clock2r.spI_get_ind|]. intros x [Hx Hi].
      pose proof Hx as (_ & (N1 & N2 & N3 & N4) & _).
      destruct (i_smark x =? 3).
      { eapply Renege2.sp_bind; [apply Clock2r.spI_draw_svc|]. intros st Hst. cbv beta in Hst. apply Clock2r.spI_put_ind. indok. }
      destruct (i_smark x =? 2).
      { destruct (i_ost x) as [o|] eqn:Eo; [|apply Renege2.sp_fail]. assert (0 <= o) by (apply N2; reflexivity). apply Clock2r.spI_put_ind. indok. }
      destruct (i_smark x =? 1) eqn:E1.
      { apply Z.eqb_eq in E1. destruct (i_tleft x) as [o|] eqn:Eo; [|apply Renege2.sp_fail]. assert (0 <= o) by (apply (N3 E1); reflexivity). apply Clock2r.spI_put_ind. indok. }
      apply Renege2.sp_ret. exact Logic.I.
    Qed.
    Hint Resolve t_gstap : cdb.
    Lemma t_giast i : spI (give_individual_a_service_time i) top.
    Proof. unfold give_individual_a_service_time. repeat sp_step. Qed.
    Lemma t_attach_server j sid i : spI (attach_server j sid i) top.
    Proof.
      unfold attach_server. eapply Renege2.sp_bind with (phi := top); [apply Clock2r.spI_upd_server; intros sv Hsv; exact Hsv|]. intros _ _.
      apply Clock2r.spI_upd_ind. intros x Hi Hx. pose proof XHdyn as Hd. indok.
    Qed.
  End Small.

  #[local] Hint Resolve t_write_individual_record t_write_interruption_record t_write_br_record t_reset_individual_attributes t_next_node_for
     t_change_customer_class t_gstap t_giast t_attach_server : cdb.
  Notation InvG := (Clock2r.InvG cf inf_at t nn).
  Notation InvX := (Clock2r.InvX cf inf_at t nn).
  Notation TOut := Renege2.TOut.
  Notation TRec := Renege2.TRec.
  Ltac good_tac := unfold Clock2r.Good, Clock2r.EndGood; cbn; intros _ _; eexists; split; [reflexivity|lia].

  Lemma t_start_fresh loc tr ex gc cr j c osid cnt : sp (Inv loc tr ex gc cr) (Inv loc tr ex gc cr) (start_fresh cf j c osid cnt) top.
  Proof.
    pose proof XHdyn as Hd. unfold start_fresh. repeat sp_step.
  Qed.
  Lemma t_biis loc tr ex gc cr j sid : sp (Inv loc tr ex gc cr) (Inv loc tr ex gc cr) (begin_interrupted_individuals_service j sid) top.
  Proof.
    pose proof XHdyn as Hd. unfold begin_interrupted_individuals_service. repeat sp_step.
  Qed.
  Lemma t_start_tail loc tr gc cr j c sid (cnt : bool) :
    sp (Inv loc tr (Some (c, j)) gc cr) (Inv loc tr None gc cr)
       (t0 <- tnow ;;
        upd_ind c (fun x => x <| i_sst := Some t0 |>) ;;;
        give_individual_a_service_time c ;;;
        x <- get_ind c ;; st <- stime_num x ;;
        put_ind (x <| i_send := Some (t0 + st) |>) ;;;
        (if cnt then upd_node j (fun nd => nd <| n_insvc := n_insvc nd + 1 |>) else ret tt) ;;;
        reset_class_change cf j c ;;;
        set_next_end j sid (Some (t0 + st))) top.
  Proof.
    pose proof XHdyn as Hd.
    spb ltac:(apply Clock2r.spI_tnow). intros t0 ->.
    spb ltac:(apply Clock2r.spI_upd_ind; intros; indok). intros _ _.
    spb ltac:(apply t_giast). intros _ _.
    spb ltac:(apply Clock2r.spI_get_ind). intros x [Hx Hi]. spb ltac:(apply Clock2r.spI_stime_num; exact Hx). intros st Hst. cbv beta in Hst.
    spb ltac:(apply (Clock2r.sp_put_ind_close cf inf_at t nn XHdyn _ _ _ _ c j); [exact Hi|indok|good_tac]). intros _ _.
    destruct cnt; [|eapply Renege2.sp_bind with (phi := top); [apply Renege2.sp_ret; exact Logic.I|intros _ _]]; repeat sp_step.
  Qed.
  Lemma t_start_give loc tr gc cr j c sid :
    sp (Inv loc tr (Some (c, j)) gc cr) (Inv loc tr None gc cr) (start_give cf j c sid) top.
  Proof. unfold start_give. spb ltac:(apply t_attach_server). intros _ _. exact (t_start_tail loc tr gc cr j c sid true). Qed.
  Lemma t_start_preemptor loc gc cr j i sid :
    sp (Inv loc TNone None gc cr) (Inv loc TNone None gc cr) (start_preemptor cf j i sid) top.
  Proof.
    intros s a s' HI H. unfold start_preemptor in H.
    minv H u s1 E. destruct (t_attach_server loc TNone None gc cr j sid i _ _ _ HI E) as [HI1 _].
    assert (Hx : exists x, find_ind i (inds s1) = Some x).
    { unfold attach_server in E. minv E u0 s0 E0. apply Renege2.upd_ind_inv in E as (x & Hx & ->). eexists. cbn [inds set].
      rewrite Renege2.find_put_ind. cbn [i_id set]. rewrite (Renege2.find_ind_id _ _ _ Hx), Z.eqb_refl. reflexivity. }
    destruct Hx as [x Hx]. destruct (Clock2r.Inv_open_own cf inf_at t nn XHdyn _ _ _ _ _ _ HI1 Hx) as [j' HI2].
    assert (RR' : sp (Inv loc TNone (Some (i, j')) gc cr) (Inv loc TNone None gc cr)
                     (t0 <- tnow ;; upd_ind i (fun x => x <| i_sst := Some t0 |>) ;;; give_individual_a_service_time i ;;;
                      x <- get_ind i ;; st <- stime_num x ;; put_ind (x <| i_send := Some (t0 + st) |>) ;;;
                      reset_class_change cf j i ;;; set_next_end j sid (Some (t0 + st))) top).
    { pose proof XHdyn as Hd.
      spb ltac:(apply Clock2r.spI_tnow). intros t0 ->.
      spb ltac:(apply Clock2r.spI_upd_ind; intros; indok). intros _ _.
      spb ltac:(apply t_giast). intros _ _.
      spb ltac:(apply Clock2r.spI_get_ind). intros x0 [Hx0 Hi]. spb ltac:(apply Clock2r.spI_stime_num; exact Hx0). intros st Hst. cbv beta in Hst.
      spb ltac:(apply (Clock2r.sp_put_ind_close cf inf_at t nn XHdyn _ _ _ _ i j'); [exact Hi|indok|good_tac]). intros _ _.
      repeat sp_step. }
    exact (RR' _ _ _ HI2 H).
  Qed.
  Lemma t_serve_with loc tr cr j sid : sp (InvG loc tr None cr) (InvG loc tr None cr) (serve_with cf j sid) top.
  Proof.
    intros s a s' (gc & HI) H. destruct a. split; [|exact Logic.I]. unfold serve_with in H.
    minv H nd s1 E. destruct (Clock2r.spI_get_node _ _ _ _ _ _ _ _ _ j _ _ _ HI E) as [_ [Hnd _]]. apply Renege2.get_node_inv in E as (-> & Hj & Hn).
    destruct (0 <? n_nint nd) eqn:En.
    { destruct (t_biis loc tr None gc cr j sid _ _ _ HI H) as [HJ _]. exists gc. exact HJ. }
    minv H cand s1 E. destruct (Clock2r.spI_choose_next_customer _ _ _ _ _ _ _ _ _ j _ _ _ HI E) as [HI1 _].
    destruct cand as [c|]; [|apply Renege2.ret_inv in H as [_ ->]; exists gc; exact HI1].
    apply Clock2r.choose_next_customer_inv in E as (E1 & E2 & nd' & x & _ & Hn' & Hq & Hx). rewrite <- E1 in Hn'. rewrite <- E2 in Hx.
    pose proof (Clock2r.Inv_open_member cf inf_at t nn XHdyn _ _ _ _ _ _ _ _ _ HI1 Hj Hn' Hq Hx) as HI2.
    destruct (t_start_give loc tr gc cr j c sid _ _ _ HI2 H) as [HI3 _]. exists gc. exact HI3.
  Qed.
  Lemma t_bsipr loc tr cr j freed : sp (InvG loc tr None cr) (InvG loc tr None cr) (begin_service_if_possible_release cf j freed) top.
  Proof.
    unfold begin_service_if_possible_release. destruct freed as [sid|]; [|apply Clock2r.sp_G; intros gc; apply Renege2.sp_ret; exact Logic.I].
    apply Clock2r.sp_openG. intros gc. spb ltac:(apply Clock2r.spI_get_node). intros nd _.
    destruct (find_server sid (n_servers nd)); [apply Clock2r.sp_fromG; apply t_serve_with|apply Clock2r.sp_retG].
  Qed.
  Lemma t_reset_TRec loc gc cr i :
    sp (Inv loc (TOut i) None gc cr) (Inv loc (TRec i) None gc cr) (reset_individual_attributes i) top.
  Proof.
    intros s a s' HI H. split; [|exact Logic.I].
    assert (HI1 : Inv loc (TOut i) None gc cr s') by (exact (proj1 (t_reset_individual_attributes loc (TOut i) None gc cr i _ _ _ HI H))).
    unfold reset_individual_attributes in H. apply Renege2.upd_ind_inv in H as (x & Hx & ->).
    destruct HI1 as (A & B & C & D0 & E & F & G & H & K & L). unfold Clock2r.Inv. repeat (split; [assumption|]). split; [|split; [exact G|auto]].
    rewrite Forall_forall in *. intros y Hy. apply Clock2r.IndOK_TOut_TRec; [apply F; exact Hy|]. intros Hyi.
    cbn [inds set] in Hy, E. pose proof (Renege2.find_ind_NoDup _ _ E Hy) as Hf. rewrite Renege2.find_put_ind in Hf. cbn [i_id set] in Hf.
    rewrite (Renege2.find_ind_id _ _ _ Hx), Hyi, Z.eqb_refl in Hf. injection Hf as <-. reflexivity.
  Qed.

  (* ---------- the step that needed the link: preempt with any option but reroute (in particular `resume`) ---------- *)
  Lemma noren_at : forall j0, Clock2r.ren_at cf j0 = false.
  Proof.
    intros j0. unfold Clock2r.ren_at, Clock2r.ncf. destruct (nthZ (cf_nodes cf) (j0 - 1)) as [nc|] eqn:E; [|reflexivity].
    destruct (nc_scope cf Hsc _ _ E) as (_ & H & _). exact H.
  Qed.
  Lemma c_preempt_clock rel j v c :
    sp (fun s => InvX TNone s /\ PVpre cf inf_at j v c s) (InvX TNone) (Renege2.preempt_body cf rel j v c) top.
  Proof.
    intros s a s' ((loc & cr & gc & HI) & (G & HL & (nd & sv & Hj & Hn & Hsv & Hcu) & _ & Hinfj)) H. unfold Renege2.preempt_body in H.
    minv H t0 s0 E. apply Renege2.tnow_inv in E as [-> ->].
    minv H vx s0 E. apply Renege2.get_ind_inv in E as [-> Hvx].
    minv H nc s0 E. apply Renege2.ncfg_of_inv in E as [-> Hc].
    destruct (nc_scope cf Hsc _ _ Hc) as (_ & _ & Hp4 & _). rewrite Hp4 in H.
    pose proof HL as (L1 & _ & _ & L4 & L5 & _).
    assert (Hnd : In nd (nodes s)) by (eapply Renege2.nthZ_In; exact Hn). assert (Hidn : n_id nd = j) by (eapply Renege2.Idx_get; eauto).
    destruct (L5 nd Hnd) as ((Minf & _ & _ & _ & Mslot & _) & _ & HH & _). destruct (HH sv v Hsv Hcu) as (sd & Q & [(j0 & s0' & Q')|(e & d & Q1 & Q2 & Q3)]); [discriminate Q'|].
    assert (Hsl : nc_slotted nc = false).
    { destruct (nc_slotted nc) eqn:Qs; [|reflexivity]. exfalso. rewrite Hidn, (slot_at_of cf _ _ Hc), Qs in Mslot. rewrite (Mslot eq_refl) in Hsv. exact Hsv. }
    rewrite Hidn, Hinfj in Minf. pose proof (L1 v) as K. rewrite Hvx, Q in K. cbn in K. injection K as K1 K2 K3.
    pose proof HI as (A & B & C & D0 & E0 & F & GN & HH0 & K0 & L0).
    assert (Hte : t <= e).
    { destruct (Renege2.nthZ_nat _ _ _ Hn) as [_ Hn']. destruct (GN _ _ Hn') as (_ & _ & _ & _ & (_ & _ & T2)). unfold Clock2r.ncf in T2. rewrite Hidn, Hc in T2.
      destruct T2 as [T2 _]. specialize (T2 Minf Hsl). rewrite Forall_forall in T2. specialize (T2 sv Hsv). unfold Clock2r.SvOK in T2. rewrite Q2 in T2. cbn in T2. lia. }
    assert (Hix : IndOK loc TNone None gc cr vx) by (rewrite Forall_forall in F; apply F; eapply Renege2.find_ind_In; eauto).
    pose proof (Renege2.find_ind_id _ _ _ Hvx) as Hid.
    minv H u1 s1 E. unfold put_ind in E. apply Renege2.modify_inv in E. subst s1.
    set (s1 := s <| inds := put_ind_l (vx <| i_ost := i_stime vx |>) (inds s) |>) in *.
    assert (HI1 : Inv loc TNone None gc cr s1) by (apply Clock2r.Inv_put_ind; [exact HI|indok]).
    assert (HE : Clock2r.Ends t [v] s1).
    { intros i [<-|[]]. exists (vx <| i_ost := i_stime vx |>). split; [unfold s1; cbn [inds set]; rewrite Renege2.find_put_ind; cbn [i_id set]; rewrite Hid, Z.eqb_refl; reflexivity|].
      exists e. cbn. rewrite K3, Q1. split; [reflexivity|exact Hte]. }
    match type of H with ?m _ = _ => assert (RR : sp (fun s => Inv loc TNone None gc cr s /\ Clock2r.Ends t [v] s) (InvX TNone) m top) end.
    { eapply Renege2.sp_bind with (phi := top) (J := Inv loc TNone None gc cr).
      { eapply Renege2.sp_bind with (phi := top); [apply Clock2r.sp_conj_ke; [apply t_write_interruption_record|apply Clock2r.ke_write_interruption_record]|]. intros _ _.
        eapply Renege2.sp_bind with (phi := top) (J := Inv loc TNone None gc cr).
        { intros s2 a2 s2' [HI2 HE2] H2. split; [|exact Logic.I]. apply Renege2.upd_ind_inv in H2 as (x & Hx & ->).
          destruct (HE2 v (or_introl eq_refl)) as (x0 & Hx0 & e' & He' & Hle'). rewrite Hx in Hx0. injection Hx0 as <-.
          assert (Hix2 : IndOK loc TNone None gc cr x).
          { destruct HI2 as (_ & _ & _ & _ & _ & F2 & _). rewrite Forall_forall in F2. apply F2. eapply Renege2.find_ind_In; eauto. }
          apply Clock2r.Inv_put_ind; [exact HI2|]. pose proof Hix2 as (_ & (N1 & N2 & N3 & N4) & _).
          apply (Clock2r.IndOK_irel cf inf_at t XHdyn _ _ _ _ _ x _ Hix2); first [ (cbn; intros _; apply Clock2.NN_Some; rewrite He'; cbn; lia) | irel_tac ]. }
        intros _ _. spb ltac:(apply Renege2.sp_lift). intros sid _.
        spb ltac:(apply Clock2r.spI_detatch_server_free; [exact XHdyn|exact noren_at]). intros _ _.
        apply Clock2r.spI_decide_class_change_nodyn. exact XHdyn. }
      intros _ _. spb ltac:(apply Renege2.sp_lift). intros sid _. eapply Clock2r.sp_toX. apply t_start_preemptor. }
    exact (RR _ _ _ (conj HI1 HE) H).
  Qed.

  (* ---------- the recursive core, for Clock2r's invariant together with the link ---------- *)
  Definition CT (s : sim) : Prop := InvX TNone s /\ LKX cf inf_at None None s.
  Lemma c_preempt_body rel j v c : sp (fun s => InvX TNone s /\ PVpre cf inf_at j v c s) CT (Renege2.preempt_body cf rel j v c) top.
  Proof.
    intros s a s' [HI HP] H. split; [|exact Logic.I]. split; [exact (proj1 (c_preempt_clock rel j v c _ _ _ (conj HI HP) H))|].
    exact (proj1 (lk_preempt_body cf Hsc rel j v c _ _ _ HP H)).
  Qed.
  Lemma c_accept_rest loc cr pre j k nc :
    (forall j0 v c, sp (fun s => InvX TNone s /\ PVpre cf inf_at j0 v c s) CT (pre j0 v c) top) ->
    sp (fun s => InvG loc TNone None cr s /\ AR cf inf_at j k s) CT (Renege2.accept_rest cf pre j k nc) top.
  Proof.
    intros Hpr s a s' ((gc & HI) & (G & HL & (sdk & Hgk))) H. destruct a. split; [|exact Logic.I]. unfold Renege2.accept_rest in H.
    minv H u0 s0 E. destruct (Clock2r.spI_decide_class_change_nodyn cf inf_at t nn loc TNone None gc cr j k XHdyn _ _ _ HI E) as [HI0 _].
    destruct (lk_decide_class_change cf Hsc G None None j k _ _ _ HL E) as [HL0 _]. clear E HI HL.
    minv H nd1 s1 E. destruct (lk_get_node G None None j _ _ _ HL0 E) as [_ [Hnd1 Hidn1]]. apply Renege2.get_node_inv in E as (-> & Hj & Hn). cbv zeta in H.
    destruct Hnd1 as ((Minf & _) & _). rewrite Minf, Hidn1 in H. destruct (inf_at j) eqn:Einf.
    { minv H cand s1 E. apply Renege2.ret_inv in E as [-> ->].
      split; [eapply Clock2r.InvX_of; exact (proj1 (t_start_fresh loc TNone None gc cr j k None true _ _ _ HI0 H))|].
      exact (proj1 (lk_start_fresh_none cf Hsc G None j k (Some j) sdk true Hgk _ _ _ HL0 H)). }
    minv H cand s1 E. destruct (Clock2r.spI_choose_next_customer cf inf_at t nn loc TNone None gc cr j _ _ _ HI0 E) as [HI1 _].
    destruct (lk_choose_next_customer cf G None None j _ _ _ HL0 E) as [HL1 _].
    destruct cand as [c|]; [|apply Renege2.ret_inv in H as [_ ->]; split; [eapply Clock2r.InvX_of; exact HI1|exists G; exact HL1]].
    apply cnc_inv in E as (E1 & E2 & nd' & x & _ & Hn' & Hq & Hx & Hs). rewrite <- E1 in Hn'. rewrite <- E2 in Hx.
    destruct (waiting_ghost G None None s1 j nd' c x HL1 Hj Hn' Hq Hx Hs) as [(sd & Hg) HT].
    minv H cx s2 E. apply Renege2.get_ind_inv in E as [-> _].
    destruct (find_free_server_for (nc_spf nc) (i_cls cx) (n_servers nd1)) as [sv|].
    - split; [eapply Clock2r.InvX_of; exact (proj1 (t_start_fresh loc TNone None gc cr j c (Some (sv_id sv)) true _ _ _ HI1 H))|].
      exact (proj1 (lk_start_fresh cf Hsc G None j c (sv_id sv) sd true Hg HT Einf _ _ _ HL1 H)).
    - destruct (0 <? numo (n_c nd1)); [|apply Renege2.ret_inv in H as [_ ->]; split; [eapply Clock2r.InvX_of; exact HI1|exists G; exact HL1]].
      minv H v s2 E. destruct (Clock2r.spI_preempt_victim cf inf_at t nn loc TNone None gc cr j c _ _ _ HI1 E) as [HI2 _].
      apply Preempt2.preempt_victim_spec in E as (-> & nc0 & Hc0 & Hz & Hnz).
      destruct v as [vi|]; [|apply Renege2.ret_inv in H as [_ ->]; split; [eapply Clock2r.InvX_of; exact HI2|exists G; exact HL1]].
      assert (Hne : nc_preempt nc0 <> 0) by (intros Q; specialize (Hz Q); discriminate Hz).
      destruct (Hnz Hne) as (nd & x0 & Hnd & _ & _ & _ & (spre & sv & spost & vx & Hsp & Hcu & _)).
      unfold Preempt2.node_at in Hnd. destruct (j <? 1) eqn:Ej; [discriminate|].
      refine (proj1 (Hpr j vi c _ _ _ _ H)). split; [eapply Clock2r.InvX_of; exact HI2|]. exists G. split; [exact HL1|]. split; [|split; [exists sd; exact Hg|exact Einf]].
      exists nd, sv. split; [exact Hj|]. split; [exact Hnd|]. split; [rewrite Hsp; apply in_or_app; right; left; reflexivity|exact Hcu].
  Qed.
  Lemma LKX_after_stamp s k x nd j q rd rest : LKX cf inf_at None (Some (k, true)) s -> find_ind k (inds s) = Some x -> 1 <= j -> nthZ (nodes s) (j - 1) = Some nd ->
    nthZ (n_queues nd) (i_prio x) = Some q -> AR cf inf_at j k (Renege2.after_stamp s x nd j q rd rest).
  Proof.
    intros (G & HI) Hx Hj Hn Hq. pose proof HI as (H1 & H2 & H3 & H4 & H5 & H6 & H7). destruct (H7 k eq_refl) as (b & sd & Hgk).
    assert (Hnd : In nd (nodes s)) by (eapply Renege2.nthZ_In; exact Hn). assert (Hidn : n_id nd = j) by (eapply Renege2.Idx_get; eauto).
    pose proof (Renege2.find_ind_id _ _ _ Hx) as Hid. pose proof (okr_of _ _ _ _ _ _ HI Hx) as Hox. unfold okr in Hox. rewrite Hid, Hgk in Hox. injection Hox as K1 K2 K3.
    set (x' := Renege2.accepted_ind x j (n_pop nd) (now s) rd) in *. destruct (acc_key x j (n_pop nd) (now s) rd) as [Ek Eid]. fold x' in Ek, Eid.
    assert (HI1 : LKI cf inf_at (upg G k (Some (key x'))) None (Some (k, true)) (s <| inds := put_ind_l x' (inds s) |>)).
    { apply (LKI_rec G None _ s k x x' HI Hx); [rewrite Eid; exact Hid|left; split; [eapply NoHold_G; eauto|right; exists true; reflexivity]|intros j0 s0 Q; discriminate Q| |left; reflexivity].
      intros _. transitivity (i_server x); [reflexivity|symmetry; exact K1]. }
    set (nd1 := nd <| n_queues := updZ (n_queues nd) (i_prio x) (q ++ [i_id x]) |> <| n_pop := n_pop nd + 1 |>) in *.
    assert (HI2 : LKI cf inf_at (upg G k (Some (key x'))) None None ((s <| inds := put_ind_l x' (inds s) |>) <| nodes := updZ (nodes s) (n_id nd1 - 1) nd1 |>)).
    { apply (LKI_insert _ None (s <| inds := put_ind_l x' (inds s) |>) nd nd1 (i_prio x) q k true (i_server x) (i_send x) HI1 Hnd); try reflexivity.
      - rewrite upg_same, Ek, Hidn. reflexivity.
      - intros _. symmetry. exact K1.
      - exact Hq.
      - unfold nd1. cbn. rewrite Hid. reflexivity. }
    exists (upg G k (Some (key x'))). split; [eapply LKI_same; [exact HI2|reflexivity|reflexivity|cbn; lia]|]. exists (i_send x). rewrite upg_same, Ek, <- K1. reflexivity.
  Qed.
  Lemma c_accept_body pre j k :
    (forall j0 v c, sp (fun s => InvX TNone s /\ PVpre cf inf_at j0 v c s) CT (pre j0 v c) top) ->
    sp (fun s => InvX (TRec k) s /\ LKX cf inf_at None (Some (k, true)) s) CT (Renege2.accept_body cf pre j k) top.
  Proof.
    intros Hpr s a s' ((loc & cr & gc & HI) & HL) H. destruct a.
    apply Renege2.accept_stamps in H as (x & nd & q & nc & rd & rest & Hx & Hj & Hn & Hq & Hc & Hst & H).
    pose proof (Clock2r.Inv_after_stamp cf inf_at t nn XHdyn _ _ _ _ _ _ _ _ _ _ _ _ HI Hx Hj Hn Hq Hc Hst) as HI1.
    pose proof (LKX_after_stamp s k x nd j q rd rest HL Hx Hj Hn Hq) as HL1.
    exact (c_accept_rest _ cr pre j k nc Hpr _ _ _ (conj (Clock2r.InvG_of _ _ _ _ _ _ _ _ _ _ HI1) HL1) H).
  Qed.

  Lemma sp_conj {A} (I1 J1 I2 J2 : sim -> Prop) (m : M A) phi psi : sp I1 J1 m phi -> sp I2 J2 m psi ->
    sp (fun s => I1 s /\ I2 s) (fun s => J1 s /\ J2 s) m (fun a => phi a /\ psi a).
  Proof. intros H1 H2 s a s' [K1 K2] H. destruct (H1 _ _ _ K1 H) as [A1 B1]. destruct (H2 _ _ _ K2 H) as [A2 B2]. auto. Qed.
  Ltac zip L1 L2 := eapply Renege2.sp_bind; [apply sp_conj; [L1|L2]|].
  Ltac okr_ok := match goal with H : okr ?G ?x |- okr ?G _ => unfold okr, key in *; cbn; exact H end.

  Lemma c_release_body acc rbi j i d :
    (forall d' k, sp (fun s => InvX (TRec k) s /\ LKX cf inf_at None (Some (k, true)) s) CT (acc d' k) top) -> (forall j', sp CT CT (rbi j') top) ->
    sp (fun s => InvX TNone s /\ RP cf inf_at j i s) CT (Renege2.release_body cf acc rbi j i d false) top.
  Proof.
    intros Hacc Hrbi s a s' ((loc & cr & gc & HI) & (G & X & HL & HX)) H. unfold Renege2.release_body in H.
    minv H t0 s0 E. apply Renege2.tnow_inv in E as [-> ->].
    minv H x s0 E. apply Renege2.get_ind_inv in E as [-> Hx].
    minv H nd s0 E. apply Renege2.get_node_inv in E as (-> & Hj & Hn).
    minv H nc s0 E. apply Renege2.ncfg_of_inv in E as [-> Hc].
    minv H q s0 E. apply Renege2.lift_inv in E as [Hq ->]. minv H q' s0 E. apply Renege2.lift_inv in E as [Hq' ->].
    cbv zeta in H. minv H u s1 E. match type of E with put_node ?n _ = _ => set (nd1 := n) in * end.
    unfold put_node in E. apply Renege2.modify_inv in E. subst s1.
    pose proof (Renege2.find_ind_id _ _ _ Hx) as Hid.
    assert (Hnc : cf_dyn cf = true -> nd_inf nd = false -> n_ncci nd = Some i -> @None (Z * Z) = Some (i, j)) by (intros Hd; pose proof XHdyn; congruence).
    assert (HI1 := Clock2r.Inv_remove cf inf_at t nn XHdyn loc None gc cr s j nd nd1 (i_pprio x) q q' i HI Hj Hn Hq Hq' eq_refl eq_refl eq_refl eq_refl eq_refl eq_refl eq_refl eq_refl eq_refl eq_refl Hnc).
    assert (Hix : IndOK loc (TOut i) None gc cr x).
    { apply Clock2r.IndOK_TNone_TOut. destruct HI as (_ & _ & _ & _ & _ & F & _). rewrite Forall_forall in F. apply F. eapply Renege2.find_ind_In; eauto. }
    assert (Ho : Renege2.out (TOut i) i = true) by (cbn; apply Z.eqb_refl).
    pose proof HL as (L1 & L2 & L3 & L4 & L5 & L6 & L7).
    assert (Hnd : In nd (nodes s)) by (eapply Renege2.nthZ_In; exact Hn). assert (Hidn : n_id nd = j) by (eapply Renege2.Idx_get; eauto).
    assert (Hq_in : In i (all_individuals nd)).
    { apply Renege2.nthZ_In in Hq. unfold all_individuals. apply in_concat. exists q. split; [exact Hq|]. eapply Permutation_in; [symmetry; apply (Renege2.remove_first_perm _ _ _ Hq')|left; reflexivity]. }
    destruct (L5 nd Hnd) as ((Minf & _) & _ & _ & _ & HLc & _). destruct (HLc i Hq_in) as (a0 & sd0 & Hgi & Hgin). rewrite Hidn in Hgi, Hgin, Minf.
    pose proof (okr_of _ _ _ _ _ _ HL Hx) as Hox.
    assert (HL1 := LKI_remove G X s nd nd1 (i_pprio x) q q' i HL Hnd Hq Hq' eq_refl eq_refl eq_refl eq_refl eq_refl eq_refl eq_refl eq_refl).
    cbv iota in H. rewrite Minf in H. destruct (nc_slotted nc) eqn:Hsl.
    { (* a slotted node *)
      replace (negb (inf_at j) && negb true) with false in H by (destruct (inf_at j); reflexivity). cbv iota in H.
      assert (HXn : X = None) by (destruct HX as [HX|(c2 & sid0 & b & sd & HX & Hg2 & Hns)]; [exact HX|rewrite (slot_at_of cf _ _ Hc), Hsl in Hns; discriminate Hns]). subst X.
      match type of H with ?m _ = _ => assert (RR : sp (fun s => Inv loc (TOut i) None gc cr s /\ LKI cf inf_at G None (Some (i, false)) s) CT m top) end.
      { zip ltac:(apply Clock2r.spI_put_ind; indok) ltac:(apply lk_put_ind; okr_ok). intros _ _.
        zip ltac:(apply t_write_individual_record) ltac:(apply (lk_write_individual_record cf)). intros _ _.
        eapply Renege2.sp_bind with (phi := fun f => f = None); [apply Renege2.sp_ret; reflexivity|]. intros freed ->.
        set (G1 := upg G i (Some (None, Some j, sd0))).
        eapply Renege2.sp_bind with (phi := top) (J := fun s => Inv loc (TOut i) None gc cr s /\ LKI cf inf_at G1 None (Some (i, false)) s).
        { eapply Renege2.sp_top. apply sp_conj; [apply Clock2r.spI_upd_ind; intros y Hy Hyi; pose proof Hyi as (_ & (? & ? & ? & ?) & _);
                          apply (Clock2r.IndOK_orel cf inf_at t _ _ _ _ _ y _ Hyi); [rewrite Hy; exact Ho|reflexivity|reflexivity|irel_tac..]|apply (lk_unserve_slot cf inf_at G _ i a0 j sd0); [rewrite (slot_at_of cf _ _ Hc); exact Hsl|exact Hgi]]. }
        intros _ _.
        eapply Renege2.sp_pre with (I := fun s => Inv loc (TOut i) None gc cr s /\ LKI cf inf_at G1 None (Some (i, true)) s);
          [|intros s2 [H2a H2b]; split; [exact H2a|apply LKI_flag; [exact H2b|unfold G1; rewrite upg_same; eauto]]].
        eapply Renege2.sp_bind with (phi := top);
          [eapply Renege2.sp_top; apply sp_conj; [apply t_reset_TRec|unfold reset_individual_attributes; apply (lk_upd_free G1 None _ i _ (Some j) sd0 None); [unfold G1; apply upg_same|intros y; repeat split; reflexivity]]|]. intros _ _.
        eapply Renege2.sp_bind with (phi := top) (J := fun s => InvG loc (TRec i) None cr s /\ LKX cf inf_at None (Some (i, true)) s).
        { intros s2 a2 s2' [H2a H2b] E2. split; [|exact Logic.I]. split.
          - exact (proj1 (t_bsipr loc (TRec i) cr j None _ _ _ (Clock2r.InvG_of _ _ _ _ _ _ _ _ _ _ H2a) E2)).
          - assert (HX2 : LKX cf inf_at None (Some (i, true)) s2) by (eexists; exact H2b). exact (proj1 (lk_bsipr cf Hsc _ j None ltac:(intros Q; contradiction) _ _ _ HX2 E2)). }
        intros _ _. eapply Renege2.sp_bind with (phi := top) (J := CT); [|intros _ _; apply Hrbi].
        destruct (d =? -1).
        - intros s2 a2 s2' [(gc' & H2a) H2b] E2. split; [|exact Logic.I]. split.
          + eapply Clock2r.InvX_of. exact (proj1 (Clock2r.sp_exit_accept cf inf_at t nn loc gc' cr i true _ _ _ H2a E2)).
          + exact (proj1 (lk_exit_accept i true _ _ _ H2b E2)).
        - intros s2 a2 s2' [H2a H2b] E2. apply (Hacc d i _ _ _ (conj (Clock2r.InvX_ofG _ _ _ _ _ _ _ _ H2a) H2b) E2). }
      destruct a. exact (RR _ _ _ (conj HI1 HL1) H). }
    destruct (inf_at j) eqn:Einf; cbn [negb andb] in H; cbv iota in H.
    { (* a node with infinitely many servers *)
      assert (a0 = None) by (apply Hgin; reflexivity). subst a0.
      assert (HXn : X = None) by (destruct HX as [HX|(c2 & sid0 & b & sd & HX & Hg2 & _)]; [exact HX|rewrite Hgi in Hg2; discriminate Hg2]). subst X.
      match type of H with ?m _ = _ => assert (RR : sp (fun s => Inv loc (TOut i) None gc cr s /\ LKI cf inf_at G None (Some (i, false)) s) CT m top) end.
      { zip ltac:(apply Clock2r.spI_put_ind; indok) ltac:(apply lk_put_ind; okr_ok). intros _ _.
        zip ltac:(apply t_write_individual_record) ltac:(apply (lk_write_individual_record cf)). intros _ _.
        eapply Renege2.sp_bind with (phi := fun f => f = None); [apply Renege2.sp_ret; reflexivity|]. intros freed ->.
        eapply Renege2.sp_pre with (I := fun s => Inv loc (TOut i) None gc cr s /\ LKI cf inf_at G None (Some (i, true)) s);
          [|intros s2 [H2a H2b]; split; [exact H2a|apply LKI_flag; [exact H2b|rewrite Hgi; eauto]]].
        eapply Renege2.sp_bind with (phi := top); [apply Renege2.sp_ret; exact Logic.I|]. intros _ _.
        eapply Renege2.sp_bind with (phi := top);
          [eapply Renege2.sp_top; apply sp_conj; [apply t_reset_TRec|unfold reset_individual_attributes; apply (lk_upd_free G None _ i _ (Some j) sd0 None); [exact Hgi|intros y; repeat split; reflexivity]]|]. intros _ _.
        eapply Renege2.sp_bind with (phi := top) (J := fun s => InvG loc (TRec i) None cr s /\ LKX cf inf_at None (Some (i, true)) s).
        { intros s2 a2 s2' [H2a H2b] E2. split; [|exact Logic.I]. split.
          - exact (proj1 (t_bsipr loc (TRec i) cr j None _ _ _ (Clock2r.InvG_of _ _ _ _ _ _ _ _ _ _ H2a) E2)).
          - assert (HX2 : LKX cf inf_at None (Some (i, true)) s2) by (eexists; exact H2b). exact (proj1 (lk_bsipr cf Hsc _ j None ltac:(intros Q; contradiction) _ _ _ HX2 E2)). }
        intros _ _. eapply Renege2.sp_bind with (phi := top) (J := CT); [|intros _ _; apply Hrbi].
        destruct (d =? -1).
        - intros s2 a2 s2' [(gc' & H2a) H2b] E2. split; [|exact Logic.I]. split.
          + eapply Clock2r.InvX_of. exact (proj1 (Clock2r.sp_exit_accept cf inf_at t nn loc gc' cr i true _ _ _ H2a E2)).
          + exact (proj1 (lk_exit_accept i true _ _ _ H2b E2)).
        - intros s2 a2 s2' [H2a H2b] E2. apply (Hacc d i _ _ _ (conj (Clock2r.InvX_ofG _ _ _ _ _ _ _ _ H2a) H2b) E2). }
      destruct a. exact (RR _ _ _ (conj HI1 HL1) H). }
    match type of H with ?m _ = _ => assert (RR : sp (fun s => Inv loc (TOut i) None gc cr s /\ LKI cf inf_at G X (Some (i, false)) s) CT m top) end.
    { zip ltac:(apply Clock2r.spI_put_ind; indok) ltac:(apply lk_put_ind; okr_ok). intros _ _.
      zip ltac:(apply t_write_individual_record) ltac:(apply (lk_write_individual_record cf)). intros _ _.
      eapply Renege2.sp_bind with (phi := top) (J := fun s => Inv loc (TOut i) None gc cr s /\ LKI cf inf_at (upg G i (Some (None, Some j, sd0))) None (Some (i, false)) s).
      { zip ltac:(apply Clock2r.spI_get_ind) ltac:(apply lk_get_ind). intros x1 [_ [Hi1 Ho1]].
        zip ltac:(apply Renege2.sp_lift) ltac:(apply Renege2.sp_lift). intros sid [Hs1 _]. cbv beta in Hs1.
        unfold okr in Ho1. rewrite Hi1, Hgi in Ho1. injection Ho1 as K1 K2 K3. rewrite Hs1 in K1.
        eapply Renege2.sp_bind with (phi := top); [eapply Renege2.sp_top; apply sp_conj; [apply Clock2r.spI_detatch_server; exact Ho|apply (lk_detach G X _ j sid i sd0)]|intros _ _; apply Renege2.sp_ret; exact Logic.I].
        - rewrite Hgi, K1. reflexivity.
        - destruct HX as [HX|(c2 & sid0 & b & sd & HX & Hg2 & _)]; [left; exact HX|right]. exists c2. rewrite Hgi, K1 in Hg2. injection Hg2 as <- _ _. exact HX. }
      intros freed _. set (G1 := upg G i (Some (None, Some j, sd0))).
      eapply Renege2.sp_pre with (I := fun s => Inv loc (TOut i) None gc cr s /\ LKI cf inf_at G1 None (Some (i, true)) s);
        [|intros s2 [H2a H2b]; split; [exact H2a|apply LKI_flag; [exact H2b|unfold G1; rewrite upg_same; eauto]]].
      eapply Renege2.sp_bind with (phi := top); [apply Renege2.sp_ret; exact Logic.I|]. intros _ _.
      eapply Renege2.sp_bind with (phi := top);
        [eapply Renege2.sp_top; apply sp_conj; [apply t_reset_TRec|unfold reset_individual_attributes; apply (lk_upd_free G1 None _ i _ (Some j) sd0 None); [unfold G1; apply upg_same|intros y; repeat split; reflexivity]]|]. intros _ _.
      eapply Renege2.sp_bind with (phi := top) (J := fun s => InvG loc (TRec i) None cr s /\ LKX cf inf_at None (Some (i, true)) s).
      { intros s2 a2 s2' [H2a H2b] E2. split; [|exact Logic.I]. split.
        - exact (proj1 (t_bsipr loc (TRec i) cr j freed _ _ _ (Clock2r.InvG_of _ _ _ _ _ _ _ _ _ _ H2a) E2)).
        - assert (HX2 : LKX cf inf_at None (Some (i, true)) s2) by (eexists; exact H2b). exact (proj1 (lk_bsipr cf Hsc _ j freed (fun _ => Einf) _ _ _ HX2 E2)). }
      intros _ _. eapply Renege2.sp_bind with (phi := top) (J := CT); [|intros _ _; apply Hrbi].
      destruct (d =? -1).
      - intros s2 a2 s2' [(gc' & H2a) H2b] E2. split; [|exact Logic.I]. split.
        + eapply Clock2r.InvX_of. exact (proj1 (Clock2r.sp_exit_accept cf inf_at t nn loc gc' cr i true _ _ _ H2a E2)).
        + exact (proj1 (lk_exit_accept i true _ _ _ H2b E2)).
      - intros s2 a2 s2' [H2a H2b] E2. apply (Hacc d i _ _ _ (conj (Clock2r.InvX_ofG _ _ _ _ _ _ _ _ H2a) H2b) E2). }
    destruct a. exact (RR _ _ _ (conj HI1 HL1) H).
  Qed.
  Lemma c_rbi_body rel j : sp CT CT (Renege2.rbi_body cf rel j) top.
  Proof.
    intros s a s' [HI HL] H. pose proof H as H'. split; [|exact Logic.I]. split; [|exact (proj1 (lk_rbi_body cf rel j _ _ _ HL H))].
    destruct HI as (loc & cr & gc & HI). unfold Renege2.rbi_body in H. minv H nd s1 E. destruct (Clock2r.spI_get_node cf inf_at t nn loc TNone None gc cr j _ _ _ HI E) as [HI1 [Hnd _]].
    minv H nc s2 E2. apply Renege2.ncfg_of_inv in E2 as [-> _]. destruct Hnd as (_ & _ & _ & _ & ((_ & Hb) & _)).
    assert (E0 : (0 <? n_lenbq nd) = false) by (apply Z.ltb_ge; lia). rewrite E0 in H. cbn [andb] in H. apply Renege2.ret_inv in H as [_ ->]. eapply Clock2r.InvX_of. exact HI1.
  Qed.
  Lemma c_core : forall f,
    (forall j i d, sp (fun s => InvX TNone s /\ RP cf inf_at j i s) CT (release cf f j i d false) top) /\
    (forall j, sp CT CT (release_blocked_individual cf f j) top) /\
    (forall j k, sp (fun s => InvX (TRec k) s /\ LKX cf inf_at None (Some (k, true)) s) CT (accept cf f j k) top) /\
    (forall j v c, sp (fun s => InvX TNone s /\ PVpre cf inf_at j v c s) CT (preempt cf f j v c) top).
  Proof.
    induction f as [|f (IH1 & IH2 & IH3 & IH4)]; [split; [|split; [|split]]; intros; intros s0 a0 s0' _ Hx; cbn in Hx; discriminate Hx|].
    split; [|split; [|split]]; intros.
    - rewrite Renege2.release_S. apply c_release_body; assumption.
    - rewrite Renege2.rbi_S. apply c_rbi_body.
    - rewrite Renege2.accept_S. apply c_accept_body. exact IH4.
    - rewrite Renege2.preempt_S. apply c_preempt_body.
  Qed.

  (* ---------- the events ---------- *)
  Lemma c_release f j i d : sp (fun s => InvX TNone s /\ RP cf inf_at j i s) CT (release cf f j i d false) top.
  Proof. apply c_core. Qed.
  Lemma c_accept f j k : sp (fun s => InvX (TRec k) s /\ LKX cf inf_at None (Some (k, true)) s) CT (accept cf f j k) top.
  Proof. apply c_core. Qed.
  Lemma to_CT loc tr gc cr G X T s : Inv loc tr None gc cr s -> LKI cf inf_at G X T s -> InvX tr s /\ LKX cf inf_at X T s.
  Proof. intros H1 H2. split; [eapply Clock2r.InvX_of; exact H1|exists G; exact H2]. Qed.

  Lemma c_finish_service j : sp CT CT (finish_service cf j) top.
  Proof.
    intros s a s' [(loc & cr & gc & HI) (G & HL)] H.
    assert (RR : sp (fun s => Inv loc TNone None gc cr s /\ LKI cf inf_at G None None s) CT (finish_service cf j) top).
    { unfold finish_service. zip ltac:(apply Clock2r.spI_get_node) ltac:(apply lk_get_node). intros nd [_ [Hnd Hj]]. destruct Hnd as ((Minf & _) & _).
      zip ltac:(apply Clock2r.spI_decide_between) ltac:(apply lk_decide_between). intros i _.
      zip ltac:(apply t_change_customer_class) ltac:(apply lk_change_customer_class). intros _ _.
      zip ltac:(apply t_next_node_for) ltac:(apply lk_next_node_for). intros d _.
      zip ltac:(apply Clock2r.spI_upd_ind; intros; indok) ltac:(apply lk_upd_ind; intros; okr_ok). intros _ _.
      zip ltac:(apply Clock2r.spI_ncfg_of) ltac:(apply Renege2.sp_lift). intros nc [_ Hc]. cbv beta in Hc. rewrite Minf.
      eapply Renege2.sp_bind with (phi := top) (J := fun s => Inv loc TNone None gc cr s /\ RP cf inf_at j i s).
      { destruct (negb (inf_at (n_id nd)) && negb (nc_slotted nc)) eqn:Esrv;
          [|eapply Renege2.sp_post; [apply Renege2.sp_ret; exact Logic.I|]; intros s2 [H2a H2b]; split; [exact H2a|exists G, None; split; [exact H2b|left; reflexivity]]].
        apply andb_true_iff in Esrv as [_ Esl]. apply negb_true_iff in Esl.
        zip ltac:(apply Clock2r.spI_get_ind) ltac:(apply lk_get_ind). intros x [_ [Hi Ho]]. zip ltac:(apply Renege2.sp_lift) ltac:(apply Renege2.sp_lift). intros sid [Hs _]. cbv beta in Hs.
        eapply Renege2.sp_top. apply sp_conj; [apply Clock2r.spI_set_next_end; exact Logic.I|].
        eapply Renege2.sp_post; [apply lk_sne_open|]. intros s2 (X' & HI2 & HX'). exists G, X'. split; [exact HI2|].
        destruct HX' as [->|(c2 & ->)]; [left; reflexivity|right]. exists c2, sid, (i_node x), (i_send x). split; [reflexivity|].
        split; [|rewrite (slot_at_of cf _ _ Hc); exact Esl].
        unfold okr in Ho. rewrite Hi in Ho. rewrite Ho. unfold key. rewrite Hs. reflexivity. }
      intros _ _. eapply Renege2.sp_bind with (phi := fun b => b = true) (J := fun s => Inv loc TNone None gc cr s /\ RP cf inf_at j i s).
      { intros s2 b s2' [H2a (G2 & X2 & HI2 & HX2)] E2. destruct (lk_has_space_true cf Hsc G2 X2 None d _ _ _ HI2 E2) as [HI3 Hb].
        destruct (Clock2r.spI_has_space cf inf_at t nn loc TNone None gc cr d _ _ _ H2a E2) as [H3a _]. split; [split; [exact H3a|exists G2, X2; auto]|exact Hb]. }
      intros space ->. eapply Renege2.sp_bind with (phi := top) (J := fun s => Inv loc TNone None gc cr s /\ RP cf inf_at j i s);
        [intros s2 fl s2' HR E2; apply Renege2.gets_inv in E2 as [_ ->]; split; [exact HR|exact Logic.I]|].
      intros fl _. intros s2 a2 s2' [H2a H2b] E2. apply (c_release fl j i d _ _ _ (conj (Clock2r.InvX_of _ _ _ _ _ _ _ _ _ H2a) H2b) E2). }
    exact (RR _ _ _ (conj HI HL) H).
  Qed.

  Lemma c_send_individual loc gc cr G j k :
    sp (fun s => Inv loc (TRec k) None gc cr s /\ LKI cf inf_at G None (Some (k, true)) s) CT (send_individual cf j k) top.
  Proof.
    unfold send_individual. zip ltac:(apply Clock2r.spI_same; intros ?; repeat split; reflexivity) ltac:(apply lk_modify; intros s; cbn; repeat split; lia). intros _ _.
    zip ltac:(apply Renege2.sp_gets) ltac:(apply Renege2.sp_gets). intros fl _.
    intros s2 a2 s2' [H2a H2b] E2. apply (c_accept fl j k _ _ _ (to_CT _ _ _ _ _ _ _ _ H2a H2b) E2).
  Qed.
  Lemma c_turn_away loc gc cr G j k ty :
    sp (fun s => Inv loc (TRec k) None gc cr s /\ LKI cf inf_at G None (Some (k, true)) s) CT (write_br_record j k ty ;;; exit_accept k false) top.
  Proof.
    zip ltac:(apply t_write_br_record) ltac:(apply lk_write_br_record). intros _ _.
    intros s2 a2 s2' [H2a H2b] E2. split; [|exact Logic.I]. split.
    - eapply Clock2r.InvX_of. exact (proj1 (Clock2r.sp_exit_accept cf inf_at t nn loc gc cr k false _ _ _ H2a E2)).
    - assert (HX2 : LKX cf inf_at None (Some (k, true)) s2) by (eexists; exact H2b). exact (proj1 (lk_exit_accept k false _ _ _ HX2 E2)).
  Qed.
  Lemma c_release_individual loc gc cr G j k :
    sp (fun s => Inv loc (TRec k) None gc cr s /\ LKI cf inf_at G None (Some (k, true)) s) CT (release_individual cf j k) top.
  Proof.
    unfold release_individual. zip ltac:(apply Clock2r.spI_get_ind) ltac:(apply lk_get_ind). intros x _.
    zip ltac:(apply Clock2r.spI_get_node) ltac:(apply lk_get_node). intros nd _.
    zip ltac:(apply Clock2r.spI_ncfg_of) ltac:(apply Renege2.sp_lift). intros nc _.
    zip ltac:(apply Clock2r.spI_sys_population) ltac:(apply lk_sys_population). intros sp0 _. cbv zeta.
    destruct (_ || _); [apply c_turn_away|].
    zip ltac:(apply Renege2.sp_lift) ltac:(apply Renege2.sp_lift). intros tabs _. zip ltac:(apply Renege2.sp_lift) ltac:(apply Renege2.sp_lift). intros tab _.
    destruct tab as [tb|]; [|apply c_send_individual].
    zip ltac:(apply Clock2r.spI_draw_unif) ltac:(apply lk_draw_unif). intros u _. cbv zeta.
    destruct (_ <? _); [apply c_turn_away|apply c_send_individual].
  Qed.
  Lemma c_batch_loop : forall n j c p, sp CT CT (batch_loop cf n j c p) top.
  Proof.
    induction n as [|n IH]; intros j c p; cbn [batch_loop]; [apply Renege2.sp_ret; exact Logic.I|].
    intros s a s' [(loc & cr & gc & HI) (G & HL)] H.
    minv H u s1 E. apply Renege2.modify_inv in E. subst s1.
    minv H i s1 E. apply Renege2.gets_inv in E as [-> ->]. cbn [arr set a_created] in H.
    minv H u0 s1 E. assert (s1 = s <| arr := arr s <| a_created := a_created (arr s) + 1 |> |>) as -> by (destruct (1 <=? j); [apply Renege2.ret_inv in E as [_ ->]; reflexivity|discriminate]). clear E.
    minv H nd0 s1 E. apply Renege2.get_node_inv in E as (-> & _).
    minv H r s1 E. apply Renege2.route_of_inv in E as ->.
    minv H u1 s1 E. unfold put_ind in E. apply Renege2.modify_inv in E. subst s1.
    assert (Hcr : a_created (arr s) = cr) by apply HI. rewrite Hcr in H.
    pose proof (Clock2r.Inv_create cf inf_at t nn loc gc cr s c p r HI) as HI1. rewrite Hcr in HI1.
    set (s1 := s <| arr := arr s <| a_created := cr + 1 |> |>) in *.
    assert (HLa : LKI cf inf_at G None None s1) by (eapply LKI_same; [exact HL|reflexivity|reflexivity|unfold s1; cbn; lia]).
    assert (Hgi : G (cr + 1) = None).
    { destruct (G (cr + 1)) eqn:Eg; [|reflexivity]. exfalso. destruct HL as (_ & _ & K5 & _). assert (cr + 1 <= a_created (arr s)) by (apply K5; rewrite Eg; discriminate). lia. }
    assert (HL1 : LKI cf inf_at (upg G (cr + 1) (Some (key (new_ind (cr + 1) c p r)))) None (Some (cr + 1, true)) (s1 <| inds := put_ind_l (new_ind (cr + 1) c p r) (inds s1) |>)).
    { apply (LKI_create G None s1 (cr + 1) (new_ind (cr + 1) c p r) HLa Hgi); [unfold s1; cbn; lia|reflexivity|reflexivity]. }
    minv H u4 s4 E6. destruct (c_release_individual _ _ _ _ j (cr + 1) _ _ _ (conj HI1 HL1) E6) as [HX4 _].
    exact (IH j c p _ _ _ HX4 H).
  Qed.
  Lemma c_arrival_have_event : sp CT CT (arrival_have_event cf) top.
  Proof.
    unfold arrival_have_event. eapply Renege2.sp_bind with (phi := top) (J := CT); [intros s2 a2 s2' HC E2; apply Renege2.gets_inv in E2 as [_ ->]; split; [exact HC|exact Logic.I]|]. intros a0 _. cbv zeta.
    eapply Renege2.sp_bind with (phi := top) (J := CT).
    { intros s2 b s2' [(loc & cr & gc & H2a) (G & H2b)] E2. split; [|exact Logic.I].
      apply (to_CT loc TNone gc cr G None None); [exact (proj1 (Clock2r.spI_draw_batch cf inf_at t nn loc TNone None gc cr _ _ _ H2a E2))|exact (proj1 (lk_draw_batch G None None _ _ _ H2b E2))]. }
    intros b _. eapply Renege2.sp_bind with (phi := top) (J := CT); [destruct (b <? 0); [apply Renege2.sp_fail|apply Renege2.sp_ret; exact Logic.I]|]. intros _ _.
    eapply Renege2.sp_bind with (phi := top) (J := CT); [intros s2 a2 s2' HC E2; apply Renege2.lift_inv in E2 as [_ ->]; split; [exact HC|exact Logic.I]|]. intros p _.
    eapply Renege2.sp_bind with (phi := top); [apply c_batch_loop|]. intros _ _.
    intros s2 a2 s2' [(loc & cr & gc & H2a) (G & H2b)] E2.
    assert (RR : sp (fun s => Inv loc TNone None gc cr s /\ LKI cf inf_at G None None s) (fun s => Inv loc TNone None gc cr s /\ LKI cf inf_at G None None s)
                    (ia <- draw_arr ;; a' <- gets arr ;; row <- lift E_Config (nthZ (a_dates a') (a_next_node a0 - 1)) ;; old <- lift E_Config (nthZ row (a_next_cls a0)) ;;
                     modify (fun s => s <| arr := arr s <| a_dates := updZ (a_dates (arr s)) (a_next_node a0 - 1) (updZ row (a_next_cls a0) (match old with Some o => Some (o + ia) | None => None end)) |> |>) ;;;
                     find_next_event_date) top).
    { zip ltac:(apply Clock2r.spI_draw_arr) ltac:(apply lk_draw_arr). intros ia [Hia _]. cbv beta in Hia.
      zip ltac:(apply Clock2r.spI_gets_arr) ltac:(apply Renege2.sp_gets). intros a' [Ha' _]. cbv beta in Ha'.
      zip ltac:(apply Renege2.sp_lift) ltac:(apply Renege2.sp_lift). intros row [Hrow _]. zip ltac:(apply Renege2.sp_lift) ltac:(apply Renege2.sp_lift). intros old [Hold _]. cbv beta in Hrow, Hold.
      destruct Ha' as (A1 & _). rewrite Forall_forall in A1. pose proof (A1 _ (Renege2.nthZ_In _ _ _ Hrow)) as Hr.
      eapply Renege2.sp_top. apply sp_conj.
      - apply Clock2r.spI_set_dates; [exact Hr|]. rewrite Forall_forall in Hr. specialize (Hr _ (Renege2.nthZ_In _ _ _ Hold)). destruct old as [o|]; cbn in *; [lia|exact Logic.I].
      - eapply Renege2.sp_bind with (phi := top); [apply lk_modify; intros s3; cbn; repeat split; lia|]. intros _ _. apply lk_find_next_event_date. }
    destruct (RR _ _ _ (conj H2a H2b) E2) as [[K1 K2] _]. split; [exact (to_CT _ _ _ _ _ _ _ _ K1 K2)|exact Logic.I].
  Qed.
  (* ---------- non-pre-emptive Schedules and slots: Clock2r's proofs, with the blocks re-proved above (t_...) ---------- *)
  Lemma t_bsipcs loc tr cr j : sp (InvG loc tr None cr) (InvG loc tr None cr) (begin_service_if_possible_change_shift cf j) top.
  Proof.
    unfold begin_service_if_possible_change_shift. eapply Renege2.sp_bind with (phi := top); [apply Clock2r.sp_G; intros gc; eapply Renege2.sp_top; apply Clock2r.spI_get_node|]. intros nd _.
    apply Renege2.sp_forM. intros sid. apply t_serve_with.
  Qed.
  Lemma t_change_shift j : sp (InvX TNone) (InvX TNone) (change_shift cf j) top.
  Proof.
    intros s a s' (loc & cr & gc & HI) H.
    assert (RR : sp (Inv loc TNone None gc cr) (InvX TNone) (change_shift cf j) top).
    { unfold change_shift. eapply Renege2.sp_bind; [apply Clock2r.spI_ncfg_of|]. intros nc Hc. destruct (nc_srv nc) as [|sc|sl] eqn:Esrv; [apply Renege2.sp_fail| |apply Renege2.sp_fail].
      pose proof (Clock2r.wf_at cf (Hwft cf Hsc) _ _ Hc) as Hw. unfold Clock2.wf_nc in Hw. rewrite Esrv in Hw.
      destruct (nc_scope cf Hsc _ _ Hc) as ((Hpre & _) & _). specialize (Hpre sc Esrv).
      eapply Renege2.sp_bind; [apply Clock2r.spI_get_node|]. intros nd [Hnd Hj].
      eapply Renege2.sp_bind with (phi := top); [destruct (sc_b sc); [apply Renege2.sp_fail|apply Renege2.sp_ret; exact Logic.I]|]. intros _ _. cbv zeta.
      eapply Renege2.sp_bind with (phi := top) (J := Inv loc TNone None gc cr).
      { apply Clock2r.spI_put_node. destruct Hnd as (A & B & C & D0 & (T0 & T1 & E)). unfold Clock2r.NodeOK, Clock2r.NodeT, all_individuals, nd_inf in *.
        cbn [n_id n_queues n_c n_servers n_spos n_next_shift n_nccd n_ncci n_nint set].
        rewrite Hj in *. unfold Clock2r.ncf in *. rewrite Hc, Esrv in *. destruct E as (E1 & E2 & E3 & E4).
        assert (Hfin : inf_at j = false) by (apply (Hschf j nc Hc); unfold nc_sched; rewrite Esrv; reflexivity). rewrite Hfin in A.
        split; [rewrite Hfin; reflexivity|]. split; [exact B|]. split; [exact C|]. split; [exact D0|]. split; [exact T0|]. split; [|split].
        - intros Hd. destruct (T1 Hd) as [T3 T4]. split; [exact T3|]. intros _. apply T4. exact A.
        - intros _ Hs. apply E1; [exact A|exact Hs].
        - replace (Z.to_nat (n_spos nd + 1)) with (S (Z.to_nat (n_spos nd))) by lia.
          split; [lia|]. split; [reflexivity|]. pose proof (Clock2.wf_tt_mono _ _ Hw (Z.to_nat (n_spos nd)) (S (Z.to_nat (n_spos nd))) ltac:(lia)). lia. }
      intros _ _. eapply Renege2.sp_bind; [apply Renege2.sp_gets|]. intros fl _.
      eapply Renege2.sp_bind with (phi := top) (J := Inv loc TNone None gc cr); [apply Clock2r.spI_tsod0; exact Hpre|]. intros _ _.
      eapply Renege2.sp_bind with (phi := top) (J := Inv loc TNone None gc cr); [apply Clock2r.spI_add_new_servers|]. intros _ _.
      eapply Clock2r.sp_GX. apply Clock2r.sp_fromG. apply t_bsipcs. }
    exact (RR _ _ _ HI H).
  Qed.
  Lemma t_slot_loop loc gc cr : forall k j, sp (Inv loc TNone None gc cr) (Inv loc TNone None gc cr) (slot_loop cf k j) top.
  Proof.
    pose proof XHdyn as Hd. induction k as [|k IH]; intros j; cbn [slot_loop]; [apply Renege2.sp_ret; exact Logic.I|].
    spb ltac:(apply Clock2r.spI_tnow). intros t0 ->. spb ltac:(apply Clock2r.spI_get_node). intros nd [Hnd Hj].
    eapply Renege2.sp_bind with (phi := top) (J := Inv loc TNone None gc cr); [repeat sp_step|]. intros cand _.
    eapply Renege2.sp_bind with (phi := top) (J := Inv loc TNone None gc cr); [|intros _ _; apply IH].
    destruct cand as [i|]; [|apply Renege2.sp_ret; exact Logic.I].
    apply (Clock2r.sp_open_upd cf inf_at t nn XHdyn). intros j'.
    spb ltac:(apply Clock2r.spI_upd_ind; intros; indok). intros _ _.
    spb ltac:(apply t_giast). intros _ _.
    spb ltac:(apply Clock2r.spI_get_ind). intros x [Hx Hi]. spb ltac:(apply Clock2r.spI_stime_num; exact Hx). intros st Hst. cbv beta in Hst.
    spb ltac:(apply (Clock2r.sp_put_ind_close cf inf_at t nn XHdyn _ _ _ _ i j'); [exact Hi|indok|good_tac]). intros _ _.
    repeat sp_step.
  Qed.
  Lemma t_slotted_service j : sp (InvX TNone) (InvX TNone) (slotted_service cf j) top.
  Proof.
    intros s a s' (loc & cr & gc & HI) H.
    assert (RR : sp (Inv loc TNone None gc cr) (InvX TNone) (slotted_service cf j) top).
    { unfold slotted_service. eapply Renege2.sp_bind; [apply Clock2r.spI_ncfg_of|]. intros nc Hc. destruct (nc_srv nc) as [|sc|sl] eqn:Esrv; [apply Renege2.sp_fail|apply Renege2.sp_fail|].
      pose proof (Clock2r.wf_at cf (Hwft cf Hsc) _ _ Hc) as Hw. unfold Clock2.wf_nc in Hw. rewrite Esrv in Hw.
      destruct (nc_scope cf Hsc _ _ Hc) as ((_ & Hpre) & _). specialize (Hpre sl Esrv).
      eapply Renege2.sp_bind; [apply Clock2r.spI_get_node|]. intros nd [Hnd Hj].
      eapply Renege2.sp_bind with (phi := top); [destruct (sl_b sl); [apply Renege2.sp_fail|apply Renege2.sp_ret; exact Logic.I]|]. intros _ _. cbv zeta. rewrite Hpre. cbv iota.
      eapply Renege2.sp_bind with (phi := top); [apply Renege2.sp_ret; exact Logic.I|]. intros _ _.
      eapply Clock2r.sp_toX.
      eapply Renege2.sp_bind; [apply t_slot_loop|]. intros _ _. apply Clock2r.spI_upd_node. intros nd' Hj' (A & B & C & D0 & (T0 & T1 & E)).
      unfold Clock2r.NodeOK, Clock2r.NodeT, all_individuals, nd_inf in *. cbn [n_id n_queues n_c n_servers n_spos n_next_shift n_nccd n_ncci n_nint set].
      rewrite Hj' in *. unfold Clock2r.ncf in *. rewrite Hc, Esrv in *. destruct E as (E1 & E2 & E3).
      split; [exact A|]. split; [exact B|]. split; [exact C|]. split; [exact D0|]. split; [exact T0|]. split; [exact T1|]. split; [exact E1|].
      replace (Z.to_nat (n_spos nd' + 1)) with (S (Z.to_nat (n_spos nd'))) by lia.
      split; [lia|]. pose proof (Clock2.slotdate_step sl (Z.to_nat (n_spos nd')) Hw). lia. }
    exact (RR _ _ _ HI H).
  Qed.
  Lemma c_node_have_event j : sp CT CT (node_have_event cf j) top.
  Proof.
    intros s a s' [HI (G & HL)] H. pose proof H as H0. unfold node_have_event in H. minv H nd s1 E. destruct (lk_get_node G None None j _ _ _ HL E) as [_ [Hnd _]].
    apply Renege2.get_node_inv in E as (-> & _ & _). cbv zeta in H.
    destruct Hnd as ((_ & _ & _ & (Ht2 & Ht3) & _) & _).
    destruct (n_next_type nd =? 0); [exact (c_finish_service j _ _ _ (conj HI (ex_intro _ G HL)) H)|].
    destruct (n_next_type nd =? 1).
    { split; [|exact Logic.I]. split; [exact (proj1 (t_change_shift j _ _ _ HI H))|exact (proj1 (lk_change_shift cf inf_at Hsc Hschf j _ _ _ (ex_intro _ G HL) H))]. }
    destruct (n_next_type nd =? 2) eqn:E2; [apply Z.eqb_eq in E2; contradiction|].
    destruct (n_next_type nd =? 3) eqn:E3; [apply Z.eqb_eq in E3; contradiction|].
    destruct (n_next_type nd =? 4).
    { split; [|exact Logic.I]. split; [exact (proj1 (t_slotted_service j _ _ _ HI H))|exact (proj1 (lk_slotted_service cf inf_at Hsc Hschf j _ _ _ (ex_intro _ G HL) H))]. }
    apply Renege2.ret_inv in H as [-> ->]. split; [split; [exact HI|exists G; exact HL]|exact Logic.I].
  Qed.
  Lemma c_have_event : sp CT CT (Renege2.have_event cf) top.
  Proof.
    intros s a s' [(loc & cr & gc & HI) (G & HL)] H. unfold Renege2.have_event in H.
    minv H u s1 E. destruct (Clock2r.spI_same cf inf_at t nn loc TNone None gc cr (fun s => s <| log := [] |>) ltac:(intros ?; repeat split; reflexivity) _ _ _ HI E) as [HI1 _].
    apply Renege2.modify_inv in E. subst s1.
    assert (HL1 : LKI cf inf_at G None None (s <| log := [] |>)) by (eapply LKI_same; [exact HL|reflexivity|reflexivity|cbn; lia]).
    minv H k s1 E. apply Renege2.gets_inv in E as [-> ->].
    destruct (next_active (s <| log := [] |>) =? 0); [exact (c_arrival_have_event _ _ _ (to_CT _ _ _ _ _ _ _ _ HI1 HL1) H)|].
    exact (c_node_have_event _ _ _ _ (to_CT _ _ _ _ _ _ _ _ HI1 HL1) H).
  Qed.
End Comb.

(* ================================================================================================================ *)
(* 8. towards step (3): the interruption of a service by a pre-emptive shift change / slot with `resume`, function   *)
(*    level, every configuration without class change while waiting (pre-emptive Schedules included)                 *)
(* ================================================================================================================ *)
Section ResumeInt.
  Variable cf : config.
  Variable inf_at : Z -> bool.
  Variable t : Z.
  Variable nn : nat.
  Hypothesis Hd : cf_dyn cf = false.
  Notation Inv := (Clock2r.Inv cf inf_at t nn).
  Notation IndOK := (Clock2r.IndOK cf inf_at t).
  Notation NodeOK := (Clock2r.NodeOK cf inf_at t).
  Ltac nn_tac := first [ assumption | apply Clock2.NN_None | (apply Clock2.NN_Some; first [lia | assumption]) | lia | discriminate ].
  Ltac se_tac := unfold Clock2r.SEok, Clock2r.EndGood; cbn;
    first [ (left; split; reflexivity) | (right; left; reflexivity) | (right; right; eexists; split; [reflexivity|lia]) ].
  Ltac irel_tac :=
    first [ se_tac
          | cbn; first [ reflexivity | nn_tac | (intro; assumption) | (intro; discriminate) | (intros _ ?H; exact H) | (intros ?Hd0; congruence)
               | (left; reflexivity) | (right; intros ? ?; discriminate) ] ].
  Ltac indok :=
    match goal with
    | H : Clock2r.IndOK _ _ _ ?l ?r ?e ?g ?c ?x |- Clock2r.IndOK _ _ _ ?l ?r ?e ?g ?c _ =>
      solve [ let H' := fresh in pose proof H as H'; destruct H' as (_ & (? & ? & ? & ?) & _); apply (Clock2r.IndOK_irel cf inf_at t Hd l r e g c x _ H); irel_tac ]
    end.
  Ltac nodeok :=
    match goal with
    | H : Clock2r.NodeOK _ _ _ ?l ?r ?e ?g ?c ?nd |- Clock2r.NodeOK _ _ _ ?l ?r ?e ?g ?c _ =>
      solve [ apply (Clock2r.NodeOK_nrel cf inf_at t l r e g c nd _ H);
              [reflexivity|reflexivity|reflexivity|reflexivity|reflexivity|reflexivity|reflexivity|first [(intros _; cbn; lia)|(intros ?Hn; congruence)]|(cbn; lia)|(intros ?HF; exact HF)] ]
    end.
  Lemma r_write_interruption_record loc tr ex gc cr j i d : sp (Inv loc tr ex gc cr) (Inv loc tr ex gc cr) (write_interruption_record cf j i d) top.
  Proof.
    unfold write_interruption_record. eapply Renege2.sp_bind; [apply Clock2r.spI_tnow|]. intros t0 _.
    eapply Renege2.sp_bind; [apply Clock2r.spI_get_ind|]. intros x _. eapply Renege2.sp_bind; [apply Clock2r.spI_ncfg_of|]. intros nc _.
    eapply Renege2.sp_bind with (phi := top).
    { destruct (nc_slotted nc); [apply Renege2.sp_ret; exact Logic.I|]. eapply Renege2.sp_bind; [apply Renege2.sp_lift|]. intros s0 _. apply Renege2.sp_ret. exact Logic.I. }
    intros sid _. eapply Renege2.sp_bind with (phi := top); [apply Clock2r.spI_log_rec|]. intros _ _.
    unfold bump_rec. apply Clock2r.spI_upd_ind. intros y Hy Hyi. indok.
  Qed.
  (* interrupt_service without rerouting (any option: resume included) of a customer whose end date has not passed: Clock2r's invariant is kept
     (the stored time left is end date - now >= 0); the end dates of the customers of l are untouched *)
  Lemma r_interrupt_keep loc gc cr fl j i pre l : Renege2.nopre cf = false -> pre <> 4 -> ~ In i l ->
    sp (fun s => Inv loc Renege2.TNone None gc cr s /\ Clock2r.Ends t (i :: l) s) (fun s => Inv loc Renege2.TNone None gc cr s /\ Clock2r.Ends t l s) (interrupt_service cf fl j i pre) top.
  Proof.
    intros Hp Hp4 Hnin. unfold interrupt_service. apply Z.eqb_neq in Hp4.
    eapply Renege2.sp_bind; [apply Clock2r.sp_conj_ke; [apply Clock2r.spI_tnow|apply Clock2r.ke_gets]|]. intros t0 ->.
    eapply Renege2.sp_bind with (phi := top); [apply Clock2r.sp_conj_ke; [apply Clock2r.spI_upd_ind; intros; indok|apply Clock2r.ke_upd_ind; intros y; split; reflexivity]|]. intros _ _.
    rewrite Hp4.
    eapply Renege2.sp_bind with (phi := top); [apply Clock2r.sp_conj_ke; [apply Clock2r.spI_upd_node; intros; nodeok|apply Clock2r.ke_upd_node]|]. intros _ _.
    eapply Renege2.sp_bind with (phi := top); [apply Clock2r.sp_conj_ke; [apply Clock2r.spI_upd_ind; intros; indok|apply Clock2r.ke_upd_ind; intros y; split; reflexivity]|]. intros _ _.
    eapply Renege2.sp_bind with (phi := top); [apply Clock2r.sp_conj_ke; [apply r_write_interruption_record|apply Clock2r.ke_write_interruption_record]|]. intros _ _.
    eapply Renege2.sp_bind with (phi := top) (J := fun s => Inv loc Renege2.TNone None gc cr s /\ Clock2r.Ends t l s).
    2:{ intros _ _. apply Clock2r.sp_conj_ke; [apply Clock2r.spI_upd_node; intros; nodeok|apply Clock2r.ke_upd_node]. }
    intros s a s' [HI HE] H. split; [|exact Logic.I]. apply Renege2.upd_ind_inv in H as (x & Hx & ->).
    destruct (HE i (or_introl eq_refl)) as (x0 & Hx0 & e & He & Hle). rewrite Hx in Hx0. injection Hx0 as <-.
    pose proof (Renege2.find_ind_id _ _ _ Hx) as Hid.
    assert (Hix : IndOK loc Renege2.TNone None gc cr x).
    { destruct HI as (_ & _ & _ & _ & _ & F & _). rewrite Forall_forall in F. apply F. eapply Renege2.find_ind_In; eauto. }
    split.
    - apply Clock2r.Inv_put_ind; [exact HI|]. pose proof Hix as (_ & (N1 & N2 & N3 & N4) & _).
      apply (Clock2r.IndOK_irel cf inf_at t Hd _ _ _ _ _ x _ Hix); first [ (cbn; intros _; apply Clock2.NN_Some; rewrite He; cbn; lia) | irel_tac ].
    - intros i' Hi'. destruct (HE i' (or_intror Hi')) as (x' & Hx' & Hg). exists x'. split; [|exact Hg].
      cbn [inds set]. rewrite Renege2.find_put_ind. cbn [i_id set]. rewrite Hid.
      destruct (i' =? i) eqn:E; [apply Z.eqb_eq in E; subst i'; contradiction|exact Hx'].
  Qed.
  (* ... hence, given the link AT THE INTERRUPTED SERVER (the server sv of node j holds i, i's record has end date e, sv's next end date d <= e): *)
  Theorem interrupt_resume_clock_partial loc gc cr fl j i pre s u s' nd nc sv x e d :
    Inv loc Renege2.TNone None gc cr s -> Renege2.nopre cf = false -> pre <> 4 ->
    1 <= j -> nthZ (nodes s) (j - 1) = Some nd -> nthZ (cf_nodes cf) (j - 1) = Some nc -> nd_inf nd = false -> nc_slotted nc = false ->
    In sv (n_servers nd) -> sv_cust sv = Some i -> find_ind i (inds s) = Some x -> i_send x = Some e -> sv_next_end sv = Some d -> d <= e ->
    interrupt_service cf fl j i pre s = Ok (u, s') ->
    Inv loc Renege2.TNone None gc cr s' /\ t <= e /\ option_map i_tleft (find_ind i (inds s')) = Some (Some (e - t)).
  Proof.
    intros HI Hp Hp4 Hj Hn Hc Hinf Hsl Hsv Hcu Hx He Hdn Hde H.
    pose proof HI as (A & _ & _ & D0 & _ & _ & GN & _).
    assert (Hidn : n_id nd = j) by (eapply Renege2.Idx_get; eauto).
    assert (Hte : t <= e).
    { destruct (Renege2.nthZ_nat _ _ _ Hn) as [_ Hn']. destruct (GN _ _ Hn') as (_ & _ & _ & _ & (_ & _ & T2)). unfold Clock2r.ncf in T2. rewrite Hidn, Hc in T2.
      destruct T2 as [T2 _]. specialize (T2 Hinf Hsl). rewrite Forall_forall in T2. specialize (T2 sv Hsv). unfold Clock2r.SvOK in T2. rewrite Hdn in T2. cbn in T2. lia. }
    assert (HE : Clock2r.Ends t [i] s) by (intros i0 [<-|[]]; exists x; split; [exact Hx|exists e; split; [exact He|exact Hte]]).
    destruct (r_interrupt_keep loc gc cr fl j i pre [] Hp Hp4 ltac:(intros []) _ _ _ (conj HI HE) H) as [[HI' _] _].
    split; [exact HI'|]. split; [exact Hte|].
    destruct (Clock2p.interrupt_service_tleft_partial cf fl j i pre s u s' x H Hp4 Hx) as [K _]. rewrite K, He, A. reflexivity.
  Qed.
End ResumeInt.

(* ================================================================================================================ *)
(* the theorems: Clock2r's invariant together with the link                                                         *)
(* ================================================================================================================ *)
Definition Clk2s (cf : config) (s : sim) : Prop := Clock2r.Clk2r cf s /\ LinkB cf s.
Theorem event_step_clk2s_partial cf s d s' : scope_s cf = true -> Clk2s cf s -> Clock2.DrawsOK d ->
  event_step cf (s <| dr := d |>) = Ok (tt, s') -> Clk2s cf s' /\ now s <= now s'.
Proof.
  intros Ht [(HI & HS & _ & _ & HT) ((G & HL) & HF)] Hd H. pose proof (XHdyn cf Ht) as Hdy.
  pose proof HF as Hschf.
  pose proof (Clock2r.Inv_dr_tail _ _ _ _ _ _ _ _ _ _ d HI Hd) as HI0. change (s <| dr := Renege2.nodraws |> <| dr := d |>) with (s <| dr := d |>) in HI0.
  assert (HL0 : LKI cf (Renege2.inf_of s) G None None (s <| dr := d |>)) by (eapply LKI_same; [exact HL|reflexivity|reflexivity|cbn; lia]).
  destruct (Renege2.event_step_inv _ _ _ H) as (s1 & s2 & E1 & E2 & E3).
  destruct (c_have_event cf (Renege2.inf_of s) (now s) (length (nodes s)) Ht Hschf _ _ _ (conj (Clock2r.InvX_of _ _ _ _ _ _ _ _ _ HI0) (ex_intro _ G HL0)) E1) as [[(loc & cr & gc & HI2) (G2 & HL2)] _].
  destruct (Clock2r.update_all_keeps cf _ _ _ Hdy loc gc cr _ (fun _ => False) _ _ HI2 ltac:(intros k nd _ []) E2) as (K3 & U3 & M3).
  destruct (lk_update_all cf Ht G2 None None _ _ _ _ HL2 E2) as [HL3 _].
  assert (HU : forall k nd, nth_error (nodes s2) k = Some nd -> Clock2r.Fresh cf (now s) (inds s2) nd).
  { intros k nd Hk. apply (U3 k nd Hk). left. rewrite <- M3. apply in_map. eapply nth_error_In; eauto. }
  destruct (Clock2r.Inv_now _ _ _ _ _ _ _ _ _ K3 HU E3) as (HI3 & Hle & HN & HA & HT3).
  destruct (lk_fnan G2 None None _ _ _ HL3 E3) as [HL4 _].
  split; [|exact Hle]. split; [|split; [exists G2; eapply LKI_inf_of; exact HL4|exact (slot_fin_keep cf s s' _ _ _ _ _ _ HF HL HL4)]].
  destruct (Clock2r.Inv_canon _ _ _ _ _ _ _ _ HI3 HS) as [HI4 HS4]. split; [|split; [exact HS4|split; [exact HN|split; [exact HA|exact HT3]]]].
  apply Clock2r.Inv_dr_tail; [exact HI4|apply Clock2r.DrawsOK_nodraws].
Qed.
Theorem run_many_clk2s_partial cf : scope_s cf = true -> forall ds s s', Clk2s cf s -> Forall Clock2.DrawsOK ds -> run_many cf s ds = Ok s' ->
  Clk2s cf s' /\ now s <= now s'.
Proof.
  intros Ht. induction ds as [|d r IH]; intros s s' HC HD H; cbn [run_many] in H; [injection H as <-; split; [exact HC|lia]|].
  destruct (event_step cf (s <| dr := d |>)) as [[[] s1]| |] eqn:E; try discriminate.
  inversion HD as [|? ? Hd Hr]; subst.
  destruct (event_step_clk2s_partial _ _ _ _ Ht HC Hd E) as [C1 L1].
  destruct (IH _ _ C1 Hr H) as [C2 L2]. split; [exact C2|lia].
Qed.

(* the clock never goes back along a run *)
Corollary run_many_monotone2s_partial cf : scope_s cf = true -> forall ds1 ds2 s s1 s2, Clk2s cf s -> Forall Clock2.DrawsOK ds1 -> Forall Clock2.DrawsOK ds2 ->
  run_many cf s ds1 = Ok s1 -> run_many cf s1 ds2 = Ok s2 -> now s <= now s1 <= now s2.
Proof.
  intros Ht ds1 ds2 s s1 s2 HC H1 H2 R1 R2. destruct (run_many_clk2s_partial _ Ht _ _ _ HC H1 R1) as [C1 L1].
  destruct (run_many_clk2s_partial _ Ht _ _ _ C1 H2 R2) as [_ L2]. lia.
Qed.

(* the invariant in the words of the property *)
Theorem Clk2s_means cf s : Clk2s cf s ->
  Clock2r.Clk2r cf s /\ Clock2p.LinkD s /\
  (* every customer that a server holds has a record that records that server and that node, and an end date e; its end of service is
     scheduled on that server at a date d with now <= d <= e *)
  (forall nd nc sv c, In nd (nodes s) -> nthZ (cf_nodes cf) (n_id nd - 1) = Some nc -> nd_inf nd = false -> nc_slotted nc = false ->
     In sv (n_servers nd) -> sv_cust sv = Some c ->
     exists x e d, find_ind c (inds s) = Some x /\ i_server x = Some (sv_id sv) /\ i_node x = Some (n_id nd) /\
                   i_send x = Some e /\ sv_next_end sv = Some d /\ now s <= d /\ d <= e) /\
  (* the customers of a node with infinitely many servers record no server (and that node) *)
  (forall nd c x, In nd (nodes s) -> nd_inf nd = true -> In c (all_individuals nd) -> find_ind c (inds s) = Some x ->
     i_server x = None /\ i_node x = Some (n_id nd)) /\
  (* the time left of every customer that carries the resume marker is >= 0 *)
  (forall x tl, In x (inds s) -> i_smark x = 1 -> i_tleft x = Some tl -> 0 <= tl).
Proof.
  intros [HC HB]. pose proof (LinkB_LinkD cf s HB) as HL. split; [exact HC|]. split; [exact HL|]. split; [|split; [exact (LinkB_inf cf s HB)|]].
  - intros nd nc sv c Hnd Hc Hinf Hsl Hsv Hcu. destruct (HL nd sv c Hnd Hinf Hsv Hcu) as (x & e & d & H1 & H2 & H3 & H4 & H5 & H6).
    exists x, e, d. repeat (split; [assumption|]). split; [|exact H6].
    destruct (Clock2r.Clk2r_means cf s HC) as (_ & _ & _ & _ & M5 & _). exact (M5 nd nc sv d Hnd Hc Hinf Hsl Hsv H5).
  - destruct (Clock2r.Clk2r_means_resume cf s HC) as (_ & _ & R3 & _). exact R3.
Qed.
Definition clk2s_b (cf : config) (s : sim) : bool := Clock2r.clk2r_b cf s && linkb_b cf s.
Theorem clk2s_b_sound cf s : clk2s_b cf s = true -> Clk2s cf s.
Proof. unfold clk2s_b. intros H. apply andb_true_iff in H as [H1 H2]. split; [apply Clock2r.clk2r_b_sound; exact H1|apply linkb_b_sound; exact H2]. Qed.

(* ix (step 1): node 1 has one server and PRIORITY PRE-EMPTION `resume` (as Clock2p.px), node 2 has INFINITELY MANY servers; customers go
   1 -> 2 -> exit.  Outside Clock2p.tiny's invariant (LinkB there excludes infinite-server nodes) and outside Clock2r.scope_r_partial. *)
Definition ix_n1 : ncfg := mkNcfg None None 0 SFixed 1 false [false; false] 0.
Definition ix_n2 : ncfg := mkNcfg None None 0 SFixed 0 false [false; false] 0.
Definition ix_cf : config := mkCfg 2 [ix_n1; ix_n2] [0; 1] 2 None [RtNR [RDirect 2; RLeave]; RtNR [RDirect 2; RLeave]] [[None; None]; [None; None]] false [[false; false]; [false; false]].
Definition ix_nd1 : node :=
  mkNode 1 0 0 [[]; []] [mkServer 1 None false None 0 None 0 false 0 None] [] 0 None [] (Some 1) 1 [] 0 [] [] [] 5 None 0 None None.
Definition ix_nd2 : node := mkNode 2 0 0 [[]; []] [] [] 0 None [] None 0 [] 0 [] [] [] 5 None 0 None None.
Definition ix_s0 : sim := mkSim 0 0 (mkArr 0 0 [[Some 3; Some 0]; [None; None]] 1 1 (Some 0)) [ix_nd1; ix_nd2] [] 0 0 [] Renege2.nodraws [] [[0; 0]; [0; 0]].
Definition ix_d : draws := mkDraws [100] [1] [5; 5] [0; 0; 0] [] [].
Example ix_scope : scope_s ix_cf = true /\ Clock2r.scope_r_partial ix_cf = false. Proof. vm_compute. auto. Qed.
Example ix_draws_ok : Clock2.DrawsOK ix_d. Proof. unfold Clock2.DrawsOK, Clock2.nonneg, ix_d. cbn. repeat split; repeat constructor; lia. Qed.
Example ix_clk2s : clk2s_b ix_cf ix_s0 = true /\ Clock2p.linkb_b ix_s0 = false. Proof. vm_compute. auto. Qed.
(* (clock, invariant test, (customer, node, server, marker, time left, end date) of the customers present) after n events *)
Definition ix_trace (n : nat) : option (Z * bool * list (Z * option Z * option Z * Z * option Z * option Z)) :=
  match run_many ix_cf ix_s0 (repeat ix_d n) with
  | Ok s => Some (now s, clk2s_b ix_cf s, map (fun x => (i_id x, i_node x, i_server x, i_smark x, i_tleft x, i_send x)) (inds s)) | _ => None end.
Example ix_run_all : forallb (fun n => match ix_trace n with Some (_, b, _) => b | None => false end) (seq 0 30) = true.
Proof. vm_compute. reflexivity. Qed.
Example ix_run_clk2s : forall n s, run_many ix_cf ix_s0 (repeat ix_d n) = Ok s -> Clk2s ix_cf s /\ 0 <= now s.
Proof.
  intros n s H. assert (HD : Forall Clock2.DrawsOK (repeat ix_d n)) by (apply Forall_forall; intros d Hd; apply repeat_spec in Hd; rewrite Hd; exact ix_draws_ok).
  destruct (run_many_clk2s_partial ix_cf (proj1 ix_scope) _ _ _ (clk2s_b_sound _ _ (proj1 ix_clk2s)) HD H) as [C L]. split; [exact C|exact L].
Qed.

(* kx (step 2): four nodes in series -- PRIORITY PRE-EMPTION `resume` with two fixed servers (node 1); a NON-PRE-EMPTIVE SCHEDULE together with priority
   pre-emption `resume` (node 2: servers come and go, off-duty servers finish their customer and are retired, new ids); non-capacitated slots
   (node 3); INFINITELY MANY servers (node 4).  Outside Clock2p.tiny and outside Clock2r.scope_r_partial. *)
Definition kx_n1 : ncfg := mkNcfg None None 0 SFixed 1 false [false; false] 0.
Definition kx_n2 : ncfg := mkNcfg None None 0 (SSched (mkSched [6; 12] [1; 2] 0 0)) 1 false [false; false] 0.
Definition kx_n3 : ncfg := mkNcfg None None 0 (SSlot (mkSlot [5; 9] [1; 2] 0 false 0)) 0 false [false; false] 0.
Definition kx_n4 : ncfg := mkNcfg None None 0 SFixed 0 false [false; false] 0.
Definition kx_cf : config :=
  mkCfg 2 [kx_n1; kx_n2; kx_n3; kx_n4] [0; 1] 2 None [RtNR [RDirect 2; RDirect 3; RDirect 4; RLeave]; RtNR [RDirect 2; RDirect 3; RDirect 4; RLeave]]
        [[None; None; None; None]; [None; None; None; None]] false [[false; false]; [false; false]].
Definition kx_nd4 : node := mkNode 4 0 0 [[]; []] [] [] 0 None [] None 0 [] 0 [] [] [] 5 None 0 None None.
Definition kx_s0 : sim :=
  mkSim 0 2 (mkArr 0 0 [[Some 4; Some 1]; [None; None]; [None; None]; [None; None]] 1 1 (Some 1)) [Clock2p.sx_nd1; Clock2p.sx_nd2; Clock2p.sx_nd3; kx_nd4] [] 0 0 [] Renege2.nodraws []
        [[0; 0; 0; 0]; [0; 0; 0; 0]].
Definition kx_d : draws := mkDraws [3; 3] [1; 1] [5; 7; 4; 6] [0; 0; 0] [] [].
Example kx_scope : scope_s kx_cf = true /\ Clock2p.tiny kx_cf = false /\ Clock2r.scope_r_partial kx_cf = false. Proof. vm_compute. auto. Qed.
Example kx_draws_ok : Clock2.DrawsOK kx_d. Proof. unfold Clock2.DrawsOK, Clock2.nonneg, kx_d. cbn. repeat split; repeat constructor; lia. Qed.
Example kx_clk2s : clk2s_b kx_cf kx_s0 = true. Proof. vm_compute. reflexivity. Qed.
(* (clock, invariant test, server ids of node 2, (customer, node, server, marker, time left) of the pre-empted customers) after n events *)
Definition kx_trace (n : nat) : option (Z * bool * list Z * list (Z * option Z * option Z * Z * option Z)) :=
  match run_many kx_cf kx_s0 (repeat kx_d n) with
  | Ok s => Some (now s, clk2s_b kx_cf s, match nth_error (nodes s) 1 with Some nd => map sv_id (n_servers nd) | None => [] end,
                  map (fun x => (i_id x, i_node x, i_server x, i_smark x, i_tleft x)) (filter (fun x => negb (i_smark x =? 0)) (inds s))) | _ => None end.
Example kx_run_all : forallb (fun n => match kx_trace n with Some (_, b, _, _) => b | None => false end) (seq 0 60) = true.
Proof. vm_compute. reflexivity. Qed.
Example kx_run_clk2s : forall n s, run_many kx_cf kx_s0 (repeat kx_d n) = Ok s -> Clk2s kx_cf s /\ 0 <= now s.
Proof.
  intros n s H. assert (HD : Forall Clock2.DrawsOK (repeat kx_d n)) by (apply Forall_forall; intros d Hd; apply repeat_spec in Hd; rewrite Hd; exact kx_draws_ok).
  destruct (run_many_clk2s_partial kx_cf (proj1 kx_scope) _ _ _ (clk2s_b_sound _ _ kx_clk2s) HD H) as [C L]. split; [exact C|exact L].
Qed.
Example ix_run : map ix_trace [1; 2; 3; 4; 5; 6]%nat =
  [Some (3, true, [(1, Some 1, Some 1, 0, None, Some 5)]);
   Some (8, true, [(1, Some 1, None, 1, Some 2, None); (2, Some 1, Some 1, 0, None, Some 8)]);
   Some (10, true, [(1, Some 1, Some 1, 0, Some 2, Some 10); (2, Some 2, None, 0, None, Some 13)]);
   Some (13, true, [(1, Some 2, None, 0, Some 2, Some 15); (2, Some 2, None, 0, None, Some 13)]);
   Some (15, true, [(1, Some 2, None, 0, Some 2, Some 15)]); Some (100, true, [])].
Proof. vm_compute. reflexivity. Qed.
Example kx_run : map kx_trace [9; 20; 30; 50; 59]%nat =
  [Some (7, true, [1; 2; 3], [(3, Some 1, None, 1, Some 4)]); Some (14, true, [3; 4], [(3, Some 1, None, 1, Some 2)]);
   Some (19, true, [4; 5; 6], [(3, Some 1, None, 1, Some 0)]);
   Some (28, true, [5; 7], [(3, Some 2, None, 1, Some 1); (5, Some 1, None, 1, Some 2)]); Some (32, true, [7; 8; 9], [(5, Some 1, None, 1, Some 1)])].
Proof. vm_compute. reflexivity. Qed.

Print Assumptions event_step_clk2s_partial.
Print Assumptions run_many_clk2s_partial.
Print Assumptions run_many_monotone2s_partial.
Print Assumptions Clk2s_means.
Print Assumptions clk2s_b_sound.
Print Assumptions event_step_linkb.
Print Assumptions run_many_linkb.
Print Assumptions LinkB_nodes.
Print Assumptions interrupt_resume_clock_partial.
Print Assumptions ix_run_clk2s.
Print Assumptions ix_run.
Print Assumptions kx_run_clk2s.
Print Assumptions kx_run.

(* fx: finding F-12d INSIDE the scope.  Sched2.ex_cf 0 (one node, NON-pre-emptive Schedule, priority pre-emption `resume`) with the run Sched2.ex_ds of
   Sched2.start_offduty_refuted: at 12 a class-0 customer pre-empts the customer of an OVERTIME server; the server is retired by detatch_server and
   the pre-emptor is "started" on it (Sched2.held_ok_b fails: it records a server that is gone and is never served).  The configuration is in
   scope_s, the initial state satisfies Clk2s, so by the theorem Clk2s holds after the run as well: clock and link are not affected by F-12d. *)
From CiwV.Inv Require Sched2.
Example fx_scope : scope_s (Sched2.ex_cf 0) = true /\ clk2s_b (Sched2.ex_cf 0) Sched2.ex_s0 = true. Proof. vm_compute. auto. Qed.
Example fx_draws_ok : Forall Clock2.DrawsOK Sched2.ex_ds.
Proof. unfold Sched2.ex_ds, Sched2.no_draws. repeat constructor; cbn; lia. Qed.
Example fx_F12d_inside : exists s, run_many (Sched2.ex_cf 0) Sched2.ex_s0 Sched2.ex_ds = Ok s /\ Sched2.held_ok_b s = false /\ clk2s_b (Sched2.ex_cf 0) s = true /\
  Clk2s (Sched2.ex_cf 0) s /\ now s = 20 /\
  map (fun x => (i_id x, i_server x, i_send x)) (inds s) = [(1, None, None); (2, Some 2, Some 61); (3, Some 1, Some 42)] /\
  map (fun nd => map sv_id (n_servers nd)) (nodes s) = [[2]].
Proof.
  destruct (run_many (Sched2.ex_cf 0) Sched2.ex_s0 Sched2.ex_ds) as [s| |] eqn:E; [|vm_compute in E; discriminate E|vm_compute in E; discriminate E].
  exists s. split; [reflexivity|].
  assert (HC : Clk2s (Sched2.ex_cf 0) s) by (exact (proj1 (run_many_clk2s_partial _ (proj1 fx_scope) _ _ _ (clk2s_b_sound _ _ (proj2 fx_scope)) fx_draws_ok E))).
  vm_compute in E. injection E as <-. split; [vm_compute; reflexivity|]. split; [vm_compute; reflexivity|]. split; [exact HC|]. vm_compute. auto.
Qed.
Print Assumptions fx_F12d_inside.

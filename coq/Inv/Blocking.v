(* Blocking.v -- T2 for C07 (Type I blocking) on the engine model.  At every event boundary, for every configuration,
   every state satisfying the invariant, every oracle of draws and any number of events:
     (i)   every node's blocked-queue counter is the length of its blocked queue;
     (ii)  nobody is left blocked while the destination has space: a node with a non-empty blocked queue is full;
     (iv)  FIFO: in one event (hence in any number of events) the blocked queue of every node changes only by losing a
           prefix (the customers unblocked, oldest first: release_blocked_individual takes the HEAD) and gaining a
           suffix (block_individual appends at the END).
   Inside `release` (ii) is broken for the node that just lost a customer; the tail of `release` (the model of
   release_blocked_individual) restores it by re-filling the node from the head of its blocked queue, recursively. *)
From Coq Require Import ZArith List Bool Lia Permutation.
From RecordUpdate Require Import RecordUpdate.
From CiwV Require Import Sx Prelude Routing.
From CiwV.Engine Require Import State Engine Codec.
From CiwV.Inv Require Import Frame Conserve ConserveRun Capacity SysCap CapacityRun.
Import ListNotations.
Open Scope Z_scope.

(* ---------- the view of the state this property talks about ---------- *)
Definition bq_t := list (Z * Z).
Definition view := (Z * bq_t * Z)%type.                      (* population, blocked queue, blocked-queue counter *)
Definition bview (nd : node) : Z * view := (n_id nd, (n_pop nd, n_bq nd, n_lenbq nd)).
Definition BV (s : sim) : list (Z * view) := map bview (nodes s).
Definition bvZ (s : sim) (j : Z) : option view := option_map (fun nd => snd (bview nd)) (nthZ (nodes s) (j - 1)).

Lemma bvZ_0 s : bvZ s 0 = None.
Proof. reflexivity. Qed.
Lemma bvZ_of s j nd : nthZ (nodes s) (j - 1) = Some nd -> bvZ s j = Some (n_pop nd, n_bq nd, n_lenbq nd).
Proof. unfold bvZ. intros ->. reflexivity. Qed.
Lemma bvZ_exists s j v : bvZ s j = Some v -> exists nd, nthZ (nodes s) (j - 1) = Some nd /\ v = (n_pop nd, n_bq nd, n_lenbq nd).
Proof. unfold bvZ. destruct (nthZ (nodes s) (j - 1)) as [nd|]; cbn; [intros H; injection H as <-; eauto|discriminate]. Qed.

Lemma BV_nth s s' k : BV s' = BV s -> option_map bview (nth_error (nodes s') k) = option_map bview (nth_error (nodes s) k).
Proof. intros H. unfold BV in H. rewrite <- !nth_error_map, H. reflexivity. Qed.
Lemma bvZ_BV s s' j : BV s' = BV s -> bvZ s' j = bvZ s j.
Proof.
  intros H. unfold bvZ, nthZ. destruct (j - 1 <? 0); [reflexivity|].
  pose proof (BV_nth s s' (Z.to_nat (j - 1)) H) as E.
  destruct (nth_error (nodes s') (Z.to_nat (j - 1))) as [a|], (nth_error (nodes s) (Z.to_nat (j - 1))) as [b|]; cbn in *; try discriminate; [|reflexivity].
  injection E as _ E1 E2 E3. rewrite E1, E2, E3. reflexivity.
Qed.
Lemma Idx_BV s s' : BV s' = BV s -> Idx s -> Idx s'.
Proof.
  intros H HI k nd Hk. pose proof (BV_nth s s' k H) as E. rewrite Hk in E. cbn in E.
  destruct (nth_error (nodes s) k) as [nd0|] eqn:E0; [|discriminate]. cbn in E. injection E as E _.
  specialize (HI _ _ E0). congruence.
Qed.

(* ---------- actions that keep the view (under Idx: a node is written back into its own slot) ---------- *)
Definition keepI {A} (m : M A) : Prop := forall s a s', Idx s -> m s = Ok (a, s') -> BV s' = BV s.
(* the same, knowing the view b of node j (so that node j may be written back with that view) *)
Definition keepN {A} (j : Z) (b : Z * view) (m : M A) : Prop :=
  forall s a s', Idx s -> (exists nd0, nthZ (nodes s) (j - 1) = Some nd0 /\ bview nd0 = b) -> m s = Ok (a, s') -> BV s' = BV s.

Lemma keepI_ro {A} (m : M A) : ro m -> keepI m.
Proof. intros Hm s a s' _ H. apply Hm in H. rewrite H. reflexivity. Qed.
Lemma keepI_ret {A} (a : A) : keepI (ret a). Proof. apply keepI_ro, ro_ret. Qed.
Lemma keepI_fail {A} e : keepI (@fail A e). Proof. intros s a s' _ H. discriminate. Qed.
Lemma keepI_gets {A} (f : sim -> A) : keepI (gets f). Proof. apply keepI_ro, ro_gets. Qed.
Lemma keepI_lift {A} e (o : option A) : keepI (lift e o). Proof. apply keepI_ro, ro_lift. Qed.
Lemma keepI_get_node j : keepI (get_node j). Proof. apply keepI_ro, ro_get_node. Qed.
Lemma keepI_get_ind i : keepI (get_ind i). Proof. apply keepI_ro, ro_get_ind. Qed.
Lemma keepI_bind {A B} (m : M A) (f : A -> M B) : keepI m -> (forall a, keepI (f a)) -> keepI (bind m f).
Proof.
  intros Hm Hf s b s' HI H. unfold bind in H. destruct (m s) as [[a s1]| |] eqn:E; try discriminate.
  pose proof (Hm _ _ _ HI E) as E1. rewrite (Hf a _ _ _ (Idx_BV _ _ E1 HI) H). exact E1.
Qed.
Lemma keepI_modify (f : sim -> sim) : (forall s, nodes (f s) = nodes s) -> keepI (modify f).
Proof. intros Hf s a s' _ H. inversion H. unfold BV. rewrite Hf. reflexivity. Qed.
Lemma keepI_put_ind x : keepI (put_ind x). Proof. apply keepI_modify. reflexivity. Qed.
Lemma keepI_del_ind i : keepI (del_ind i). Proof. apply keepI_modify. reflexivity. Qed.
Lemma keepI_log_rec r : keepI (log_rec r). Proof. apply keepI_modify. reflexivity. Qed.
Lemma keepI_draw_arr : keepI draw_arr.
Proof. intros s a s' _ H. unfold draw_arr in H. destruct (d_arr (dr s)); inversion H. reflexivity. Qed.
Lemma keepI_draw_batch : keepI draw_batch.
Proof. intros s a s' _ H. unfold draw_batch in H. destruct (d_batch (dr s)); inversion H. reflexivity. Qed.
Lemma keepI_draw_svc : keepI draw_svc.
Proof. intros s a s' _ H. unfold draw_svc in H. destruct (d_svc (dr s)); inversion H. reflexivity. Qed.
Lemma keepI_draw_unif : keepI draw_unif.
Proof. intros s a s' _ H. unfold draw_unif in H. destruct (d_unif (dr s)); inversion H. reflexivity. Qed.

Lemma put_node_BV nd s s' nd0 : put_node nd s = Ok (tt, s') -> nthZ (nodes s) (n_id nd - 1) = Some nd0 -> bview nd0 = bview nd -> BV s' = BV s.
Proof.
  intros H Hn He. unfold put_node, modify in H. inversion H. subst s'. clear H.
  unfold BV. cbn. unfold updZ, nthZ in *. destruct (n_id nd - 1 <? 0); [discriminate|].
  rewrite upd_map. apply upd_same. rewrite nth_error_map, Hn. cbn. f_equal. exact He.
Qed.

Lemma keepN_of_keepI {A} j b (m : M A) : keepI m -> keepN j b m.
Proof. intros Hm s a s' HI _ H. eapply Hm; eauto. Qed.
Lemma keepN_bind {A B} j b (m : M A) (f : A -> M B) : keepN j b m -> (forall a, keepN j b (f a)) -> keepN j b (bind m f).
Proof.
  intros Hm Hf s c s' HI Hn H. unfold bind in H. destruct (m s) as [[a s1]| |] eqn:E; try discriminate.
  pose proof (Hm _ _ _ HI Hn E) as E1.
  assert (Hn1 : exists nd1, nthZ (nodes s1) (j - 1) = Some nd1 /\ bview nd1 = b).
  { destruct Hn as (nd0 & Hn0 & Hb). unfold nthZ in *. destruct (j - 1 <? 0); [discriminate|].
    pose proof (BV_nth s s1 (Z.to_nat (j - 1)) E1) as E2. rewrite Hn0 in E2. cbn [option_map] in E2.
    destruct (nth_error (nodes s1) (Z.to_nat (j - 1))) as [nd1|]; [|discriminate]. cbn [option_map] in E2.
    exists nd1. split; [reflexivity|]. congruence. }
  rewrite (Hf a _ _ _ (Idx_BV _ _ E1 HI) Hn1 H). exact E1.
Qed.
Lemma keepN_put j b nd : bview nd = b -> keepN j b (put_node nd).
Proof.
  intros Hb s a s' HI (nd0 & Hn0 & Hb0) H. destruct a.
  assert (Hid : n_id nd = j).
  { pose proof (Idx_get _ _ _ HI Hn0) as E. rewrite <- Hb in Hb0. unfold bview in Hb0. injection Hb0 as E1 _ _ _. congruence. }
  eapply put_node_BV; [exact H|rewrite Hid; exact Hn0|congruence].
Qed.
Lemma keepI_node_then {A} j (F : node -> M A) : (forall nd, keepN j (bview nd) (F nd)) -> keepI (nd <- get_node j ;; F nd).
Proof.
  intros HF s a s' HI H. unfold bind in H. destruct (get_node j s) as [[nd s1]| |] eqn:E; try discriminate.
  apply get_node_spec in E as [-> Hn]. eapply HF; [exact HI|exists nd; split; [exact Hn|reflexivity]|exact H].
Qed.

Ltac k_step :=
  first
    [ match goal with
      | |- keepI (bind (get_node _) _) => apply keepI_node_then; intros
      | |- keepI (bind _ _) => apply keepI_bind; [|intros]
      | |- keepN _ _ (bind _ _) => apply keepN_bind; [|intros]
      | |- keepI (if ?b then _ else _) => destruct b
      | |- keepI (match ?x with _ => _ end) => destruct x
      | |- keepI (let '(_, _) := ?x in _) => destruct x
      | |- keepN _ _ (if ?b then _ else _) => destruct b
      | |- keepN _ _ (match ?x with _ => _ end) => destruct x
      | |- keepN _ _ (let '(_, _) := ?x in _) => destruct x
      | |- keepN _ _ (put_node _) => apply keepN_put; reflexivity
      | |- keepN _ _ _ => apply keepN_of_keepI
      end
    | apply keepI_ret | apply keepI_fail | apply keepI_gets | apply keepI_lift | apply keepI_get_node | apply keepI_get_ind
    | apply keepI_put_ind | apply keepI_del_ind | apply keepI_log_rec
    | apply keepI_draw_arr | apply keepI_draw_batch | apply keepI_draw_svc | apply keepI_draw_unif ].

Section Keep.
  Variable cf : config.
  Lemma k_ncfg_of j : keepI (ncfg_of cf j). Proof. apply keepI_lift. Qed.
  Lemma k_is_inf j : keepI (is_inf cf j). Proof. apply keepI_ro, ro_is_inf. Qed.
  Lemma k_choice_uniform {A} (l : list A) : keepI (choice_uniform l). Proof. unfold choice_uniform. repeat k_step. Qed.
  Lemma k_choice_weighted den P : keepI (choice_weighted den P). Proof. unfold choice_weighted. repeat k_step. Qed.
  Lemma k_choose_next_customer nd : keepI (choose_next_customer cf nd).
  Proof. unfold choose_next_customer. repeat first [apply k_ncfg_of | apply k_choice_uniform | k_step]. Qed.
  Lemma k_start_service j i srv : keepI (start_service j i srv).
  Proof. unfold start_service. repeat k_step. Qed.
  Lemma k_bsip_accept j i : keepI (begin_service_if_possible_accept cf j i).
  Proof. unfold begin_service_if_possible_accept. repeat first [apply k_is_inf | apply k_choose_next_customer | apply k_start_service | k_step]. Qed.
  Lemma k_exit_accept x c : keepI (exit_accept x c).
  Proof. unfold exit_accept. apply keepI_bind; [apply keepI_del_ind|]. intros _. apply keepI_modify. reflexivity. Qed.
  Lemma k_write_individual_record j x : keepI (write_individual_record cf j x).
  Proof. unfold write_individual_record. repeat first [apply k_is_inf | k_step]. Qed.
  Lemma k_write_br_record j x ty : keepI (write_br_record j x ty). Proof. unfold write_br_record. repeat k_step. Qed.
  Lemma k_bsip_release j freed : keepI (begin_service_if_possible_release cf j freed).
  Proof. unfold begin_service_if_possible_release. repeat first [apply k_choose_next_customer | apply k_start_service | k_step]. Qed.
  Lemma k_sys_population : keepI sys_population. Proof. unfold sys_population. repeat k_step. Qed.
  Lemma k_update_next_event_date j : keepI (update_next_event_date cf j).
  Proof. unfold update_next_event_date. repeat first [apply k_is_inf | k_step]. Qed.
  Lemma k_update_all js : keepI (update_all cf js).
  Proof. induction js as [|j r IH]; cbn [update_all]; [apply keepI_ret|]. apply keepI_bind; [apply k_update_next_event_date|intros; exact IH]. Qed.
  Lemma k_find_next_event_date : keepI find_next_event_date.
  Proof. apply keepI_modify. intros s. destruct (find_min_dates 1 (a_dates (arr s)) (None, 0, 0)) as [[d j] c]. reflexivity. Qed.
  Lemma k_find_next_active_node : keepI find_next_active_node.
  Proof.
    unfold find_next_active_node. apply keepI_bind; [apply keepI_gets|]. intros s0.
    destruct (scan_active 0 (a_next_date (arr s0) :: map n_next_date (nodes s0)) None [] true) as [d cands].
    apply keepI_bind; [destruct cands as [|a [|b r]]; [apply keepI_fail|apply keepI_ret|apply k_choice_uniform]|].
    intros k. apply keepI_modify. reflexivity.
  Qed.
End Keep.

(* ---------- the invariant, on views indexed by node identity ---------- *)
Definition vfun := Z -> option view.
Definition setv (v : vfun) (j : Z) (x : view) : vfun := fun j' => if j' =? j then Some x else v j'.
Definition ex0 : Z -> Z := fun _ => 0.
Definition ex1 (d : Z) : Z -> Z := fun j => if j =? d then 1 else 0.
Definition xd (d : Z) : Z -> Z := if d =? 0 then ex0 else ex1 d.

Ltac zb :=
  repeat match goal with
         | |- context [?a =? ?b] => destruct (Z.eqb_spec a b)
         | H : context [?a =? ?b] |- _ => destruct (Z.eqb_spec a b)
         end.

Section Blocking.
  Variable cf : config.

  (* (i) the counter is the length; (ii) a node with somebody blocked to it has a finite capacity and is full -- up to a slack dl j, which is 0
     at event boundaries and 1, inside `release`, for the one node that is about to receive a customer *)
  Definition G (v : vfun) (dl : Z -> Z) : Prop :=
    forall j p bq l, v j = Some (p, bq, l) ->
      l = Z.of_nat (length bq) /\ (bq <> [] -> exists c, cap_of cf j = Some c /\ c <= p + dl j).

  (* (iv) every blocked queue only loses a prefix and gains a suffix *)
  Definition fifoV (v v' : vfun) : Prop :=
    forall j p bq l, v j = Some (p, bq, l) -> exists p' bq' l', v' j = Some (p', bq', l') /\ exists n t, bq' = skipn n bq ++ t.

  Lemma skipn_skipn {A} (a b : nat) (l : list A) : skipn a (skipn b l) = skipn (b + a) l.
  Proof. revert l; induction b as [|b IH]; intros l; [reflexivity|]. destruct l as [|x r]; [cbn; apply skipn_nil|]. cbn. apply IH. Qed.

  Lemma fifoV_refl v : fifoV v v.
  Proof. intros j p bq l H. exists p, bq, l. split; [exact H|]. exists 0%nat, []. cbn. rewrite app_nil_r. reflexivity. Qed.
  Lemma fifoV_trans a b c : fifoV a b -> fifoV b c -> fifoV a c.
  Proof.
    intros H1 H2 j p bq l H. destruct (H1 _ _ _ _ H) as (p1 & bq1 & l1 & Hb & n1 & t1 & E1).
    destruct (H2 _ _ _ _ Hb) as (p2 & bq2 & l2 & Hc & n2 & t2 & E2).
    exists p2, bq2, l2. split; [exact Hc|]. rewrite E2, E1, skipn_app, skipn_skipn, <- app_assoc. eauto.
  Qed.
  Lemma fifoV_ext a b b' : (forall j, b' j = b j) -> fifoV a b -> fifoV a b'.
  Proof. intros He H j p bq l Hj. rewrite He. exact (H _ _ _ _ Hj). Qed.
  Lemma fifoV_setv v j p bq l p' bq' l' : v j = Some (p, bq, l) -> (exists n t, bq' = skipn n bq ++ t) -> fifoV v (setv v j (p', bq', l')).
  Proof.
    intros Hj Hx j0 p0 bq0 l0 H0. unfold setv. destruct (Z.eqb_spec j0 j) as [->|Hne].
    - rewrite Hj in H0. injection H0 as <- <- <-. exists p', bq', l'. split; [reflexivity|exact Hx].
    - exists p0, bq0, l0. split; [exact H0|]. exists 0%nat, []. cbn. rewrite app_nil_r. reflexivity.
  Qed.
  (* the same without a suffix: only heads are taken *)
  Definition dropV (v v' : vfun) : Prop :=
    forall j p bq l, v j = Some (p, bq, l) -> exists p' bq' l', v' j = Some (p', bq', l') /\ exists n, bq' = skipn n bq.
  Lemma dropV_refl v : dropV v v.
  Proof. intros j p bq l H. exists p, bq, l. split; [exact H|]. exists 0%nat. reflexivity. Qed.
  Lemma dropV_trans a b c : dropV a b -> dropV b c -> dropV a c.
  Proof.
    intros H1 H2 j p bq l H. destruct (H1 _ _ _ _ H) as (p1 & bq1 & l1 & Hb & n1 & E1).
    destruct (H2 _ _ _ _ Hb) as (p2 & bq2 & l2 & Hc & n2 & E2).
    exists p2, bq2, l2. split; [exact Hc|]. rewrite E2, E1, skipn_skipn. eauto.
  Qed.
  Lemma dropV_setv v j p bq l p' bq' l' : v j = Some (p, bq, l) -> (exists n, bq' = skipn n bq) -> dropV v (setv v j (p', bq', l')).
  Proof.
    intros Hj Hx j0 p0 bq0 l0 H0. unfold setv. destruct (Z.eqb_spec j0 j) as [->|Hne].
    - rewrite Hj in H0. injection H0 as <- <- <-. exists p', bq', l'. split; [reflexivity|exact Hx].
    - exists p0, bq0, l0. split; [exact H0|]. exists 0%nat. reflexivity.
  Qed.
  Lemma dropV_fifoV v v' : dropV v v' -> fifoV v v'.
  Proof.
    intros H j p bq l Hj. destruct (H _ _ _ _ Hj) as (p' & bq' & l' & Hv & n & E). exists p', bq', l'. split; [exact Hv|].
    exists n, []. rewrite app_nil_r. exact E.
  Qed.
  Lemma skip0 {A} (l : list A) : exists n, l = skipn n l.
  Proof. exists 0%nat. reflexivity. Qed.

  Lemma G_ext v v' dl : (forall j, v' j = v j) -> G v dl -> G v' dl.
  Proof. intros He H j p bq l Hj. rewrite He in Hj. exact (H _ _ _ _ Hj). Qed.
  Lemma G_setv v dl dl' j p bq l : G v dl -> l = Z.of_nat (length bq) ->
    (bq <> [] -> exists c, cap_of cf j = Some c /\ c <= p + dl' j) -> (forall j', j' <> j -> dl j' <= dl' j') ->
    G (setv v j (p, bq, l)) dl'.
  Proof.
    intros HG Hl Hc Hs j' p' bq' l' Hv. unfold setv in Hv. destruct (Z.eqb_spec j' j) as [->|Hne].
    - injection Hv as <- <- <-. split; [exact Hl|exact Hc].
    - destruct (HG _ _ _ _ Hv) as [A B]. split; [exact A|]. intros Hn. destruct (B Hn) as (c & Hc' & Hle). exists c. split; [exact Hc'|].
      specialize (Hs j' Hne). lia.
  Qed.
  Lemma G_weaken v dl dl' : (forall j, dl j <= dl' j) -> G v dl -> G v dl'.
  Proof.
    intros Hs HG j p bq l Hv. destruct (HG _ _ _ _ Hv) as [A B]. split; [exact A|]. intros Hn. destruct (B Hn) as (c & Hc & Hle).
    exists c. split; [exact Hc|]. specialize (Hs j). lia.
  Qed.
  Lemma xd_le d j : ex0 j <= xd d j.
  Proof. unfold xd, ex0, ex1. zb; lia. Qed.

  (* customer leaves j for the exit *)
  Lemma G_move_exit v j p bq l : G v ex0 -> v j = Some (p, bq, l) -> G (setv v j (p - 1, bq, l)) (ex1 j).
  Proof.
    intros HG Hj. destruct (HG _ _ _ _ Hj) as [A B]. apply (G_setv v ex0); [exact HG|exact A| |].
    - intros Hn. destruct (B Hn) as (c & Hc & Hle). exists c. split; [exact Hc|]. unfold ex0, ex1 in *. rewrite Z.eqb_refl. lia.
    - intros j' Hne. unfold ex0, ex1. zb; lia.
  Qed.
  (* customer leaves j for d, which had slack 1 *)
  Lemma G_move v j d p bq l pd bqd ld : G v (ex1 d) -> v j = Some (p, bq, l) -> setv v j (p - 1, bq, l) d = Some (pd, bqd, ld) ->
    G (setv (setv v j (p - 1, bq, l)) d (pd + 1, bqd, ld)) (ex1 j).
  Proof.
    intros HG Hj Hd. destruct (HG _ _ _ _ Hj) as [A B].
    assert (G1 : G (setv v j (p - 1, bq, l)) (fun j' => ex1 d j' + ex1 j j')).
    { apply (G_setv v (ex1 d)); [exact HG|exact A| |].
      - intros Hn. destruct (B Hn) as (c & Hc & Hle). exists c. split; [exact Hc|]. unfold ex1 in *. rewrite (Z.eqb_refl j). lia.
      - intros j' Hne. unfold ex1. zb; lia. }
    destruct (G1 _ _ _ _ Hd) as [A1 B1]. apply (G_setv _ _ _ _ _ _ _ G1); [exact A1| |].
    - intros Hn. destruct (B1 Hn) as (c & Hc & Hle). exists c. split; [exact Hc|]. unfold ex1 in *. rewrite (Z.eqb_refl d) in Hle. lia.
    - intros j' Hne. unfold ex1. zb; lia.
  Qed.
  (* release_blocked_individual of j finds nobody to unblock: the slack at j is not needed *)
  Lemma G_close v j p bq l : G v (ex1 j) -> v j = Some (p, bq, l) -> (bq = [] \/ exists c, cap_of cf j = Some c /\ c <= p) -> G v ex0.
  Proof.
    intros HG Hj Hc j' p' bq' l' Hv. destruct (HG _ _ _ _ Hv) as [A B]. split; [exact A|]. intros Hn. destruct (B Hn) as (c & Hc' & Hle).
    revert Hle. unfold ex1, ex0. destruct (Z.eqb_spec j' j) as [->|Hne]; intros Hle.
    - rewrite Hj in Hv. injection Hv as <- <- <-. destruct Hc as [->|(c2 & Hc2 & Hle2)]; [congruence|]. exists c2. split; [exact Hc2|lia].
    - exists c. split; [exact Hc'|lia].
  Qed.
  (* the head of j's blocked queue is taken *)
  Lemma G_pop v dl j p e rest l : G v dl -> v j = Some (p, e :: rest, l) -> G (setv v j (p, rest, l - 1)) dl.
  Proof.
    intros HG Hj. destruct (HG _ _ _ _ Hj) as [A B]. apply (G_setv v dl); [exact HG|cbn [length] in A; lia| |intros; lia].
    intros Hn. apply B. discriminate.
  Qed.
  (* an arrival into j *)
  Lemma G_inc v dl j p bq l : G v dl -> v j = Some (p, bq, l) -> G (setv v j (p + 1, bq, l)) dl.
  Proof.
    intros HG Hj. destruct (HG _ _ _ _ Hj) as [A B]. apply (G_setv v dl); [exact HG|exact A| |intros; lia].
    intros Hn. destruct (B Hn) as (c & Hc & Hle). exists c. split; [exact Hc|lia].
  Qed.
  (* a customer becomes blocked to d, which has a finite capacity and is full *)
  Lemma G_push v d p bq l e c : G v ex0 -> v d = Some (p, bq, l) -> cap_of cf d = Some c -> c <= p -> G (setv v d (p, bq ++ [e], l + 1)) ex0.
  Proof.
    intros HG Hd Hc Hle. destruct (HG _ _ _ _ Hd) as [A B]. apply (G_setv v ex0); [exact HG|rewrite app_length; cbn [length]; lia| |intros; lia].
    intros _. exists c. split; [exact Hc|unfold ex0; lia].
  Qed.

  (* ---------- the state has view v ---------- *)
  Definition K (s : sim) (v : vfun) : Prop := Idx s /\ forall j, bvZ s j = v j.
  Lemma K_self s : Idx s -> K s (bvZ s).
  Proof. intros H. split; [exact H|reflexivity]. Qed.
  Lemma K_ext s v v' : (forall j, v' j = v j) -> K s v -> K s v'.
  Proof. intros He [A B]. split; [exact A|]. intros j. rewrite He. apply B. Qed.
  Lemma K_keep {A} (m : M A) s a s' v : keepI m -> K s v -> m s = Ok (a, s') -> K s' v.
  Proof.
    intros Hm [HI HV] H. pose proof (Hm _ _ _ HI H) as E. split; [eapply Idx_BV; eauto|].
    intros j. rewrite (bvZ_BV _ _ _ E). apply HV.
  Qed.
  Lemma K_nodes s s' v : nodes s' = nodes s -> K s v -> K s' v.
  Proof.
    intros H [HI HV]. split; [intros k nd Hk; rewrite H in Hk; apply (HI k nd Hk)|].
    intros j. unfold bvZ. rewrite H. apply HV.
  Qed.

  Lemma bvZ_put nd s s' j : put_node nd s = Ok (tt, s') -> n_id nd = j -> (exists nd0, nthZ (nodes s) (j - 1) = Some nd0) ->
    forall j', bvZ s' j' = if j' =? j then Some (n_pop nd, n_bq nd, n_lenbq nd) else bvZ s j'.
  Proof.
    intros H Hid [nd0 Hn] j'. unfold put_node, modify in H. inversion H. subst s'. clear H. unfold bvZ. cbn [nodes].
    rewrite Hid. destruct (nthZ_nat _ _ _ Hn) as (k & Hk & Hnk). cbn.
    destruct (j' =? j) eqn:E.
    - apply Z.eqb_eq in E. subst j'. rewrite Hk, updZ_nat. unfold nthZ. destruct (Z.of_nat k <? 0) eqn:E0; [apply Z.ltb_lt in E0; lia|].
      cbn [nodes]. rewrite Nat2Z.id. cbn. rewrite (nth_error_upd_eq _ _ _ _ Hnk). reflexivity.
    - apply Z.eqb_neq in E. rewrite Hk, updZ_nat. unfold nthZ. destruct (j' - 1 <? 0) eqn:E0; [reflexivity|].
      apply Z.ltb_ge in E0. cbn. rewrite nth_error_upd_neq by lia. reflexivity.
  Qed.

  (* node j, present in the view, is written back with view x *)
  Lemma K_put nd s s' v j x x0 : K s v -> put_node nd s = Ok (tt, s') -> n_id nd = j -> v j = Some x0 ->
    (n_pop nd, n_bq nd, n_lenbq nd) = x -> K s' (setv v j x).
  Proof.
    intros [HI HV] H Hid Hj Hx.
    assert (Hn : exists nd0, nthZ (nodes s) (j - 1) = Some nd0).
    { rewrite <- HV in Hj. apply bvZ_exists in Hj as (nd0 & Hn0 & _). eauto. }
    split.
    - eapply Idx_put; [exact H|exact HI|rewrite Hid; exact Hn].
    - intros j'. rewrite (bvZ_put _ _ _ _ H Hid Hn j'), Hx. unfold setv. destruct (j' =? j); [reflexivity|apply HV].
  Qed.

  (* ---------- walking through the engine functions ---------- *)
  Ltac mstep H :=
    match type of H with
    | bind ?m ?f ?s = Ok _ =>
      let a := fresh "a" in let s1 := fresh "s" in let E := fresh "E" in
      unfold bind in H at 1; destruct (m s) as [[a s1]| |] eqn:E; [|discriminate H|discriminate H];
      first [ (apply gets_spec in E as [-> ->])
            | (let Hl := fresh "Hl" in apply lift_spec in E as [-> Hl])
            | (apply ro_is_inf in E; subst s1)
            | (let Hn := fresh "Hn" in apply get_node_spec in E as [-> Hn])
            | (let Hi := fresh "Hid" in apply get_ind_id in E as [-> Hi])
            | idtac ]
    end.
  (* carry the view over an action that keeps it *)
  Ltac kk tac :=
    match goal with
    | HK : K ?s ?v, E : ?m ?s = Ok (_, ?s1) |- _ =>
      let HH := fresh "HH" in let HK' := fresh "HK" in
      assert (HH : keepI m) by tac;
      pose proof (K_keep m s _ s1 v HH HK E) as HK'; clear HK E HH
    end.
  Ltac nameK N := match goal with X : K _ _ |- _ => rename X into N end.

  Definition Post (v : vfun) (s' : sim) : Prop := exists v', K s' v' /\ G v' ex0 /\ dropV v v'.
  Lemma Post_keep v s' : K s' v -> G v ex0 -> Post v s'.
  Proof. intros A B. exists v. split; [exact A|]. split; [exact B|apply dropV_refl]. Qed.
  Lemma Post_trans v v1 s' : dropV v v1 -> Post v1 s' -> Post v s'.
  Proof. intros F (v' & A & B & C). exists v'. split; [exact A|]. split; [exact B|eapply dropV_trans; eauto]. Qed.
  (* one event: either blocked queues only lose heads, or exactly one customer i of the finishing node j joins the end
     of the blocked queue of a node D that is full, and nothing else changes *)
  Definition pushV (j : Z) (v v' : vfun) : Prop :=
    exists D i p bq l c, v D = Some (p, bq, l) /\ cap_of cf D = Some c /\ c <= p /\
                         forall j', v' j' = setv v D (p, bq ++ [(j, i)], l + 1) j'.
  Definition PostE (j : Z) (v : vfun) (s' : sim) : Prop := exists v', K s' v' /\ G v' ex0 /\ (dropV v v' \/ pushV j v v').
  Lemma Post_E j v s' : Post v s' -> PostE j v s'.
  Proof. intros (v' & A & B & C). exists v'. auto. Qed.

  (* ---------- accept: one more customer at node j ---------- *)
  Lemma accept_blk j x s s' v : K s v -> accept cf j x s = Ok (tt, s') ->
    exists p bq l, v j = Some (p, bq, l) /\ K s' (setv v j (p + 1, bq, l)).
  Proof.
    intros HK H. unfold accept in H.
    mstep H.
    match goal with Hx : nthZ (nodes s) (j - 1) = Some ?ndx |- _ => rename ndx into nd0; rename Hx into Hn0 end.
    pose proof (Idx_get _ _ _ (proj1 HK) Hn0) as Hidj.
    assert (Hvj : v j = Some (n_pop nd0, n_bq nd0, n_lenbq nd0)) by (rewrite <- (proj2 HK); apply bvZ_of; exact Hn0).
    mstep H. kk ltac:(apply keepI_put_ind). nameK HK1.
    mstep H.
    mstep H.
    match goal with E : put_node ?nd ?sa = Ok (?u, ?sb) |- _ =>
      destruct u; pose proof (K_put nd sa sb v j (n_pop nd0 + 1, n_bq nd0, n_lenbq nd0) _ HK1 E Hidj Hvj eq_refl) as HK2; clear HK1 E end.
    kk ltac:(apply k_bsip_accept). nameK HK3.
    exists (n_pop nd0), (n_bq nd0), (n_lenbq nd0). split; [exact Hvj|exact HK3].
  Qed.

  (* ---------- release with the cascade: afterwards nobody waits for a node that has space ---------- *)
  Lemma release_blk : forall f j i d s s' v, K s v -> G v (xd d) -> release cf f j i d s = Ok (tt, s') -> Post v s'.
  Proof.
    induction f as [|f IH]; intros j i d s s' v HK HG H; [discriminate|].
    cbn [release] in H.
    mstep H. mstep H. mstep H. mstep H. mstep H.
    match goal with Hx : nthZ (nodes s) (j - 1) = Some ?ndx |- _ => rename ndx into nd0; rename Hx into Hn0 end.
    pose proof (Idx_get _ _ _ (proj1 HK) Hn0) as Hidj.
    assert (Hvj : v j = Some (n_pop nd0, n_bq nd0, n_lenbq nd0)) by (rewrite <- (proj2 HK); apply bvZ_of; exact Hn0).
    (* the customer leaves node j: population - 1 *)
    mstep H.
    match goal with E : put_node ?nd ?sa = Ok (?u, ?sb) |- _ =>
      destruct u; pose proof (K_put nd sa sb v j (n_pop nd0 - 1, n_bq nd0, n_lenbq nd0) _ HK E Hidj Hvj eq_refl) as HK1; clear HK E end.
    pose proof (dropV_setv v j _ _ _ (n_pop nd0 - 1) (n_bq nd0) (n_lenbq nd0) Hvj (skip0 _)) as F1.
    set (v1 := setv v j (n_pop nd0 - 1, n_bq nd0, n_lenbq nd0)) in *.
    mstep H. kk ltac:(apply keepI_put_ind).
    mstep H. kk ltac:(apply k_write_individual_record).
    mstep H.
    mstep H. kk ltac:(repeat k_step).
    mstep H.
    mstep H. kk ltac:(apply keepI_put_ind).
    mstep H. kk ltac:(apply k_bsip_release). nameK HK5.
    (* the customer lands *)
    mstep H.
    match goal with X : (if d =? 0 then _ else _) _ = Ok (?u, ?sx) |- _ => destruct u; rename X into EL; rename sx into sL end.
    assert (L : exists v2, K sL v2 /\ G v2 (ex1 j) /\ dropV v v2).
    { revert HG EL. unfold xd. destruct (Z.eqb_spec d 0) as [Hd0|Hd0]; intros HG EL.
      - exists v1. split; [exact (K_keep _ _ _ _ _ (k_exit_accept _ _) HK5 EL)|]. split; [|exact F1].
        apply G_move_exit; assumption.
      - destruct (accept_blk _ _ _ _ _ HK5 EL) as (pd & bqd & ld & Hvd & HK6).
        exists (setv v1 d (pd + 1, bqd, ld)). split; [exact HK6|]. split.
        + apply G_move; assumption.
        + eapply dropV_trans; [exact F1|]. apply (dropV_setv v1 d _ _ _ _ _ _ Hvd), skip0. }
    clear HK5 EL HG. destruct L as (v2 & HK6 & G6 & F6).
    (* release_blocked_individual of node j *)
    mstep H. mstep H.
    match goal with Hx : nthZ (nodes sL) (j - 1) = Some ?ndx |- _ => rename ndx into nd3; rename Hx into Hn3 end.
    match goal with Hx : nthZ (cf_nodes cf) (j - 1) = Some ?ncx |- _ => rename ncx into nc3; rename Hx into Hl3 end.
    pose proof (Idx_get _ _ _ (proj1 HK6) Hn3) as Hid3.
    assert (Hv3 : v2 j = Some (n_pop nd3, n_bq nd3, n_lenbq nd3)) by (rewrite <- (proj2 HK6); apply bvZ_of; exact Hn3).
    assert (Hj1 : 1 <= j) by (unfold nthZ in Hn3; destruct (j - 1 <? 0) eqn:Ej; [discriminate|apply Z.ltb_ge in Ej; lia]).
    assert (Hcap : cap_of cf j = nc_cap nc3) by (unfold cap_of; rewrite Hl3; reflexivity).
    match type of H with (if ?c then _ else _) _ = _ => destruct c eqn:Ec end.
    - destruct (n_bq nd3) as [|[from y] rest] eqn:Ebq; [discriminate|].
      mstep H. mstep H.
      match goal with E : (if ?b then ret tt else _) ?sa = Ok (_, ?sb) |- _ =>
        assert (Hsb : sb = sa) by (destruct b; [inversion E; reflexivity|discriminate E]); rewrite Hsb in *; clear E Hsb end.
      mstep H.
      match goal with E : put_node ?nd ?sa = Ok (?u, ?sb) |- _ =>
        destruct u; pose proof (K_put nd sa sb v2 j (n_pop nd3, rest, n_lenbq nd3 - 1) _ HK6 E Hid3 Hv3 eq_refl) as HK7; clear E end.
      eapply Post_trans; [exact F6|]. eapply Post_trans; [|eapply IH; [exact HK7| |exact H]].
      + apply (dropV_setv v2 j _ _ _ _ _ _ Hv3). exists 1%nat. reflexivity.
      + unfold xd. destruct (Z.eqb_spec j 0) as [Hj0|Hj0]; [lia|]. eapply G_pop; [exact G6|exact Hv3].
    - apply ret_spec in H as [-> _]. exists v2. split; [exact HK6|]. split; [|exact F6].
      eapply G_close; [exact G6|exact Hv3|].
      apply andb_false_iff in Ec as [Ec|Ec].
      + left. destruct (G6 _ _ _ _ Hv3) as [A _]. apply Z.ltb_ge in Ec. destruct (n_bq nd3); [reflexivity|cbn [length] in A; lia].
      + right. destruct (nc_cap nc3) as [c|] eqn:Ecap; [|discriminate Ec]. exists c. split; [first [exact Hcap|rewrite Hcap; exact Ecap]|apply Z.ltb_ge in Ec; exact Ec].
  Qed.

  (* ---------- finish_service: move on when there is space, otherwise join the END of the destination's blocked queue ---------- *)
  Lemma finish_service_blk j s s' v : K s v -> G v ex0 -> finish_service cf j s = Ok (tt, s') -> PostE j v s'.
  Proof.
    intros HK HG H. unfold finish_service in H.
    mstep H.
    mstep H.
    match goal with E : _ s = Ok (?ii, _) |- _ => rename ii into i0 end.
    kk ltac:(repeat first [apply k_choice_uniform | k_step]).
    mstep H. mstep H.
    mstep H. kk ltac:(repeat first [apply k_choice_weighted | k_step]).
    mstep H. mstep H.
    mstep H. kk ltac:(apply k_choice_weighted).
    match type of H with context [if Nat.ltb ?k (length ?row) then ?x else ?y] => set (D := if Nat.ltb k (length row) then x else y) in * end.
    mstep H. kk ltac:(apply keepI_put_ind).
    mstep H.
    mstep H. kk ltac:(repeat k_step). nameK HK5.
    mstep H.
    match goal with E : (if D =? 0 then ret true else _) ?sa = Ok (?sp, ?sb) |- _ =>
      assert (Hsp : sb = sa /\ (sp = false -> D <> 0 /\ exists p bq l c, v D = Some (p, bq, l) /\ cap_of cf D = Some c /\ c <= p));
      [ revert E; destruct (Z.eqb_spec D 0) as [HD|HD]; intros E;
        [ apply ret_spec in E as [-> ->]; split; [reflexivity|discriminate]
        | mstep E; mstep E; apply ret_spec in E as [-> ->]; split; [reflexivity|]; intros Hf; split; [exact HD|];
          match goal with Hx : nthZ (nodes sa) (D - 1) = Some ?dn, Hy : nthZ (cf_nodes cf) (D - 1) = Some ?dc |- _ =>
            destruct (nc_cap dc) as [c|] eqn:Ecap; [|discriminate Hf];
            exists (n_pop dn), (n_bq dn), (n_lenbq dn), c; split; [rewrite <- (proj2 HK5); apply bvZ_of; exact Hx|];
            split; [unfold cap_of; rewrite Hy; exact Ecap|apply Z.ltb_ge in Hf; exact Hf] end ]
      | destruct Hsp as [-> Hsp]; clear E ] end.
    match type of H with (if ?sp then _ else _) _ = _ => destruct sp end.
    - mstep H. apply Post_E. eapply release_blk; [exact HK5| |exact H]. eapply G_weaken; [|exact HG]. intros j0. apply xd_le.
    - destruct (Hsp eq_refl) as (HD & p & bq & l & c & HvD & HcD & Hfull).
      unfold block_individual in H.
      mstep H. mstep H. kk ltac:(apply keepI_put_ind). nameK HK6.
      mstep H.
      match goal with Hx : nthZ (nodes ?sa) (D - 1) = Some ?dx |- _ => rename dx into dn; rename Hx into HnD end.
      match goal with Hx : nthZ (nodes ?sa) (D - 1) = Some dn |- _ =>
        pose proof (Idx_get _ _ _ (proj1 HK6) Hx) as HidD;
        assert (HvD' : v D = Some (n_pop dn, n_bq dn, n_lenbq dn)) by (rewrite <- (proj2 HK6); apply bvZ_of; exact Hx);
        rewrite HvD in HvD'; injection HvD' as -> -> ->;
        pose proof (K_put _ _ _ v D (n_pop dn, n_bq dn ++ [(j, i0)], n_lenbq dn + 1) _ HK6 H HidD HvD eq_refl) as HK7
      end.
      eexists. split; [exact HK7|]. split; [exact (G_push _ _ _ _ _ _ c HG HvD HcD Hfull)|].
      right. exists D, i0, (n_pop dn), (n_bq dn), (n_lenbq dn), c. split; [exact HvD|]. split; [exact HcD|]. split; [exact Hfull|reflexivity].
  Qed.

  (* ---------- arrivals: an admitted customer only makes its node fuller ---------- *)
  Lemma release_individual_blk j x s s' v : K s v -> G v ex0 -> release_individual cf j x s = Ok (tt, s') -> Post v s'.
  Proof.
    intros HK HG H. unfold release_individual in H.
    mstep H. mstep H.
    mstep H. (* sys_population: read-only, solved by computation *)
    mstep H. kk ltac:(apply keepI_put_ind).
    assert (Hacc : forall sa sb, K sa v -> accept cf j x sa = Ok (tt, sb) -> Post v sb).
    { intros sa sb HKa Ha. destruct (accept_blk _ _ _ _ _ HKa Ha) as (p & bq & l & Hvj & HKb).
      eexists. split; [exact HKb|]. split; [apply G_inc; assumption|apply (dropV_setv v j _ _ _ _ _ _ Hvj), skip0]. }
    match type of H with (if ?b then _ else _) _ = _ => destruct b end.
    - mstep H. kk ltac:(apply k_write_br_record). nameK HK3.
      apply Post_keep; [|exact HG]. exact (K_keep _ _ _ _ _ (k_exit_accept _ _) HK3 H).
    - mstep H. mstep H.
      match type of H with (match ?t with _ => _ end) _ = _ => destruct t as [tb|] end.
      + mstep H. kk ltac:(apply keepI_draw_unif).
        match type of H with (if ?b then _ else _) _ = _ => destruct b end.
        * mstep H. kk ltac:(apply k_write_br_record). nameK HK3.
          apply Post_keep; [|exact HG]. exact (K_keep _ _ _ _ _ (k_exit_accept _ _) HK3 H).
        * mstep H. kk ltac:(apply keepI_modify; intros ?; reflexivity). nameK HK3. eapply Hacc; eauto.
      + mstep H. kk ltac:(apply keepI_modify; intros ?; reflexivity). nameK HK3. eapply Hacc; eauto.
  Qed.

  Lemma batch_loop_blk : forall n j c p s s' v, K s v -> G v ex0 -> batch_loop cf n j c p s = Ok (tt, s') -> Post v s'.
  Proof.
    induction n as [|n IH]; intros j c p s s' v HK HG H; cbn [batch_loop] in H; [apply ret_spec in H as [-> _]; apply Post_keep; assumption|].
    mstep H. kk ltac:(apply keepI_modify; intros ?; reflexivity). nameK HK1.
    mstep H.
    mstep H.
    match goal with E : release_individual _ _ _ _ = Ok (?u, _) |- _ =>
      destruct u; destruct (release_individual_blk _ _ _ _ _ HK1 HG E) as (v2 & HK2 & G2 & F2) end.
    eapply Post_trans; [exact F2|]. eapply IH; eauto.
  Qed.

  Lemma arrival_have_event_blk s s' v : K s v -> G v ex0 -> arrival_have_event cf s = Ok (tt, s') -> Post v s'.
  Proof.
    intros HK HG H. unfold arrival_have_event in H.
    mstep H.
    mstep H. kk ltac:(apply keepI_draw_batch).
    mstep H. kk ltac:(repeat k_step).
    mstep H.
    mstep H. nameK HK2.
    match goal with E : batch_loop _ _ _ _ _ _ = Ok (?u, _) |- _ =>
      destruct u; destruct (batch_loop_blk _ _ _ _ _ _ _ HK2 HG E) as (v3 & HK3 & G3 & F3); clear HK2 E end.
    mstep H. kk ltac:(apply keepI_draw_arr).
    mstep H. mstep H. mstep H.
    mstep H. kk ltac:(apply keepI_modify; intros ?; reflexivity). nameK HK4.
    exists v3. split; [exact (K_keep _ _ _ _ _ k_find_next_event_date HK4 H)|]. split; assumption.
  Qed.

  (* ---------- one event ---------- *)
  Lemma event_step_post s s' v : K s v -> G v ex0 -> event_step cf s = Ok (tt, s') -> PostE (next_active s) v s'.
  Proof.
    intros HK HG H. unfold event_step in H.
    mstep H.
    match goal with E : modify _ s = Ok (_, ?sx) |- _ =>
      assert (Hna : next_active sx = next_active s) by (unfold modify in E; inversion E; reflexivity) end.
    kk ltac:(apply keepI_modify; intros ?; reflexivity). nameK HK1.
    mstep H.
    mstep H. rewrite Hna in *.
    match goal with E : (if ?b then _ else _) _ = Ok (?u, ?sx) |- _ =>
      destruct u; assert (P2 : PostE (next_active s) v sx) by (destruct b; [eapply Post_E, arrival_have_event_blk; eauto|eapply finish_service_blk; eauto]); clear HK1 E end.
    destruct P2 as (v2 & HK2 & G2 & F2).
    mstep H.
    mstep H. kk ltac:(apply k_update_all). nameK HK3.
    exists v2. split; [exact (K_keep _ _ _ _ _ k_find_next_active_node HK3 H)|]. split; assumption.
  Qed.
End Blocking.

(* ====================================================================================================================
   The statements, on states, in the words of the property (nodes are matched by position: node k+1 is nth k)
   ==================================================================================================================== *)

(* the invariant: identities are positions (needed to speak of "the node d"), (i) and (ii) *)
Definition Blk (cf : config) (s : sim) : Prop :=
  forall k nd, nth_error (nodes s) k = Some nd ->
    n_id nd = Z.of_nat k + 1 /\
    n_lenbq nd = Z.of_nat (length (n_bq nd)) /\
    (n_bq nd <> [] -> exists c, cap_of cf (Z.of_nat k + 1) = Some c /\ c <= n_pop nd).

(* (iv) blocked queues lose a prefix and gain a suffix *)
Definition fifo (s s' : sim) : Prop :=
  forall k nd, nth_error (nodes s) k = Some nd ->
    exists nd', nth_error (nodes s') k = Some nd' /\ exists n t, n_bq nd' = skipn n (n_bq nd) ++ t.
(* ... in one event, more precisely: either only heads are taken (the unblocking cascade), *)
Definition heads_only (s s' : sim) : Prop :=
  forall k nd, nth_error (nodes s) k = Some nd ->
    exists nd', nth_error (nodes s') k = Some nd' /\ exists n, n_bq nd' = skipn n (n_bq nd).
(* ... or one customer i of the active node joins the END of the blocked queue of a node that is full (finite capacity
   c <= population), every population and every other blocked queue staying as it was *)
Definition one_blocked (cf : config) (s s' : sim) : Prop :=
  exists kD i c, (exists ndD, nth_error (nodes s) kD = Some ndD /\ cap_of cf (Z.of_nat kD + 1) = Some c /\ c <= n_pop ndD) /\
    forall k nd, nth_error (nodes s) k = Some nd ->
      exists nd', nth_error (nodes s') k = Some nd' /\ n_pop nd' = n_pop nd /\
                  n_bq nd' = if Nat.eqb k kD then n_bq nd ++ [(next_active s, i)] else n_bq nd.

Lemma bvZ_nat s k : bvZ s (Z.of_nat k + 1) = option_map (fun nd => (n_pop nd, n_bq nd, n_lenbq nd)) (nth_error (nodes s) k).
Proof.
  unfold bvZ, nthZ. replace (Z.of_nat k + 1 - 1) with (Z.of_nat k) by lia.
  destruct (Z.of_nat k <? 0) eqn:E; [apply Z.ltb_lt in E; lia|]. rewrite Nat2Z.id. reflexivity.
Qed.
Lemma bvZ_inv s j x : bvZ s j = Some x -> exists k nd, j = Z.of_nat k + 1 /\ nth_error (nodes s) k = Some nd /\ x = (n_pop nd, n_bq nd, n_lenbq nd).
Proof.
  intros H. apply bvZ_exists in H as (nd & Hn & ->). destruct (nthZ_nat _ _ _ Hn) as (k & Hk & Hnk).
  exists k, nd. split; [lia|]. split; [exact Hnk|reflexivity].
Qed.

Lemma Blk_iff cf s : Blk cf s <-> (Idx s /\ G cf (bvZ s) ex0).
Proof.
  split.
  - intros H. split; [intros k nd Hk; apply (H k nd Hk)|].
    intros j p bq l Hj. apply bvZ_inv in Hj as (k & nd & -> & Hk & E). injection E as -> -> ->.
    destruct (H k nd Hk) as (_ & A & B). split; [exact A|]. intros Hn. destruct (B Hn) as (c & Hc & Hle). exists c. split; [exact Hc|unfold ex0; lia].
  - intros [HI HG] k nd Hk. split; [apply (HI k nd Hk)|].
    assert (Hj : bvZ s (Z.of_nat k + 1) = Some (n_pop nd, n_bq nd, n_lenbq nd)) by (rewrite bvZ_nat, Hk; reflexivity).
    destruct (HG _ _ _ _ Hj) as [A B]. split; [exact A|]. intros Hn. destruct (B Hn) as (c & Hc & Hle). exists c. split; [exact Hc|unfold ex0 in Hle; lia].
Qed.

Lemma fifoV_fifo s s' : fifoV (bvZ s) (bvZ s') -> fifo s s'.
Proof.
  intros H k nd Hk.
  assert (Hj : bvZ s (Z.of_nat k + 1) = Some (n_pop nd, n_bq nd, n_lenbq nd)) by (rewrite bvZ_nat, Hk; reflexivity).
  destruct (H _ _ _ _ Hj) as (p' & bq' & l' & Hv & n & t & E). rewrite bvZ_nat in Hv.
  destruct (nth_error (nodes s') k) as [nd'|]; [|discriminate]. cbn in Hv. injection Hv as _ <- _. exists nd'. split; [reflexivity|eauto].
Qed.
Lemma fifo_fifoV s s' : fifo s s' -> fifoV (bvZ s) (bvZ s').
Proof.
  intros H j p bq l Hj. apply bvZ_inv in Hj as (k & nd & -> & Hk & E). injection E as -> -> ->.
  destruct (H k nd Hk) as (nd' & Hk' & n & t & E). exists (n_pop nd'), (n_bq nd'), (n_lenbq nd'). split; [rewrite bvZ_nat, Hk'; reflexivity|eauto].
Qed.
Lemma fifo_refl s : fifo s s.
Proof. apply fifoV_fifo, fifoV_refl. Qed.
Lemma fifo_trans a b c : fifo a b -> fifo b c -> fifo a c.
Proof. intros H1 H2. apply fifoV_fifo. eapply fifoV_trans; apply fifo_fifoV; eassumption. Qed.

Lemma dropV_heads s s' : dropV (bvZ s) (bvZ s') -> heads_only s s'.
Proof.
  intros H k nd Hk.
  assert (Hj : bvZ s (Z.of_nat k + 1) = Some (n_pop nd, n_bq nd, n_lenbq nd)) by (rewrite bvZ_nat, Hk; reflexivity).
  destruct (H _ _ _ _ Hj) as (p' & bq' & l' & Hv & n & E). rewrite bvZ_nat in Hv.
  destruct (nth_error (nodes s') k) as [nd'|]; [|discriminate]. cbn in Hv. injection Hv as _ <- _. exists nd'. split; [reflexivity|eauto].
Qed.
Lemma heads_only_fifo s s' : heads_only s s' -> fifo s s'.
Proof.
  intros H k nd Hk. destruct (H k nd Hk) as (nd' & Hk' & n & E). exists nd'. split; [exact Hk'|]. exists n, []. rewrite app_nil_r. exact E.
Qed.
Lemma one_blocked_fifo cf s s' : one_blocked cf s s' -> fifo s s'.
Proof.
  intros (kD & i & c & _ & H) k nd Hk. destruct (H k nd Hk) as (nd' & Hk' & _ & E). exists nd'. split; [exact Hk'|]. exists 0%nat.
  destruct (Nat.eqb k kD); [exists [(next_active s, i)]|exists []; rewrite app_nil_r]; exact E.
Qed.
Lemma pushV_one cf s s' : pushV cf (next_active s) (bvZ s) (bvZ s') -> one_blocked cf s s'.
Proof.
  intros (D & i & p & bq & l & c & HvD & HcD & Hfull & Hv').
  apply bvZ_inv in HvD as (kD & ndD & -> & HkD & E). injection E as -> -> ->.
  exists kD, i, c. split; [exists ndD; auto|].
  intros k nd Hk. specialize (Hv' (Z.of_nat k + 1)). unfold setv in Hv'. rewrite !bvZ_nat, Hk in Hv'.
  destruct (nth_error (nodes s') k) as [nd'|]; [|destruct (Z.of_nat k + 1 =? Z.of_nat kD + 1); discriminate]. exists nd'. split; [reflexivity|].
  destruct (Nat.eqb_spec k kD) as [->|Hne].
  - rewrite Z.eqb_refl in Hv'. cbn in Hv'. rewrite HkD in Hk. injection Hk as <-. injection Hv' as -> -> _. auto.
  - destruct (Z.eqb_spec (Z.of_nat k + 1) (Z.of_nat kD + 1)) as [Heq|_]; [lia|]. cbn in Hv'. injection Hv' as -> -> _. auto.
Qed.

(* ---------- T2 for C07: one event ---------- *)
Theorem event_step_blk cf s s' : Blk cf s -> event_step cf s = Ok (tt, s') -> Blk cf s'.
Proof.
  intros HB H. apply Blk_iff in HB as [HI HG].
  destruct (event_step_post cf s s' (bvZ s) (K_self s HI) HG H) as (v' & [HI' HV'] & G' & _).
  apply Blk_iff. split; [exact HI'|]. eapply G_ext; [|exact G']. exact HV'.
Qed.

Theorem event_step_fifo cf s s' : Blk cf s -> event_step cf s = Ok (tt, s') -> heads_only s s' \/ one_blocked cf s s'.
Proof.
  intros HB H. apply Blk_iff in HB as [HI HG].
  destruct (event_step_post cf s s' (bvZ s) (K_self s HI) HG H) as (v' & [HI' HV'] & _ & [F|F]).
  - left. apply dropV_heads. intros j p bq l Hj. rewrite HV'. exact (F _ _ _ _ Hj).
  - right. apply pushV_one. destruct F as (D & i & p & bq & l & c & A & B & C & E). exists D, i, p, bq, l, c.
    split; [exact A|]. split; [exact B|]. split; [exact C|]. intros j. rewrite HV'. apply E.
Qed.

Corollary event_step_fifo_weak cf s s' : Blk cf s -> event_step cf s = Ok (tt, s') -> fifo s s'.
Proof. intros HB H. destruct (event_step_fifo cf s s' HB H) as [F|F]; [apply heads_only_fifo|eapply one_blocked_fifo]; eassumption. Qed.

(* ---------- any number of events, each with its own draws; no hypothesis on the draws is needed ---------- *)
Lemma Blk_nodes cf s s' : nodes s' = nodes s -> Blk cf s -> Blk cf s'.
Proof. intros E H k nd Hk. rewrite E in Hk. apply (H k nd Hk). Qed.

Theorem run_many_blk cf : forall ds s s', Blk cf s -> run_many cf s ds = Ok s' -> Blk cf s'.
Proof.
  induction ds as [|d r IH]; intros s s' HB H; cbn [run_many] in H; [inversion H; subst; exact HB|].
  destruct (event_step cf (s <| dr := d |>)) as [[u s1]| |] eqn:E; try discriminate. destruct u.
  eapply IH; [|exact H]. eapply event_step_blk; [|exact E]. eapply Blk_nodes; [|exact HB]. reflexivity.
Qed.

Theorem run_many_fifo cf : forall ds s s', Blk cf s -> run_many cf s ds = Ok s' -> fifo s s'.
Proof.
  induction ds as [|d r IH]; intros s s' HB H; cbn [run_many] in H; [inversion H; subst; apply fifo_refl|].
  destruct (event_step cf (s <| dr := d |>)) as [[u s1]| |] eqn:E; try discriminate. destruct u.
  assert (HB0 : Blk cf (s <| dr := d |>)) by (eapply Blk_nodes; [|exact HB]; reflexivity).
  pose proof (event_step_fifo_weak cf _ _ HB0 E) as F1.
  pose proof (event_step_blk cf _ _ HB0 E) as HB1.
  eapply fifo_trans; [|eapply IH; eauto]. intros k nd Hk. apply (F1 k nd Hk).
Qed.

(* ---------- in the words of the property ---------- *)
Theorem blk_means cf s : Blk cf s ->
  forall k nd, nth_error (nodes s) k = Some nd ->
    (* the counter of the blocked queue is its length *)
    n_lenbq nd = Z.of_nat (length (n_bq nd)) /\
    (* nobody is left blocked to a node that has space *)
    (forall c, cap_of cf (Z.of_nat k + 1) = Some c -> n_pop nd < c -> n_bq nd = []) /\
    (* in particular nobody is ever blocked to a node without a capacity limit *)
    (cap_of cf (Z.of_nat k + 1) = None -> n_bq nd = []).
Proof.
  intros HB k nd Hk. destruct (HB k nd Hk) as (_ & A & B). split; [exact A|].
  split; [intros c Hc Hlt|intros Hc]; (destruct (n_bq nd) as [|e r] eqn:Ebq; [reflexivity|]);
    destruct (B ltac:(discriminate)) as (c' & Hc' & Hle); [|congruence].
  rewrite Hc in Hc'. injection Hc' as <-. lia.
Qed.

(* with the capacity invariant of C06 (Capacity.J): somebody is blocked to a node only while it is exactly full *)
Theorem blk_full cf s : Blk cf s -> J cf s ->
  forall k nd, nth_error (nodes s) k = Some nd -> n_bq nd <> [] -> cap_of cf (Z.of_nat k + 1) = Some (n_pop nd).
Proof.
  intros HB HJ k nd Hk Hn. destruct (HB k nd Hk) as (_ & _ & B). destruct (B Hn) as (c & Hc & Hle).
  pose proof (J_means cf s HJ k nd c Hk Hc). rewrite Hc. f_equal. lia.
Qed.

(* ---------- an executable test of the invariant ---------- *)
Definition blk_b (cf : config) (s : sim) : bool :=
  idx_b 1 (nodes s)
  && forallb (fun nd => (n_lenbq nd =? Z.of_nat (length (n_bq nd)))
                        && match n_bq nd with
                           | [] => true
                           | _ :: _ => match cap_of cf (n_id nd) with Some c => c <=? n_pop nd | None => false end
                           end) (nodes s).

Theorem blk_b_sound cf s : blk_b cf s = true -> Blk cf s.
Proof.
  unfold blk_b. intros H. apply andb_true_iff in H as [H1 H2]. intros k nd Hk.
  pose proof (idx_b_spec _ _ H1 k nd Hk) as Hid. split; [lia|].
  rewrite forallb_forall in H2. specialize (H2 nd (nth_error_In _ _ Hk)). apply andb_true_iff in H2 as [A B].
  apply Z.eqb_eq in A. split; [exact A|]. intros Hn.
  destruct (n_bq nd) as [|e r]; [congruence|]. replace (n_id nd) with (Z.of_nat k + 1) in B by lia.
  destruct (cap_of cf (Z.of_nat k + 1)) as [c|]; [|discriminate B]. exists c. split; [reflexivity|apply Z.leb_le; exact B].
Qed.

(* L [cfg; state] -> A 1 when the snapshot satisfies Blk *)
Definition run_blkb (inp : sx) : sx :=
  match inp with
  | L [c; s] =>
    match dec_cfg c, dec_sim s (L [L []; L []; L []; L []]) with
    | Some cf, Some st => A (if blk_b cf st then 1 else 0)
    | _, _ => A (-1)
    end
  | _ => A (-1)
  end.

(* ---------- non-vacuity: a concrete two-node tandem, node 2 with room for one customer ---------- *)
Definition ex_cf : config :=
  mkCfg 1 [mkNcfg (Some 1) None None 0; mkNcfg (Some 1) (Some 1) None 0] [0] 1 None [[[0; 8]; [0; 0]]] [[None; None]].
Definition ex_i1 : ind := mkInd 1 0 0 0 0 0 (Some 1) (Some 0) (Some 0) (Some 3) (Some 3) None false (Some 1) None (Some 0) None 0.
Definition ex_i2 : ind := mkInd 2 0 0 0 0 0 (Some 2) (Some 1) (Some 1) (Some 5) (Some 6) None false (Some 1) None (Some 0) None 0.
Definition ex_n1 : node := mkNode 1 1 1 [[1]] [mkServer 1 (Some 1) true (Some 3) 0 None 0] [] 0 (Some 3) [1].
Definition ex_n2 : node := mkNode 2 1 1 [[2]] [mkServer 1 (Some 2) true (Some 6) 0 None 0] [] 0 (Some 6) [2].
(* time 3: customer 1 is about to finish at node 1 and will want node 2, which customer 2 fills until time 6 *)
Definition ex_s0 : sim :=
  mkSim 3 1 (mkArr 2 2 [[Some 4]; [None]] 1 0 (Some 4)) [ex_n1; ex_n2] [] 0 0 [ex_i1; ex_i2] (mkDraws [] [] [] []) [].
Definition ex_d : draws := mkDraws [5] [1] [4; 2; 7] [4503599627370496; 0; 0].

Example ex_hyps : blk_b ex_cf ex_s0 = true /\ wfx_b ex_s0 = true /\ cap_b ex_cf ex_s0 = true.
Proof. vm_compute. auto. Qed.
Example ex_Blk : Blk ex_cf ex_s0.
Proof. apply blk_b_sound. vm_compute. reflexivity. Qed.
(* event 1: node 2 is full, customer 1 joins its blocked queue and stays at node 1 *)
Example ex_blocked : exists s1, run_many ex_cf ex_s0 [ex_d] = Ok s1 /\
  map n_bq (nodes s1) = [[]; [(1, 1)]] /\ map all_individuals (nodes s1) = [[1]; [2]] /\ blk_b ex_cf s1 = true.
Proof. eexists. split; [vm_compute; reflexivity|]. vm_compute. auto. Qed.
(* events 2 and 3: customer 3 arrives at node 1; customer 2 leaves node 2 and, in the same event, customer 1 takes the place *)
Example ex_unblocked : exists s3, run_many ex_cf ex_s0 [ex_d; ex_d; ex_d] = Ok s3 /\
  map n_bq (nodes s3) = [[]; []] /\ map all_individuals (nodes s3) = [[3]; [1]] /\ exit_ids s3 = [2] /\ blk_b ex_cf s3 = true.
Proof. eexists. split; [vm_compute; reflexivity|]. vm_compute. auto. Qed.
(* the intermediate state, with a customer in a blocked queue, satisfies the invariant by the theorem (not by computation) *)
Example ex_Blk_run : forall s1, run_many ex_cf ex_s0 [ex_d] = Ok s1 -> Blk ex_cf s1.
Proof. intros s1 H. exact (run_many_blk ex_cf _ _ _ ex_Blk H). Qed.

Print Assumptions event_step_blk.
Print Assumptions event_step_fifo.
Print Assumptions event_step_fifo_weak.
Print Assumptions run_many_blk.
Print Assumptions run_many_fifo.
Print Assumptions blk_means.
Print Assumptions blk_full.
Print Assumptions blk_b_sound.
Print Assumptions ex_blocked.
Print Assumptions ex_unblocked.

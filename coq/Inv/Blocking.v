(* Blocking.v -- T2 for C07 (Type I blocking) on the engine model.  At every event boundary, for every configuration,
   every state satisfying the invariants, every oracle of draws and any number of events:
     (i)   every node's blocked-queue counter is the length of its blocked queue;
     (ii)  nobody is left blocked while the destination has space: a node with a non-empty blocked queue has a finite
           capacity and is full;
     (iii) who is in the blocked queues: an entry (from, y) of the blocked queue of d is a customer y of node `from`,
           flagged blocked, with destination d (holding a server when `from` has finitely many); conversely every customer
           flagged blocked is in exactly one blocked queue, once;
     (iv)  FIFO: in one event either blocked queues only lose heads (the unblocking cascade: release_blocked_individual
           takes the HEAD), or exactly one customer joins the END of the blocked queue of a node that is full
           (block_individual) and nothing else moves; hence over any number of events every blocked queue changes by
           losing a prefix and gaining a suffix.
   Part 1 (invariant Blk: (i), (ii), (iv)) needs only the node identities; inside `release` (ii) is broken for the node
   that just lost a customer and the tail of `release` restores it by re-filling the node from the head of its blocked
   queue, recursively.  Part 2 (invariant Who: (iii)) needs conservation (Conserve.WFx: nobody is in two places) and facts
   about servers and the customer table, because what keeps a blocked customer from being picked again by finish_service
   is that the server it holds has no end-of-service date. *)
From Coq Require Import ZArith List Bool Lia Permutation.
From RecordUpdate Require Import RecordUpdate.
From CiwV Require Import Sx Prelude Routing.
From CiwV.Engine Require Import State Engine Codec.
From CiwV.Inv Require Import Frame Conserve ConserveRun Capacity SysCap CapacityRun.
Import ListNotations.
Open Scope Z_scope.

(* ---------- the nview of the state this property talks about ---------- *)
Definition bq_t := list (Z * Z).
Definition nview := (Z * bq_t * Z)%type.                      (* population, blocked queue, blocked-queue counter *)
Definition bview (nd : node) : Z * nview := (n_id nd, (n_pop nd, n_bq nd, n_lenbq nd)).
Definition BV (s : sim) : list (Z * nview) := map bview (nodes s).
Definition bvZ (s : sim) (j : Z) : option nview := option_map (fun nd => snd (bview nd)) (nthZ (nodes s) (j - 1)).

Lemma bvZ_0 s : bvZ s 0 = None.
Proof. reflexivity. Qed.
Lemma bvZ_of s j nd : nthZ (nodes s) (j - 1) = Some nd -> bvZ s j = Some (n_pop nd, n_bq nd, n_lenbq nd).
Proof. unfold bvZ. intros ->. reflexivity. Qed.
Lemma bvZ_exists s j v : bvZ s j = Some v -> exists nd, nthZ (nodes s) (j - 1) = Some nd /\ v = (n_pop nd, n_bq nd, n_lenbq nd).
Proof. unfold bvZ. destruct (nthZ (nodes s) (j - 1)) as [nd|]; cbn; [intros H; injection H as <-; eauto|discriminate]. Qed.

Lemma BV_nth s s' k : BV s' = BV s -> option_map bview (nth_error (nodes s') k) = option_map bview (nth_error (nodes s) k).
Proof. intros H. unfold BV in H. rewrite <- !nth_error_map, H. reflexivity. Qed.
Lemma bvZ_BV s s' j : BV s' = BV s -> bvZ s' j = bvZ s j.
Proof.
  intros H. unfold bvZ, nthZ. destruct (j - 1 <? 0); [reflexivity|].
  pose proof (BV_nth s s' (Z.to_nat (j - 1)) H) as E.
  destruct (nth_error (nodes s') (Z.to_nat (j - 1))) as [a|], (nth_error (nodes s) (Z.to_nat (j - 1))) as [b|]; cbn in *; try discriminate; [|reflexivity].
  injection E as _ E1 E2 E3. rewrite E1, E2, E3. reflexivity.
Qed.
Lemma Idx_BV s s' : BV s' = BV s -> Idx s -> Idx s'.
Proof.
  intros H HI k nd Hk. pose proof (BV_nth s s' k H) as E. rewrite Hk in E. cbn in E.
  destruct (nth_error (nodes s) k) as [nd0|] eqn:E0; [|discriminate]. cbn in E. injection E as E _.
  specialize (HI _ _ E0). congruence.
Qed.

(* ---------- actions that keep the nview (under Idx: a node is written back into its own slot) ---------- *)
Definition keepI {A} (m : M A) : Prop := forall s a s', Idx s -> m s = Ok (a, s') -> BV s' = BV s.
(* the same, knowing the nview b of node j (so that node j may be written back with that nview) *)
Definition keepN {A} (j : Z) (b : Z * nview) (m : M A) : Prop :=
  forall s a s', Idx s -> (exists nd0, nthZ (nodes s) (j - 1) = Some nd0 /\ bview nd0 = b) -> m s = Ok (a, s') -> BV s' = BV s.

Lemma keepI_ro {A} (m : M A) : ro m -> keepI m.
Proof. intros Hm s a s' _ H. apply Hm in H. rewrite H. reflexivity. Qed.
Lemma keepI_ret {A} (a : A) : keepI (ret a). Proof. apply keepI_ro, ro_ret. Qed.
Lemma keepI_fail {A} e : keepI (@fail A e). Proof. intros s a s' _ H. discriminate. Qed.
Lemma keepI_gets {A} (f : sim -> A) : keepI (gets f). Proof. apply keepI_ro, ro_gets. Qed.
Lemma keepI_lift {A} e (o : option A) : keepI (lift e o). Proof. apply keepI_ro, ro_lift. Qed.
Lemma keepI_get_node j : keepI (get_node j). Proof. apply keepI_ro, ro_get_node. Qed.
Lemma keepI_get_ind i : keepI (get_ind i). Proof. apply keepI_ro, ro_get_ind. Qed.
Lemma keepI_bind {A B} (m : M A) (f : A -> M B) : keepI m -> (forall a, keepI (f a)) -> keepI (bind m f).
Proof.
  intros Hm Hf s b s' HI H. unfold bind in H. destruct (m s) as [[a s1]| |] eqn:E; try discriminate.
  pose proof (Hm _ _ _ HI E) as E1. rewrite (Hf a _ _ _ (Idx_BV _ _ E1 HI) H). exact E1.
Qed.
Lemma keepI_modify (f : sim -> sim) : (forall s, nodes (f s) = nodes s) -> keepI (modify f).
Proof. intros Hf s a s' _ H. inversion H. unfold BV. rewrite Hf. reflexivity. Qed.
Lemma keepI_put_ind x : keepI (put_ind x). Proof. apply keepI_modify. reflexivity. Qed.
Lemma keepI_del_ind i : keepI (del_ind i). Proof. apply keepI_modify. reflexivity. Qed.
Lemma keepI_log_rec r : keepI (log_rec r). Proof. apply keepI_modify. reflexivity. Qed.
Lemma keepI_draw_arr : keepI draw_arr.
Proof. intros s a s' _ H. unfold draw_arr in H. destruct (d_arr (dr s)); inversion H. reflexivity. Qed.
Lemma keepI_draw_batch : keepI draw_batch.
Proof. intros s a s' _ H. unfold draw_batch in H. destruct (d_batch (dr s)); inversion H. reflexivity. Qed.
Lemma keepI_draw_svc : keepI draw_svc.
Proof. intros s a s' _ H. unfold draw_svc in H. destruct (d_svc (dr s)); inversion H. reflexivity. Qed.
Lemma keepI_draw_unif : keepI draw_unif.
Proof. intros s a s' _ H. unfold draw_unif in H. destruct (d_unif (dr s)); inversion H. reflexivity. Qed.

Lemma put_node_BV nd s s' nd0 : put_node nd s = Ok (tt, s') -> nthZ (nodes s) (n_id nd - 1) = Some nd0 -> bview nd0 = bview nd -> BV s' = BV s.
Proof.
  intros H Hn He. unfold put_node, modify in H. inversion H. subst s'. clear H.
  unfold BV. cbn. unfold updZ, nthZ in *. destruct (n_id nd - 1 <? 0); [discriminate|].
  rewrite upd_map. apply upd_same. rewrite nth_error_map, Hn. cbn. f_equal. exact He.
Qed.

Lemma keepN_of_keepI {A} j b (m : M A) : keepI m -> keepN j b m.
Proof. intros Hm s a s' HI _ H. eapply Hm; eauto. Qed.
Lemma keepN_bind {A B} j b (m : M A) (f : A -> M B) : keepN j b m -> (forall a, keepN j b (f a)) -> keepN j b (bind m f).
Proof.
  intros Hm Hf s c s' HI Hn H. unfold bind in H. destruct (m s) as [[a s1]| |] eqn:E; try discriminate.
  pose proof (Hm _ _ _ HI Hn E) as E1.
  assert (Hn1 : exists nd1, nthZ (nodes s1) (j - 1) = Some nd1 /\ bview nd1 = b).
  { destruct Hn as (nd0 & Hn0 & Hb). unfold nthZ in *. destruct (j - 1 <? 0); [discriminate|].
    pose proof (BV_nth s s1 (Z.to_nat (j - 1)) E1) as E2. rewrite Hn0 in E2. cbn [option_map] in E2.
    destruct (nth_error (nodes s1) (Z.to_nat (j - 1))) as [nd1|]; [|discriminate]. cbn [option_map] in E2.
    exists nd1. split; [reflexivity|]. congruence. }
  rewrite (Hf a _ _ _ (Idx_BV _ _ E1 HI) Hn1 H). exact E1.
Qed.
Lemma keepN_put j b nd : bview nd = b -> keepN j b (put_node nd).
Proof.
  intros Hb s a s' HI (nd0 & Hn0 & Hb0) H. destruct a.
  assert (Hid : n_id nd = j).
  { pose proof (Idx_get _ _ _ HI Hn0) as E. rewrite <- Hb in Hb0. unfold bview in Hb0. injection Hb0 as E1 _ _ _. congruence. }
  eapply put_node_BV; [exact H|rewrite Hid; exact Hn0|congruence].
Qed.
Lemma keepI_node_then {A} j (F : node -> M A) : (forall nd, keepN j (bview nd) (F nd)) -> keepI (nd <- get_node j ;; F nd).
Proof.
  intros HF s a s' HI H. unfold bind in H. destruct (get_node j s) as [[nd s1]| |] eqn:E; try discriminate.
  apply get_node_spec in E as [-> Hn]. eapply HF; [exact HI|exists nd; split; [exact Hn|reflexivity]|exact H].
Qed.

Ltac bk_k_step :=
  first
    [ match goal with
      | |- keepI (bind (get_node _) _) => apply keepI_node_then; intros
      | |- keepI (bind _ _) => apply keepI_bind; [|intros]
      | |- keepN _ _ (bind _ _) => apply keepN_bind; [|intros]
      | |- keepI (if ?b then _ else _) => destruct b
      | |- keepI (match ?x with _ => _ end) => destruct x
      | |- keepI (let '(_, _) := ?x in _) => destruct x
      | |- keepN _ _ (if ?b then _ else _) => destruct b
      | |- keepN _ _ (match ?x with _ => _ end) => destruct x
      | |- keepN _ _ (let '(_, _) := ?x in _) => destruct x
      | |- keepN _ _ (put_node _) => apply keepN_put; reflexivity
      | |- keepN _ _ _ => apply keepN_of_keepI
      end
    | apply keepI_ret | apply keepI_fail | apply keepI_gets | apply keepI_lift | apply keepI_get_node | apply keepI_get_ind
    | apply keepI_put_ind | apply keepI_del_ind | apply keepI_log_rec
    | apply keepI_draw_arr | apply keepI_draw_batch | apply keepI_draw_svc | apply keepI_draw_unif ].

Section Keep.
  Variable cf : config.
  Lemma bk_k_ncfg_of j : keepI (ncfg_of cf j). Proof. apply keepI_lift. Qed.
  Lemma bk_k_is_inf j : keepI (is_inf cf j). Proof. apply keepI_ro, ro_is_inf. Qed.
  Lemma bk_k_choice_uniform {A} (l : list A) : keepI (choice_uniform l). Proof. unfold choice_uniform. repeat bk_k_step. Qed.
  Lemma bk_k_choice_weighted den P : keepI (choice_weighted den P). Proof. unfold choice_weighted. repeat bk_k_step. Qed.
  Lemma bk_k_choose_next_customer nd : keepI (choose_next_customer cf nd).
  Proof. unfold choose_next_customer. repeat first [apply bk_k_ncfg_of | apply bk_k_choice_uniform | bk_k_step]. Qed.
  Lemma bk_k_start_service j i srv : keepI (start_service j i srv).
  Proof. unfold start_service. repeat bk_k_step. Qed.
  Lemma bk_k_bsip_accept j i : keepI (begin_service_if_possible_accept cf j i).
  Proof. unfold begin_service_if_possible_accept. repeat first [apply bk_k_is_inf | apply bk_k_choose_next_customer | apply bk_k_start_service | bk_k_step]. Qed.
  Lemma bk_k_exit_accept x c : keepI (exit_accept x c).
  Proof. unfold exit_accept. apply keepI_bind; [apply keepI_del_ind|]. intros _. apply keepI_modify. reflexivity. Qed.
  Lemma bk_k_write_individual_record j x : keepI (write_individual_record cf j x).
  Proof. unfold write_individual_record. repeat first [apply bk_k_is_inf | bk_k_step]. Qed.
  Lemma bk_k_write_br_record j x ty : keepI (write_br_record j x ty). Proof. unfold write_br_record. repeat bk_k_step. Qed.
  Lemma bk_k_bsip_release j freed : keepI (begin_service_if_possible_release cf j freed).
  Proof. unfold begin_service_if_possible_release. repeat first [apply bk_k_choose_next_customer | apply bk_k_start_service | bk_k_step]. Qed.
  Lemma bk_k_sys_population : keepI sys_population. Proof. unfold sys_population. repeat bk_k_step. Qed.
  Lemma bk_k_update_next_event_date j : keepI (update_next_event_date cf j).
  Proof. unfold update_next_event_date. repeat first [apply bk_k_is_inf | bk_k_step]. Qed.
  Lemma bk_k_update_all js : keepI (update_all cf js).
  Proof. induction js as [|j r IH]; cbn [update_all]; [apply keepI_ret|]. apply keepI_bind; [apply bk_k_update_next_event_date|intros; exact IH]. Qed.
  Lemma bk_k_find_next_event_date : keepI find_next_event_date.
  Proof. apply keepI_modify. intros s. destruct (find_min_dates 1 (a_dates (arr s)) (None, 0, 0)) as [[d j] c]. reflexivity. Qed.
  Lemma bk_k_find_next_active_node : keepI find_next_active_node.
  Proof.
    unfold find_next_active_node. apply keepI_bind; [apply keepI_gets|]. intros s0.
    destruct (scan_active 0 (a_next_date (arr s0) :: map n_next_date (nodes s0)) None [] true) as [d cands].
    apply keepI_bind; [destruct cands as [|a [|b r]]; [apply keepI_fail|apply keepI_ret|apply bk_k_choice_uniform]|].
    intros k. apply keepI_modify. reflexivity.
  Qed.
End Keep.

(* ---------- the invariant, on views indexed by node identity ---------- *)
Definition vfun := Z -> option nview.
Definition setv (v : vfun) (j : Z) (x : nview) : vfun := fun j' => if j' =? j then Some x else v j'.
Definition ex0 : Z -> Z := fun _ => 0.
Definition ex1 (d : Z) : Z -> Z := fun j => if j =? d then 1 else 0.
Definition xd (d : Z) : Z -> Z := if d =? 0 then ex0 else ex1 d.

Ltac bk_zb :=
  repeat match goal with
         | |- context [?a =? ?b] => destruct (Z.eqb_spec a b)
         | H : context [?a =? ?b] |- _ => destruct (Z.eqb_spec a b)
         end.

Section Blocking.
  Variable cf : config.

  (* (i) the counter is the length; (ii) a node with somebody blocked to it has a finite capacity and is full -- up to a slack dl j, which is 0
     at event boundaries and 1, inside `release`, for the one node that is about to receive a customer *)
  Definition Gv (v : vfun) (dl : Z -> Z) : Prop :=
    forall j p bq l, v j = Some (p, bq, l) ->
      l = Z.of_nat (length bq) /\ (bq <> [] -> exists c, cap_of cf j = Some c /\ c <= p + dl j).

  (* (iv) every blocked queue only loses a prefix and gains a suffix *)
  Definition fifoV (v v' : vfun) : Prop :=
    forall j p bq l, v j = Some (p, bq, l) -> exists p' bq' l', v' j = Some (p', bq', l') /\ exists n t, bq' = skipn n bq ++ t.

  Lemma skipn_skipn {A} (a b : nat) (l : list A) : skipn a (skipn b l) = skipn (b + a) l.
  Proof. revert l; induction b as [|b IH]; intros l; [reflexivity|]. destruct l as [|x r]; [cbn; apply skipn_nil|]. cbn. apply IH. Qed.

  Lemma fifoV_refl v : fifoV v v.
  Proof. intros j p bq l H. exists p, bq, l. split; [exact H|]. exists 0%nat, []. cbn. rewrite app_nil_r. reflexivity. Qed.
  Lemma fifoV_trans a b c : fifoV a b -> fifoV b c -> fifoV a c.
  Proof.
    intros H1 H2 j p bq l H. destruct (H1 _ _ _ _ H) as (p1 & bq1 & l1 & Hb & n1 & t1 & E1).
    destruct (H2 _ _ _ _ Hb) as (p2 & bq2 & l2 & Hc & n2 & t2 & E2).
    exists p2, bq2, l2. split; [exact Hc|]. rewrite E2, E1, skipn_app, skipn_skipn, <- app_assoc. eauto.
  Qed.
  Lemma fifoV_ext a b b' : (forall j, b' j = b j) -> fifoV a b -> fifoV a b'.
  Proof. intros He H j p bq l Hj. rewrite He. exact (H _ _ _ _ Hj). Qed.
  Lemma fifoV_setv v j p bq l p' bq' l' : v j = Some (p, bq, l) -> (exists n t, bq' = skipn n bq ++ t) -> fifoV v (setv v j (p', bq', l')).
  Proof.
    intros Hj Hx j0 p0 bq0 l0 H0. unfold setv. destruct (Z.eqb_spec j0 j) as [->|Hne].
    - rewrite Hj in H0. injection H0 as <- <- <-. exists p', bq', l'. split; [reflexivity|exact Hx].
    - exists p0, bq0, l0. split; [exact H0|]. exists 0%nat, []. cbn. rewrite app_nil_r. reflexivity.
  Qed.
  (* the same without a suffix: only heads are taken *)
  Definition dropV (v v' : vfun) : Prop :=
    forall j p bq l, v j = Some (p, bq, l) -> exists p' bq' l', v' j = Some (p', bq', l') /\ exists n, bq' = skipn n bq.
  Lemma dropV_refl v : dropV v v.
  Proof. intros j p bq l H. exists p, bq, l. split; [exact H|]. exists 0%nat. reflexivity. Qed.
  Lemma dropV_trans a b c : dropV a b -> dropV b c -> dropV a c.
  Proof.
    intros H1 H2 j p bq l H. destruct (H1 _ _ _ _ H) as (p1 & bq1 & l1 & Hb & n1 & E1).
    destruct (H2 _ _ _ _ Hb) as (p2 & bq2 & l2 & Hc & n2 & E2).
    exists p2, bq2, l2. split; [exact Hc|]. rewrite E2, E1, skipn_skipn. eauto.
  Qed.
  Lemma dropV_setv v j p bq l p' bq' l' : v j = Some (p, bq, l) -> (exists n, bq' = skipn n bq) -> dropV v (setv v j (p', bq', l')).
  Proof.
    intros Hj Hx j0 p0 bq0 l0 H0. unfold setv. destruct (Z.eqb_spec j0 j) as [->|Hne].
    - rewrite Hj in H0. injection H0 as <- <- <-. exists p', bq', l'. split; [reflexivity|exact Hx].
    - exists p0, bq0, l0. split; [exact H0|]. exists 0%nat. reflexivity.
  Qed.
  Lemma dropV_fifoV v v' : dropV v v' -> fifoV v v'.
  Proof.
    intros H j p bq l Hj. destruct (H _ _ _ _ Hj) as (p' & bq' & l' & Hv & n & E). exists p', bq', l'. split; [exact Hv|].
    exists n, []. rewrite app_nil_r. exact E.
  Qed.
  Lemma skip0 {A} (l : list A) : exists n, l = skipn n l.
  Proof. exists 0%nat. reflexivity. Qed.

  Lemma G_ext v v' dl : (forall j, v' j = v j) -> Gv v dl -> Gv v' dl.
  Proof. intros He H j p bq l Hj. rewrite He in Hj. exact (H _ _ _ _ Hj). Qed.
  Lemma G_setv v dl dl' j p bq l : Gv v dl -> l = Z.of_nat (length bq) ->
    (bq <> [] -> exists c, cap_of cf j = Some c /\ c <= p + dl' j) -> (forall j', j' <> j -> dl j' <= dl' j') ->
    Gv (setv v j (p, bq, l)) dl'.
  Proof.
    intros HG Hl Hc Hs j' p' bq' l' Hv. unfold setv in Hv. destruct (Z.eqb_spec j' j) as [->|Hne].
    - injection Hv as <- <- <-. split; [exact Hl|exact Hc].
    - destruct (HG _ _ _ _ Hv) as [A B]. split; [exact A|]. intros Hn. destruct (B Hn) as (c & Hc' & Hle). exists c. split; [exact Hc'|].
      specialize (Hs j' Hne). lia.
  Qed.
  Lemma G_weaken v dl dl' : (forall j, dl j <= dl' j) -> Gv v dl -> Gv v dl'.
  Proof.
    intros Hs HG j p bq l Hv. destruct (HG _ _ _ _ Hv) as [A B]. split; [exact A|]. intros Hn. destruct (B Hn) as (c & Hc & Hle).
    exists c. split; [exact Hc|]. specialize (Hs j). lia.
  Qed.
  Lemma xd_le d j : ex0 j <= xd d j.
  Proof. unfold xd, ex0, ex1. bk_zb; lia. Qed.

  (* customer leaves j for the exit *)
  Lemma G_move_exit v j p bq l : Gv v ex0 -> v j = Some (p, bq, l) -> Gv (setv v j (p - 1, bq, l)) (ex1 j).
  Proof.
    intros HG Hj. destruct (HG _ _ _ _ Hj) as [A B]. apply (G_setv v ex0); [exact HG|exact A| |].
    - intros Hn. destruct (B Hn) as (c & Hc & Hle). exists c. split; [exact Hc|]. unfold ex0, ex1 in *. rewrite Z.eqb_refl. lia.
    - intros j' Hne. unfold ex0, ex1. bk_zb; lia.
  Qed.
  (* customer leaves j for d, which had slack 1 *)
  Lemma G_move v j d p bq l pd bqd ld : Gv v (ex1 d) -> v j = Some (p, bq, l) -> setv v j (p - 1, bq, l) d = Some (pd, bqd, ld) ->
    Gv (setv (setv v j (p - 1, bq, l)) d (pd + 1, bqd, ld)) (ex1 j).
  Proof.
    intros HG Hj Hd. destruct (HG _ _ _ _ Hj) as [A B].
    assert (G1 : Gv (setv v j (p - 1, bq, l)) (fun j' => ex1 d j' + ex1 j j')).
    { apply (G_setv v (ex1 d)); [exact HG|exact A| |].
      - intros Hn. destruct (B Hn) as (c & Hc & Hle). exists c. split; [exact Hc|]. unfold ex1 in *. rewrite (Z.eqb_refl j). lia.
      - intros j' Hne. unfold ex1. bk_zb; lia. }
    destruct (G1 _ _ _ _ Hd) as [A1 B1]. apply (G_setv _ _ _ _ _ _ _ G1); [exact A1| |].
    - intros Hn. destruct (B1 Hn) as (c & Hc & Hle). exists c. split; [exact Hc|]. unfold ex1 in *. rewrite (Z.eqb_refl d) in Hle. lia.
    - intros j' Hne. unfold ex1. bk_zb; lia.
  Qed.
  (* release_blocked_individual of j finds nobody to unblock: the slack at j is not needed *)
  Lemma G_close v j p bq l : Gv v (ex1 j) -> v j = Some (p, bq, l) -> (bq = [] \/ exists c, cap_of cf j = Some c /\ c <= p) -> Gv v ex0.
  Proof.
    intros HG Hj Hc j' p' bq' l' Hv. destruct (HG _ _ _ _ Hv) as [A B]. split; [exact A|]. intros Hn. destruct (B Hn) as (c & Hc' & Hle).
    revert Hle. unfold ex1, ex0. destruct (Z.eqb_spec j' j) as [->|Hne]; intros Hle.
    - rewrite Hj in Hv. injection Hv as <- <- <-. destruct Hc as [->|(c2 & Hc2 & Hle2)]; [congruence|]. exists c2. split; [exact Hc2|lia].
    - exists c. split; [exact Hc'|lia].
  Qed.
  (* the head of j's blocked queue is taken *)
  Lemma G_pop v dl j p e rest l : Gv v dl -> v j = Some (p, e :: rest, l) -> Gv (setv v j (p, rest, l - 1)) dl.
  Proof.
    intros HG Hj. destruct (HG _ _ _ _ Hj) as [A B]. apply (G_setv v dl); [exact HG|cbn [length] in A; lia| |intros; lia].
    intros Hn. apply B. discriminate.
  Qed.
  (* an arrival into j *)
  Lemma G_inc v dl j p bq l : Gv v dl -> v j = Some (p, bq, l) -> Gv (setv v j (p + 1, bq, l)) dl.
  Proof.
    intros HG Hj. destruct (HG _ _ _ _ Hj) as [A B]. apply (G_setv v dl); [exact HG|exact A| |intros; lia].
    intros Hn. destruct (B Hn) as (c & Hc & Hle). exists c. split; [exact Hc|lia].
  Qed.
  (* a customer becomes blocked to d, which has a finite capacity and is full *)
  Lemma G_push v d p bq l e c : Gv v ex0 -> v d = Some (p, bq, l) -> cap_of cf d = Some c -> c <= p -> Gv (setv v d (p, bq ++ [e], l + 1)) ex0.
  Proof.
    intros HG Hd Hc Hle. destruct (HG _ _ _ _ Hd) as [A B]. apply (G_setv v ex0); [exact HG|rewrite app_length; cbn [length]; lia| |intros; lia].
    intros _. exists c. split; [exact Hc|unfold ex0; lia].
  Qed.

  (* ---------- the state has nview v ---------- *)
  Definition Kv (s : sim) (v : vfun) : Prop := Idx s /\ forall j, bvZ s j = v j.
  Lemma K_self s : Idx s -> Kv s (bvZ s).
  Proof. intros H. split; [exact H|reflexivity]. Qed.
  Lemma K_ext s v v' : (forall j, v' j = v j) -> Kv s v -> Kv s v'.
  Proof. intros He [A B]. split; [exact A|]. intros j. rewrite He. apply B. Qed.
  Lemma K_keep {A} (m : M A) s a s' v : keepI m -> Kv s v -> m s = Ok (a, s') -> Kv s' v.
  Proof.
    intros Hm [HI HV] H. pose proof (Hm _ _ _ HI H) as E. split; [eapply Idx_BV; eauto|].
    intros j. rewrite (bvZ_BV _ _ _ E). apply HV.
  Qed.
  Lemma K_nodes s s' v : nodes s' = nodes s -> Kv s v -> Kv s' v.
  Proof.
    intros H [HI HV]. split; [intros k nd Hk; rewrite H in Hk; apply (HI k nd Hk)|].
    intros j. unfold bvZ. rewrite H. apply HV.
  Qed.

  Lemma bvZ_put nd s s' j : put_node nd s = Ok (tt, s') -> n_id nd = j -> (exists nd0, nthZ (nodes s) (j - 1) = Some nd0) ->
    forall j', bvZ s' j' = if j' =? j then Some (n_pop nd, n_bq nd, n_lenbq nd) else bvZ s j'.
  Proof.
    intros H Hid [nd0 Hn] j'. unfold put_node, modify in H. inversion H. subst s'. clear H. unfold bvZ. cbn [nodes].
    rewrite Hid. destruct (nthZ_nat _ _ _ Hn) as (k & Hk & Hnk). cbn.
    destruct (j' =? j) eqn:E.
    - apply Z.eqb_eq in E. subst j'. rewrite Hk, updZ_nat. unfold nthZ. destruct (Z.of_nat k <? 0) eqn:E0; [apply Z.ltb_lt in E0; lia|].
      cbn [nodes]. rewrite Nat2Z.id. cbn. rewrite (nth_error_upd_eq _ _ _ _ Hnk). reflexivity.
    - apply Z.eqb_neq in E. rewrite Hk, updZ_nat. unfold nthZ. destruct (j' - 1 <? 0) eqn:E0; [reflexivity|].
      apply Z.ltb_ge in E0. cbn. rewrite nth_error_upd_neq by lia. reflexivity.
  Qed.

  (* node j, present in the nview, is written back with nview x *)
  Lemma K_put nd s s' v j x x0 : Kv s v -> put_node nd s = Ok (tt, s') -> n_id nd = j -> v j = Some x0 ->
    (n_pop nd, n_bq nd, n_lenbq nd) = x -> Kv s' (setv v j x).
  Proof.
    intros [HI HV] H Hid Hj Hx.
    assert (Hn : exists nd0, nthZ (nodes s) (j - 1) = Some nd0).
    { rewrite <- HV in Hj. apply bvZ_exists in Hj as (nd0 & Hn0 & _). eauto. }
    split.
    - eapply Idx_put; [exact H|exact HI|rewrite Hid; exact Hn].
    - intros j'. rewrite (bvZ_put _ _ _ _ H Hid Hn j'), Hx. unfold setv. destruct (j' =? j); [reflexivity|apply HV].
  Qed.

  (* ---------- walking through the engine functions ---------- *)
  Ltac mstep H :=
    match type of H with
    | bind ?m ?f ?s = Ok _ =>
      let a := fresh "a" in let s1 := fresh "s" in let E := fresh "E" in
      unfold bind in H at 1; destruct (m s) as [[a s1]| |] eqn:E; [|discriminate H|discriminate H];
      first [ (apply gets_spec in E as [-> ->])
            | (let Hl := fresh "Hl" in apply lift_spec in E as [-> Hl])
            | (apply ro_is_inf in E; subst s1)
            | (let Hn := fresh "Hn" in apply get_node_spec in E as [-> Hn])
            | (let Hi := fresh "Hid" in apply get_ind_id in E as [-> Hi])
            | idtac ]
    end.
  (* carry the nview over an action that keeps it *)
  Ltac kk tac :=
    match goal with
    | HK : Kv ?s ?v, E : ?m ?s = Ok (_, ?s1) |- _ =>
      let HH := fresh "HH" in let HK' := fresh "HK" in
      assert (HH : keepI m) by tac;
      pose proof (K_keep m s _ s1 v HH HK E) as HK'; clear HK E HH
    end.
  Ltac nameK N := match goal with X : Kv _ _ |- _ => rename X into N end.

  Definition Post (v : vfun) (s' : sim) : Prop := exists v', Kv s' v' /\ Gv v' ex0 /\ dropV v v'.
  Lemma Post_keep v s' : Kv s' v -> Gv v ex0 -> Post v s'.
  Proof. intros A B. exists v. split; [exact A|]. split; [exact B|apply dropV_refl]. Qed.
  Lemma Post_trans v v1 s' : dropV v v1 -> Post v1 s' -> Post v s'.
  Proof. intros F (v' & A & B & C). exists v'. split; [exact A|]. split; [exact B|eapply dropV_trans; eauto]. Qed.
  (* one event: either blocked queues only lose heads, or exactly one customer i of the finishing node j joins the end
     of the blocked queue of a node D that is full, and nothing else changes *)
  Definition pushV (j : Z) (v v' : vfun) : Prop :=
    exists D i p bq l c, v D = Some (p, bq, l) /\ cap_of cf D = Some c /\ c <= p /\
                         forall j', v' j' = setv v D (p, bq ++ [(j, i)], l + 1) j'.
  Definition PostE (j : Z) (v : vfun) (s' : sim) : Prop := exists v', Kv s' v' /\ Gv v' ex0 /\ (dropV v v' \/ pushV j v v').
  Lemma Post_E j v s' : Post v s' -> PostE j v s'.
  Proof. intros (v' & A & B & C). exists v'. auto. Qed.

  (* ---------- accept: one more customer at node j ---------- *)
  Lemma accept_blk j x s s' v : Kv s v -> accept cf j x s = Ok (tt, s') ->
    exists p bq l, v j = Some (p, bq, l) /\ Kv s' (setv v j (p + 1, bq, l)).
  Proof.
    intros HK H. unfold accept in H.
    mstep H.
    match goal with Hx : nthZ (nodes s) (j - 1) = Some ?ndx |- _ => rename ndx into nd0; rename Hx into Hn0 end.
    pose proof (Idx_get _ _ _ (proj1 HK) Hn0) as Hidj.
    assert (Hvj : v j = Some (n_pop nd0, n_bq nd0, n_lenbq nd0)) by (rewrite <- (proj2 HK); apply bvZ_of; exact Hn0).
    mstep H. kk ltac:(apply keepI_put_ind). nameK HK1.
    mstep H.
    mstep H.
    match goal with E : put_node ?nd ?sa = Ok (?u, ?sb) |- _ =>
      destruct u; pose proof (K_put nd sa sb v j (n_pop nd0 + 1, n_bq nd0, n_lenbq nd0) _ HK1 E Hidj Hvj eq_refl) as HK2; clear HK1 E end.
    kk ltac:(apply bk_k_bsip_accept). nameK HK3.
    exists (n_pop nd0), (n_bq nd0), (n_lenbq nd0). split; [exact Hvj|exact HK3].
  Qed.

  (* ---------- release with the cascade: afterwards nobody waits for a node that has space ---------- *)
  Lemma release_blk : forall f j i d s s' v, Kv s v -> Gv v (xd d) -> release cf f j i d s = Ok (tt, s') -> Post v s'.
  Proof.
    induction f as [|f IH]; intros j i d s s' v HK HG H; [discriminate|].
    cbn [release] in H.
    mstep H. mstep H. mstep H. mstep H. mstep H.
    match goal with Hx : nthZ (nodes s) (j - 1) = Some ?ndx |- _ => rename ndx into nd0; rename Hx into Hn0 end.
    pose proof (Idx_get _ _ _ (proj1 HK) Hn0) as Hidj.
    assert (Hvj : v j = Some (n_pop nd0, n_bq nd0, n_lenbq nd0)) by (rewrite <- (proj2 HK); apply bvZ_of; exact Hn0).
    (* the customer leaves node j: population - 1 *)
    mstep H.
    match goal with E : put_node ?nd ?sa = Ok (?u, ?sb) |- _ =>
      destruct u; pose proof (K_put nd sa sb v j (n_pop nd0 - 1, n_bq nd0, n_lenbq nd0) _ HK E Hidj Hvj eq_refl) as HK1; clear HK E end.
    pose proof (dropV_setv v j _ _ _ (n_pop nd0 - 1) (n_bq nd0) (n_lenbq nd0) Hvj (skip0 _)) as F1.
    set (v1 := setv v j (n_pop nd0 - 1, n_bq nd0, n_lenbq nd0)) in *.
    mstep H. kk ltac:(apply keepI_put_ind).
    mstep H. kk ltac:(apply bk_k_write_individual_record).
    mstep H.
    mstep H. kk ltac:(repeat bk_k_step).
    mstep H.
    mstep H. kk ltac:(apply keepI_put_ind).
    mstep H. kk ltac:(apply bk_k_bsip_release). nameK HK5.
    (* the customer lands *)
    mstep H.
    match goal with X : (if d =? 0 then _ else _) _ = Ok (?u, ?sx) |- _ => destruct u; rename X into EL; rename sx into sL end.
    assert (L : exists v2, Kv sL v2 /\ Gv v2 (ex1 j) /\ dropV v v2).
    { revert HG EL. unfold xd. destruct (Z.eqb_spec d 0) as [Hd0|Hd0]; intros HG EL.
      - exists v1. split; [exact (K_keep _ _ _ _ _ (bk_k_exit_accept _ _) HK5 EL)|]. split; [|exact F1].
        apply G_move_exit; assumption.
      - destruct (accept_blk _ _ _ _ _ HK5 EL) as (pd & bqd & ld & Hvd & HK6).
        exists (setv v1 d (pd + 1, bqd, ld)). split; [exact HK6|]. split.
        + apply G_move; assumption.
        + eapply dropV_trans; [exact F1|]. apply (dropV_setv v1 d _ _ _ _ _ _ Hvd), skip0. }
    clear HK5 EL HG. destruct L as (v2 & HK6 & G6 & F6).
    (* release_blocked_individual of node j *)
    mstep H. mstep H.
    match goal with Hx : nthZ (nodes sL) (j - 1) = Some ?ndx |- _ => rename ndx into nd3; rename Hx into Hn3 end.
    match goal with Hx : nthZ (cf_nodes cf) (j - 1) = Some ?ncx |- _ => rename ncx into nc3; rename Hx into Hl3 end.
    pose proof (Idx_get _ _ _ (proj1 HK6) Hn3) as Hid3.
    assert (Hv3 : v2 j = Some (n_pop nd3, n_bq nd3, n_lenbq nd3)) by (rewrite <- (proj2 HK6); apply bvZ_of; exact Hn3).
    assert (Hj1 : 1 <= j) by (unfold nthZ in Hn3; destruct (j - 1 <? 0) eqn:Ej; [discriminate|apply Z.ltb_ge in Ej; lia]).
    assert (Hcap : cap_of cf j = nc_cap nc3) by (unfold cap_of; rewrite Hl3; reflexivity).
    match type of H with (if ?c then _ else _) _ = _ => destruct c eqn:Ec end.
    - destruct (n_bq nd3) as [|[from y] rest] eqn:Ebq; [discriminate|].
      mstep H. mstep H.
      match goal with E : (if ?b then ret tt else _) ?sa = Ok (_, ?sb) |- _ =>
        assert (Hsb : sb = sa) by (destruct b; [inversion E; reflexivity|discriminate E]); rewrite Hsb in *; clear E Hsb end.
      mstep H.
      match goal with E : put_node ?nd ?sa = Ok (?u, ?sb) |- _ =>
        destruct u; pose proof (K_put nd sa sb v2 j (n_pop nd3, rest, n_lenbq nd3 - 1) _ HK6 E Hid3 Hv3 eq_refl) as HK7; clear E end.
      eapply Post_trans; [exact F6|]. eapply Post_trans; [|eapply IH; [exact HK7| |exact H]].
      + apply (dropV_setv v2 j _ _ _ _ _ _ Hv3). exists 1%nat. reflexivity.
      + unfold xd. destruct (Z.eqb_spec j 0) as [Hj0|Hj0]; [lia|]. eapply G_pop; [exact G6|exact Hv3].
    - apply ret_spec in H as [-> _]. exists v2. split; [exact HK6|]. split; [|exact F6].
      eapply G_close; [exact G6|exact Hv3|].
      apply andb_false_iff in Ec as [Ec|Ec].
      + left. destruct (G6 _ _ _ _ Hv3) as [A _]. apply Z.ltb_ge in Ec. destruct (n_bq nd3); [reflexivity|cbn [length] in A; lia].
      + right. destruct (nc_cap nc3) as [c|] eqn:Ecap; [|discriminate Ec]. exists c. split; [first [exact Hcap|rewrite Hcap; exact Ecap]|apply Z.ltb_ge in Ec; exact Ec].
  Qed.

  (* ---------- finish_service: move on when there is space, otherwise join the END of the destination's blocked queue ---------- *)
  Lemma finish_service_blk j s s' v : Kv s v -> Gv v ex0 -> finish_service cf j s = Ok (tt, s') -> PostE j v s'.
  Proof.
    intros HK HG H. unfold finish_service in H.
    mstep H.
    mstep H.
    match goal with E : _ s = Ok (?ii, _) |- _ => rename ii into i0 end.
    kk ltac:(repeat first [apply bk_k_choice_uniform | bk_k_step]).
    mstep H. mstep H.
    mstep H. kk ltac:(repeat first [apply bk_k_choice_weighted | bk_k_step]).
    mstep H. mstep H.
    mstep H. kk ltac:(apply bk_k_choice_weighted).
    match type of H with context [if Nat.ltb ?k (length ?row) then ?x else ?y] => set (D := if Nat.ltb k (length row) then x else y) in * end.
    mstep H. kk ltac:(apply keepI_put_ind).
    mstep H.
    mstep H. kk ltac:(repeat bk_k_step). nameK HK5.
    mstep H.
    match goal with E : (if D =? 0 then ret true else _) ?sa = Ok (?sp, ?sb) |- _ =>
      assert (Hsp : sb = sa /\ (sp = false -> D <> 0 /\ exists p bq l c, v D = Some (p, bq, l) /\ cap_of cf D = Some c /\ c <= p));
      [ revert E; destruct (Z.eqb_spec D 0) as [HD|HD]; intros E;
        [ apply ret_spec in E as [-> ->]; split; [reflexivity|discriminate]
        | mstep E; mstep E; apply ret_spec in E as [-> ->]; split; [reflexivity|]; intros Hf; split; [exact HD|];
          match goal with Hx : nthZ (nodes sa) (D - 1) = Some ?dn, Hy : nthZ (cf_nodes cf) (D - 1) = Some ?dc |- _ =>
            destruct (nc_cap dc) as [c|] eqn:Ecap; [|discriminate Hf];
            exists (n_pop dn), (n_bq dn), (n_lenbq dn), c; split; [rewrite <- (proj2 HK5); apply bvZ_of; exact Hx|];
            split; [unfold cap_of; rewrite Hy; exact Ecap|apply Z.ltb_ge in Hf; exact Hf] end ]
      | destruct Hsp as [-> Hsp]; clear E ] end.
    match type of H with (if ?sp then _ else _) _ = _ => destruct sp end.
    - mstep H. apply Post_E. eapply release_blk; [exact HK5| |exact H]. eapply G_weaken; [|exact HG]. intros j0. apply xd_le.
    - destruct (Hsp eq_refl) as (HD & p & bq & l & c & HvD & HcD & Hfull).
      unfold block_individual in H.
      mstep H. mstep H. kk ltac:(apply keepI_put_ind). nameK HK6.
      mstep H.
      match goal with Hx : nthZ (nodes ?sa) (D - 1) = Some ?dx |- _ => rename dx into dn; rename Hx into HnD end.
      match goal with Hx : nthZ (nodes ?sa) (D - 1) = Some dn |- _ =>
        pose proof (Idx_get _ _ _ (proj1 HK6) Hx) as HidD;
        assert (HvD' : v D = Some (n_pop dn, n_bq dn, n_lenbq dn)) by (rewrite <- (proj2 HK6); apply bvZ_of; exact Hx);
        rewrite HvD in HvD'; injection HvD' as -> -> ->;
        pose proof (K_put _ _ _ v D (n_pop dn, n_bq dn ++ [(j, i0)], n_lenbq dn + 1) _ HK6 H HidD HvD eq_refl) as HK7
      end.
      eexists. split; [exact HK7|]. split; [exact (G_push _ _ _ _ _ _ c HG HvD HcD Hfull)|].
      right. exists D, i0, (n_pop dn), (n_bq dn), (n_lenbq dn), c. split; [exact HvD|]. split; [exact HcD|]. split; [exact Hfull|reflexivity].
  Qed.

  (* ---------- arrivals: an admitted customer only makes its node fuller ---------- *)
  Lemma release_individual_blk j x s s' v : Kv s v -> Gv v ex0 -> release_individual cf j x s = Ok (tt, s') -> Post v s'.
  Proof.
    intros HK HG H. unfold release_individual in H.
    mstep H. mstep H.
    mstep H. (* sys_population: read-only, solved by computation *)
    mstep H. kk ltac:(apply keepI_put_ind).
    assert (Hacc : forall sa sb, Kv sa v -> accept cf j x sa = Ok (tt, sb) -> Post v sb).
    { intros sa sb HKa Ha. destruct (accept_blk _ _ _ _ _ HKa Ha) as (p & bq & l & Hvj & HKb).
      eexists. split; [exact HKb|]. split; [apply G_inc; assumption|apply (dropV_setv v j _ _ _ _ _ _ Hvj), skip0]. }
    match type of H with (if ?b then _ else _) _ = _ => destruct b end.
    - mstep H. kk ltac:(apply bk_k_write_br_record). nameK HK3.
      apply Post_keep; [|exact HG]. exact (K_keep _ _ _ _ _ (bk_k_exit_accept _ _) HK3 H).
    - mstep H. mstep H.
      match type of H with (match ?t with _ => _ end) _ = _ => destruct t as [tb|] end.
      + mstep H. kk ltac:(apply keepI_draw_unif).
        match type of H with (if ?b then _ else _) _ = _ => destruct b end.
        * mstep H. kk ltac:(apply bk_k_write_br_record). nameK HK3.
          apply Post_keep; [|exact HG]. exact (K_keep _ _ _ _ _ (bk_k_exit_accept _ _) HK3 H).
        * mstep H. kk ltac:(apply keepI_modify; intros ?; reflexivity). nameK HK3. eapply Hacc; eauto.
      + mstep H. kk ltac:(apply keepI_modify; intros ?; reflexivity). nameK HK3. eapply Hacc; eauto.
  Qed.

  Lemma batch_loop_blk : forall n j c p s s' v, Kv s v -> Gv v ex0 -> batch_loop cf n j c p s = Ok (tt, s') -> Post v s'.
  Proof.
    induction n as [|n IH]; intros j c p s s' v HK HG H; cbn [batch_loop] in H; [apply ret_spec in H as [-> _]; apply Post_keep; assumption|].
    mstep H. kk ltac:(apply keepI_modify; intros ?; reflexivity). nameK HK1.
    mstep H.
    mstep H.
    match goal with E : release_individual _ _ _ _ = Ok (?u, _) |- _ =>
      destruct u; destruct (release_individual_blk _ _ _ _ _ HK1 HG E) as (v2 & HK2 & G2 & F2) end.
    eapply Post_trans; [exact F2|]. eapply IH; eauto.
  Qed.

  Lemma arrival_have_event_blk s s' v : Kv s v -> Gv v ex0 -> arrival_have_event cf s = Ok (tt, s') -> Post v s'.
  Proof.
    intros HK HG H. unfold arrival_have_event in H.
    mstep H.
    mstep H. kk ltac:(apply keepI_draw_batch).
    mstep H. kk ltac:(repeat bk_k_step).
    mstep H.
    mstep H. nameK HK2.
    match goal with E : batch_loop _ _ _ _ _ _ = Ok (?u, _) |- _ =>
      destruct u; destruct (batch_loop_blk _ _ _ _ _ _ _ HK2 HG E) as (v3 & HK3 & G3 & F3); clear HK2 E end.
    mstep H. kk ltac:(apply keepI_draw_arr).
    mstep H. mstep H. mstep H.
    mstep H. kk ltac:(apply keepI_modify; intros ?; reflexivity). nameK HK4.
    exists v3. split; [exact (K_keep _ _ _ _ _ bk_k_find_next_event_date HK4 H)|]. split; assumption.
  Qed.

  (* ---------- one event ---------- *)
  Lemma event_step_post s s' v : Kv s v -> Gv v ex0 -> event_step cf s = Ok (tt, s') -> PostE (next_active s) v s'.
  Proof.
    intros HK HG H. unfold event_step in H.
    mstep H.
    match goal with E : modify _ s = Ok (_, ?sx) |- _ =>
      assert (Hna : next_active sx = next_active s) by (unfold modify in E; inversion E; reflexivity) end.
    kk ltac:(apply keepI_modify; intros ?; reflexivity). nameK HK1.
    mstep H.
    mstep H. rewrite Hna in *.
    match goal with E : (if ?b then _ else _) _ = Ok (?u, ?sx) |- _ =>
      destruct u; assert (P2 : PostE (next_active s) v sx) by (destruct b; [eapply Post_E, arrival_have_event_blk; eauto|eapply finish_service_blk; eauto]); clear HK1 E end.
    destruct P2 as (v2 & HK2 & G2 & F2).
    mstep H.
    mstep H. kk ltac:(apply bk_k_update_all). nameK HK3.
    exists v2. split; [exact (K_keep _ _ _ _ _ bk_k_find_next_active_node HK3 H)|]. split; assumption.
  Qed.
End Blocking.

(* ====================================================================================================================
   The statements, on states, in the words of the property (nodes are matched by position: node k+1 is nth k)
   ==================================================================================================================== *)

(* the invariant: identities are positions (needed to speak of "the node d"), (i) and (ii) *)
Definition Blk (cf : config) (s : sim) : Prop :=
  forall k nd, nth_error (nodes s) k = Some nd ->
    n_id nd = Z.of_nat k + 1 /\
    n_lenbq nd = Z.of_nat (length (n_bq nd)) /\
    (n_bq nd <> [] -> exists c, cap_of cf (Z.of_nat k + 1) = Some c /\ c <= n_pop nd).

(* (iv) blocked queues lose a prefix and gain a suffix *)
Definition fifo (s s' : sim) : Prop :=
  forall k nd, nth_error (nodes s) k = Some nd ->
    exists nd', nth_error (nodes s') k = Some nd' /\ exists n t, n_bq nd' = skipn n (n_bq nd) ++ t.
(* ... in one event, more precisely: either only heads are taken (the unblocking cascade), *)
Definition heads_only (s s' : sim) : Prop :=
  forall k nd, nth_error (nodes s) k = Some nd ->
    exists nd', nth_error (nodes s') k = Some nd' /\ exists n, n_bq nd' = skipn n (n_bq nd).
(* ... or one customer i of the active node joins the END of the blocked queue of a node that is full (finite capacity
   c <= population), every population and every other blocked queue staying as it was *)
Definition one_blocked (cf : config) (s s' : sim) : Prop :=
  exists kD i c, (exists ndD, nth_error (nodes s) kD = Some ndD /\ cap_of cf (Z.of_nat kD + 1) = Some c /\ c <= n_pop ndD) /\
    forall k nd, nth_error (nodes s) k = Some nd ->
      exists nd', nth_error (nodes s') k = Some nd' /\ n_pop nd' = n_pop nd /\
                  n_bq nd' = if Nat.eqb k kD then n_bq nd ++ [(next_active s, i)] else n_bq nd.

Lemma bvZ_nat s k : bvZ s (Z.of_nat k + 1) = option_map (fun nd => (n_pop nd, n_bq nd, n_lenbq nd)) (nth_error (nodes s) k).
Proof.
  unfold bvZ, nthZ. replace (Z.of_nat k + 1 - 1) with (Z.of_nat k) by lia.
  destruct (Z.of_nat k <? 0) eqn:E; [apply Z.ltb_lt in E; lia|]. rewrite Nat2Z.id. reflexivity.
Qed.
Lemma bvZ_inv s j x : bvZ s j = Some x -> exists k nd, j = Z.of_nat k + 1 /\ nth_error (nodes s) k = Some nd /\ x = (n_pop nd, n_bq nd, n_lenbq nd).
Proof.
  intros H. apply bvZ_exists in H as (nd & Hn & ->). destruct (nthZ_nat _ _ _ Hn) as (k & Hk & Hnk).
  exists k, nd. split; [lia|]. split; [exact Hnk|reflexivity].
Qed.

Lemma Blk_iff cf s : Blk cf s <-> (Idx s /\ Gv cf (bvZ s) ex0).
Proof.
  split.
  - intros H. split; [intros k nd Hk; apply (H k nd Hk)|].
    intros j p bq l Hj. apply bvZ_inv in Hj as (k & nd & -> & Hk & E). injection E as -> -> ->.
    destruct (H k nd Hk) as (_ & A & B). split; [exact A|]. intros Hn. destruct (B Hn) as (c & Hc & Hle). exists c. split; [exact Hc|unfold ex0; lia].
  - intros [HI HG] k nd Hk. split; [apply (HI k nd Hk)|].
    assert (Hj : bvZ s (Z.of_nat k + 1) = Some (n_pop nd, n_bq nd, n_lenbq nd)) by (rewrite bvZ_nat, Hk; reflexivity).
    destruct (HG _ _ _ _ Hj) as [A B]. split; [exact A|]. intros Hn. destruct (B Hn) as (c & Hc & Hle). exists c. split; [exact Hc|unfold ex0 in Hle; lia].
Qed.

Lemma fifoV_fifo s s' : fifoV (bvZ s) (bvZ s') -> fifo s s'.
Proof.
  intros H k nd Hk.
  assert (Hj : bvZ s (Z.of_nat k + 1) = Some (n_pop nd, n_bq nd, n_lenbq nd)) by (rewrite bvZ_nat, Hk; reflexivity).
  destruct (H _ _ _ _ Hj) as (p' & bq' & l' & Hv & n & t & E). rewrite bvZ_nat in Hv.
  destruct (nth_error (nodes s') k) as [nd'|]; [|discriminate]. cbn in Hv. injection Hv as _ <- _. exists nd'. split; [reflexivity|eauto].
Qed.
Lemma fifo_fifoV s s' : fifo s s' -> fifoV (bvZ s) (bvZ s').
Proof.
  intros H j p bq l Hj. apply bvZ_inv in Hj as (k & nd & -> & Hk & E). injection E as -> -> ->.
  destruct (H k nd Hk) as (nd' & Hk' & n & t & E). exists (n_pop nd'), (n_bq nd'), (n_lenbq nd'). split; [rewrite bvZ_nat, Hk'; reflexivity|eauto].
Qed.
Lemma fifo_refl s : fifo s s.
Proof. apply fifoV_fifo, fifoV_refl. Qed.
Lemma fifo_trans a b c : fifo a b -> fifo b c -> fifo a c.
Proof. intros H1 H2. apply fifoV_fifo. eapply fifoV_trans; apply fifo_fifoV; eassumption. Qed.

Lemma dropV_heads s s' : dropV (bvZ s) (bvZ s') -> heads_only s s'.
Proof.
  intros H k nd Hk.
  assert (Hj : bvZ s (Z.of_nat k + 1) = Some (n_pop nd, n_bq nd, n_lenbq nd)) by (rewrite bvZ_nat, Hk; reflexivity).
  destruct (H _ _ _ _ Hj) as (p' & bq' & l' & Hv & n & E). rewrite bvZ_nat in Hv.
  destruct (nth_error (nodes s') k) as [nd'|]; [|discriminate]. cbn in Hv. injection Hv as _ <- _. exists nd'. split; [reflexivity|eauto].
Qed.
Lemma heads_only_fifo s s' : heads_only s s' -> fifo s s'.
Proof.
  intros H k nd Hk. destruct (H k nd Hk) as (nd' & Hk' & n & E). exists nd'. split; [exact Hk'|]. exists n, []. rewrite app_nil_r. exact E.
Qed.
Lemma one_blocked_fifo cf s s' : one_blocked cf s s' -> fifo s s'.
Proof.
  intros (kD & i & c & _ & H) k nd Hk. destruct (H k nd Hk) as (nd' & Hk' & _ & E). exists nd'. split; [exact Hk'|]. exists 0%nat.
  destruct (Nat.eqb k kD); [exists [(next_active s, i)]|exists []; rewrite app_nil_r]; exact E.
Qed.
Lemma pushV_one cf s s' : pushV cf (next_active s) (bvZ s) (bvZ s') -> one_blocked cf s s'.
Proof.
  intros (D & i & p & bq & l & c & HvD & HcD & Hfull & Hv').
  apply bvZ_inv in HvD as (kD & ndD & -> & HkD & E). injection E as -> -> ->.
  exists kD, i, c. split; [exists ndD; auto|].
  intros k nd Hk. specialize (Hv' (Z.of_nat k + 1)). unfold setv in Hv'. rewrite !bvZ_nat, Hk in Hv'.
  destruct (nth_error (nodes s') k) as [nd'|]; [|destruct (Z.of_nat k + 1 =? Z.of_nat kD + 1); discriminate]. exists nd'. split; [reflexivity|].
  destruct (Nat.eqb_spec k kD) as [->|Hne].
  - rewrite Z.eqb_refl in Hv'. cbn in Hv'. rewrite HkD in Hk. injection Hk as <-. injection Hv' as -> -> _. auto.
  - destruct (Z.eqb_spec (Z.of_nat k + 1) (Z.of_nat kD + 1)) as [Heq|_]; [lia|]. cbn in Hv'. injection Hv' as -> -> _. auto.
Qed.

(* ---------- T2 for C07: one event ---------- *)
Theorem event_step_blk cf s s' : Blk cf s -> event_step cf s = Ok (tt, s') -> Blk cf s'.
Proof.
  intros HB H. apply Blk_iff in HB as [HI HG].
  destruct (event_step_post cf s s' (bvZ s) (K_self s HI) HG H) as (v' & [HI' HV'] & Gv' & _).
  apply Blk_iff. split; [exact HI'|]. eapply G_ext; [|exact Gv']. exact HV'.
Qed.

Theorem event_step_fifo cf s s' : Blk cf s -> event_step cf s = Ok (tt, s') -> heads_only s s' \/ one_blocked cf s s'.
Proof.
  intros HB H. apply Blk_iff in HB as [HI HG].
  destruct (event_step_post cf s s' (bvZ s) (K_self s HI) HG H) as (v' & [HI' HV'] & _ & [F|F]).
  - left. apply dropV_heads. intros j p bq l Hj. rewrite HV'. exact (F _ _ _ _ Hj).
  - right. apply pushV_one. destruct F as (D & i & p & bq & l & c & A & B & C & E). exists D, i, p, bq, l, c.
    split; [exact A|]. split; [exact B|]. split; [exact C|]. intros j. rewrite HV'. apply E.
Qed.

Corollary event_step_fifo_weak cf s s' : Blk cf s -> event_step cf s = Ok (tt, s') -> fifo s s'.
Proof. intros HB H. destruct (event_step_fifo cf s s' HB H) as [F|F]; [apply heads_only_fifo|eapply one_blocked_fifo]; eassumption. Qed.

(* ---------- any number of events, each with its own draws; no hypothesis on the draws is needed ---------- *)
Lemma Blk_nodes cf s s' : nodes s' = nodes s -> Blk cf s -> Blk cf s'.
Proof. intros E H k nd Hk. rewrite E in Hk. apply (H k nd Hk). Qed.

Theorem run_many_blk cf : forall ds s s', Blk cf s -> run_many cf s ds = Ok s' -> Blk cf s'.
Proof.
  induction ds as [|d r IH]; intros s s' HB H; cbn [run_many] in H; [inversion H; subst; exact HB|].
  destruct (event_step cf (s <| dr := d |>)) as [[u s1]| |] eqn:E; try discriminate. destruct u.
  eapply IH; [|exact H]. eapply event_step_blk; [|exact E]. eapply Blk_nodes; [|exact HB]. reflexivity.
Qed.

Theorem run_many_fifo cf : forall ds s s', Blk cf s -> run_many cf s ds = Ok s' -> fifo s s'.
Proof.
  induction ds as [|d r IH]; intros s s' HB H; cbn [run_many] in H; [inversion H; subst; apply fifo_refl|].
  destruct (event_step cf (s <| dr := d |>)) as [[u s1]| |] eqn:E; try discriminate. destruct u.
  assert (HB0 : Blk cf (s <| dr := d |>)) by (eapply Blk_nodes; [|exact HB]; reflexivity).
  pose proof (event_step_fifo_weak cf _ _ HB0 E) as F1.
  pose proof (event_step_blk cf _ _ HB0 E) as HB1.
  eapply fifo_trans; [|eapply IH; eauto]. intros k nd Hk. apply (F1 k nd Hk).
Qed.

(* ---------- in the words of the property ---------- *)
Theorem blk_means cf s : Blk cf s ->
  forall k nd, nth_error (nodes s) k = Some nd ->
    (* the counter of the blocked queue is its length *)
    n_lenbq nd = Z.of_nat (length (n_bq nd)) /\
    (* nobody is left blocked to a node that has space *)
    (forall c, cap_of cf (Z.of_nat k + 1) = Some c -> n_pop nd < c -> n_bq nd = []) /\
    (* in particular nobody is ever blocked to a node without a capacity limit *)
    (cap_of cf (Z.of_nat k + 1) = None -> n_bq nd = []).
Proof.
  intros HB k nd Hk. destruct (HB k nd Hk) as (_ & A & B). split; [exact A|].
  split; [intros c Hc Hlt|intros Hc]; (destruct (n_bq nd) as [|e r] eqn:Ebq; [reflexivity|]);
    destruct (B ltac:(discriminate)) as (c' & Hc' & Hle); [|congruence].
  rewrite Hc in Hc'. injection Hc' as <-. lia.
Qed.

(* with the capacity invariant of C06 (Capacity.J): somebody is blocked to a node only while it is exactly full *)
Theorem blk_full cf s : Blk cf s -> J cf s ->
  forall k nd, nth_error (nodes s) k = Some nd -> n_bq nd <> [] -> cap_of cf (Z.of_nat k + 1) = Some (n_pop nd).
Proof.
  intros HB HJ k nd Hk Hn. destruct (HB k nd Hk) as (_ & _ & B). destruct (B Hn) as (c & Hc & Hle).
  pose proof (J_means cf s HJ k nd c Hk Hc). rewrite Hc. f_equal. lia.
Qed.

(* ---------- an executable test of the invariant ---------- *)
Definition blk_b (cf : config) (s : sim) : bool :=
  idx_b 1 (nodes s)
  && forallb (fun nd => (n_lenbq nd =? Z.of_nat (length (n_bq nd)))
                        && match n_bq nd with
                           | [] => true
                           | _ :: _ => match cap_of cf (n_id nd) with Some c => c <=? n_pop nd | None => false end
                           end) (nodes s).

Theorem blk_b_sound cf s : blk_b cf s = true -> Blk cf s.
Proof.
  unfold blk_b. intros H. apply andb_true_iff in H as [H1 H2]. intros k nd Hk.
  pose proof (idx_b_spec _ _ H1 k nd Hk) as Hid. split; [lia|].
  rewrite forallb_forall in H2. specialize (H2 nd (nth_error_In _ _ Hk)). apply andb_true_iff in H2 as [A B].
  apply Z.eqb_eq in A. split; [exact A|]. intros Hn.
  destruct (n_bq nd) as [|e r]; [congruence|]. replace (n_id nd) with (Z.of_nat k + 1) in B by lia.
  destruct (cap_of cf (Z.of_nat k + 1)) as [c|]; [|discriminate B]. exists c. split; [reflexivity|apply Z.leb_le; exact B].
Qed.

(* L [cfg; state] -> A 1 when the snapshot satisfies Blk *)
Definition run_blkb (inp : sx) : sx :=
  match inp with
  | L [c; s] =>
    match dec_cfg c, dec_sim s (L [L []; L []; L []; L []]) with
    | Some cf, Some st => A (if blk_b cf st then 1 else 0)
    | _, _ => A (-1)
    end
  | _ => A (-1)
  end.


(* ====================================================================================================================
   (iii) WHO is in the blocked queues
   ==================================================================================================================== *)

(* ---------- the customer table ---------- *)
Lemma find_put_same x l : find_ind (i_id x) (put_ind_l x l) = Some x.
Proof.
  induction l as [|y r IH]; cbn; [rewrite Z.eqb_refl; reflexivity|].
  destruct (i_id y =? i_id x) eqn:E; cbn; [rewrite Z.eqb_refl; reflexivity|rewrite E; exact IH].
Qed.
Lemma find_put_other x l i : i <> i_id x -> find_ind i (put_ind_l x l) = find_ind i l.
Proof.
  intros Hne. induction l as [|y r IH]; cbn.
  - destruct (Z.eqb_spec (i_id x) i); [congruence|reflexivity].
  - destruct (Z.eqb_spec (i_id y) (i_id x)) as [E|E]; cbn.
    + destruct (Z.eqb_spec (i_id x) i); [congruence|]. destruct (Z.eqb_spec (i_id y) i); [congruence|reflexivity].
    + destruct (Z.eqb_spec (i_id y) i); [reflexivity|exact IH].
Qed.
Lemma find_del_other i j l : i <> j -> find_ind i (del_ind_l j l) = find_ind i l.
Proof.
  intros Hne. induction l as [|y r IH]; cbn; [reflexivity|].
  destruct (Z.eqb_spec (i_id y) j) as [E|E]; cbn.
  - destruct (Z.eqb_spec (i_id y) i); [congruence|reflexivity].
  - destruct (Z.eqb_spec (i_id y) i); [reflexivity|exact IH].
Qed.
Lemma find_In i l x : find_ind i l = Some x -> In x l.
Proof. induction l as [|y r IH]; cbn; [discriminate|]. destruct (i_id y =? i); [intros H; injection H as <-; auto|auto]. Qed.
Lemma find_None i l : find_ind i l = None -> forall y, In y l -> i_id y <> i.
Proof.
  induction l as [|z r IH]; cbn; intros H y Hy; [destruct Hy|].
  destruct (Z.eqb_spec (i_id z) i) as [E|E]; [discriminate|]. destruct Hy as [<-|Hy]; [exact E|apply IH; assumption].
Qed.
Lemma In_find l x : NoDup (map i_id l) -> In x l -> find_ind (i_id x) l = Some x.
Proof.
  induction l as [|y r IH]; cbn; intros Hnd Hx; [destruct Hx|]. inversion Hnd as [|? ? Hn Hd]; subst.
  destruct Hx as [->|Hx]; [rewrite Z.eqb_refl; reflexivity|].
  destruct (Z.eqb_spec (i_id y) (i_id x)) as [E|E]; [exfalso; apply Hn; rewrite E; apply in_map; exact Hx|apply IH; assumption].
Qed.
Lemma ids_put x l : map i_id (put_ind_l x l) = if memZ (i_id x) (map i_id l) then map i_id l else map i_id l ++ [i_id x].
Proof.
  induction l as [|y r IH]; cbn; [reflexivity|].
  destruct (Z.eqb_spec (i_id y) (i_id x)) as [E|E]; cbn.
  - rewrite E, Z.eqb_refl. cbn. reflexivity.
  - destruct (Z.eqb_spec (i_id x) (i_id y)); [congruence|]. cbn. rewrite IH. destruct (memZ (i_id x) (map i_id r)); reflexivity.
Qed.
Lemma NoDup_snoc {A} (l : list A) a : NoDup l -> ~ In a l -> NoDup (l ++ [a]).
Proof. intros H Hn. eapply Permutation_NoDup; [apply Permutation_cons_append|constructor; assumption]. Qed.
Lemma NoDup_put x l : NoDup (map i_id l) -> NoDup (map i_id (put_ind_l x l)).
Proof.
  intros H. rewrite ids_put. destruct (memZ (i_id x) (map i_id l)) eqn:E; [exact H|].
  apply NoDup_snoc; [exact H|]. rewrite <- memZ_In. congruence.
Qed.
Lemma In_put x l y : NoDup (map i_id l) -> In y (put_ind_l x l) -> y = x \/ (In y l /\ i_id y <> i_id x).
Proof.
  induction l as [|z r IH]; cbn; intros Hnd Hy; [destruct Hy as [<-|[]]; auto|]. inversion Hnd as [|? ? Hn Hd]; subst.
  destruct (Z.eqb_spec (i_id z) (i_id x)) as [E|E].
  - destruct Hy as [<-|Hy]; [auto|]. right. split; [auto|]. intros E2. apply Hn. rewrite E, <- E2. apply in_map. exact Hy.
  - destruct Hy as [<-|Hy]; [right; split; [auto|exact E]|]. destruct (IH Hd Hy) as [->|[A B]]; auto.
Qed.
Lemma In_del i l y : NoDup (map i_id l) -> In y (del_ind_l i l) -> In y l /\ i_id y <> i.
Proof.
  induction l as [|z r IH]; cbn; intros Hnd Hy; [destruct Hy|]. inversion Hnd as [|? ? Hn Hd]; subst.
  destruct (Z.eqb_spec (i_id z) i) as [E|E].
  - split; [auto|]. intros E2. apply Hn. rewrite E, <- E2. apply in_map. exact Hy.
  - destruct Hy as [<-|Hy]; [split; [auto|exact E]|]. destruct (IH Hd Hy) as [A B]; auto.
Qed.
Lemma NoDup_del i l : NoDup (map i_id l) -> NoDup (map i_id (del_ind_l i l)).
Proof.
  induction l as [|z r IH]; cbn; intros Hnd; [constructor|]. inversion Hnd as [|? ? Hn Hd]; subst.
  destruct (i_id z =? i); [exact Hd|]. cbn. constructor; [|apply IH; exact Hd].
  intros Hin. apply Hn. apply in_map_iff in Hin as (y & Ey & Hy). apply in_map_iff. exists y. split; [exact Ey|].
  clear -Hy. induction r as [|w r IH]; cbn in *; [destruct Hy|]. destruct (i_id w =? i); [auto|]. destruct Hy as [<-|Hy]; auto.
Qed.

(* ---------- servers ---------- *)
Lemma ids_put_server sv l : map sv_id (put_server_l sv l) = map sv_id l.
Proof.
  induction l as [|y r IH]; cbn; [reflexivity|]. destruct (Z.eqb_spec (sv_id y) (sv_id sv)) as [E|E]; cbn; [rewrite E; reflexivity|rewrite IH; reflexivity].
Qed.
Lemma In_put_server sv l y : NoDup (map sv_id l) -> In y (put_server_l sv l) -> y = sv \/ (In y l /\ sv_id y <> sv_id sv).
Proof.
  induction l as [|z r IH]; cbn; intros Hnd Hy; [destruct Hy|]. inversion Hnd as [|? ? Hn Hd]; subst.
  destruct (Z.eqb_spec (sv_id z) (sv_id sv)) as [E|E].
  - destruct Hy as [<-|Hy]; [auto|]. right. split; [auto|]. intros E2. apply Hn. rewrite E, <- E2. apply in_map. exact Hy.
  - destruct Hy as [<-|Hy]; [right; split; [auto|exact E]|]. destruct (IH Hd Hy) as [->|[A B]]; auto.
Qed.
Lemma bk_find_server_In i l sv : find_server i l = Some sv -> In sv l /\ sv_id sv = i.
Proof.
  induction l as [|y r IH]; cbn; [discriminate|]. destruct (Z.eqb_spec (sv_id y) i) as [E|E].
  - intros H. injection H as <-. auto.
  - intros H. destruct (IH H). auto.
Qed.
Lemma bk_find_free_server_In l sv : find_free_server l = Some sv -> In sv l.
Proof. induction l as [|y r IH]; cbn; [discriminate|]. destruct (sv_busy y); [auto|intros H; injection H as <-; auto]. Qed.

(* the customers update_next_event_date puts into n_next_inds of a finite-server node are customers of live servers *)
Lemma bk_scan_servers_spec : forall l best acc c, In c (snd (scan_servers l best acc)) ->
  In c acc \/ exists sv e, In sv l /\ sv_cust sv = Some c /\ sv_next_end sv = Some e.
Proof.
  induction l as [|sv r IH]; intros best acc c H; cbn [scan_servers] in H; [auto|].
  destruct (date_lt (sv_next_end sv) best) eqn:E1.
  - destruct (sv_next_end sv) as [e|] eqn:Ee; [|destruct best; discriminate].
    destruct (IH _ _ _ H) as [Hc|(sv' & e' & A & B & C)]; [|right; exists sv', e'; cbn; auto].
    destruct (sv_cust sv) as [c0|] eqn:Ec; [|destruct Hc]. destruct Hc as [<-|[]]. right. exists sv, e. cbn. auto.
  - destruct (date_eqb (sv_next_end sv) best && match best with Some _ => true | None => false end) eqn:E2.
    + apply andb_true_iff in E2 as [E2 E3]. destruct best as [b|]; [|discriminate].
      destruct (sv_next_end sv) as [e|] eqn:Ee; [|discriminate].
      destruct (IH _ _ _ H) as [Hc|(sv' & e' & A & B & C)]; [|right; exists sv', e'; cbn; auto].
      apply in_app_or in Hc as [Hc|Hc]; [auto|]. destruct (sv_cust sv) as [c0|] eqn:Ec; [|destruct Hc]. destruct Hc as [<-|[]]. right. exists sv, e. cbn. auto.
    + destruct (IH _ _ _ H) as [Hc|(sv' & e' & A & B & C)]; [auto|right; exists sv', e'; cbn; auto].
Qed.
(* ... and of an infinite-server node: customers of the node that are not blocked *)
Lemma bk_scan_inds_spec t il : forall q best acc c, In c (snd (scan_inds t q il best acc)) ->
  In c acc \/ (In c q /\ exists x, find_ind c il = Some x /\ i_blocked x = false).
Proof.
  induction q as [|i r IH]; intros best acc c H; cbn [scan_inds] in H; [auto|].
  assert (Hrec : forall b a, In c (snd (scan_inds t r il b a)) -> In c a \/ (In c (i :: r) /\ exists x, find_ind c il = Some x /\ i_blocked x = false)).
  { intros b a Hc. destruct (IH _ _ _ Hc) as [A|[A B]]; [auto|right; split; [right; exact A|exact B]]. }
  destruct (find_ind i il) as [x|] eqn:Ex; [|destruct (Hrec _ _ H); auto].
  destruct (i_send x) as [e|]; [|destruct (Hrec _ _ H); auto].
  destruct (negb (i_blocked x) && (t <=? e)) eqn:Eb; [|destruct (Hrec _ _ H); auto].
  apply andb_true_iff in Eb as [Eb _]. apply negb_true_iff in Eb.
  assert (Hi : In i (i :: r) /\ exists x, find_ind i il = Some x /\ i_blocked x = false) by (split; [left; reflexivity|eauto]).
  destruct (date_lt (Some e) best).
  - destruct (Hrec _ _ H) as [[<-|[]]|A]; auto.
  - destruct (date_eqb (Some e) best).
    + destruct (Hrec _ _ H) as [A|A]; [|auto]. apply in_app_or in A as [A|[<-|[]]]; auto.
    + destruct (Hrec _ _ H); auto.
Qed.

(* choose_next_customer only proposes customers of the node that hold no server *)
Lemma bk_waiting_of_spec il : forall q c, In c (waiting_of q il) -> In c q /\ exists x, find_ind c il = Some x /\ i_server x = None.
Proof.
  induction q as [|i r IH]; intros c H; cbn in H; [destruct H|].
  destruct (find_ind i il) as [x|] eqn:Ex; [|destruct (IH _ H); auto with datatypes].
  destruct (i_server x) eqn:Es; [destruct (IH _ H); auto with datatypes|].
  destruct H as [<-|H]; [split; [left; reflexivity|eauto]|destruct (IH _ H); auto with datatypes].
Qed.
Lemma bk_first_waiting_spec il : forall qs c, In c (first_waiting qs il) -> In c (concat qs) /\ exists x, find_ind c il = Some x /\ i_server x = None.
Proof.
  induction qs as [|q r IH]; intros c H; cbn in H; [destruct H|].
  destruct (waiting_of q il) as [|w0 wr] eqn:Ew.
  - destruct (IH _ H) as [A B]. split; [cbn; apply in_or_app; auto|exact B].
  - rewrite <- Ew in H. destruct (bk_waiting_of_spec il q c H) as [A B]. split; [cbn; apply in_or_app; auto|exact B].
Qed.

(* ---------- nodes by identity ---------- *)
Definition nodeZ (s : sim) (j : Z) : option node := nthZ (nodes s) (j - 1).
Definition infb (cf : config) (j : Z) : bool :=
  match nthZ (cf_nodes cf) (j - 1) with Some nc => match nc_c nc with None => true | Some _ => false end | None => false end.
Lemma bk_is_inf_spec cf j s b s' : is_inf cf j s = Ok (b, s') -> s' = s /\ b = infb cf j.
Proof.
  unfold is_inf, ncfg_of, infb, bind, lift. destruct (nthZ (cf_nodes cf) (j - 1)) as [nc|]; cbn; [|discriminate].
  intros H. inversion H. auto.
Qed.

Lemma nodeZ_put nd s s' j : put_node nd s = Ok (tt, s') -> n_id nd = j -> (exists nd0, nodeZ s j = Some nd0) ->
  (forall j', nodeZ s' j' = if j' =? j then Some nd else nodeZ s j') /\ inds s' = inds s /\ arr s' = arr s.
Proof.
  intros H Hid [nd0 Hn]. unfold put_node, modify in H. inversion H. subst s'. clear H. split; [|split; reflexivity].
  intros j'. unfold nodeZ in *. cbn.
  rewrite Hid. destruct (nthZ_nat _ _ _ Hn) as (k & Hk & Hnk).
  destruct (j' =? j) eqn:E.
  - apply Z.eqb_eq in E. subst j'. rewrite Hk, updZ_nat. unfold nthZ. destruct (Z.of_nat k <? 0) eqn:E0; [apply Z.ltb_lt in E0; lia|].
    rewrite Nat2Z.id. apply (nth_error_upd_eq _ _ _ _ Hnk).
  - apply Z.eqb_neq in E. rewrite Hk, updZ_nat. unfold nthZ. destruct (j' - 1 <? 0) eqn:E0; [reflexivity|].
    apply Z.ltb_ge in E0. rewrite nth_error_upd_neq by lia. reflexivity.
Qed.
Lemma nodeZ_nat s j nd : nodeZ s j = Some nd -> exists k, j = Z.of_nat k + 1 /\ nth_error (nodes s) k = Some nd.
Proof. intros H. destruct (nthZ_nat _ _ _ H) as (k & Hk & Hnk). exists k. split; [lia|exact Hnk]. Qed.
Lemma nodeZ_of_nat s k : nodeZ s (Z.of_nat k + 1) = nth_error (nodes s) k.
Proof.
  unfold nodeZ, nthZ. replace (Z.of_nat k + 1 - 1) with (Z.of_nat k) by lia.
  destruct (Z.of_nat k <? 0) eqn:E; [apply Z.ltb_lt in E; lia|]. rewrite Nat2Z.id. reflexivity.
Qed.

(* ---------- what conservation (Conserve.WFx) says about places ---------- *)
Lemma NoDup_concat_unique {A} (ls : list (list A)) k1 k2 l1 l2 x :
  NoDup (concat ls) -> nth_error ls k1 = Some l1 -> nth_error ls k2 = Some l2 -> In x l1 -> In x l2 -> k1 = k2.
Proof.
  revert k1 k2. induction ls as [|h t IH]; intros k1 k2 Hnd H1 H2 I1 I2; [destruct k1; discriminate|].
  cbn in Hnd. assert (Hd : forall y, In y h -> In y (concat t) -> False).
  { intros y Ha Hb. clear -Hnd Ha Hb. induction h as [|a h IHh]; [destruct Ha|]. cbn in Hnd. inversion Hnd as [|? ? Hn Hd]; subst.
    destruct Ha as [->|Ha]; [apply Hn, in_or_app; auto|apply IHh; assumption]. }
  assert (Hin : forall k l, nth_error t k = Some l -> In x l -> In x (concat t)).
  { intros k l Hk Hl. apply in_concat. exists l. split; [eapply nth_error_In; eauto|exact Hl]. }
  destruct k1 as [|k1], k2 as [|k2]; cbn in H1, H2.
  - reflexivity.
  - injection H1 as <-. exfalso. eapply Hd; [exact I1|eapply Hin; eauto].
  - injection H2 as <-. exfalso. eapply Hd; [exact I2|eapply Hin; eauto].
  - f_equal. eapply IH; eauto. clear -Hnd. induction h as [|a h IHh]; [exact Hnd|]. cbn in Hnd. inversion Hnd; subst. auto.
Qed.
Lemma bk_NoDup_app_l {A} (a b : list A) : NoDup (a ++ b) -> NoDup a.
Proof. induction a as [|x a IH]; cbn; intros H; [constructor|]. inversion H as [|? ? Hn Hd]; subst. constructor; [intros Hx; apply Hn, in_or_app; auto|auto]. Qed.

Lemma WFx_ids fl s : WFx fl s -> NoDup ((concat (map all_individuals (nodes s)) ++ exit_ids s) ++ fl).
Proof.
  intros (_ & _ & _ & HP). unfold shp in HP. cbn [sh_ids sh_created] in HP. rewrite map_map in HP.
  eapply Permutation_NoDup; [symmetry; exact HP|apply zseq_NoDup].
Qed.
Lemma WFx_place fl s j1 j2 nd1 nd2 c : WFx fl s -> nodeZ s j1 = Some nd1 -> nodeZ s j2 = Some nd2 ->
  In c (all_individuals nd1) -> In c (all_individuals nd2) -> j1 = j2.
Proof.
  intros HW H1 H2 I1 I2. apply nodeZ_nat in H1 as (k1 & -> & H1). apply nodeZ_nat in H2 as (k2 & -> & H2).
  pose proof (WFx_ids _ _ HW) as Hnd. apply bk_NoDup_app_l, bk_NoDup_app_l in Hnd.
  assert (k1 = k2); [|lia].
  eapply (NoDup_concat_unique (map all_individuals (nodes s))); [exact Hnd| | |exact I1|exact I2]; rewrite nth_error_map; [rewrite H1|rewrite H2]; reflexivity.
Qed.
Lemma WFx_inflight i fl s j nd : WFx (i :: fl) s -> nodeZ s j = Some nd -> ~ In i (all_individuals nd).
Proof.
  intros HW H1 Hin. apply nodeZ_nat in H1 as (k & -> & H1). pose proof (WFx_ids _ _ HW) as Hnd.
  apply NoDup_remove_2 in Hnd. apply Hnd. apply in_or_app. left. apply in_or_app. left.
  apply in_concat. exists (all_individuals nd). split; [apply in_map; eapply nth_error_In; eauto|exact Hin].
Qed.

(* ---------- the invariant about who is blocked ---------- *)
Definition entry (s : sim) (d from y : Z) : Prop := exists nd, nodeZ s d = Some nd /\ In (from, y) (n_bq nd).
Definition bk_at_node (s : sim) (j y : Z) : Prop := exists nd, nodeZ s j = Some nd /\ In y (all_individuals nd).
(* customer i is in no blocked queue / is the customer of no server that has an end-of-service date *)
Definition NoEntry (s : sim) (i : Z) : Prop := forall d from, ~ entry s d from i.
Definition NoLive (s : sim) (i : Z) : Prop :=
  forall j nd sv e, nodeZ s j = Some nd -> In sv (n_servers nd) -> sv_next_end sv = Some e -> sv_cust sv <> Some i.

Record Wh (cf : config) (ex : list Z) (s : sim) : Prop := mkWh {
  (* the customer table: one record per identifier, identifiers are at most the creation counter *)
  w_nd : NoDup (map i_id (inds s));
  w_le : forall x, In x (inds s) -> i_id x <= a_created (arr s);
  (* nobody is twice in a blocked queue *)
  w_bqnd : forall j nd, nodeZ s j = Some nd -> NoDup (map snd (n_bq nd));
  (* an entry (from, y) of the blocked queue of d: y is a customer of node `from`, flagged blocked, with destination d,
     holding a server when `from` has finitely many *)
  w_ent : forall d from y, entry s d from y ->
    exists x, find_ind y (inds s) = Some x /\ i_blocked x = true /\ i_dest x = Some d /\ bk_at_node s from y /\
              (infb cf from = true \/ i_server x <> None);
  (* conversely a customer flagged blocked is in a blocked queue (ex: the customer `release` is moving right now) *)
  w_blk : forall x, In x (inds s) -> i_blocked x = true -> In (i_id x) ex \/ exists d from, entry s d from (i_id x);
  (* servers: distinct identifiers; a server with an end-of-service date serves a customer of its node that is not
     blocked and that knows this server *)
  w_svnd : forall j nd, nodeZ s j = Some nd -> NoDup (map sv_id (n_servers nd));
  w_live : forall j nd sv e c, nodeZ s j = Some nd -> In sv (n_servers nd) -> sv_next_end sv = Some e -> sv_cust sv = Some c ->
    In c (all_individuals nd) /\ exists x, find_ind c (inds s) = Some x /\ i_blocked x = false /\ i_server x = Some (sv_id sv);
  (* an infinite-server node has no server objects *)
  w_inf : forall j nd, nodeZ s j = Some nd -> infb cf j = true -> n_servers nd = []
}.

Lemma entry_nodes s s' d from y : (forall j, option_map n_bq (nodeZ s' j) = option_map n_bq (nodeZ s j)) -> entry s d from y -> entry s' d from y.
Proof.
  intros H (nd & Hn & Hin). specialize (H d). rewrite Hn in H. destruct (nodeZ s' d) as [nd'|] eqn:En'; [|discriminate].
  cbn in H. injection H as H. exists nd'. split; [exact En'|rewrite H; exact Hin].
Qed.
Lemma N0_nodes s s' i : (forall j, option_map n_bq (nodeZ s' j) = option_map n_bq (nodeZ s j)) -> NoEntry s i -> NoEntry s' i.
Proof. intros H HN d from He. apply (HN d from). eapply entry_nodes; [|exact He]. intros j. symmetry. apply H. Qed.
Lemma nodeZ_BV s s' j : BV s' = BV s -> option_map n_bq (nodeZ s' j) = option_map n_bq (nodeZ s j).
Proof.
  intros H. pose proof (bvZ_BV s s' j H) as E. unfold bvZ in E. fold (nodeZ s' j) in E. fold (nodeZ s j) in E.
  destruct (nodeZ s' j) as [a|], (nodeZ s j) as [b|]; cbn in *; try discriminate; [|reflexivity]. injection E as _ E _. rewrite E. reflexivity.
Qed.
Lemma N0_BV s s' i : BV s' = BV s -> NoEntry s i -> NoEntry s' i.
Proof. intros H. apply N0_nodes. intros j. apply nodeZ_BV. exact H. Qed.

Lemma W_ex_mono cf ex ex' s : (forall y, In y ex -> In y ex') -> Wh cf ex s -> Wh cf ex' s.
Proof.
  intros H [A B C D E F Gv Hnf]. constructor; auto. intros x Hx Hb. destruct (E x Hx Hb) as [E1|E1]; auto.
Qed.
(* a customer in flight is nobody's live customer *)
Lemma NL_inflight cf ex i fl s : WFx (i :: fl) s -> Wh cf ex s -> NoLive s i.
Proof.
  intros HW HWw j nd sv e Hn Hsv He Hc. destruct (w_live _ _ _ HWw j nd sv e i Hn Hsv He Hc) as [Hin _].
  exact (WFx_inflight _ _ _ _ _ HW Hn Hin).
Qed.
(* a customer flagged blocked is nobody's live customer; one not flagged is in no blocked queue *)
Lemma NL_blocked cf ex s i x : Wh cf ex s -> find_ind i (inds s) = Some x -> i_blocked x = true -> NoLive s i.
Proof.
  intros HWw Hx Hb j nd sv e Hn Hsv He Hc. destruct (w_live _ _ _ HWw j nd sv e i Hn Hsv He Hc) as (_ & x' & Hx' & Hb' & _). congruence.
Qed.
Lemma N0_unblocked cf ex s i x : Wh cf ex s -> find_ind i (inds s) = Some x -> i_blocked x = false -> NoEntry s i.
Proof. intros HWw Hx Hb d from He. destruct (w_ent _ _ _ HWw d from i He) as (x' & Hx' & Hb' & _). congruence. Qed.

(* ---------- primitive changes of the customer table ---------- *)
Section Prim.
  Variable cf : config.
  Variables s s' : sim.
  Hypothesis Hnodes : forall j, nodeZ s' j = nodeZ s j.
  Hypothesis Hcr : a_created (arr s) <= a_created (arr s').

  Lemma entry_same d from y : entry s' d from y <-> entry s d from y.
  Proof. unfold entry. rewrite Hnodes. reflexivity. Qed.
  Lemma at_node_same j y : bk_at_node s' j y <-> bk_at_node s j y.
  Proof. unfold bk_at_node. rewrite Hnodes. reflexivity. Qed.

  (* the record x of customer i is replaced by x' *)
  Lemma W_put_ind ex ex' i x x' : Wh cf ex s -> find_ind i (inds s) = Some x -> i_id x' = i -> inds s' = put_ind_l x' (inds s) ->
    ((i_blocked x' = i_blocked x /\ i_server x' = i_server x) \/ NoLive s i) ->
    ((i_blocked x' = i_blocked x /\ i_dest x' = i_dest x /\ i_server x' = i_server x) \/ NoEntry s i) ->
    (forall y, In y ex -> y <> i -> In y ex') ->
    (i_blocked x' = true -> In i ex' \/ exists d from, entry s d from i) ->
    Wh cf ex' s'.
  Proof.
    intros [A B C D E F Gv Hnf] Hx Hid Hinds Sc Pc Hex Bc. constructor.
    - rewrite Hinds. apply NoDup_put. exact A.
    - intros y Hy. rewrite Hinds in Hy. apply (In_put _ _ _ A) in Hy as [->|[Hy _]].
      + rewrite Hid. pose proof (B x (find_In _ _ _ Hx)) as Hle. rewrite (find_ind_id _ _ _ Hx) in Hle. lia.
      + specialize (B y Hy). lia.
    - intros j nd Hn. rewrite Hnodes in Hn. eauto.
    - intros d from y He. apply entry_same in He. destruct (D d from y He) as (xy & Hxy & Hb & Hd & Ha & Hs).
      rewrite Hinds. destruct (Z.eq_dec y i) as [->|Hne].
      + destruct Pc as [(P1 & P2 & P3)|Pc]; [|exfalso; exact (Pc d from He)].
        exists x'. rewrite <- Hid at 1. rewrite find_put_same. rewrite Hx in Hxy. injection Hxy as <-.
        split; [reflexivity|]. split; [congruence|]. split; [congruence|]. split; [apply at_node_same; exact Ha|]. rewrite P3. exact Hs.
      + exists xy. rewrite find_put_other by congruence. split; [exact Hxy|]. split; [exact Hb|]. split; [exact Hd|]. split; [apply at_node_same; exact Ha|exact Hs].
    - intros y Hy Hb. rewrite Hinds in Hy. apply (In_put _ _ _ A) in Hy as [->|[Hy Hne]].
      + rewrite Hid. destruct (Bc Hb) as [Bc1|(d & from & Bc1)]; [auto|right; exists d, from; apply entry_same; exact Bc1].
      + rewrite Hid in Hne. destruct (E y Hy Hb) as [E1|(d & from & E1)]; [auto|right; exists d, from; apply entry_same; exact E1].
    - intros j nd Hn. rewrite Hnodes in Hn. eauto.
    - intros j nd sv e c Hn Hsv He Hc. rewrite Hnodes in Hn. destruct (Gv j nd sv e c Hn Hsv He Hc) as (Hin & xc & Hxc & Hb & Hs).
      split; [exact Hin|]. rewrite Hinds. destruct (Z.eq_dec c i) as [->|Hne].
      + destruct Sc as [(S1 & S2)|Sc]; [|exfalso; exact (Sc j nd sv e Hn Hsv He Hc)].
        exists x'. rewrite <- Hid at 1. rewrite find_put_same. rewrite Hx in Hxc. injection Hxc as <-. split; [reflexivity|]. split; congruence.
      + exists xc. rewrite find_put_other by congruence. auto.
    - intros j nd Hn Hinf. rewrite Hnodes in Hn. eauto.
  Qed.

  (* a record for a new identifier *)
  Lemma W_put_new ex x' : Wh cf ex s -> find_ind (i_id x') (inds s) = None -> inds s' = put_ind_l x' (inds s) ->
    i_id x' <= a_created (arr s') -> i_blocked x' = false -> Wh cf ex s'.
  Proof.
    intros [A B C D E F Gv Hnf] Hx Hinds Hle Hb. constructor.
    - rewrite Hinds. apply NoDup_put. exact A.
    - intros y Hy. rewrite Hinds in Hy. apply (In_put _ _ _ A) in Hy as [->|[Hy _]]; [exact Hle|]. specialize (B y Hy). lia.
    - intros j nd Hn. rewrite Hnodes in Hn. eauto.
    - intros d from y He. apply entry_same in He. destruct (D d from y He) as (xy & Hxy & Hb' & Hd & Ha & Hs).
      exists xy. rewrite Hinds, find_put_other by congruence. split; [exact Hxy|]. split; [exact Hb'|]. split; [exact Hd|]. split; [apply at_node_same; exact Ha|exact Hs].
    - intros y Hy Hby. rewrite Hinds in Hy. apply (In_put _ _ _ A) in Hy as [->|[Hy Hne]]; [congruence|].
      destruct (E y Hy Hby) as [E1|(d & from & E1)]; [auto|right; exists d, from; apply entry_same; exact E1].
    - intros j nd Hn. rewrite Hnodes in Hn. eauto.
    - intros j nd sv e c Hn Hsv He Hc. rewrite Hnodes in Hn. destruct (Gv j nd sv e c Hn Hsv He Hc) as (Hin & xc & Hxc & Hbc & Hs).
      split; [exact Hin|]. exists xc. rewrite Hinds, find_put_other by congruence. auto.
    - intros j nd Hn Hinf. rewrite Hnodes in Hn. eauto.
  Qed.

  (* the record of customer i, who is in no blocked queue and nobody's live customer, is deleted *)
  Lemma W_del_ind ex ex' i : Wh cf ex s -> inds s' = del_ind_l i (inds s) -> NoEntry s i -> NoLive s i ->
    (forall y, In y ex -> y <> i -> In y ex') -> Wh cf ex' s'.
  Proof.
    intros [A B C D E F Gv Hnf] Hinds HN0 HNL Hex. constructor.
    - rewrite Hinds. apply NoDup_del. exact A.
    - intros y Hy. rewrite Hinds in Hy. apply (In_del _ _ _ A) in Hy as [Hy _]. specialize (B y Hy). lia.
    - intros j nd Hn. rewrite Hnodes in Hn. eauto.
    - intros d from y He. apply entry_same in He. destruct (D d from y He) as (xy & Hxy & Hb' & Hd & Ha & Hs).
      assert (Hne : y <> i) by (intros ->; exact (HN0 d from He)).
      exists xy. rewrite Hinds, find_del_other by exact Hne. split; [exact Hxy|]. split; [exact Hb'|]. split; [exact Hd|]. split; [apply at_node_same; exact Ha|exact Hs].
    - intros y Hy Hby. rewrite Hinds in Hy. apply (In_del _ _ _ A) in Hy as [Hy Hne].
      destruct (E y Hy Hby) as [E1|(d & from & E1)]; [auto|right; exists d, from; apply entry_same; exact E1].
    - intros j nd Hn. rewrite Hnodes in Hn. eauto.
    - intros j nd sv e c Hn Hsv He Hc. rewrite Hnodes in Hn. destruct (Gv j nd sv e c Hn Hsv He Hc) as (Hin & xc & Hxc & Hbc & Hs).
      assert (Hne : c <> i) by (intros ->; exact (HNL j nd sv e Hn Hsv He Hc)).
      split; [exact Hin|]. exists xc. rewrite Hinds, find_del_other by exact Hne. auto.
    - intros j nd Hn Hinf. rewrite Hnodes in Hn. eauto.
  Qed.

  (* nothing Wh looks at changes *)
  Lemma W_same ex : Wh cf ex s -> inds s' = inds s -> Wh cf ex s'.
  Proof.
    intros [A B C D E F Gv Hnf] Hinds. constructor.
    - rewrite Hinds. exact A.
    - intros y Hy. rewrite Hinds in Hy. specialize (B y Hy). lia.
    - intros j nd Hn. rewrite Hnodes in Hn. eauto.
    - intros d from y He. apply entry_same in He. destruct (D d from y He) as (xy & Hxy & Hb' & Hd & Ha & Hs).
      exists xy. rewrite Hinds. split; [exact Hxy|]. split; [exact Hb'|]. split; [exact Hd|]. split; [apply at_node_same; exact Ha|exact Hs].
    - intros y Hy Hby. rewrite Hinds in Hy. destruct (E y Hy Hby) as [E1|(d & from & E1)]; [auto|right; exists d, from; apply entry_same; exact E1].
    - intros j nd Hn. rewrite Hnodes in Hn. eauto.
    - intros j nd sv e c Hn Hsv He Hc. rewrite Hnodes in Hn. rewrite Hinds. eauto.
    - intros j nd Hn Hinf. rewrite Hnodes in Hn. eauto.
  Qed.
End Prim.

(* ---------- primitive changes of one node ---------- *)
Section PrimNode.
  Variable cf : config.
  Variables s s' : sim.
  Variables (j : Z) (nd nd' : node).
  Hypothesis Hn : nodeZ s j = Some nd.
  Hypothesis Hput : forall j', nodeZ s' j' = if j' =? j then Some nd' else nodeZ s j'.
  Hypothesis Hinds : inds s' = inds s.
  Hypothesis Hcr : a_created (arr s) <= a_created (arr s').

  Lemma nodeZ_new : nodeZ s' j = Some nd'.
  Proof. rewrite Hput, Z.eqb_refl. reflexivity. Qed.
  Lemma nodeZ_other j' : j' <> j -> nodeZ s' j' = nodeZ s j'.
  Proof. intros H. rewrite Hput. destruct (Z.eqb_spec j' j); [contradiction|reflexivity]. Qed.
  Lemma nodeZ_cases j' n : nodeZ s' j' = Some n -> (j' = j /\ n = nd') \/ (j' <> j /\ nodeZ s j' = Some n).
  Proof. rewrite Hput. destruct (Z.eqb_spec j' j); intros H; [left; split; congruence|right; auto]. Qed.

  Lemma entry_bq_same d from y : n_bq nd' = n_bq nd -> (entry s' d from y <-> entry s d from y).
  Proof.
    intros Hb. unfold entry. split; intros (n & Hnn & Hin).
    - apply nodeZ_cases in Hnn as [[-> ->]|[Hne Hnn]]; [exists nd; rewrite <- Hb; auto|exists n; auto].
    - destruct (Z.eq_dec d j) as [->|Hne].
      + rewrite Hn in Hnn. injection Hnn as <-. exists nd'. rewrite nodeZ_new, Hb. auto.
      + exists n. rewrite nodeZ_other by exact Hne. auto.
  Qed.
  Lemma at_node_mono from y : (In y (all_individuals nd) -> In y (all_individuals nd')) -> bk_at_node s from y -> bk_at_node s' from y.
  Proof.
    intros Hq (n & Hnn & Hin). destruct (Z.eq_dec from j) as [->|Hne].
    - rewrite Hn in Hnn. injection Hnn as <-. exists nd'. rewrite nodeZ_new. auto.
    - exists n. rewrite nodeZ_other by exact Hne. auto.
  Qed.

  (* the queues change, every customer that disappears from them being in no blocked queue and nobody's live customer *)
  Lemma W_node_q ex : n_servers nd' = n_servers nd -> n_bq nd' = n_bq nd ->
    (forall y, In y (all_individuals nd) -> (NoEntry s y /\ NoLive s y) \/ In y (all_individuals nd')) ->
    Wh cf ex s -> Wh cf ex s'.
  Proof.
    intros Hsv Hb Hq [A B C D E F Gv Hnf]. constructor.
    - rewrite Hinds. exact A.
    - intros y Hy. rewrite Hinds in Hy. specialize (B y Hy). lia.
    - intros j' n Hnn. apply nodeZ_cases in Hnn as [[-> ->]|[Hne Hnn]]; [rewrite Hb|]; eauto.
    - intros d from y He. pose proof He as He'. apply (entry_bq_same _ _ _ Hb) in He. destruct (D d from y He) as (xy & Hxy & Hb' & Hd & Ha & Hs).
      exists xy. rewrite Hinds. split; [exact Hxy|]. split; [exact Hb'|]. split; [exact Hd|]. split; [|exact Hs].
      eapply at_node_mono; [|exact Ha]. intros Hin. destruct (Hq y Hin) as [[HN0 _]|Hin']; [exfalso; exact (HN0 d from He)|exact Hin'].
    - intros y Hy Hby. rewrite Hinds in Hy. destruct (E y Hy Hby) as [E1|(d & from & E1)]; [auto|right; exists d, from; apply (entry_bq_same _ _ _ Hb); exact E1].
    - intros j' n Hnn. apply nodeZ_cases in Hnn as [[-> ->]|[Hne Hnn]]; [rewrite Hsv|]; eauto.
    - intros j' n sv e c Hnn Hsvin He Hc. rewrite Hinds. apply nodeZ_cases in Hnn as [[-> ->]|[Hne Hnn]]; [|eauto].
      rewrite Hsv in Hsvin. destruct (Gv j nd sv e c Hn Hsvin He Hc) as (Hin & R). split; [|exact R].
      destruct (Hq c Hin) as [[_ HNL]|Hin']; [exfalso; exact (HNL j nd sv e Hn Hsvin He Hc)|exact Hin'].
    - intros j' n Hnn Hinf. apply nodeZ_cases in Hnn as [[-> ->]|[Hne Hnn]]; [rewrite Hsv|]; eauto.
  Qed.

  (* one server is rewritten *)
  Lemma W_node_sv ex sv' : n_queues nd' = n_queues nd -> n_bq nd' = n_bq nd -> n_servers nd' = put_server_l sv' (n_servers nd) ->
    (forall e c, sv_next_end sv' = Some e -> sv_cust sv' = Some c ->
       In c (all_individuals nd) /\ exists x, find_ind c (inds s) = Some x /\ i_blocked x = false /\ i_server x = Some (sv_id sv')) ->
    Wh cf ex s -> Wh cf ex s'.
  Proof.
    intros Hq Hb Hsv Hnew [A B C D E F Gv Hnf].
    assert (Hall : all_individuals nd' = all_individuals nd) by (unfold all_individuals; rewrite Hq; reflexivity).
    constructor.
    - rewrite Hinds. exact A.
    - intros y Hy. rewrite Hinds in Hy. specialize (B y Hy). lia.
    - intros j' n Hnn. apply nodeZ_cases in Hnn as [[-> ->]|[Hne Hnn]]; [rewrite Hb|]; eauto.
    - intros d from y He. apply (entry_bq_same _ _ _ Hb) in He. destruct (D d from y He) as (xy & Hxy & Hb' & Hd & Ha & Hs).
      exists xy. rewrite Hinds. split; [exact Hxy|]. split; [exact Hb'|]. split; [exact Hd|]. split; [|exact Hs].
      eapply at_node_mono; [|exact Ha]. rewrite Hall. auto.
    - intros y Hy Hby. rewrite Hinds in Hy. destruct (E y Hy Hby) as [E1|(d & from & E1)]; [auto|right; exists d, from; apply (entry_bq_same _ _ _ Hb); exact E1].
    - intros j' n Hnn. apply nodeZ_cases in Hnn as [[-> ->]|[Hne Hnn]]; [rewrite Hsv, ids_put_server|]; eauto.
    - intros j' n sv e c Hnn Hsvin He Hc. rewrite Hinds. apply nodeZ_cases in Hnn as [[-> ->]|[Hne Hnn]]; [|eauto].
      rewrite Hsv in Hsvin. rewrite Hall. apply (In_put_server _ _ _ (F j nd Hn)) in Hsvin as [->|[Hsvin _]]; [apply (Hnew e c He Hc)|eauto].
    - intros j' n Hnn Hinf. apply nodeZ_cases in Hnn as [[-> ->]|[Hne Hnn]]; [rewrite Hsv, (Hnf j nd Hn Hinf); reflexivity|eauto].
  Qed.

  (* the head of the blocked queue is taken: that customer is, for the moment, flagged blocked without being in a queue *)
  Lemma W_node_pop ex e rest : all_individuals nd' = all_individuals nd -> n_servers nd' = n_servers nd -> n_bq nd = e :: rest -> n_bq nd' = rest ->
    Wh cf ex s -> Wh cf (snd e :: ex) s'.
  Proof.
    intros Hall Hsv Hb Hb' [A B C D E F Gv Hnf].
    assert (Hsub : forall d from y, entry s' d from y -> entry s d from y).
    { intros d from y (n & Hnn & Hin). apply nodeZ_cases in Hnn as [[-> ->]|[Hne Hnn]]; [exists nd; rewrite Hb; rewrite Hb' in Hin; split; [exact Hn|right; exact Hin]|exists n; auto]. }
    constructor.
    - rewrite Hinds. exact A.
    - intros y Hy. rewrite Hinds in Hy. specialize (B y Hy). lia.
    - intros j' n Hnn. apply nodeZ_cases in Hnn as [[-> ->]|[Hne Hnn]]; [|eauto].
      specialize (C j nd Hn). rewrite Hb in C. cbn [map] in C. apply NoDup_cons_iff in C as [_ C]. rewrite Hb'. exact C.
    - intros d from y He. apply Hsub in He. destruct (D d from y He) as (xy & Hxy & Hbk & Hd & Ha & Hs).
      exists xy. rewrite Hinds. split; [exact Hxy|]. split; [exact Hbk|]. split; [exact Hd|]. split; [|exact Hs].
      eapply at_node_mono; [|exact Ha]. rewrite Hall. auto.
    - intros y Hy Hby. rewrite Hinds in Hy. destruct (E y Hy Hby) as [E1|(d & from & (n & Hnn & Hin))]; [left; right; exact E1|].
      destruct (Z.eq_dec d j) as [->|Hne].
      + rewrite Hn in Hnn. injection Hnn as <-. rewrite Hb in Hin. destruct Hin as [->|Hin]; [left; left; reflexivity|].
        right. exists j, from, nd'. rewrite nodeZ_new, Hb'. auto.
      + right. exists d, from, n. rewrite nodeZ_other by exact Hne. auto.
    - intros j' n Hnn. apply nodeZ_cases in Hnn as [[-> ->]|[Hne Hnn]]; [rewrite Hsv|]; eauto.
    - intros j' n sv e0 c Hnn Hsvin He Hc. rewrite Hinds. apply nodeZ_cases in Hnn as [[-> ->]|[Hne Hnn]]; [|eauto].
      rewrite Hsv in Hsvin. rewrite Hall. eauto.
    - intros j' n Hnn Hinf. apply nodeZ_cases in Hnn as [[-> ->]|[Hne Hnn]]; [rewrite Hsv|]; eauto.
  Qed.

  (* customer i of node `from`, already flagged blocked with destination j, joins the end of j's blocked queue *)
  Lemma W_node_push ex ex' from i x : all_individuals nd' = all_individuals nd -> n_servers nd' = n_servers nd -> n_bq nd' = n_bq nd ++ [(from, i)] ->
    find_ind i (inds s) = Some x -> i_blocked x = true -> i_dest x = Some j -> bk_at_node s from i -> (infb cf from = true \/ i_server x <> None) ->
    NoEntry s i -> (forall y, In y ex -> y <> i -> In y ex') ->
    Wh cf ex s -> Wh cf ex' s'.
  Proof.
    intros Hall Hsv Hb Hx Hbx Hdx Hax Hsx HN0 Hex [A B C D E F Gv Hnf].
    assert (Hsup : forall d from0 y, entry s d from0 y -> entry s' d from0 y).
    { intros d from0 y (n & Hnn & Hin). destruct (Z.eq_dec d j) as [->|Hne].
      - rewrite Hn in Hnn. injection Hnn as <-. exists nd'. rewrite nodeZ_new, Hb. split; [reflexivity|apply in_or_app; auto].
      - exists n. rewrite nodeZ_other by exact Hne. auto. }
    assert (Hat : forall f y, bk_at_node s f y -> bk_at_node s' f y) by (intros f y; apply at_node_mono; rewrite Hall; auto).
    constructor.
    - rewrite Hinds. exact A.
    - intros y Hy. rewrite Hinds in Hy. specialize (B y Hy). lia.
    - intros j' n Hnn. apply nodeZ_cases in Hnn as [[-> ->]|[Hne Hnn]]; [|eauto].
      rewrite Hb, map_app. cbn. apply NoDup_snoc; [eauto|]. intros Hin. apply in_map_iff in Hin as ([f y] & Ey & Hin). cbn in Ey. subst y.
      apply (HN0 j f). exists nd. auto.
    - intros d from0 y (n & Hnn & Hin). rewrite Hinds. apply nodeZ_cases in Hnn as [[-> ->]|[Hne Hnn]].
      + rewrite Hb in Hin. apply in_app_or in Hin as [Hin|[Hin|[]]].
        * destruct (D j from0 y (ex_intro _ nd (conj Hn Hin))) as (xy & Hxy & Hbk & Hd & Ha & Hs). exists xy. auto 8.
        * injection Hin as <- <-. exists x. auto 8.
      + destruct (D d from0 y (ex_intro _ n (conj Hnn Hin))) as (xy & Hxy & Hbk & Hd & Ha & Hs). exists xy. auto 8.
    - intros y Hy Hby. rewrite Hinds in Hy. destruct (Z.eq_dec (i_id y) i) as [Hi|Hne].
      + right. exists j, from, nd'. rewrite nodeZ_new, Hb, Hi. split; [reflexivity|apply in_or_app; right; left; reflexivity].
      + destruct (E y Hy Hby) as [E1|(d & from0 & E1)]; [auto|right; exists d, from0; auto].
    - intros j' n Hnn. apply nodeZ_cases in Hnn as [[-> ->]|[Hne Hnn]]; [rewrite Hsv|]; eauto.
    - intros j' n sv e0 c Hnn Hsvin He Hc. rewrite Hinds. apply nodeZ_cases in Hnn as [[-> ->]|[Hne Hnn]]; [|eauto].
      rewrite Hsv in Hsvin. rewrite Hall. eauto.
    - intros j' n Hnn Hinf. apply nodeZ_cases in Hnn as [[-> ->]|[Hne Hnn]]; [rewrite Hsv|]; eauto.
  Qed.
End PrimNode.

(* ---------- actions that touch neither the customer table, nor the nodes, nor the counters ---------- *)
Definition quiet {A} (m : M A) : Prop := forall s a s', m s = Ok (a, s') ->
  inds s' = inds s /\ nodes s' = nodes s /\ a_created (arr s') = a_created (arr s) /\ exit_ids s' = exit_ids s /\ exit_n s' = exit_n s.
Lemma quiet_ro {A} (m : M A) : ro m -> quiet m.
Proof. intros Hm s a s' H. apply Hm in H. rewrite H. auto. Qed.
Lemma quiet_ret {A} (a : A) : quiet (ret a). Proof. apply quiet_ro, ro_ret. Qed.
Lemma quiet_fail {A} e : quiet (@fail A e). Proof. intros s a s' H. discriminate. Qed.
Lemma quiet_gets {A} (f : sim -> A) : quiet (gets f). Proof. apply quiet_ro, ro_gets. Qed.
Lemma quiet_lift {A} e (o : option A) : quiet (lift e o). Proof. apply quiet_ro, ro_lift. Qed.
Lemma quiet_get_node j : quiet (get_node j). Proof. apply quiet_ro, ro_get_node. Qed.
Lemma quiet_get_ind i : quiet (get_ind i). Proof. apply quiet_ro, ro_get_ind. Qed.
Lemma quiet_bind {A B} (m : M A) (f : A -> M B) : quiet m -> (forall a, quiet (f a)) -> quiet (bind m f).
Proof.
  intros Hm Hf s b s' H. unfold bind in H. destruct (m s) as [[a s1]| |] eqn:E; try discriminate.
  destruct (Hm _ _ _ E) as (A1 & A2 & A3 & A4 & A5). destruct (Hf a _ _ _ H) as (B1 & B2 & B3 & B4 & B5).
  repeat split; congruence.
Qed.
Lemma quiet_modify (f : sim -> sim) :
  (forall s, inds (f s) = inds s /\ nodes (f s) = nodes s /\ a_created (arr (f s)) = a_created (arr s) /\ exit_ids (f s) = exit_ids s /\ exit_n (f s) = exit_n s) ->
  quiet (modify f).
Proof. intros Hf s a s' H. inversion H. apply Hf. Qed.
Lemma quiet_log_rec r : quiet (log_rec r). Proof. apply quiet_modify. intros s. repeat split; reflexivity. Qed.
Lemma quiet_draw_arr : quiet draw_arr.
Proof. intros s a s' H. unfold draw_arr in H. destruct (d_arr (dr s)); inversion H. repeat split; reflexivity. Qed.
Lemma quiet_draw_batch : quiet draw_batch.
Proof. intros s a s' H. unfold draw_batch in H. destruct (d_batch (dr s)); inversion H. repeat split; reflexivity. Qed.
Lemma quiet_draw_svc : quiet draw_svc.
Proof. intros s a s' H. unfold draw_svc in H. destruct (d_svc (dr s)); inversion H. repeat split; reflexivity. Qed.
Lemma quiet_draw_unif : quiet draw_unif.
Proof. intros s a s' H. unfold draw_unif in H. destruct (d_unif (dr s)); inversion H. repeat split; reflexivity. Qed.

Ltac bk_q_step :=
  first
    [ apply quiet_ret | apply quiet_fail | apply quiet_gets | apply quiet_lift | apply quiet_get_node | apply quiet_get_ind
    | apply quiet_log_rec | apply quiet_draw_arr | apply quiet_draw_batch | apply quiet_draw_svc | apply quiet_draw_unif
    | (apply quiet_bind; [|intros])
    | match goal with
      | |- quiet (if ?b then _ else _) => destruct b
      | |- quiet (match ?x with _ => _ end) => destruct x
      | |- quiet (let '(_, _) := ?x in _) => destruct x
      end ].

Lemma bk_get_ind_spec i s x s' : get_ind i s = Ok (x, s') -> s' = s /\ find_ind i (inds s) = Some x.
Proof. unfold get_ind. destruct (find_ind i (inds s)) eqn:E; intros H; inversion H. subst. auto. Qed.
Lemma bk_put_ind_spec x s s' : put_ind x s = Ok (tt, s') -> inds s' = put_ind_l x (inds s) /\ nodes s' = nodes s /\ arr s' = arr s /\ shp s' = shp s.
Proof. unfold put_ind, modify. intros H. inversion H. repeat split; reflexivity. Qed.

Section Quiet.
  Variable cf : config.
  Lemma q_ncfg_of j : quiet (ncfg_of cf j). Proof. apply quiet_lift. Qed.
  Lemma q_is_inf j : quiet (is_inf cf j). Proof. apply quiet_ro, ro_is_inf. Qed.
  Lemma q_choice_uniform {A} (l : list A) : quiet (choice_uniform l). Proof. unfold choice_uniform. repeat bk_q_step. Qed.
  Lemma q_choice_weighted den P : quiet (choice_weighted den P). Proof. unfold choice_weighted. repeat bk_q_step. Qed.
  Lemma q_choose_next_customer nd : quiet (choose_next_customer cf nd).
  Proof. unfold choose_next_customer. repeat first [apply q_ncfg_of | apply q_choice_uniform | bk_q_step]. Qed.
  Lemma q_write_br_record j x ty : quiet (write_br_record j x ty). Proof. unfold write_br_record. repeat bk_q_step. Qed.
  Lemma q_find_next_event_date : quiet find_next_event_date.
  Proof. apply quiet_modify. intros s. destruct (find_min_dates 1 (a_dates (arr s)) (None, 0, 0)) as [[d j] c]. repeat split; reflexivity. Qed.
  Lemma q_find_next_active_node : quiet find_next_active_node.
  Proof.
    unfold find_next_active_node. apply quiet_bind; [apply quiet_gets|]. intros s0.
    destruct (scan_active 0 (a_next_date (arr s0) :: map n_next_date (nodes s0)) None [] true) as [d cands].
    apply quiet_bind; [destruct cands as [|a [|b r]]; [apply quiet_fail|apply quiet_ret|apply q_choice_uniform]|].
    intros k. apply quiet_modify. intros s. repeat split; reflexivity.
  Qed.

  (* what choose_next_customer returns *)
  Lemma bk_last_In {A} (l : list A) d : In (last l d) (d :: l).
  Proof. revert d; induction l as [|a l IH]; intros d; [left; reflexivity|]. rewrite last_cons. right. apply IH. Qed.
  Lemma bk_choose_next_customer_spec nd s c s' : choose_next_customer cf nd s = Ok (Some c, s') -> In c (first_waiting (n_queues nd) (inds s)).
  Proof.
    unfold choose_next_customer. unfold bind at 1. cbn [gets].
    destruct (first_waiting (n_queues nd) (inds s)) as [|w0 wr]; [intros H; inversion H|].
    unfold bind at 1. destruct (ncfg_of cf (n_id nd) s) as [[nc s1]| |]; try discriminate.
    destruct (nc_disc nc =? 0); [intros H; inversion H; left; reflexivity|].
    destruct (nc_disc nc =? 1); [intros H; inversion H; apply bk_last_In|].
    unfold bind at 1. destruct (choice_uniform (w0 :: wr) s1) as [[x s2]| |] eqn:E; try discriminate.
    intros H. inversion H. subst x. unfold choice_uniform, bind in E. destruct (draw_unif s1) as [[u s3]| |]; try discriminate.
    destruct (nth_error (w0 :: wr) (rc_uniform (length (w0 :: wr)) u)) as [y|] eqn:En; [|discriminate]. cbn in E. inversion E. subst y.
    eapply nth_error_In; eauto.
  Qed.
End Quiet.

Section Who.
  Variable cf : config.

  Definition WQ (fl ex : list Z) (s : sim) : Prop := WFx fl s /\ Wh cf ex s.

  Ltac mstep H :=
    match type of H with
    | bind ?m ?f ?s = Ok _ =>
      let a := fresh "a" in let s1 := fresh "s" in let E := fresh "E" in
      unfold bind in H at 1; destruct (m s) as [[a s1]| |] eqn:E; [|discriminate H|discriminate H];
      first [ (apply gets_spec in E as [-> ->])
            | (let Hl := fresh "Hl" in apply lift_spec in E as [-> Hl])
            | (apply bk_is_inf_spec in E as [-> ->])
            | (let Hn := fresh "Hn" in apply get_node_spec in E as [-> Hn])
            | (let Hf := fresh "Hf" in apply bk_get_ind_spec in E as [-> Hf])
            | idtac ]
    end.

  Lemma nodeZ_eq s s' : nodes s' = nodes s -> forall j, nodeZ s' j = nodeZ s j.
  Proof. intros H j. unfold nodeZ. rewrite H. reflexivity. Qed.

  Lemma Q_same fl ex s s' : inds s' = inds s -> nodes s' = nodes s -> a_created (arr s') = a_created (arr s) ->
    exit_ids s' = exit_ids s -> exit_n s' = exit_n s -> WQ fl ex s -> WQ fl ex s'.
  Proof.
    intros Ei En Ec Ee Ex [HW HWw]. split.
    - eapply WFx_shape; [|exact HW]. unfold shp. rewrite En, Ec, Ee, Ex. reflexivity.
    - apply (W_same cf s s'); [apply nodeZ_eq; exact En|lia|exact HWw|exact Ei].
  Qed.
  Lemma Q_quiet {A} (m : M A) fl ex s a s' : quiet m -> WQ fl ex s -> m s = Ok (a, s') -> WQ fl ex s'.
  Proof. intros Hm HQ H. destruct (Hm _ _ _ H) as (A1 & A2 & A3 & A4 & A5). eapply Q_same; eauto. Qed.

  Lemma put_facts nd' nd s s' j : Idx s -> nodeZ s j = Some nd -> put_node nd' s = Ok (tt, s') -> n_id nd' = n_id nd ->
    (forall j', nodeZ s' j' = if j' =? j then Some nd' else nodeZ s j') /\ inds s' = inds s /\ arr s' = arr s.
  Proof.
    intros HI Hn H Hid. apply (nodeZ_put nd' s s' j H); [rewrite Hid; exact (Idx_get _ _ _ HI Hn)|eauto].
  Qed.

  Lemma NL_noserver ex s c x : Wh cf ex s -> find_ind c (inds s) = Some x -> i_server x = None -> NoLive s c.
  Proof.
    intros HWw Hx Hs j nd sv e Hn Hsv He Hc. destruct (w_live _ _ _ HWw j nd sv e c Hn Hsv He Hc) as (_ & x' & Hx' & _ & Hs'). congruence.
  Qed.

  (* a customer of a finite-server node that holds no server is not blocked *)
  Lemma cand_unblocked fl ex s j nd c xc : WQ fl ex s -> nodeZ s j = Some nd -> infb cf j = false -> In c (all_individuals nd) ->
    find_ind c (inds s) = Some xc -> i_server xc = None -> ~ In c ex -> i_blocked xc = false.
  Proof.
    intros [HW HWw] Hn Hinf Hin Hx Hs Hex. destruct (i_blocked xc) eqn:Hb; [exfalso|reflexivity].
    pose proof (find_ind_id _ _ _ Hx) as Hid.
    destruct (w_blk _ _ _ HWw xc (find_In _ _ _ Hx) Hb) as [E1|(d & from & E1)]; [rewrite Hid in E1; exact (Hex E1)|].
    rewrite Hid in E1. destruct (w_ent _ _ _ HWw d from c E1) as (x' & Hx' & _ & _ & (ndf & Hnf & Hinf') & Hsv).
    rewrite Hx in Hx'. injection Hx' as <-. destruct Hsv as [Hsv|Hsv]; [|congruence].
    assert (from = j) by (eapply WFx_place; eauto). congruence.
  Qed.

  (* ---------- start_service ---------- *)
  Lemma start_service_W j c srv fl ex s s' : WQ fl ex s ->
    (match srv with None => True
     | Some sv => exists xc, find_ind c (inds s) = Some xc /\ i_blocked xc = false /\ i_server xc = None /\ bk_at_node s j c end) ->
    start_service j c srv s = Ok (tt, s') -> WQ fl ex s'.
  Proof.
    intros [HW HWw] Hsrv H. split; [eapply WFx_presI; [apply presI_start_service|exact HW|exact H]|].
    unfold start_service in H.
    mstep H. mstep H.
    match goal with Hx : find_ind c (inds s) = Some ?xx |- _ => rename xx into x; rename Hx into Hf end.
    pose proof (find_ind_id _ _ _ Hf) as Hidx.
    mstep H.
    match goal with E : draw_svc s = Ok (_, ?sa) |- _ => destruct (quiet_draw_svc _ _ _ E) as (Ei1 & En1 & Ec1 & _); rename sa into s1; clear E end.
    assert (W1 : Wh cf ex s1) by (apply (W_same cf s s1); [apply nodeZ_eq; exact En1|lia|exact HWw|exact Ei1]).
    assert (I1 : Idx s1) by (intros k n Hk; rewrite En1 in Hk; exact (WFx_Idx _ _ HW k n Hk)).
    rewrite <- Ei1 in Hf.
    mstep H.
    match goal with E : put_ind ?x' s1 = Ok (?u, ?sa) |- _ =>
      destruct u; destruct (bk_put_ind_spec _ _ _ E) as (Ei2 & En2 & Ea2 & _); rename sa into s2; set (x1 := x') in *; clear E end.
    assert (I2 : Idx s2) by (intros k n Hk; rewrite En2 in Hk; exact (I1 k n Hk)).
    assert (W2 : Wh cf ex s2).
    { apply (W_put_ind cf s1 s2 (nodeZ_eq _ _ En2) ltac:(rewrite Ea2; lia) ex ex c x x1 W1 Hf Hidx Ei2).
      - destruct srv as [sv|]; [right|left; split; reflexivity].
        destruct Hsrv as (xc & Hxc & Hb & Hs & _). rewrite <- Ei1, Hf in Hxc. injection Hxc as <-. eapply NL_noserver; eauto.
      - destruct srv as [sv|]; [right|left; split; [|split]; reflexivity].
        destruct Hsrv as (xc & Hxc & Hb & Hs & _). rewrite <- Ei1, Hf in Hxc. injection Hxc as <-. eapply N0_unblocked; eauto.
      - auto.
      - intros Hb. change (i_blocked x = true) in Hb. destruct (w_blk _ _ _ W1 x (find_In _ _ _ Hf) Hb) as [E1|E1]; rewrite Hidx in E1; auto. }
    mstep H.
    match goal with Hx : nthZ (nodes s2) (j - 1) = Some ?ndx |- _ => rename ndx into nd; rename Hx into Hn end.
    destruct (put_facts _ nd s2 s' j I2 Hn H eq_refl) as (Hput & Ei3 & Ea3).
    destruct srv as [sv|].
    - destruct Hsrv as (xc & Hxc & Hb & Hs & (nd0 & Hn0 & Hin0)).
      rewrite <- Ei1, Hf in Hxc. injection Hxc as <-.
      assert (nd0 = nd) by (unfold nodeZ in Hn0; rewrite <- En1, <- En2 in Hn0; congruence). subst nd0.
      eapply (W_node_sv cf s2 s' j nd _ Hn Hput Ei3 ltac:(rewrite Ea3; lia) ex); [reflexivity|reflexivity|reflexivity| |exact W2].
      intros e c0 He Hc. cbn in Hc. injection Hc as <-. split; [exact Hin0|].
      exists x1. rewrite Ei2. rewrite <- Hidx at 1. change (i_id x) with (i_id x1). rewrite find_put_same. split; [reflexivity|]. split; [exact Hb|reflexivity].
    - eapply (W_node_q cf s2 s' j nd _ Hn Hput Ei3 ltac:(rewrite Ea3; lia) ex); [reflexivity|reflexivity| |exact W2]. intros y Hy. right. exact Hy.
  Qed.

  (* ---------- rewriting the record of a customer ---------- *)
  (* fields Wh does not look at *)
  Lemma put_ind_A fl ex s s' i x x' : WQ fl ex s -> find_ind i (inds s) = Some x -> i_id x' = i ->
    i_blocked x' = i_blocked x -> i_dest x' = i_dest x -> i_server x' = i_server x -> put_ind x' s = Ok (tt, s') ->
    WQ fl ex s' /\ nodes s' = nodes s /\ inds s' = put_ind_l x' (inds s).
  Proof.
    intros [HW HWw] Hf Hid Hb Hd Hs H. destruct (bk_put_ind_spec _ _ _ H) as (Ei & En & Ea & Esh). split; [|auto]. split; [eapply WFx_shape; eauto|].
    apply (W_put_ind cf s s' (nodeZ_eq _ _ En) ltac:(rewrite Ea; lia) ex ex i x x' HWw Hf Hid Ei); auto.
    intros Hbx. rewrite Hb in Hbx. destruct (w_blk _ _ _ HWw x (find_In _ _ _ Hf) Hbx) as [E1|E1]; rewrite (find_ind_id _ _ _ Hf) in E1; auto.
  Qed.
  (* any field, for a customer who is in no blocked queue and nobody's live customer *)
  Lemma put_ind_B fl ex ex' s s' i x x' : WQ fl ex s -> find_ind i (inds s) = Some x -> i_id x' = i -> NoLive s i -> NoEntry s i ->
    (forall y, In y ex -> y <> i -> In y ex') -> (i_blocked x' = true -> In i ex') -> put_ind x' s = Ok (tt, s') ->
    WQ fl ex' s' /\ nodes s' = nodes s /\ inds s' = put_ind_l x' (inds s).
  Proof.
    intros [HW HWw] Hf Hid HNL HN0 Hex Hb H. destruct (bk_put_ind_spec _ _ _ H) as (Ei & En & Ea & Esh). split; [|auto]. split; [eapply WFx_shape; eauto|].
    apply (W_put_ind cf s s' (nodeZ_eq _ _ En) ltac:(rewrite Ea; lia) ex ex' i x x' HWw Hf Hid Ei); auto.
  Qed.

  (* ---------- begin_service_if_possible ---------- *)
  Lemma bsip_release_W j freed fl ex s s' : WQ fl ex s -> (forall c, In c ex -> ~ bk_at_node s j c) -> (freed <> None -> infb cf j = false) ->
    begin_service_if_possible_release cf j freed s = Ok (tt, s') -> WQ fl ex s'.
  Proof.
    intros HQ Hex Hinf H. unfold begin_service_if_possible_release in H.
    destruct freed as [sid|]; [|apply ret_spec in H as [-> _]; exact HQ]. specialize (Hinf ltac:(discriminate)).
    mstep H.
    match goal with Hx : nthZ (nodes s) (j - 1) = Some ?ndx |- _ => rename ndx into nd; rename Hx into Hn end.
    destruct (find_server sid (n_servers nd)) as [sv|]; [|apply ret_spec in H as [-> _]; exact HQ].
    mstep H.
    match goal with E : choose_next_customer cf nd s = Ok (?cand, ?sa) |- _ => rename E into Ech; rename sa into s1; destruct cand as [c|] end;
      [|apply ret_spec in H as [-> _]; exact (Q_quiet _ _ _ _ _ _ (q_choose_next_customer cf nd) HQ Ech)].
    pose proof (bk_choose_next_customer_spec cf nd s c s1 Ech) as Hc. apply bk_first_waiting_spec in Hc as (Hin & xc & Hxc & Hs).
    destruct (q_choose_next_customer cf nd _ _ _ Ech) as (Ei & En & _).
    eapply start_service_W; [exact (Q_quiet _ _ _ _ _ _ (q_choose_next_customer cf nd) HQ Ech)| |exact H].
    exists xc. rewrite Ei. split; [exact Hxc|]. split; [|split; [exact Hs|exists nd; unfold nodeZ; rewrite En; auto]].
    eapply cand_unblocked; eauto. intros Hc. apply (Hex c Hc). exists nd. auto.
  Qed.

  Lemma bsip_accept_W j i fl ex s s' : WQ fl ex s -> (forall c, In c ex -> ~ bk_at_node s j c) ->
    begin_service_if_possible_accept cf j i s = Ok (tt, s') -> WQ fl ex s'.
  Proof.
    intros HQ Hex H. unfold begin_service_if_possible_accept in H.
    mstep H. mstep H.
    match goal with Hx : find_ind i (inds s) = Some ?xx |- _ => rename xx into x; rename Hx into Hf end.
    mstep H.
    match goal with E : put_ind ?x' s = Ok (?u, ?sa) |- _ =>
      destruct u; destruct (put_ind_A fl ex s sa i x x' HQ Hf (find_ind_id _ _ _ Hf) eq_refl eq_refl eq_refl E) as (HQ1 & En1 & Ei1); rename sa into s1; clear E end.
    assert (Hex1 : forall c, In c ex -> ~ bk_at_node s1 j c) by (intros c Hc (n & Hn' & Hin); apply (Hex c Hc); exists n; unfold nodeZ in *; rewrite <- En1; auto).
    mstep H. mstep H.
    match goal with Hx : nthZ (nodes s1) (j - 1) = Some ?ndx |- _ => rename ndx into nd; rename Hx into Hn end.
    mstep H. revert H. match goal with E : _ s1 = Ok (?cand, ?sa) |- _ => rename E into Ech; rename sa into s2; rename cand into cnd; revert Ech end.
    destruct (infb cf j) eqn:Einf; intros Ech H.
    - apply ret_spec in Ech as [-> ->]. exact (start_service_W j i None fl ex _ s' HQ1 I H).
    - destruct cnd as [c|]; [|apply ret_spec in H as [-> _]; exact (Q_quiet _ _ _ _ _ _ (q_choose_next_customer cf nd) HQ1 Ech)].
      destruct (find_free_server (n_servers nd)) as [sv|]; [|apply ret_spec in H as [-> _]; exact (Q_quiet _ _ _ _ _ _ (q_choose_next_customer cf nd) HQ1 Ech)].
      pose proof (bk_choose_next_customer_spec cf nd s1 c s2 Ech) as Hc. apply bk_first_waiting_spec in Hc as (Hin & xc & Hxc & Hs).
      destruct (q_choose_next_customer cf nd _ _ _ Ech) as (Ei & En & _).
      eapply start_service_W; [exact (Q_quiet _ _ _ _ _ _ (q_choose_next_customer cf nd) HQ1 Ech)| |exact H].
      exists xc. rewrite Ei. split; [exact Hxc|]. split; [|split; [exact Hs|exists nd; unfold nodeZ; rewrite En; auto]].
      eapply cand_unblocked; eauto. intros Hc. apply (Hex1 c Hc). exists nd. auto.
  Qed.

  (* ---------- accept, exit_accept: the customer in flight lands ---------- *)
  Lemma In_concat_updZ_snoc (qs : list (list Z)) p q i y : nthZ qs p = Some q -> In y (concat qs) -> In y (concat (updZ qs p (q ++ [i]))).
  Proof.
    intros Hq Hy. destruct (nthZ_nat _ _ _ Hq) as (k & -> & Hk). rewrite updZ_nat.
    eapply Permutation_in; [symmetry; apply (concat_upd_perm qs k q (q ++ [i]) i Hk); rewrite Permutation_app_comm; reflexivity|right; exact Hy].
  Qed.

  Lemma WFx_inflight_le i fl s : WFx (i :: fl) s -> i <= a_created (arr s).
  Proof.
    intros (_ & _ & H0 & HP). unfold shp in HP. cbn [sh_ids sh_created] in HP, H0.
    assert (Hin : In i (zseq 1 (Z.to_nat (a_created (arr s))))) by (eapply Permutation_in; [exact HP|apply in_or_app; right; left; reflexivity]).
    apply zseq_In in Hin. lia.
  Qed.

  (* a record for the customer in flight, whether or not the table has one already *)
  Lemma put_ind_flight fl ex s s' x' : WQ (i_id x' :: fl) ex s -> NoEntry s (i_id x') -> (forall y, In y ex -> y = i_id x') -> i_blocked x' = false ->
    put_ind x' s = Ok (tt, s') -> WQ (i_id x' :: fl) [] s' /\ nodes s' = nodes s.
  Proof.
    intros HQ HN0 Hex Hb H. destruct (find_ind (i_id x') (inds s)) as [x0|] eqn:Hx0.
    - destruct (put_ind_B (i_id x' :: fl) ex [] s s' (i_id x') x0 x' HQ Hx0 eq_refl (NL_inflight _ _ _ _ _ (proj1 HQ) (proj2 HQ)) HN0
                  ltac:(intros y Hy Hne; exfalso; exact (Hne (Hex y Hy))) ltac:(congruence) H) as (HQ1 & En1 & _). auto.
    - destruct (bk_put_ind_spec _ _ _ H) as (Ei & En & Ea & Esh). split; [|exact En]. split; [eapply WFx_shape; [exact Esh|exact (proj1 HQ)]|].
      eapply W_ex_mono with (ex := []); [intros y []|].
      assert (W0 : Wh cf [] s).
      { destruct (proj2 HQ) as [A B C D E F Gv Hnf]. constructor; auto. intros y Hy Hby. destruct (E y Hy Hby) as [E1|E1]; [|auto].
        exfalso. apply Hex in E1. exact (find_None _ _ Hx0 y Hy E1). }
      apply (W_put_new cf s s' (nodeZ_eq _ _ En) ltac:(rewrite Ea; lia) [] x' W0 Hx0 Ei); [|exact Hb].
      rewrite Ea. exact (WFx_inflight_le _ _ _ (proj1 HQ)).
  Qed.

  Lemma accept_W d x fl ex s s' : WQ (i_id x :: fl) ex s -> NoEntry s (i_id x) ->
    (forall y, In y ex -> y = i_id x) -> accept cf d x s = Ok (tt, s') -> WQ fl [] s'.
  Proof.
    intros HQ HN0 Hex H. pose proof (accept_spec cf d x fl s s' (proj1 HQ) H) as HW'.
    unfold accept in H.
    mstep H.
    match goal with Hx : nthZ (nodes s) (d - 1) = Some ?ndx |- _ => rename ndx into nd; rename Hx into Hn end.
    mstep H.
    match goal with E : put_ind ?x' s = Ok (?u, ?sa) |- _ =>
      destruct u; destruct (put_ind_flight fl ex s sa x' HQ HN0 Hex eq_refl E) as (HQ1 & En1);
      rename sa into s1; clear E end.
    mstep H. mstep H.
    match goal with Hx : match nthZ (n_queues nd) ?p with _ => _ end = Some ?qs |- _ =>
      destruct (nthZ (n_queues nd) p) as [q|] eqn:Eq; [injection Hx as Hx|discriminate Hx]; rename Hx into Hqs end.
    match goal with E : put_node ?nd' s1 = Ok (?u, ?sa) |- _ => destruct u; rename sa into s2; rename E into Eput end.
    assert (Hn1 : nodeZ s1 d = Some nd) by (unfold nodeZ; rewrite En1; exact Hn).
    pose proof (WFx_Idx _ _ (proj1 HQ1)) as I1.
    destruct (put_facts _ nd s1 s2 d I1 Hn1 Eput eq_refl) as (Hput & Ei2 & Ea2).
    assert (I2 : Idx s2) by (eapply Idx_put; [exact Eput|exact I1|cbn; rewrite (Idx_get _ _ _ I1 Hn1); eauto]).
    assert (W2 : Wh cf [] s2).
    { eapply (W_node_q cf s1 s2 d nd _ Hn1 Hput Ei2 ltac:(rewrite Ea2; lia) []); [reflexivity|reflexivity| |exact (proj2 HQ1)].
      intros y Hy. right. unfold all_individuals in *. cbn. rewrite <- Hqs. eapply In_concat_updZ_snoc; eauto. }
    assert (X2 : WFx fl s2).
    { eapply WFx_shape; [|exact HW']. symmetry. exact (presI_bsip_accept cf d (i_id x) s2 tt s' I2 H). }
    eapply bsip_accept_W; [split; [exact X2|exact W2]|intros c []|exact H].
  Qed.

  Lemma exit_accept_W x c fl ex s s' : WQ (i_id x :: fl) ex s -> NoEntry s (i_id x) -> (forall y, In y ex -> y = i_id x) ->
    exit_accept x c s = Ok (tt, s') -> WQ fl [] s'.
  Proof.
    intros HQ HN0 Hex H. split; [exact (exit_accept_spec x c fl s s' (proj1 HQ) H)|].
    unfold exit_accept, bind, del_ind, modify in H. injection H as <-.
    set (s0 := s <| inds := del_ind_l (i_id x) (inds s) |>).
    match goal with |- Wh cf [] ?sb => apply (W_same cf s0 sb); [intros; reflexivity|cbn; lia| |reflexivity] end.
    apply (W_del_ind cf s s0 ltac:(intros; reflexivity) ltac:(cbn; lia) ex [] (i_id x) (proj2 HQ) eq_refl HN0 (NL_inflight _ _ _ _ _ (proj1 HQ) (proj2 HQ))).
    intros y Hy Hne. exfalso. exact (Hne (Hex y Hy)).
  Qed.

  Lemma write_record_W j x fl ex s s' : WQ fl ex s -> find_ind (i_id x) (inds s) = Some x -> write_individual_record cf j x s = Ok (tt, s') ->
    WQ fl ex s' /\ nodes s' = nodes s /\ inds s' = put_ind_l (x <| i_nrec := i_nrec x + 1 |>) (inds s).
  Proof.
    intros HQ Hf H. unfold write_individual_record in H. mstep H. mstep H.
    match goal with E : log_rec _ s = Ok (_, ?sa) |- _ =>
      destruct (quiet_log_rec _ _ _ _ E) as (Ei & En & _); pose proof (Q_quiet _ _ _ _ _ _ (quiet_log_rec _) HQ E) as HQ1; clear E end.
    rewrite <- Ei in Hf.
    match type of H with put_ind ?x' _ = _ => destruct (put_ind_A fl ex _ s' (i_id x) x x' HQ1 Hf eq_refl eq_refl eq_refl eq_refl H) as (HQ2 & En2 & Ei2) end.
    split; [exact HQ2|]. split; congruence.
  Qed.

  Lemma N0_put s s' j nd nd' i : nodeZ s j = Some nd -> (forall j', nodeZ s' j' = if j' =? j then Some nd' else nodeZ s j') ->
    n_bq nd' = n_bq nd -> NoEntry s i -> NoEntry s' i.
  Proof.
    intros Hn Hput Hb. apply N0_nodes. intros j'. rewrite Hput. destruct (Z.eqb_spec j' j) as [->|_]; [rewrite Hn; cbn; rewrite Hb|]; reflexivity.
  Qed.

  (* ---------- release and the cascade ---------- *)
  Lemma release_W : forall f j i d s s', WQ [] [i] s -> NoEntry s i -> NoLive s i -> release cf f j i d s = Ok (tt, s') -> WQ [] [] s'.
  Proof.
    induction f as [|f IH]; intros j i d s s' HQ HN0 HNL H; [discriminate|].
    cbn [release] in H.
    mstep H. mstep H. mstep H. mstep H. mstep H.
    match goal with Hx : find_ind i (inds s) = Some ?xx |- _ => rename xx into x; rename Hx into Hf end.
    match goal with Hx : nthZ (nodes s) (j - 1) = Some ?ndx |- _ => rename ndx into nd; rename Hx into Hn end.
    match goal with Hx : nthZ (n_queues nd) (i_pprio x) = Some ?qq |- _ => rename qq into q; rename Hx into Hq end.
    match goal with Hx : remove_first i q = Some ?qq |- _ => rename qq into q'; rename Hx into Hq' end.
    pose proof (WFx_Idx _ _ (proj1 HQ)) as I0.
    (* the customer leaves its queue *)
    mstep H.
    match goal with E : put_node ?nd' s = Ok (?u, ?sa) |- _ => destruct u; rename sa into s0; rename E into Eput; set (nd1 := nd') in * end.
    destruct (put_facts nd1 nd s s0 j I0 Hn Eput eq_refl) as (Hput & Ei0 & Ea0).
    assert (Hperm : Permutation (i :: all_individuals nd1) (all_individuals nd)).
    { destruct (nthZ_nat _ _ _ Hq) as (kp & Hkp & Hqk). unfold all_individuals, nd1. cbn. rewrite Hkp, updZ_nat.
      eapply concat_upd_perm_rm; [exact Hqk|]. apply remove_first_perm. exact Hq'. }
    assert (X0 : WFx [i] s0).
    { destruct (nthZ_nat _ _ _ Hn) as (k & Hk & Hnk). pose proof (Idx_get _ _ _ I0 Hn) as Hid.
      assert (Hsh := shp_put_node _ _ _ k nd Eput ltac:(cbn; lia) Hnk).
      unfold WFx. rewrite Hsh. destruct HQ as [HW _]. unfold WFx, shp in HW.
      eapply WFsh_rm; [exact HW|rewrite nth_error_map, Hnk; reflexivity|reflexivity|reflexivity|]. cbn. symmetry. exact Hperm. }
    assert (W0 : Wh cf [i] s0).
    { eapply (W_node_q cf s s0 j nd nd1 Hn Hput Ei0 ltac:(rewrite Ea0; lia) [i]); [reflexivity|reflexivity| |exact (proj2 HQ)].
      intros y Hy. destruct (Z.eq_dec y i) as [->|Hne]; [left; auto|right].
      apply (Permutation_in _ (Permutation_sym Hperm)) in Hy. destruct Hy as [Hy|Hy]; [congruence|exact Hy]. }
    assert (N0a : NoEntry s0 i) by (eapply N0_put; [exact Hn|exact Hput|reflexivity|exact HN0]).
    rewrite <- Ei0 in Hf. clear HQ HN0 HNL.
    assert (HQ0 : WQ [i] [i] s0) by (split; assumption). clear X0 W0.
    (* its record *)
    mstep H.
    match goal with E : put_ind ?x' s0 = Ok (?u, ?sa) |- _ =>
      destruct u; set (x1 := x') in *;
      destruct (put_ind_B [i] [i] [i] s0 sa i x x1 HQ0 Hf (find_ind_id _ _ _ Hf) (NL_inflight _ _ _ _ _ (proj1 HQ0) (proj2 HQ0)) N0a
                  ltac:(auto) ltac:(intros; left; reflexivity) E) as (HQ1 & En1 & Ei1); rename sa into s1; clear E end.
    assert (N1a : NoEntry s1 i) by (eapply N0_nodes; [|exact N0a]; intros j'; rewrite (nodeZ_eq _ _ En1); reflexivity).
    assert (Hid1 : i_id x1 = i) by exact (find_ind_id _ _ _ Hf).
    assert (Hf1 : find_ind (i_id x1) (inds s1) = Some x1) by (rewrite Ei1; apply find_put_same).
    mstep H.
    match goal with E : write_individual_record cf j x1 s1 = Ok (?u, ?sa) |- _ =>
      destruct u; destruct (write_record_W j x1 [i] [i] s1 sa HQ1 Hf1 E) as (HQ2 & En2 & Ei2); rename sa into s2; clear E end.
    assert (N2a : NoEntry s2 i) by (eapply N0_nodes; [|exact N1a]; intros j'; rewrite (nodeZ_eq _ _ En2); reflexivity).
    mstep H.
    (* its server is freed *)
    mstep H.
    match goal with E : (if infb cf j then _ else _) s2 = Ok (?fr, ?sa) |- _ => rename fr into freed; rename sa into s3; rename E into Efree end.
    assert (F3 : WQ [i] [i] s3 /\ NoEntry s3 i /\ (freed <> None -> infb cf j = false) /\ inds s3 = inds s2).
    { revert Efree. destruct (infb cf j) eqn:Einf; intros Efree.
      - apply ret_spec in Efree as [-> ->]. split; [exact HQ2|]. split; [exact N2a|]. split; [intros Hx; exfalso; apply Hx; reflexivity|reflexivity].
      - mstep Efree. mstep Efree. mstep Efree. mstep Efree. mstep Efree.
        match goal with Hx : nthZ (nodes s2) (j - 1) = Some ?ndx |- _ => rename ndx into nd2; rename Hx into Hn2 end.
        match goal with E : put_node ?nd' s2 = Ok (?u, ?sa) |- _ => destruct u; rename E into Eput2 end.
        apply ret_spec in Efree as [-> ->].
        pose proof (WFx_Idx _ _ (proj1 HQ2)) as I2.
        destruct (put_facts _ nd2 s2 _ j I2 Hn2 Eput2 eq_refl) as (Hput2 & Ei3 & Ea3).
        split; [split|split; [|split; [auto|exact Ei3]]].
        + eapply WFx_shape; [|exact (proj1 HQ2)]. eapply put_node_shape; [exact Eput2|cbn; rewrite (Idx_get _ _ _ I2 Hn2); exact Hn2|reflexivity].
        + eapply (W_node_sv cf s2 _ j nd2 _ Hn2 Hput2 Ei3 ltac:(rewrite Ea3; lia) [i]); [reflexivity|reflexivity|reflexivity| |exact (proj2 HQ2)].
          intros e c He Hc. cbn in Hc. discriminate Hc.
        + eapply N0_put; [exact Hn2|exact Hput2|reflexivity|exact N2a]. }
    destruct F3 as (HQ3 & N3a & Hfinf & Ei3). clear Efree HQ2 N2a.
    mstep H.
    match goal with Hx : find_ind i (inds s3) = Some ?xx |- _ => rename xx into x2; rename Hx into Hf3 end.
    mstep H.
    match goal with E : put_ind ?x' s3 = Ok (?u, ?sa) |- _ =>
      destruct u; set (x3 := x') in *;
      destruct (put_ind_B [i] [i] [i] s3 sa i x2 x3 HQ3 Hf3 (find_ind_id _ _ _ Hf3) (NL_inflight _ _ _ _ _ (proj1 HQ3) (proj2 HQ3)) N3a
                  ltac:(auto) ltac:(intros; left; reflexivity) E) as (HQ4 & En4 & Ei4); rename sa into s4; clear E end.
    assert (N4a : NoEntry s4 i) by (eapply N0_nodes; [|exact N3a]; intros j'; rewrite (nodeZ_eq _ _ En4); reflexivity).
    assert (Hid3 : i_id x3 = i) by exact (find_ind_id _ _ _ Hf3).
    (* the freed server takes the next customer *)
    mstep H.
    match goal with E : begin_service_if_possible_release cf j freed s4 = Ok (?u, ?sa) |- _ => destruct u; rename sa into s5; rename E into Eb end.
    assert (HQ5 : WQ [i] [i] s5).
    { eapply bsip_release_W; [exact HQ4| |exact Hfinf|exact Eb]. intros c [<-|[]] (n & Hnn & Hin). exact (WFx_inflight _ _ _ _ _ (proj1 HQ4) Hnn Hin). }
    assert (N5a : NoEntry s5 i) by (eapply N0_BV; [|exact N4a]; exact (bk_k_bsip_release cf j freed _ _ _ (WFx_Idx _ _ (proj1 HQ4)) Eb)).
    (* the customer lands *)
    mstep H.
    match goal with E : (if d =? 0 then _ else _) s5 = Ok (?u, ?sa) |- _ => destruct u; rename sa into s6; rename E into EL end.
    assert (HQ6 : WQ [] [] s6).
    { rewrite <- Hid3 in HQ5, N5a. destruct (d =? 0).
      - eapply exit_accept_W; [exact HQ5|exact N5a| |exact EL]. intros y [<-|[]]. reflexivity.
      - eapply accept_W; [exact HQ5|exact N5a| |exact EL]. intros y [<-|[]]. reflexivity. }
    clear HQ5 N5a EL.
    (* release_blocked_individual of node j *)
    mstep H. mstep H.
    match goal with Hx : nthZ (nodes s6) (j - 1) = Some ?ndx |- _ => rename ndx into nd3; rename Hx into Hn3 end.
    match type of H with (if ?c then _ else _) _ = _ => destruct c end; [|apply ret_spec in H as [-> _]; exact HQ6].
    destruct (n_bq nd3) as [|[from y] rest] eqn:Ebq; [discriminate|].
    mstep H. mstep H.
    match goal with E : (if ?b then ret tt else _) ?sa = Ok (_, ?sb) |- _ =>
      assert (Hsb : sb = sa) by (destruct b; [inversion E; reflexivity|discriminate E]); rewrite Hsb in *; clear E Hsb end.
    mstep H.
    match goal with E : put_node ?nd' s6 = Ok (?u, ?sa) |- _ => destruct u; rename sa into sP; rename E into Eput7 end.
    pose proof (WFx_Idx _ _ (proj1 HQ6)) as I6.
    destruct (put_facts _ nd3 s6 sP j I6 Hn3 Eput7 eq_refl) as (Hput7 & Ei7 & Ea7).
    assert (He : entry s6 j from y) by (exists nd3; rewrite Ebq; split; [exact Hn3|left; reflexivity]).
    destruct (w_ent _ _ _ (proj2 HQ6) j from y He) as (xy & Hxy & Hby & Hdy & _ & _).
    assert (W7 : Wh cf [y] sP).
    { apply (W_node_pop cf s6 sP j nd3 _ Hn3 Hput7 Ei7 ltac:(rewrite Ea7; lia) [] (from, y) rest); [reflexivity|reflexivity|exact Ebq|reflexivity|exact (proj2 HQ6)]. }
    assert (X7 : WFx [] sP).
    { eapply WFx_shape; [|exact (proj1 HQ6)]. eapply put_node_shape; [exact Eput7|cbn; rewrite (Idx_get _ _ _ I6 Hn3); exact Hn3|reflexivity]. }
    eapply IH; [split; [exact X7|exact W7]| | |exact H].
    - intros d' fr (n & Hnn & Hin). rewrite Hput7 in Hnn. destruct (Z.eqb_spec d' j) as [->|Hne].
      + injection Hnn as <-. cbn in Hin. pose proof (w_bqnd _ _ _ (proj2 HQ6) j nd3 Hn3) as Hnd. rewrite Ebq in Hnd. cbn in Hnd.
        apply NoDup_cons_iff in Hnd as [Hnd _]. apply Hnd. apply in_map_iff. exists (fr, y). auto.
      + destruct (w_ent _ _ _ (proj2 HQ6) d' fr y (ex_intro _ n (conj Hnn Hin))) as (xy' & Hxy' & _ & Hdy' & _). congruence.
    - eapply NL_blocked; [exact W7|rewrite Ei7; exact Hxy|exact Hby].
  Qed.
End Who.

(* the customers listed as "next to finish" are customers of the node that are not blocked (holds between events) *)
Definition NextOk (s : sim) : Prop :=
  forall j nd i, nodeZ s j = Some nd -> In i (n_next_inds nd) ->
    In i (all_individuals nd) /\ exists x, find_ind i (inds s) = Some x /\ i_blocked x = false.

Section Who2.
  Variable cf : config.

  Ltac mstep H :=
    match type of H with
    | bind ?m ?f ?s = Ok _ =>
      let a := fresh "a" in let s1 := fresh "s" in let E := fresh "E" in
      unfold bind in H at 1; destruct (m s) as [[a s1]| |] eqn:E; [|discriminate H|discriminate H];
      first [ (apply gets_spec in E as [-> ->])
            | (let Hl := fresh "Hl" in apply lift_spec in E as [-> Hl])
            | (apply bk_is_inf_spec in E as [-> ->])
            | (let Hn := fresh "Hn" in apply get_node_spec in E as [-> Hn])
            | (let Hf := fresh "Hf" in apply bk_get_ind_spec in E as [-> Hf])
            | idtac ]
    end.

  Lemma pick_In (l : list Z) s i s' :
    (match l with [] => fail E_NoInd | [a] => ret a | a :: b :: r => choice_uniform (a :: b :: r) end) s = Ok (i, s') -> In i l.
  Proof.
    destruct l as [|a [|b r]]; [discriminate|intros H; apply ret_spec in H as [_ ->]; left; reflexivity|].
    intros H. unfold choice_uniform, bind in H. destruct (draw_unif s) as [[u s1]| |]; try discriminate.
    destruct (nth_error (a :: b :: r) (rc_uniform (length (a :: b :: r)) u)) as [y|] eqn:En; [|discriminate]. cbn in H. inversion H. subst y.
    eapply nth_error_In; eauto.
  Qed.

  (* ---------- finish_service ---------- *)
  Lemma finish_service_W j s s' : WQ cf [] [] s -> NextOk s -> finish_service cf j s = Ok (tt, s') -> WQ cf [] [] s'.
  Proof.
    intros HQ HN1 H. unfold finish_service in H.
    mstep H.
    match goal with Hx : nthZ (nodes s) (j - 1) = Some ?ndx |- _ => rename ndx into nd; rename Hx into Hn end.
    mstep H.
    match goal with E : _ s = Ok (?ii, ?sa) |- _ => rename ii into i; rename sa into sA; rename E into Epick end.
    pose proof (pick_In _ _ _ _ Epick) as Hi.
    destruct (HN1 j nd i Hn Hi) as (Hin & x0 & Hx0 & Hb0).
    assert (QA : WQ cf [] [] sA /\ inds sA = inds s /\ nodes sA = nodes s).
    { match type of Epick with ?m s = _ => assert (Hq : quiet m) by (repeat first [apply q_choice_uniform | bk_q_step]) end.
      destruct (Hq _ _ _ Epick) as (A1 & A2 & _). split; [exact (Q_quiet cf _ _ _ _ _ _ Hq HQ Epick)|auto]. }
    destruct QA as (HQA & EiA & EnA). clear Epick HQ.
    mstep H.
    match goal with Hx : find_ind i (inds sA) = Some ?xx |- _ => rename xx into x; rename Hx into Hf end.
    assert (x = x0) by (rewrite EiA in Hf; congruence). subst x.
    assert (AtA : bk_at_node sA j i) by (exists nd; unfold nodeZ; rewrite EnA; auto).
    clear Hx0 HN1 Hi Hn Hin EiA EnA.
    mstep H.
    (* change_customer_class *)
    mstep H.
    match goal with E : _ sA = Ok (?xx, ?sa) |- _ => rename xx into x1; rename sa into sB; rename E into Ecc end.
    assert (CB : WQ cf [] [] sB /\ inds sB = inds sA /\ nodes sB = nodes sA /\ i_id x1 = i /\ i_blocked x1 = false /\ i_server x1 = i_server x0).
    { pose proof (find_ind_id _ _ _ Hf) as Hid0. revert Ecc.
      match goal with |- match nc_ccm ?ncx with _ => _ end _ = _ -> _ => destruct (nc_ccm ncx) as [m|]; intros Ecc end.
      - mstep Ecc. mstep Ecc.
        match goal with E : choice_weighted _ _ sA = Ok (_, ?sa) |- _ =>
          destruct (q_choice_weighted _ _ _ _ _ E) as (A1 & A2 & _); pose proof (Q_quiet cf _ _ _ _ _ _ (q_choice_weighted _ _) HQA E) as HQB end.
        mstep Ecc. apply ret_spec in Ecc as [-> ->].
        split; [exact HQB|]. split; [exact A1|]. split; [exact A2|]. split; [exact Hid0|]. split; [exact Hb0|reflexivity].
      - apply ret_spec in Ecc as [-> ->].
        split; [exact HQA|]. split; [reflexivity|]. split; [reflexivity|]. split; [exact Hid0|]. split; [exact Hb0|reflexivity]. }
    destruct CB as (HQB & EiB & EnB & Hid1 & Hb1 & Hs1). clear Ecc HQA.
    rewrite <- EiB in Hf. assert (AtB : bk_at_node sB j i) by (destruct AtA as (n & A1 & A2); exists n; unfold nodeZ in *; rewrite EnB; auto). clear AtA EiB EnB.
    mstep H. mstep H.
    mstep H.
    match goal with E : choice_weighted _ _ sB = Ok (?kk, ?sa) |- _ =>
      destruct (q_choice_weighted _ _ _ _ _ E) as (EiC & EnC & _); pose proof (Q_quiet cf _ _ _ _ _ _ (q_choice_weighted _ _) HQB E) as HQC;
      rename kk into k; rename sa into sC; clear E end.
    rewrite <- EiC in Hf. assert (AtC : bk_at_node sC j i) by (destruct AtB as (n & A1 & A2); exists n; unfold nodeZ in *; rewrite EnC; auto). clear AtB EiC EnC HQB.
    match type of H with context [if Nat.ltb k (length ?row) then ?u else ?v] => set (D := if Nat.ltb k (length row) then u else v) in * end.
    (* the destination is recorded *)
    mstep H.
    match goal with E : put_ind ?x' sC = Ok (?u, ?sa) |- _ => destruct u; set (x2 := x') in *; rename sa into sD; rename E into Eput end.
    assert (N0C : NoEntry sC i) by (eapply N0_unblocked; [exact (proj2 HQC)|exact Hf|exact Hb0]).
    assert (DD : WQ cf [] [] sD /\ nodes sD = nodes sC /\ inds sD = put_ind_l x2 (inds sC)).
    { destruct (bk_put_ind_spec _ _ _ Eput) as (Ei & En & Ea & Esh). split; [|auto]. split; [eapply WFx_shape; [exact Esh|exact (proj1 HQC)]|].
      apply (W_put_ind cf sC sD (nodeZ_eq _ _ En) ltac:(rewrite Ea; lia) [] [] i x0 x2 (proj2 HQC) Hf Hid1 Ei); auto.
      - left. split; [change (i_blocked x1 = i_blocked x0); congruence|exact Hs1].
      - intros Hb. change (i_blocked x1 = true) in Hb. congruence. }
    destruct DD as (HQD & EnD & EiD). clear Eput.
    assert (HfD : find_ind i (inds sD) = Some x2) by (rewrite EiD; rewrite <- Hid1 at 1; change (i_id x1) with (i_id x2); apply find_put_same).
    assert (N0D : NoEntry sD i) by (eapply N0_nodes; [|exact N0C]; intros j'; rewrite (nodeZ_eq _ _ EnD); reflexivity).
    assert (AtD : bk_at_node sD j i) by (destruct AtC as (n & A1 & A2); exists n; unfold nodeZ in *; rewrite EnD; auto).
    clear AtC N0C HQC Hf EnD EiD.
    mstep H.
    (* the server's end-of-service date is erased *)
    mstep H.
    match goal with E : (if infb cf j then _ else _) sD = Ok (?u, ?sa) |- _ => destruct u; rename sa into sE; rename E into Esv end.
    assert (EE : WQ cf [] [] sE /\ inds sE = inds sD /\ NoEntry sE i /\ bk_at_node sE j i /\ NoLive sE i /\ (infb cf j = true \/ i_server x2 <> None)).
    { destruct AtD as (ndD & HnD & HinD). revert Esv. destruct (infb cf j) eqn:Einf; intros Esv.
      - apply ret_spec in Esv as [-> _]. split; [exact HQD|]. split; [reflexivity|]. split; [exact N0D|]. split; [exists ndD; auto|]. split; [|left; reflexivity].
        intros j' n sv e Hn' Hsv He Hc. destruct (w_live _ _ _ (proj2 HQD) j' n sv e i Hn' Hsv He Hc) as (Hin' & _).
        assert (j' = j) by (eapply WFx_place; [exact (proj1 HQD)|exact Hn'|exact HnD|exact Hin'|exact HinD]). subst j'.
        rewrite HnD in Hn'. injection Hn' as <-. rewrite (w_inf _ _ _ (proj2 HQD) j ndD HnD Einf) in Hsv. destruct Hsv.
      - mstep Esv. mstep Esv. mstep Esv.
        match goal with Hx : i_server x2 = Some ?ss |- _ => rename ss into sid; rename Hx into Hsid end.
        match goal with Hx : nthZ (nodes sD) (j - 1) = Some ?ndx |- _ => rename ndx into nd1; rename Hx into Hn1 end.
        match goal with Hx : find_server sid (n_servers nd1) = Some ?ss |- _ => rename ss into svf; rename Hx into Hfs end.
        assert (nd1 = ndD) by (unfold nodeZ in HnD; congruence). subst nd1.
        pose proof (WFx_Idx _ _ (proj1 HQD)) as ID.
        destruct (put_facts _ ndD sD sE j ID HnD Esv eq_refl) as (Hput & EiE & EaE).
        assert (WE : Wh cf [] sE).
        { eapply (W_node_sv cf sD sE j ndD _ HnD Hput EiE ltac:(rewrite EaE; lia) []); [reflexivity|reflexivity|reflexivity| |exact (proj2 HQD)].
          intros e c He. cbn in He. discriminate He. }
        assert (XE : WFx [] sE).
        { eapply WFx_shape; [|exact (proj1 HQD)]. eapply put_node_shape; [exact Esv|cbn; rewrite (Idx_get _ _ _ ID Hn1); exact Hn1|reflexivity]. }
        split; [split; assumption|]. split; [exact EiE|]. split; [eapply N0_put; [exact HnD|exact Hput|reflexivity|exact N0D]|].
        split; [eexists; rewrite Hput, Z.eqb_refl; split; [reflexivity|exact HinD]|]. split; [|right; congruence].
        intros j' n sv e Hn' Hsv He Hc. destruct (w_live _ _ _ WE j' n sv e i Hn' Hsv He Hc) as (Hin' & xi & Hxi & _ & Hsi).
        rewrite EiE, HfD in Hxi. injection Hxi as <-.
        assert (HnE : nodeZ sE j = Some (ndD <| n_servers := put_server_l (svf <| sv_next_end := None |>) (n_servers ndD) |>)) by (rewrite Hput, Z.eqb_refl; reflexivity).
        assert (j' = j) by (eapply WFx_place; [exact XE|exact Hn'|exact HnE|exact Hin'|exact HinD]). subst j'.
        rewrite HnE in Hn'. injection Hn' as <-. cbn in Hsv.
        destruct (bk_find_server_In _ _ _ Hfs) as (_ & Hsvid).
        apply (In_put_server _ _ _ (w_svnd _ _ _ (proj2 HQD) j ndD HnD)) in Hsv as [->|[_ Hne]]; [cbn in He; discriminate He|].
        cbn in Hne. congruence. }
    destruct EE as (HQE & EiE & N0E & AtE & NLE & Hsrv). clear Esv HQD N0D AtD.
    assert (HfE : find_ind i (inds sE) = Some x2) by (rewrite EiE; exact HfD). clear HfD EiE.
    (* is there space at the destination? *)
    mstep H.
    match goal with E : (if D =? 0 then ret true else _) sE = Ok (?sp, ?sb) |- _ =>
      assert (Hsp : sb = sE /\ (sp = false -> D <> 0));
      [ revert E; destruct (Z.eqb_spec D 0) as [HD|HD]; intros E;
        [ apply ret_spec in E as [-> ->]; split; [reflexivity|discriminate]
        | mstep E; mstep E; apply ret_spec in E as [-> _]; split; [reflexivity|intros _; exact HD] ]
      | destruct Hsp as [-> Hsp]; clear E ] end.
    match type of H with (if ?sp then _ else _) _ = _ => destruct sp end.
    - mstep H. eapply release_W; [split; [exact (proj1 HQE)|eapply W_ex_mono; [|exact (proj2 HQE)]; intros y []]|exact N0E|exact NLE|exact H].
    - specialize (Hsp eq_refl). unfold block_individual in H.
      mstep H.
      match goal with Hx : find_ind i (inds sE) = Some ?xx |- _ =>
        lazymatch xx with x2 => fail | _ => assert (Hxx : xx = x2) by congruence; rewrite Hxx in *; clear Hxx Hx end end.
      mstep H.
      match goal with E : put_ind ?x' sE = Ok (?u, ?sa) |- _ =>
        destruct u; set (xb := x') in *;
        destruct (put_ind_B cf [] [] [i] sE sa i x2 xb HQE HfE (find_ind_id _ _ _ HfE) NLE N0E ltac:(intros y []) ltac:(intros; left; reflexivity) E) as (HQF & EnF & EiF);
        rename sa into sF; clear E end.
      mstep H.
      match goal with Hx : nthZ (nodes sF) (D - 1) = Some ?ndx |- _ => rename ndx into dn; rename Hx into HnF end.
      pose proof (WFx_Idx _ _ (proj1 HQF)) as IF.
      destruct (put_facts _ dn sF s' D IF HnF H eq_refl) as (Hput & EiG & EaG).
      split.
      + eapply WFx_shape; [|exact (proj1 HQF)]. eapply put_node_shape; [exact H|cbn; rewrite (Idx_get _ _ _ IF HnF); exact HnF|reflexivity].
      + apply (W_node_push cf sF s' D dn _ HnF Hput EiG ltac:(rewrite EaG; lia) [i] [] j i xb); try reflexivity.
        * rewrite EiF. rewrite <- (find_ind_id _ _ _ HfE) at 1. change (i_id x2) with (i_id xb). apply find_put_same.
        * cbn. destruct (Z.eqb_spec D 0); [contradiction|reflexivity].
        * destruct AtE as (n & A1 & A2). exists n. unfold nodeZ in *. rewrite EnF. auto.
        * exact Hsrv.
        * eapply N0_nodes; [|exact N0E]. intros j'. rewrite (nodeZ_eq _ _ EnF). reflexivity.
        * intros y [<-|[]] Hne. contradiction.
        * exact (proj2 HQF).
  Qed.

  (* ---------- arrivals ---------- *)
  Lemma modify_spec (f : sim -> sim) s a s' : modify f s = Ok (a, s') -> s' = f s.
  Proof. unfold modify. intros H. inversion H. reflexivity. Qed.
  Lemma N0_same s s' i : nodes s' = nodes s -> NoEntry s i -> NoEntry s' i.
  Proof. intros En. apply N0_nodes. intros j. rewrite (nodeZ_eq _ _ En). reflexivity. Qed.

  Lemma release_individual_W j x s s' : WQ cf [i_id x] [] s -> find_ind (i_id x) (inds s) = None -> i_blocked x = false ->
    release_individual cf j x s = Ok (tt, s') -> WQ cf [] [] s'.
  Proof.
    intros HQ Hnone Hb H. unfold release_individual in H.
    assert (HN0 : NoEntry s (i_id x)).
    { intros d from He. destruct (w_ent _ _ _ (proj2 HQ) d from _ He) as (xy & Hxy & _). congruence. }
    mstep H. mstep H. mstep H.
    mstep H.
    match goal with E : put_ind x s = Ok (?u, ?sa) |- _ =>
      destruct u; destruct (put_ind_flight cf [] [] s sa x HQ HN0 ltac:(intros y []) Hb E) as (HQ1 & En1); rename sa into s1; clear E end.
    pose proof (N0_same _ _ _ En1 HN0) as N1a. clear HQ HN0 Hnone.
    assert (Hrej : forall ty sa, WQ cf [i_id x] [] sa -> NoEntry sa (i_id x) -> (write_br_record j x ty;;; exit_accept x false) sa = Ok (tt, s') -> WQ cf [] [] s').
    { intros ty sa HQa HNa Ha. mstep Ha.
      match goal with E : write_br_record _ _ _ sa = Ok (_, ?sb) |- _ =>
        destruct (q_write_br_record _ _ _ _ _ _ E) as (_ & En & _); pose proof (Q_quiet cf _ _ _ _ _ _ (q_write_br_record _ _ _) HQa E) as HQb end.
      eapply (exit_accept_W cf x false [] []); [exact HQb|eapply N0_same; eauto|intros y []|exact Ha]. }
    assert (Hacc : forall sa, WQ cf [i_id x] [] sa -> NoEntry sa (i_id x) ->
                     (modify (fun s => s <| arr := arr s <| a_accepted := a_accepted (arr s) + 1 |> |>);;; accept cf j x) sa = Ok (tt, s') -> WQ cf [] [] s').
    { intros sa HQa HNa Ha. mstep Ha.
      match goal with E : modify _ sa = Ok (_, ?sb) |- _ => apply modify_spec in E; subst sb end.
      match type of Ha with accept _ _ _ ?st = _ => eapply (accept_W cf j x [] [] st s'); [|eapply N0_same; [|exact HNa]; reflexivity|intros y []|exact Ha] end.
      eapply Q_same; [| | | | |exact HQa]; reflexivity. }
    match type of H with (if ?b then _ else _) _ = _ => destruct b end; [eapply Hrej; eauto|].
    mstep H. mstep H.
    match type of H with (match ?t with _ => _ end) _ = _ => destruct t as [tb|] end; [|eapply Hacc; eauto].
    mstep H.
    match goal with E : draw_unif s1 = Ok (_, ?sb) |- _ =>
      destruct (quiet_draw_unif _ _ _ E) as (_ & En & _); pose proof (Q_quiet cf _ _ _ _ _ _ quiet_draw_unif HQ1 E) as HQ2;
      pose proof (N0_same _ _ _ En N1a) as N2a end.
    match type of H with (if ?b then _ else _) _ = _ => destruct b end; [eapply Hrej; eauto|eapply Hacc; eauto].
  Qed.

  Lemma find_none_of_le (l : list ind) c : (forall x, In x l -> i_id x <= c) -> find_ind (c + 1) l = None.
  Proof. intros H. destruct (find_ind (c + 1) l) as [x|] eqn:E; [|reflexivity]. pose proof (H x (find_In _ _ _ E)). pose proof (find_ind_id _ _ _ E). lia. Qed.

  Lemma batch_loop_W : forall n j c p s s', WQ cf [] [] s -> batch_loop cf n j c p s = Ok (tt, s') -> WQ cf [] [] s'.
  Proof.
    induction n as [|n IH]; intros j c p s s' HQ H; cbn [batch_loop] in H; [apply ret_spec in H as [-> _]; exact HQ|].
    mstep H.
    match goal with E : modify _ s = Ok (_, ?sa) |- _ => apply modify_spec in E; subst sa end.
    mstep H. mstep H.
    match goal with E : release_individual cf j ?xx ?sa = Ok (?u, ?sb) |- _ => destruct u; rename E into Er end.
    eapply IH; [|exact H]. eapply release_individual_W; [| | |exact Er].
    - split.
      + destruct HQ as [HW _]. unfold WFx, shp in *. cbn. apply WFsh_spawn. exact HW.
      + eapply (W_same cf s); [intros; reflexivity|cbn; lia|exact (proj2 HQ)|reflexivity].
    - cbn. apply find_none_of_le. apply (w_le _ _ _ (proj2 HQ)).
    - reflexivity.
  Qed.

  Lemma arrival_have_event_W s s' : WQ cf [] [] s -> arrival_have_event cf s = Ok (tt, s') -> WQ cf [] [] s'.
  Proof.
    intros HQ H. unfold arrival_have_event in H.
    mstep H.
    mstep H.
    match goal with E : draw_batch s = Ok (_, ?sb) |- _ => pose proof (Q_quiet cf _ _ _ _ _ _ quiet_draw_batch HQ E) as HQ1; clear E HQ end.
    mstep H.
    match goal with E : (if ?b then _ else _) ?sa = Ok (_, ?sb) |- _ =>
      assert (Hs : sb = sa) by (destruct b; [discriminate E|apply ret_spec in E as [-> _]; reflexivity]); rewrite Hs in *; clear E Hs end.
    mstep H.
    mstep H.
    match goal with E : batch_loop _ _ _ _ _ _ = Ok (?u, ?sb) |- _ => destruct u; pose proof (batch_loop_W _ _ _ _ _ _ HQ1 E) as HQ2; clear E HQ1 end.
    mstep H.
    match goal with E : draw_arr _ = Ok (_, ?sb) |- _ => pose proof (Q_quiet cf _ _ _ _ _ _ quiet_draw_arr HQ2 E) as HQ3; clear E HQ2 end.
    mstep H. mstep H. mstep H.
    mstep H.
    match goal with E : modify _ ?sa = Ok (_, ?sb) |- _ =>
      assert (HQ4 : WQ cf [] [] sb) by (apply modify_spec in E; rewrite E; eapply Q_same; [| | | | |exact HQ3]; reflexivity); clear E HQ3 end.
    exact (Q_quiet cf _ _ _ _ _ _ (q_find_next_event_date) HQ4 H).
  Qed.

  (* ---------- update_next_event_date re-establishes NextOk, node by node ---------- *)
  Definition NextOkAt (s : sim) (j : Z) : Prop :=
    forall nd i, nodeZ s j = Some nd -> In i (n_next_inds nd) -> In i (all_individuals nd) /\ exists x, find_ind i (inds s) = Some x /\ i_blocked x = false.

  Lemma update_next_event_date_W j fl ex s s' : WQ cf fl ex s -> update_next_event_date cf j s = Ok (tt, s') ->
    WQ cf fl ex s' /\ inds s' = inds s /\ NextOkAt s' j /\ (forall j', j' <> j -> nodeZ s' j' = nodeZ s j').
  Proof.
    intros HQ H. unfold update_next_event_date in H.
    mstep H.
    match goal with Hx : nthZ (nodes s) (j - 1) = Some ?ndx |- _ => rename ndx into nd; rename Hx into Hn end.
    mstep H. mstep H. mstep H.
    match type of H with (let '(_, _) := ?pr in _) _ = _ => destruct pr as [dt l] eqn:Epr end.
    pose proof (WFx_Idx _ _ (proj1 HQ)) as I0.
    destruct (put_facts _ nd s s' j I0 Hn H eq_refl) as (Hput & Ei & Ea).
    split; [split|split; [exact Ei|split]].
    - eapply WFx_shape; [|exact (proj1 HQ)]. eapply put_node_shape; [exact H|cbn; rewrite (Idx_get _ _ _ I0 Hn); exact Hn|reflexivity].
    - eapply (W_node_q cf s s' j nd _ Hn Hput Ei ltac:(rewrite Ea; lia) ex); [reflexivity|reflexivity| |exact (proj2 HQ)]. intros y Hy. right. exact Hy.
    - intros n i Hn' Hi. rewrite Hput, Z.eqb_refl in Hn'. injection Hn' as <-. cbn in Hi. rewrite Ei.
      change (In i (all_individuals nd) /\ exists x, find_ind i (inds s) = Some x /\ i_blocked x = false).
      assert (Hl : l = snd (if infb cf j then scan_inds (now s) (all_individuals nd) (inds s) None [] else scan_servers (n_servers nd) None [])) by (rewrite Epr; reflexivity).
      rewrite Hl in Hi. destruct (infb cf j).
      + apply bk_scan_inds_spec in Hi as [[]|Hi]. exact Hi.
      + apply bk_scan_servers_spec in Hi as [[]|(sv & e & Hsv & Hc & He)].
        destruct (w_live _ _ _ (proj2 HQ) j nd sv e i Hn Hsv He Hc) as (Hin & x & Hx & Hb & _). eauto.
    - intros j' Hne. rewrite Hput. destruct (Z.eqb_spec j' j); [contradiction|reflexivity].
  Qed.

  Lemma update_all_W : forall js fl ex s s', WQ cf fl ex s -> update_all cf js s = Ok (tt, s') ->
    WQ cf fl ex s' /\ inds s' = inds s /\ (forall j, In j js -> NextOkAt s' j) /\ (forall j, ~ In j js -> nodeZ s' j = nodeZ s j).
  Proof.
    induction js as [|j0 r IH]; intros fl ex s s' HQ H; cbn [update_all] in H.
    - apply ret_spec in H as [-> _]. split; [exact HQ|]. split; [reflexivity|]. split; [intros j []|reflexivity].
    - mstep H.
      match goal with E : update_next_event_date cf j0 s = Ok (?u, ?sa) |- _ =>
        destruct u; destruct (update_next_event_date_W j0 fl ex s sa HQ E) as (HQ1 & Ei1 & Hj0 & Hoth); clear E end.
      destruct (IH _ _ _ _ HQ1 H) as (HQ2 & Ei2 & Hin & Hout).
      split; [exact HQ2|]. split; [congruence|]. split.
      + intros j [<-|Hj]; [|apply Hin; exact Hj].
        destruct (in_dec Z.eq_dec j0 r) as [Hr|Hr]; [apply Hin; exact Hr|].
        intros nd i Hn Hi. rewrite (Hout j0 Hr) in Hn. rewrite Ei2. apply (Hj0 nd i Hn Hi).
      + intros j Hj. rewrite Hout by (intros Hr; apply Hj; right; exact Hr). apply Hoth. intros ->. apply Hj. left. reflexivity.
  Qed.

  (* ---------- one event ---------- *)
  Definition Who (s : sim) : Prop := WQ cf [] [] s /\ NextOk s.

  Lemma N1_same s s' : nodes s' = nodes s -> inds s' = inds s -> NextOk s -> NextOk s'.
  Proof. intros En Ei H j nd i Hn Hi. rewrite (nodeZ_eq _ _ En) in Hn. rewrite Ei. apply (H j nd i Hn Hi). Qed.

  Theorem event_step_who s s' : Who s -> event_step cf s = Ok (tt, s') -> Who s'.
  Proof.
    intros [HQ HN1] H. unfold event_step in H.
    mstep H.
    match goal with E : modify _ s = Ok (_, ?sa) |- _ => apply modify_spec in E; subst sa end.
    match type of H with _ ?st = _ =>
      assert (HQ0 : WQ cf [] [] st) by (eapply Q_same; [| | | | |exact HQ]; reflexivity);
      assert (HN0 : NextOk st) by (eapply N1_same; [| |exact HN1]; reflexivity) end.
    clear HQ HN1.
    mstep H.
    mstep H.
    match goal with E : (if ?b then _ else _) _ = Ok (?u, ?sx) |- _ =>
      destruct u; assert (HQ1 : WQ cf [] [] sx) by (destruct b; [eapply arrival_have_event_W; eauto|eapply finish_service_W; eauto]);
      rename sx into sB; clear E HQ0 HN0 end.
    mstep H.
    mstep H.
    match goal with E : update_all cf _ sB = Ok (?u, ?sx) |- _ =>
      destruct u; destruct (update_all_W _ _ _ _ _ HQ1 E) as (HQ2 & Ei2 & Hin & _);
      pose proof (bk_k_update_all cf _ _ _ _ (WFx_Idx _ _ (proj1 HQ1)) E) as EBV; rename sx into sC; clear E end.
    assert (HN2 : NextOk sC).
    { intros j nd i Hn Hi. apply (Hin j); [|exact Hn|exact Hi].
      pose proof (bvZ_BV sB sC j EBV) as Eb. unfold bvZ in Eb. fold (nodeZ sC j) in Eb. fold (nodeZ sB j) in Eb. rewrite Hn in Eb.
      destruct (nodeZ sB j) as [nd0|] eqn:En0; [|discriminate Eb].
      pose proof (Idx_get _ _ _ (WFx_Idx _ _ (proj1 HQ1)) En0) as Hid. rewrite <- Hid. apply in_map.
      unfold nodeZ, nthZ in En0. destruct (j - 1 <? 0); [discriminate|]. eapply nth_error_In; eauto. }
    destruct (q_find_next_active_node _ _ _ H) as (Ei3 & En3 & _).
    split; [exact (Q_quiet cf _ _ _ _ _ _ q_find_next_active_node HQ2 H)|eapply N1_same; eauto].
  Qed.

  Theorem run_many_who : forall ds s s', Who s -> run_many cf s ds = Ok s' -> Who s'.
  Proof.
    induction ds as [|d r IH]; intros s s' HW H; cbn [run_many] in H; [inversion H; subst; exact HW|].
    destruct (event_step cf (s <| dr := d |>)) as [[u s1]| |] eqn:E; try discriminate. destruct u.
    eapply IH; [|exact H]. eapply event_step_who; [|exact E].
    destruct HW as [HQ HN1]. split; [eapply Q_same; [| | | | |exact HQ]; reflexivity|eapply N1_same; [| |exact HN1]; reflexivity].
  Qed.
End Who2.

(* ---------- (iii) in the words of the property ---------- *)
Lemma NoDup_map_snd_inj {A} (l : list (A * Z)) a b y : NoDup (map snd l) -> In (a, y) l -> In (b, y) l -> a = b.
Proof.
  induction l as [|[c z] r IH]; cbn; intros Hnd Ha Hb; [destruct Ha|]. apply NoDup_cons_iff in Hnd as [Hn Hd].
  destruct Ha as [Ha|Ha], Hb as [Hb|Hb].
  - congruence.
  - injection Ha as -> ->. exfalso. apply Hn. apply in_map_iff. exists (b, y). auto.
  - injection Hb as -> ->. exfalso. apply Hn. apply in_map_iff. exists (a, y). auto.
  - auto.
Qed.

Theorem who_means cf s : Who cf s ->
  (* every entry (from, y) of the blocked queue of node k+1: y is a customer of node `from`, is flagged blocked and has
     destination k+1 *)
  (forall k nd from y, nth_error (nodes s) k = Some nd -> In (from, y) (n_bq nd) ->
     exists x ndf, find_ind y (inds s) = Some x /\ i_blocked x = true /\ i_dest x = Some (Z.of_nat k + 1) /\
                   1 <= from /\ nth_error (nodes s) (Z.to_nat (from - 1)) = Some ndf /\ In y (all_individuals ndf)) /\
  (* conversely every customer flagged blocked is in a blocked queue ... *)
  (forall x, In x (inds s) -> i_blocked x = true -> exists k nd from, nth_error (nodes s) k = Some nd /\ In (from, i_id x) (n_bq nd)) /\
  (* ... in exactly one, once *)
  (forall k nd, nth_error (nodes s) k = Some nd -> NoDup (map snd (n_bq nd))) /\
  (forall k1 nd1 f1 k2 nd2 f2 y, nth_error (nodes s) k1 = Some nd1 -> In (f1, y) (n_bq nd1) ->
                                  nth_error (nodes s) k2 = Some nd2 -> In (f2, y) (n_bq nd2) -> k1 = k2 /\ f1 = f2) /\
  (* one record per customer *)
  NoDup (map i_id (inds s)).
Proof.
  intros [[HW HWw] _].
  assert (Hent : forall k nd from y, nth_error (nodes s) k = Some nd -> In (from, y) (n_bq nd) -> entry s (Z.of_nat k + 1) from y).
  { intros k nd from y Hk Hin. exists nd. rewrite nodeZ_of_nat. auto. }
  split; [|split; [|split; [|split]]].
  - intros k nd from y Hk Hin. destruct (w_ent _ _ _ HWw _ _ _ (Hent k nd from y Hk Hin)) as (x & Hx & Hb & Hd & (ndf & Hnf & Hinf) & _).
    exists x, ndf. split; [exact Hx|]. split; [exact Hb|]. split; [exact Hd|].
    unfold nodeZ, nthZ in Hnf. destruct (from - 1 <? 0) eqn:E; [discriminate|]. apply Z.ltb_ge in E. split; [lia|]. auto.
  - intros x Hx Hb. destruct (w_blk _ _ _ HWw x Hx Hb) as [[]|(d & from & nd & Hn & Hin)].
    apply nodeZ_nat in Hn as (k & -> & Hk). eauto.
  - intros k nd Hk. apply (w_bqnd _ _ _ HWw (Z.of_nat k + 1) nd). rewrite nodeZ_of_nat. exact Hk.
  - intros k1 nd1 f1 k2 nd2 f2 y H1 I1 H2 I2.
    destruct (w_ent _ _ _ HWw _ _ _ (Hent _ _ _ _ H1 I1)) as (x1 & Hx1 & _ & Hd1 & _).
    destruct (w_ent _ _ _ HWw _ _ _ (Hent _ _ _ _ H2 I2)) as (x2 & Hx2 & _ & Hd2 & _).
    assert (k1 = k2) by (rewrite Hx1 in Hx2; injection Hx2 as <-; rewrite Hd1 in Hd2; injection Hd2 as Hd2; lia). subst k2.
    split; [reflexivity|]. rewrite H1 in H2. injection H2 as <-.
    eapply NoDup_map_snd_inj; [|exact I1|exact I2]. apply (w_bqnd _ _ _ HWw (Z.of_nat k1 + 1) nd1). rewrite nodeZ_of_nat. exact H1.
  - exact (w_nd _ _ _ HWw).
Qed.

(* ---------- an executable test of Who ---------- *)
Fixpoint bk_nodup_b (l : list Z) : bool := match l with [] => true | x :: r => negb (memZ x r) && bk_nodup_b r end.
Lemma bk_nodup_b_sound l : bk_nodup_b l = true -> NoDup l.
Proof.
  induction l as [|x r IH]; cbn; intros H; [constructor|]. apply andb_true_iff in H as [H1 H2]. constructor; [|auto].
  rewrite <- memZ_In. apply negb_true_iff in H1. congruence.
Qed.
Definition is_some {A} (o : option A) : bool := match o with Some _ => true | None => false end.

Definition ent_b (cf : config) (s : sim) (nd : node) (e : Z * Z) : bool :=
  let '(from, y) := e in
  match find_ind y (inds s) with
  | Some x => i_blocked x && match i_dest x with Some d => d =? n_id nd | None => false end
              && match nodeZ s from with Some ndf => memZ y (all_individuals ndf) | None => false end
              && (infb cf from || is_some (i_server x))
  | None => false
  end.
Definition live_b (s : sim) (nd : node) (sv : server) : bool :=
  match sv_next_end sv, sv_cust sv with
  | Some _, Some c => memZ c (all_individuals nd)
                      && match find_ind c (inds s) with
                         | Some x => negb (i_blocked x) && match i_server x with Some sid => sid =? sv_id sv | None => false end
                         | None => false
                         end
  | _, _ => true
  end.
Definition next_b (s : sim) (nd : node) (i : Z) : bool :=
  memZ i (all_individuals nd) && match find_ind i (inds s) with Some x => negb (i_blocked x) | None => false end.

Definition who_b (cf : config) (s : sim) : bool :=
  wfx_b s
  && bk_nodup_b (map i_id (inds s))
  && forallb (fun x => i_id x <=? a_created (arr s)) (inds s)
  && forallb (fun nd => bk_nodup_b (map snd (n_bq nd))) (nodes s)
  && forallb (fun nd => forallb (ent_b cf s nd) (n_bq nd)) (nodes s)
  && forallb (fun x => negb (i_blocked x) || existsb (fun nd => memZ (i_id x) (map snd (n_bq nd))) (nodes s)) (inds s)
  && forallb (fun nd => bk_nodup_b (map sv_id (n_servers nd))) (nodes s)
  && forallb (fun nd => forallb (live_b s nd) (n_servers nd)) (nodes s)
  && forallb (fun nd => negb (infb cf (n_id nd)) || match n_servers nd with [] => true | _ => false end) (nodes s)
  && forallb (fun nd => forallb (next_b s nd) (n_next_inds nd)) (nodes s).

Lemma nodeZ_In s j nd : nodeZ s j = Some nd -> In nd (nodes s).
Proof. intros H. apply nodeZ_nat in H as (k & _ & Hk). eapply nth_error_In; eauto. Qed.

Theorem who_b_sound cf s : who_b cf s = true -> Who cf s.
Proof.
  unfold who_b. intros H.
  repeat match type of H with (_ && _) = true => let H2 := fresh "B" in apply andb_true_iff in H as [H H2] end.
  pose proof (wfx_b_sound s H) as HW. pose proof (WFx_Idx _ _ HW) as HI.
  rewrite forallb_forall in B, B0, B1, B2, B3, B4, B5, B6.
  split; [split; [exact HW|constructor]|].
  - apply bk_nodup_b_sound. exact B7.
  - intros x Hx. apply Z.leb_le. apply (B6 x Hx).
  - intros j nd Hn. apply bk_nodup_b_sound. apply (B5 nd (nodeZ_In _ _ _ Hn)).
  - intros d from y (nd & Hn & Hin). pose proof (B4 nd (nodeZ_In _ _ _ Hn)) as E. rewrite forallb_forall in E. specialize (E _ Hin).
    unfold ent_b in E. destruct (find_ind y (inds s)) as [x|]; [|discriminate]. exists x.
    apply andb_true_iff in E as [E E4]. apply andb_true_iff in E as [E E3]. apply andb_true_iff in E as [E1 E2].
    split; [reflexivity|]. split; [exact E1|]. split.
    + destruct (i_dest x) as [d0|]; [|discriminate]. apply Z.eqb_eq in E2. rewrite E2. f_equal. exact (Idx_get _ _ _ HI Hn).
    + split.
      * destruct (nodeZ s from) as [ndf|] eqn:Ef; [|discriminate]. exists ndf. split; [exact Ef|apply memZ_In; exact E3].
      * apply orb_true_iff in E4 as [E4|E4]; [left; exact E4|right]. destruct (i_server x); [discriminate|discriminate E4].
  - intros x Hx Hb. right. specialize (B3 x Hx). rewrite Hb in B3. cbn in B3. apply existsb_exists in B3 as (nd & Hnd & Hm).
    apply memZ_In in Hm. apply in_map_iff in Hm as ([from y] & Ey & Hin). cbn in Ey. subst y.
    apply In_nth_error in Hnd as (k & Hk). exists (Z.of_nat k + 1), from, nd. rewrite nodeZ_of_nat. auto.
  - intros j nd Hn. apply bk_nodup_b_sound. apply (B2 nd (nodeZ_In _ _ _ Hn)).
  - intros j nd sv e c Hn Hsv He Hc. pose proof (B1 nd (nodeZ_In _ _ _ Hn)) as E. rewrite forallb_forall in E. specialize (E _ Hsv).
    unfold live_b in E. rewrite He, Hc in E. apply andb_true_iff in E as [E1 E2]. split; [apply memZ_In; exact E1|].
    destruct (find_ind c (inds s)) as [x|]; [|discriminate]. exists x. apply andb_true_iff in E2 as [E2 E3].
    split; [reflexivity|]. split; [apply negb_true_iff; exact E2|]. destruct (i_server x) as [sid|]; [|discriminate]. apply Z.eqb_eq in E3. congruence.
  - intros j nd Hn Hinf. pose proof (B0 nd (nodeZ_In _ _ _ Hn)) as E. rewrite (Idx_get _ _ _ HI Hn), Hinf in E. cbn in E.
    destruct (n_servers nd); [reflexivity|discriminate].
  - intros j nd i Hn Hi. pose proof (B nd (nodeZ_In _ _ _ Hn)) as E. rewrite forallb_forall in E. specialize (E _ Hi).
    unfold next_b in E. apply andb_true_iff in E as [E1 E2]. split; [apply memZ_In; exact E1|].
    destruct (find_ind i (inds s)) as [x|]; [|discriminate]. exists x. split; [reflexivity|apply negb_true_iff; exact E2].
Qed.


(* L [cfg; state] -> A 1 when the snapshot satisfies Who *)
Definition run_whob (inp : sx) : sx :=
  match inp with
  | L [c; s] =>
    match dec_cfg c, dec_sim s (L [L []; L []; L []; L []]) with
    | Some cf, Some st => A (if who_b cf st then 1 else 0)
    | _, _ => A (-1)
    end
  | _ => A (-1)
  end.

(* ---------- everything together: any number of events ---------- *)
Theorem engine_blocking cf : forall ds s s', Blk cf s -> Who cf s -> run_many cf s ds = Ok s' ->
  Blk cf s' /\ Who cf s' /\ fifo s s'.
Proof.
  intros ds s s' HB HW H. split; [exact (run_many_blk cf ds s s' HB H)|]. split; [exact (run_many_who cf ds s s' HW H)|exact (run_many_fifo cf ds s s' HB H)].
Qed.

(* ---------- non-vacuity: a concrete two-node tandem, node 2 with room for one customer ---------- *)
Definition c07ex_cf : config :=
  mkCfg 1 [mkNcfg (Some 1) None None 0; mkNcfg (Some 1) (Some 1) None 0] [0] 1 None [[[0; 8]; [0; 0]]] [[None; None]].
Definition c07ex_i1 : ind := mkInd 1 0 0 0 0 0 (Some 1) (Some 0) (Some 0) (Some 3) (Some 3) None false (Some 1) None (Some 0) None 0.
Definition c07ex_i2 : ind := mkInd 2 0 0 0 0 0 (Some 2) (Some 1) (Some 1) (Some 5) (Some 6) None false (Some 1) None (Some 0) None 0.
Definition c07ex_n1 : node := mkNode 1 1 1 [[1]] [mkServer 1 (Some 1) true (Some 3) 0 None 0] [] 0 (Some 3) [1].
Definition c07ex_n2 : node := mkNode 2 1 1 [[2]] [mkServer 1 (Some 2) true (Some 6) 0 None 0] [] 0 (Some 6) [2].
(* time 3: customer 1 is about to finish at node 1 and will want node 2, which customer 2 fills until time 6 *)
Definition c07ex_s0 : sim :=
  mkSim 3 1 (mkArr 2 2 [[Some 4]; [None]] 1 0 (Some 4)) [c07ex_n1; c07ex_n2] [] 0 0 [c07ex_i1; c07ex_i2] (mkDraws [] [] [] []) [].
Definition c07ex_d : draws := mkDraws [5] [1] [4; 2; 7] [4503599627370496; 0; 0].

Example c07ex_hyps : blk_b c07ex_cf c07ex_s0 = true /\ who_b c07ex_cf c07ex_s0 = true /\ cap_b c07ex_cf c07ex_s0 = true.
Proof. vm_compute. auto. Qed.
Example c07ex_Blk : Blk c07ex_cf c07ex_s0.
Proof. apply blk_b_sound. vm_compute. reflexivity. Qed.
Example c07ex_Who : Who c07ex_cf c07ex_s0.
Proof. apply who_b_sound. vm_compute. reflexivity. Qed.
(* event 1: node 2 is full, customer 1 joins its blocked queue and stays at node 1, flagged blocked *)
Example c07ex_blocked : exists s1, run_many c07ex_cf c07ex_s0 [c07ex_d] = Ok s1 /\
  map n_bq (nodes s1) = [[]; [(1, 1)]] /\ map all_individuals (nodes s1) = [[1]; [2]] /\
  map (fun x => (i_id x, i_blocked x, i_dest x)) (inds s1) = [(1, true, Some 2); (2, false, None)] /\
  blk_b c07ex_cf s1 = true /\ who_b c07ex_cf s1 = true.
Proof. eexists. split; [vm_compute; reflexivity|]. vm_compute. auto 6. Qed.
(* events 2 and 3: customer 3 arrives at node 1; customer 2 leaves node 2 and, in the same event, customer 1 takes the place *)
Example c07ex_unblocked : exists s3, run_many c07ex_cf c07ex_s0 [c07ex_d; c07ex_d; c07ex_d] = Ok s3 /\
  map n_bq (nodes s3) = [[]; []] /\ map all_individuals (nodes s3) = [[3]; [1]] /\ exit_ids s3 = [2] /\
  map (fun x => (i_id x, i_blocked x)) (inds s3) = [(1, false); (3, false)] /\
  blk_b c07ex_cf s3 = true /\ who_b c07ex_cf s3 = true.
Proof. eexists. split; [vm_compute; reflexivity|]. vm_compute. auto 7. Qed.
(* the intermediate state, with a customer in a blocked queue, satisfies the invariants by the theorem (not by computation) *)
Example c07ex_run : forall s1, run_many c07ex_cf c07ex_s0 [c07ex_d] = Ok s1 -> Blk c07ex_cf s1 /\ Who c07ex_cf s1 /\ fifo c07ex_s0 s1.
Proof. intros s1 H. exact (engine_blocking c07ex_cf _ _ _ c07ex_Blk c07ex_Who H). Qed.

Print Assumptions event_step_blk.
Print Assumptions event_step_fifo.
Print Assumptions event_step_fifo_weak.
Print Assumptions run_many_blk.
Print Assumptions run_many_fifo.
Print Assumptions blk_means.
Print Assumptions blk_full.
Print Assumptions blk_b_sound.
Print Assumptions event_step_who.
Print Assumptions run_many_who.
Print Assumptions who_means.
Print Assumptions who_b_sound.
Print Assumptions engine_blocking.
Print Assumptions c07ex_blocked.
Print Assumptions c07ex_unblocked.
Print Assumptions c07ex_run.

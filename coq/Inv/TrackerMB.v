(* TrackerMB.v -- T2 for C17 (state trackers) on the engine model, the tracker TrackerInc.v leaves out: MatrixBlocking
   (ciw/trackers/state_tracker.py).  Its state is (matrix, populations) plus the counter `increment`:
     matrix[i][j] = the ORDER NUMBERS of the customers of node i+1 blocked towards node j+1, a customer's number being its
     rank (1 = longest blocked) among ALL customers blocked right now; populations[i] = number of customers at node i+1;
     increment = number of blocked customers + 1.
   The engine state knows the order of blockage only per destination (n_bq of every node is in blocking order), so the
   global order is a GHOST list `ord` (identifiers of the blocked customers, oldest first) threaded through the run by
   ord_step: Blk appends the customer, Rel ... true removes it.  What is proved, without touching the model:
     1. OrdOK s ord (ord has no repetition, every blocked queue is the sub-sequence of ord of its own members, every member
        of ord is in a blocked queue) is preserved by every event (with TrackerInc.TInv);
     2. folding Python's incremental updates (mb_step, statement by statement) over the tracker calls of an event
        (TrackerInc.calls_event_step) from the true state w.r.t. ord gives the true state w.r.t. ord_run calls ord:
        the tracker never raises and ends in the true state -- for every configuration, every state satisfying the
        invariants, every oracle of draws, any number of events;
     3. corollary: the numbers held are 1 .. increment-1, each exactly once (never negative, no gaps, no repetition).
   Structure: section 2 is pure list reasoning (an abstract blocked-queue view q : node -> list (from, customer), the
   relation AR that one tracker call induces on views, PI = the invariant on (q, ord), AR_sim = Python's update follows);
   section 3 shows that the engine functions move the blocked queues as their calls say (ARs), the delicate point being
   the unblocking cascade, where release_blocked_individual pops the head (from, y) of a blocked queue BEFORE the recursive
   release calls change_state_release for y: in between the view is the state's queues with (from, y) pushed back
   (pushq).  That change_state_release(blocked=True) pops cell[node][destination][0] -- not the released customer's own
   number -- is right because the released customer is the head of the destination's blocked queue, hence the oldest of
   its cell (find_blocked_position_and_pop). *)
From Coq Require Import ZArith List Bool Lia Permutation.
From RecordUpdate Require Import RecordUpdate.
From CiwV Require Import Sx Prelude Routing.
From CiwV.Engine Require Import State Engine Codec.
From CiwV.Inv Require Import Frame Conserve ConserveRun Capacity SysCap CapacityRun Blocking TrackerInc.
From CiwV.Sub Require Tracker.
Import ListNotations.
Open Scope Z_scope.

Local Arguments Z.mul : simpl never.
Local Arguments Z.add : simpl never.
Local Arguments Z.sub : simpl never.
Local Arguments Z.opp : simpl never.

(* ====================================================================================================================
   0. Lists: positions, filters, matrices generated over 1..N
   ==================================================================================================================== *)
(* the positions, counted from st, of the elements of l that satisfy f (in increasing order) *)
Fixpoint cellF (f : Z -> bool) (st : Z) (l : list Z) : list Z :=
  match l with [] => [] | y :: r => if f y then st :: cellF f (st + 1) r else cellF f (st + 1) r end.

Lemma cellF_app f : forall a st b, cellF f st (a ++ b) = cellF f st a ++ cellF f (st + zlen a) b.
Proof.
  induction a as [|y a IH]; intros st b; cbn [app cellF].
  - unfold zlen. cbn. rewrite Z.add_0_r. reflexivity.
  - rewrite IH. replace (st + 1 + zlen a) with (st + zlen (y :: a)) by (unfold zlen; cbn [length]; lia).
    destruct (f y); reflexivity.
Qed.
Lemma cellF_ext f g : forall l st, (forall y, In y l -> f y = g y) -> cellF f st l = cellF g st l.
Proof.
  induction l as [|y r IH]; intros st H; cbn [cellF]; [reflexivity|].
  rewrite (H y (or_introl eq_refl)), (IH (st + 1)) by (intros z Hz; apply H; right; exact Hz). reflexivity.
Qed.
Lemma cellF_none f : forall l st, (forall y, In y l -> f y = false) -> cellF f st l = [].
Proof.
  induction l as [|y r IH]; intros st H; cbn [cellF]; [reflexivity|].
  rewrite (H y (or_introl eq_refl)). apply IH. intros z Hz. apply H. right. exact Hz.
Qed.
Lemma cellF_bounds f : forall l st z, In z (cellF f st l) -> st <= z < st + zlen l.
Proof.
  induction l as [|y r IH]; intros st z H; cbn [cellF] in H; [destruct H|].
  assert (Hr : In z (cellF f (st + 1) r) -> st <= z < st + zlen (y :: r)).
  { intros Hz. apply IH in Hz. unfold zlen in *. cbn [length]. lia. }
  destruct (f y); [destruct H as [<-|H]; [unfold zlen; cbn [length]; lia|auto]|auto].
Qed.
Lemma cellF_shift f : forall l st, map (fun z => z - 1) (cellF f (st + 1) l) = cellF f st l.
Proof.
  induction l as [|y r IH]; intros st; cbn [cellF map]; [reflexivity|].
  destruct (f y); cbn [map]; rewrite IH; [f_equal; lia|reflexivity].
Qed.
(* z is in the cell iff the element at position z satisfies f *)
Lemma cellF_In f : forall l st z, In z (cellF f st l) <-> exists n y, nth_error l n = Some y /\ f y = true /\ z = st + Z.of_nat n.
Proof.
  induction l as [|y r IH]; intros st z; cbn [cellF].
  - split; [intros []|intros (n & y & H & _); destruct n; discriminate].
  - assert (E : In z (cellF f (st + 1) r) <-> exists n y0, nth_error (y :: r) (S n) = Some y0 /\ f y0 = true /\ z = st + Z.of_nat (S n)).
    { rewrite IH. split; intros (n & y0 & A & B & C); exists n, y0; (split; [exact A|split; [exact B|lia]]). }
    destruct (f y) eqn:Ef.
    + split.
      * intros [<-|H]; [exists O, y; cbn; split; [reflexivity|split; [exact Ef|lia]]|].
        apply E in H as (n & y0 & A & B & C). exists (S n), y0. auto.
      * intros ([|n] & y0 & A & B & C); [left; cbn in C; lia|right; apply E; eauto].
    + split.
      * intros H. apply E in H as (n & y0 & A & B & C). exists (S n), y0. auto.
      * intros ([|n] & y0 & A & B & C); [cbn in A; injection A as <-; congruence|apply E; eauto].
Qed.

Lemma tm_filter_filter {A} (f g : A -> bool) l : filter f (filter g l) = filter (fun x => g x && f x) l.
Proof. induction l as [|x r IH]; cbn; [reflexivity|]. destruct (g x); cbn; [destruct (f x); rewrite IH; reflexivity|exact IH]. Qed.
Lemma tm_filter_false {A} (l : list A) : filter (fun _ => false) l = [].
Proof. induction l; cbn; auto. Qed.
Lemma tm_filter_all {A} (f : A -> bool) l : (forall x, In x l -> f x = true) -> filter f l = l.
Proof. induction l as [|x r IH]; intros H; cbn; [reflexivity|]. rewrite (H x (or_introl eq_refl)), IH; [reflexivity|]. intros y Hy. apply H. right. exact Hy. Qed.
Lemma tm_filter_NoDup {A} (f : A -> bool) l : NoDup l -> NoDup (filter f l).
Proof.
  induction 1 as [|x r Hn Hd IH]; cbn; [constructor|]. destruct (f x); [constructor; [|exact IH]|exact IH].
  intros Hx. apply filter_In in Hx as [Hx _]. exact (Hn Hx).
Qed.
(* the first element of l that satisfies f *)
Lemma tm_filter_head (f : Z -> bool) i r : forall l, filter f l = i :: r ->
  exists pre post, l = pre ++ i :: post /\ (forall y, In y pre -> f y = false) /\ f i = true /\ filter f post = r.
Proof.
  induction l as [|y l IH]; cbn; intros H; [discriminate|]. destruct (f y) eqn:Ef.
  - injection H as -> Hr. exists [], l. cbn. split; [reflexivity|]. split; [intros ? []|auto].
  - destruct (IH H) as (pre & post & -> & A & B & C). exists (y :: pre), post. split; [reflexivity|]. split; [|auto].
    intros z [<-|Hz]; [exact Ef|apply A; exact Hz].
Qed.

(* the order without customer i *)
Definition delZ (i : Z) (l : list Z) : list Z := filter (fun y => negb (y =? i)) l.
Lemma delZ_In i l y : In y (delZ i l) <-> In y l /\ y <> i.
Proof. unfold delZ. rewrite filter_In, negb_true_iff, Z.eqb_neq. reflexivity. Qed.
Lemma delZ_notin i l : ~ In i l -> delZ i l = l.
Proof. intros H. apply tm_filter_all. intros y Hy. apply negb_true_iff, Z.eqb_neq. intros ->. exact (H Hy). Qed.
Lemma delZ_split i pre post : ~ In i pre -> ~ In i post -> delZ i (pre ++ i :: post) = pre ++ post.
Proof.
  intros H1 H2. unfold delZ. rewrite filter_app. cbn [filter]. rewrite Z.eqb_refl. cbn [negb].
  fold (delZ i pre). fold (delZ i post). rewrite !delZ_notin by assumption. reflexivity.
Qed.
Lemma tm_NoDup_mid (i : Z) pre post : NoDup (pre ++ i :: post) -> ~ In i pre /\ ~ In i post /\ NoDup (pre ++ post).
Proof.
  intros H. pose proof (NoDup_remove_1 _ _ _ H) as H1. pose proof (NoDup_remove_2 _ _ _ H) as H2.
  split; [intros Hx; apply H2, in_or_app; auto|]. split; [intros Hx; apply H2, in_or_app; auto|exact H1].
Qed.

(* ---------- vectors and matrices generated over the node identifiers 1..N ---------- *)
Lemma tm_nth_zseq {B} (f : Z -> B) : forall n st m, (m < n)%nat -> nth_error (map f (zseq st n)) m = Some (f (st + Z.of_nat m)).
Proof.
  induction n as [|n IH]; intros st m Hm; [lia|]. cbn [zseq map]. destruct m as [|m]; cbn [nth_error].
  - f_equal. f_equal. lia.
  - rewrite IH by lia. f_equal. f_equal. lia.
Qed.
Lemma tm_upd_zseq {B} (f : Z -> B) x : forall n st m,
  upd (map f (zseq st n)) m x = map (fun a => if a =? st + Z.of_nat m then x else f a) (zseq st n).
Proof.
  induction n as [|n IH]; intros st m; [destruct m; reflexivity|]. cbn [zseq map]. destruct m as [|m]; cbn [upd].
  - replace (st + Z.of_nat 0) with st by lia. rewrite Z.eqb_refl. f_equal. apply map_ext_in. intros a Ha. apply zseq_In in Ha.
    destruct (Z.eqb_spec a st); [lia|reflexivity].
  - rewrite IH. destruct (Z.eqb_spec st (st + Z.of_nat (S m))); [lia|]. f_equal. apply map_ext. intros a.
    replace (st + 1 + Z.of_nat m) with (st + Z.of_nat (S m)) by lia. reflexivity.
Qed.
Lemma tm_nthZ_gen {B} (f : Z -> B) N k : 1 <= k <= Z.of_nat N -> nthZ (map f (zseq 1 N)) (k - 1) = Some (f k).
Proof.
  intros Hk. unfold nthZ. destruct (k - 1 <? 0) eqn:E; [apply Z.ltb_lt in E; lia|]. rewrite tm_nth_zseq by lia. f_equal. f_equal. lia.
Qed.
Lemma tm_updZ_gen {B} (f : Z -> B) N k x : 1 <= k -> updZ (map f (zseq 1 N)) (k - 1) x = map (fun a => if a =? k then x else f a) (zseq 1 N).
Proof.
  intros Hk. unfold updZ. destruct (k - 1 <? 0) eqn:E; [apply Z.ltb_lt in E; lia|]. rewrite tm_upd_zseq. apply map_ext. intros a.
  replace (1 + Z.of_nat (Z.to_nat (k - 1))) with k by lia. reflexivity.
Qed.

Definition gmat {B} (N : nat) (F : Z -> Z -> B) : list (list B) := map (fun a => map (fun b => F a b) (zseq 1 N)) (zseq 1 N).
Lemma gmat_ext {B} N (F G : Z -> Z -> B) :
  (forall a b, 1 <= a <= Z.of_nat N -> 1 <= b <= Z.of_nat N -> F a b = G a b) -> gmat N F = gmat N G.
Proof.
  intros H. unfold gmat. apply map_ext_in. intros a Ha. apply map_ext_in. intros b Hb. apply zseq_In in Ha, Hb. apply H; lia.
Qed.
Lemma gmat_map {B C} (g : B -> C) N (F : Z -> Z -> B) : map (map g) (gmat N F) = gmat N (fun a b => g (F a b)).
Proof. unfold gmat. rewrite map_map. apply map_ext. intros a. rewrite map_map. reflexivity. Qed.
Lemma gmat_cell {B} N (F : Z -> Z -> B) j d : 1 <= j <= Z.of_nat N -> 1 <= d <= Z.of_nat N ->
  nthZ (gmat N F) (j - 1) = Some (map (fun b => F j b) (zseq 1 N)) /\ nthZ (map (fun b => F j b) (zseq 1 N)) (d - 1) = Some (F j d).
Proof. intros Hj Hd. split; [apply (tm_nthZ_gen (fun a => map (fun b => F a b) (zseq 1 N))); exact Hj|apply (tm_nthZ_gen (fun b => F j b)); exact Hd]. Qed.
Lemma gmat_upd {B} N (F : Z -> Z -> B) j d x : 1 <= j -> 1 <= d ->
  updZ (gmat N F) (j - 1) (updZ (map (fun b => F j b) (zseq 1 N)) (d - 1) x) = gmat N (fun a b => if (a =? j) && (b =? d) then x else F a b).
Proof.
  intros Hj Hd. unfold gmat. rewrite (tm_updZ_gen (fun a => map (fun b => F a b) (zseq 1 N))) by exact Hj.
  apply map_ext. intros a. destruct (a =? j) eqn:E.
  - apply Z.eqb_eq in E. subst a. rewrite (tm_updZ_gen (fun b => F j b)) by exact Hd. reflexivity.
  - reflexivity.
Qed.

(* ====================================================================================================================
   1. MatrixBlocking: the tracker's state and Python's incremental updates; the ghost order
   ==================================================================================================================== *)
(* (state[0], increment): the matrix of lists of order numbers, and the next number to give *)
Definition mstate := (list (list (list Z)) * Z)%type.
(* state[0][j-1][d-1].append(increment) ; None = IndexError *)
Definition cell_push (m : list (list (list Z))) (j d x : Z) : option (list (list (list Z))) :=
  match nthZ m (j - 1) with
  | Some row => match nthZ row (d - 1) with
                | Some c => Some (updZ m (j - 1) (updZ row (d - 1) (c ++ [x])))
                | None => None end
  | None => None
  end.
(* position = state[0][j-1][d-1].pop(0) ; None = IndexError (no such cell, or pop from an empty list) *)
Definition cell_pop (m : list (list (list Z))) (j d : Z) : option (Z * list (list (list Z))) :=
  match nthZ m (j - 1) with
  | Some row => match nthZ row (d - 1) with
                | Some (p :: c) => Some (p, updZ m (j - 1) (updZ row (d - 1) c))
                | _ => None end
  | None => None
  end.
(* adjust_positions(position): every number > position goes down by one *)
Definition adjust (p : Z) (m : list (list (list Z))) : list (list (list Z)) :=
  map (map (map (fun z => if p <? z then z - 1 else z))) m.

Definition mbm_step (st : mstate) (c : call) : option mstate :=
  let '(m, inc) := st in
  match c with
  | Blk j d _ _ => match cell_push m j d inc with Some m' => Some (m', inc + 1) | None => None end
  | Rel j d _ _ true => match cell_pop m j d with Some (p, m') => Some (adjust p m', inc - 1) | None => None end
  | _ => Some (m, inc)
  end.
(* the whole tracker: (matrix, populations, increment); the populations move as NodePopulation's (TrackerInc.np_step):
   accept +1, release -1 (in both branches of change_state_release), block nothing *)
Definition mbstate := (list (list (list Z)) * list Z * Z)%type.
Definition mb_step (st : mbstate) (c : call) : option mbstate :=
  let '(m, pops, inc) := st in
  match np_step pops c, mbm_step (m, inc) c with
  | Some pops', Some (m', inc') => Some (m', pops', inc')
  | _, _ => None
  end.

(* the ghost order: Blk appends the customer, a release of a blocked customer removes it *)
Definition ord_step (ord : list Z) (c : call) : list Z :=
  match c with
  | Blk _ _ i _ => ord ++ [i]
  | Rel _ _ i _ true => delZ i ord
  | _ => ord
  end.
Definition ord_run (cs : list call) (ord : list Z) : list Z := fold_left ord_step cs ord.
Lemma ord_run_app a b ord : ord_run (a ++ b) ord = ord_run b (ord_run a ord).
Proof. apply fold_left_app. Qed.

Lemma orun_app {St} (step : St -> call -> option St) a b st :
  orun step (a ++ b) st = match orun step a st with Some st' => orun step b st' | None => None end.
Proof. revert st; induction a as [|c a IH]; intros st; cbn [app orun]; [reflexivity|]. destruct (step st c); [apply IH|reflexivity]. Qed.
(* the tracker is the product of its matrix part and its population part *)
Lemma mb_orun cs : forall m pops inc m' pops' inc',
  orun mbm_step cs (m, inc) = Some (m', inc') -> orun np_step cs pops = Some pops' -> orun mb_step cs (m, pops, inc) = Some (m', pops', inc').
Proof.
  induction cs as [|c r IH]; intros m pops inc m' pops' inc' H1 H2; cbn [orun] in *.
  - injection H1 as <- <-. injection H2 as <-. reflexivity.
  - destruct (mbm_step (m, inc) c) as [[m1 inc1]|] eqn:E1; [|discriminate]. destruct (np_step pops c) as [pops1|] eqn:E2; [|discriminate].
    unfold mb_step. rewrite E2, E1. apply IH; assumption.
Qed.

(* ====================================================================================================================
   2. Pure part: blocked-queue views, what a call does to a view, the invariant on (view, order), Python follows
   ==================================================================================================================== *)
Definition qf := Z -> list (Z * Z).                 (* destination d |-> its blocked queue [(from, customer); ...] *)
Definition qset (q : qf) (d : Z) (l : list (Z * Z)) : qf := fun d' => if d' =? d then l else q d'.
Definition qeq (q q' : qf) : Prop := forall d, q' d = q d.
Lemma qeq_refl q : qeq q q. Proof. intros d. reflexivity. Qed.
Lemma qeq_trans a b c : qeq a b -> qeq b c -> qeq a c.
Proof. intros H1 H2 d. rewrite H2. apply H1. Qed.
Lemma qeq_sym a b : qeq a b -> qeq b a.
Proof. intros H d. symmetry. apply H. Qed.

(* customer y of node a is in the blocked queue of b *)
Definition inq (q : qf) (a b y : Z) : bool := existsb (fun e => (fst e =? a) && (snd e =? y)) (q b).
Lemma inq_In q a b y : inq q a b y = true <-> In (a, y) (q b).
Proof.
  unfold inq. rewrite existsb_exists. split.
  - intros ([f z] & Hin & E). apply andb_true_iff in E as [E1 E2]. apply Z.eqb_eq in E1, E2. cbn in E1, E2. rewrite <- E1, <- E2. exact Hin.
  - intros H. exists (a, y). split; [exact H|]. cbn. rewrite !Z.eqb_refl. reflexivity.
Qed.
Lemma inq_false q a b y : inq q a b y = false <-> ~ In (a, y) (q b).
Proof. rewrite <- inq_In. destruct (inq q a b y); split; congruence. Qed.

(* the matrix of a view w.r.t. an order: cell (a, b) = positions in ord of the customers of a in the blocked queue of b *)
Definition mbq (N : nat) (q : qf) (ord : list Z) : list (list (list Z)) := gmat N (fun a b => cellF (inq q a b) 1 ord).
Lemma mbq_qeq N q q' ord : qeq q q' -> mbq N q' ord = mbq N q ord.
Proof. intros H. unfold mbq. apply gmat_ext. intros a b _ _. apply cellF_ext. intros y _. unfold inq. rewrite H. reflexivity. Qed.

(* what one tracker call says about the blocked queues (N = number of nodes) *)
Definition AR (N : nat) (c : call) (q q' : qf) : Prop :=
  match c with
  | Blk j d i _ => 1 <= j <= Z.of_nat N /\ 1 <= d <= Z.of_nat N /\ (forall d' f, ~ In (f, i) (q d')) /\ qeq (qset q d (q d ++ [(j, i)])) q'
  | Rel j d i _ true => exists rest, q d = (j, i) :: rest /\ qeq (qset q d rest) q'
  | _ => qeq q q'
  end.
Fixpoint ARs (N : nat) (cs : list call) (q q' : qf) : Prop :=
  match cs with [] => qeq q q' | c :: r => exists q1, AR N c q q1 /\ ARs N r q1 q' end.
Lemma ARs_app N a : forall b q q1 q2, ARs N a q q1 -> ARs N b q1 q2 -> ARs N (a ++ b) q q2.
Proof.
  induction a as [|c a IH]; intros b q q1 q2 H1 H2; cbn [app ARs] in *.
  - revert q1 H1 H2. induction b as [|c b IHb]; intros q1 H1 H2; cbn [ARs] in *; [eapply qeq_trans; eauto|].
    destruct H2 as (q3 & A & B). exists q3. split; [|exact B].
    destruct c as [j c0|j d i pc|j d i pc [|]|j pc c0]; cbn [AR] in *; try (eapply qeq_trans; eauto).
    + destruct A as (A1 & A2 & A3 & A4). split; [exact A1|]. split; [exact A2|]. split.
      * intros d' f. rewrite <- (H1 d'). apply A3.
      * intros d'. rewrite (A4 d'). unfold qset. rewrite !H1. reflexivity.
    + destruct A as (rest & A1 & A2). exists rest. split; [rewrite <- (H1 d); exact A1|].
      intros d'. rewrite (A2 d'). unfold qset. destruct (d' =? d); [reflexivity|apply H1].
  - destruct H1 as (q3 & A & B). exists q3. split; [exact A|eapply IH; eauto].
Qed.
Lemma ARs_qeq_r N cs : forall q q1 q2, ARs N cs q q1 -> qeq q1 q2 -> ARs N cs q q2.
Proof. intros q q1 q2 H1 H2. rewrite <- (app_nil_r cs). eapply ARs_app; [exact H1|exact H2]. Qed.
Lemma ARs_qeq_l N cs q0 q q' : qeq q0 q -> ARs N cs q q' -> ARs N cs q0 q'.
Proof. intros H1 H2. apply (ARs_app N [] cs q0 q q'); assumption. Qed.
Lemma ARs_one N c q q' : AR N c q q' -> ARs N [c] q q'.
Proof. intros H. exists q'. split; [exact H|apply qeq_refl]. Qed.

(* uniqueness: nobody is twice in a blocked queue, nobody is in two blocked queues *)
Definition Uq (q : qf) : Prop :=
  (forall d, NoDup (map snd (q d))) /\ (forall d d' f f' y, In (f, y) (q d) -> In (f', y) (q d') -> d = d').
(* the invariant on (view, order) *)
Record PI (N : nat) (q : qf) (ord : list Z) : Prop := mkPI {
  p_nd : NoDup ord;
  p_sub : forall d, map snd (q d) = filter (fun y => memZ y (map snd (q d))) ord;     (* q d is in the order of ord *)
  p_all : forall y, In y ord -> exists d f, In (f, y) (q d);
  p_uq : Uq q;
  p_rng : forall d f y, In (f, y) (q d) -> 1 <= d <= Z.of_nat N /\ 1 <= f <= Z.of_nat N
}.
Lemma In_snd (l : list (Z * Z)) f y : In (f, y) l -> In y (map snd l).
Proof. intros H. apply in_map_iff. exists (f, y). auto. Qed.
Lemma PI_in_ord N q ord d f y : PI N q ord -> In (f, y) (q d) -> In y ord.
Proof. intros HP H. apply In_snd in H. rewrite (p_sub _ _ _ HP d) in H. apply filter_In in H. tauto. Qed.
Lemma PI_qeq N q q' ord : qeq q q' -> PI N q ord -> PI N q' ord.
Proof.
  intros H [A B C [D1 D2] E]. constructor; [exact A| | | |].
  - intros d. rewrite H. apply B.
  - intros y Hy. destruct (C y Hy) as (d & f & Hin). exists d, f. rewrite H. exact Hin.
  - split; [intros d; rewrite H; apply D1|]. intros d d' f f' y. rewrite !H. apply D2.
  - intros d f y. rewrite H. apply E.
Qed.

Lemma inq_push q d j i a b y : inq (qset q d (q d ++ [(j, i)])) a b y = inq q a b y || ((b =? d) && (j =? a) && (i =? y)).
Proof.
  unfold inq, qset. destruct (Z.eqb_spec b d) as [->|Hne]; cbn [andb].
  - rewrite existsb_app. cbn. rewrite orb_false_r. reflexivity.
  - rewrite orb_false_r. reflexivity.
Qed.
Lemma inq_pop q d j i rest a b y : q d = (j, i) :: rest -> y <> i -> inq (qset q d rest) a b y = inq q a b y.
Proof.
  intros Hq Hy. unfold inq, qset. destruct (Z.eqb_spec b d) as [->|Hne]; [|reflexivity].
  rewrite Hq. cbn. destruct (Z.eqb_spec i y); [congruence|]. rewrite andb_false_r. reflexivity.
Qed.

(* ---------- change_state_block ---------- *)
Lemma AR_blk N q q' ord j d i pc : PI N q ord -> AR N (Blk j d i pc) q q' ->
  PI N q' (ord ++ [i]) /\
  mbm_step (mbq N q ord, zlen ord + 1) (Blk j d i pc) = Some (mbq N q' (ord ++ [i]), zlen (ord ++ [i]) + 1).
Proof.
  intros HP (Hj & Hd & Hno & Hq').
  assert (Hni : ~ In i ord) by (intros Hi; destruct (p_all _ _ _ HP i Hi) as (d0 & f0 & Hin); exact (Hno d0 f0 Hin)).
  set (q0 := qset q d (q d ++ [(j, i)])) in *.
  assert (Hmem : forall d', memZ i (map snd (q d')) = false).
  { intros d'. destruct (memZ i (map snd (q d'))) eqn:E; [|reflexivity]. apply memZ_In in E. apply in_map_iff in E as ([f z] & Ez & Hin).
    cbn in Ez. subst z. destruct (Hno d' f Hin). }
  assert (P0 : PI N q0 (ord ++ [i])).
  { destruct HP as [A B C [D1 D2] E]. constructor.
    - eapply Permutation_NoDup; [apply Permutation_cons_append|]. constructor; assumption.
    - intros d'. unfold q0, qset. rewrite filter_app. cbn [filter]. destruct (Z.eqb_spec d' d) as [->|Hne].
      + rewrite map_app. cbn [map snd]. rewrite (memZ_app i), orb_comm. cbn [memZ]. rewrite Z.eqb_refl. cbn [orb]. f_equal.
        rewrite (B d) at 1. apply filter_ext_in. intros y Hy. rewrite memZ_app. cbn [memZ].
        destruct (Z.eqb_spec y i) as [->|_]; [contradiction|]. rewrite !orb_false_r. reflexivity.
      + rewrite Hmem, app_nil_r. apply B.
    - intros y Hy. apply in_app_or in Hy as [Hy|[<-|[]]].
      + destruct (C y Hy) as (d0 & f0 & Hin). exists d0, f0. unfold q0, qset. destruct (d0 =? d) eqn:E0; [|exact Hin].
        apply Z.eqb_eq in E0. subst d0. apply in_or_app. left. exact Hin.
      + exists d, j. unfold q0, qset. rewrite Z.eqb_refl. apply in_or_app. right. left. reflexivity.
    - assert (Hin0 : forall d0 f y, In (f, y) (q0 d0) -> In (f, y) (q d0) \/ (d0 = d /\ f = j /\ y = i)).
      { intros d0 f y. unfold q0, qset. destruct (Z.eqb_spec d0 d) as [->|Hne]; [|auto]. intros H. apply in_app_or in H as [H|[H|[]]]; [auto|].
        injection H as <- <-. auto. }
      split.
      + intros d0. unfold q0, qset. destruct (Z.eqb_spec d0 d) as [->|Hne]; [|apply D1].
        rewrite map_app. cbn [map snd]. eapply Permutation_NoDup; [apply Permutation_cons_append|]. constructor; [|apply D1].
        intros Hx. apply memZ_In in Hx. rewrite Hmem in Hx. discriminate.
      + intros d1 d2 f1 f2 y H1 H2. destruct (Hin0 _ _ _ H1) as [H1'|(-> & -> & ->)], (Hin0 _ _ _ H2) as [H2'|(E1 & E2 & E3)].
        * eapply D2; eauto.
        * rewrite E3 in H1'. destruct (Hno _ _ H1').
        * destruct (Hno _ _ H2').
        * congruence.
    - intros d0 f y H. unfold q0, qset in H. destruct (Z.eqb_spec d0 d) as [->|Hne]; [|eapply E; eauto].
      apply in_app_or in H as [H|[H|[]]]; [eapply E; eauto|]. injection H as <- <-. auto. }
  split; [eapply PI_qeq; eauto|]. rewrite (mbq_qeq N q0 q' _ Hq').
  cbn [mbm_step]. unfold cell_push, mbq.
  destruct (gmat_cell N (fun a b => cellF (inq q a b) 1 ord) j d Hj Hd) as [E1 E2]. rewrite E1, E2.
  rewrite gmat_upd by lia. f_equal. f_equal; [|unfold zlen; rewrite app_length; cbn [length]; lia].
  apply gmat_ext. intros a b _ _. rewrite cellF_app.
  assert (Ea : cellF (inq q0 a b) 1 ord = cellF (inq q a b) 1 ord).
  { apply cellF_ext. intros y Hy. unfold q0. rewrite inq_push. destruct (Z.eqb_spec i y) as [->|_]; [contradiction|].
    rewrite andb_false_r, orb_false_r. reflexivity. }
  rewrite Ea. cbn [cellF]. unfold q0. rewrite inq_push, Z.eqb_refl, andb_true_r.
  assert (Ei : inq q a b i = false) by (apply inq_false; apply Hno). rewrite Ei. cbn [orb].
  rewrite (Z.eqb_sym j a), andb_comm. destruct (Z.eqb_spec a j) as [->|_], (Z.eqb_spec b d) as [->|_]; cbn [andb];
    try (rewrite app_nil_r; reflexivity). f_equal. f_equal. lia.
Qed.

(* ---------- change_state_release(blocked = True) ---------- *)
Lemma adj_lo p l : (forall z, In z l -> z <= p) -> map (fun z => if p <? z then z - 1 else z) l = l.
Proof.
  intros H. rewrite <- (map_id l) at 2. apply map_ext_in. intros z Hz. specialize (H z Hz). destruct (Z.ltb_spec p z); [lia|reflexivity].
Qed.
Lemma adj_hi p l : (forall z, In z l -> p < z) -> map (fun z => if p <? z then z - 1 else z) l = map (fun z => z - 1) l.
Proof. intros H. apply map_ext_in. intros z Hz. specialize (H z Hz). destruct (Z.ltb_spec p z); [reflexivity|lia]. Qed.
Lemma tm_filter_none {A} (f : A -> bool) l : (forall x, In x l -> f x = false) -> filter f l = [].
Proof. intros H. rewrite (filter_ext_in f (fun _ => false) l H). apply tm_filter_false. Qed.

Lemma AR_rel N q q' ord j d i pc : PI N q ord -> AR N (Rel j d i pc true) q q' ->
  PI N q' (delZ i ord) /\
  mbm_step (mbq N q ord, zlen ord + 1) (Rel j d i pc true) = Some (mbq N q' (delZ i ord), zlen (delZ i ord) + 1).
Proof.
  intros HP (rest & Hq & Hq'). set (q0 := qset q d rest) in *.
  pose proof (p_sub _ _ _ HP d) as Hsubd. rewrite Hq in Hsubd. cbn [map snd] in Hsubd. symmetry in Hsubd.
  destruct (tm_filter_head _ _ _ _ Hsubd) as (pre & post & Eord & Hpre & _ & Hpost).
  pose proof (p_nd _ _ _ HP) as Hnd. rewrite Eord in Hnd. destruct (tm_NoDup_mid _ _ _ Hnd) as (Hi1 & Hi2 & Hnd').
  assert (Edel : delZ i ord = pre ++ post) by (rewrite Eord; apply delZ_split; assumption).
  assert (Hndd : NoDup (i :: map snd rest)) by (pose proof (proj1 (p_uq _ _ _ HP) d) as X; rewrite Hq in X; exact X).
  assert (Hnir : ~ In i (map snd rest)) by (inversion Hndd; assumption).
  assert (Hji : In (j, i) (q d)) by (rewrite Hq; left; reflexivity).
  assert (Hone : forall a b, In (a, i) (q b) -> a = j /\ b = d).
  { intros a b H. assert (b = d) by (eapply (proj2 (p_uq _ _ _ HP)); eauto). subst b. split; [|reflexivity].
    rewrite Hq in H. destruct H as [H|H]; [congruence|]. destruct (Hnir (In_snd _ _ _ H)). }
  assert (Hsub : forall d0 f y, In (f, y) (q0 d0) -> In (f, y) (q d0)).
  { intros d0 f y. unfold q0, qset. destruct (Z.eqb_spec d0 d) as [->|_]; [|auto]. rewrite Hq. intros H. right. exact H. }
  assert (Hy_ne : forall y, In y (pre ++ post) -> y <> i).
  { intros y Hy ->. apply in_app_or in Hy as [Hy|Hy]; auto. }
  assert (P0 : PI N q0 (pre ++ post)).
  { constructor.
    - exact Hnd'.
    - intros d'. unfold q0, qset. rewrite filter_app. destruct (Z.eqb_spec d' d) as [->|Hne].
      + rewrite (tm_filter_none _ pre).
        * cbn [app]. rewrite <- Hpost at 1. apply filter_ext_in. intros y Hy. cbn [memZ].
          destruct (Z.eqb_spec y i) as [->|_]; [contradiction|reflexivity].
        * intros y Hy. specialize (Hpre y Hy). cbn [memZ] in Hpre. apply orb_false_iff in Hpre. tauto.
      + pose proof (p_sub _ _ _ HP d') as X. rewrite Eord, filter_app in X. cbn [filter] in X.
        destruct (memZ i (map snd (q d'))) eqn:Em; [|exact X].
        apply memZ_In in Em. apply in_map_iff in Em as ([f z] & Ez & Hin). cbn in Ez. subst z.
        destruct (Hone _ _ Hin) as [_ ->]. contradiction.
    - intros y Hy. pose proof (Hy_ne y Hy) as Hne. assert (Hyo : In y ord).
      { rewrite Eord. apply in_app_or in Hy as [Hy|Hy]; apply in_or_app; [left|right; right]; exact Hy. }
      destruct (p_all _ _ _ HP y Hyo) as (d0 & f0 & Hin). exists d0, f0. unfold q0, qset.
      destruct (Z.eqb_spec d0 d) as [->|_]; [|exact Hin]. rewrite Hq in Hin. destruct Hin as [Hin|Hin]; [congruence|exact Hin].
    - split.
      + intros d0. unfold q0, qset. destruct (Z.eqb_spec d0 d) as [->|_]; [inversion Hndd; assumption|apply (proj1 (p_uq _ _ _ HP))].
      + intros d1 d2 f1 f2 y H1 H2. eapply (proj2 (p_uq _ _ _ HP)); eauto.
    - intros d0 f y H. eapply (p_rng _ _ _ HP); eauto. }
  rewrite Edel. split; [eapply PI_qeq; eauto|]. rewrite (mbq_qeq N q0 q' _ Hq').
  destruct (p_rng _ _ _ HP d j i Hji) as [Hd Hj].
  set (p := 1 + zlen pre).
  assert (Hprej : forall y, In y pre -> inq q j d y = false).
  { intros y Hy. apply inq_false. intros Hin. apply In_snd in Hin. rewrite Hq in Hin. cbn [map snd] in Hin.
    apply memZ_In in Hin. rewrite (Hpre y Hy) in Hin. discriminate. }
  assert (Ecell : cellF (inq q j d) 1 ord = p :: cellF (inq q j d) (p + 1) post).
  { rewrite Eord, cellF_app, (cellF_none _ pre) by exact Hprej. cbn [app cellF].
    rewrite (proj2 (inq_In q j d i) Hji). reflexivity. }
  cbn [mbm_step]. unfold cell_pop, mbq.
  destruct (gmat_cell N (fun a b => cellF (inq q a b) 1 ord) j d Hj Hd) as [E1 E2]. rewrite E1, E2, Ecell.
  rewrite gmat_upd by lia. unfold adjust. rewrite gmat_map. f_equal. f_equal; [|rewrite Eord; unfold zlen; rewrite !app_length; cbn [length]; lia].
  apply gmat_ext. intros a b _ _. rewrite cellF_app. fold p.
  assert (Ea : forall st l, (forall y, In y l -> In y (pre ++ post)) -> cellF (inq q0 a b) st l = cellF (inq q a b) st l).
  { intros st l Hl. apply cellF_ext. intros y Hy. unfold q0. apply (inq_pop q d j i rest a b y Hq). apply Hy_ne, Hl, Hy. }
  rewrite !Ea by (intros y Hy; apply in_or_app; auto).
  assert (Ehi : forall f, map (fun z => if p <? z then z - 1 else z) (cellF f (p + 1) post) = cellF f p post).
  { intros f. rewrite adj_hi; [apply cellF_shift|]. intros z Hz. apply cellF_bounds in Hz. lia. }
  destruct ((a =? j) && (b =? d)) eqn:Eab.
  - apply andb_true_iff in Eab as [Ea1 Eb1]. apply Z.eqb_eq in Ea1, Eb1. subst a b.
    rewrite (cellF_none _ pre) by exact Hprej. cbn [app]. apply Ehi.
  - assert (Ei : inq q a b i = false).
    { apply inq_false. intros Hin. destruct (Hone _ _ Hin) as [-> ->]. rewrite !Z.eqb_refl in Eab. discriminate. }
    rewrite Eord, cellF_app. fold p. cbn [cellF]. rewrite Ei, map_app, Ehi. f_equal.
    apply adj_lo. intros z Hz. apply cellF_bounds in Hz. unfold p. lia.
Qed.

(* ---------- every call; any list of calls ---------- *)
Lemma AR_sim N c q q' ord : PI N q ord -> AR N c q q' ->
  PI N q' (ord_step ord c) /\
  mbm_step (mbq N q ord, zlen ord + 1) c = Some (mbq N q' (ord_step ord c), zlen (ord_step ord c) + 1).
Proof.
  intros HP H.
  assert (Hid : qeq q q' -> PI N q' ord /\ Some (mbq N q ord, zlen ord + 1) = Some (mbq N q' ord, zlen ord + 1)).
  { intros He. split; [eapply PI_qeq; eauto|]. rewrite (mbq_qeq N q q' ord He). reflexivity. }
  destruct c as [j c0|j d i pc|j d i pc [|]|j pc c0]; cbn [ord_step]; try (apply Hid; exact H).
  - apply AR_blk; assumption.
  - apply AR_rel; assumption.
Qed.
Lemma ARs_sim N cs : forall q q' ord, PI N q ord -> ARs N cs q q' ->
  PI N q' (ord_run cs ord) /\
  orun mbm_step cs (mbq N q ord, zlen ord + 1) = Some (mbq N q' (ord_run cs ord), zlen (ord_run cs ord) + 1).
Proof.
  induction cs as [|c r IH]; intros q q' ord HP H; cbn [ARs ord_run fold_left orun] in *.
  - split; [eapply PI_qeq; eauto|]. rewrite (mbq_qeq N q q' ord H). reflexivity.
  - destruct H as (q1 & A & B). destruct (AR_sim N c q q1 ord HP A) as [P1 E1]. rewrite E1. apply IH; assumption.
Qed.

(* ====================================================================================================================
   3. Engine part: the engine functions move the blocked queues as their tracker calls say
   ==================================================================================================================== *)
(* ---------- actions that keep every blocked queue (under Idx: a node is written back into its own slot) ---------- *)
Definition bqview (nd : node) : Z * list (Z * Z) := (n_id nd, n_bq nd).
Definition BQ (s : sim) : list (Z * list (Z * Z)) := map bqview (nodes s).
Definition bqf (s : sim) : qf := fun d => match nodeZ s d with Some nd => n_bq nd | None => [] end.

Lemma BQ_nth s s' k : BQ s' = BQ s -> option_map bqview (nth_error (nodes s') k) = option_map bqview (nth_error (nodes s) k).
Proof. intros H. unfold BQ in H. rewrite <- !nth_error_map, H. reflexivity. Qed.
Lemma BQ_nodeZ s s' j : BQ s' = BQ s -> option_map bqview (nodeZ s' j) = option_map bqview (nodeZ s j).
Proof. intros H. unfold nodeZ, nthZ. destruct (j - 1 <? 0); [reflexivity|]. apply BQ_nth. exact H. Qed.
Lemma bqf_BQ s s' : BQ s' = BQ s -> qeq (bqf s) (bqf s').
Proof.
  intros H d. unfold bqf. pose proof (BQ_nodeZ s s' d H) as E.
  destruct (nodeZ s' d) as [a|], (nodeZ s d) as [b|]; cbn in E; try discriminate; [|reflexivity]. injection E as _ E. exact E.
Qed.
Lemma Idx_BQ s s' : BQ s' = BQ s -> Idx s -> Idx s'.
Proof.
  intros H HI k nd Hk. pose proof (BQ_nth s s' k H) as E. rewrite Hk in E. cbn in E.
  destruct (nth_error (nodes s) k) as [nd0|] eqn:E0; [|discriminate]. cbn in E. injection E as E _.
  specialize (HI _ _ E0). congruence.
Qed.
Lemma BQ_len s s' : BQ s' = BQ s -> length (nodes s') = length (nodes s).
Proof. intros H. unfold BQ in H. apply (f_equal (@length _)) in H. rewrite !map_length in H. exact H. Qed.
Lemma BQ_of_BV s s' : BV s' = BV s -> BQ s' = BQ s.
Proof.
  intros H. unfold BQ. assert (E : forall l, map bqview l = map (fun b : Z * nview => (fst b, snd (fst (snd b)))) (map bview l)).
  { intros l. rewrite map_map. reflexivity. }
  rewrite !E. unfold BV in H. rewrite H. reflexivity.
Qed.

Definition bqk {A} (m : M A) : Prop := forall s a s', Idx s -> m s = Ok (a, s') -> BQ s' = BQ s.
Definition bqkN {A} (j : Z) (b : Z * list (Z * Z)) (m : M A) : Prop :=
  forall s a s', Idx s -> (exists nd0, nthZ (nodes s) (j - 1) = Some nd0 /\ bqview nd0 = b) -> m s = Ok (a, s') -> BQ s' = BQ s.
Lemma bqk_keepI {A} (m : M A) : keepI m -> bqk m.
Proof. intros Hm s a s' HI H. apply BQ_of_BV. eapply Hm; eauto. Qed.
Lemma bqk_bind {A B} (m : M A) (f : A -> M B) : bqk m -> (forall a, bqk (f a)) -> bqk (bind m f).
Proof.
  intros Hm Hf s b s' HI H. unfold bind in H. destruct (m s) as [[a s1]| |] eqn:E; try discriminate.
  pose proof (Hm _ _ _ HI E) as E1. rewrite (Hf a _ _ _ (Idx_BQ _ _ E1 HI) H). exact E1.
Qed.
Lemma bqkN_of_bqk {A} j b (m : M A) : bqk m -> bqkN j b m.
Proof. intros Hm s a s' HI _ H. eapply Hm; eauto. Qed.
Lemma bqkN_bind {A B} j b (m : M A) (f : A -> M B) : bqkN j b m -> (forall a, bqkN j b (f a)) -> bqkN j b (bind m f).
Proof.
  intros Hm Hf s c s' HI Hn H. unfold bind in H. destruct (m s) as [[a s1]| |] eqn:E; try discriminate.
  pose proof (Hm _ _ _ HI Hn E) as E1.
  assert (Hn1 : exists nd1, nthZ (nodes s1) (j - 1) = Some nd1 /\ bqview nd1 = b).
  { destruct Hn as (nd0 & Hn0 & Hb). unfold nthZ in *. destruct (j - 1 <? 0); [discriminate|].
    pose proof (BQ_nth s s1 (Z.to_nat (j - 1)) E1) as E2. rewrite Hn0 in E2. cbn [option_map] in E2.
    destruct (nth_error (nodes s1) (Z.to_nat (j - 1))) as [nd1|]; [|discriminate]. cbn [option_map] in E2.
    exists nd1. split; [reflexivity|]. congruence. }
  rewrite (Hf a _ _ _ (Idx_BQ _ _ E1 HI) Hn1 H). exact E1.
Qed.
Lemma bqkN_put j b nd : bqview nd = b -> bqkN j b (put_node nd).
Proof.
  intros Hb s a s' HI (nd0 & Hn0 & Hb0) H. destruct a.
  assert (Hid : n_id nd = j).
  { pose proof (Idx_get _ _ _ HI Hn0) as E. rewrite <- Hb in Hb0. unfold bqview in Hb0. injection Hb0 as E1 _. congruence. }
  unfold put_node, modify in H. inversion H. subst s'. clear H. unfold BQ. cbn. rewrite Hid.
  unfold updZ, nthZ in *. destruct (j - 1 <? 0); [discriminate|]. rewrite upd_map. apply upd_same. rewrite nth_error_map, Hn0. cbn. f_equal. congruence.
Qed.
Lemma bqk_node_then {A} j (F : node -> M A) : (forall nd, bqkN j (bqview nd) (F nd)) -> bqk (nd <- get_node j ;; F nd).
Proof.
  intros HF s a s' HI H. unfold bind in H. destruct (get_node j s) as [[nd s1]| |] eqn:E; try discriminate.
  apply get_node_spec in E as [-> Hn]. eapply HF; [exact HI|exists nd; split; [exact Hn|reflexivity]|exact H].
Qed.

Ltac bq_leaf cf :=
  apply bqk_keepI;
  solve [ first [ apply keepI_ret | apply keepI_fail | apply keepI_gets | apply keepI_lift | apply keepI_get_node | apply keepI_get_ind
                | apply keepI_put_ind | apply keepI_del_ind | apply keepI_log_rec
                | apply keepI_draw_arr | apply keepI_draw_batch | apply keepI_draw_svc | apply keepI_draw_unif
                | (apply keepI_modify; intros; reflexivity)
                | apply bk_k_ncfg_of | apply bk_k_is_inf | apply bk_k_choice_uniform | apply bk_k_choice_weighted
                | apply bk_k_choose_next_customer | apply bk_k_start_service | apply bk_k_bsip_accept
                | apply bk_k_bsip_release | apply bk_k_exit_accept | apply bk_k_write_individual_record
                | apply bk_k_write_br_record | apply bk_k_sys_population | apply bk_k_update_next_event_date
                | apply bk_k_update_all | apply bk_k_find_next_event_date | apply bk_k_find_next_active_node ] ].
Ltac bq_step cf :=
  first
    [ match goal with
      | |- bqk (bind (get_node _) _) => apply bqk_node_then; intros
      | |- bqk (bind _ _) => apply bqk_bind; [|intros]
      | |- bqkN _ _ (bind (get_node _) _) => apply bqkN_of_bqk, bqk_node_then; intros
      | |- bqkN _ _ (bind _ _) => apply bqkN_bind; [|intros]
      | |- bqk (if ?b then _ else _) => destruct b
      | |- bqk (match ?x with _ => _ end) => destruct x
      | |- bqkN _ _ (if ?b then _ else _) => destruct b
      | |- bqkN _ _ (match ?x with _ => _ end) => destruct x
      | |- bqkN _ _ (put_node _) => apply bqkN_put; reflexivity
      | |- bqkN _ _ _ => apply bqkN_of_bqk
      end
    | bq_leaf cf ].

Section Parts.
  Variable cf : config.

  Lemma bqk_accept j x : bqk (accept cf j x).
  Proof. unfold accept. repeat bq_step cf. Qed.

  (* Node.release up to the landing of the customer (TrackerInc.rel_head without release_blocked_individual) ... *)
  Definition rel_body (j i d : Z) : M unit :=
    t <- gets now ;;
    x <- get_ind i ;;
    nd <- get_node j ;;
    q <- lift E_Remove (nthZ (n_queues nd) (i_pprio x)) ;;
    q' <- lift E_Remove (remove_first i q) ;;
    let nd1 := nd <| n_queues := updZ (n_queues nd) (i_pprio x) q' |> <| n_pop := n_pop nd - 1 |> <| n_insvc := n_insvc nd - 1 |> in
    put_node nd1 ;;;
    let x1 := x <| i_qd := Some (n_pop nd1) |> <| i_exit := Some t |> in
    put_ind x1 ;;;
    write_individual_record cf j x1 ;;;
    inf <- is_inf cf j ;;
    freed <- (if inf then ret None
              else sid <- lift E_NoServer (i_server x1) ;;
                   nd2 <- get_node j ;;
                   sv <- lift E_NoServer (find_server sid (n_servers nd2)) ;;
                   sstart <- lift E_NoServer (i_sst x1) ;;
                   put_node (nd2 <| n_servers := put_server_l (sv <| sv_cust := None |> <| sv_busy := false |>
                                                                  <| sv_busy_time := sv_busy_time sv - sv_wrapped sv + (t - sstart) |> <| sv_wrapped := 0 |> <| sv_total_time := Some t |>) (n_servers nd2) |>) ;;;
                   ret (Some sid)) ;;
    x2 <- get_ind i ;;
    let x3 := x2 <| i_server := (if inf then i_server x2 else None) |> <| i_arr := None |> <| i_stime := None |> <| i_sst := None |> <| i_send := None |>
                 <| i_exit := None |> <| i_qa := None |> <| i_qd := None |> <| i_dest := None |> in
    put_ind x3 ;;;
    begin_service_if_possible_release cf j freed ;;;
    (if d =? 0 then exit_accept x3 true else accept cf d x3).
  (* ... and release_blocked_individual of node j up to the recursive release: pops the head of the blocked queue *)
  Definition rel_pop (j : Z) : M (option (Z * Z)) :=
    nd3 <- get_node j ;;
    nc <- ncfg_of cf j ;;
    if (0 <? n_lenbq nd3) && (match nc_cap nc with None => true | Some cap => n_pop nd3 <? cap end) then
      match n_bq nd3 with
      | [] => fail E_Index
      | (from, y) :: rest =>
        fnd <- get_node from ;;
        (if memZ y (all_individuals fnd) then ret tt else fail E_Index) ;;;
        put_node (nd3 <| n_bq := rest |> <| n_lenbq := n_lenbq nd3 - 1 |>) ;;;
        ret (Some (from, y))
      end
    else ret None.
  Lemma rel_head_split j i d s : rel_head cf j i d s = bind (rel_body j i d) (fun _ => rel_pop j) s.
  Proof. unfold rel_head, rel_body, rel_pop. unf. Qed.

  Lemma bqk_rel_body j i d : bqk (rel_body j i d).
  Proof. unfold rel_body. repeat first [apply bqk_accept | bq_step cf]. Qed.
End Parts.

(* ---------- actions that change the attributes (blocked flag, classes) of customer i0 only ---------- *)
Definition kx {A} (i0 : Z) (m : M A) : Prop := forall s a s', m s = Ok (a, s') -> forall y, y <> i0 -> klook s' y = klook s y.
Lemma kx_calm {A} i0 (m : M A) : calm m -> kx i0 m.
Proof. intros Hm s a s' H y _. eapply Hm; eauto. Qed.
Lemma kx_bind {A B} i0 (m : M A) (f : A -> M B) : kx i0 m -> (forall a, kx i0 (f a)) -> kx i0 (bind m f).
Proof.
  intros Hm Hf s b s' H y Hy. unfold bind in H. destruct (m s) as [[a s1]| |] eqn:E; try discriminate.
  rewrite (Hf a _ _ _ H y Hy). eapply Hm; eauto.
Qed.
Lemma kx_put_ind i0 x : i_id x = i0 -> kx i0 (put_ind x).
Proof.
  intros Hid s a s' H y Hy. destruct a. destruct (bk_put_ind_spec _ _ _ H) as (Ei & _). unfold klook. rewrite Ei, find_put_other by congruence. reflexivity.
Qed.
Lemma kx_del_ind i0 : kx i0 (del_ind i0).
Proof. intros s a s' H y Hy. unfold del_ind, modify in H. inversion H. unfold klook. cbn. rewrite find_del_other by exact Hy. reflexivity. Qed.
Lemma kx_modify i0 (f : sim -> sim) : (forall s, inds (f s) = inds s) -> kx i0 (modify f).
Proof. intros Hf s a s' H y _. unfold modify in H. inversion H. unfold klook. rewrite Hf. reflexivity. Qed.
Lemma kx_get_ind_then {B} i0 i (F : ind -> M B) : (forall x, i_id x = i -> kx i0 (F x)) -> kx i0 (x <- get_ind i ;; F x).
Proof.
  intros HF s b s' H. unfold bind in H. destruct (get_ind i s) as [[x s1]| |] eqn:E; try discriminate.
  apply bk_get_ind_spec in E as [-> Hf]. exact (HF x (find_ind_id _ _ _ Hf) s b s' H).
Qed.

Ltac kx_step cf :=
  first
    [ match goal with
      | |- kx _ (bind (get_ind _) _) => apply kx_get_ind_then; intros
      | |- kx _ (bind _ _) => apply kx_bind; [|intros]
      | |- kx _ (if ?b then _ else _) => destruct b
      | |- kx _ (match ?x with _ => _ end) => destruct x
      | |- kx _ (put_ind _) => apply kx_put_ind; first [assumption | reflexivity]
      | |- kx _ (del_ind _) => apply kx_del_ind
      | |- kx _ (modify _) => apply kx_modify; intros; reflexivity
      end
    | apply kx_calm;
      first [ apply (calm_bsip_accept cf) | apply (calm_bsip_release cf) | apply calm_start_service | apply (calm_update_all cf)
            | solve [repeat cm_step] ] ].

Section Walk.
  Variable cf : config.

  Lemma kx_accept i0 j x : i_id x = i0 -> kx i0 (accept cf j x).
  Proof. intros Hid. unfold accept. repeat kx_step cf. Qed.
  Lemma kx_exit_accept i0 x c : i_id x = i0 -> kx i0 (exit_accept x c).
  Proof. intros <-. unfold exit_accept. repeat kx_step cf. Qed.
  Lemma kx_wir i0 j x : i_id x = i0 -> kx i0 (write_individual_record cf j x).
  Proof. intros Hid. unfold write_individual_record. repeat kx_step cf. Qed.
  Lemma kx_rel_body j i d : kx i (rel_body cf j i d).
  Proof.
    unfold rel_body.
    repeat first [ (apply kx_accept; first [assumption | reflexivity]) | (apply kx_exit_accept; first [assumption | reflexivity])
                 | (apply kx_wir; first [assumption | reflexivity]) | kx_step cf ].
  Qed.
End Walk.

Definition flag (s : sim) (y : Z) : bool := match klook s y with Some (b, _, _) => b | None => false end.
Definition nN (s : sim) : nat := length (nodes s).
Lemma bqf_at s j nd : nthZ (nodes s) (j - 1) = Some nd -> bqf s j = n_bq nd.
Proof. intros H. unfold bqf, nodeZ. rewrite H. reflexivity. Qed.
Lemma node_range s j nd : nthZ (nodes s) (j - 1) = Some nd -> 1 <= j <= Z.of_nat (nN s).
Proof. intros H. apply tk_nthZ_range in H. unfold nN. lia. Qed.
Lemma put_node_len nd s s' : put_node nd s = Ok (tt, s') -> nN s' = nN s.
Proof. intros H. unfold put_node, modify in H. inversion H. unfold nN. cbn. apply tk_updZ_length. Qed.

Section Walk2.
  Variable cf : config.

  (* release_blocked_individual: the head of the blocked queue of j is taken (or nothing happens) *)
  Lemma rel_pop_spec j s r s' : Idx s -> rel_pop cf j s = Ok (r, s') ->
    (forall y, klook s' y = klook s y) /\ Idx s' /\ nN s' = nN s /\
    match r with
    | None => qeq (bqf s) (bqf s')
    | Some (from, y) => exists rest, bqf s j = (from, y) :: rest /\ qeq (qset (bqf s) j rest) (bqf s')
    end.
  Proof.
    intros HI H. unfold rel_pop in H.
    mstep H.
    match goal with Hx : nthZ (nodes s) (j - 1) = Some ?ndx |- _ => rename ndx into nd3; rename Hx into Hn end.
    mstep H.
    match type of H with (if ?c then _ else _) _ = _ => destruct c end;
      [|apply tk_ret_spec in H as [-> ->]; split; [reflexivity|split; [exact HI|split; [reflexivity|apply qeq_refl]]]].
    destruct (n_bq nd3) as [|[from y] rest] eqn:Ebq; [discriminate|].
    mstep H. mstep H.
    match goal with E : (if ?b then ret tt else _) ?sa = Ok (_, ?sb) |- _ =>
      assert (Hsb : sb = sa) by (destruct b; [inversion E; reflexivity|discriminate E]); rewrite Hsb in *; clear E Hsb end.
    mstep H.
    match goal with E : put_node ?nd' s = Ok (?u, ?sa) |- _ => destruct u; rename sa into s1; rename E into Eput; set (nd4 := nd') in * end.
    apply tk_ret_spec in H as [-> ->].
    destruct (put_facts nd4 nd3 s s1 j HI Hn Eput eq_refl) as (Hput & Ei & _).
    split; [intros y0; unfold klook; rewrite Ei; reflexivity|].
    split; [eapply Idx_put; [exact Eput|exact HI|exists nd3; cbn; rewrite (Idx_get _ _ _ HI Hn); exact Hn]|].
    split; [eapply put_node_len; eauto|].
    exists rest. split; [rewrite (bqf_at _ _ _ Hn); exact Ebq|].
    intros d0. unfold bqf, qset. rewrite Hput. destruct (d0 =? j); reflexivity.
  Qed.

  (* block_individual: the customer joins the end of the blocked queue of d *)
  Lemma block_spec j i d s s' : Idx s -> block_individual j i d s = Ok (tt, s') ->
    1 <= d <= Z.of_nat (nN s) /\ qeq (qset (bqf s) d (bqf s d ++ [(j, i)])) (bqf s').
  Proof.
    intros HI H. unfold block_individual in H.
    mstep H. mstep H.
    match goal with E : put_ind _ s = Ok (?u, ?sa) |- _ => destruct u; destruct (bk_put_ind_spec _ _ _ E) as (_ & En & _ & Esh); rename sa into s0; clear E end.
    assert (I0 : Idx s0) by (eapply Idx_shape; eauto).
    mstep H.
    match goal with Hx : nthZ (nodes s0) (d - 1) = Some ?ndx |- _ => rename ndx into dn; rename Hx into Hn end.
    match type of H with put_node ?nd' s0 = _ => destruct (put_facts nd' dn s0 s' d I0 Hn H eq_refl) as (Hput & _) end.
    split; [pose proof (node_range _ _ _ Hn) as R; unfold nN in *; rewrite En in R; exact R|].
    intros d0. unfold bqf, qset. rewrite Hput. unfold nodeZ. rewrite <- En. fold (nodeZ s0 d0). fold (nodeZ s0 d).
    destruct (Z.eqb_spec d0 d) as [->|_]; [|reflexivity]. unfold nodeZ. rewrite Hn. reflexivity.
  Qed.
End Walk2.

Lemma flag_inds s s' : inds s' = inds s -> forall y, flag s' y = flag s y.
Proof. intros E y. unfold flag, klook. rewrite E. reflexivity. Qed.
Lemma flag_klook s s' y : klook s' y = klook s y -> flag s' y = flag s y.
Proof. intros E. unfold flag. rewrite E. reflexivity. Qed.
Lemma flag_find s y x : find_ind y (inds s) = Some x -> flag s y = i_blocked x.
Proof. intros H. unfold flag, klook. rewrite H. reflexivity. Qed.

Section Walk3.
  Variable cf : config.

  Lemma bqk_fs_head j : bqk (fs_head cf j).
  Proof. unfold fs_head. repeat bq_step cf. Qed.

  (* finish_service up to the decision: no blocked flag changes; the customer picked is not flagged *)
  Lemma fs_head_flags j s i d sp s1 : NextOk s -> fs_head cf j s = Ok ((i, d, sp), s1) ->
    (forall y, flag s1 y = flag s y) /\ flag s i = false /\ exists nd, nthZ (nodes s) (j - 1) = Some nd.
  Proof.
    intros HN H. unfold fs_head in H.
    mstep H.
    match goal with Hx : nthZ (nodes s) (j - 1) = Some ?ndx |- _ => rename ndx into nd; rename Hx into Hn end.
    mstep H.
    match goal with E : _ s = Ok (?ii, ?sa) |- _ => rename ii into i0; rename sa into sA; rename E into Epick end.
    pose proof (pick_In _ _ _ _ Epick) as Hi.
    destruct (HN j nd i0 Hn Hi) as (_ & x0 & Hx0 & Hb0).
    assert (EiA : inds sA = inds s).
    { match type of Epick with ?m s = _ => assert (Hq : quiet m) by (repeat first [apply q_choice_uniform | bk_q_step]) end.
      exact (proj1 (Hq _ _ _ Epick)). }
    clear Epick.
    mstep H.
    match goal with Hx : find_ind i0 (inds sA) = Some ?xx |- _ => rename xx into x; rename Hx into Hf end.
    assert (x = x0) by (rewrite EiA in Hf; congruence). subst x0.
    pose proof (find_ind_id _ _ _ Hf) as Hid.
    mstep H.
    mstep H.
    match goal with E : _ sA = Ok (?xx, ?sa) |- _ => rename xx into x1; rename sa into sB; rename E into Ecc end.
    assert (CB : inds sB = inds sA /\ i_id x1 = i0 /\ i_blocked x1 = false).
    { revert Ecc.
      match goal with |- match nc_ccm ?ncx with _ => _ end _ = _ -> _ => destruct (nc_ccm ncx) as [m|]; intros Ecc end.
      - mstep Ecc. mstep Ecc.
        match goal with E : choice_weighted _ _ sA = Ok (_, ?sa) |- _ => pose proof (proj1 (q_choice_weighted _ _ _ _ _ E)) as EiB end.
        mstep Ecc. apply tk_ret_spec in Ecc as [-> ->]. cbn. auto.
      - apply tk_ret_spec in Ecc as [-> ->]. auto. }
    destruct CB as (EiB & Hid1 & Hb1). clear Ecc.
    mstep H. mstep H.
    mstep H.
    match goal with E : choice_weighted _ _ sB = Ok (?kk, ?sa) |- _ =>
      pose proof (proj1 (q_choice_weighted _ _ _ _ _ E)) as EiC; rename kk into k; rename sa into sC; clear E end.
    mstep H.
    match goal with E : put_ind ?x' sC = Ok (?u, ?sa) |- _ => destruct u; set (x2 := x') in *; rename sa into sD; rename E into Eput end.
    destruct (bk_put_ind_spec _ _ _ Eput) as (EiD & _).
    mstep H.
    mstep H.
    match goal with E : (if infb cf j then _ else _) sD = Ok (?u, ?sa) |- _ => destruct u; rename sa into sE; rename E into Esv end.
    assert (EiE : inds sE = inds sD).
    { revert Esv. destruct (infb cf j); intros Esv.
      - apply tk_ret_spec in Esv as [-> _]. reflexivity.
      - mstep Esv. mstep Esv. mstep Esv. unfold put_node, modify in Esv. inversion Esv. reflexivity. }
    clear Esv.
    mstep H.
    match goal with E : (if ?dz then ret true else _) sE = Ok (?spx, ?sb) |- _ =>
      assert (Hsb : sb = sE) by
        (revert E; destruct dz; intros E; [apply tk_ret_spec in E as [-> _]; reflexivity|mstep E; mstep E; apply tk_ret_spec in E as [-> _]; reflexivity]);
      rewrite Hsb in *; clear E Hsb end.
    apply tk_ret_spec in H as [-> Heq]. injection Heq as -> _ _.
    split; [|split; [rewrite (flag_find _ _ _ Hx0); exact Hb0|eauto]].
    intros y. unfold flag, klook. rewrite EiE, EiD, EiC, EiB, EiA.
    destruct (Z.eq_dec y i0) as [->|Hne].
    - rewrite <- Hid1 at 1. change (i_id x1) with (i_id x2). rewrite find_put_same, Hx0. cbn. rewrite Hb0. exact Hb1.
    - rewrite find_put_other; [reflexivity|]. change (i_id x2) with (i_id x1). congruence.
  Qed.
End Walk3.

(* ---------- the unblocking cascade ---------- *)
(* the view while customer y0 of node f0, popped from the blocked queue of d0, has not yet been released *)
Definition pushq (pend : option (Z * Z * Z)) (q : qf) : qf :=
  match pend with Some (d0, f0, y0) => qset q d0 ((f0, y0) :: q d0) | None => q end.
(* everybody in a blocked queue is flagged blocked, and is there once *)
Definition CI (fl : Z -> bool) (q : qf) : Prop := (forall d f y, In (f, y) (q d) -> fl y = true) /\ Uq q.
Definition subq (q0 q : qf) : Prop := forall d, exists pre, q d = pre ++ q0 d.

Lemma subq_In q0 q d f y : subq q0 q -> In (f, y) (q0 d) -> In (f, y) (q d).
Proof. intros H Hin. destruct (H d) as [pre E]. rewrite E. apply in_or_app. right. exact Hin. Qed.
Lemma subq_push pend q : subq q (pushq pend q).
Proof.
  intros d. destruct pend as [[[d0 f0] y0]|]; cbn [pushq]; [|exists []; reflexivity].
  unfold qset. destruct (Z.eqb_spec d d0) as [->|_]; [exists [(f0, y0)]|exists []]; reflexivity.
Qed.
Lemma CI_sub fl fl' q q0 : CI fl q -> subq q0 q -> (forall d f y, In (f, y) (q0 d) -> fl' y = fl y) -> CI fl' q0.
Proof.
  intros (HF & HU1 & HU2) Hs Hfl. split; [|split].
  - intros d f y Hin. rewrite (Hfl _ _ _ Hin). eapply HF. eapply subq_In; eauto.
  - intros d. destruct (Hs d) as [pre E]. specialize (HU1 d). rewrite E, map_app in HU1. eapply tk_NoDup_app_r; eauto.
  - intros d d' f f' y H1 H2. eapply HU2; eapply subq_In; eauto.
Qed.
Lemma CI_qeq fl q q' : qeq q q' -> CI fl q -> CI fl q'.
Proof.
  intros H (HF & HU1 & HU2). split; [|split].
  - intros d f y. rewrite H. apply HF.
  - intros d. rewrite H. apply HU1.
  - intros d d' f f' y. rewrite !H. apply HU2.
Qed.
(* the customer being released is in no blocked queue of the state *)
Lemma CI_released fl q pend j i d :
  CI fl (pushq pend q) -> match pend with None => fl i = false | Some p => p = (d, j, i) end -> forall d' f, ~ In (f, i) (q d').
Proof.
  intros (HF & HU1 & HU2) Hp d' f Hin. destruct pend as [[[d0 f0] y0]|]; cbn [pushq] in *.
  - injection Hp as -> -> ->.
    assert (Hhead : In (j, i) (qset q d ((j, i) :: q d) d)) by (unfold qset; rewrite Z.eqb_refl; left; reflexivity).
    assert (Hin' : In (f, i) (qset q d ((j, i) :: q d) d')).
    { unfold qset. destruct (d' =? d) eqn:E; [apply Z.eqb_eq in E; subst d'; right; exact Hin|exact Hin]. }
    assert (d = d') by (eapply HU2; eauto). subst d'.
    specialize (HU1 d). unfold qset in HU1. rewrite Z.eqb_refl in HU1. cbn [map snd] in HU1. inversion HU1 as [|? ? Hn _]. apply Hn. eapply In_snd; eauto.
  - rewrite (HF _ _ _ Hin) in Hp. discriminate.
Qed.

Section Cascade.
  Variable cf : config.

  Lemma rel_head_ar j i d s r sP pend N : Idx s -> N = nN s -> CI (flag s) (pushq pend (bqf s)) ->
    match pend with None => flag s i = false | Some p => p = (d, j, i) end ->
    rel_head cf j i d s = Ok (r, sP) ->
    exists x, find_ind i (inds s) = Some x /\
      ARs N (Rel j d i (i_pcls x) (i_blocked x) :: (if d =? 0 then [] else [Acc d (i_cls x)])) (pushq pend (bqf s)) (bqf s) /\
      Idx sP /\ nN sP = nN s /\
      match r with
      | None => qeq (bqf s) (bqf sP)
      | Some (from, y) => qeq (bqf s) (pushq (Some (j, from, y)) (bqf sP)) /\ CI (flag sP) (pushq (Some (j, from, y)) (bqf sP))
      end.
  Proof.
    intros HI HN HC Hp H. rewrite rel_head_split in H. unfold bind in H at 1.
    destruct (rel_body cf j i d s) as [[u sB]| |] eqn:Eb; [|discriminate H|discriminate H]. destruct u.
    assert (Hx : exists x, find_ind i (inds s) = Some x).
    { pose proof Eb as Eb'. unfold rel_body in Eb'. mstep Eb'. mstep Eb'. eauto. }
    destruct Hx as [x Hx]. exists x. split; [exact Hx|].
    pose proof (bqk_rel_body cf j i d s tt sB HI Eb) as EBQ.
    pose proof (kx_rel_body cf j i d s tt sB Eb) as Hkx.
    pose proof (Idx_BQ _ _ EBQ HI) as IB.
    destruct (rel_pop_spec cf j sB r sP IB H) as (Hk & IP & HNP & Hr).
    pose proof (CI_released _ _ _ _ _ _ HC Hp) as Hnot.
    split; [|split; [exact IP|split; [rewrite HNP; unfold nN; apply BQ_len; exact EBQ|]]].
    - (* the calls of this release *)
      exists (bqf s). split.
      + destruct pend as [[[d0 f0] y0]|]; cbn [pushq] in *.
        * injection Hp as -> -> ->.
          assert (Hb : i_blocked x = true).
          { rewrite <- (flag_find _ _ _ Hx). apply (proj1 HC d j i). unfold qset. rewrite Z.eqb_refl. left. reflexivity. }
          rewrite Hb. cbn [AR]. exists (bqf s d). split; [unfold qset; rewrite Z.eqb_refl; reflexivity|].
          intros d'. unfold qset. destruct (Z.eqb_spec d' d) as [->|_]; reflexivity.
        * rewrite (flag_find _ _ _ Hx) in Hp. rewrite Hp. cbn [AR]. apply qeq_refl.
      + destruct (d =? 0); [apply qeq_refl|]. apply ARs_one. cbn [AR]. apply qeq_refl.
    - (* the head of the blocked queue of j is taken *)
      pose proof (bqf_BQ _ _ EBQ) as EqB.
      assert (HCs : forall q0, qeq (bqf s) q0 -> CI (flag sP) q0).
      { intros q0 Hq0. apply (CI_qeq _ (bqf s) q0 Hq0). apply (CI_sub (flag s) (flag sP) _ _ HC (subq_push pend (bqf s))).
        intros d' f y Hin. assert (Hne : y <> i) by (intros ->; exact (Hnot _ _ Hin)).
        apply flag_klook. rewrite Hk. apply Hkx. exact Hne. }
      destruct r as [[from y]|].
      + destruct Hr as (rest & Hh & Ht).
        assert (Hq0 : qeq (bqf s) (pushq (Some (j, from, y)) (bqf sP))).
        { intros d'. cbn [pushq]. unfold qset. rewrite !Ht. unfold qset. rewrite Z.eqb_refl.
          destruct (Z.eqb_spec d' j) as [->|_]; [rewrite <- Hh; apply EqB|apply EqB]. }
        split; [exact Hq0|apply HCs; exact Hq0].
      + eapply qeq_trans; eauto.
  Qed.

  Lemma release_ar : forall f j i d s s' pend N, Idx s -> N = nN s -> CI (flag s) (pushq pend (bqf s)) ->
    match pend with None => flag s i = false | Some p => p = (d, j, i) end ->
    release cf f j i d s = Ok (tt, s') ->
    ARs N (calls_release cf f j i d s) (pushq pend (bqf s)) (bqf s').
  Proof.
    induction f as [|f IH]; intros j i d s s' pend N HI HN HC Hp H; [discriminate|].
    rewrite release_unfold in H. unfold bind in H at 1.
    destruct (rel_head cf j i d s) as [[r sP]| |] eqn:E; [|discriminate H|discriminate H].
    destruct (rel_head_ar j i d s r sP pend N HI HN HC Hp E) as (x & Hx & A1 & IP & HNP & Hr).
    cbn [calls_release]. rewrite Hx, E.
    destruct r as [[from y]|].
    - destruct Hr as (Hq0 & HCP).
      eapply ARs_app; [exact A1|]. eapply ARs_qeq_l; [exact Hq0|].
      apply (IH from y j sP s' (Some (j, from, y)) N IP); [congruence|exact HCP|reflexivity|exact H].
    - apply tk_ret_spec in H as [-> _]. rewrite app_nil_r. eapply ARs_qeq_r; eauto.
  Qed.
End Cascade.

(* ---------- arrivals: only change_state_accept is called, no blocked queue moves ---------- *)
Definition acc_only (c : call) : Prop := match c with Acc _ _ => True | _ => False end.
Lemma ARs_acc N cs : Forall acc_only cs -> forall q q', qeq q q' -> ARs N cs q q'.
Proof.
  induction 1 as [|c r Hc _ IH]; intros q q' Hq; cbn [ARs]; [exact Hq|].
  exists q. split; [destruct c; try destruct Hc; cbn [AR]; apply qeq_refl|apply IH; exact Hq].
Qed.

Section Events.
  Variable cf : config.

  Lemma bqk_release_individual j x : bqk (release_individual cf j x).
  Proof. unfold release_individual. repeat first [apply bqk_accept | bq_step cf]. Qed.
  Lemma bqk_batch_loop : forall n j c p, bqk (batch_loop cf n j c p).
  Proof. induction n as [|n IH]; intros j c p; cbn [batch_loop]; repeat first [apply bqk_release_individual | apply IH | bq_step cf]. Qed.
  Lemma bqk_arrival_have_event : bqk (arrival_have_event cf).
  Proof. unfold arrival_have_event. repeat first [apply bqk_batch_loop | bq_step cf]. Qed.

  Lemma calls_ri_acc j x s : Forall acc_only (calls_ri cf j x s).
  Proof. unfold calls_ri. destruct (ri_head cf j x s) as [[[|] s1]| |]; repeat constructor. Qed.
  Lemma calls_batch_acc : forall n j c p s, Forall acc_only (calls_batch cf n j c p s).
  Proof.
    induction n as [|n IH]; intros j c p s; cbn [calls_batch]; [constructor|]. cbv zeta.
    apply Forall_app. split; [apply calls_ri_acc|].
    match goal with |- Forall _ (match ?m with _ => _ end) => destruct m as [[u s2]| |]; [apply IH|constructor|constructor] end.
  Qed.
  Lemma calls_arrival_acc s : Forall acc_only (calls_arrival cf s).
  Proof.
    unfold calls_arrival. destruct (draw_batch s) as [[b s1]| |]; try constructor. destruct (b <? 0); [constructor|].
    destruct (nthZ (cf_prio cf) (a_next_cls (arr s))); [apply calls_batch_acc|constructor].
  Qed.

  (* ---------- finish_service: release with the cascade, or block ---------- *)
  Lemma CI_transfer fl fl' q q' : (forall y, fl' y = fl y) -> qeq q q' -> CI fl q -> CI fl' q'.
  Proof.
    intros Hfl Hq HC. apply (CI_qeq fl' q q' Hq). apply (CI_sub fl fl' q q HC); [intros d; exists []; reflexivity|].
    intros d f y _. apply Hfl.
  Qed.

  Lemma finish_service_ar j s s' : Idx s -> NextOk s -> CI (flag s) (bqf s) -> finish_service cf j s = Ok (tt, s') ->
    ARs (nN s) (calls_fs cf j s) (bqf s) (bqf s').
  Proof.
    intros HI HN HC H. rewrite finish_service_unfold in H. unfold bind in H at 1.
    destruct (fs_head cf j s) as [[[[i d] space] s1]| |] eqn:E; [|discriminate H|discriminate H].
    pose proof (bqk_fs_head cf j s _ s1 HI E) as EBQ.
    destruct (fs_head_flags cf j s i d space s1 HN E) as (Hfl & Hi0 & nd & Hn).
    pose proof (Idx_BQ _ _ EBQ HI) as I1. pose proof (bqf_BQ _ _ EBQ) as Eq1.
    assert (HN1 : nN s1 = nN s) by (unfold nN; apply BQ_len; exact EBQ).
    unfold calls_fs. rewrite E. destruct space.
    - mstep H. eapply ARs_qeq_l; [exact Eq1|].
      apply (release_ar cf _ j i d s1 s' None (nN s) I1); [congruence| |cbn; rewrite Hfl; exact Hi0|exact H].
      cbn [pushq]. eapply CI_transfer; [exact Hfl|exact Eq1|exact HC].
    - assert (Hx : exists x, find_ind i (inds s1) = Some x).
      { pose proof H as H'. unfold block_individual in H'. mstep H'. eauto. }
      destruct Hx as [x Hx]. rewrite Hx.
      destruct (block_spec j i d s1 s' I1 H) as (Hd & Hq).
      apply ARs_one. cbn [AR]. split; [exact (node_range _ _ _ Hn)|]. split; [rewrite <- HN1; exact Hd|]. split.
      + exact (CI_released (flag s) (bqf s) None j i d HC Hi0).
      + intros d0. rewrite (Hq d0). unfold qset. rewrite !Eq1. reflexivity.
  Qed.
End Events.

(* ---------- at event boundaries the cascade invariant follows from Blocking.Who ---------- *)
Lemma bqf_entry s d f y : In (f, y) (bqf s d) <-> entry s d f y.
Proof.
  unfold bqf, entry. destruct (nodeZ s d) as [nd|]; split.
  - intros H. exists nd. auto.
  - intros (nd' & E & H). injection E as <-. exact H.
  - intros [].
  - intros (nd' & E & _). discriminate.
Qed.
Lemma Who_CI cf s : Who cf s -> CI (flag s) (bqf s).
Proof.
  intros [[HW HWw] _]. split; [|split].
  - intros d f y Hin. apply bqf_entry in Hin. destruct (w_ent _ _ _ HWw d f y Hin) as (x & Hx & Hb & _).
    rewrite (flag_find _ _ _ Hx). exact Hb.
  - intros d. unfold bqf. destruct (nodeZ s d) as [nd|] eqn:En; [eapply (w_bqnd _ _ _ HWw); eauto|constructor].
  - intros d d' f f' y H1 H2. apply bqf_entry in H1, H2.
    destruct (w_ent _ _ _ HWw d f y H1) as (x & Hx & _ & Hd & _). destruct (w_ent _ _ _ HWw d' f' y H2) as (x' & Hx' & _ & Hd' & _). congruence.
Qed.
Lemma Who_rng cf s d f y : Who cf s -> In (f, y) (bqf s d) -> 1 <= d <= Z.of_nat (nN s) /\ 1 <= f <= Z.of_nat (nN s).
Proof.
  intros [[HW HWw] _] Hin. apply bqf_entry in Hin. destruct (w_ent _ _ _ HWw d f y Hin) as (x & _ & _ & _ & (ndf & Hf & _) & _).
  destruct Hin as (nd & Hd & _). split; eapply node_range; eauto.
Qed.

(* ---------- one event: the blocked queues move as the calls say ---------- *)
Theorem event_step_ar cf s s' : Who cf s -> event_step cf s = Ok (tt, s') ->
  ARs (nN s) (calls_event_step cf s) (bqf s) (bqf s').
Proof.
  intros HWho H. pose proof (Who_CI cf s HWho) as HC. destruct HWho as [[HW HWw] HN]. unfold event_step in H.
  mstep H.
  match goal with E : modify _ s = Ok (_, ?sa) |- _ => apply tk_modify_spec in E; subst sa end.
  mstep H.
  unfold calls_event_step. cbv zeta.
  match type of H with _ ?st = _ => set (s0 := st) in * end.
  assert (W0 : WFx [] s0) by (eapply Same_WFx; [|exact HW]; split; reflexivity).
  assert (N0 : NextOk s0) by (eapply N1_same; [| |exact HN]; reflexivity).
  assert (C0 : CI (flag s0) (bqf s0)) by exact HC.
  pose proof (WFx_Idx _ _ W0) as I0.
  mstep H.
  match goal with E : (if ?b then _ else _) s0 = Ok (?u, ?sx) |- _ => destruct u; rename sx into sB; rename E into Ev end.
  assert (TB : ARs (nN s0) (if next_active s0 =? 0 then calls_arrival cf s0 else calls_fs cf (next_active s0) s0) (bqf s0) (bqf sB) /\ WFx [] sB).
  { destruct (next_active s0 =? 0).
    - split; [|eapply arrival_have_event_spec; eauto]. apply ARs_acc; [apply calls_arrival_acc|].
      apply bqf_BQ. eapply bqk_arrival_have_event; eauto.
    - split; [|eapply finish_service_spec; eauto]. apply finish_service_ar; assumption. }
  destruct TB as (TB & WB). clear Ev.
  mstep H.
  mstep H.
  match goal with E : update_all cf _ sB = Ok (?u, ?sx) |- _ =>
    destruct u; pose proof (bk_k_update_all cf _ _ _ _ (WFx_Idx _ _ WB) E) as EC; rename sx into sC end.
  pose proof (bk_k_find_next_active_node _ _ _ (Idx_BV _ _ EC (WFx_Idx _ _ WB)) H) as ED.
  change (nN s) with (nN s0). change (bqf s) with (bqf s0).
  eapply ARs_qeq_r; [exact TB|]. eapply qeq_trans; apply bqf_BQ, BQ_of_BV; eauto.
Qed.

(* ====================================================================================================================
   4. The invariant on the ghost order, the true state, the theorems
   ==================================================================================================================== *)
(* ord lists the customers that are in blocked queues, each once, and every blocked queue is in the order of ord *)
Record OrdOK (s : sim) (ord : list Z) : Prop := mkOrd {
  o_nd : NoDup ord;
  o_sub : forall d, map snd (bqf s d) = filter (fun y => memZ y (map snd (bqf s d))) ord;
  o_all : forall y, In y ord -> exists d f, In (f, y) (bqf s d)
}.
Lemma OrdOK_PI cf s ord : Who cf s -> OrdOK s ord -> PI (nN s) (bqf s) ord.
Proof.
  intros HW [A B C]. constructor; [exact A|exact B|exact C|exact (proj2 (Who_CI cf s HW))|].
  intros d f y. apply (Who_rng cf s d f y HW).
Qed.
Lemma PI_OrdOK N s ord : PI N (bqf s) ord -> OrdOK s ord.
Proof. intros [A B C _ _]. constructor; assumption. Qed.

(* the TRUE state of MatrixBlocking, read off the configuration: customer y counts in cell (a, b) when it is in a queue of
   node a, is flagged blocked and its destination is node b; its number is its position in ord *)
Definition isblk (s : sim) (a b y : Z) : bool :=
  match nodeZ s a, find_ind y (inds s) with
  | Some nd, Some x => memZ y (all_individuals nd) && i_blocked x && (match i_dest x with Some d => d =? b | None => false end)
  | _, _ => false
  end.
Definition mb_matrix (s : sim) (ord : list Z) : list (list (list Z)) := gmat (nN s) (fun a b => cellF (isblk s a b) 1 ord).
Definition mb_true (s : sim) (ord : list Z) : mbstate := (mb_matrix s ord, map n_pop (nodes s), zlen ord + 1).

Lemma isblk_inq cf s a b y : Who cf s -> isblk s a b y = inq (bqf s) a b y.
Proof.
  intros [[HW HWw] _]. destruct (inq (bqf s) a b y) eqn:E.
  - apply inq_In, bqf_entry in E. destruct (w_ent _ _ _ HWw b a y E) as (x & Hx & Hb & Hd & (nd & Hn & Hin) & _).
    unfold isblk. rewrite Hn, Hx, Hb, Hd, Z.eqb_refl. apply memZ_In in Hin. rewrite Hin. reflexivity.
  - destruct (isblk s a b y) eqn:E2; [|reflexivity]. exfalso. apply inq_false in E. apply E. clear E.
    unfold isblk in E2. destruct (nodeZ s a) as [nd|] eqn:Hn; [|discriminate]. destruct (find_ind y (inds s)) as [x|] eqn:Hx; [|discriminate].
    apply andb_true_iff in E2 as [E2 E3]. apply andb_true_iff in E2 as [E1 E2]. apply memZ_In in E1.
    destruct (i_dest x) as [d0|] eqn:Hd; [|discriminate]. apply Z.eqb_eq in E3. subst d0.
    pose proof (find_ind_id _ _ _ Hx) as Hid.
    destruct (w_blk _ _ _ HWw x (find_In _ _ _ Hx) E2) as [[]|(d' & f & He)]. rewrite Hid in He.
    destruct (w_ent _ _ _ HWw d' f y He) as (x' & Hx' & _ & Hd' & (ndf & Hnf & Hinf) & _).
    assert (d' = b) by congruence. subst d'.
    assert (f = a) by (eapply (WFx_place [] s f a ndf nd y); eauto). subst f.
    apply bqf_entry. exact He.
Qed.
Lemma mb_matrix_mbq cf s ord : Who cf s -> mb_matrix s ord = mbq (nN s) (bqf s) ord.
Proof. intros HW. unfold mb_matrix, mbq. apply gmat_ext. intros a b _ _. apply cellF_ext. intros y _. apply (isblk_inq cf); exact HW. Qed.

Lemma inc1_len v k d v' : inc1 v k d = Some v' -> length v' = length v.
Proof. unfold inc1. destruct (nthZ v k); [|discriminate]. intros H. injection H as <-. apply tk_updZ_length. Qed.
Lemma orun_np_len cs : forall v v', orun np_step cs v = Some v' -> length v' = length v.
Proof.
  induction cs as [|c r IH]; intros v v' H; cbn [orun] in H; [injection H as <-; reflexivity|].
  destruct (np_step v c) as [v1|] eqn:E; [|discriminate]. rewrite (IH _ _ H).
  destruct c; cbn [np_step] in E; try (injection E as <-; reflexivity); eapply inc1_len; eauto.
Qed.
Lemma np_true_len s : length (np_true s) = nN s.
Proof. unfold np_true, ql, nN. rewrite !map_length. reflexivity. Qed.

(* ---------- T2 for MatrixBlocking, one event ---------- *)
Theorem event_step_mb cf s s' ord : TInv cf s -> OrdOK s ord -> event_step cf s = Ok (tt, s') ->
  TInv cf s' /\ OrdOK s' (ord_run (calls_event_step cf s) ord) /\
  orun mb_step (calls_event_step cf s) (mb_true s ord) = Some (mb_true s' (ord_run (calls_event_step cf s) ord)).
Proof.
  intros HT HO H. destruct (event_step_tracker cf s s' HT H) as (HT' & HTr).
  pose proof (proj1 HT) as HW. pose proof (proj1 HT') as HW'.
  pose proof (np_tr _ _ _ HTr) as Hnp.
  assert (EN : nN s' = nN s) by (rewrite <- !np_true_len; eapply orun_np_len; eauto).
  destruct (ARs_sim _ _ _ _ _ (OrdOK_PI cf s ord HW HO) (event_step_ar cf s s' HW H)) as (HP' & Hm).
  split; [exact HT'|]. split; [eapply PI_OrdOK; eauto|].
  unfold mb_true. rewrite (mb_matrix_mbq cf s ord HW), (mb_matrix_mbq cf s' _ HW'), EN.
  rewrite <- (proj1 (tracker_means cf s HT)), <- (proj1 (tracker_means cf s' HT')).
  apply mb_orun; assumption.
Qed.
Theorem event_step_ordok cf s s' ord : TInv cf s /\ OrdOK s ord -> event_step cf s = Ok (tt, s') ->
  TInv cf s' /\ OrdOK s' (ord_run (calls_event_step cf s) ord).
Proof. intros [HT HO] H. destruct (event_step_mb cf s s' ord HT HO H) as (A & B & _). auto. Qed.

(* ---------- any number of events, any draws ---------- *)
Lemma OrdOK_draws s d ord : OrdOK s ord -> OrdOK (s <| dr := d |>) ord.
Proof. intros [A B C]. constructor; [exact A|exact B|exact C]. Qed.

Theorem run_many_mb cf : forall ds s s' ord, TInv cf s -> OrdOK s ord -> run_many cf s ds = Ok s' ->
  TInv cf s' /\ OrdOK s' (ord_run (calls_many cf s ds) ord) /\
  orun mb_step (calls_many cf s ds) (mb_true s ord) = Some (mb_true s' (ord_run (calls_many cf s ds) ord)).
Proof.
  induction ds as [|d r IH]; intros s s' ord HT HO H; cbn [run_many calls_many] in *.
  - injection H as <-. cbn. auto.
  - destruct (event_step cf (s <| dr := d |>)) as [[u s1]| |] eqn:E; try discriminate. destruct u.
    destruct (event_step_mb cf _ s1 ord (TInv_draws cf s d HT) (OrdOK_draws s d ord HO) E) as (T1 & O1 & R1).
    destruct (IH s1 s' _ T1 O1 H) as (T2 & O2 & R2).
    rewrite ord_run_app, orun_app.
    match goal with |- context [match orun mb_step ?cs ?st with _ => _ end] =>
      replace (orun mb_step cs st) with (Some (mb_true s1 (ord_run cs ord))) by (symmetry; exact R1) end.
    split; [exact T2|split; [exact O2|exact R2]].
Qed.
Theorem run_many_ordok cf ds s s' ord : TInv cf s /\ OrdOK s ord -> run_many cf s ds = Ok s' ->
  TInv cf s' /\ OrdOK s' (ord_run (calls_many cf s ds) ord).
Proof. intros [HT HO] H. destruct (run_many_mb cf ds s s' ord HT HO H) as (A & B & _). auto. Qed.

(* ---------- the invariant and the true state in plain words ---------- *)
Definition blocked_to (s : sim) (d y : Z) : bool :=
  match find_ind y (inds s) with
  | Some x => i_blocked x && (match i_dest x with Some d' => d' =? d | None => false end)
  | None => false
  end.
Lemma cellF_NoDup f : forall l st, NoDup (cellF f st l).
Proof.
  induction l as [|y r IH]; intros st; cbn [cellF]; [constructor|]. destruct (f y); [|apply IH].
  constructor; [|apply IH]. intros Hin. apply cellF_bounds in Hin. lia.
Qed.
Lemma mb_matrix_cell s ord a b : 1 <= a <= Z.of_nat (nN s) -> 1 <= b <= Z.of_nat (nN s) ->
  exists row, nthZ (mb_matrix s ord) (a - 1) = Some row /\ nthZ row (b - 1) = Some (cellF (isblk s a b) 1 ord).
Proof. intros Ha Hb. destruct (gmat_cell (nN s) (fun a b => cellF (isblk s a b) 1 ord) a b Ha Hb) as [E1 E2]. eexists. split; [exact E1|exact E2]. Qed.

Theorem mb_means cf s ord : TInv cf s -> OrdOK s ord ->
  (* ord: the customers flagged blocked, each once *)
  NoDup ord /\
  (forall y, In y ord <-> exists x, find_ind y (inds s) = Some x /\ i_blocked x = true) /\
  (* the blocked queue of every node d is the sub-sequence of ord of the customers blocked towards d *)
  (forall d nd, nodeZ s d = Some nd -> map snd (n_bq nd) = filter (blocked_to s d) ord) /\
  (* the numbers in the cells of the true matrix are 1 .. increment-1: in range, none missing, none twice *)
  (forall a b z, In z (cellF (isblk s a b) 1 ord) -> 1 <= z <= zlen ord) /\
  (forall k, 1 <= k <= zlen ord -> exists a b, 1 <= a <= Z.of_nat (nN s) /\ 1 <= b <= Z.of_nat (nN s) /\ In k (cellF (isblk s a b) 1 ord)) /\
  (forall a b a' b' z, In z (cellF (isblk s a b) 1 ord) -> In z (cellF (isblk s a' b') 1 ord) -> a = a' /\ b = b') /\
  (forall a b, NoDup (cellF (isblk s a b) 1 ord)) /\
  (* populations: what the nodes report is what is in their queues *)
  map n_pop (nodes s) = map (fun nd => zlen (all_individuals nd)) (nodes s).
Proof.
  intros HT HO. pose proof (proj1 HT) as HWho. pose proof (OrdOK_PI cf s ord HWho HO) as HP.
  destruct HWho as [[HW HWw] HN1]. destruct HO as [A B C].
  assert (Hflag : forall y, In y ord <-> exists x, find_ind y (inds s) = Some x /\ i_blocked x = true).
  { intros y. split.
    - intros Hy. destruct (C y Hy) as (d & f & Hin). apply bqf_entry in Hin. destruct (w_ent _ _ _ HWw d f y Hin) as (x & Hx & Hb & _). eauto.
    - intros (x & Hx & Hb). pose proof (find_ind_id _ _ _ Hx) as Hid.
      destruct (w_blk _ _ _ HWw x (find_In _ _ _ Hx) Hb) as [[]|(d & f & He)]. rewrite Hid in He. apply bqf_entry in He.
      eapply PI_in_ord; eauto. }
  split; [exact A|]. split; [exact Hflag|]. split; [|split; [|split; [|split; [|split]]]].
  - intros d nd Hn. specialize (B d). rewrite (bqf_at s d nd Hn) in B. rewrite B at 1. apply filter_ext_in. intros y Hy.
    unfold blocked_to. destruct (memZ y (map snd (n_bq nd))) eqn:Em.
    + apply memZ_In in Em. apply in_map_iff in Em as ([f z] & Ez & Hin). cbn in Ez. subst z.
      assert (He : entry s d f y) by (exists nd; auto). destruct (w_ent _ _ _ HWw d f y He) as (x & Hx & Hb & Hd & _).
      rewrite Hx, Hb, Hd, Z.eqb_refl. reflexivity.
    + destruct (find_ind y (inds s)) as [x|] eqn:Hx; [|reflexivity]. destruct (i_blocked x) eqn:Hb; [|reflexivity].
      destruct (i_dest x) as [d'|] eqn:Hd; [|reflexivity]. cbn [andb]. destruct (Z.eqb_spec d' d) as [->|_]; [|reflexivity].
      pose proof (find_ind_id _ _ _ Hx) as Hid. destruct (w_blk _ _ _ HWw x (find_In _ _ _ Hx) Hb) as [[]|(d2 & f & He)]. rewrite Hid in He.
      destruct (w_ent _ _ _ HWw d2 f y He) as (x' & Hx' & _ & Hd' & _). assert (d2 = d) by congruence. subst d2.
      destruct He as (nd' & Hn' & Hin). unfold nodeZ in Hn', Hn. rewrite Hn in Hn'. injection Hn' as <-.
      apply In_snd, memZ_In in Hin. congruence.
  - intros a b z Hz. apply cellF_bounds in Hz. lia.
  - intros k Hk. destruct (nth_error ord (Z.to_nat (k - 1))) as [y|] eqn:Ey; [|apply nth_error_None in Ey; unfold zlen in Hk; lia].
    destruct (C y (nth_error_In _ _ Ey)) as (d & f & Hin). destruct (p_rng _ _ _ HP d f y Hin) as [Hd Hf].
    exists f, d. split; [exact Hf|]. split; [exact Hd|]. apply cellF_In. exists (Z.to_nat (k - 1)), y. split; [exact Ey|]. split; [|lia].
    rewrite (isblk_inq cf s f d y (conj (conj HW HWw) HN1)). apply inq_In. exact Hin.
  - intros a b a' b' z H1 H2. apply cellF_In in H1 as (n1 & y1 & E1 & F1 & Z1). apply cellF_In in H2 as (n2 & y2 & E2 & F2 & Z2).
    assert (n1 = n2) by lia. subst n2. assert (y1 = y2) by congruence. subst y2.
    rewrite (isblk_inq cf s a b y1 (conj (conj HW HWw) HN1)) in F1. rewrite (isblk_inq cf s a' b' y1 (conj (conj HW HWw) HN1)) in F2.
    apply inq_In in F1, F2.
    assert (b = b') by (eapply (proj2 (p_uq _ _ _ HP)); eauto). subst b'. split; [|reflexivity].
    eapply NoDup_map_snd_inj; [exact (proj1 (p_uq _ _ _ HP) b)|exact F1|exact F2].
  - intros a b. apply cellF_NoDup.
  - rewrite <- (proj1 (tracker_means cf s HT)). unfold np_true, ql. rewrite map_map. reflexivity.
Qed.

(* ---------- corollary: what the tracker holds after any run: numbers 1 .. increment-1, none missing; counts >= 0 ---------- *)
Theorem mb_never_negative cf ds s s' ord m pops inc : TInv cf s -> OrdOK s ord -> run_many cf s ds = Ok s' ->
  orun mb_step (calls_many cf s ds) (mb_true s ord) = Some (m, pops, inc) ->
  (forall row c z, In row m -> In c row -> In z c -> 1 <= z < inc) /\
  (forall k, 1 <= k < inc -> exists row c, In row m /\ In c row /\ In k c) /\
  Forall (fun z => 0 <= z) pops /\ 1 <= inc.
Proof.
  intros HT HO H E. destruct (run_many_mb cf ds s s' ord HT HO H) as (HT' & HO' & R). rewrite R in E. clear R.
  set (ord' := ord_run (calls_many cf s ds) ord) in *. unfold mb_true in E. injection E as <- <- <-.
  split; [|split; [|split]].
  - intros row c z Hr Hc Hz. unfold mb_matrix, gmat in Hr. apply in_map_iff in Hr as (a & <- & _). apply in_map_iff in Hc as (b & <- & _).
    apply cellF_bounds in Hz. lia.
  - intros k Hk. destruct (mb_means cf s' ord' HT' HO') as (_ & _ & _ & _ & Hgap & _).
    destruct (Hgap k ltac:(lia)) as (a & b & Ha & Hb & Hin).
    exists (map (fun b0 => cellF (isblk s' a b0) 1 ord') (zseq 1 (nN s'))), (cellF (isblk s' a b) 1 ord').
    split; [|split; [|exact Hin]].
    + unfold mb_matrix, gmat. apply (in_map (fun a0 => map (fun b0 => cellF (isblk s' a0 b0) 1 ord') (zseq 1 (nN s')))). apply zseq_In. lia.
    + apply (in_map (fun b0 => cellF (isblk s' a b0) 1 ord')). apply zseq_In. lia.
  - rewrite <- (proj1 (tracker_means cf s' HT')). exact (proj1 (proj2 (true_states_nonneg s'))).
  - unfold zlen. lia.
Qed.

(* ---------- executable tests of the hypotheses ---------- *)
Definition ordok_b (s : sim) (ord : list Z) : bool :=
  bk_nodup_b ord
  && forallb (fun nd => list_eqb (map snd (n_bq nd)) (filter (fun y => memZ y (map snd (n_bq nd))) ord)) (nodes s)
  && forallb (fun y => existsb (fun nd => memZ y (map snd (n_bq nd))) (nodes s)) ord.
Theorem ordok_b_sound s ord : ordok_b s ord = true -> OrdOK s ord.
Proof.
  unfold ordok_b. intros H. apply andb_true_iff in H as [H H3]. apply andb_true_iff in H as [H1 H2].
  rewrite forallb_forall in H2, H3. constructor.
  - apply bk_nodup_b_sound. exact H1.
  - intros d. unfold bqf. destruct (nodeZ s d) as [nd|] eqn:En.
    + apply list_eqb_eq. apply H2. eapply nodeZ_In; eauto.
    + cbn. symmetry. apply tm_filter_false.
  - intros y Hy. specialize (H3 y Hy). apply existsb_exists in H3 as (nd & Hnd & Hm). apply memZ_In in Hm.
    apply in_map_iff in Hm as ([f z] & Ez & Hin). cbn in Ez. subst z. apply In_nth_error in Hnd as (k & Hk).
    exists (Z.of_nat k + 1), f. unfold bqf. rewrite nodeZ_of_nat, Hk. exact Hin.
Qed.
(* the whole hypothesis of the theorems *)
Definition MBInv (cf : config) (s : sim) (ord : list Z) : Prop := TInv cf s /\ OrdOK s ord.
Definition mbinv_b (cf : config) (s : sim) (ord : list Z) : bool := tinv_b cf s && ordok_b s ord.
Theorem mbinv_b_sound cf s ord : mbinv_b cf s ord = true -> MBInv cf s ord.
Proof. unfold mbinv_b. intros H. apply andb_true_iff in H as [H1 H2]. split; [apply tinv_b_sound; exact H1|apply ordok_b_sound; exact H2]. Qed.
(* a state in which nobody is blocked: the empty order *)
Lemma ordok_empty s : (forall nd, In nd (nodes s) -> n_bq nd = []) -> OrdOK s [].
Proof.
  intros H. assert (E : forall d, bqf s d = []).
  { intros d. unfold bqf. destruct (nodeZ s d) as [nd|] eqn:En; [apply H; eapply nodeZ_In; eauto|reflexivity]. }
  constructor; [constructor|intros d; rewrite E; reflexivity|intros y []].
Qed.

(* ---------- the same objects in the words of the T1 side (Sub/Tracker.v: ranked, ghost_step) ---------- *)
Lemma cellF_ranked f : forall l st, cellF f st l = map snd (filter (fun p => f (fst p)) (combine l (zseq st (length l)))).
Proof.
  induction l as [|y r IH]; intros st; cbn [cellF length zseq combine filter]; [reflexivity|]. cbn [fst].
  destruct (f y); cbn [map snd]; rewrite IH; reflexivity.
Qed.
Lemma delZ_remove_first i : forall l, NoDup l -> CiwV.Sub.Tracker.remove_first i l = delZ i l.
Proof.
  induction l as [|y r IH]; intros Hnd; [reflexivity|]. apply NoDup_cons_iff in Hnd as [Hn Hd]. cbn [CiwV.Sub.Tracker.remove_first].
  unfold delZ. cbn [filter]. destruct (Z.eqb_spec y i) as [->|Hne]; cbn [negb].
  - symmetry. apply (delZ_notin i r Hn).
  - f_equal. apply IH. exact Hd.
Qed.
Lemma ord_step_ghost ord j d i pc : NoDup ord ->
  ord_step ord (Blk j d i pc) = CiwV.Sub.Tracker.ghost_step ord (CiwV.Sub.Tracker.Blk i) /\
  ord_step ord (Rel j d i pc true) = CiwV.Sub.Tracker.ghost_step ord (CiwV.Sub.Tracker.Unb i).
Proof. intros H. split; [reflexivity|]. cbn. symmetry. apply delZ_remove_first. exact H. Qed.

(* ====================================================================================================================
   5. Non-vacuity: the fan-out.  Node 1 (three servers) feeds nodes 2 and 3 (one server each, no waiting room) half and
   half; customers 1, 2, 3 are in service at node 1 until 3, 4, 5, customer 4 fills node 2 until 20, customer 5 fills node 3
   until 10.  Customers 1, 2, 3 become blocked towards 2, 3, 2 -- three at once, two destinations -- and are released in
   the order 2, 1, 3.
   ==================================================================================================================== *)
Definition mbex_cf : config :=
  mkCfg 1 [mkNcfg (Some 3) None None 0; mkNcfg (Some 1) (Some 1) None 0; mkNcfg (Some 1) (Some 1) None 0] [0] 1 None
        [[[0; 4; 4]; [0; 0; 0]; [0; 0; 0]]] [[None; None; None]].
Definition mbex_i (i nd send sid qa : Z) : ind :=
  mkInd i 0 0 0 0 0 (Some nd) (Some 0) (Some 0) (Some send) (Some send) None false (Some sid) None (Some qa) None 0.
Definition mbex_n1 : node :=
  mkNode 1 3 3 [[1; 2; 3]] [mkServer 1 (Some 1) true (Some 3) 0 None 0; mkServer 2 (Some 2) true (Some 4) 0 None 0; mkServer 3 (Some 3) true (Some 5) 0 None 0]
         [] 0 (Some 3) [1].
Definition mbex_n2 : node := mkNode 2 1 1 [[4]] [mkServer 1 (Some 4) true (Some 20) 0 None 0] [] 0 (Some 20) [4].
Definition mbex_n3 : node := mkNode 3 1 1 [[5]] [mkServer 1 (Some 5) true (Some 10) 0 None 0] [] 0 (Some 10) [5].
Definition mbex_s0 : sim :=
  mkSim 3 1 (mkArr 5 5 [[None]; [None]; [None]] 1 0 None) [mbex_n1; mbex_n2; mbex_n3] [] 0 0
        [mbex_i 1 1 3 1 0; mbex_i 2 1 4 2 1; mbex_i 3 1 5 3 2; mbex_i 4 2 20 1 0; mbex_i 5 3 10 1 0] (mkDraws [] [] [] []) [].
(* routing draw low -> node 2, high -> node 3; service draws 30 or 5 *)
Definition mbex_lo : draws := mkDraws [] [] [30] [1; 1].
Definition mbex_hi : draws := mkDraws [] [] [30] [4503599627370497; 1].
Definition mbex_5 : draws := mkDraws [] [] [5] [1; 1].
Definition mbex_frames : list draws := [mbex_lo; mbex_hi; mbex_lo; mbex_lo; mbex_5; mbex_lo; mbex_lo].

Example mbex_hyps : mbinv_b mbex_cf mbex_s0 [] = true.
Proof. vm_compute. reflexivity. Qed.
Example mbex_MBInv : MBInv mbex_cf mbex_s0 [].
Proof. apply mbinv_b_sound. vm_compute. reflexivity. Qed.
Example mbex_calls : calls_many mbex_cf mbex_s0 mbex_frames =
  [Blk 1 2 1 0; Blk 1 3 2 0; Blk 1 2 3 0;
   Rel 3 0 5 0 false; Rel 1 3 2 0 true; Acc 3 0;
   Rel 2 0 4 0 false; Rel 1 2 1 0 true; Acc 2 0;
   Rel 2 0 1 0 false; Rel 1 2 3 0 true; Acc 2 0;
   Rel 3 0 2 0 false].
Proof. vm_compute. reflexivity. Qed.
(* after three events: customers 1, 2, 3 are blocked (in this order) towards 2, 3, 2; the incremental tracker, started from
   the true state of the initial state, holds the true state: numbers 1 and 3 in cell (1, 2), number 2 in cell (1, 3) *)
Example mbex_blocked : exists s3, run_many mbex_cf mbex_s0 (firstn 3 mbex_frames) = Ok s3 /\
  let cs := calls_many mbex_cf mbex_s0 (firstn 3 mbex_frames) in
  ord_run cs [] = [1; 2; 3] /\ map n_bq (nodes s3) = [[]; [(1, 1); (1, 3)]; [(1, 2)]] /\
  mb_true s3 [1; 2; 3] = ([[[]; [1; 3]; [2]]; [[]; []; []]; [[]; []; []]], [3; 1; 1], 4) /\
  orun mb_step cs (mb_true mbex_s0 []) = Some (mb_true s3 [1; 2; 3]) /\
  mbinv_b mbex_cf s3 [1; 2; 3] = true.
Proof. eexists. split; [vm_compute; reflexivity|]. vm_compute. auto 10. Qed.
(* fourth event: customer 5 leaves node 3 and customer 2 -- number 2, NOT the oldest -- takes the place: cell (1, 3) is
   popped, customer 3's number goes down from 3 to 2 (adjust_positions), increment from 4 to 3 *)
Example mbex_released : exists s4, run_many mbex_cf mbex_s0 (firstn 4 mbex_frames) = Ok s4 /\
  let cs := calls_many mbex_cf mbex_s0 (firstn 4 mbex_frames) in
  ord_run cs [] = [1; 3] /\ map n_bq (nodes s4) = [[]; [(1, 1); (1, 3)]; []] /\
  mb_true s4 [1; 3] = ([[[]; [1; 2]; []]; [[]; []; []]; [[]; []; []]], [2; 1; 1], 3) /\
  orun mb_step cs (mb_true mbex_s0 []) = Some (mb_true s4 [1; 3]) /\
  mbinv_b mbex_cf s4 [1; 3] = true.
Proof. eexists. split; [vm_compute; reflexivity|]. vm_compute. auto 10. Qed.
(* all seven events: everybody has been released (order of release 2, 1, 3; order of blocking 1, 2, 3) *)
Example mbex_run : exists s7, run_many mbex_cf mbex_s0 mbex_frames = Ok s7 /\
  let cs := calls_many mbex_cf mbex_s0 mbex_frames in
  ord_run cs [] = [] /\ exit_ids s7 = [5; 4; 1; 2] /\
  orun mb_step cs (mb_true mbex_s0 []) = Some (mb_true s7 []) /\
  mb_true s7 [] = ([[[]; []; []]; [[]; []; []]; [[]; []; []]], [0; 1; 0], 1) /\
  mbinv_b mbex_cf s7 [] = true.
Proof. eexists. split; [vm_compute; reflexivity|]. vm_compute. auto 10. Qed.
(* the same by the theorems (not by computation), for any sequence of draws *)
Example mbex_thm : forall ds s', run_many mbex_cf mbex_s0 ds = Ok s' ->
  MBInv mbex_cf s' (ord_run (calls_many mbex_cf mbex_s0 ds) []) /\
  orun mb_step (calls_many mbex_cf mbex_s0 ds) (mb_true mbex_s0 []) = Some (mb_true s' (ord_run (calls_many mbex_cf mbex_s0 ds) [])).
Proof.
  intros ds s' H. destruct mbex_MBInv as [HT HO]. destruct (run_many_mb mbex_cf ds _ s' [] HT HO H) as (A & B & C).
  split; [split; assumption|exact C].
Qed.

Print Assumptions AR_sim.
Print Assumptions ARs_sim.
Print Assumptions rel_head_split.
Print Assumptions release_ar.
Print Assumptions event_step_ar.
Print Assumptions event_step_mb.
Print Assumptions event_step_ordok.
Print Assumptions run_many_mb.
Print Assumptions run_many_ordok.
Print Assumptions mb_means.
Print Assumptions mb_never_negative.
Print Assumptions ordok_b_sound.
Print Assumptions mbinv_b_sound.
Print Assumptions ord_step_ghost.
Print Assumptions mbex_blocked.
Print Assumptions mbex_released.
Print Assumptions mbex_run.
Print Assumptions mbex_thm.
